(** C19 (no input can crash Package Operator): the panic-site table and the stage models.

    A Gallina function cannot panic, so partiality is explicit: every modelled stage returns
    [Ok | Err | Panic site], with a [Panic] constructor at exactly the places where the Go code
    has an unchecked type assertion, an index/slice expression, a nil dereference after an
    unchecked error, or an explicit panic. The type [site_id] has one constructor per ACCOUNTED
    site; [descr] gives the identity the translator (harness/cmd/verif-sites) prints for it
    (file, function, kind, normalised expression, syntactic guard flag, occurrence count; no line
    numbers), [verdict_of] says why the site is harmless - or that it is not. The check regenerates
    the inventory from the source on every run and evaluates [unaccounted inventory] here.

    This file holds definitions only. Stdlib only. *)
From Coq Require Import List Bool Arith NArith ZArith String Ascii.
Import ListNotations.
Local Open Scope string_scope.

(* ------------------------------------------------------------------ the site table *)

Inductive kind := KAssert | KIndex | KPanic | KMust | KNilderef | KRecursion | KNilarg | KNilfield | KDyncmp | KUnsetfield.

Inductive verdict :=
| Validated (validator : string)   (* unreachable: an earlier stage (named) rejects every input that would reach it *)
| ByConstruction (why : string)    (* guarded by the code's own construction (List.length check, range index, constant) *)
| Reachable (finding : string)     (* reachable from package content / cluster state: a known finding *)
| Library (why : string)           (* depends on a contract of a runtime library that is not modelled *)
| Fixed (commit : string) (finding : string).  (* HISTORICAL: a site of an earlier tree, repaired by the named commit;
                                                  such entries are not part of [accounted] - if the site comes back the
                                                  inventory no longer matches *)

Record site := mk {
  s_file : string; s_func : string; s_kind : kind; s_expr : string; s_guarded : bool; s_n : N }.

Definition kind_eqb (a b : kind) : bool :=
  match a, b with
  | KAssert, KAssert | KIndex, KIndex | KPanic, KPanic | KMust, KMust
  | KNilderef, KNilderef | KRecursion, KRecursion | KNilarg, KNilarg | KNilfield, KNilfield | KDyncmp, KDyncmp | KUnsetfield, KUnsetfield => true
  | _, _ => false
  end.

Definition site_eqb (a b : site) : bool :=
  String.eqb (s_file a) (s_file b) && String.eqb (s_func a) (s_func b) && kind_eqb (s_kind a) (s_kind b)
  && String.eqb (s_expr a) (s_expr b) && Bool.eqb (s_guarded a) (s_guarded b) && N.eqb (s_n a) (s_n b).

Inductive site_id :=
(* internal/cmd (kubectl-package) *)
| S_cmd_Package_CurrentRevision | S_cmd_ObjectDeployment_CurrentRevision | S_cmd_findObjectSets_items
| S_cmd_ObjectSet_getConditions | S_cmd_ObjectSet_Revision | S_cmd_FindRevision_idx | S_cmd_PackageSetPaused_panic
| S_cmd_tree_getTemplateContext_0 | S_cmd_tree_getConfig_0 | S_cmd_update_lockImages
(* internal/controllers/objecttemplate *)
| S_ot_vslice0 | S_v0_ot_destination0 | S_ot_destination0
| S_v0_ot_cond_type | S_v0_ot_cond_status | S_v0_ot_cond_reason | S_v0_ot_cond_message
| S_ot_jsonRegexp | S_ot_submatches1 | S_ot_submatches2
(* internal/controllers *)
| S_pr_desiredObjects | S_pr_prevGVK_panic | S_prl_previousSets
(* packageimport *)
| S_imp_walkWithSymlinks | S_v0_imp_hdr
(* packagemanifestvalidation *)
| S_mv_newlineMatcher | S_mv_testconfig_panic | S_mv_schema_recursion | S_mv_typeInfo | S_mv_xvalidations
| S_mv_validatorAdapter_panic | S_v0_mv_nil_envset | S_v0_mv_nil_envloader | S_mv_MustBaseEnvSet | S_mv_nil_rootschema
(* packagerender *)
| S_cel_conditionNameRegexp | S_cel_evaluate_bool
| S_cm_parts0 | S_cm_parts1 | S_cm_outputMappings
| S_ro_paths_i | S_ro_paths_j
| S_col_objs_i | S_v0_col_panic | S_col_panic | S_col_entries_i | S_col_entries_j | S_col_phases_i
| S_tmpl_ctx_package | S_tmpl_ctx_metadata
(* packagestructure *)
| S_ps_gvks0 | S_ps_groupVersions | S_ps_versions | S_ps_init_panic | S_ps_parts1 | S_ps_load_recursion
| S_ps_convert_ctx_manifest | S_ps_convert_ctx_lock | S_ps_convert_ctx_repo | S_ps_convert_ctx_entry
(* probing *)
| S_ip_probeList | S_pp_cel_bool | S_pp_toUnstructured
(* boxcutter ownerhandling (dependency; not fixable in this tree) *)
| S_bx_a_Enqueue_panic | S_bx_a_SetOwner_assert | S_bx_a_SetOwner_idx | S_bx_a_SetCtrl_assert | S_bx_a_SetCtrl_idx
| S_bx_a_Release_idx | S_bx_a_getOwnerReferences_panic | S_bx_a_setOwnerReferences_panic | S_bx_a_indexOf
| S_bx_a_cmp_panic1 | S_bx_a_cmp_panic2 | S_bx_a_kinds0
| S_bx_remove_i | S_bx_remove_last | S_bx_remove_slice
| S_bx_n_Release_idx | S_bx_n_cmp_panic1 | S_bx_n_cmp_panic2 | S_bx_n_referSame_panic
(* packagedeploy, transform include; the historical unset field of the cluster deployer *)
| S_pd_newOSList_panic | S_pd_newOSList_assert | S_pd_newCOSList_panic | S_pd_newCOSList_assert | S_pd_OSList_out_i | S_pd_OSList_items_i | S_pd_COSList_out_i | S_pd_COSList_items_i | S_pd_chunk_out_i
| N_pd_Deploy_tmplCtx_Config | N_pd_Deploy_pkg_ManifestLock | N_pd_desired_pkgInstance_Manifest | N_pd_checkConstraints_PlatformVersion | N_pd_checkConstraints_PlatformVersion_via_pv | N_pd_checkConstraints_env_OpenShift | S_pd_phases_i | S_pd_sliceNames_i | S_tf_include_reentry
| S_v0_pd_uncachedClient_unset
(* dereferences of pointer-typed struct fields (kind nilfield), one per (function, chain, guarded) *)
| N_cmd_WaitForCondition_w_waiter | N_tree_RenderPackage_pkgInstance_Manifest | N_tree_getTemplateContext_pkg_Manifest
| N_tree_getConfig_pkg_Manifest | N_tree_getConfig_test_Context_Config
| N_tree_getConfig_pkg_Manifest_Test_Template_0_Context_Config_via_testCtxCfg | N_update_GenerateLockData_pkg_Manifest
| N_update_GenerateLockData_pkg_ManifestLock | N_config_GetBackoff_c_InitialBackoff | N_config_GetBackoff_c_MaxBackoff
| N_objecttemplatecontroller_SetEnvironment_c_templateReconciler | N_requestmanager_handleResponse_res_RawPackage
| N_helpers_getExpressionCost_cardinalityCost_MaxCardinality | N_helpers_validateMapListKeysMapSet_schema_Items
| N_helpers_validateMapListKeysMapSet_schema_XListType | N_helpers_validateMapListKeysMapSet_schema_Items_Schema
| N_manifest_ValidatePackageManifest_template_Context_Config | N_manifest_ValidatePackageManifest_obj_Test_Kubeconform
| N_manifest_validateConstraints_constraint_PlatformVersion
| N_private_validateCustomResourceDefinitionValidation_customResourceValidation_OpenAPIV3Schema_via_schema
| N_private_validateCustomResourceDefinitionValidation_celContext_TotalCost
| N_private_validateCustomResourceDefinitionOpenAPISchema_schema_AdditionalProperties
| N_private_validateCustomResourceDefinitionOpenAPISchema_schema_XListType
| N_private_validateCustomResourceDefinitionOpenAPISchema_schema_Items
| N_private_validateCustomResourceDefinitionOpenAPISchema_schema_XPreserveUnknownFields
| N_private_xmaptypenotnil_schema_XMapType | N_private_xlisttypenotnil_schema_XListType
| N_private_xlisttypenotnil_schema_Items | N_private_xlisttypenotnil_schema_Items_Schema_via_is
| N_private_xlisttypenotnil_is_XListType | N_private_xlisttypenotnil_is_XMapType
| N_private_schemaitemsnotNil_schema_Items | N_private_schemaitemsnotNil_schema_Items_Schema
| N_private_validateXListTypeMap_schema_Items | N_private_validateXListTypeMap_schema_Items_Schema
| N_private_validateSchemaStuffWithXPrefixedName_celContext_TotalCost
| N_private_validateSchemaStuffWithXPrefixedName_cr_Error
| N_private_validatePackageManifestConfig_config_OpenAPIV3Schema_via_schema | N_private_Validate_v_v
| N_validator_validate_schema_Items | N_cel_evaluate_cc_env | N_objects_RenderObjectsWithFilterInfo_pkg_Manifest
| N_objectsettemplate_RenderObjectSetTemplateSpec_pkgInstance_Manifest | N_template_RenderTemplates_pkg_Manifest
| N_structure_load_pkg_Manifest | N_kubeconform_defaultKubeconformSchemaLocations_manifest_Test_Kubeconform
| N_kubeconform_kubeconformValidatorFromManifest_manifest_Test_Kubeconform
| N_lockfile_ValidatePackage_pkg_ManifestLock | N_lockfile_ValidatePackage_pkg_Manifest
| N_lockfile_ValidatePackage_pkg_ManifestLock_2 | N_templatevalidation_doValidatePackage_pkg_Manifest
| N_templatevalidation_runTestCase_testCase_Context_Config | N_validation_ValidatePackage_pkg_Manifest
| N_validation_ValidatePackage_pkg_Manifest_2 | N_parse_ParseSelector_selector_Kind
| N_parse_ParseProbes_probeSpec_FieldsEqual | N_parse_ParseProbes_probeSpec_Condition
| N_parse_ParseProbes_probeSpec_CEL | N_bxannotation_GetController_ref_Controller
| N_bxannotation_SetControllerReference_ownerRef_Controller | N_bxannotation_IsController_ownerRef_Controller
| N_bxannotation_isController_r_Controller | N_bxannotation_getOwnerReconcileRequest_e_ownerStrategy
| N_bxnative_GetController_ref_Controller | N_bxnative_IsController_ownerRef_Controller.

Definition F_cmd_client := "internal/cmd/client.go".
Definition F_ot := "internal/controllers/objecttemplate/template_reconciler.go".
Definition F_mv_private := "internal/packages/internal/packagemanifestvalidation/private.go".
Definition F_cm := "internal/packages/internal/packagerender/conditionmap.go".
Definition F_ro := "internal/packages/internal/packagerender/objects.go".
Definition F_col := "internal/packages/internal/packagerender/objectsettemplate.go".
Definition F_tmpl := "internal/packages/internal/packagerender/template.go".
Definition F_conv := "internal/packages/internal/packagestructure/conversion.go".
Definition F_psm := "internal/packages/internal/packagestructure/manifest.go".
Definition F_struct := "internal/packages/internal/packagestructure/structure.go".
Definition F_bxa := "pkg.package-operator.run/boxcutter/ownerhandling/annotation.go".
Definition F_bxc := "pkg.package-operator.run/boxcutter/ownerhandling/common.go".
Definition F_bxn := "pkg.package-operator.run/boxcutter/ownerhandling/native.go".
Definition Fn_ot_update := "updateStatusConditionsFromOwnedObject".
Definition NotRunnable := "%T is not a runtime.Object, cannot call SetOwnerReference".

Definition descr (i : site_id) : site :=
  match i with
  | S_cmd_Package_CurrentRevision => mk F_cmd_client "(*Package).CurrentRevision" KAssert "p.obj.(*corev1alpha1.Package)" false 1
  | S_cmd_ObjectDeployment_CurrentRevision =>
      mk F_cmd_client "(*ObjectDeployment).CurrentRevision" KAssert "d.obj.(*corev1alpha1.ObjectDeployment)" false 1
  | S_cmd_findObjectSets_items => mk F_cmd_client "findObjectSets" KIndex "sets.Items[i]" true 2
  | S_cmd_ObjectSet_getConditions => mk F_cmd_client "(*ObjectSet).getConditions" KAssert "s.obj.(*corev1alpha1.ObjectSet)" false 1
  | S_cmd_ObjectSet_Revision => mk F_cmd_client "(*ObjectSet).Revision" KAssert "s.obj.(*corev1alpha1.ObjectSet)" false 1
  | S_cmd_FindRevision_idx => mk F_cmd_client "(ObjectSetList).FindRevision" KIndex "l[idx]" false 1
  | S_cmd_PackageSetPaused_panic =>
      mk "internal/cmd/pause.go" "(*Client).PackageSetPaused" KPanic
         "panic(""This path must never be taken. Caller has to check for valid kind!"") [switch kind default]" false 1
  | S_cmd_tree_getTemplateContext_0 =>
      mk "internal/cmd/tree.go" "(*Tree).getTemplateContext" KIndex "pkg.Manifest.Test.Template[0]" true 1
  | S_cmd_tree_getConfig_0 => mk "internal/cmd/tree.go" "(*Tree).getConfig" KIndex "pkg.Manifest.Test.Template[0]" true 1
  | S_cmd_update_lockImages => mk "internal/cmd/update.go" "(Update).GenerateLockData" KIndex "lockImages[i]" false 1
  | S_ot_vslice0 => mk F_ot "copySourceItem" KIndex "vslice[0]" true 1
  | S_v0_ot_destination0 => mk F_ot "copySourceItem" KIndex "item.Destination[0]" false 1
  | S_ot_destination0 => mk F_ot "copySourceItem" KIndex "item.Destination[0]" true 1
  | S_v0_ot_cond_type => mk F_ot Fn_ot_update KAssert "condMap[""type""].(string)" false 1
  | S_v0_ot_cond_status => mk F_ot Fn_ot_update KAssert "condMap[""status""].(string)" false 1
  | S_v0_ot_cond_reason => mk F_ot Fn_ot_update KAssert "condMap[""reason""].(string)" false 1
  | S_v0_ot_cond_message => mk F_ot Fn_ot_update KAssert "condMap[""message""].(string)" false 1
  | S_ot_jsonRegexp => mk F_ot "var jsonRegexp" KMust "regexp.MustCompile(`^\{\.?([^{}]+)\}$|^\.?([^{}]+)$`)" true 1
  | S_ot_submatches1 => mk F_ot "RelaxedJSONPathExpression" KIndex "submatches[1]" true 2
  | S_ot_submatches2 => mk F_ot "RelaxedJSONPathExpression" KIndex "submatches[2]" true 1
  | S_pr_desiredObjects =>
      mk "internal/controllers/phase_reconciler.go" "(*PhaseReconciler).ReconcilePhase" KIndex "desiredObjects[i]" false 2
  | S_pr_prevGVK_panic =>
      mk "internal/controllers/phase_reconciler.go" "(*defaultAdoptionChecker).isControlledByPreviousRevision" KPanic
         "panic(err) [if err != nil]" false 1
  | S_prl_previousSets =>
      mk "internal/controllers/previous_revision_lookup.go" "(*PreviousRevisionLookup).Lookup" KIndex "previousSets[i]" false 1
  | S_imp_walkWithSymlinks =>
      mk "internal/packages/internal/packageimport/index.go" "walkWithSymlinks" KRecursion "walkWithSymlinks" false 1
  | S_v0_imp_hdr =>
      mk "internal/packages/internal/packageimport/oci.go" "FromOCI" KNilderef "hdr.Name after tarReader.Next()" false 1
  | S_mv_newlineMatcher =>
      mk "internal/packages/internal/packagemanifestvalidation/helpers.go" "var newlineMatcher" KMust
         "regexp.MustCompile(`[\n\r]+`)" true 1
  | S_mv_testconfig_panic =>
      mk "internal/packages/internal/packagemanifestvalidation/manifest.go" "ValidatePackageManifest" KPanic "panic(err) [if len(configErrors) == 0; if err != nil]" false 1
  | S_mv_schema_recursion =>
      mk F_mv_private "validateCustomResourceDefinitionOpenAPISchema" KRecursion "validateCustomResourceDefinitionOpenAPISchema" false 10
  | S_mv_typeInfo =>
      mk F_mv_private "validateSchemaStuffWithXPrefixedName" KNilderef "typeInfo.Schema after celContext.TypeInfo()" false 1
  | S_mv_xvalidations => mk F_mv_private "validateSchemaStuffWithXPrefixedName" KIndex "schema.XValidations[i]" true 2
  | S_mv_validatorAdapter_panic =>
      mk F_mv_private "(validatorAdapter).Validate" KPanic
         "panic(""got options from apiextensions-apiserver but kube-openapi does not support them"") [if len(opts) != 0]" false 1
  | S_v0_mv_nil_envset =>
      mk F_mv_private "validateSchemaStuffWithXPrefixedName" KNilarg "nil arg 3 (*environment.EnvSet) of cel.Compile" false 1
  | S_v0_mv_nil_envloader =>
      mk F_mv_private "validateSchemaStuffWithXPrefixedName" KNilarg "nil arg 4 (cel.EnvLoader) of cel.Compile" false 1
  | S_mv_nil_rootschema =>
      mk F_mv_private "validatePackageConfigurationBySchema" KNilarg "nil arg 1 (interface{}) of validate.NewSchemaValidator" false 1
  | S_ps_convert_ctx_manifest => mk F_conv "ManifestFromFile" KNilarg "nil arg 2 (interface{}) of scheme.Convert" false 1
  | S_ps_convert_ctx_lock => mk F_psm "ToV1Alpha1ManifestLock" KNilarg "nil arg 2 (interface{}) of scheme.Convert" false 1
  | S_ps_convert_ctx_repo => mk F_psm "ToV1Alpha1Repository" KNilarg "nil arg 2 (interface{}) of scheme.Convert" false 1
  | S_ps_convert_ctx_entry => mk F_psm "ToV1Alpha1RepositoryEntry" KNilarg "nil arg 2 (interface{}) of scheme.Convert" false 1
  | S_mv_MustBaseEnvSet =>
      mk F_mv_private "validateSchemaStuffWithXPrefixedName" KMust
         "environment.MustBaseEnvSet(environment.DefaultCompatibilityVersion(), true)" false 1
  | S_cel_conditionNameRegexp =>
      mk "internal/packages/internal/packagerender/celctx/cel.go" "var conditionNameRegexp" KMust
         "regexp.MustCompile(""^[_a-zA-Z][_a-zA-Z0-9]*$"")" true 1
  | S_cel_evaluate_bool =>
      mk "internal/packages/internal/packagerender/celctx/cel.go" "(*CelCtx).evaluate" KAssert "out.Value().(bool)" false 1
  | S_cm_parts0 => mk F_cm "parseConditionMapAnnotation" KIndex "parts[0]" true 2
  | S_cm_parts1 => mk F_cm "parseConditionMapAnnotation" KIndex "parts[1]" true 2
  | S_cm_outputMappings => mk F_cm "parseConditionMapAnnotation" KIndex "outputMappings[i]" false 1
  | S_ro_paths_i => mk F_ro "RenderObjectsWithFilter" KIndex "paths[i]" false 2
  | S_ro_paths_j => mk F_ro "RenderObjectsWithFilter" KIndex "paths[j]" false 1
  | S_col_objs_i => mk F_col "(phaseCollector).AddObjects" KIndex "objs[i]" true 1
  | S_v0_col_panic => mk F_col "(phaseCollector).AddObjects" KPanic "panic(err) [if err != nil]" false 1
  | S_col_panic =>
      mk F_col "(phaseCollector).AddObjects" KPanic
         "panic(fmt.Errorf(""condition-map annotation was accepted when parsing objects but is invalid: %w"", err)) [if err != nil]" false 1
  | S_col_entries_i => mk F_col "(phaseCollector).Collect" KIndex "entries[i]" true 1
  | S_col_entries_j => mk F_col "(phaseCollector).Collect" KIndex "entries[j]" true 1
  | S_col_phases_i => mk F_col "(phaseCollector).Collect" KIndex "phases[i]" false 1
  | S_tmpl_ctx_package => mk F_tmpl "workaroundnovalue" KAssert "actualCtx[""package""].(map[string]any)" false 1
  | S_tmpl_ctx_metadata =>
      mk F_tmpl "workaroundnovalue" KAssert "actualCtx[""package""].(map[string]any)[""metadata""].(map[string]any)" false 1
  | S_ps_gvks0 => mk F_conv "ManifestFromFile" KIndex "gvks[0]" false 1
  | S_ps_groupVersions => mk F_conv "ManifestFromFile" KIndex "groupVersions[i]" true 1
  | S_ps_versions => mk F_conv "ManifestFromFile" KIndex "versions[i]" false 1
  | S_ps_init_panic => mk "internal/packages/internal/packagestructure/default.go" "init" KPanic "panic(err) [if err != nil]" false 1
  | S_ps_parts1 => mk F_struct "(*StructuralLoader).load" KIndex "parts[1]" true 1
  | S_ps_load_recursion => mk F_struct "(*StructuralLoader).load" KRecursion "l.load" false 1
  | S_ip_probeList => mk "internal/probing/parse.go" "Parse" KIndex "probeList[i]" false 1
  | S_pp_cel_bool => mk "pkg/probing/cel.go" "(*CELProbe).probe" KAssert "val.Value().(bool)" false 1
  | S_pp_toUnstructured =>
      mk "pkg/probing/probe.go" "toUnstructured" KPanic "panic(fmt.Sprintf(""can't convert to unstructured: %v"", err)) [if err != nil]" false 1
  | S_bx_a_Enqueue_panic => mk F_bxa "(*OwnerStrategyAnnotation).EnqueueRequestForOwner" KPanic "panic(err) [if err != nil]" false 1
  | S_bx_a_SetOwner_assert => mk F_bxa "(*OwnerStrategyAnnotation).SetOwnerReference" KAssert "owner.(runtime.Object)" false 1
  | S_bx_a_SetOwner_idx => mk F_bxa "(*OwnerStrategyAnnotation).SetOwnerReference" KIndex "ownerRefs[ownerIndex]" false 1
  | S_bx_a_SetCtrl_assert => mk F_bxa "(*OwnerStrategyAnnotation).SetControllerReference" KAssert "owner.(runtime.Object)" false 1
  | S_bx_a_SetCtrl_idx => mk F_bxa "(*OwnerStrategyAnnotation).SetControllerReference" KIndex "ownerRefs[ownerIndex]" false 1
  | S_bx_a_Release_idx => mk F_bxa "(*OwnerStrategyAnnotation).ReleaseController" KIndex "ownerRefs[i]" true 1
  | S_bx_a_getOwnerReferences_panic => mk F_bxa "(*OwnerStrategyAnnotation).getOwnerReferences" KPanic "panic(err) [if err != nil]" false 1
  | S_bx_a_setOwnerReferences_panic => mk F_bxa "(*OwnerStrategyAnnotation).setOwnerReferences" KPanic "panic(err) [if err != nil]" false 1
  | S_bx_a_indexOf => mk F_bxa "(*OwnerStrategyAnnotation).indexOf" KIndex "ownerRefs[i]" true 1
  | S_bx_a_cmp_panic1 =>
      mk F_bxa "(*OwnerStrategyAnnotation).ownerRefForCompare" KPanic ("panic(fmt.Sprintf(""" ++ NotRunnable ++ """, owner)) [if !ok]") false 1
  | S_bx_a_cmp_panic2 => mk F_bxa "(*OwnerStrategyAnnotation).ownerRefForCompare" KPanic "panic(err) [if err != nil]" false 1
  | S_bx_a_kinds0 => mk F_bxa "(*AnnotationEnqueueRequestForOwner).parseOwnerTypeGroupKind" KIndex "kinds[0]" true 2
  | S_bx_remove_i => mk F_bxc "remove" KIndex "s[i]" true 1
  | S_bx_remove_last => mk F_bxc "remove" KIndex "s[len(s) - 1]" true 1
  | S_bx_remove_slice => mk F_bxc "remove" KIndex "s[:len(s) - 1]" true 1
  | S_bx_n_Release_idx => mk F_bxn "(*OwnerStrategyNative).ReleaseController" KIndex "ownerRefs[i]" true 1
  | S_bx_n_cmp_panic1 =>
      mk F_bxn "(*OwnerStrategyNative).ownerRefForCompare" KPanic ("panic(fmt.Sprintf(""" ++ NotRunnable ++ """, owner)) [if !ok]") false 1
  | S_bx_n_cmp_panic2 => mk F_bxn "(*OwnerStrategyNative).ownerRefForCompare" KPanic "panic(err) [if err != nil]" false 1
  | S_bx_n_referSame_panic => mk F_bxn "(*OwnerStrategyNative).referSameObject" KPanic "panic(err) [if err != nil]" false 2
  | S_pd_newOSList_panic => mk "internal/packages/internal/packagedeploy/adapter_objectsetlist.go" "newGenericObjectSetList" KPanic "panic(err) [if err != nil]" false 1
  | S_pd_newOSList_assert => mk "internal/packages/internal/packagedeploy/adapter_objectsetlist.go" "newGenericObjectSetList" KAssert "obj.(*corev1alpha1.ObjectSetList)" false 1
  | S_pd_newCOSList_panic => mk "internal/packages/internal/packagedeploy/adapter_objectsetlist.go" "newGenericClusterObjectSetList" KPanic "panic(err) [if err != nil]" false 1
  | S_pd_newCOSList_assert => mk "internal/packages/internal/packagedeploy/adapter_objectsetlist.go" "newGenericClusterObjectSetList" KAssert "obj.(*corev1alpha1.ClusterObjectSetList)" false 1
  | S_pd_OSList_out_i => mk "internal/packages/internal/packagedeploy/adapter_objectsetlist.go" "(*GenericObjectSetList).GetItems" KIndex "out[i]" false 1
  | S_pd_OSList_items_i => mk "internal/packages/internal/packagedeploy/adapter_objectsetlist.go" "(*GenericObjectSetList).GetItems" KIndex "a.Items[i]" true 1
  | S_pd_COSList_out_i => mk "internal/packages/internal/packagedeploy/adapter_objectsetlist.go" "(*GenericClusterObjectSetList).GetItems" KIndex "out[i]" false 1
  | S_pd_COSList_items_i => mk "internal/packages/internal/packagedeploy/adapter_objectsetlist.go" "(*GenericClusterObjectSetList).GetItems" KIndex "a.Items[i]" true 1
  | S_pd_chunk_out_i => mk "internal/packages/internal/packagedeploy/chunking.go" "(*EachObjectChunker).Chunk" KIndex "out[i]" false 1
  | N_pd_Deploy_tmplCtx_Config => mk "internal/packages/internal/packagedeploy/deployer.go" "(*PackageDeployer).Deploy" KNilfield "tmplCtx.Config" true 1
  | N_pd_Deploy_pkg_ManifestLock => mk "internal/packages/internal/packagedeploy/deployer.go" "(*PackageDeployer).Deploy" KNilfield "pkg.ManifestLock" true 1
  | N_pd_desired_pkgInstance_Manifest => mk "internal/packages/internal/packagedeploy/deployer.go" "(*PackageDeployer).desiredObjectDeployment" KNilfield "pkgInstance.Manifest" false 2
  | N_pd_checkConstraints_PlatformVersion => mk "internal/packages/internal/packagedeploy/deployer.go" "checkConstraints" KNilfield "constraint.PlatformVersion" true 1
  | N_pd_checkConstraints_PlatformVersion_via_pv => mk "internal/packages/internal/packagedeploy/deployer.go" "checkConstraints" KNilfield "constraint.PlatformVersion (via pv)" true 4
  | N_pd_checkConstraints_env_OpenShift => mk "internal/packages/internal/packagedeploy/deployer.go" "checkConstraints" KNilfield "env.OpenShift" true 1
  | S_pd_phases_i => mk "internal/packages/internal/packagedeploy/deployment_reconciler.go" "(*DeploymentReconciler).Reconcile" KIndex "templateSpec.Phases[i]" true 1
  | S_pd_sliceNames_i => mk "internal/packages/internal/packagedeploy/deployment_reconciler.go" "(*DeploymentReconciler).chunkPhase" KIndex "sliceNames[i]" false 1
  | S_tf_include_reentry => mk "internal/transform/transformfiles_funcs.go" "SprigFuncs" KRecursion """include"" -> t.ExecuteTemplate (re-entrant through text/template)" true 1
  | S_v0_pd_uncachedClient_unset =>
      mk "internal/packages/internal/packagedeploy/deployer.go" "NewClusterPackageDeployer" KUnsetfield
         "PackageDeployer.uncachedClient left unset; used in (*PackageDeployer).Deploy" false 1
  | N_cmd_WaitForCondition_w_waiter => mk "internal/cmd/cmd.go" "(*DefaultWaiter).WaitForCondition" KNilfield "w.waiter" false 1
  | N_tree_RenderPackage_pkgInstance_Manifest => mk "internal/cmd/tree.go" "(*Tree).RenderPackage" KNilfield "pkgInstance.Manifest" false 1
  | N_tree_getTemplateContext_pkg_Manifest => mk "internal/cmd/tree.go" "(*Tree).getTemplateContext" KNilfield "pkg.Manifest" false 3
  | N_tree_getConfig_pkg_Manifest => mk "internal/cmd/tree.go" "(*Tree).getConfig" KNilfield "pkg.Manifest" false 3
  | N_tree_getConfig_test_Context_Config => mk "internal/cmd/tree.go" "(*Tree).getConfig" KNilfield "test.Context.Config" true 1
  | N_tree_getConfig_pkg_Manifest_Test_Template_0_Context_Config_via_testCtxCfg => mk "internal/cmd/tree.go" "(*Tree).getConfig" KNilfield "pkg.Manifest.Test.Template[0].Context.Config (via testCtxCfg)" true 1
  | N_update_GenerateLockData_pkg_Manifest => mk "internal/cmd/update.go" "(Update).GenerateLockData" KNilfield "pkg.Manifest" false 2
  | N_update_GenerateLockData_pkg_ManifestLock => mk "internal/cmd/update.go" "(Update).GenerateLockData" KNilfield "pkg.ManifestLock" true 1
  | N_config_GetBackoff_c_InitialBackoff => mk "internal/controllers/config.go" "(*BackoffConfig).GetBackoff" KNilfield "c.InitialBackoff" false 1
  | N_config_GetBackoff_c_MaxBackoff => mk "internal/controllers/config.go" "(*BackoffConfig).GetBackoff" KNilfield "c.MaxBackoff" false 1
  | N_objecttemplatecontroller_SetEnvironment_c_templateReconciler => mk "internal/controllers/objecttemplate/objecttemplate_controller.go" "(*GenericObjectTemplateController).SetEnvironment" KNilfield "c.templateReconciler" false 1
  | N_requestmanager_handleResponse_res_RawPackage => mk "internal/packages/internal/packageimport/request_manager.go" "(*RequestManager).handleResponse" KNilfield "res.RawPackage" true 1
  | N_helpers_getExpressionCost_cardinalityCost_MaxCardinality => mk "internal/packages/internal/packagemanifestvalidation/helpers.go" "getExpressionCost" KNilfield "cardinalityCost.MaxCardinality" false 1
  | N_helpers_validateMapListKeysMapSet_schema_Items => mk "internal/packages/internal/packagemanifestvalidation/helpers.go" "validateMapListKeysMapSet" KNilfield "schema.Items" true 5
  | N_helpers_validateMapListKeysMapSet_schema_XListType => mk "internal/packages/internal/packagemanifestvalidation/helpers.go" "validateMapListKeysMapSet" KNilfield "schema.XListType" true 4
  | N_helpers_validateMapListKeysMapSet_schema_Items_Schema => mk "internal/packages/internal/packagemanifestvalidation/helpers.go" "validateMapListKeysMapSet" KNilfield "schema.Items.Schema" true 4
  | N_manifest_ValidatePackageManifest_template_Context_Config => mk "internal/packages/internal/packagemanifestvalidation/manifest.go" "ValidatePackageManifest" KNilfield "template.Context.Config" true 1
  | N_manifest_ValidatePackageManifest_obj_Test_Kubeconform => mk "internal/packages/internal/packagemanifestvalidation/manifest.go" "ValidatePackageManifest" KNilfield "obj.Test.Kubeconform" true 1
  | N_manifest_validateConstraints_constraint_PlatformVersion => mk "internal/packages/internal/packagemanifestvalidation/manifest.go" "validateConstraints" KNilfield "constraint.PlatformVersion" true 4
  | N_private_validateCustomResourceDefinitionValidation_customResourceValidation_OpenAPIV3Schema_via_schema => mk "internal/packages/internal/packagemanifestvalidation/private.go" "validateCustomResourceDefinitionValidation" KNilfield "customResourceValidation.OpenAPIV3Schema (via schema)" true 1
  | N_private_validateCustomResourceDefinitionValidation_celContext_TotalCost => mk "internal/packages/internal/packagemanifestvalidation/private.go" "validateCustomResourceDefinitionValidation" KNilfield "celContext.TotalCost" true 3
  | N_private_validateCustomResourceDefinitionOpenAPISchema_schema_AdditionalProperties => mk "internal/packages/internal/packagemanifestvalidation/private.go" "validateCustomResourceDefinitionOpenAPISchema" KNilfield "schema.AdditionalProperties" true 4
  | N_private_validateCustomResourceDefinitionOpenAPISchema_schema_XListType => mk "internal/packages/internal/packagemanifestvalidation/private.go" "validateCustomResourceDefinitionOpenAPISchema" KNilfield "schema.XListType" true 3
  | N_private_validateCustomResourceDefinitionOpenAPISchema_schema_Items => mk "internal/packages/internal/packagemanifestvalidation/private.go" "validateCustomResourceDefinitionOpenAPISchema" KNilfield "schema.Items" true 4
  | N_private_validateCustomResourceDefinitionOpenAPISchema_schema_XPreserveUnknownFields => mk "internal/packages/internal/packagemanifestvalidation/private.go" "validateCustomResourceDefinitionOpenAPISchema" KNilfield "schema.XPreserveUnknownFields" true 2
  | N_private_xmaptypenotnil_schema_XMapType => mk "internal/packages/internal/packagemanifestvalidation/private.go" "xmaptypenotnil" KNilfield "schema.XMapType" true 3
  | N_private_xlisttypenotnil_schema_XListType => mk "internal/packages/internal/packagemanifestvalidation/private.go" "xlisttypenotnil" KNilfield "schema.XListType" true 6
  | N_private_xlisttypenotnil_schema_Items => mk "internal/packages/internal/packagemanifestvalidation/private.go" "xlisttypenotnil" KNilfield "schema.Items" true 2
  | N_private_xlisttypenotnil_schema_Items_Schema_via_is => mk "internal/packages/internal/packagemanifestvalidation/private.go" "xlisttypenotnil" KNilfield "schema.Items.Schema (via is)" true 7
  | N_private_xlisttypenotnil_is_XListType => mk "internal/packages/internal/packagemanifestvalidation/private.go" "xlisttypenotnil" KNilfield "is.XListType" true 1
  | N_private_xlisttypenotnil_is_XMapType => mk "internal/packages/internal/packagemanifestvalidation/private.go" "xlisttypenotnil" KNilfield "is.XMapType" true 1
  | N_private_schemaitemsnotNil_schema_Items => mk "internal/packages/internal/packagemanifestvalidation/private.go" "schemaitemsnotNil" KNilfield "schema.Items" false 4
  | N_private_schemaitemsnotNil_schema_Items_Schema => mk "internal/packages/internal/packagemanifestvalidation/private.go" "schemaitemsnotNil" KNilfield "schema.Items.Schema" true 2
  | N_private_validateXListTypeMap_schema_Items => mk "internal/packages/internal/packagemanifestvalidation/private.go" "validateXListTypeMap" KNilfield "schema.Items" true 4
  | N_private_validateXListTypeMap_schema_Items_Schema => mk "internal/packages/internal/packagemanifestvalidation/private.go" "validateXListTypeMap" KNilfield "schema.Items.Schema" true 3
  | N_private_validateSchemaStuffWithXPrefixedName_celContext_TotalCost => mk "internal/packages/internal/packagemanifestvalidation/private.go" "validateSchemaStuffWithXPrefixedName" KNilfield "celContext.TotalCost" true 1
  | N_private_validateSchemaStuffWithXPrefixedName_cr_Error => mk "internal/packages/internal/packagemanifestvalidation/private.go" "validateSchemaStuffWithXPrefixedName" KNilfield "cr.Error" true 3
  | N_private_validatePackageManifestConfig_config_OpenAPIV3Schema_via_schema => mk "internal/packages/internal/packagemanifestvalidation/private.go" "validatePackageManifestConfig" KNilfield "config.OpenAPIV3Schema (via schema)" true 1
  | N_private_Validate_v_v => mk "internal/packages/internal/packagemanifestvalidation/private.go" "(validatorAdapter).Validate" KNilfield "v.v" false 1
  | N_validator_validate_schema_Items => mk "internal/packages/internal/packagemanifestvalidation/validator.go" "(*specStandardValidatorV3).validate" KNilfield "schema.Items" true 1
  | N_cel_evaluate_cc_env => mk "internal/packages/internal/packagerender/celctx/cel.go" "(*CelCtx).evaluate" KNilfield "cc.env" false 1
  | N_objects_RenderObjectsWithFilterInfo_pkg_Manifest => mk "internal/packages/internal/packagerender/objects.go" "RenderObjectsWithFilterInfo" KNilfield "pkg.Manifest" false 1
  | N_objectsettemplate_RenderObjectSetTemplateSpec_pkgInstance_Manifest => mk "internal/packages/internal/packagerender/objectsettemplate.go" "RenderObjectSetTemplateSpec" KNilfield "pkgInstance.Manifest" false 2
  | N_template_RenderTemplates_pkg_Manifest => mk "internal/packages/internal/packagerender/template.go" "RenderTemplates" KNilfield "pkg.Manifest" false 1
  | N_structure_load_pkg_Manifest => mk "internal/packages/internal/packagestructure/structure.go" "(*StructuralLoader).load" KNilfield "pkg.Manifest" false 2
  | N_kubeconform_defaultKubeconformSchemaLocations_manifest_Test_Kubeconform => mk "internal/packages/internal/packagevalidation/kubeconform.go" "defaultKubeconformSchemaLocations" KNilfield "manifest.Test.Kubeconform" false 2
  | N_kubeconform_kubeconformValidatorFromManifest_manifest_Test_Kubeconform => mk "internal/packages/internal/packagevalidation/kubeconform.go" "kubeconformValidatorFromManifest" KNilfield "manifest.Test.Kubeconform" true 1
  | N_lockfile_ValidatePackage_pkg_ManifestLock => mk "internal/packages/internal/packagevalidation/lockfile.go" "(*LockfileDigestLookupValidator).ValidatePackage" KNilfield "pkg.ManifestLock" true 1
  | N_lockfile_ValidatePackage_pkg_Manifest => mk "internal/packages/internal/packagevalidation/lockfile.go" "(*LockfileConsistencyValidator).ValidatePackage" KNilfield "pkg.Manifest" false 2
  | N_lockfile_ValidatePackage_pkg_ManifestLock_2 => mk "internal/packages/internal/packagevalidation/lockfile.go" "(*LockfileConsistencyValidator).ValidatePackage" KNilfield "pkg.ManifestLock" true 1
  | N_templatevalidation_doValidatePackage_pkg_Manifest => mk "internal/packages/internal/packagevalidation/templatevalidation.go" "(TemplateTestValidator).doValidatePackage" KNilfield "pkg.Manifest" false 2
  | N_templatevalidation_runTestCase_testCase_Context_Config => mk "internal/packages/internal/packagevalidation/templatevalidation.go" "(TemplateTestValidator).runTestCase" KNilfield "testCase.Context.Config" true 1
  | N_validation_ValidatePackage_pkg_Manifest => mk "internal/packages/internal/packagevalidation/validation.go" "(PackageScopeValidator).ValidatePackage" KNilfield "pkg.Manifest" false 1
  | N_validation_ValidatePackage_pkg_Manifest_2 => mk "internal/packages/internal/packagevalidation/validation.go" "(PackageStaticFilesWithoutTestCasesValidator).ValidatePackage" KNilfield "pkg.Manifest" false 1
  | N_parse_ParseSelector_selector_Kind => mk "internal/probing/parse.go" "ParseSelector" KNilfield "selector.Kind" true 2
  | N_parse_ParseProbes_probeSpec_FieldsEqual => mk "internal/probing/parse.go" "ParseProbes" KNilfield "probeSpec.FieldsEqual" true 2
  | N_parse_ParseProbes_probeSpec_Condition => mk "internal/probing/parse.go" "ParseProbes" KNilfield "probeSpec.Condition" true 2
  | N_parse_ParseProbes_probeSpec_CEL => mk "internal/probing/parse.go" "ParseProbes" KNilfield "probeSpec.CEL" true 2
  | N_bxannotation_GetController_ref_Controller => mk "pkg.package-operator.run/boxcutter/ownerhandling/annotation.go" "(*OwnerStrategyAnnotation).GetController" KNilfield "ref.Controller" true 1
  | N_bxannotation_SetControllerReference_ownerRef_Controller => mk "pkg.package-operator.run/boxcutter/ownerhandling/annotation.go" "(*OwnerStrategyAnnotation).SetControllerReference" KNilfield "ownerRef.Controller" true 1
  | N_bxannotation_IsController_ownerRef_Controller => mk "pkg.package-operator.run/boxcutter/ownerhandling/annotation.go" "(*OwnerStrategyAnnotation).IsController" KNilfield "ownerRef.Controller" true 1
  | N_bxannotation_isController_r_Controller => mk "pkg.package-operator.run/boxcutter/ownerhandling/annotation.go" "(*annotationOwnerRef).isController" KNilfield "r.Controller" true 1
  | N_bxannotation_getOwnerReconcileRequest_e_ownerStrategy => mk "pkg.package-operator.run/boxcutter/ownerhandling/annotation.go" "(*AnnotationEnqueueRequestForOwner).getOwnerReconcileRequest" KNilfield "e.ownerStrategy" false 1
  | N_bxnative_GetController_ref_Controller => mk "pkg.package-operator.run/boxcutter/ownerhandling/native.go" "(*OwnerStrategyNative).GetController" KNilfield "ref.Controller" true 1
  | N_bxnative_IsController_ownerRef_Controller => mk "pkg.package-operator.run/boxcutter/ownerhandling/native.go" "(*OwnerStrategyNative).IsController" KNilfield "ownerRef.Controller" true 1
  end.

Definition F_C19a := "C19 panic packagerender.phaseCollector.AddObjects: condition-map annotation not validated".
Definition F_C19b := "C19 panic packageimport.FromOCI: tar header used after a non-EOF read error".
Definition F_C19c := "C19 panic objecttemplate.updateStatusConditionsFromOwnedObject: unchecked string assertion on a condition field of the templated object".
Definition F_C19d := "C19 panic objecttemplate.copySourceItem: empty destination indexed".
Definition F_C19e := "C19 panic ownerhandling.(*OwnerStrategyAnnotation).getOwnerReferences: owners annotation of a cluster or desired object is not JSON".

Definition F_C19f := "C19 panic packagemanifestvalidation.validateSchemaStuffWithXPrefixedName: x-kubernetes-validations of the config schema compiled with a nil CEL environment set".

Definition F_C19g := "C19 panic packagedeploy.validateUnique at `if err := uncachedClient.List(ctx, dst, &client.ListOptions{LabelSelector: s}); err != nil {`".

Definition typed_obj := "the receiver's obj field is only ever set from a typed Get/List of exactly the two kinds the preceding comma-ok assertion distinguishes (client.go constructors)".
Definition range_index := "index is the key of a range over a slice of the same length (made with len(..) of the ranged slice, or the slice itself)".
Definition nil_dominated := "every dereference of the chain is dominated, in the same function, by a nil check of it (enclosing `if .. != nil`, left operand of the same && / ||, earlier `if .. == nil { return }`, earlier `case .. == nil`): the translator's guard for kind nilfield; removing the check flips the flag and the site is no longer in the table".
Definition manifest_set := "the Package / PackageInstance comes from StructuralLoader.load, which returns ViolationReasonPackageManifestNotFound instead of a package without manifest (structure.go); RenderPackageInstance copies the pointer".
Definition programmer := "argument is a typed API object registered in the operator's scheme; not influenced by package content or cluster object state".

Definition verdict_of (i : site_id) : verdict :=
  match i with
  | S_cmd_Package_CurrentRevision | S_cmd_ObjectDeployment_CurrentRevision
  | S_cmd_ObjectSet_getConditions | S_cmd_ObjectSet_Revision => ByConstruction typed_obj
  | S_cmd_findObjectSets_items => ByConstruction range_index
  | S_cmd_FindRevision_idx => ByConstruction "idx comes from slices.IndexFunc on the same slice and idx < 0 returns first"
  | S_cmd_PackageSetPaused_panic => Validated "cobra argument validation of `kubectl package pause|unpause` (kind is one of two literals); not an input of the quantifier"
  | S_cmd_tree_getTemplateContext_0 | S_cmd_tree_getConfig_0 => ByConstruction "case guard len(pkg.Manifest.Test.Template) > 0"
  | S_cmd_update_lockImages => ByConstruction range_index
  | S_ot_vslice0 => ByConstruction "guard ok && len(vslice) == 1 in the same condition (model: copy_source_item)"
  | S_v0_ot_destination0 => Fixed "a818a7e" F_C19d
  | S_ot_destination0 => ByConstruction "length check on item.Destination before the index (commit a818a7e; model: copy_source_item)"
  | S_v0_ot_cond_type | S_v0_ot_cond_status | S_v0_ot_cond_reason | S_v0_ot_cond_message => Fixed "a818a7e" F_C19c
  | S_ot_jsonRegexp => ByConstruction "constant pattern, compiled at package init: fails on every start or never"
  | S_ot_submatches1 | S_ot_submatches2 => ByConstruction "guard len(submatches) != 3 returns first (model: relaxed_jsonpath)"
  | S_pr_desiredObjects | S_prl_previousSets => ByConstruction range_index
  | S_pr_prevGVK_panic => ByConstruction programmer
  | S_imp_walkWithSymlinks => Library "recursion follows directory symlinks of the local source tree of `kubectl package`; depth bounded by PATH_MAX (EvalSymlinks/Lstat fail with ENAMETOOLONG / ELOOP); exercised by the cli target only through FromFolder, which does not use Index"
  | S_v0_imp_hdr => Fixed "e1805ac" F_C19b
  | S_mv_newlineMatcher | S_cel_conditionNameRegexp => ByConstruction "constant pattern, compiled at package init"
  | S_mv_testconfig_panic => Validated "validatePackageManifestConfig (same function): the site's identity carries its guard `if len(configErrors) == 0` - the branch runs only if the config schema produced no validation error, and ConvertJSONSchemaProps fails only on schemas that validation rejects; a different guard is a different site (seed C19-G)"
  | S_mv_schema_recursion => Library "structural recursion over the OpenAPI schema tree decoded from the manifest: depth bounded by the YAML/JSON decoder's nesting limit"
  | S_mv_typeInfo => ByConstruction "switch: `case err != nil` and `case typeInfo == nil` precede the default branch that dereferences typeInfo"
  | S_mv_xvalidations => Library "cel.Compile returns one result per rule of typeInfo.Schema.XValidations, which is schema.XValidations (apiextensions-apiserver contract)"
  | S_mv_validatorAdapter_panic => Library "apiextensions-apiserver's ValidateCustomResource passes no options (pinned dependency version)"
  | S_v0_mv_nil_envset | S_v0_mv_nil_envloader => Fixed "35e301a" F_C19f
  | S_mv_nil_rootschema => Library "kube-openapi validate.NewSchemaValidator: rootSchema may be nil (used for $ref resolution only; refs are forbidden in structural schemas)"
  | S_ps_convert_ctx_manifest | S_ps_convert_ctx_lock | S_ps_convert_ctx_repo | S_ps_convert_ctx_entry =>
      Library "apimachinery runtime.Scheme.Convert: the context argument is opaque and may be nil"
  | S_mv_MustBaseEnvSet => Library "apiserver cel/environment: MustBaseEnvSet panics only if the built-in library set does not compile for the compatibility version - constant inputs, independent of the package (commit 35e301a)"
  | S_cel_evaluate_bool | S_pp_cel_bool => Library "cel-go: a value whose Type() is BoolType (checked on the line before / at compile time) carries a Go bool"
  | S_cm_parts0 | S_cm_parts1 => ByConstruction "guard len(parts) != 2 returns first (model: parse_lines, theorem condmap_index_sites_unreachable)"
  | S_cm_outputMappings => ByConstruction (range_index ++ " (model: parse_lines)")
  | S_ro_paths_i => ByConstruction "i counts the entries of the map the slice was sized from; inside sort.Slice's less callback i < len"
  | S_ro_paths_j => Library "sort.Slice calls less with indices below the slice length"
  | S_col_objs_i => ByConstruction (range_index ++ " (model: add_objects)")
  | S_v0_col_panic => Fixed "6890742" F_C19a
  | S_col_panic => Validated "packagerender.parseObjects: every object is refused with ViolationReasonInvalidConditionMap unless parseConditionMapAnnotation accepts it (commit 6890742; model: render_and_collect, theorem collector_total)"
  | S_col_entries_i | S_col_entries_j => Library "sort.Slice calls less with indices below the slice length"
  | S_col_phases_i => ByConstruction range_index
  | S_tmpl_ctx_package | S_tmpl_ctx_metadata => ByConstruction "actualCtx is the JSON round trip of a PackageRenderContext struct: package and package.metadata are structs without omitempty, hence always objects"
  | S_ps_gvks0 => ByConstruction "scheme.ObjectKinds returns an error for an unregistered type, else a non-empty list; T is one of two registered manifest types"
  | S_ps_groupVersions | S_ps_versions => ByConstruction range_index
  | S_ps_init_panic => ByConstruction "package init with constant scheme builders: fails on every start or never"
  | S_ps_parts1 => ByConstruction "guards len(parts) == 2 and len(parts) < 3 return first"
  | S_ps_load_recursion => ByConstruction "recursion depth at most 2: a component (componentName non-empty) that itself declares components is rejected before the recursive call"
  | S_ip_probeList => ByConstruction range_index
  | S_pp_toUnstructured => Library "apimachinery DefaultUnstructuredConverter: objects handed to probes are *unstructured.Unstructured decoded from API server JSON (DeepCopyJSON total on those)"
  | S_bx_a_Enqueue_panic | S_bx_a_cmp_panic1 | S_bx_a_cmp_panic2 | S_bx_a_SetOwner_assert | S_bx_a_SetCtrl_assert
  | S_bx_n_cmp_panic1 | S_bx_n_cmp_panic2 => ByConstruction programmer
  | S_bx_a_SetOwner_idx | S_bx_a_SetCtrl_idx => ByConstruction "index returned by indexOf on the same slice, compared with -1 first"
  | S_bx_a_Release_idx | S_bx_a_indexOf | S_bx_n_Release_idx => ByConstruction range_index
  | S_bx_a_getOwnerReferences_panic => Reachable F_C19e
  | S_bx_a_setOwnerReferences_panic => Library "encoding/json cannot fail on a slice of structs of strings and *bool"
  | S_bx_a_kinds0 => ByConstruction "guard len(kinds) != 1 returns first"
  | S_bx_remove_i | S_bx_remove_last | S_bx_remove_slice => ByConstruction "only called with an index found by ranging over the same slice (RemoveOwner)"
  | N_cmd_WaitForCondition_w_waiter => ByConstruction "set by NewDefaultWaiter, the only constructor; kubectl-package plumbing, not an input of the quantifier"
  | N_tree_RenderPackage_pkgInstance_Manifest => ByConstruction manifest_set
  | N_tree_getTemplateContext_pkg_Manifest => ByConstruction manifest_set
  | N_tree_getConfig_pkg_Manifest => ByConstruction manifest_set
  | N_update_GenerateLockData_pkg_Manifest => ByConstruction manifest_set
  | N_config_GetBackoff_c_InitialBackoff => ByConstruction "BackoffConfig.Default() fills both pointers before GetBackoff is used (controllers/config.go); operator flags, not an input of the quantifier"
  | N_config_GetBackoff_c_MaxBackoff => ByConstruction "BackoffConfig.Default() fills both pointers before GetBackoff is used (controllers/config.go); operator flags, not an input of the quantifier"
  | N_objecttemplatecontroller_SetEnvironment_c_templateReconciler => ByConstruction "set by newGenericObjectTemplateController, the only constructor"
  | N_helpers_getExpressionCost_cardinalityCost_MaxCardinality => ByConstruction "compared with the package variable `unbounded` (a nil *uint64) on the line before the dereference"
  | N_private_schemaitemsnotNil_schema_Items => ByConstruction "schemaitemsnotNil is only called from the else branch of `if schema.Items == nil` in validateXListTypeMap"
  | N_private_Validate_v_v => ByConstruction "validatorAdapter is only built as validatorAdapter{v} from validate.NewSchemaValidator, which never returns nil"
  | N_cel_evaluate_cc_env => ByConstruction "set by celctx.New, the only constructor, which returns an error instead of a context without environment"
  | N_objects_RenderObjectsWithFilterInfo_pkg_Manifest => ByConstruction manifest_set
  | N_objectsettemplate_RenderObjectSetTemplateSpec_pkgInstance_Manifest => ByConstruction manifest_set
  | N_template_RenderTemplates_pkg_Manifest => ByConstruction manifest_set
  | N_structure_load_pkg_Manifest => ByConstruction manifest_set
  | N_kubeconform_defaultKubeconformSchemaLocations_manifest_Test_Kubeconform => ByConstruction "defaultKubeconformSchemaLocations is only called by kubeconformValidatorFromManifest after its `manifest.Test.Kubeconform == nil` return"
  | N_lockfile_ValidatePackage_pkg_Manifest => ByConstruction manifest_set
  | N_templatevalidation_doValidatePackage_pkg_Manifest => ByConstruction manifest_set
  | N_validation_ValidatePackage_pkg_Manifest => ByConstruction manifest_set
  | N_validation_ValidatePackage_pkg_Manifest_2 => ByConstruction manifest_set
  | N_bxannotation_getOwnerReconcileRequest_e_ownerStrategy => ByConstruction "set by OwnerStrategyAnnotation.EnqueueRequestForOwner, the only constructor of the handler"
  | N_tree_getConfig_test_Context_Config | N_tree_getConfig_pkg_Manifest_Test_Template_0_Context_Config_via_testCtxCfg
  | N_update_GenerateLockData_pkg_ManifestLock | N_requestmanager_handleResponse_res_RawPackage
  | N_helpers_validateMapListKeysMapSet_schema_Items | N_helpers_validateMapListKeysMapSet_schema_XListType
  | N_helpers_validateMapListKeysMapSet_schema_Items_Schema
  | N_manifest_ValidatePackageManifest_template_Context_Config
  | N_manifest_ValidatePackageManifest_obj_Test_Kubeconform
  | N_manifest_validateConstraints_constraint_PlatformVersion
  | N_private_validateCustomResourceDefinitionValidation_customResourceValidation_OpenAPIV3Schema_via_schema
  | N_private_validateCustomResourceDefinitionValidation_celContext_TotalCost
  | N_private_validateCustomResourceDefinitionOpenAPISchema_schema_AdditionalProperties
  | N_private_validateCustomResourceDefinitionOpenAPISchema_schema_XListType
  | N_private_validateCustomResourceDefinitionOpenAPISchema_schema_Items
  | N_private_validateCustomResourceDefinitionOpenAPISchema_schema_XPreserveUnknownFields
  | N_private_xmaptypenotnil_schema_XMapType | N_private_xlisttypenotnil_schema_XListType
  | N_private_xlisttypenotnil_schema_Items | N_private_xlisttypenotnil_schema_Items_Schema_via_is
  | N_private_xlisttypenotnil_is_XListType | N_private_xlisttypenotnil_is_XMapType
  | N_private_schemaitemsnotNil_schema_Items_Schema | N_private_validateXListTypeMap_schema_Items
  | N_private_validateXListTypeMap_schema_Items_Schema
  | N_private_validateSchemaStuffWithXPrefixedName_celContext_TotalCost
  | N_private_validateSchemaStuffWithXPrefixedName_cr_Error
  | N_private_validatePackageManifestConfig_config_OpenAPIV3Schema_via_schema | N_validator_validate_schema_Items
  | N_kubeconform_kubeconformValidatorFromManifest_manifest_Test_Kubeconform
  | N_lockfile_ValidatePackage_pkg_ManifestLock | N_lockfile_ValidatePackage_pkg_ManifestLock_2
  | N_templatevalidation_runTestCase_testCase_Context_Config | N_parse_ParseSelector_selector_Kind
  | N_parse_ParseProbes_probeSpec_FieldsEqual | N_parse_ParseProbes_probeSpec_Condition
  | N_parse_ParseProbes_probeSpec_CEL | N_bxannotation_GetController_ref_Controller
  | N_bxannotation_SetControllerReference_ownerRef_Controller | N_bxannotation_IsController_ownerRef_Controller
  | N_bxannotation_isController_r_Controller | N_bxnative_GetController_ref_Controller
  | N_bxnative_IsController_ownerRef_Controller => ByConstruction nil_dominated
  | S_pd_newOSList_panic => ByConstruction programmer
  | S_pd_newOSList_assert => ByConstruction "scheme.New of a constant GroupVersionKind returns that kind's Go type"
  | S_pd_newCOSList_panic => ByConstruction programmer
  | S_pd_newCOSList_assert => ByConstruction "scheme.New of a constant GroupVersionKind returns that kind's Go type"
  | S_pd_OSList_out_i => ByConstruction range_index
  | S_pd_OSList_items_i => ByConstruction range_index
  | S_pd_COSList_out_i => ByConstruction range_index
  | S_pd_COSList_items_i => ByConstruction range_index
  | S_pd_chunk_out_i => ByConstruction range_index
  | N_pd_Deploy_tmplCtx_Config => ByConstruction nil_dominated
  | N_pd_Deploy_pkg_ManifestLock => ByConstruction nil_dominated
  | N_pd_desired_pkgInstance_Manifest => ByConstruction manifest_set
  | N_pd_checkConstraints_PlatformVersion => ByConstruction nil_dominated
  | N_pd_checkConstraints_PlatformVersion_via_pv => ByConstruction nil_dominated
  | N_pd_checkConstraints_env_OpenShift => ByConstruction nil_dominated
  | S_pd_phases_i => ByConstruction range_index
  | S_pd_sliceNames_i => ByConstruction range_index
  | S_tf_include_reentry => ByConstruction "the include function refuses to nest more than recursionDepth + 1 active includes per template name: counter per name, incremented on entry, decremented on return, checked before the nested execution - the translator's guard flag for this site requires all three (model: gstep / grun, theorems include_depth_bounded, include_per_name_bounded; the delete-on-exit shape is refuted by delete_on_exit_unbounded_refuted)"
  | S_v0_pd_uncachedClient_unset => Fixed "9533cda" F_C19g
  | S_bx_n_referSame_panic => Validated "kube-apiserver ValidateOwnerReferences: metadata.ownerReferences[].apiVersion of a stored object parses as a group/version; the other operand is built from the scheme"
  end.

Definition all_sites : list site_id :=
  [ S_cmd_Package_CurrentRevision; S_cmd_ObjectDeployment_CurrentRevision; S_cmd_findObjectSets_items;
    S_cmd_ObjectSet_getConditions; S_cmd_ObjectSet_Revision; S_cmd_FindRevision_idx; S_cmd_PackageSetPaused_panic;
    S_cmd_tree_getTemplateContext_0; S_cmd_tree_getConfig_0; S_cmd_update_lockImages;
    S_ot_vslice0; S_v0_ot_destination0; S_ot_destination0;
    S_v0_ot_cond_type; S_v0_ot_cond_status; S_v0_ot_cond_reason; S_v0_ot_cond_message;
    S_ot_jsonRegexp; S_ot_submatches1; S_ot_submatches2;
    S_pr_desiredObjects; S_pr_prevGVK_panic; S_prl_previousSets;
    S_imp_walkWithSymlinks; S_v0_imp_hdr;
    S_mv_newlineMatcher; S_mv_testconfig_panic; S_mv_schema_recursion; S_mv_typeInfo; S_mv_xvalidations;
    S_mv_validatorAdapter_panic; S_v0_mv_nil_envset; S_v0_mv_nil_envloader; S_mv_MustBaseEnvSet; S_mv_nil_rootschema;
    S_cel_conditionNameRegexp; S_cel_evaluate_bool;
    S_cm_parts0; S_cm_parts1; S_cm_outputMappings;
    S_ro_paths_i; S_ro_paths_j;
    S_col_objs_i; S_v0_col_panic; S_col_panic; S_col_entries_i; S_col_entries_j; S_col_phases_i;
    S_tmpl_ctx_package; S_tmpl_ctx_metadata;
    S_ps_gvks0; S_ps_groupVersions; S_ps_versions; S_ps_init_panic; S_ps_parts1; S_ps_load_recursion;
    S_ps_convert_ctx_manifest; S_ps_convert_ctx_lock; S_ps_convert_ctx_repo; S_ps_convert_ctx_entry;
    S_ip_probeList; S_pp_cel_bool; S_pp_toUnstructured;
    S_bx_a_Enqueue_panic; S_bx_a_SetOwner_assert; S_bx_a_SetOwner_idx; S_bx_a_SetCtrl_assert; S_bx_a_SetCtrl_idx;
    S_bx_a_Release_idx; S_bx_a_getOwnerReferences_panic; S_bx_a_setOwnerReferences_panic; S_bx_a_indexOf;
    S_bx_a_cmp_panic1; S_bx_a_cmp_panic2; S_bx_a_kinds0;
    S_bx_remove_i; S_bx_remove_last; S_bx_remove_slice;
    S_bx_n_Release_idx; S_bx_n_cmp_panic1; S_bx_n_cmp_panic2; S_bx_n_referSame_panic;
    S_pd_newOSList_panic; S_pd_newOSList_assert; S_pd_newCOSList_panic; S_pd_newCOSList_assert; S_pd_OSList_out_i; S_pd_OSList_items_i; S_pd_COSList_out_i; S_pd_COSList_items_i; S_pd_chunk_out_i;
    N_pd_Deploy_tmplCtx_Config; N_pd_Deploy_pkg_ManifestLock; N_pd_desired_pkgInstance_Manifest; N_pd_checkConstraints_PlatformVersion; N_pd_checkConstraints_PlatformVersion_via_pv; N_pd_checkConstraints_env_OpenShift; S_pd_phases_i; S_pd_sliceNames_i; S_tf_include_reentry; S_v0_pd_uncachedClient_unset;
    N_cmd_WaitForCondition_w_waiter; N_tree_RenderPackage_pkgInstance_Manifest;
    N_tree_getTemplateContext_pkg_Manifest; N_tree_getConfig_pkg_Manifest; N_tree_getConfig_test_Context_Config;
    N_tree_getConfig_pkg_Manifest_Test_Template_0_Context_Config_via_testCtxCfg;
    N_update_GenerateLockData_pkg_Manifest; N_update_GenerateLockData_pkg_ManifestLock;
    N_config_GetBackoff_c_InitialBackoff; N_config_GetBackoff_c_MaxBackoff;
    N_objecttemplatecontroller_SetEnvironment_c_templateReconciler; N_requestmanager_handleResponse_res_RawPackage;
    N_helpers_getExpressionCost_cardinalityCost_MaxCardinality; N_helpers_validateMapListKeysMapSet_schema_Items;
    N_helpers_validateMapListKeysMapSet_schema_XListType; N_helpers_validateMapListKeysMapSet_schema_Items_Schema;
    N_manifest_ValidatePackageManifest_template_Context_Config;
    N_manifest_ValidatePackageManifest_obj_Test_Kubeconform;
    N_manifest_validateConstraints_constraint_PlatformVersion;
    N_private_validateCustomResourceDefinitionValidation_customResourceValidation_OpenAPIV3Schema_via_schema;
    N_private_validateCustomResourceDefinitionValidation_celContext_TotalCost;
    N_private_validateCustomResourceDefinitionOpenAPISchema_schema_AdditionalProperties;
    N_private_validateCustomResourceDefinitionOpenAPISchema_schema_XListType;
    N_private_validateCustomResourceDefinitionOpenAPISchema_schema_Items;
    N_private_validateCustomResourceDefinitionOpenAPISchema_schema_XPreserveUnknownFields;
    N_private_xmaptypenotnil_schema_XMapType; N_private_xlisttypenotnil_schema_XListType;
    N_private_xlisttypenotnil_schema_Items; N_private_xlisttypenotnil_schema_Items_Schema_via_is;
    N_private_xlisttypenotnil_is_XListType; N_private_xlisttypenotnil_is_XMapType;
    N_private_schemaitemsnotNil_schema_Items; N_private_schemaitemsnotNil_schema_Items_Schema;
    N_private_validateXListTypeMap_schema_Items; N_private_validateXListTypeMap_schema_Items_Schema;
    N_private_validateSchemaStuffWithXPrefixedName_celContext_TotalCost;
    N_private_validateSchemaStuffWithXPrefixedName_cr_Error;
    N_private_validatePackageManifestConfig_config_OpenAPIV3Schema_via_schema; N_private_Validate_v_v;
    N_validator_validate_schema_Items; N_cel_evaluate_cc_env; N_objects_RenderObjectsWithFilterInfo_pkg_Manifest;
    N_objectsettemplate_RenderObjectSetTemplateSpec_pkgInstance_Manifest; N_template_RenderTemplates_pkg_Manifest;
    N_structure_load_pkg_Manifest; N_kubeconform_defaultKubeconformSchemaLocations_manifest_Test_Kubeconform;
    N_kubeconform_kubeconformValidatorFromManifest_manifest_Test_Kubeconform;
    N_lockfile_ValidatePackage_pkg_ManifestLock; N_lockfile_ValidatePackage_pkg_Manifest;
    N_lockfile_ValidatePackage_pkg_ManifestLock_2; N_templatevalidation_doValidatePackage_pkg_Manifest;
    N_templatevalidation_runTestCase_testCase_Context_Config; N_validation_ValidatePackage_pkg_Manifest;
    N_validation_ValidatePackage_pkg_Manifest_2; N_parse_ParseSelector_selector_Kind;
    N_parse_ParseProbes_probeSpec_FieldsEqual; N_parse_ParseProbes_probeSpec_Condition;
    N_parse_ParseProbes_probeSpec_CEL; N_bxannotation_GetController_ref_Controller;
    N_bxannotation_SetControllerReference_ownerRef_Controller; N_bxannotation_IsController_ownerRef_Controller;
    N_bxannotation_isController_r_Controller; N_bxannotation_getOwnerReconcileRequest_e_ownerStrategy;
    N_bxnative_GetController_ref_Controller; N_bxnative_IsController_ownerRef_Controller ].

Definition historical (i : site_id) : bool := match verdict_of i with Fixed _ _ => true | _ => false end.
Definition current_sites : list site_id := filter (fun i => negb (historical i)) all_sites.

(** the table the inventory is checked against: the sites of the present tree only *)
Definition accounted : list (site * verdict) := map (fun i => (descr i, verdict_of i)) current_sites.

Definition is_accounted (s : site) : bool := existsb (fun a => site_eqb s (fst a)) accounted.
Definition all_accounted (inventory : list site) : bool := forallb is_accounted inventory.
Definition unaccounted (inventory : list site) : list site := filter (fun s => negb (is_accounted s)) inventory.

Definition is_reachable (v : verdict) : bool := match v with Reachable _ => true | _ => false end.
(** the findings the current tree still contains: reachable table entries present in the inventory *)
Definition open_findings (inventory : list site) : list string :=
  flat_map (fun a => match snd a with
                     | Reachable f => if existsb (site_eqb (fst a)) inventory then [f] else []
                     | _ => [] end) accounted.

(* ------------------------------------------------------------------ outcomes *)

Inductive outcome (A : Type) := Ok (a : A) | Err | Panic (s : site_id).
Arguments Ok {A} a.
Arguments Err {A}.
Arguments Panic {A} s.

Definition bind {A B} (x : outcome A) (f : A -> outcome B) : outcome B :=
  match x with Ok a => f a | Err => Err | Panic s => Panic s end.

(** Go's x[i]: the element, or a run-time panic at the given site. *)
Definition index_or {A} (s : site_id) (l : list A) (i : nat) : outcome A :=
  match nth_error l i with Some x => Ok x | None => Panic s end.

(** Go's x[i] = v. *)
Fixpoint set_nth {A} (l : list A) (i : nat) (v : A) : option (list A) :=
  match l, i with
  | [], _ => None
  | _ :: t, O => Some (v :: t)
  | h :: t, S i' => option_map (cons h) (set_nth t i' v)
  end.
Definition store_or {A} (s : site_id) (l : list A) (i : nat) (v : A) : outcome (list A) :=
  match set_nth l i v with Some l' => Ok l' | None => Panic s end.

Definition is_panic {A} (x : outcome A) : bool := match x with Panic _ => true | _ => false end.

(* ------------------------------------------------------------------ byte strings *)

Definition bytes := list ascii.
Definition nl : ascii := ascii_of_N 10.
(** unicode.IsSpace restricted to ASCII (the model works on bytes; U+0085/U+00A0/U+2028.. are not modelled) *)
Definition is_space (c : ascii) : bool :=
  match N_of_ascii c with 9%N | 10%N | 11%N | 12%N | 13%N | 32%N => true | _ => false end.
Fixpoint trim_left (s : bytes) : bytes :=
  match s with c :: s' => if is_space c then trim_left s' else s | [] => [] end.
Definition trim_space (s : bytes) : bytes := rev (trim_left (rev (trim_left s))).

(** strings.Split(s, "\n") *)
Fixpoint split_on (sep : ascii) (s : bytes) : list bytes :=
  match s with
  | [] => [[]]
  | c :: s' =>
      if Ascii.eqb c sep then [] :: split_on sep s'
      else match split_on sep s' with
           | l :: ls => (c :: l) :: ls
           | [] => [[c]]
           end
  end.

(** position of the first "=>" *)
Fixpoint cut_arrow (s : bytes) : option (bytes * bytes) :=
  match s with
  | [] => None
  | c :: s' =>
      match s' with
      | d :: s'' =>
          if Ascii.eqb c "="%char && Ascii.eqb d ">"%char then Some ([], s'')
          else option_map (fun p => (c :: fst p, snd p)) (cut_arrow s')
      | [] => None
      end
  end.
(** strings.SplitN(s, "=>", 2) *)
Definition splitn2 (s : bytes) : list bytes :=
  match cut_arrow s with None => [s] | Some (a, b) => [a; b] end.

Definition is_empty {A} (l : list A) : bool := match l with [] => true | _ => false end.

(* ------------------------------------------------------------------ (1) condition-map annotation and the collector
   packagerender/conditionmap.go:22-59, objectsettemplate.go:14-85, packagevalidation/objectvalidation.go *)

Definition mapping := (bytes * bytes)%type.

(** conditionmap.go:30-56: the loop over inputMappings; [out] is outputMappings (made with the length of
    inputMappings), [i] the range index. *)
Fixpoint parse_lines (lines : list bytes) (i : nat) (out : list mapping) : outcome (list mapping) :=
  match lines with
  | [] => Ok out
  | raw :: rest =>
      let parts := splitn2 raw in                                       (* :32 *)
      if negb (Nat.eqb (List.length parts) 2) then Err else                   (* :33 *)
      bind (index_or S_cm_parts0 parts 0) (fun p0 =>                     (* :39 *)
      if is_empty p0 then Err else
      bind (index_or S_cm_parts1 parts 1) (fun p1 =>                     (* :45 *)
      if is_empty p1 then Err else
      bind (store_or S_cm_outputMappings out i (trim_space p0, trim_space p1)) (fun out' =>   (* :52 *)
      parse_lines rest (S i) out')))
  end.

(** parseConditionMapAnnotation: [None] = the annotation is absent. *)
Definition parse_condmap (anno : option bytes) : outcome (list mapping) :=
  match anno with
  | None => Ok []                                                       (* :24-26 *)
  | Some v =>
      let lines := split_on nl (trim_space v) in                         (* :28 *)
      parse_lines lines 0 (repeat ([], []) (List.length lines))              (* :29 *)
  end.

(** What the validators look at, per object (objectvalidation.go): the phase annotation, whether
    apiVersion/kind are set, whether the labels are valid, the duplicate key; and the condition-map
    annotation, which no validator reads. *)
Record pobj := mkobj {
  o_phase : option string; o_gvk_ok : bool; o_labels_ok : bool; o_key : N; o_condmap : option bytes }.

Fixpoint nodup_keys (l : list N) : bool :=
  match l with [] => true | x :: t => negb (existsb (N.eqb x) t) && nodup_keys t end.

(** DefaultObjectValidators: duplicate, GVK, labels, phase annotation. *)
Definition validators_accept (phases : list string) (objs : list pobj) : bool :=
  nodup_keys (map o_key objs)
  && forallb (fun o => o_gvk_ok o && o_labels_ok o
                       && match o_phase o with
                          | Some p => negb (String.eqb p "") && existsb (String.eqb p) phases
                          | None => false
                          end) objs.

(** The grammar of the annotation, stated independently of the parser: after trimming, every line
    contains "=>" with a non-empty text on either side of its first occurrence. This is what a
    validator has to enforce (and what fixes/C19-condition-map.diff makes the render stage enforce). *)
Definition line_ok (l : bytes) : bool :=
  match cut_arrow l with Some (a, b) => negb (is_empty a) && negb (is_empty b) | None => false end.
Definition condmap_ok (anno : option bytes) : bool :=
  match anno with None => true | Some v => forallb line_ok (split_on nl (trim_space v)) end.

(** phaseCollector.AddObjects (objectsettemplate.go:50-86) over the range indices. The result lists
    (phase annotation, condition mappings) of the objects in order. [site] is the explicit panic on a
    parse error: S_col_panic in the present tree, S_v0_col_panic before commit 6890742. *)
Fixpoint add_objects_from (site : site_id) (objs : list pobj) (idxs : list nat) (acc : list (option string * list mapping))
  : outcome (list (option string * list mapping)) :=
  match idxs with
  | [] => Ok acc
  | i :: rest =>
      bind (index_or S_col_objs_i objs i) (fun o =>                      (* :69 &objs[i] *)
      match parse_condmap (o_condmap o) with
      | Panic s => Panic s
      | Err => Panic site                                                (* :70-72 *)
      | Ok m => add_objects_from site objs rest (acc ++ [(o_phase o, m)])
      end)
  end.
Definition add_objects (site : site_id) (objs : list pobj) := add_objects_from site objs (seq 0 (List.length objs)) [].

(** RenderObjectSetTemplateSpec after a successful RenderPackageInstance: number of objects that
    land in a phase of the manifest. *)
Definition collect_at (site : site_id) (phases : list string) (objs : list pobj) : outcome N :=
  bind (add_objects site objs) (fun l =>
  Ok (N.of_nat (List.length (filter (fun e => match fst e with
                                          | Some p => existsb (String.eqb p) phases
                                          | None => existsb (String.eqb "") phases
                                          end) l)))).
Definition collect := collect_at S_col_panic.

(** packagerender.parseObjects (objects.go:118-160, since commit 6890742): every parsed object's
    condition-map annotation goes through parseConditionMapAnnotation; an error is a
    ViolationReasonInvalidConditionMap. *)
Fixpoint parse_objects (objs : list pobj) : outcome unit :=
  match objs with
  | [] => Ok tt
  | o :: rest =>
      match parse_condmap (o_condmap o) with
      | Panic s => Panic s
      | Err => Err
      | Ok _ => parse_objects rest
      end
  end.

(** The pipeline from parsed objects on (RenderPackageInstance; RenderObjectSetTemplateSpec):
    parseObjects, the validators, the collector. *)
Definition render_and_collect (phases : list string) (objs : list pobj) : outcome N :=
  bind (parse_objects objs) (fun _ =>
  if validators_accept phases objs then collect phases objs else Err).

(** HISTORICAL (before commit 6890742 "reject a malformed condition-map annotation when parsing package
    objects"): no stage looked at the annotation before the collector. *)
Definition render_and_collect_v0 (phases : list string) (objs : list pobj) : outcome N :=
  if validators_accept phases objs then collect_at S_v0_col_panic phases objs else Err.

(* ------------------------------------------------------------------ JSON shapes
   What a client hands out for an object of the cluster: maps, slices, strings, bools, int64 for
   integral numbers, float64 otherwise, nil. *)

Inductive json :=
| JNull | JBool (b : bool) | JInt (z : Z) | JFrac | JStr (s : string)
| JArr (l : list json) | JObj (l : list (string * json)).

Fixpoint jget (k : string) (m : list (string * json)) : option json :=
  match m with
  | [] => None
  | (k', v) :: t => if String.eqb k k' then Some v else jget k t
  end.

Inductive nested := NAbsent | NFound (v : json) | NError.

(** unstructured.NestedFieldNoCopy(m, f1, f2) (apimachinery helpers.go): a nil on the way counts as absent,
    a non-map on the way is an error. *)
Definition nested2 (m : list (string * json)) (f1 f2 : string) : nested :=
  match jget f1 m with
  | None => NAbsent
  | Some JNull => NAbsent
  | Some (JObj m2) => match jget f2 m2 with None => NAbsent | Some v => NFound v end
  | Some _ => NError
  end.
Definition nested1 (m : list (string * json)) (f : string) : nested :=
  match jget f m with None => NAbsent | Some v => NFound v end.

(** NestedInt64's three results. *)
Inductive int_field := IAbsent | IVal (z : Z) | IError.
Definition as_int64 (n : nested) : int_field :=
  match n with
  | NAbsent => IAbsent
  | NError => IError
  | NFound (JInt z) => IVal z
  | NFound _ => IError
  end.

(** metav1.Object GetGeneration on an Unstructured: errors and absence read as 0. *)
Definition generation_of (m : list (string * json)) : Z :=
  match as_int64 (nested2 m "metadata" "generation") with IVal z => z | _ => 0%Z end.

(* -------- encoding/json into a struct of scalar fields (metav1.Condition, annotationOwnerRef) *)

Inductive ftype := TString | TInt64 | TBoolPtr | TTime.

Definition lower_ascii (c : ascii) : ascii :=
  let n := N_of_ascii c in if (65 <=? n)%N && (n <=? 90)%N then ascii_of_N (n + 32) else c.
Fixpoint lower (s : string) : string :=
  match s with EmptyString => EmptyString | String c t => String (lower_ascii c) (lower t) end.

Definition is_digit (c : ascii) : bool := let n := N_of_ascii c in (48 <=? n)%N && (n <=? 57)%N.
(** RFC 3339 as far as the generator exercises it: "dddd-dd-ddTdd:dd:ddZ" *)
Definition rfc3339_ok (s : string) : bool :=
  match list_ascii_of_string s with
  | [y1; y2; y3; y4; d1; m1; m2; d2; a1; a2; t; h1; h2; c1; i1; i2; c2; s1; s2; z] =>
      forallb is_digit [y1; y2; y3; y4; m1; m2; a1; a2; h1; h2; i1; i2; s1; s2]
      && Ascii.eqb d1 "-"%char && Ascii.eqb d2 "-"%char && Ascii.eqb t "T"%char
      && Ascii.eqb c1 ":"%char && Ascii.eqb c2 ":"%char && Ascii.eqb z "Z"%char
  | _ => false
  end.

Definition int64_ok (z : Z) : bool := ((-9223372036854775808 <=? z) && (z <=? 9223372036854775807))%Z.

(** can value v be decoded into a field of type t (null is accepted everywhere and leaves the field) *)
Definition value_fits (t : ftype) (v : json) : bool :=
  match v, t with
  | JNull, _ => true
  | JStr _, TString => true
  | JInt z, TInt64 => int64_ok z
  | JBool _, TBoolPtr => true
  | JStr s, TTime => rfc3339_ok s
  | _, _ => false
  end.

Fixpoint field_type (spec : list (string * ftype)) (k : string) : option ftype :=
  match spec with
  | [] => None
  | (n, t) :: rest => if String.eqb (lower k) (lower n) then Some t else field_type rest k
  end.

(** every key that names a field (case-insensitively) carries a fitting value; other keys are ignored *)
Definition struct_fits (spec : list (string * ftype)) (kvs : list (string * json)) : bool :=
  forallb (fun kv => match field_type spec (fst kv) with Some t => value_fits t (snd kv) | None => true end) kvs.

Definition elem_fits (spec : list (string * ftype)) (v : json) : bool :=
  match v with JNull => true | JObj kvs => struct_fits spec kvs | _ => false end.
(** json.Unmarshal(_, &[]T{}) *)
Definition slice_fits (spec : list (string * ftype)) (v : json) : bool :=
  match v with JNull => true | JArr l => forallb (elem_fits spec) l | _ => false end.

(** the value a string / int64 field ends up with: the last fitting key wins *)
Definition last_str (name : string) (kvs : list (string * json)) : string :=
  fold_left (fun acc kv => if String.eqb (lower (fst kv)) (lower name)
                           then match snd kv with JStr s => s | _ => acc end else acc) kvs "".
Definition last_int (name : string) (kvs : list (string * json)) : Z :=
  fold_left (fun acc kv => if String.eqb (lower (fst kv)) (lower name)
                           then match snd kv with JInt z => z | _ => acc end else acc) kvs 0%Z.

Definition condition_spec : list (string * ftype) :=
  [("type", TString); ("status", TString); ("observedGeneration", TInt64); ("lastTransitionTime", TTime);
   ("reason", TString); ("message", TString)].
Definition ownerref_spec : list (string * ftype) :=
  [("apiVersion", TString); ("kind", TString); ("name", TString); ("namespace", TString); ("uid", TString);
   ("controller", TBoolPtr)].

Definition add_distinct (s : string) (l : list string) : list string :=
  if existsb (String.eqb s) l then l else l ++ [s].

(* ------------------------------------------------------------------ (2) controllers.mapConditions
   phase_reconciler.go:366-420. Result: the condition types set on the owner. *)

(** conditionTypeMap: later mappings overwrite earlier ones *)
Definition lookup_mapping (mappings : list (string * string)) (src : string) : option string :=
  fold_left (fun acc m => if String.eqb (fst m) src then Some (snd m) else acc) mappings None.

Definition map_conditions (mappings : list (string * string)) (obj : list (string * json)) : outcome (list string) :=
  if is_empty mappings then Ok [] else                                  (* :371 *)
  match nested2 obj "status" "conditions" with                          (* :375 *)
  | NError => Err
  | NAbsent => Ok []
  | NFound raw =>
      (* :384-391 json.Marshal cannot fail on a JSON-decoded value; Unmarshal into []metav1.Condition *)
      if negb (slice_fits condition_spec raw) then Err else
      let conds := match raw with JArr l => l | _ => [] end in
      let gen := generation_of obj in
      Ok (fold_left (fun acc c =>
            let kvs := match c with JObj kvs => kvs | _ => [] end in
            let og := last_int "observedGeneration" kvs in
            if negb (Z.eqb og 0) && negb (Z.eqb og gen) then acc else     (* :399 *)
            match lookup_mapping mappings (last_str "type" kvs) with      (* :405 *)
            | None => acc
            | Some dest => add_distinct dest acc                          (* :411 meta.SetStatusCondition *)
            end) conds [])
  end.

(* ------------------------------------------------------------------ (3) objecttemplate
   template_reconciler.go:354-402 updateStatusConditionsFromOwnedObject. [gen] is the ObjectTemplate's
   generation. Result: the condition types copied to the ObjectTemplate. *)

Definition entry_strings (kvs : list (string * json)) : bool :=
  forallb (fun k => match jget k kvs with Some (JStr _) => true | _ => false end)
          ["type"; "status"; "reason"; "message"].

(** one round of the loop :376-408; [None] = the entry is skipped as outdated. The four fields are read
    with comma-ok assertions (:392-398, since commit a818a7e); an entry with a missing or non-string field is
    a BadRequest "malformed condition". *)
Definition copy_one (objgen : Z) (kvs : list (string * json)) : outcome (option string) :=
  match as_int64 (nested1 kvs "observedGeneration") with                (* :382 *)
  | IError => Err
  | og =>
      let ogv := match og with IVal z => z | _ => 0%Z end in
      if negb (Z.eqb objgen ogv) then Ok None                            (* :387 *)
      else if entry_strings kvs
           then Ok (match jget "type" kvs with Some (JStr ty) => Some ty | _ => None end)
           else Err                                                      (* :396-398 *)
  end.

(** HISTORICAL (before commit a818a7e "do not panic on malformed source items and conditions in
    ObjectTemplates"): four unchecked assertions, evaluated in order. *)
Definition assert_string (s : site_id) (kvs : list (string * json)) (k : string) : outcome string :=
  match jget k kvs with Some (JStr v) => Ok v | _ => Panic s end.

Definition copy_one_v0 (objgen : Z) (kvs : list (string * json)) : outcome (option string) :=
  match as_int64 (nested1 kvs "observedGeneration") with
  | IError => Err
  | og =>
      let ogv := match og with IVal z => z | _ => 0%Z end in
      if negb (Z.eqb objgen ogv) then Ok None
      else
        bind (assert_string S_v0_ot_cond_type kvs "type") (fun ty =>
        bind (assert_string S_v0_ot_cond_status kvs "status") (fun _ =>
        bind (assert_string S_v0_ot_cond_reason kvs "reason") (fun _ =>
        bind (assert_string S_v0_ot_cond_message kvs "message") (fun _ =>
        Ok (Some ty)))))
  end.

Section CopyConditions.
  Variable one : Z -> list (string * json) -> outcome (option string).

  Fixpoint copy_conditions_with (objgen : Z) (conds : list json) (acc : list string) : outcome (list string) :=
    match conds with
    | [] => Ok acc
    | JObj kvs :: rest =>                                                   (* :377 *)
        bind (one objgen kvs) (fun r =>
        copy_conditions_with objgen rest (match r with Some ty => add_distinct ty acc | None => acc end))
    | _ :: _ => Err                                                         (* :379 *)
    end.

  Definition conditions_of_with (gen_check : bool) (obj : list (string * json)) : outcome (list string) :=
    if negb gen_check then Ok [] else                                      (* :361-366 *)
    match nested2 obj "status" "conditions" with                           (* :368 NestedSlice *)
    | NError => Err
    | NAbsent => Ok []
    | NFound (JArr l) => copy_conditions_with (generation_of obj) l []
    | NFound _ => Err
    end.

  Definition template_conditions_with (gen : Z) (obj : list (string * json)) : outcome (list string) :=
    match as_int64 (nested2 obj "status" "observedGeneration") with       (* :357 *)
    | IError => Err
    | IVal z => conditions_of_with (Z.eqb z gen) obj
    | IAbsent => conditions_of_with true obj
    end.
End CopyConditions.

Definition template_conditions := template_conditions_with copy_one.
Definition template_conditions_v0 := template_conditions_with copy_one_v0.

(** all four fields of every condition entry the function would copy are strings *)
Definition cond_entry_ok (c : json) : bool :=
  match c with JObj kvs => entry_strings kvs | _ => true end.
Definition conditions_wellformed (obj : list (string * json)) : bool :=
  match nested2 obj "status" "conditions" with
  | NFound (JArr l) => forallb cond_entry_ok l
  | _ => true
  end.

(** template_reconciler.go:447-466 RelaxedJSONPathExpression; the regular expression match is library
    behaviour: [submatches] is whatever FindStringSubmatch returned. *)
Definition relaxed_jsonpath (key_empty : bool) (submatches : option (list string)) : outcome string :=
  if key_empty then Ok "" else
  match submatches with
  | None => Err                                                          (* :452 *)
  | Some sm =>
      if negb (Nat.eqb (List.length sm) 3) then Err else                       (* :456 *)
      bind (index_or S_ot_submatches1 sm 1) (fun s1 =>                    (* :460 *)
      if negb (String.eqb s1 "") then Ok s1                               (* :461 *)
      else index_or S_ot_submatches2 sm 2)                                (* :463 *)
  end.

(** template_reconciler.go:255-292 copySourceItem. Library behaviour enters as parameters: the
    regular expression match, the outcome of jsonpath Parse/Execute + json.Unmarshal ([None] = one of
    them returned an error), whether SetNestedField succeeds. [len_checked] = the destination's length is
    checked before it is indexed (:283, since commit a818a7e). *)
Definition first_char (s : site_id) (d : string) : outcome ascii :=
  match d with EmptyString => Panic s | String c _ => Ok c end.

Definition copy_source_item_at (len_checked : bool) (s : site_id)
           (key_empty : bool) (submatches : option (list string)) (executed : option json)
           (destination : string) (set_ok : bool) : outcome unit :=
  bind (relaxed_jsonpath key_empty submatches) (fun _ =>                 (* :260 *)
  match executed with
  | None => Err                                                          (* :267-278 *)
  | Some value =>
      bind (match value with
            | JArr vs => if Nat.eqb (List.length vs) 1 then index_or S_ot_vslice0 vs 0 else Ok value   (* :279-281 *)
            | _ => Ok value
            end) (fun _ =>
      if len_checked && Nat.eqb (String.length destination) 0 then Err     (* :283 len(item.Destination) == 0 || *)
      else
        bind (first_char s destination) (fun c =>                          (* :283 item.Destination[0] *)
        if negb (Ascii.eqb c "."%char) then Err                            (* :284 *)
        else if set_ok then Ok tt else Err))                               (* :287 *)
  end).

Definition copy_source_item := copy_source_item_at true S_ot_destination0.
(** HISTORICAL (before commit a818a7e): the destination was indexed without a length check. *)
Definition copy_source_item_v0 := copy_source_item_at false S_v0_ot_destination0.

(* ------------------------------------------------------------------ (4) packageimport.FromOCI
   oci.go:20-68. The tar stream as the sequence of results of tarReader.Next together with whether the
   entry's body can be read to its end; after the last event the reader reports io.EOF.
   (mutate.Extract re-encodes the layers through a pipe: a layer that breaks off between entries
   reaches FromOCI as a clean end of archive, one that breaks off inside a body as a short body.) *)

Inductive path_class := PUnder (hidden : bool) | POutside | PRelError.
Inductive tar_event :=
| THeader (p : path_class) (body_ok : bool)   (* Next returned a header; the body is complete or breaks off *)
| TError.                                      (* Next returned a non-EOF error *)

(** oci.go:34-64 (since commit e1805ac): every error of Next other than io.EOF is returned. *)
Fixpoint from_oci (evs : list tar_event) (files : N) : outcome N :=
  match evs with
  | [] => if N.eqb files 0 then Err else Ok files                        (* :37-39 EOF, :66 *)
  | TError :: _ => Err                                                   (* :40 *)
  | THeader p body_ok :: rest =>
      match p with
      | PRelError => Err                                                 (* :43-46 *)
      | POutside | PUnder true =>
          (* :47-54 continue without reading the body: the next Next() has to skip it and fails with a
             non-EOF error where it breaks off *)
          if body_ok then from_oci rest files else Err
      | PUnder false => if body_ok then from_oci rest (files + 1) else Err    (* :56-61 *)
      end
  end.

(** HISTORICAL (before commit e1805ac "return tar read errors from FromOCI instead of dereferencing a nil
    header"): only io.EOF was handled, hdr.Name was read from the nil header after any other error. *)
Fixpoint from_oci_v0 (evs : list tar_event) (files : N) : outcome N :=
  match evs with
  | [] => if N.eqb files 0 then Err else Ok files
  | TError :: _ => Panic S_v0_imp_hdr
  | THeader p body_ok :: rest =>
      match p with
      | PRelError => Err
      | POutside | PUnder true => if body_ok then from_oci_v0 rest files else Panic S_v0_imp_hdr
      | PUnder false => if body_ok then from_oci_v0 rest (files + 1) else Err
      end
  end.

(** no Next() of the stream fails: no error event and no skipped entry with a broken body *)
Definition no_tar_error (evs : list tar_event) : bool :=
  forallb (fun e => match e with
                    | TError => false
                    | THeader POutside false | THeader (PUnder true) false => false
                    | _ => true
                    end) evs.

(* ------------------------------------------------------------------ (4b) x-kubernetes-validations of the config schema
   packagemanifestvalidation/private.go:662-690 (validateSchemaStuffWithXPrefixedName) and
   apiextensions-apiserver schema/cel/compilation.go:120-160 (Compile, prepareEnvSet). Library behaviour
   enters as parameters; [base_env] says whether the caller hands a CEL environment set to Compile. *)

Definition compile_xvalidations_with (base_env : bool)
           (schema_errors celctx_nil typeinfo_err typeinfo_nil : bool) (rules : nat) (decltype_nil : bool) : outcome unit :=
  if schema_errors || celctx_nil then Ok tt else                        (* private.go:665 *)
  if typeinfo_err || typeinfo_nil then Ok tt else                       (* :668-682: an InternalError is recorded *)
  if Nat.eqb rules 0 then Ok tt else                                     (* compilation.go:126 *)
  if decltype_nil then Ok tt else                                        (* :129: error, recorded at private.go:690 *)
  if base_env then Ok tt else Panic S_v0_mv_nil_envset.                  (* :134 prepareEnvSet calls Extend on the nil EnvSet *)

(** since commit 35e301a the call passes environment.MustBaseEnvSet(..) and an EnvLoader *)
Definition compile_xvalidations := compile_xvalidations_with true.
(** HISTORICAL (before commit 35e301a "compile x-kubernetes-validations of the config schema with a CEL
    environment"): literal nil for both *)
Definition compile_xvalidations_v0 := compile_xvalidations_with false.

(* ------------------------------------------------------------------ (5) annotation owner strategy
   boxcutter ownerhandling/annotation.go:213-229 getOwnerReferences, as called by the PhaseReconciler
   of the multi-cluster ObjectSetPhase controllers. *)

Inductive anno_state :=
| AAbsent            (* no annotations / key absent / empty value *)
| ANotJSON           (* the value is not a JSON document *)
| AJSON (v : json).

Definition get_owner_refs (a : anno_state) : outcome unit :=
  match a with
  | AAbsent => Ok tt                                                     (* :215-221 *)
  | ANotJSON => Panic S_bx_a_getOwnerReferences_panic                    (* :224-226 *)
  | AJSON v => if slice_fits ownerref_spec v then Ok tt else Panic S_bx_a_getOwnerReferences_panic
  end.

Definition anno_wellformed (a : anno_state) : bool :=
  match a with AAbsent => true | ANotJSON => false | AJSON v => slice_fits ownerref_spec v end.

(** ReconcilePhase with the annotation strategy reads the owners annotation of the desired object
    (phase_reconciler.go:337 SetControllerReference; the object comes from the ObjectSetPhase spec) and
    then, if the object exists, of the cluster object (adoption check, :687 IsController). TeardownPhase reads
    the cluster object's only (:274 IsController), and so does the strategy's event handler
    (objectsetphase_controller.go:328, annotation.go:383). *)
Definition phase_owner_reads (teardown : bool) (desired : anno_state) (actual : option anno_state) : outcome unit :=
  bind (if teardown then Ok tt else get_owner_refs desired) (fun _ =>
  match actual with None => Ok tt | Some a => get_owner_refs a end).

(* ------------------------------------------------------------------ (6) the include recursion guard
   transform/transformfiles_funcs.go:221-256 (SprigFuncs: `include`). A render is a well-bracketed sequence
   of entries into and returns from included templates; the guard keeps a counter per template name. *)

Definition include_limit : nat := 1000.   (* recursionDepth *)

Inductive gop := Enter (name : nat) | Exit.
(** what happens to a name's counter when its include returns: the code decrements (:253); the other
    shape - forgetting the entry - is the mutant of seed C19-E *)
Inductive exit_policy := Decrement | Delete.

Record gstate := mkg { g_count : nat -> nat; g_stack : list nat }.
Definition g_init : gstate := mkg (fun _ => 0) [].
Definition upd (c : nat -> nat) (n v : nat) : nat -> nat := fun m => if Nat.eqb m n then v else c m.

(** [None]: the include is refused with ErrExceededIncludeRecursion and the render unwinds *)
Definition gstep (pol : exit_policy) (limit : nat) (st : gstate) (op : gop) : option gstate :=
  match op with
  | Enter n =>
      let v := g_count st n in                                          (* :242 absent = 0 *)
      if Nat.ltb limit v then None                                      (* :243 v > recursionDepth *)
      else Some (mkg (upd (g_count st) n (S v)) (n :: g_stack st))      (* :246 / :248, :250 ExecuteTemplate *)
  | Exit =>
      match g_stack st with
      | [] => Some st
      | n :: rest =>
          Some (mkg (upd (g_count st) n (match pol with Decrement => pred (g_count st n) | Delete => 0 end)) rest)   (* :253 *)
      end
  end.

(** the state after the operations, or where the render was refused *)
Fixpoint grun (pol : exit_policy) (limit : nat) (ops : list gop) (st : gstate) : gstate :=
  match ops with
  | [] => st
  | op :: rest => match gstep pol limit st op with None => st | Some st' => grun pol limit rest st' end
  end.

Definition depth (st : gstate) : nat := List.length (g_stack st).

(** the shape that defeats delete-on-exit: enter, (enter, return), enter, (enter, return), ... of one name *)
Fixpoint leaf_first_ops (d : nat) : list gop :=
  match d with O => [] | S d' => Enter 0 :: Enter 0 :: Exit :: leaf_first_ops d' end.

(* ------------------------------------------------------------------ (7) uniqueInScope constraint of the deployers
   packagedeploy/deployer.go: Deploy -> checkConstraints -> validateUnique calls uncachedClient.List when the
   manifest has a uniqueInScope constraint. [client_set]: the constructor that built the deployer set the
   uncachedClient field; [list_ok]: outcome of the List call (library). *)
Definition check_unique_with (client_set has_unique list_ok : bool) : outcome unit :=
  if negb has_unique then Ok tt                                          (* :281-289 *)
  else if client_set then (if list_ok then Ok tt else Err)               (* :305 / :313 *)
  else Panic S_v0_pd_uncachedClient_unset.

(** both NewPackageDeployer and NewClusterPackageDeployer set the field (since commit 9533cda); the translator
    reports a constructor that leaves it out as an `unsetfield` site *)
Definition check_unique := check_unique_with true.
(** HISTORICAL (before commit 9533cda "ClusterPackage deployer panicked on uniqueInScope constraints (nil uncached
    client)"): NewClusterPackageDeployer left the field nil *)
Definition check_unique_v0_cluster := check_unique_with false.
