(** Laws of the RequestManager model (C20). *)
From Coq Require Import List NArith Bool Lia.
From PKO Require Import ReqMgr.
Import ListNotations.
Local Open Scope N_scope.

(** * Basics *)

Lemma run_snoc steps x : run (steps ++ [x]) = do_step (run steps) x.
Proof. unfold run, run_from. now rewrite fold_left_app. Qed.

Lemma run_from_app s p q : run_from s (p ++ q) = run_from (run_from s p) q.
Proof. unfold run_from. apply fold_left_app. Qed.

Lemma log_step s x : log (do_step s x) = log s ++ step_events s x.
Proof. destruct x as [c img|img res|c|c]; cbn; [destruct (inflight s img)| | |]; reflexivity. Qed.

Lemma set_same {A} (m : N -> A) i v : set m i v i = v.
Proof. unfold set. now rewrite N.eqb_refl. Qed.

Lemma set_other {A} (m : N -> A) i j v : j <> i -> set m i v j = m j.
Proof. unfold set. intros H. apply N.eqb_neq in H. now rewrite H. Qed.

Lemma log_outs steps : forall s, log (run_from s steps) = log s ++ concat (outs s steps).
Proof.
  induction steps as [|x r IH]; intros s; cbn.
  - now rewrite app_nil_r.
  - change (fold_left do_step r (do_step s x)) with (run_from (do_step s x) r).
    rewrite IH, log_step. now rewrite app_assoc.
Qed.

Definition is_response (e : event) : Prop := match e with Response _ _ _ _ _ => True | _ => False end.

Lemma broadcast_responses img n res recv : forall k, Forall is_response (broadcast img n res k recv).
Proof. induction recv as [|c r IH]; intros k; cbn; constructor; [exact I|apply IH]. Qed.

Lemma count_started_app img l1 l2 : count_started img (l1 ++ l2) = (count_started img l1 + count_started img l2)%nat.
Proof. unfold count_started. now rewrite filter_app, app_length. Qed.

Lemma count_resp_app c img l1 l2 : count_resp c img (l1 ++ l2) = (count_resp c img l1 + count_resp c img l2)%nat.
Proof. unfold count_resp. now rewrite filter_app, app_length. Qed.

Lemma count_done_app img l1 l2 : count_done img (l1 ++ l2) = (count_done img l1 + count_done img l2)%nat.
Proof. unfold count_done. now rewrite filter_app, app_length. Qed.

Lemma count_req_app c img l1 l2 : count_req c img (l1 ++ l2) = (count_req c img l1 + count_req c img l2)%nat.
Proof. unfold count_req. now rewrite filter_app, app_length. Qed.

Lemma count_in_app c l1 l2 : count_in c (l1 ++ l2) = (count_in c l1 + count_in c l2)%nat.
Proof. unfold count_in. now rewrite filter_app, app_length. Qed.

Lemma pullnos_app l1 l2 : pullnos (l1 ++ l2) = pullnos l1 ++ pullnos l2.
Proof. unfold pullnos. now rewrite flat_map_app. Qed.

Lemma copies_app l1 l2 : copies (l1 ++ l2) = copies l1 ++ copies l2.
Proof. unfold copies. now rewrite flat_map_app. Qed.

Lemma last_started_app img l1 l2 :
  last_started img (l1 ++ l2) =
  fold_left (fun acc e => match e with PullStarted i n => if i =? img then Some n else acc | _ => acc end) l2 (last_started img l1).
Proof. unfold last_started. now rewrite fold_left_app. Qed.

Lemma responses_count_started img l : Forall is_response l -> count_started img l = 0%nat.
Proof. induction 1 as [|e l He _ IH]; [reflexivity|]. destruct e; cbn in *; try contradiction; exact IH. Qed.

Lemma responses_pullnos l : Forall is_response l -> pullnos l = [].
Proof. induction 1 as [|e l He _ IH]; [reflexivity|]. destruct e; cbn in *; try contradiction; exact IH. Qed.

Lemma responses_last_started img l a : Forall is_response l ->
  fold_left (fun acc e => match e with PullStarted i n => if i =? img then Some n else acc | _ => acc end) l a = a.
Proof. intros H; revert a; induction H as [|e l He _ IH]; intros a; [reflexivity|]. destruct e; cbn in *; try contradiction; apply IH. Qed.

Lemma count_resp_broadcast c img i n res recv : forall k,
  count_resp c img (broadcast i n res k recv) = if i =? img then count_in c recv else 0%nat.
Proof.
  induction recv as [|d r IH]; intros k; cbn.
  - now destruct (i =? img).
  - unfold count_resp, count_in in *. cbn. specialize (IH (k + 1)).
    rewrite (N.eqb_sym d c).
    destruct (i =? img) eqn:Ei; destruct (c =? d) eqn:Ec; cbn; rewrite IH; reflexivity.
Qed.

Lemma copies_broadcast_in img n res recv : forall k n' j,
  In (n', j) (copies (broadcast img n res k recv)) -> n' = n /\ k <= j.
Proof.
  induction recv as [|c r IH]; intros k n' j; cbn; [tauto|].
  destruct res; cbn.
  - intros [H|H].
    + injection H as <- <-. split; [reflexivity|lia].
    + apply IH in H. destruct H; split; [assumption|lia].
  - intros H. apply IH in H. destruct H; split; [assumption|lia].
Qed.

Lemma copies_broadcast_nodup img n res recv : forall k, NoDup (copies (broadcast img n res k recv)).
Proof.
  induction recv as [|c r IH]; intros k; cbn; [constructor|].
  destruct res; cbn; [|apply IH].
  constructor; [|apply IH]. intros H. apply copies_broadcast_in in H. lia.
Qed.

Lemma nodup_app {A} (l1 l2 : list A) :
  NoDup l1 -> NoDup l2 -> (forall x, In x l1 -> ~ In x l2) -> NoDup (l1 ++ l2).
Proof.
  induction l1 as [|a l1 IH]; cbn; intros H1 H2 H; [assumption|].
  inversion H1 as [|? ? Ha H1']; subst. constructor.
  - rewrite in_app_iff. intros [Hi|Hi]; [contradiction|]. exact (H a (or_introl eq_refl) Hi).
  - apply IH; auto.
Qed.

(** * State invariant (holds for every schedule, well-formed or not) *)

Record Inv (s : state) : Prop := {
  inv_lt : forall img e, inflight s img = Some e -> e_pull e < next s;
  inv_inj : forall i j e e', inflight s i = Some e -> inflight s j = Some e' -> e_pull e = e_pull e' -> i = j;
  inv_copies_fresh : forall n k img e, In (n, k) (copies (log s)) -> inflight s img = Some e -> e_pull e <> n;
  inv_copies_lt : forall n k, In (n, k) (copies (log s)) -> n < next s;
  inv_nodup : NoDup (copies (log s));
  inv_pulls_lt : forall n, In n (pullnos (log s)) -> n < next s;
  inv_pulls_nodup : NoDup (pullnos (log s));
}.

Lemma inv_init : Inv init.
Proof. constructor; cbn; try discriminate; try tauto; constructor. Qed.

Lemma inv_step s x : Inv s -> Inv (do_step s x).
Proof.
  intros [Hlt Hinj Hfresh Hclt Hnd Hplt Hpnd]. destruct x as [c img|img res|c|c].
  3: { (* Fail: only a Rejected event *)
       constructor; cbn; rewrite ?copies_app, ?pullnos_app; cbn; rewrite ?app_nil_r; eauto. }
  3: { (* Cancel: nothing changes *)
       constructor; cbn; rewrite ?app_nil_r; eauto. }
  - (* Req *)
    cbn. destruct (inflight s img) as [e|] eqn:E.
    + (* join the entry *)
      constructor; cbn; rewrite ?app_nil_r; auto.
      * intros i e0. destruct (N.eq_dec i img) as [->|Hne].
        -- rewrite set_same. intros H; injection H as <-. cbn. eauto.
        -- rewrite set_other by assumption. eauto.
      * intros i j e1 e2. destruct (N.eq_dec i img) as [->|Hi]; destruct (N.eq_dec j img) as [->|Hj];
          rewrite ?set_same, ?set_other by assumption; auto.
        -- intros H1 H2; injection H1 as <-; cbn. intros Hp. symmetry. eapply (Hinj j img); eauto.
        -- intros H1 H2; injection H2 as <-; cbn. intros Hp. eapply (Hinj i img); eauto.
        -- eauto.
      * intros n k i e0 Hin. destruct (N.eq_dec i img) as [->|Hi]; rewrite ?set_same, ?set_other by assumption.
        -- intros H; injection H as <-; cbn. eauto.
        -- eauto.
    + (* start a pull *)
      constructor; cbn.
      * intros i e0. destruct (N.eq_dec i img) as [->|Hne]; rewrite ?set_same, ?set_other by assumption.
        -- intros H; injection H as <-. cbn. lia.
        -- intros H. apply Hlt in H. lia.
      * intros i j e1 e2. destruct (N.eq_dec i img) as [->|Hi]; destruct (N.eq_dec j img) as [->|Hj];
          rewrite ?set_same, ?set_other by assumption; auto.
        -- intros H1 H2; injection H1 as <-; cbn. intros Hp. apply Hlt in H2. lia.
        -- intros H1 H2; injection H2 as <-; cbn. intros Hp. apply Hlt in H1. lia.
        -- eauto.
      * intros n k i e0. rewrite copies_app. cbn. rewrite app_nil_r. intros Hin.
        destruct (N.eq_dec i img) as [->|Hi]; rewrite ?set_same, ?set_other by assumption.
        -- intros H; injection H as <-; cbn. apply Hclt in Hin. lia.
        -- eauto.
      * intros n k. rewrite copies_app. cbn. rewrite app_nil_r. intros Hin. apply Hclt in Hin. lia.
      * rewrite copies_app. cbn. now rewrite app_nil_r.
      * intros n. rewrite pullnos_app, in_app_iff. cbn. intros [H|[H|[]]]; [apply Hplt in H|]; lia.
      * rewrite pullnos_app. cbn. apply nodup_app; [assumption|constructor; [tauto|constructor]|].
        intros n Hin [H|[]]. apply Hplt in Hin. lia.
  - (* Done *)
    assert (Hresp : Forall is_response (step_events s (Done img res))).
    { cbn. destruct (inflight s img); [apply broadcast_responses|constructor]. }
    assert (Hnew : forall n k, In (n, k) (copies (step_events s (Done img res))) ->
                               exists e, inflight s img = Some e /\ e_pull e = n).
    { cbn. destruct (inflight s img) as [e|]; [|cbn; tauto]. intros n k H.
      apply copies_broadcast_in in H. exists e. split; [reflexivity|]. now destruct H. }
    constructor; cbn [do_step inflight next log].
    + intros i e0. destruct (N.eq_dec i img) as [->|Hne]; rewrite ?set_same, ?set_other by assumption; [discriminate|eauto].
    + intros i j e1 e2. destruct (N.eq_dec i img) as [->|Hi]; rewrite ?set_same, ?set_other by assumption; [discriminate|].
      destruct (N.eq_dec j img) as [->|Hj]; rewrite ?set_same, ?set_other by assumption; [discriminate|eauto].
    + intros n k i e0. rewrite copies_app, in_app_iff.
      destruct (N.eq_dec i img) as [->|Hi]; rewrite ?set_same, ?set_other by assumption; [discriminate|].
      intros [Hin|Hin] Hi0; [eauto|].
      destruct (Hnew _ _ Hin) as (e & He & Hp). intros Heq. apply Hi. eapply Hinj; eauto. congruence.
    + intros n k. rewrite copies_app, in_app_iff. intros [Hin|Hin]; [eauto|].
      destruct (Hnew _ _ Hin) as (e & He & <-). eauto.
    + rewrite copies_app. apply nodup_app; [assumption| |].
      * cbn. destruct (inflight s img); [apply copies_broadcast_nodup|constructor].
      * intros [n k] Hin Hin2. destruct (Hnew _ _ Hin2) as (e & He & Hp). exact (Hfresh _ _ _ _ Hin He Hp).
    + intros n. rewrite pullnos_app, (responses_pullnos _ Hresp), app_nil_r. auto.
    + now rewrite pullnos_app, (responses_pullnos _ Hresp), app_nil_r.
Qed.

Lemma inv_run_from steps : forall s, Inv s -> Inv (run_from s steps).
Proof. induction steps as [|x r IH]; intros s H; cbn; [assumption|]. apply IH. now apply inv_step. Qed.

Lemma inv_run steps : Inv (run steps).
Proof. apply inv_run_from, inv_init. Qed.

(** * The map of in-flight entries is a function of the schedule's history *)

Lemma waiting_snoc_req img p c i :
  waiting img (rev (p ++ [Req c i])) = if i =? img then waiting img (rev p) ++ [c] else waiting img (rev p).
Proof. now rewrite rev_app_distr. Qed.

Lemma waiting_snoc_done img p i res :
  waiting img (rev (p ++ [Done i res])) = if i =? img then [] else waiting img (rev p).
Proof. now rewrite rev_app_distr. Qed.

Lemma waiting_snoc_fail img p c : waiting img (rev (p ++ [Fail c])) = waiting img (rev p).
Proof. now rewrite rev_app_distr. Qed.

Lemma waiting_snoc_cancel img p c : waiting img (rev (p ++ [Cancel c])) = waiting img (rev p).
Proof. now rewrite rev_app_distr. Qed.

Definition entry_matches (steps : list step) (s : state) (img : N) : Prop :=
  match inflight s img with
  | None => waiting img (rev steps) = []
  | Some e => e_recv e = waiting img (rev steps) /\ e_recv e <> [] /\ last_started img (log s) = Some (e_pull e)
  end.

Lemma inflight_waiting steps : forall img, entry_matches steps (run steps) img.
Proof.
  induction steps as [|x p IH] using rev_ind; intros img; unfold entry_matches.
  - reflexivity.
  - rewrite run_snoc. specialize (IH img) as IHimg. unfold entry_matches in IHimg.
    destruct x as [c i|i res|c|c].
    3: { rewrite waiting_snoc_fail. cbn [do_step inflight log step_events].
         destruct (inflight (run p) img); [|assumption].
         rewrite last_started_app. exact IHimg. }
    3: { rewrite waiting_snoc_cancel. cbn. rewrite app_nil_r. exact IHimg. }
    + rewrite waiting_snoc_req. cbn [do_step].
      destruct (inflight (run p) i) as [e|] eqn:E; cbn [inflight log step_events]; rewrite E.
      * rewrite app_nil_r. destruct (N.eqb_spec i img) as [->|Hne].
        -- rewrite set_same. rewrite E in IHimg. destruct IHimg as (H1 & H2 & H3). cbn. repeat split.
           ++ now rewrite H1.
           ++ destruct (e_recv e); discriminate.
           ++ assumption.
        -- rewrite set_other by congruence. exact IHimg.
      * rewrite last_started_app. cbn. destruct (N.eqb_spec i img) as [->|Hne].
        -- rewrite set_same. rewrite E in IHimg. cbn. rewrite IHimg. repeat split. discriminate.
        -- rewrite set_other by congruence. destruct (inflight (run p) img); [|assumption]. exact IHimg.
    + rewrite waiting_snoc_done. cbn [do_step inflight log].
      assert (Hresp : Forall is_response (step_events (run p) (Done i res))).
      { cbn. destruct (inflight (run p) i); [apply broadcast_responses|constructor]. }
      destruct (N.eqb_spec i img) as [->|Hne].
      * now rewrite set_same.
      * rewrite set_other by congruence. destruct (inflight (run p) img); [|assumption].
        rewrite last_started_app, (responses_last_started _ _ _ Hresp). exact IHimg.
Qed.

Lemma entry_none_iff steps img : inflight (run steps) img = None <-> waiting img (rev steps) = [].
Proof.
  pose proof (inflight_waiting steps img) as H. unfold entry_matches in H.
  destruct (inflight (run steps) img) as [e|].
  - destruct H as (H1 & H2 & _). split; [discriminate|]. intros H. congruence.
  - tauto.
Qed.

(** * Well-formed schedules *)

Lemma wf_snoc p x :
  wf (p ++ [x]) = match x with Done img _ => negb (is_nilb (waiting img (rev p))) && wf p | _ => wf p end.
Proof. unfold wf. rewrite rev_app_distr. destruct x; reflexivity. Qed.

Lemma wf_prefix p q : wf (p ++ q) = true -> wf p = true.
Proof.
  induction q as [|x q IH] using rev_ind; [now rewrite app_nil_r|].
  rewrite app_assoc, wf_snoc. destruct x; [assumption| |assumption|assumption]. rewrite andb_true_iff. tauto.
Qed.

(** * (a) at most one pull per image in flight *)

Lemma started_minus_done steps : wf steps = true -> forall img,
  count_started img (log (run steps)) =
  (count_done img steps + match inflight (run steps) img with Some _ => 1 | None => 0 end)%nat.
Proof.
  induction steps as [|x p IH] using rev_ind; intros Hwf img; [reflexivity|].
  rewrite wf_snoc in Hwf. rewrite run_snoc, log_step, count_started_app, count_done_app.
  destruct x as [c i|i res|c|c].
  3: { specialize (IH Hwf img). cbn. lia. }
  3: { specialize (IH Hwf img). cbn. lia. }
  - specialize (IH Hwf img). cbn [do_step step_events].
    destruct (inflight (run p) i) as [e|] eqn:E; cbn [inflight]; rewrite ?E; cbn [count_done filter length count_started].
    + destruct (N.eqb_spec i img) as [->|Hne].
      * rewrite set_same. rewrite E in IH. cbn. lia.
      * rewrite set_other by congruence. cbn. lia.
    + destruct (N.eqb_spec i img) as [->|Hne].
      * rewrite set_same. rewrite E in IH. cbn. lia.
      * rewrite set_other by congruence. cbn. lia.
  - apply andb_true_iff in Hwf. destruct Hwf as [Hrun Hwf]. specialize (IH Hwf img).
    assert (Hresp : Forall is_response (step_events (run p) (Done i res))).
    { cbn. destruct (inflight (run p) i); [apply broadcast_responses|constructor]. }
    rewrite (responses_count_started _ _ Hresp). cbn [do_step inflight count_done filter length].
    destruct (N.eqb_spec i img) as [->|Hne].
    + rewrite set_same. cbn.
      destruct (inflight (run p) img) as [e|] eqn:E; [lia|].
      apply entry_none_iff in E. rewrite E in Hrun. discriminate.
    + rewrite set_other by congruence. cbn. lia.
Qed.

(** At every point of a well-formed schedule and for every image: either an entry is present and
    exactly one started pull has not finished, or no entry is present and every started pull has finished. *)
Theorem one_pull_in_flight p q : wf (p ++ q) = true -> forall img,
  let s := run p in
  (inflight s img <> None /\ count_started img (log s) = S (count_done img p)) \/
  (inflight s img = None /\ count_started img (log s) = count_done img p).
Proof.
  intros Hwf img s. apply wf_prefix in Hwf. pose proof (started_minus_done p Hwf img) as H. fold s in H.
  destruct (inflight s img); [left|right]; split; try congruence; lia.
Qed.

(** A pull is started exactly by a request that finds no entry; one that finds an entry joins it. *)
Theorem req_step steps c img :
  let s := run steps in
  log (run (steps ++ [Req c img])) =
    log s ++ (if is_nilb (waiting img (rev steps)) then [PullStarted img (next s)] else []) /\
  ~ In (next s) (pullnos (log s)).
Proof.
  intros s. split.
  - rewrite run_snoc, log_step. fold s. cbn.
    pose proof (inflight_waiting steps img) as H. unfold entry_matches in H. fold s in H.
    destruct (inflight s img) as [e|].
    + destruct H as (H1 & H2 & _). rewrite <- H1. destruct (e_recv e); [congruence|reflexivity].
    + now rewrite H.
  - intros H. apply (inv_pulls_lt _ (inv_run steps)) in H. fold s in H. lia.
Qed.

(** * (b) every request is answered exactly once, by the next Done of its image *)

(** Accounting, at every point of every schedule: the requests (c, img) made so far are the
    responses (c, img) sent so far plus those still waiting since the last [Done img]. *)
Theorem request_accounting steps c img :
  count_req c img steps =
  (count_resp c img (log (run steps)) + count_in c (waiting img (rev steps)))%nat.
Proof.
  induction steps as [|x p IH] using rev_ind; [reflexivity|].
  rewrite run_snoc, log_step, count_req_app, count_resp_app.
  pose proof (inflight_waiting p) as Hm.
  destruct x as [d i|i res|d|d].
  3: { rewrite waiting_snoc_fail. cbn. lia. }
  3: { rewrite waiting_snoc_cancel. cbn. lia. }
  - rewrite waiting_snoc_req. cbn [step_events].
    assert (Hz : count_resp c img (match inflight (run p) i with None => [PullStarted i (next (run p))] | Some _ => [] end) = 0%nat)
      by (destruct (inflight (run p) i); reflexivity).
    rewrite Hz. unfold count_req at 2. cbn [filter].
    destruct (N.eqb_spec i img) as [->|Hne].
    + rewrite count_in_app. unfold count_in at 2. cbn [filter]. rewrite (N.eqb_sym d c).
      destruct (c =? d); cbn; lia.
    + rewrite andb_false_r. cbn. lia.
  - rewrite waiting_snoc_done. unfold count_req at 2. cbn [filter length step_events].
    specialize (Hm i). unfold entry_matches in Hm.
    destruct (inflight (run p) i) as [e|].
    + destruct Hm as (H1 & _ & _). rewrite count_resp_broadcast, H1.
      destruct (N.eqb_spec i img) as [->|Hne]; cbn; lia.
    + destruct (N.eqb_spec i img) as [->|Hne]; [rewrite Hm in IH|]; cbn in *; lia.
Qed.

(** What a [Done img res] emits: one response per caller waiting for [img], in registration
    order, carrying [res] and the number of the pull that is running for [img]; afterwards
    nobody is waiting for [img] any more. *)
Theorem done_step steps img res :
  log (run (steps ++ [Done img res])) =
    log (run steps) ++ match last_started img (log (run steps)) with
                       | Some n => broadcast img n res 0 (waiting img (rev steps))
                       | None => []
                       end /\
  waiting img (rev (steps ++ [Done img res])) = [] /\
  inflight (run (steps ++ [Done img res])) img = None.
Proof.
  rewrite run_snoc, log_step, waiting_snoc_done, N.eqb_refl. cbn. rewrite set_same. repeat split.
  pose proof (inflight_waiting steps img) as H. unfold entry_matches in H.
  destruct (inflight (run steps) img) as [e|].
  - destruct H as (H1 & _ & H3). now rewrite H3, H1.
  - rewrite H. now destruct (last_started img (log (run steps))).
Qed.

Lemma waiting_no_done img c p q :
  (forall r, ~ In (Done img r) q) -> In c (waiting img (rev (p ++ Req c img :: q))).
Proof.
  induction q as [|x q IH] using rev_ind; intros Hq.
  - change (p ++ [Req c img]) with (p ++ [Req c img]). rewrite waiting_snoc_req, N.eqb_refl.
    apply in_or_app. right. now left.
  - assert (Hq' : forall r, ~ In (Done img r) q) by (intros r H; apply (Hq r), in_or_app; now left).
    specialize (IH Hq'). replace (p ++ Req c img :: q ++ [x]) with ((p ++ Req c img :: q) ++ [x])
      by (rewrite <- app_assoc; reflexivity).
    destruct x as [d i|i r|d|d].
    3: { now rewrite waiting_snoc_fail. }
    3: { now rewrite waiting_snoc_cancel. }
    + rewrite waiting_snoc_req. destruct (i =? img); [apply in_or_app; now left|assumption].
    + rewrite waiting_snoc_done. destruct (N.eqb_spec i img) as [->|Hne]; [|assumption].
      exfalso. apply (Hq r), in_or_app. right. now left.
Qed.

Lemma count_in_pos c l : In c l -> (0 < count_in c l)%nat.
Proof.
  induction l as [|a l IH]; cbn; [tauto|]. unfold count_in in *. cbn.
  intros [->|H]; [rewrite N.eqb_refl; cbn; lia|]. destruct (c =? a); cbn; [lia|auto].
Qed.

(** Position form: a request is still unanswered just before the next [Done] of its image, and
    right after that [Done] every request (c, img) made so far has exactly one response. *)
Theorem exactly_one_response p c img q res :
  (forall r, ~ In (Done img r) q) ->
  let before := p ++ Req c img :: q in
  let after := before ++ [Done img res] in
  (count_resp c img (log (run before)) < count_req c img before)%nat /\
  count_resp c img (log (run after)) = count_req c img after /\
  count_req c img after = count_req c img before.
Proof.
  intros Hq before after. repeat split.
  - pose proof (request_accounting before c img) as H.
    pose proof (count_in_pos c _ (waiting_no_done img c p q Hq)) as Hpos. fold before in Hpos. lia.
  - pose proof (request_accounting after c img) as H. unfold after in H at 3.
    rewrite waiting_snoc_done, N.eqb_refl in H. cbn in H. lia.
  - unfold after. rewrite count_req_app. cbn. lia.
Qed.

(** No response without a request (immediate from the accounting). *)
Corollary no_spurious_response steps c img :
  (count_resp c img (log (run steps)) <= count_req c img steps)%nat.
Proof. pose proof (request_accounting steps c img). lia. Qed.

(** * Cancellation of a waiting caller's context changes nothing: the caller stays registered and
      is answered by the next [Done] of its image like everybody else (all theorems of this file
      quantify over schedules that may contain [Cancel] steps anywhere). *)
Theorem cancel_step steps c :
  log (run (steps ++ [Cancel c])) = log (run steps) /\
  next (run (steps ++ [Cancel c])) = next (run steps) /\
  forall img, inflight (run (steps ++ [Cancel c])) img = inflight (run steps) img /\
              waiting img (rev (steps ++ [Cancel c])) = waiting img (rev steps).
Proof.
  rewrite run_snoc. cbn. rewrite app_nil_r. repeat split. apply waiting_snoc_cancel.
Qed.

(** * Override failure: a Pull whose registry-host override fails is answered at once with the error,
      touches nothing and starts no pull; and every such call gets exactly one such answer. *)
Theorem fail_step steps c :
  log (run (steps ++ [Fail c])) = log (run steps) ++ [Rejected c] /\
  next (run (steps ++ [Fail c])) = next (run steps) /\
  pullnos (log (run (steps ++ [Fail c]))) = pullnos (log (run steps)) /\
  forall img, inflight (run (steps ++ [Fail c])) img = inflight (run steps) img /\
              count_started img (log (run (steps ++ [Fail c]))) = count_started img (log (run steps)).
Proof.
  rewrite run_snoc. cbn [do_step inflight next log step_events]. rewrite pullnos_app. cbn [pullnos flat_map].
  rewrite app_nil_r. repeat split.
  rewrite count_started_app. cbn. lia.
Qed.

Theorem fail_accounting steps c : count_rejected c (log (run steps)) = count_fail c steps.
Proof.
  induction steps as [|x p IH] using rev_ind; [reflexivity|].
  rewrite run_snoc, log_step. unfold count_rejected, count_fail in *. rewrite !filter_app, !app_length, IH.
  f_equal. destruct x as [d i|i r|d|d]; cbn.
  - now destruct (inflight (run p) i).
  - destruct (inflight (run p) i) as [e|]; [|reflexivity].
    generalize 0 as k. induction (e_recv e) as [|a l IHl]; intros k; cbn; [reflexivity|apply IHl].
  - now destruct (d =? c).
  - reflexivity.
Qed.

(** * (c) private copies *)
Theorem private_copies steps : NoDup (copies (log (run steps))).
Proof. apply inv_nodup, inv_run. Qed.

(** * (d) a request that finds no entry - in particular the first one after a broadcast -
      starts a fresh pull and is its first receiver *)
Theorem fresh_when_no_entry steps c img :
  inflight (run steps) img = None ->
  let s := run steps in let s' := run (steps ++ [Req c img]) in
  log s' = log s ++ [PullStarted img (next s)] /\
  ~ In (next s) (pullnos (log s)) /\
  inflight s' img = Some {| e_pull := next s; e_recv := [c] |}.
Proof.
  intros E. cbv zeta. rewrite run_snoc. cbn. rewrite E. cbn.
  rewrite set_same. repeat split.
  intros H. apply (inv_pulls_lt _ (inv_run steps)) in H. lia.
Qed.

Theorem fresh_after_broadcast steps img res c :
  let s := run (steps ++ [Done img res]) in
  let s' := run (steps ++ [Done img res; Req c img]) in
  log s' = log s ++ [PullStarted img (next s)] /\
  ~ In (next s) (pullnos (log s)) /\
  inflight s' img = Some {| e_pull := next s; e_recv := [c] |}.
Proof.
  intros s s'. unfold s'.
  replace (steps ++ [Done img res; Req c img]) with ((steps ++ [Done img res]) ++ [Req c img])
    by (rewrite <- app_assoc; reflexivity).
  apply fresh_when_no_entry. apply (done_step steps img res).
Qed.
