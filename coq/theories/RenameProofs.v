(** Equivariance of the phase reconciler under a renaming of owner references: if every owner reference in
    the store is renamed by [f] and the acting owner's identity by [g] (consistently), the pass does the same
    thing, with renamed references in its requests and in the resulting store. Used by C15: running a phase
    with the phase object as owner is running it with the ObjectSet as owner in the world in which the two
    identities are exchanged. *)
From Coq Require Import List NArith ZArith Bool Lia.
From PKO Require Import Util Base BaseProofs Owner Api Phase.
Import ListNotations.
Local Open Scope N_scope.

Section Rename.
  Variable f : oref -> oref.
  Variable g : oid -> oid.
  Variable a : oid.                      (* the acting owner before renaming; [g a] after *)
  Hypothesis f_ctrl : forall r, r_ctrl (f r) = r_ctrl r.
  Hypothesis f_eqb : forall x y, oref_eqb (f x) (f y) = oref_eqb x y.
  Hypothesis f_uid : forall x y, (r_uid (f x) =? r_uid (f y)) = (r_uid x =? r_uid y).
  Hypothesis f_demote : forall r, f (demote r) = demote (f r).
  Hypothesis g_ns : oi_ns (g a) = oi_ns a.
  Hypothesis f_ctrl_ref : f (ctrl_ref a) = ctrl_ref (g a).
  Hypothesis f_same_obj : forall r, same_obj (f r) (g a) = same_obj r a.
  Hypothesis f_same_gkn : forall r, same_gkn (f r) (g a) = same_gkn r a.

  Definition fo (o : obj) : obj :=
    {| o_uid := o_uid o; o_rv := o_rv o; o_gen := o_gen o; o_owners := map f (o_owners o); o_aowners := map f (o_aowners o);
       o_rev := o_rev o; o_cache := o_cache o; o_pkg := o_pkg o; o_body := o_body o; o_avail := o_avail o;
       o_obsgen := o_obsgen o; o_deleting := o_deleting o; o_fin := o_fin o |}.
  Definition fs (s : store) : store := map (fun ko => (fst ko, fo (snd ko))) s.
  Definition fw (w : world) : world := {| w_store := fs (w_store w); w_rv := w_rv w; w_uid := w_uid w |}.
  Definition gow (ow : owner) : owner := {| ow_id := g (ow_id ow); ow_rev := ow_rev ow; ow_paused := ow_paused ow; ow_pkg := ow_pkg ow |}.

  Lemma refs_fo s o : refs s (fo o) = map f (refs s o).
  Proof. destruct s; reflexivity. Qed.

  Lemma existsb_map {A B} (h : A -> B) (p : B -> bool) l : existsb p (map h l) = existsb (fun x => p (h x)) l.
  Proof. induction l as [|x xs IH]; [reflexivity|]. cbn. now rewrite IH. Qed.

  Lemma existsb_ext' {A} (p q : A -> bool) l : (forall x, p x = q x) -> existsb p l = existsb q l.
  Proof. intros H. induction l as [|x xs IH]; [reflexivity|]. cbn. now rewrite H, IH. Qed.

  Lemma is_owner_l_f l : is_owner_l (g a) (map f l) = is_owner_l a l.
  Proof. unfold is_owner_l. rewrite existsb_map. apply existsb_ext'. intros r. apply f_same_obj. Qed.

  Lemma is_controller_l_f l : is_controller_l (g a) (map f l) = is_controller_l a l.
  Proof. unfold is_controller_l. rewrite existsb_map. apply existsb_ext'. intros r. now rewrite f_same_obj, f_ctrl. Qed.

  Lemma find_ctrl_f l : find r_ctrl (map f l) = option_map f (find r_ctrl l).
  Proof. induction l as [|x xs IH]; [reflexivity|]. cbn. rewrite f_ctrl. destruct (r_ctrl x); [reflexivity|exact IH]. Qed.

  Lemma release_l_f l : release_l (map f l) = map f (release_l l).
  Proof. unfold release_l. rewrite !map_map. apply map_ext. intros r. symmetry. apply f_demote. Qed.

  Lemma upsert_gkn_f l :
    upsert_ref (fun x => same_gkn x (g a)) (ctrl_ref (g a)) (map f l) = map f (upsert_ref (fun x => same_gkn x a) (ctrl_ref a) l).
  Proof.
    induction l as [|x xs IH]; cbn; [now rewrite f_ctrl_ref|]. rewrite f_same_gkn.
    destruct (same_gkn x a); cbn; [now rewrite f_ctrl_ref|now rewrite IH].
  Qed.

  Lemma upsert_obj_f l :
    upsert_ref (fun x => same_obj x (g a)) (ctrl_ref (g a)) (map f l) = map f (upsert_ref (fun x => same_obj x a) (ctrl_ref a) l).
  Proof.
    induction l as [|x xs IH]; cbn; [now rewrite f_ctrl_ref|]. rewrite f_same_obj.
    destruct (same_obj x a); cbn; [now rewrite f_ctrl_ref|now rewrite IH].
  Qed.

  Lemma set_controller_l_f s ns l :
    set_controller_l s (g a) ns (map f l) = option_map (map f) (set_controller_l s a ns l).
  Proof.
    unfold set_controller_l. destruct s.
    - unfold validate_owner. rewrite g_ns. destruct (negb _); [reflexivity|].
      unfold get_controller_l. rewrite find_ctrl_f. destruct (find r_ctrl l) as [c|]; cbn.
      + rewrite f_same_gkn. destruct (same_gkn c a); cbn; [now rewrite upsert_gkn_f|reflexivity].
      + now rewrite upsert_gkn_f.
    - rewrite existsb_map.
      rewrite (existsb_ext' (fun x => negb (same_obj (f x) (g a)) && r_ctrl (f x)) (fun r => negb (same_obj r a) && r_ctrl r))
        by (intros r; now rewrite f_same_obj, f_ctrl).
      destruct (existsb _ l); cbn; [reflexivity|now rewrite upsert_obj_f].
  Qed.

  Lemma map_last' {A B} (h : A -> B) l d : last (map h l) (h d) = h (last l d).
  Proof. induction l as [|x xs IH]; [reflexivity|]. cbn. destruct xs; [reflexivity|exact IH]. Qed.
  Lemma map_removelast' {A B} (h : A -> B) l : removelast (map h l) = map h (removelast l).
  Proof. induction l as [|x xs IH]; [reflexivity|]. cbn. destruct xs; [reflexivity|]. cbn in *. now rewrite IH. Qed.

  Lemma remove_owner_l_f l : remove_owner_l (g a) (map f l) = map f (remove_owner_l a l).
  Proof.
    unfold remove_owner_l. induction l as [|x xs IH]; [reflexivity|]. cbn. rewrite f_same_obj.
    destruct (same_obj x a).
    - destruct xs as [|y ys]; [reflexivity|]. cbn [map]. change (f y :: map f ys) with (map f (y :: ys)).
      rewrite map_last', map_removelast'. reflexivity.
    - cbn. now rewrite IH.
  Qed.

  Lemma merge_refs_f st pa : merge_refs (map f st) (map f pa) = map f (merge_refs st pa).
  Proof.
    unfold merge_refs. rewrite map_app. f_equal.
    - rewrite !map_map. apply map_ext. intros r.
      assert (Hfind : find (fun p => r_uid p =? r_uid (f r)) (map f pa) = option_map f (find (fun p => r_uid p =? r_uid r) pa)).
      { induction pa as [|p ps IH]; [reflexivity|]. cbn. rewrite f_uid. destruct (r_uid p =? r_uid r); [reflexivity|exact IH]. }
      rewrite Hfind. destruct (find _ pa); reflexivity.
    - induction pa as [|p ps IH]; [reflexivity|]. cbn. rewrite existsb_map.
      rewrite (existsb_ext' (fun x => r_uid (f x) =? r_uid (f p)) (fun r => r_uid r =? r_uid p)) by (intros r; apply f_uid).
      destruct (existsb _ st); cbn; [exact IH|now rewrite IH].
  Qed.

  Definition fap (ap : applied) : applied :=
    {| ap_body := ap_body ap; ap_owners := map f (ap_owners ap);
       ap_aowners := option_map (map f) (ap_aowners ap); ap_rev := ap_rev ap; ap_pkg := ap_pkg ap |}.

  Lemma apply_to_f ap o : apply_to (fap ap) (fo o) = fo (apply_to ap o).
  Proof.
    unfold apply_to, fo, fap. cbn [o_uid o_rv o_gen o_owners o_aowners o_rev o_cache o_pkg o_body o_avail o_obsgen o_deleting o_fin ap_body ap_owners ap_aowners ap_rev ap_pkg].
    rewrite merge_refs_f. f_equal. destruct (ap_aowners ap); reflexivity.
  Qed.

  Lemma fresh_obj_f ap uid rv : fresh_obj (fap ap) uid rv = fo (fresh_obj ap uid rv).
  Proof. unfold fresh_obj, fo, fap. cbn. f_equal. destruct (ap_aowners ap); reflexivity. Qed.

  Lemma refs_valid_f l : refs_valid (map f l) = refs_valid l.
  Proof.
    unfold refs_valid. f_equal. induction l as [|x xs IH]; [reflexivity|]. cbn. rewrite f_ctrl. destruct (r_ctrl x); cbn; now rewrite IH.
  Qed.

  Lemma list_eqb_map l1 l2 : list_eqb oref_eqb (map f l1) (map f l2) = list_eqb oref_eqb l1 l2.
  Proof. revert l2. induction l1 as [|x xs IH]; intros [|y ys]; cbn; try reflexivity. now rewrite f_eqb, IH. Qed.

  Lemma obj_eqb_f x y : obj_eqb (fo x) (fo y) = obj_eqb x y.
  Proof. unfold obj_eqb, fo. cbn. now rewrite !list_eqb_map. Qed.

  Lemma set_rv_f o rv : set_rv (fo o) rv = fo (set_rv o rv).
  Proof. reflexivity. Qed.

  Lemma lookup_fs k s : lookup k (fs s) = option_map fo (lookup k s).
  Proof. unfold fs. induction s as [|[k' o] s IH]; [reflexivity|]. cbn [map fst snd lookup]. destruct (okey_eqb k k'); [reflexivity|exact IH]. Qed.

  Lemma remove_key_fs k s : remove_key k (fs s) = fs (remove_key k s).
  Proof.
    unfold fs. induction s as [|[k' o] s IH]; [reflexivity|]. cbn [map fst snd remove_key].
    destruct (okey_eqb k k'); [exact IH|]. cbn [map fst snd]. now rewrite IH.
  Qed.

  Lemma upsert_fs k o s : upsert k (fo o) (fs s) = fs (upsert k o s).
  Proof. unfold upsert. rewrite remove_key_fs. reflexivity. Qed.

  Definition fres (x : option (world * obj * bool)) : option (world * obj * bool) :=
    match x with Some (w, o, c) => Some (fw w, fo o, c) | None => None end.

  Lemma owners_fo o : o_owners (fo o) = map f (o_owners o).
  Proof. reflexivity. Qed.

  Lemma fw_upsert w k o rv uid :
    {| w_store := upsert k (fo o) (fs (w_store w)); w_rv := rv; w_uid := uid |} =
    fw {| w_store := upsert k o (w_store w); w_rv := rv; w_uid := uid |}.
  Proof. unfold fw. cbn [w_store w_rv w_uid]. now rewrite upsert_fs. Qed.

  Lemma api_apply_f w k ap : api_apply (fw w) k (fap ap) = fres (api_apply w k ap).
  Proof.
    unfold api_apply. cbn [fw w_store w_rv w_uid]. rewrite lookup_fs. destruct (lookup k (w_store w)) as [cur|]; cbn [option_map].
    - rewrite apply_to_f. rewrite owners_fo, refs_valid_f. destruct (negb (refs_valid (o_owners (apply_to ap cur)))); [reflexivity|].
      rewrite obj_eqb_f. destruct (obj_eqb (apply_to ap cur) cur); [reflexivity|].
      rewrite set_rv_f. cbn [fres]. now rewrite fw_upsert.
    - rewrite fresh_obj_f. rewrite owners_fo, refs_valid_f. destruct (negb (refs_valid (o_owners (fresh_obj ap (w_uid w) (w_rv w))))); [reflexivity|].
      cbn [fres]. now rewrite fw_upsert.
  Qed.

  Lemma api_release_patch_f w k owners :
    api_release_patch (fw w) k (map f owners) =
    match api_release_patch w k owners with
    | None => None
    | Some (w', r) => Some (fw w', option_map fo r)
    end.
  Proof.
    unfold api_release_patch. cbn [fw w_store w_rv w_uid]. rewrite lookup_fs. destruct (lookup k (w_store w)) as [cur|]; cbn [option_map]; [|reflexivity].
    rewrite refs_valid_f. destruct (negb (refs_valid owners)); [reflexivity|].
    match goal with |- context [obj_eqb ?x (fo cur)] =>
      replace x with (fo {| o_uid := o_uid cur; o_rv := o_rv cur; o_gen := o_gen cur; o_owners := owners;
                            o_aowners := o_aowners cur; o_rev := o_rev cur; o_cache := false; o_pkg := o_pkg cur;
                            o_body := o_body cur; o_avail := o_avail cur; o_obsgen := o_obsgen cur;
                            o_deleting := o_deleting cur; o_fin := o_fin cur |}) by reflexivity end.
    rewrite obj_eqb_f. destruct (obj_eqb _ cur); [reflexivity|]. rewrite set_rv_f. cbn [option_map]. now rewrite fw_upsert.
  Qed.

  Lemma api_delete_f w k uid rv : api_delete (fw w) k uid rv = (fw (fst (api_delete w k uid rv)), snd (api_delete w k uid rv)).
  Proof.
    unfold api_delete. cbn [fw w_store w_rv w_uid]. rewrite lookup_fs. destruct (lookup k (w_store w)) as [cur|]; cbn [option_map]; [|reflexivity].
    cbn [fo o_uid o_rv o_fin o_deleting]. destruct (negb _); [reflexivity|]. destruct (o_fin cur).
    - destruct (o_deleting cur); [reflexivity|]. cbn [fst snd].
      match goal with |- ({| w_store := upsert k ?x _; w_rv := _; w_uid := _ |}, _) = _ =>
        replace x with (fo {| o_uid := o_uid cur; o_rv := w_rv w; o_gen := o_gen cur; o_owners := o_owners cur;
                     o_aowners := o_aowners cur; o_rev := o_rev cur; o_cache := o_cache cur; o_pkg := o_pkg cur;
                     o_body := o_body cur; o_avail := o_avail cur; o_obsgen := o_obsgen cur;
                     o_deleting := true; o_fin := true |}) by reflexivity end.
      now rewrite fw_upsert.
    - cbn [fst snd]. unfold with_store, fw. cbn [w_store w_rv w_uid]. now rewrite remove_key_fs.
  Qed.

  Lemma api_get_f w k : api_get (fw w) k = option_map fo (api_get w k).
  Proof. unfold api_get. cbn [fw w_store]. apply lookup_fs. Qed.

  Lemma cache_get_f w k : cache_get (fw w) k = option_map fo (cache_get w k).
  Proof.
    unfold cache_get. cbn [fw w_store]. rewrite lookup_fs. destruct (lookup k (w_store w)) as [o|]; cbn; [|reflexivity].
    destruct (o_cache o); reflexivity.
  Qed.

  (** The previous revisions (and their remote phases) are not renamed. *)
  Variable prev : list prevrev.
  Hypothesis prev_fixed : forall st o, controlled_by_previous st (fo o) prev = controlled_by_previous st o prev.

  Lemma is_controller_f st o : is_controller st (g a) (fo o) = is_controller st a o.
  Proof. unfold is_controller. rewrite refs_fo. apply is_controller_l_f. Qed.
  Lemma is_owner_f st o : is_owner st (g a) (fo o) = is_owner st a o.
  Proof. unfold is_owner. rewrite refs_fo. apply is_owner_l_f. Qed.
  Lemma has_controller_f st o : has_controller st (fo o) = has_controller st o.
  Proof. unfold has_controller, get_controller_l. rewrite refs_fo, find_ctrl_f. destruct (find r_ctrl (refs st o)); reflexivity. Qed.

  Lemma check_adoption_f st force ow o cp : ow_id ow = a ->
    check_adoption st force (gow ow) (fo o) prev cp = check_adoption st force ow o prev cp.
  Proof.
    intros Ha. unfold check_adoption. cbn [gow ow_id ow_rev]. rewrite Ha, is_controller_f.
    destruct (is_controller st a o); [reflexivity|].
    change (obj_revision (fo o)) with (obj_revision o). destruct (obj_revision o) as [cur|]; [|reflexivity].
    destruct (ow_rev ow <? cur)%Z; [reflexivity|]. change (o_pkg (fo o)) with (o_pkg o).
    rewrite has_controller_f, prev_fixed. reflexivity.
  Qed.

  (** Events *)
  Definition fpres (p : pres) : pres := match p with POk o => POk (fo o) | x => x end.
  Definition fe (e : ev) : ev :=
    match e with
    | EApply k rd pre post => EApply k (option_map fo rd) (option_map fo pre) (fpres post)
    | ERelease k rd pre post => ERelease k (fo rd) (option_map fo pre) (fpres post)
    | EDelete k rd puid prv pre r => EDelete k (fo rd) puid prv (option_map fo pre) r
    end.
  Definition frres (r : rres) : rres := match r with ROk o => ROk (fo o) | x => x end.

  Section Pass.
    Variable c : cfg.
    Let st := flavor_strat (c_flavor c).
    Let idw (w : world) := w.

    Lemma applied_for_f ow p native : ow_id ow = a ->
      applied_for c (gow ow) p (map f native) = fap (applied_for c ow p native).
    Proof.
      intros Ha. unfold applied_for, fap. cbn [gow ow_id ow_rev ow_pkg ap_body ap_owners ap_aowners ap_rev ap_pkg]. f_equal.
      destruct (flavor_strat (c_flavor c)); [reflexivity|]. cbn. now rewrite Ha, f_ctrl_ref.
    Qed.

    Lemma do_apply_f w k rd ap :
      do_apply idw (fw w) k (option_map fo rd) (fap ap) =
      let '(w', evs, r) := do_apply idw w k rd ap in (fw w', map fe evs, frres r).
    Proof.
      unfold do_apply, idw. rewrite api_get_f, api_apply_f. destruct (api_apply w k ap) as [[[w2 o] cr]|]; reflexivity.
    Qed.

    Lemma desired_key_g ow p : ow_id ow = a -> desired_key (gow ow) p = desired_key ow p.
    Proof. intros Ha. unfold desired_key. cbn [gow ow_id]. now rewrite Ha, g_ns. Qed.

    Lemma reconcile_object_f w ow p : ow_id ow = a ->
      reconcile_object c idw (fw w) (gow ow) prev p =
      let '(w', evs, r) := reconcile_object c idw w ow prev p in (fw w', map fe evs, frres r).
    Proof.
      intros Ha. unfold reconcile_object. rewrite (desired_key_g _ _ Ha). fold st. cbn [gow ow_id ow_paused].
      rewrite Ha. set (k := desired_key ow p).
      pose proof (set_controller_l_f st (k_ns k) []) as Hd. cbn [map] in Hd. rewrite Hd.
      destruct (set_controller_l st a (k_ns k) []) as [dref|]; cbn [option_map]; [|reflexivity].
      destruct (ow_paused ow).
      { rewrite cache_get_f. destruct (cache_get w k); reflexivity. }
      rewrite cache_get_f, api_get_f.
      assert (Hcur : match option_map fo (cache_get w k) with Some o => Some o | None => option_map fo (api_get w k) end =
                     option_map fo (match cache_get w k with Some o => Some o | None => api_get w k end)).
      { destruct (cache_get w k); reflexivity. }
      rewrite Hcur. destruct (match cache_get w k with Some o => Some o | None => api_get w k end) as [cu|]; cbn [option_map].
      - rewrite (check_adoption_f st (c_force c) ow cu (po_cp p) Ha).
        destruct (check_adoption st (c_force c) ow cu prev (po_cp p)); try reflexivity.
        + (* already controller *)
          change (o_owners (fo cu)) with (map f (o_owners cu)). rewrite (applied_for_f _ _ _ Ha).
          exact (do_apply_f w k (Some cu) _).
        + (* adopt *)
          rewrite refs_fo, release_l_f, set_controller_l_f.
          destruct (set_controller_l st a (k_ns k) (release_l (refs st cu))) as [l|]; cbn [option_map]; [|reflexivity].
          assert (Hn : match st with Native => map f l | Annot => o_owners (fo cu) end = map f (match st with Native => l | Annot => o_owners cu end))
            by (destruct st; reflexivity).
          rewrite Hn, (applied_for_f _ _ _ Ha). exact (do_apply_f w k (Some cu) _).
      - assert (Hn : match st with Native => map f dref | Annot => [] end = map f (match st with Native => dref | Annot => [] end))
          by (destruct st; reflexivity).
        rewrite Hn, (applied_for_f _ _ _ Ha). exact (do_apply_f w k None _).
    Qed.

    Lemma probe_ok_f k o : probe_ok k (fo o) = probe_ok k o.
    Proof. reflexivity. Qed.

    Definition fphres (r : phres) : phres :=
      match r with PhOk actual failed => PhOk (map (fun ko => (fst ko, fo (snd ko))) actual) failed | x => x end.

    Lemma reconcile_objects_f ow ps : ow_id ow = a -> forall w acc failed,
      reconcile_objects c idw (fw w) (gow ow) prev ps (map (fun ko => (fst ko, fo (snd ko))) acc) failed =
      let '(w', evs, r) := reconcile_objects c idw w ow prev ps acc failed in (fw w', map fe evs, fphres r).
    Proof.
      intros Ha. induction ps as [|p ps IH]; intros w acc failed; [reflexivity|].
      cbn [reconcile_objects]. rewrite (desired_key_g _ _ Ha), (reconcile_object_f w ow p Ha).
      destruct (reconcile_object c idw w ow prev p) as [[w1 e1] r1]. destruct r1 as [o| |e]; cbn [frres].
      - rewrite probe_ok_f.
        assert (Hacc : map (fun ko => (fst ko, fo (snd ko))) acc ++ [(desired_key ow p, fo o)] =
                       map (fun ko => (fst ko, fo (snd ko))) (acc ++ [(desired_key ow p, o)])) by (rewrite map_app; reflexivity).
        rewrite Hacc, IH. destruct (reconcile_objects c idw w1 ow prev ps _ _) as [[w2 e2] r2]. now rewrite map_app.
      - rewrite IH. destruct (reconcile_objects c idw w1 ow prev ps _ _) as [[w2 e2] r2]. now rewrite map_app.
      - reflexivity.
    Qed.

    Lemma preflight_obj_g fl ow cl p : ow_id ow = a -> preflight_obj fl (gow ow) cl p = preflight_obj fl ow cl p.
    Proof.
      intros Ha. unfold preflight_obj. rewrite (desired_key_g _ _ Ha).
      unfold check_ns_escalation. cbn [gow ow_id]. now rewrite Ha, g_ns.
    Qed.

    (** ReconcilePhase commutes with the renaming. *)
    Theorem reconcile_phase_f w ow cl ps : ow_id ow = a ->
      reconcile_phase c idw (fw w) (gow ow) prev cl ps =
      let '(w', evs, r) := reconcile_phase c idw w ow prev cl ps in (fw w', map fe evs, fphres r).
    Proof.
      intros Ha. unfold reconcile_phase.
      assert (Hpf : flat_map (preflight_obj (c_flavor c) (gow ow) cl) ps = flat_map (preflight_obj (c_flavor c) ow cl) ps).
      { induction ps as [|p ps' IH]; [reflexivity|]. cbn. now rewrite (preflight_obj_g _ _ _ _ Ha), IH. }
      rewrite Hpf. clear Hpf. destruct (flat_map (preflight_obj (c_flavor c) ow cl) ps); [|reflexivity].
      exact (reconcile_objects_f ow ps Ha w [] []).
    Qed.

    Lemma teardown_object_f w ow p : ow_id ow = a ->
      teardown_object c idw (fw w) (gow ow) p =
      let '(w', evs, d) := teardown_object c idw w ow p in (fw w', map fe evs, d).
    Proof.
      intros Ha. unfold teardown_object. rewrite (desired_key_g _ _ Ha), (preflight_obj_g _ _ _ _ Ha).
      destruct (preflight_obj (c_flavor c) ow false p); [|reflexivity].
      rewrite api_get_f. set (k := desired_key ow p). destruct (api_get w k) as [cu|]; cbn [option_map]; [|reflexivity].
      fold st. cbn [gow ow_id]. rewrite Ha, is_controller_f, is_owner_f.
      destruct (is_controller st a cu); cbn [negb].
      - unfold idw. rewrite api_get_f, api_delete_f. cbn [fo o_uid o_rv].
        destruct (api_delete w k (o_uid cu) (o_rv cu)) as [w2 r]. reflexivity.
      - destruct (is_owner st a cu); cbn [negb]; [|reflexivity].
        unfold idw. rewrite api_get_f.
        assert (Hown : match st with Native => remove_owner_l (g a) (o_owners (fo cu)) | Annot => o_owners (fo cu) end =
                       map f (match st with Native => remove_owner_l a (o_owners cu) | Annot => o_owners cu end)).
        { destruct st; [apply remove_owner_l_f|reflexivity]. }
        rewrite Hown, api_release_patch_f.
        destruct (api_release_patch w k _) as [[w2 [o|]]|]; reflexivity.
    Qed.

    Lemma teardown_err_f evs : teardown_err (map fe evs) = teardown_err evs.
    Proof.
      unfold teardown_err. rewrite existsb_map. apply existsb_ext'. intros e.
      destruct e as [k rd pre post|k rd pre post|k rd pu pv pre r]; cbn; [reflexivity|destruct post; reflexivity|reflexivity].
    Qed.

    (** TeardownPhase commutes with the renaming. *)
    Theorem teardown_phase_f ow ps : ow_id ow = a -> forall w,
      teardown_phase c idw (fw w) (gow ow) ps =
      let '(w', evs, r) := teardown_phase c idw w ow ps in (fw w', map fe evs, r).
    Proof.
      intros Ha. unfold teardown_phase. generalize true. induction ps as [|p ps IH]; intros b w; [reflexivity|].
      cbn [teardown_objects]. rewrite (teardown_object_f w ow p Ha).
      destruct (teardown_object c idw w ow p) as [[w1 e1] d]. rewrite teardown_err_f.
      destruct (teardown_err e1); [reflexivity|]. rewrite IH.
      destruct (teardown_objects c idw w1 ow ps (b && d)) as [[w2 e2] r2]. now rewrite map_app.
    Qed.
  End Pass.
End Rename.

(** * The concrete renaming: exchanging two owner identities *)

Section Transposition.
  Context {A : Type} (eqb : A -> A -> bool).
  Hypothesis eqb_spec : forall x y, eqb x y = true <-> x = y.

  Definition tr (x y z : A) : A := if eqb z x then y else if eqb z y then x else z.

  Lemma eqb_refl' (x : A) : eqb x x = true.
  Proof. now apply eqb_spec. Qed.
  Lemma eqb_false (x y : A) : x <> y -> eqb x y = false.
  Proof. intros H. destruct (eqb x y) eqn:E; [apply eqb_spec in E; contradiction|reflexivity]. Qed.
  Lemma eqb_dec (x y : A) : {x = y} + {x <> y}.
  Proof. destruct (eqb x y) eqn:E; [left; now apply eqb_spec|right; intros H; apply eqb_spec in H; congruence]. Qed.

  Lemma tr_invol (x y z : A) : tr x y (tr x y z) = z.
  Proof.
    unfold tr. destruct (eqb_dec z x) as [Hzx|Hzx].
    - subst z. rewrite eqb_refl'. destruct (eqb_dec y x) as [Hyx|Hyx].
      + subst y. now rewrite eqb_refl'.
      + rewrite (eqb_false y x Hyx). now rewrite eqb_refl'.
    - rewrite (eqb_false z x Hzx). destruct (eqb_dec z y) as [Hzy|Hzy].
      + subst z. rewrite eqb_refl'. now rewrite eqb_refl'.
      + rewrite (eqb_false z y Hzy). now rewrite (eqb_false z x Hzx), (eqb_false z y Hzy).
  Qed.

  Lemma tr_inj (x y u v : A) : eqb (tr x y u) (tr x y v) = eqb u v.
  Proof.
    destruct (eqb_dec u v) as [->|Hne]; [now rewrite !eqb_refl'|].
    rewrite (eqb_false u v Hne). apply eqb_false. intros H. apply Hne.
    rewrite <- (tr_invol x y u), <- (tr_invol x y v). now rewrite H.
  Qed.

  Lemma tr_hits (x y z : A) : eqb (tr x y z) y = eqb z x.
  Proof.
    (* tr x y x = y, and tr is injective *)
    assert (Hy : tr x y x = y) by (unfold tr; now rewrite eqb_refl').
    rewrite <- Hy at 2. apply tr_inj.
  Qed.

  Lemma tr_fixes (x y z p : A) : p <> x -> p <> y -> eqb (tr x y z) p = eqb z p.
  Proof.
    intros Hx Hy. assert (Hp : tr x y p = p) by (unfold tr; now rewrite (eqb_false p x), (eqb_false p y)).
    rewrite <- Hp at 1. apply tr_inj.
  Qed.
End Transposition.

Definition kn_eqb (x y : N * N) : bool := (fst x =? fst y) && (snd x =? snd y).
Lemma kn_eqb_spec x y : kn_eqb x y = true <-> x = y.
Proof.
  destruct x as [a1 a2], y as [b1 b2]. unfold kn_eqb. cbn. rewrite andb_true_iff, !N.eqb_eq. split; [intros [-> ->]; reflexivity|intros H; injection H; auto].
Qed.
Lemma N_eqb_spec x y : N.eqb x y = true <-> x = y.
Proof. apply N.eqb_eq. Qed.

Section Swap.
  Variables a b : oid.
  Hypothesis Hns : oi_ns b = oi_ns a.

  Definition kn_of (o : oid) : N * N := (oi_kind o, oi_name o).
  Definition swap_ref (r : oref) : oref :=
    let kn := tr kn_eqb (kn_of a) (kn_of b) (r_kind r, r_name r) in
    {| r_kind := fst kn; r_name := snd kn; r_uid := tr N.eqb (oi_uid a) (oi_uid b) (r_uid r); r_ctrl := r_ctrl r |}.
  Definition to_b (_ : oid) : oid := b.

  Lemma swap_ctrl r : r_ctrl (swap_ref r) = r_ctrl r.
  Proof. reflexivity. Qed.

  Lemma oref_eqb_alt x y :
    oref_eqb x y = kn_eqb (r_kind x, r_name x) (r_kind y, r_name y) && (r_uid x =? r_uid y) && Bool.eqb (r_ctrl x) (r_ctrl y).
  Proof. unfold oref_eqb, kn_eqb. cbn. reflexivity. Qed.

  Lemma surj_pair' (p : N * N) : (fst p, snd p) = p.
  Proof. now destruct p. Qed.

  Lemma swap_eqb x y : oref_eqb (swap_ref x) (swap_ref y) = oref_eqb x y.
  Proof.
    rewrite !oref_eqb_alt. unfold swap_ref. cbn [r_kind r_name r_uid r_ctrl]. rewrite !surj_pair'.
    now rewrite (tr_inj kn_eqb kn_eqb_spec), (tr_inj N.eqb N_eqb_spec).
  Qed.

  Lemma swap_uid x y : (r_uid (swap_ref x) =? r_uid (swap_ref y)) = (r_uid x =? r_uid y).
  Proof. unfold swap_ref. cbn [r_uid]. apply (tr_inj N.eqb N_eqb_spec). Qed.

  Lemma swap_demote r : swap_ref (demote r) = demote (swap_ref r).
  Proof. reflexivity. Qed.

  Lemma same_obj_alt r o : same_obj r o = kn_eqb (r_kind r, r_name r) (kn_of o) && (r_uid r =? oi_uid o).
  Proof. reflexivity. Qed.
  Lemma same_gkn_alt r o : same_gkn r o = kn_eqb (r_kind r, r_name r) (kn_of o).
  Proof. reflexivity. Qed.

  Lemma swap_same_obj r : same_obj (swap_ref r) (to_b a) = same_obj r a.
  Proof.
    rewrite !same_obj_alt. unfold swap_ref, to_b. cbn [r_kind r_name r_uid]. rewrite surj_pair'.
    now rewrite (tr_hits kn_eqb kn_eqb_spec), (tr_hits N.eqb N_eqb_spec).
  Qed.
  Lemma swap_same_gkn r : same_gkn (swap_ref r) (to_b a) = same_gkn r a.
  Proof.
    rewrite !same_gkn_alt. unfold swap_ref, to_b. cbn [r_kind r_name]. rewrite surj_pair'. apply (tr_hits kn_eqb kn_eqb_spec).
  Qed.

  Lemma swap_ctrl_ref : swap_ref (ctrl_ref a) = ctrl_ref (to_b a).
  Proof.
    unfold swap_ref, ctrl_ref, to_b, tr, kn_of. cbn [r_kind r_name r_uid r_ctrl].
    rewrite (proj2 (kn_eqb_spec _ _) eq_refl), N.eqb_refl. reflexivity.
  Qed.

  (** An owner identity that differs from both exchanged identities in (kind, name) and in uid is not affected. *)
  Definition fresh (p : oid) : Prop :=
    kn_of p <> kn_of a /\ kn_of p <> kn_of b /\ oi_uid p <> oi_uid a /\ oi_uid p <> oi_uid b.

  Lemma swap_same_obj_fresh r p : fresh p -> same_obj (swap_ref r) p = same_obj r p.
  Proof.
    intros (H1 & H2 & H3 & H4). rewrite !same_obj_alt. unfold swap_ref. cbn [r_kind r_name r_uid]. rewrite surj_pair'.
    now rewrite (tr_fixes kn_eqb kn_eqb_spec), (tr_fixes N.eqb N_eqb_spec).
  Qed.

  Definition prev_fresh (prev : list prevrev) : Prop :=
    forall pv, In pv prev -> fresh (pv_id pv) /\ forall rp, In rp (pv_remotes pv) -> fresh (remote_phase_oid pv rp).

  Lemma swap_prev_fixed prev : prev_fresh prev ->
    forall st o, controlled_by_previous st (fo swap_ref o) prev = controlled_by_previous st o prev.
  Proof.
    intros Hf st o. unfold controlled_by_previous.
    assert (Hic : forall p, fresh p -> is_controller st p (fo swap_ref o) = is_controller st p o).
    { intros p Hp. unfold is_controller, is_controller_l. rewrite refs_fo, existsb_map. apply existsb_ext'.
      intros r. now rewrite swap_same_obj_fresh, swap_ctrl. }
    induction prev as [|pv prev' IH]; [reflexivity|]. cbn [existsb].
    destruct (Hf pv (or_introl eq_refl)) as [Hid Hrem]. rewrite (Hic _ Hid). f_equal; [f_equal|].
    - clear -Hrem Hic. induction (pv_remotes pv) as [|rp rps IHr]; [reflexivity|]. cbn [existsb].
      rewrite (Hic _ (Hrem rp (or_introl eq_refl))). f_equal. apply IHr. intros rp' Hin. apply Hrem. now right.
    - apply IH. intros pv' Hin. apply Hf. now right.
  Qed.

  (** ** delegated_equiv, step 4: exchanging the identities of the ObjectSet and its phase object in every owner
      reference of the store turns a run of the phase with the ObjectSet as owner into the run with the phase
      object as owner: same requests in the same order, same outcomes, same resulting store — with the two
      identities exchanged. Previous revisions (and their remote phases) are other objects. *)
  Theorem reconcile_phase_swap c w (ow : owner) prev cl ps :
    ow_id ow = a -> prev_fresh prev ->
    reconcile_phase c (fun w => w) (fw swap_ref w) (gow to_b ow) prev cl ps =
    let '(w', evs, r) := reconcile_phase c (fun w => w) w ow prev cl ps in
    (fw swap_ref w', map (fe swap_ref) evs, fphres swap_ref r).
  Proof.
    intros Ha Hp.
    exact (reconcile_phase_f swap_ref to_b a swap_ctrl swap_eqb swap_uid swap_demote Hns swap_ctrl_ref swap_same_obj swap_same_gkn
             prev (swap_prev_fixed prev Hp) c w ow cl ps Ha).
  Qed.

  Theorem teardown_phase_swap c w (ow : owner) ps :
    ow_id ow = a ->
    teardown_phase c (fun w => w) (fw swap_ref w) (gow to_b ow) ps =
    let '(w', evs, r) := teardown_phase c (fun w => w) w ow ps in (fw swap_ref w', map (fe swap_ref) evs, r).
  Proof.
    intros Ha. exact (teardown_phase_f swap_ref to_b a swap_ctrl swap_eqb Hns swap_same_obj c ow ps Ha w).
  Qed.
End Swap.
