(** Small shared utilities: boolean list equality with its reflection lemma. *)
From Coq Require Import List Bool NArith Lia.
Import ListNotations.

Section ListEqb.
  Context {A : Type} (eqb : A -> A -> bool).
  Hypothesis eqb_spec : forall x y, eqb x y = true <-> x = y.

  Fixpoint list_eqb (xs ys : list A) : bool :=
    match xs, ys with
    | [], [] => true
    | x :: xs', y :: ys' => eqb x y && list_eqb xs' ys'
    | _, _ => false
    end.

  Lemma list_eqb_spec xs ys : list_eqb xs ys = true <-> xs = ys.
  Proof.
    revert ys; induction xs as [|x xs IH]; intros [|y ys]; cbn; try (split; [discriminate|congruence]).
    - tauto.
    - rewrite andb_true_iff, eqb_spec, IH. split; [intros [-> ->]; reflexivity|intros H; injection H; auto].
  Qed.
End ListEqb.

Definition option_eqb {A} (eqb : A -> A -> bool) (x y : option A) : bool :=
  match x, y with
  | None, None => true
  | Some a, Some b => eqb a b
  | _, _ => false
  end.

Lemma option_eqb_spec {A} (eqb : A -> A -> bool) (H : forall x y, eqb x y = true <-> x = y) x y :
  option_eqb eqb x y = true <-> x = y.
Proof. destruct x, y; cbn; rewrite ?H; split; congruence. Qed.

Lemma list_eqb_N_spec xs ys : list_eqb N.eqb xs ys = true <-> xs = ys.
Proof. apply list_eqb_spec. intros; apply N.eqb_eq. Qed.

Lemma list_list_eqb_N_spec xs ys : list_eqb (list_eqb N.eqb) xs ys = true <-> xs = ys.
Proof. apply list_eqb_spec. apply list_eqb_N_spec. Qed.

Definition is_nil {A} (l : list A) : bool := match l with [] => true | _ => false end.
Lemma is_nil_false {A} (l : list A) : is_nil l = false <-> l <> [].
Proof. destruct l; cbn; split; congruence. Qed.

(** Boolean NoDup for a type with a reflected boolean equality. *)
Section NoDupb.
  Context {A : Type} (eqb : A -> A -> bool).
  Hypothesis eqb_spec : forall x y, eqb x y = true <-> x = y.
  Fixpoint nodupb (l : list A) : bool :=
    match l with [] => true | x :: l' => negb (existsb (eqb x) l') && nodupb l' end.
  Lemma nodupb_spec l : nodupb l = true -> NoDup l.
  Proof.
    induction l as [|x xs IH]; cbn; [constructor|]. rewrite andb_true_iff, negb_true_iff. intros [H1 H2].
    constructor; [|now apply IH]. intros Hin.
    assert (existsb (eqb x) xs = true) by (apply existsb_exists; exists x; split; [assumption|now apply eqb_spec]).
    congruence.
  Qed.
End NoDupb.

Lemma NoDup_app_l {A} (l l' : list A) : NoDup (l ++ l') -> NoDup l.
Proof. induction l as [|x xs IH]; cbn; intros H; [constructor|]. inversion H; subst. constructor; [|now apply IH]. intros Hin. apply H2. apply in_or_app. now left. Qed.

Lemma NoDup_app_r {A} (l l' : list A) : NoDup (l ++ l') -> NoDup l'.
Proof. induction l as [|x xs IH]; cbn; intros H; [assumption|]. inversion H; subst. now apply IH. Qed.

Lemma NoDup_app_disj {A} (l l' : list A) x : NoDup (l ++ l') -> In x l -> ~ In x l'.
Proof.
  induction l as [|y ys IH]; cbn; intros H Hin; [contradiction|]. inversion H; subst.
  destruct Hin as [->|Hin]; [intros Hin'; apply H2; apply in_or_app; now right|now apply IH].
Qed.
