(** Model of internal/dynamiccache/cache.go (the reference-counted dynamic cache) together with
    the part of internal/dynamiccache/informer_map.go and cache_source.go it talks to.
    Executable definitions only; proofs are in CacheProofs.v.

    Two models live in this file:
      - [watch] / [step] / [run]                    : the code up to the repair of F-C12 (faithful, including
        the defect; "as it is" in comments refers to that revision);
      - [Cache_fixed.watch] / [.step] / [.run]      : fixes/C12-watch-rollback.diff, applied to the
        repository as commit 95ce509 - the model of the current cache.go:
        the owner reference is recorded only after the informer runs with all event handlers, and a
        half-started informer is stopped again.
    Everything except Watch is shared. *)
From Coq Require Import List NArith Bool.
Import ListNotations.
Local Open Scope N_scope.

Definition owner := N.      (* OwnerReference (cache.go:26-31): group/kind, UID, name, namespace - one number per
                               distinct reference; two incarnations of a same-named object (different UID) are
                               different owners *)
Definition gvk := N.        (* schema.GroupVersionKind *)
Definition handler := N.    (* index into cacheSource.handlers (cache_source.go:47) *)

(** Go maps with comparable keys as association lists. A key bound to an empty value is
    representable ([informerReferences[gvk]] existing with [len == 0]). *)
Section AMap.
  Context {V : Type}.
  Fixpoint lookup (k : N) (m : list (N * V)) : option V :=
    match m with
    | [] => None
    | (k', v) :: m' => if k =? k' then Some v else lookup k m'
    end.
  Fixpoint upd (k : N) (v : V) (m : list (N * V)) : list (N * V) :=
    match m with
    | [] => [(k, v)]
    | (k', v') :: m' => if k =? k' then (k, v) :: m' else (k', v') :: upd k v m'
    end.
  Fixpoint del (k : N) (m : list (N * V)) : list (N * V) :=
    match m with
    | [] => []
    | (k', v') :: m' => if k =? k' then del k m' else (k', v') :: del k m'
    end.
  Definition keys (m : list (N * V)) : list N := map fst m.
End AMap.

Definition is_some {A} (x : option A) : bool := match x with Some _ => true | None => false end.
Definition nilb {A} (l : list A) : bool := match l with [] => true | _ => false end.

(** map[OwnerReference]struct{} as a duplicate-free list. *)
Definition mem (x : N) (l : list N) : bool := existsb (N.eqb x) l.
Definition add (x : N) (l : list N) : list N := if mem x l then l else l ++ [x].
Definition rem (x : N) (l : list N) : list N := filter (fun y => negb (y =? x)) l.

(** What the environment does to the calls of one operation (chosen adversarially per call). *)
Inductive outcome :=
| ok
| informer_get_fails                 (* informerMap.Get fails before anything was started
                                        (addInformerToMap error, informer_map.go:105-108) *)
| informer_sync_fails                (* informerMap.Get has started the informer and then fails
                                        (WaitForCacheSync, informer_map.go:111-116) *)
| handler_registration_fails (k : N) (* the k-th (0-based) AddEventHandler on the new informer fails
                                        (cache_source.go:85-89); no failure if there are fewer handlers *)
| informer_delete_fails.             (* informerMap.Delete fails and the informer keeps running *)

Inductive op :=
| Watch (o : owner) (g : gvk) (out : outcome)
| Free (o : owner) (out : outcome) (order : list gvk)
    (* [order]: the order in which Go's [range c.informerReferences] (cache.go:203) happens to visit
       the kinds: [order] first, then the remaining keys; any list is allowed (adversarial). *)
| Get (g : gvk)
| List (g : gvk)
| OwnersForGKV (g : gvk).

(** What reaches the informer map and the informers during one operation. *)
Inductive event :=
| EGet (g : gvk) (succ : bool)                 (* informerMap.Get(gvk) called; returned err == nil? *)
| EStart (g : gvk)                             (* the informer map started a new informer for gvk *)
| EAdd (g : gvk) (h : handler) (succ : bool)   (* AddEventHandler for registered handler h on gvk's informer *)
| EDelete (g : gvk) (succ : bool)              (* informerMap.Delete(gvk) called; returned err == nil? *)
| EStop (g : gvk).                             (* the informer map stopped gvk's informer *)

Inductive err :=
| ErrNone
| ErrNotStarted      (* CacheNotStartedError, cache.go:224 *)
| ErrInformerGet     (* "getting informer from InformerMap", cache.go:176 *)
| ErrHandler         (* "registering EventHandlers", cache.go:181 *)
| ErrDelete.         (* "releasing informer", cache.go:213 *)

Record output := {
  o_err : err;
  o_events : list event;
  o_res : option (option (list owner))   (* result of OwnersForGKV: Some None = nil slice *)
}.

Record state := {
  refs : list (gvk * list owner);     (* Cache.informerReferences, cache.go:62 *)
  infs : list (gvk * list handler);   (* InformerMap.informers (informer_map.go:78) with the handlers
                                         attached to each running informer *)
  hs : list handler                   (* cacheSource.handlers, fixed once the manager has started
                                         (Cache.Start -> blockNewRegistrations, cache.go:111-114) *)
}.

Definition init (handlers : list handler) : state := {| refs := []; infs := []; hs := handlers |}.

Definition owners (s : state) (g : gvk) : list owner :=
  match lookup g (refs s) with Some l => l | None => [] end.
Definition attached (s : state) (g : gvk) : list handler :=
  match lookup g (infs s) with Some l => l | None => [] end.
Definition entryb (s : state) (g : gvk) : bool := is_some (lookup g (refs s)).
Definition runningb (s : state) (g : gvk) : bool := is_some (lookup g (infs s)).

(** InformerMap.Get (informer_map.go:87-118): return the informer of gvk, starting one on demand. *)
Inductive get_mode := GetOk | GetFailEarly | GetFailSync.

Definition get_mode_of (out : outcome) : get_mode :=
  match out with
  | informer_get_fails => GetFailEarly
  | informer_sync_fails => GetFailSync
  | _ => GetOk
  end.

Definition im_get (g : gvk) (mode : get_mode) (im : list (gvk * list handler))
  : list (gvk * list handler) * list event * bool :=
  match mode with
  | GetFailEarly => (im, [EGet g false], false)
  | _ =>
      let present := is_some (lookup g im) in
      let im' := if present then im else upd g [] im in            (* informer_map.go:103-109, 178-179 *)
      let started := if present then [] else [EStart g] in
      match mode with
      | GetFailSync => (im', EGet g false :: started, false)       (* informer_map.go:113-115 *)
      | _ => (im', EGet g true :: started, true)
      end
  end.

(** InformerMap.Delete (informer_map.go:121-136). *)
Definition im_delete (g : gvk) (fails : bool) (im : list (gvk * list handler))
  : list (gvk * list handler) * list event * bool :=
  if fails then (im, [EDelete g false], false)
  else (del g im, EDelete g true :: (if is_some (lookup g im) then [EStop g] else []), true).

(** cacheSource.handleNewInformer (cache_source.go:77-92): add every registered handler, in order,
    stop at the first error. [i] counts the AddEventHandler calls, [failk] is the call that fails. *)
Fixpoint add_handlers (g : gvk) (todo : list handler) (i : N) (failk : option N) (att : list handler)
  : list handler * list event * bool :=
  match todo with
  | [] => (att, [], true)
  | h :: todo' =>
      if match failk with Some k => i =? k | None => false end
      then (att, [EAdd g h false], false)
      else let '(att', evs, r) := add_handlers g todo' (i + 1) failk (att ++ [h]) in
           (att', EAdd g h true :: evs, r)
  end.

Definition failk_of (out : outcome) : option N :=
  match out with handler_registration_fails k => Some k | _ => None end.

Definition handle_new_informer (g : gvk) (out : outcome) (handlers : list handler)
           (im : list (gvk * list handler)) : list (gvk * list handler) * list event * bool :=
  match lookup g im with
  | None => (im, [], true)   (* not reachable: the informer was just returned by Get *)
  | Some att =>
      let '(att', evs, r) := add_handlers g handlers 0 (failk_of out) att in
      (upd g att' im, evs, r)
  end.

Definition mk_out (e : err) (evs : list event) : output := {| o_err := e; o_events := evs; o_res := None |}.

(** Cache.Watch as it is (cache.go:137-186). *)
Definition watch (s : state) (o : owner) (g : gvk) (out : outcome) : state * output :=
  let informerExists := is_some (lookup g (refs s)) in                        (* cache.go:161 *)
  let refs1 := if informerExists then refs s else upd g [] (refs s) in        (* cache.go:162-164 *)
  let refs2 := upd g (add o (match lookup g refs1 with Some l => l | None => [] end)) refs1 in
                                                                              (* cache.go:165: BEFORE the informer exists *)
  if informerExists then
    ({| refs := refs2; infs := infs s; hs := hs s |}, mk_out ErrNone [])      (* cache.go:167, 185 *)
  else
    let '(im1, ev1, got) := im_get g (get_mode_of out) (infs s) in            (* cache.go:174 *)
    if negb got then
      ({| refs := refs2; infs := im1; hs := hs s |}, mk_out ErrInformerGet ev1)   (* cache.go:175-177: reference stays *)
    else
      let '(im2, ev2, added) := handle_new_informer g out (hs s) im1 in       (* cache.go:180 *)
      if negb added then
        ({| refs := refs2; infs := im2; hs := hs s |}, mk_out ErrHandler (ev1 ++ ev2))  (* cache.go:181: reference stays *)
      else
        ({| refs := refs2; infs := im2; hs := hs s |}, mk_out ErrNone (ev1 ++ ev2)).

(** Cache.Watch of the repair candidate: create the informer and attach the handlers first, stop a
    half-started informer again, record the owner reference only after success. *)
Definition watch_fixed (s : state) (o : owner) (g : gvk) (out : outcome) : state * output :=
  match lookup g (refs s) with
  | Some l =>
      ({| refs := upd g (add o l) (refs s); infs := infs s; hs := hs s |}, mk_out ErrNone [])
  | None =>
      let '(im1, ev1, got) := im_get g (get_mode_of out) (infs s) in
      if negb got then
        let '(im1', evd, _) := im_delete g false im1 in
        ({| refs := refs s; infs := im1'; hs := hs s |}, mk_out ErrInformerGet (ev1 ++ evd))
      else
        let '(im2, ev2, added) := handle_new_informer g out (hs s) im1 in
        if negb added then
          let '(im2', evd, _) := im_delete g false im2 in
          ({| refs := refs s; infs := im2'; hs := hs s |}, mk_out ErrHandler (ev1 ++ ev2 ++ evd))
        else
          ({| refs := upd g [o] (refs s); infs := im2; hs := hs s |}, mk_out ErrNone (ev1 ++ ev2))
  end.

(** Body of the loop of Cache.Free for one kind (cache.go:204-218).
    Result: new state, events, and [false] if Free returns with an error here. *)
Definition free_one (o : owner) (out : outcome) (g : gvk) (s : state) : state * list event * bool :=
  match lookup g (refs s) with
  | None => (s, [], true)
  | Some l =>
      if mem o l then                                                          (* cache.go:204 *)
        let l' := rem o l in                                                   (* cache.go:205 *)
        let refs1 := upd g l' (refs s) in
        if nilb l' then                                                        (* cache.go:207 *)
          let fails := match out with informer_delete_fails => true | _ => false end in
          let '(im1, evs, deleted) := im_delete g fails (infs s) in            (* cache.go:212 *)
          if negb deleted then
            ({| refs := refs1; infs := im1; hs := hs s |}, evs, false)         (* cache.go:213: empty entry stays *)
          else
            ({| refs := del g refs1; infs := im1; hs := hs s |}, evs, true)    (* cache.go:216 *)
        else ({| refs := refs1; infs := infs s; hs := hs s |}, [], true)
      else (s, [], true)
  end.

Fixpoint free_loop (o : owner) (out : outcome) (gs : list gvk) (s : state) : state * list event * bool :=
  match gs with
  | [] => (s, [], true)
  | g :: gs' =>
      let '(s1, ev1, cont) := free_one o out g s in
      if negb cont then (s1, ev1, false)
      else let '(s2, ev2, r) := free_loop o out gs' s1 in (s2, ev1 ++ ev2, r)
  end.

(** Cache.Free (cache.go:189-221). A second visit of a kind is a no-op, so iterating over
    [order ++ keys] visits every key exactly once effectively, in an arbitrary order. *)
Definition free (s : state) (o : owner) (out : outcome) (order : list gvk) : state * output :=
  let '(s', evs, r) := free_loop o out (order ++ keys (refs s)) s in
  (s', mk_out (if r then ErrNone else ErrDelete) evs).

(** Cache.Get / Cache.List (cache.go:231-316): refuse kinds without a reference entry, otherwise
    informerMap.Get (which creates informers on demand) and read. *)
Definition read (s : state) (g : gvk) : state * output :=
  match lookup g (refs s) with
  | None => (s, mk_out ErrNotStarted [])                                       (* cache.go:250-252, 298-300 *)
  | Some _ =>
      let '(im1, evs, _) := im_get g GetOk (infs s) in                         (* cache.go:254, 302 *)
      ({| refs := refs s; infs := im1; hs := hs s |}, mk_out ErrNone evs)
  end.

(** Cache.OwnersForGKV (cache.go:117-133). *)
Definition owners_for (s : state) (g : gvk) : state * output :=
  (s, {| o_err := ErrNone; o_events := []; o_res := Some (lookup g (refs s)) |}).

Definition step_with (W : state -> owner -> gvk -> outcome -> state * output) (s : state) (x : op)
  : state * output :=
  match x with
  | Watch o g out => W s o g out
  | Free o out order => free s o out order
  | Get g => read s g
  | List g => read s g
  | OwnersForGKV g => owners_for s g
  end.

Definition run_with (stp : state -> op -> state * output) (s : state) (ops : list op) : state :=
  fold_left (fun s x => fst (stp s x)) ops s.

(** The outputs of every operation of a sequence, each with the state reached after it. *)
Fixpoint exec_with (stp : state -> op -> state * output) (s : state) (ops : list op)
  : list (output * state) :=
  match ops with
  | [] => []
  | x :: r => let '(s', out) := stp s x in (out, s') :: exec_with stp s' r
  end.

(** The code as it is. *)
Definition step := step_with watch.
Definition run := run_with step.
Definition exec := exec_with step.

(** The repair candidate. *)
Module Cache_fixed.
  Definition watch := watch_fixed.
  Definition step := step_with watch_fixed.
  Definition run := run_with step.
  Definition exec := exec_with step.
End Cache_fixed.

(** What the events mean for somebody who watches the informer of one kind [g] from outside:
    [None] = no informer runs, [Some att] = an informer runs with handlers [att] attached. *)
Definition ev_gvk (e : event) : gvk :=
  match e with EGet g _ | EStart g | EAdd g _ _ | EDelete g _ | EStop g => g end.

Definition apply_event (g : gvk) (i : option (list handler)) (e : event) : option (list handler) :=
  match e with
  | EStart g' => if g' =? g then Some [] else i
  | EStop g' => if g' =? g then None else i
  | EAdd g' h true => if g' =? g then option_map (fun a => a ++ [h]) i else i
  | _ => i
  end.

Definition replay (g : gvk) (evs : list event) (i : option (list handler)) : option (list handler) :=
  fold_left (apply_event g) evs i.

(** The population of informer goroutines.  The real InformerMap starts one with
    [go e.Informer.Run(e.StopCh)] when it adds an entry (informer_map.go:178-179, event [EStart]) and
    stops it with [close(entry.StopCh)] only in Delete, together with removing the entry
    (informer_map.go:133-134, event [EStop]).  In particular a Get that times out waiting for the initial
    sync (outcome [informer_sync_fails], informer_map.go:111-116) neither removes the entry nor stops the
    informer: it stays in the map, still running, and it is the caller (Cache.Watch -> releaseInformer ->
    Delete) who gets rid of it.  [live g evs]: how many informers of kind [g] were started and not
    stopped by a history of events. *)
Definition pool_event (g : gvk) (n : nat) (e : event) : nat :=
  match e with
  | EStart g' => if g' =? g then S n else n
  | EStop g' => if g' =? g then Nat.pred n else n
  | _ => n
  end.

Definition live_from (g : gvk) (evs : list event) (n : nat) : nat := fold_left (pool_event g) evs n.
Definition live (g : gvk) (evs : list event) : nat := live_from g evs 0.

(** All events of a run, in order. *)
Definition history (tr : list (output * state)) : list event := flat_map (fun p => o_events (fst p)) tr.

(** Reads of objects through the cache.  An object is identified by (namespace, name), numbers; namespace
    0 is "none".  [scope g]: the kind is namespaced - the scope the API declares, which the informer map
    asks the RESTMapper for when it creates the reader of a kind (informer_map.go:164-175), NOT something
    derived from the object the informer was requested for.  [store g]: the objects the informer of the
    kind holds.  CacheReader.Get blanks the namespace of the key for cluster-scoped kinds
    (cache_reader.go:61-64); CacheReader.List selects by the namespace index if a namespace is given
    (cache_reader.go:126-130).  Both are reached only if the kind has a reference entry
    (cache.go: CacheNotStartedError otherwise). *)
Definition key := (N * N)%type.
Definition key_eqb (a b : key) : bool := (fst a =? fst b) && (snd a =? snd b).

Definition store_key (scope : gvk -> bool) (g : gvk) (ns n : N) : key := (if scope g then ns else 0, n).

(** [None]: CacheNotStartedError; [Some None]: not found; [Some (Some k)]: the object stored under k. *)
Definition cache_get (scope : gvk -> bool) (store : gvk -> list key) (s : state) (g : gvk) (ns n : N)
  : option (option key) :=
  match lookup g (refs s) with
  | None => None
  | Some _ => let k := store_key scope g ns n in
              Some (if existsb (key_eqb k) (store g) then Some k else None)
  end.

Definition cache_list (store : gvk -> list key) (s : state) (g : gvk) (ns : N) : option (list key) :=
  match lookup g (refs s) with
  | None => None
  | Some _ => Some (if ns =? 0 then store g else filter (fun k => fst k =? ns) (store g))
  end.

(** The owner-deletion helper of the controllers, internal/controllers/controllers.go:
    FreeCacheAndRemoveFinalizer (lines 89-98) = Cache.Free, and only if that succeeded RemoveFinalizer
    (lines 53-75), which sends a merge patch unless the object in hand carries no cached finalizer.
    The API server's answer to the patch is adversarial. *)
Inductive patch_outcome :=
| patch_ok
| patch_not_found         (* the owner object is already gone *)
| patch_conflict
| patch_internal_error
| patch_lost_response.    (* applied by the server, but the client sees an error *)

Inductive helper_ret := RetNil | RetFreeErr | RetPatchErr.

Definition patch_applied (p : patch_outcome) : bool :=
  match p with patch_ok | patch_lost_response => true | _ => false end.
Definition patch_ret (p : patch_outcome) : helper_ret :=
  match p with patch_ok => RetNil | _ => RetPatchErr end.

(** RemoveFinalizer: (a patch was sent, what the helper returns) *)
Definition remove_finalizer (has_fin : bool) (p : patch_outcome) : bool * helper_ret :=
  if has_fin then (true, patch_ret p) else (false, RetNil).

(** EnsureFinalizer (controllers.go:22-47) *)
Definition ensure_finalizer (has_fin : bool) (p : patch_outcome) : bool * helper_ret :=
  if has_fin then (false, RetNil) else (true, patch_ret p).

Definition free_and_remove_finalizer (stp : state -> op -> state * output) (s : state) (o : owner)
           (out : outcome) (order : list gvk) (has_fin : bool) (p : patch_outcome)
  : state * output * bool * helper_ret :=
  let q := stp s (Free o out order) in                                  (* controllers.go:93 *)
  match o_err (snd q) with
  | ErrNone => let r := remove_finalizer has_fin p in (fst q, snd q, fst r, snd r)   (* controllers.go:97 *)
  | _ => (fst q, snd q, false, RetFreeErr)                              (* controllers.go:94 *)
  end.

(** The owner object will go away / is gone: the helper reported success, or its patch reached a
    server that applied it or no longer knows the object. *)
Definition owner_released (sent : bool) (r : helper_ret) (p : patch_outcome) : bool :=
  match r with
  | RetNil => true
  | _ => sent && (patch_applied p || match p with patch_not_found => true | _ => false end)
  end.

(** Predicates on operation sequences. *)
Definition start_failure (out : outcome) : bool :=
  match out with
  | informer_get_fails | informer_sync_fails | handler_registration_fails _ => true
  | _ => false
  end.
Definition op_no_start_failure (x : op) : bool :=
  match x with Watch _ _ out => negb (start_failure out) | _ => true end.
Definition op_no_delete_failure (x : op) : bool :=
  match x with Free _ informer_delete_fails _ => false | _ => true end.
Definition no_start_failures (ops : list op) : bool := forallb op_no_start_failure ops.
Definition no_delete_failures (ops : list op) : bool := forallb op_no_delete_failure ops.
