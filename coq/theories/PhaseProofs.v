(** Per-object and per-phase lemmas about the PhaseReconciler model: what is written, when, and
    what stays untouched. [idw] is pass-level atomicity (no third party between read and write). *)
From Coq Require Import List NArith ZArith Bool Lia.
From PKO Require Import Util Base BaseProofs Owner Api ApiProofs Phase AdoptionProofs.
Import ListNotations.
Local Open Scope N_scope.

Definition idw (w : world) : world := w.

Section Lemmas.
  Variable c : cfg.
  Let s := flavor_strat (c_flavor c).

  (** ** do_apply *)
  Lemma do_apply_events between w k read ap w' evs r :
    do_apply between w k read ap = (w', evs, r) ->
    exists post, evs = [EApply k read (api_get (between w) k) post] /\
      match post with
      | POk o => r = ROk o /\ api_apply (between w) k ap = Some (w', o, match lookup k (w_store (between w)) with None => true | _ => false end)
      | PInvalid => r = RErr ErrInvalid /\ w' = between w /\ api_apply (between w) k ap = None
      | PNotFound => False
      end.
  Proof.
    unfold do_apply. destruct (api_apply (between w) k ap) as [[[w2 o] cr]|] eqn:E.
    - intros H. injection H as <- <- <-. exists (POk o). split; [reflexivity|]. split; [reflexivity|].
      destruct (api_apply_spec _ _ _ _ _ _ E) as (_ & _ & H). destruct (lookup k (w_store (between w))).
      + destruct H as [-> _]. reflexivity.
      + destruct H as [-> _]. reflexivity.
    - intros H. injection H as <- <- <-. exists PInvalid. auto.
  Qed.

  Lemma do_apply_frame w k read ap w' evs r k' :
    do_apply idw w k read ap = (w', evs, r) -> k' <> k -> lookup k' (w_store w') = lookup k' (w_store w).
  Proof.
    intros H Hne. destruct (do_apply_events _ _ _ _ _ _ _ _ H) as (post & _ & Hp). destruct post as [o| |].
    - destruct Hp as [_ Ha]. unfold idw in Ha. eapply api_apply_frame; eauto.
    - contradiction.
    - destruct Hp as (_ & -> & _). reflexivity.
  Qed.

  (** ** reconcile_object: shape of the trace, for any interference *)
  Definition key_of (ow : owner) (p : pobj) : okey := desired_key ow p.

  (** Every write of reconcile_object is an apply on the object's key, issued by an unpaused owner, and
      justified by what the pass read: the object was absent, or already controlled by the owner, or
      adoption was permitted (C01, C09). *)
  Definition justified (ow : owner) (prev : list prevrev) (p : pobj) (w : world) (e : ev) : Prop :=
    exists pre post, e = EApply (key_of ow p) (lookup (key_of ow p) (w_store w)) pre post /\
      ow_paused ow = false /\
      match lookup (key_of ow p) (w_store w) with
      | None => True
      | Some o => is_controller s (ow_id ow) o = true \/ permitted s (c_force c) ow o prev (po_cp p) = true
      end.

  Lemma rec_obj_justified between w ow prev p w' evs r :
    reconcile_object c between w ow prev p = (w', evs, r) -> Forall (justified ow prev p w) evs.
  Proof.
    unfold reconcile_object. fold s. fold (key_of ow p).
    destruct (set_controller_l s (ow_id ow) (k_ns (key_of ow p)) []) as [dref|]; [|intros H; injection H as <- <- <-; constructor].
    destruct (ow_paused ow) eqn:Ep.
    { destruct (cache_get w (key_of ow p)); intros H; injection H as <- <- <-; constructor. }
    rewrite cur_lookup. destruct (lookup (key_of ow p) (w_store w)) as [cu|] eqn:El.
    - destruct (check_adoption s (c_force c) ow cu prev (po_cp p)) eqn:Ec.
      + intros H. destruct (do_apply_events _ _ _ _ _ _ _ _ H) as (post & -> & _).
        constructor; [|constructor]. exists (api_get (between w) (key_of ow p)), post. rewrite El. split; [reflexivity|]. split; [exact Ep|].
        left. now apply check_already_iff in Ec.
      + intros H; injection H as <- <- <-; constructor.
      + destruct (set_controller_l s (ow_id ow) (k_ns (key_of ow p)) (release_l (refs s cu))) as [l|];
          [|intros H; injection H as <- <- <-; constructor].
        intros H. destruct (do_apply_events _ _ _ _ _ _ _ _ H) as (post & -> & _).
        constructor; [|constructor]. exists (api_get (between w) (key_of ow p)), post. rewrite El. split; [reflexivity|]. split; [exact Ep|].
        destruct (is_controller s (ow_id ow) cu) eqn:Eic; [left; reflexivity|right]. now apply check_adopt_iff.
      + intros H; injection H as <- <- <-; constructor.
      + intros H; injection H as <- <- <-; constructor.
      + intros H; injection H as <- <- <-; constructor.
    - intros H. destruct (do_apply_events _ _ _ _ _ _ _ _ H) as (post & -> & _).
      constructor; [|constructor]. exists (api_get (between w) (key_of ow p)), post. rewrite El. auto using Ep.
  Qed.

  (** An object that exists, is not controlled by the owner and may not be adopted is not written at all,
      whatever happens concurrently: the pass ends with the store it started from. *)
  Lemma rec_obj_untouched between w ow prev p o :
    lookup (key_of ow p) (w_store w) = Some o ->
    is_controller s (ow_id ow) o = false ->
    permitted s (c_force c) ow o prev (po_cp p) = false ->
    exists r, reconcile_object c between w ow prev p = (w, [], r) /\
      match r with
      | RErr ErrNotPrevious | RErr ErrRevCollision => newer ow o = false /\ rev_unparsable o = false /\ ow_paused ow = false
      | RErr ErrRevParse => rev_unparsable o = true
      | RErr ErrOwnerRef => True
      | ROk o' => ow_paused ow = true \/ (o' = o /\ newer ow o = true)
      | RMissing => ow_paused ow = true
      | RErr ErrInvalid => False
      end.
  Proof.
    intros El Hc Hp. unfold reconcile_object. fold s. fold (key_of ow p).
    destruct (set_controller_l s (ow_id ow) (k_ns (key_of ow p)) []) as [dref|]; [|eexists; split; [reflexivity|exact I]].
    destruct (ow_paused ow) eqn:Ep.
    { destruct (cache_get w (key_of ow p)); eexists; (split; [reflexivity|]); cbn; auto. }
    rewrite cur_lookup, El.
    pose proof (check_adopt_iff s (c_force c) ow o prev (po_cp p) Hc) as HA.
    pose proof (check_already_iff s (c_force c) ow o prev (po_cp p)) as HC.
    pose proof (check_refuse_iff s (c_force c) ow o prev (po_cp p) Hc) as HR.
    pose proof (check_leave_iff s (c_force c) ow o prev (po_cp p) Hc) as HL.
    destruct (check_adoption s (c_force c) ow o prev (po_cp p)) eqn:Ec.
    - destruct HC as [HC _]. specialize (HC eq_refl). congruence.
    - eexists; split; [reflexivity|]. right. split; [reflexivity|]. now apply HL.
    - destruct HA as [HA _]. specialize (HA eq_refl). congruence.
    - eexists; split; [reflexivity|]. destruct HR as [HR _]. destruct (HR eq_refl) as (_ & ? & ?). auto.
    - eexists; split; [reflexivity|]. destruct HR as [HR _]. destruct (HR eq_refl) as (_ & ? & ?). auto.
    - eexists; split; [reflexivity|]. unfold check_adoption in Ec. rewrite Hc in Ec. unfold rev_unparsable.
      destruct (obj_revision o); [|reflexivity]. exfalso.
      destruct (ow_rev ow <? z)%Z; [discriminate|].
      destruct (if c_force c || (o_pkg o =? 1) then CPNone else po_cp p); try discriminate;
      repeat match type of Ec with context [if ?b then _ else _] => destruct b end; discriminate.
  Qed.

  (** Nothing but the object's own key is ever touched (pass-level atomicity). *)
  Lemma rec_obj_frame w ow prev p w' evs r k' :
    reconcile_object c idw w ow prev p = (w', evs, r) -> k' <> key_of ow p ->
    lookup k' (w_store w') = lookup k' (w_store w).
  Proof.
    unfold reconcile_object. fold s. fold (key_of ow p). intros H Hne.
    destruct (set_controller_l s (ow_id ow) (k_ns (key_of ow p)) []) as [dref|]; [|injection H as <- <- <-; reflexivity].
    destruct (ow_paused ow).
    { destruct (cache_get w (key_of ow p)); injection H as <- <- <-; reflexivity. }
    destruct (match cache_get w (key_of ow p) with Some o => Some o | None => api_get w (key_of ow p) end) as [cu|].
    - destruct (check_adoption s (c_force c) ow cu prev (po_cp p)).
      + eapply do_apply_frame; eauto.
      + injection H as <- <- <-; reflexivity.
      + destruct (set_controller_l s (ow_id ow) (k_ns (key_of ow p)) (release_l (refs s cu))) as [l|];
          [eapply do_apply_frame; eauto|injection H as <- <- <-; reflexivity].
      + injection H as <- <- <-; reflexivity.
      + injection H as <- <- <-; reflexivity.
      + injection H as <- <- <-; reflexivity.
    - eapply do_apply_frame; eauto.
  Qed.

  Lemma rec_obj_events_key between w ow prev p w' evs r :
    reconcile_object c between w ow prev p = (w', evs, r) -> Forall (fun e => ev_key e = key_of ow p) evs.
  Proof.
    intros H. pose proof (rec_obj_justified _ _ _ _ _ _ _ _ H) as HJ.
    eapply Forall_impl; [|exact HJ]. intros e (pre & post & -> & _). reflexivity.
  Qed.

  (** A paused owner writes nothing (C09). *)
  Lemma rec_obj_paused between w ow prev p w' evs r :
    ow_paused ow = true -> reconcile_object c between w ow prev p = (w', evs, r) -> w' = w /\ evs = [].
  Proof.
    intros Hp H. pose proof (rec_obj_justified _ _ _ _ _ _ _ _ H) as HJ.
    assert (evs = []) as ->.
    { destruct evs as [|e evs]; [reflexivity|]. apply Forall_inv in HJ. destruct HJ as (pre & post & _ & Hf & _). congruence. }
    split; [|reflexivity].
    unfold reconcile_object in H. destruct (set_controller_l _ _ _ []); [|now inversion H].
    rewrite Hp in H. destruct (cache_get w _); now inversion H.
  Qed.
End Lemmas.

(** * Lifting to the object loop of ReconcilePhase *)
Section PhaseLevel.
  Variable c : cfg.
  Let s := flavor_strat (c_flavor c).

  (** What justifies a write event of a pass over the phase objects [ps]. *)
  Definition ev_justified (ow : owner) (prev : list prevrev) (ps : list pobj) (e : ev) : Prop :=
    exists p read pre post, In p ps /\ e = EApply (key_of ow p) read pre post /\ ow_paused ow = false /\
      match read with
      | None => True
      | Some o => is_controller s (ow_id ow) o = true \/ permitted s (c_force c) ow o prev (po_cp p) = true
      end.

  Lemma rec_objs_justified between ow prev ps : forall w acc failed w' evs r,
    reconcile_objects c between w ow prev ps acc failed = (w', evs, r) ->
    Forall (ev_justified ow prev ps) evs.
  Proof.
    induction ps as [|p ps IH]; intros w acc failed w' evs r H; cbn in H.
    - injection H as <- <- <-. constructor.
    - destruct (reconcile_object c between w ow prev p) as [[w1 e1] r1] eqn:E1.
      pose proof (rec_obj_justified c _ _ _ _ _ _ _ _ E1) as HJ.
      assert (HJ' : Forall (ev_justified ow prev (p :: ps)) e1).
      { eapply Forall_impl; [|exact HJ]. intros e (pre & post & -> & Hp & Hm). exists p, (lookup (key_of ow p) (w_store w)), pre, post.
        split; [now left|]. split; [reflexivity|]. split; [exact Hp|]. exact Hm. }
      assert (Hweak : forall l, Forall (ev_justified ow prev ps) l -> Forall (ev_justified ow prev (p :: ps)) l).
      { intros l Hl. eapply Forall_impl; [|exact Hl]. intros e (p0 & rd & pre & post & Hin & rest). exists p0, rd, pre, post. split; [now right|exact rest]. }
      destruct r1 as [o| |e].
      + destruct (reconcile_objects c between w1 ow prev ps _ _) as [[w2 e2] r2] eqn:E2. injection H as <- <- <-.
        apply Forall_app. split; [exact HJ'|]. apply Hweak. eapply IH; eauto.
      + destruct (reconcile_objects c between w1 ow prev ps _ _) as [[w2 e2] r2] eqn:E2. injection H as <- <- <-.
        apply Forall_app. split; [exact HJ'|]. apply Hweak. eapply IH; eauto.
      + injection H as <- <- <-. exact HJ'.
  Qed.

  (** An existing object that the owner neither controls nor may adopt (under any entry naming it)
      is byte-identical after the pass and no request names it. *)
  Definition not_permitted_any (ow : owner) (prev : list prevrev) (ps : list pobj) (k : okey) (o : obj) : Prop :=
    forall p, In p ps -> key_of ow p = k -> permitted s (c_force c) ow o prev (po_cp p) = false.

  Lemma rec_objs_untouched ow prev k o ps : forall w acc failed w' evs r,
    reconcile_objects c idw w ow prev ps acc failed = (w', evs, r) ->
    lookup k (w_store w) = Some o -> is_controller s (ow_id ow) o = false ->
    not_permitted_any ow prev ps k o ->
    lookup k (w_store w') = Some o /\ Forall (fun e => ev_key e <> k) evs.
  Proof.
    induction ps as [|p ps IH]; intros w acc failed w' evs r H El Hc Hnp; cbn in H.
    - injection H as <- <- <-. split; [assumption|constructor].
    - assert (Hnp' : not_permitted_any ow prev ps k o) by (intros p0 Hin; apply Hnp; now right).
      destruct (okey_dec (key_of ow p) k) as [Hk|Hk].
      + (* the entry names k: nothing happens *)
        assert (El' : lookup (key_of ow p) (w_store w) = Some o) by now rewrite Hk.
        destruct (rec_obj_untouched c idw w ow prev p o El' Hc (Hnp p (or_introl eq_refl) Hk)) as (r1 & E1 & _).
        fold (key_of ow p) in H. rewrite E1 in H.
        destruct r1 as [o1| |e].
        * destruct (reconcile_objects c idw w ow prev ps _ _) as [[w2 e2] r2] eqn:E2. injection H as <- <- <-.
          cbn. eapply IH; eauto.
        * destruct (reconcile_objects c idw w ow prev ps _ _) as [[w2 e2] r2] eqn:E2. injection H as <- <- <-.
          cbn. eapply IH; eauto.
        * injection H as <- <- <-. split; [assumption|constructor].
      + destruct (reconcile_object c idw w ow prev p) as [[w1 e1] r1] eqn:E1.
        assert (El1 : lookup k (w_store w1) = Some o).
        { rewrite (rec_obj_frame c _ _ _ _ _ _ _ k E1); [assumption|congruence]. }
        assert (He1 : Forall (fun e => ev_key e <> k) e1).
        { eapply Forall_impl; [|exact (rec_obj_events_key c _ _ _ _ _ _ _ _ E1)]. cbn. intros e ->. exact Hk. }
        destruct r1 as [o1| |e].
        * destruct (reconcile_objects c idw w1 ow prev ps _ _) as [[w2 e2] r2] eqn:E2. injection H as <- <- <-.
          destruct (IH _ _ _ _ _ _ E2 El1 Hc Hnp') as [? ?]. split; [assumption|]. apply Forall_app. auto.
        * destruct (reconcile_objects c idw w1 ow prev ps _ _) as [[w2 e2] r2] eqn:E2. injection H as <- <- <-.
          destruct (IH _ _ _ _ _ _ E2 El1 Hc Hnp') as [? ?]. split; [assumption|]. apply Forall_app. auto.
        * injection H as <- <- <-. auto.
  Qed.

  (** Keys not named by the phase are untouched. *)
  Lemma rec_objs_frame ow prev k ps : forall w acc failed w' evs r,
    reconcile_objects c idw w ow prev ps acc failed = (w', evs, r) ->
    (forall p, In p ps -> key_of ow p <> k) ->
    lookup k (w_store w') = lookup k (w_store w) /\ Forall (fun e => ev_key e <> k) evs.
  Proof.
    induction ps as [|p ps IH]; intros w acc failed w' evs r H Hk; cbn in H.
    - injection H as <- <- <-. split; [reflexivity|constructor].
    - destruct (reconcile_object c idw w ow prev p) as [[w1 e1] r1] eqn:E1.
      assert (Hp : key_of ow p <> k) by (apply Hk; now left).
      assert (El1 : lookup k (w_store w1) = lookup k (w_store w)).
      { apply (rec_obj_frame c _ _ _ _ _ _ _ k E1). congruence. }
      assert (He1 : Forall (fun e => ev_key e <> k) e1).
      { eapply Forall_impl; [|exact (rec_obj_events_key c _ _ _ _ _ _ _ _ E1)]. cbn. intros e ->. exact Hp. }
      assert (Hk' : forall p0, In p0 ps -> key_of ow p0 <> k) by (intros p0 Hin; apply Hk; now right).
      destruct r1 as [o1| |e].
      + destruct (reconcile_objects c idw w1 ow prev ps _ _) as [[w2 e2] r2] eqn:E2. injection H as <- <- <-.
        destruct (IH _ _ _ _ _ _ E2 Hk') as [? ?]. split; [congruence|]. apply Forall_app. auto.
      + destruct (reconcile_objects c idw w1 ow prev ps _ _) as [[w2 e2] r2] eqn:E2. injection H as <- <- <-.
        destruct (IH _ _ _ _ _ _ E2 Hk') as [? ?]. split; [congruence|]. apply Forall_app. auto.
      + injection H as <- <- <-. auto.
  Qed.

  (** The pass completes (PhOk) only if no listed object had to be refused; a refusal is returned as
      one of the two collision errors. *)
  Definition must_refuse (ow : owner) (prev : list prevrev) (p : pobj) (o : obj) : Prop :=
    is_controller s (ow_id ow) o = false /\ permitted s (c_force c) ow o prev (po_cp p) = false /\
    newer ow o = false /\ rev_unparsable o = false.

  Lemma rec_objs_ok_no_refusal ow prev ps : forall w acc failed w' evs a f,
    reconcile_objects c idw w ow prev ps acc failed = (w', evs, PhOk a f) ->
    ow_paused ow = false ->
    NoDup (map (key_of ow) ps) ->
    forall p o, In p ps -> lookup (key_of ow p) (w_store w) = Some o -> ~ must_refuse ow prev p o.
  Proof.
    induction ps as [|p ps IH]; intros w acc failed w' evs a f H Hpa Hnd p0 o Hin El (Hc & Hp & Hn & Hu); [contradiction|].
    cbn in H. inversion Hnd as [|? ? Hnotin Hnd']; subst.
    destruct Hin as [<-|Hin].
    - destruct (rec_obj_untouched c idw w ow prev p o El Hc Hp) as (r1 & E1 & Hr1).
      fold (key_of ow p) in H. rewrite E1 in H. destruct r1 as [o1| |e].
      + destruct Hr1 as [Hr1|[_ Hr1]]; congruence.
      + congruence.
      + discriminate.
    - destruct (reconcile_object c idw w ow prev p) as [[w1 e1] r1] eqn:E1.
      assert (Hne : key_of ow p0 <> key_of ow p).
      { intros Heq. apply Hnotin. rewrite <- Heq. now apply in_map. }
      assert (El1 : lookup (key_of ow p0) (w_store w1) = Some o).
      { rewrite (rec_obj_frame c _ _ _ _ _ _ _ (key_of ow p0) E1); assumption. }
      destruct r1 as [o1| |e]; [| |discriminate];
        destruct (reconcile_objects c idw w1 ow prev ps _ _) as [[w2 e2] r2] eqn:E2; injection H as <- <- ->;
        eapply (IH _ _ _ _ _ _ _ E2 Hpa Hnd' p0 o Hin El1); repeat split; assumption.
  Qed.

  Lemma rec_objs_collision_sound ow prev ps : forall w acc failed w' evs e,
    reconcile_objects c idw w ow prev ps acc failed = (w', evs, PhErr e) ->
    (e = ErrNotPrevious \/ e = ErrRevCollision) ->
    NoDup (map (key_of ow) ps) ->
    exists p o, In p ps /\ lookup (key_of ow p) (w_store w) = Some o /\ must_refuse ow prev p o.
  Proof.
    induction ps as [|p ps IH]; intros w acc failed w' evs e H He Hnd; cbn in H; [discriminate|].
    inversion Hnd as [|? ? Hnotin Hnd']; subst.
    destruct (reconcile_object c idw w ow prev p) as [[w1 e1] r1] eqn:E1.
    destruct r1 as [o1| |e0].
    - destruct (reconcile_objects c idw w1 ow prev ps _ _) as [[w2 e2] r2] eqn:E2. injection H as <- <- ->.
      destruct (IH _ _ _ _ _ _ E2 He Hnd') as (p0 & o & Hin & El & Hm). exists p0, o. split; [now right|]. split; [|assumption].
      rewrite <- El. symmetry. apply (rec_obj_frame c _ _ _ _ _ _ _ _ E1). intros Heq. apply Hnotin. rewrite <- Heq. now apply in_map.
    - destruct (reconcile_objects c idw w1 ow prev ps _ _) as [[w2 e2] r2] eqn:E2. injection H as <- <- ->.
      destruct (IH _ _ _ _ _ _ E2 He Hnd') as (p0 & o & Hin & El & Hm). exists p0, o. split; [now right|]. split; [|assumption].
      rewrite <- El. symmetry. apply (rec_obj_frame c _ _ _ _ _ _ _ _ E1). intros Heq. apply Hnotin. rewrite <- Heq. now apply in_map.
    - injection H as <- <- <-.
      (* the refusal came from p itself *)
      unfold reconcile_object in E1. fold s in E1. fold (key_of ow p) in E1.
      destruct (set_controller_l s (ow_id ow) (k_ns (key_of ow p)) []) as [dref|]; [|inversion E1; subst; destruct He; discriminate].
      destruct (ow_paused ow); [destruct (cache_get w (key_of ow p)); discriminate|].
      rewrite cur_lookup in E1. destruct (lookup (key_of ow p) (w_store w)) as [cu|] eqn:El.
      + exists p, cu. split; [now left|]. split; [exact El|].
        destruct (is_controller s (ow_id ow) cu) eqn:Hc.
        { pose proof (proj2 (check_already_iff s (c_force c) ow cu prev (po_cp p)) Hc) as HC. rewrite HC in E1.
          unfold do_apply in E1. destruct (api_apply _ _ _) as [[[? ?] ?]|]; inversion E1; subst; destruct He; discriminate. }
        pose proof (check_refuse_iff s (c_force c) ow cu prev (po_cp p) Hc) as HR.
        destruct (check_adoption s (c_force c) ow cu prev (po_cp p)) eqn:Ec.
        * unfold do_apply in E1. destruct (api_apply _ _ _) as [[[? ?] ?]|]; inversion E1; subst; destruct He; discriminate.
        * discriminate.
        * destruct (set_controller_l s (ow_id ow) (k_ns (key_of ow p)) (release_l (refs s cu))); [|inversion E1; subst; destruct He; discriminate].
          unfold do_apply in E1. destruct (api_apply _ _ _) as [[[? ?] ?]|]; inversion E1; subst; destruct He; discriminate.
        * destruct HR as [HR _]. destruct (HR eq_refl) as (? & ? & ?). repeat split; assumption.
        * destruct HR as [HR _]. destruct (HR eq_refl) as (? & ? & ?). repeat split; assumption.
        * inversion E1; subst; destruct He; discriminate.
      + unfold do_apply in E1. destruct (api_apply _ _ _) as [[[? ?] ?]|]; inversion E1; subst; destruct He; discriminate.
  Qed.
End PhaseLevel.
