(** Model-level lemmas behind the acceptance theorems of the controller-level monitors
    (coq/corr/SetMonSound2.v): a sharper inversion of one active ObjectSet pass than
    ObjectSetProofs.objectset_pass_active (explicit status requests, result of the pass, the previous-revision
    lookup the phase loop runs with), and loop-level facts the monitors read off the observation. *)
From Coq Require Import List NArith ZArith Bool Lia.
From PKO Require Import Util Base BaseProofs Owner Api ApiProofs Phase PhaseProofs TeardownProofs PreflightProofs AdoptionProofs ObjectSet ObjectSetProofs.
Import ListNotations.
Local Open Scope N_scope.

(** * 1. A sharper inversion of the active pass *)
Section PassInversion2.
  Variable force : bool.

  (** Requests of an active pass before the phase loop (or of a pass that never reaches it): the finalizer patch
      and status requests that re-send Available / Succeeded / InTransition unchanged or report
      Available=False/PreflightError for the generation read (the duplicate check). *)
  Definition keeps2 (mem0 : oset) (e : sev) : Prop :=
    match e with
    | SMeta (MStatus _ conds _ _ fph _) =>
        fph = None /\
        (find_cond conds CAvailable = find_cond (os_conds mem0) CAvailable \/
         find_cond conds CAvailable = Some (mk_cond mem0 CAvailable SFalse RPreflightError)) /\
        find_cond conds CSucceeded = find_cond (os_conds mem0) CSucceeded /\
        find_cond conds CInTransition = find_cond (os_conds mem0) CInTransition
    | SMeta (MFinalizer added _) => added = true
    | _ => False
    end.

  Lemma keeps2_keeps mem0 e : keeps2 mem0 e -> status_keeps mem0 e.
  Proof.
    destruct e as [x|[a o|rv cs co rm fph ok]|p]; cbn; try tauto.
    intros (Hf & Ha & Hs & _). split; [exact Hf|]. split; [|exact Hs].
    destruct Ha as [Ha|Ha]; [now left|right]. eexists. split; [exact Ha|reflexivity].
  Qed.

  Lemma keeps2_same a b e :
    os_conds a = os_conds b -> os_gen a = os_gen b -> keeps2 a e -> keeps2 b e.
  Proof.
    intros Hc Hg. destruct e as [x|[ad o|rv cs co rm fph ok]|p]; cbn; auto.
    unfold mk_cond. now rewrite Hc, Hg.
  Qed.

  Definition fail_mem (m : oset) (rs : creason) : oset :=
    set_conds m (set_cond (os_conds m) (mk_cond m CAvailable SFalse rs)).

  Definition is_collision (e : errclass) : bool :=
    match e with ErrNotPrevious | ErrRevCollision => true | _ => false end.

  (** What follows the phase loop, with the status requests spelled out. *)
  Definition after_loop2 (mem1 : oset) (sw2 : sworld) (pre pevs : list sev) (rem : list (N * N)) (pr : mres)
             (evs : list sev) (r : sres) : Prop :=
    let mem2 := set_remotes mem1 rem in
    match pr with
    | MOk ctrlof failed =>
        exists ok, evs = pre ++ pevs ++ paused_reads (sw_phases sw2) mem2 ++
                         [status_ev_f (final_status (sw_phases sw2) mem2 ctrlof failed) failed ok] /\
                   r = (if ok then SDone false else SError)
    | MPreflight =>
        exists ok, evs = pre ++ pevs ++ [status_ev (fail_mem mem2 RPreflightError) ok] /\
                   r = (if ok then SDone true else SError)
    | MErr e =>
        if is_collision e
        then exists ok, evs = pre ++ pevs ++ [status_ev (fail_mem mem2 RCollisionDetected) ok] /\
                        r = (if ok then SDone true else SError)
        else evs = pre ++ pevs /\ r = SError
    | MRemoteErr => evs = pre ++ pevs /\ r = SError
    end.

  (** [sets0]: the ObjectSets before the pass; the loop runs with the previous revisions they give. *)
  Definition reached2 (sets0 : list oset) (sw0 : sworld) (mem0 : oset) (sw' : sworld) (evs : list sev) (r : sres) : Prop :=
    exists mem1 sw1 sw2 pevs rem pr pre,
      same_spec mem1 mem0 /\
      w_store (sw_w sw1) = w_store (sw_w sw0) /\ sw_phases sw1 = sw_phases sw0 /\ sw_nss sw1 = sw_nss sw0 /\
      lookup_prev (sw_sets sw1) mem1 = lookup_prev sets0 mem0 /\
      (os_revision mem0 <> 0%Z -> os_revision mem1 = os_revision mem0) /\
      dup_count [] (map (spec_key mem1) (all_objects mem1)) = O /\
      reconcile_phases_m force sw1 mem1 (as_owner mem1) (lookup_prev (sw_sets sw1) mem1) (os_phases mem1) [] (os_remotes mem1)
        = (sw2, pevs, rem, pr) /\
      w_store (sw_w sw') = w_store (sw_w sw2) /\ sw_phases sw' = sw_phases sw2 /\ sw_nss sw' = sw_nss sw2 /\
      Forall (keeps2 mem0) pre /\
      after_loop2 mem1 sw2 pre pevs rem pr evs r.

  (** A pass that stops before the loop: possibly the reads for the Paused condition (only when the pass waits
      for a previous revision), between requests as above. *)
  Definition stopped2 (sw : sworld) (mem0 : oset) (sw' : sworld) (evs : list sev) : Prop :=
    w_store (sw_w sw') = w_store (sw_w sw) /\ sw_phases sw' = sw_phases sw /\ sw_nss sw' = sw_nss sw /\
    exists pre reads post, evs = pre ++ reads ++ post /\ Forall (keeps2 mem0) pre /\ Forall (keeps2 mem0) post /\
      (reads = [] \/
       (os_revision mem0 = 0%Z /\
        reads = paused_reads_l (sw_phases sw) (phase_kind mem0) (oi_ns (os_id mem0)) (os_remotes mem0))).

  (** the stored copies of one key changed only in metadata / status fields that the lookup of previous
      revisions does not read *)
  Definition sets_prev_eq (sets sets0 : list oset) : Prop :=
    forall kind ns n, match find_set sets kind ns n, find_set sets0 kind ns n with
                      | Some a, Some b => os_id a = os_id b /\ os_remotes a = os_remotes b
                      | None, None => True
                      | _, _ => False end.

  Lemma sets_prev_eq_refl sets : sets_prev_eq sets sets.
  Proof. intros k ns n. destruct (find_set sets k ns n); auto. Qed.

  Lemma sets_prev_eq_trans a b c : sets_prev_eq a b -> sets_prev_eq b c -> sets_prev_eq a c.
  Proof.
    intros H1 H2 k ns n. specialize (H1 k ns n). specialize (H2 k ns n).
    destruct (find_set a k ns n), (find_set b k ns n), (find_set c k ns n); try tauto.
    destruct H1, H2. split; congruence.
  Qed.

  Lemma find_put_set_other sets s kind ns n :
    (oi_kind (os_id s) =? kind) && (oi_ns (os_id s) =? ns) && (oi_name (os_id s) =? n) = false ->
    find_set (put_set sets s) kind ns n = find_set sets kind ns n.
  Proof.
    intros Hne. unfold find_set. induction sets as [|x xs IH]; cbn.
    - now rewrite Hne.
    - unfold oid_eqb. destruct ((oi_kind (os_id x) =? oi_kind (os_id s)) && (oi_ns (os_id x) =? oi_ns (os_id s)) && (oi_name (os_id x) =? oi_name (os_id s))) eqn:E.
      + cbn. rewrite Hne.
        apply andb_true_iff in E. destruct E as [E E3]. apply andb_true_iff in E. destruct E as [E1 E2].
        apply N.eqb_eq in E1, E2, E3. rewrite E1, E2, E3, Hne. reflexivity.
      + cbn. destruct ((oi_kind (os_id x) =? kind) && (oi_ns (os_id x) =? ns) && (oi_name (os_id x) =? n)); [reflexivity|exact IH].
  Qed.

  Lemma sets_prev_eq_put sets s st :
    find_set sets (oi_kind (os_id s)) (oi_ns (os_id s)) (oi_name (os_id s)) = Some st ->
    os_id s = os_id st -> os_remotes s = os_remotes st ->
    sets_prev_eq (put_set sets s) sets.
  Proof.
    intros Hf Hid Hrm kind ns n.
    destruct ((oi_kind (os_id s) =? kind) && (oi_ns (os_id s) =? ns) && (oi_name (os_id s) =? n)) eqn:E.
    - apply andb_true_iff in E. destruct E as [E E3]. apply andb_true_iff in E. destruct E as [E1 E2].
      apply N.eqb_eq in E1, E2, E3. subst kind ns n. rewrite (find_put_set _ _ _ Hf), Hf. auto.
    - rewrite (find_put_set_other _ _ _ _ _ E). destruct (find_set sets kind ns n); auto.
  Qed.

  Lemma lookup_prev_eq sets sets0 m1 m0 :
    sets_prev_eq sets sets0 -> os_id m1 = os_id m0 -> os_prev m1 = os_prev m0 ->
    lookup_prev sets m1 = lookup_prev sets0 m0.
  Proof.
    intros He Hid Hp. unfold lookup_prev. rewrite Hid, Hp. apply map_ext. intros n.
    specialize (He (oi_kind (os_id m0)) (oi_ns (os_id m0)) n).
    destruct (find_set sets _ _ n), (find_set sets0 _ _ n); try contradiction; [|reflexivity].
    destruct He as [-> ->]. reflexivity.
  Qed.

  Lemma update_status_sets sw m sw' m' ok :
    update_status sw m = (sw', m', ok) -> os_remotes m = os_remotes m' \/ True ->
    (forall st, find_set (sw_sets sw) (oi_kind (os_id m)) (oi_ns (os_id m)) (oi_name (os_id m)) = Some st -> os_remotes m = os_remotes st) ->
    sets_prev_eq (sw_sets sw') (sw_sets sw).
  Proof.
    intros H _ Hrm. unfold update_status in H.
    destruct (find_set (sw_sets sw) _ _ _) as [st|] eqn:Ef; [|injection H as <- _ _; apply sets_prev_eq_refl].
    destruct (negb _); [injection H as <- _ _; apply sets_prev_eq_refl|].
    destruct (status_eqb st m); injection H as <- _ _; [apply sets_prev_eq_refl|]. cbn [sw_sets].
    destruct (find_set_id _ _ _ _ _ Ef) as (Hk & Hns & Hn).
    apply (sets_prev_eq_put _ _ st); cbn [os_id with_status os_remotes]; [now rewrite Hk, Hns, Hn|reflexivity|now apply Hrm].
  Qed.

  Lemma patch_finalizer_some sw m fin sw' m' :
    find_set (sw_sets sw) (oi_kind (os_id m)) (oi_ns (os_id m)) (oi_name (os_id m)) = Some m ->
    patch_finalizer sw m fin = (sw', Some m') ->
    m' = set_fin m fin (w_rv (sw_w sw)) /\
    (sw_sets sw' = put_set (sw_sets sw) m' \/ sw_sets sw' = del_set (sw_sets sw) (os_id m)).
  Proof.
    intros Hf. unfold patch_finalizer. rewrite Hf, N.eqb_refl. cbn [negb].
    destruct (negb fin && os_deleting m && negb (os_orphan m)); intros H; injection H as <- <-; auto.
  Qed.

  Lemma revision_pass_inv2 sw mem sw1 evs1 mem1 rr :
    find_set (sw_sets sw) (oi_kind (os_id mem)) (oi_ns (os_id mem)) (oi_name (os_id mem)) = Some mem ->
    revision_pass sw mem = (sw1, evs1, mem1, rr) ->
    same_spec mem1 mem /\ w_store (sw_w sw1) = w_store (sw_w sw) /\ sw_phases sw1 = sw_phases sw /\ sw_nss sw1 = sw_nss sw /\
    Forall (keeps2 mem) evs1 /\ sets_prev_eq (sw_sets sw1) (sw_sets sw) /\
    (os_revision mem <> 0%Z -> os_revision mem1 = os_revision mem) /\
    (rr = RevRequeue -> os_revision mem = 0%Z /\ evs1 = [] /\ sw1 = sw /\ mem1 = mem).
  Proof.
    intros Hf. unfold revision_pass.
    destruct (Z.eqb (os_revision mem) 0) eqn:Erev; cbn [negb].
    2:{ intros H; injection H as <- <- <- <-. repeat split; try constructor; try apply sets_prev_eq_refl; discriminate. }
    apply Z.eqb_eq in Erev.
    destruct (os_prev mem) eqn:Epv.
    { intros H; injection H as <- <- <- <-. repeat split; try constructor; auto; try apply sets_prev_eq_refl; try discriminate. congruence. }
    destruct (scan_prev _ _ _ _) as [[latest|]|].
    - destruct (update_status sw (set_revision mem (latest + 1))) as [[sw2 m2] ok] eqn:Eu.
      intros H; injection H as <- <- <- <-. destruct (update_status_store _ _ _ _ _ Eu) as (H1 & H2 & H3).
      split; [|split; [exact H1|split; [exact H2|split; [exact H3|split; [|split; [|split]]]]]].
      + eapply (update_status_same _ _ _ _ _ Hf (set_revision mem (latest + 1))); eauto; repeat split; auto.
      + constructor; [|constructor]. cbn. auto.
      + eapply update_status_sets; [exact Eu|now right|]. cbn [os_id set_revision os_remotes]. intros st Hst. rewrite Hf in Hst. now injection Hst as <-.
      + congruence.
      + destruct ok; discriminate.
    - intros H; injection H as <- <- <- <-. repeat split; try constructor; auto; try apply sets_prev_eq_refl.
    - intros H; injection H as <- <- <- <-. repeat split; try constructor; auto; try apply sets_prev_eq_refl; discriminate.
  Qed.

  Lemma active_body_inv2 sets0 sw0 evs0 mem mem0 sw' evs r :
    find_set (sw_sets sw0) (oi_kind (os_id mem)) (oi_ns (os_id mem)) (oi_name (os_id mem)) = Some mem ->
    same_spec mem mem0 -> os_revision mem = os_revision mem0 -> Forall (keeps2 mem0) evs0 ->
    sets_prev_eq (sw_sets sw0) sets0 ->
    active_body force sw0 evs0 mem = (sw', evs, r) ->
    stopped2 sw0 mem0 sw' evs \/ reached2 sets0 sw0 mem0 sw' evs r.
  Proof.
    intros Hf Hs0 Hrev0 Hev0 Hsets0. unfold active_body.
    destruct (revision_pass sw0 mem) as [[[sw1 evs1] mem1] rr] eqn:Erev.
    destruct (revision_pass_inv2 _ _ _ _ _ _ Hf Erev) as (Hs1 & Hst1 & Hph1 & Hns1 & Hev1 & Hse1 & Hrv1 & Hrq).
    assert (Hs10 : same_spec mem1 mem0).
    { destruct Hs1 as (?&?&?&?&?&?&?&?), Hs0 as (?&?&?&?&?&?&?&?). repeat split; congruence. }
    assert (Hcg0 : os_conds mem = os_conds mem0 /\ os_gen mem = os_gen mem0) by (destruct Hs0 as (?&?&?&?&?&?&?&?); auto).
    assert (Hev1' : Forall (keeps2 mem0) evs1).
    { eapply Forall_impl; [|exact Hev1]. intros e. apply keeps2_same; tauto. }
    assert (Hpre : Forall (keeps2 mem0) (evs0 ++ evs1)) by (apply Forall_app; auto).
    assert (Hcond1 : os_conds mem1 = os_conds mem0) by (destruct Hs10 as (?&?&?&?&?&?&?&?); assumption).
    assert (Hgen1 : os_gen mem1 = os_gen mem0) by (destruct Hs10 as (?&?&?&?&?&?&?&?); assumption).
    assert (Hfail : forall (mx : oset) sw2 evsx rs swf evsf rf,
              (let m' := set_conds mx (set_cond (os_conds mx) (mk_cond mx CAvailable SFalse rs)) in
               let '(sw'', _, ok) := update_status sw2 m' in
               (sw'', evsx ++ [status_ev m' ok], if ok then SDone true else SError)) = (swf, evsf, rf) ->
              (w_store (sw_w swf) = w_store (sw_w sw2) /\ sw_phases swf = sw_phases sw2 /\ sw_nss swf = sw_nss sw2) /\
              exists ok, evsf = evsx ++ [status_ev (fail_mem mx rs) ok] /\ rf = (if ok then SDone true else SError)).
    { intros mx sw2 evsx rs swf evsf rf. cbv zeta.
      destruct (update_status sw2 _) as [[sw3 m3] ok] eqn:Eu. intros H. injection H as <- <- <-.
      split; [eapply update_status_store; eauto|]. exists ok. split; reflexivity. }
    destruct rr.
    - (* RevGo *)
      destruct (Nat.ltb 0 (dup_count [] (map (spec_key mem1) (all_objects mem1)))) eqn:Edup.
      + intros H. destruct (Hfail mem1 _ _ _ _ _ _ H) as ((Hst & Hph & Hns) & ok & -> & _).
        left. split; [congruence|]. split; [congruence|]. split; [congruence|].
        exists (evs0 ++ evs1), [], [status_ev (fail_mem mem1 RPreflightError) ok].
        split; [reflexivity|]. split; [exact Hpre|]. split; [|now left].
        constructor; [|constructor]. unfold status_ev, status_ev_f, keeps2, fail_mem. cbn [os_conds set_conds].
        split; [reflexivity|]. split; [right|split].
        * rewrite (find_set_cond_same _ (mk_cond mem1 CAvailable SFalse RPreflightError)). unfold mk_cond. now rewrite Hgen1.
        * rewrite find_set_cond_other by (cbn; discriminate). now rewrite Hcond1.
        * rewrite find_set_cond_other by (cbn; discriminate). now rewrite Hcond1.
      + apply Nat.ltb_ge in Edup. assert (Hdup : dup_count [] (map (spec_key mem1) (all_objects mem1)) = O) by lia.
        destruct (reconcile_phases_m force sw1 mem1 (as_owner mem1) _ _ [] (os_remotes mem1)) as [[[sw2 pevs] rem] pr] eqn:Erp.
        intros H. right.
        exists mem1, sw1, sw2, pevs, rem, pr, (evs0 ++ evs1).
        split; [exact Hs10|]. split; [exact Hst1|]. split; [exact Hph1|]. split; [exact Hns1|].
        split. { apply lookup_prev_eq; [eapply sets_prev_eq_trans; eauto|now destruct Hs10|now destruct Hs10 as (?&?&?&?&?&?&?&?)]. }
        split. { intros Hne. rewrite <- Hrev0. apply Hrv1. now rewrite Hrev0. }
        split; [exact Hdup|]. split; [exact Erp|].
        unfold after_loop2.
        destruct pr as [e| | |ctrlof failed].
        * destruct (is_collision e) eqn:Ecoll.
          -- assert (H' : (let m' := set_conds (set_remotes mem1 rem) (set_cond (os_conds (set_remotes mem1 rem)) (mk_cond (set_remotes mem1 rem) CAvailable SFalse RCollisionDetected)) in
                          let '(sw'', _, ok) := update_status sw2 m' in
                          (sw'', (evs0 ++ evs1 ++ pevs) ++ [status_ev m' ok], if ok then SDone true else SError)) = (sw', evs, r))
               by (destruct e; try discriminate; exact H).
             destruct (Hfail (set_remotes mem1 rem) _ _ _ _ _ _ H') as ((Hst & Hph & Hns) & ok & -> & ->).
             split; [exact Hst|]. split; [exact Hph|]. split; [exact Hns|]. split; [exact Hpre|].
             exists ok. rewrite <- !app_assoc. auto.
          -- assert (H' : (sw2, evs0 ++ evs1 ++ pevs, SError) = (sw', evs, r))
               by (destruct e; try discriminate; exact H).
             injection H' as <- <- <-. repeat split; auto. now rewrite <- app_assoc.
        * injection H as <- <- <-. repeat split; auto. now rewrite <- app_assoc.
        * destruct (Hfail (set_remotes mem1 rem) _ _ _ _ _ _ H) as ((Hst & Hph & Hns) & ok & -> & ->).
          split; [exact Hst|]. split; [exact Hph|]. split; [exact Hns|]. split; [exact Hpre|].
          exists ok. rewrite <- !app_assoc. auto.
        * destruct (update_status sw2 (final_status (sw_phases sw2) (set_remotes mem1 rem) ctrlof failed)) as [[sw3 m3] ok] eqn:Eu.
          injection H as <- <- <-. destruct (update_status_store _ _ _ _ _ Eu) as (Hst & Hph & Hns).
          split; [exact Hst|]. split; [exact Hph|]. split; [exact Hns|]. split; [exact Hpre|].
          exists ok. rewrite <- !app_assoc. auto.
    - (* RevRequeue *)
      destruct (Hrq eq_refl) as (Hz & -> & -> & ->).
      destruct (update_status sw0 _) as [[sw2 m2] ok] eqn:Eu. intros H. injection H as <- <- <-.
      destruct (update_status_store _ _ _ _ _ Eu) as (Hst & Hph & Hns).
      left. split; [congruence|]. split; [congruence|]. split; [congruence|].
      exists evs0, (paused_reads (sw_phases sw0) mem), [status_ev (set_conds mem (paused_cond (sw_phases sw0) mem)) ok].
      split; [reflexivity|]. split; [exact Hev0|]. split.
      + constructor; [|constructor].
        unfold status_ev, status_ev_f, keeps2. cbn [os_conds set_conds]. rewrite !paused_cond_other by discriminate.
        destruct Hcg0 as [-> _]. auto.
      + right. split; [congruence|]. unfold paused_reads, phase_kind.
        destruct Hs0 as (-> & _ & _ & _ & _ & _ & _ & ->). reflexivity.
    - (* RevErr *)
      intros H. injection H as <- <- <-. left. split; [congruence|]. split; [congruence|]. split; [congruence|].
      exists (evs0 ++ evs1), [], []. rewrite !app_nil_r. repeat split; auto.
  Qed.

  Lemma objectset_pass_active2 sw k ns n mem0 sw' evs r :
    find_set (sw_sets sw) k ns n = Some mem0 -> is_active mem0 ->
    objectset_pass force sw k ns n = (sw', evs, r) ->
    stopped2 sw mem0 sw' evs \/ reached2 (sw_sets sw) sw mem0 sw' evs r.
  Proof.
    intros Hfind (Harch & Hdel & Hlife). unfold objectset_pass. rewrite Hfind, Harch, Hdel.
    assert (lifecycle_eqb (os_life mem0) LArchived = false) as -> by (destruct (os_life mem0); try reflexivity; congruence).
    cbn [orb]. unfold active_pass.
    destruct (find_set_id _ _ _ _ _ Hfind) as (Hk & Hns & Hn).
    assert (Hf0 : find_set (sw_sets sw) (oi_kind (os_id mem0)) (oi_ns (os_id mem0)) (oi_name (os_id mem0)) = Some mem0) by now rewrite Hk, Hns, Hn.
    destruct (os_fin mem0).
    - intros H. exact (active_body_inv2 (sw_sets sw) sw [] mem0 mem0 sw' evs r Hf0 (same_spec_refl _) eq_refl (Forall_nil _) (sets_prev_eq_refl _) H).
    - destruct (patch_finalizer sw mem0 true) as [sw0 [m|]] eqn:Ep.
      + destruct (patch_finalizer_store _ _ _ _ _ Ep) as (Hst & Hph & Hnss).
        pose proof (patch_finalizer_same _ _ _ _ _ Hf0 Ep) as Hsm.
        destruct (patch_finalizer_some _ _ _ _ _ Hf0 Ep) as [Hm Hsets].
        assert (Hsets' : sw_sets sw0 = put_set (sw_sets sw) m).
        { unfold patch_finalizer in Ep. rewrite Hf0, N.eqb_refl in Ep. cbn in Ep. injection Ep as <- <-. reflexivity. }
        assert (Hfm : find_set (sw_sets sw0) (oi_kind (os_id m)) (oi_ns (os_id m)) (oi_name (os_id m)) = Some m).
        { rewrite Hsets'. apply (find_put_set (sw_sets sw) m mem0). rewrite Hm. exact Hf0. }
        assert (Hse : sets_prev_eq (sw_sets sw0) (sw_sets sw)).
        { rewrite Hsets'. apply (sets_prev_eq_put _ _ mem0); rewrite Hm; auto. }
        intros H.
        assert (Hev0 : Forall (keeps2 mem0) [SMeta (MFinalizer true true)]) by (constructor; [reflexivity|constructor]).
        assert (Hrv : os_revision m = os_revision mem0) by now rewrite Hm.
        destruct (active_body_inv2 (sw_sets sw) sw0 _ m mem0 sw' evs r Hfm Hsm Hrv Hev0 Hse H) as [(Hs1 & Hs2 & Hs3 & He)|Hr].
        * left. split; [congruence|]. split; [congruence|]. split; [congruence|]. now rewrite <- Hph.
        * right. destruct Hr as (mem1 & sw1 & sw2 & pevs & rem & pr & pre & H1 & H2 & H3 & H4 & rest).
          exists mem1, sw1, sw2, pevs, rem, pr, pre.
          split; [assumption|]. split; [congruence|]. split; [congruence|]. split; [congruence|]. exact rest.
      + intros H. injection H as <- <- <-. destruct (patch_finalizer_store _ _ _ _ _ Ep) as (Hst & Hph & Hnss).
        left. repeat split; auto. exists [SMeta (MFinalizer true false)], [], []. cbn.
        repeat split; auto. constructor; [reflexivity|constructor].
  Qed.
End PassInversion2.

(** * 2. C11, retry clause: a pass of an ObjectSet with a revision that lists an object twice, or whose first
    (local) phase violates preflight, ends with a requeue or an error. *)
Section Retry.
  Variable force : bool.

  Definition violates (m : oset) : bool :=
    Nat.ltb 0 (dup_count [] (map (spec_key m) (all_objects m))) ||
    match os_phases m with
    | ph :: _ => negb (ph_class ph) &&
                 existsb (fun p => negb (is_nil (preflight_obj FObjectSet (as_owner m) false p))) (ph_objects ph)
    | [] => false end.

  Definition retried (r : sres) : bool := match r with SDone true | SError => true | _ => false end.

  Lemma active_body_violation sw evs0 mem sw' evs r :
    os_revision mem <> 0%Z -> violates mem = true ->
    active_body force sw evs0 mem = (sw', evs, r) -> retried r = true.
  Proof.
    intros Hrev Hv. unfold active_body, revision_pass.
    assert (Z.eqb (os_revision mem) 0 = false) as -> by now apply Z.eqb_neq. cbn [negb].
    assert (Hfail : forall (mx : oset) sw2 evsx rs swf evsf rf,
              (let m' := set_conds mx (set_cond (os_conds mx) (mk_cond mx CAvailable SFalse rs)) in
               let '(sw'', _, ok) := update_status sw2 m' in
               (sw'', evsx ++ [status_ev m' ok], if ok then SDone true else SError)) = (swf, evsf, rf) -> retried rf = true).
    { intros mx sw2 evsx rs swf evsf rf. cbv zeta. destruct (update_status sw2 _) as [[sw3 m3] ok].
      intros H. injection H as _ _ <-. now destruct ok. }
    unfold violates in Hv.
    destruct (Nat.ltb 0 (dup_count [] (map (spec_key mem) (all_objects mem)))); [intros H; eapply Hfail; eauto|].
    cbn [orb] in Hv. destruct (os_phases mem) as [|ph rest] eqn:Eph; [discriminate|].
    apply andb_true_iff in Hv. destruct Hv as [Hc Hex]. apply negb_true_iff in Hc.
    rewrite rpm_cons, Hc. unfold reconcile_phase. cbn [c_flavor].
    destruct (flat_map (preflight_obj FObjectSet (as_owner mem) false) (ph_objects ph)) as [|v vs] eqn:Efm.
    - exfalso. apply existsb_exists in Hex. destruct Hex as (p & Hp & Hne).
      assert (Hin : forall x, In x (preflight_obj FObjectSet (as_owner mem) false p) -> False).
      { intros x Hx. assert (In x (flat_map (preflight_obj FObjectSet (as_owner mem) false) (ph_objects ph))) by (apply in_flat_map; eauto).
        rewrite Efm in H. contradiction. }
      destruct (preflight_obj FObjectSet (as_owner mem) false p) as [|x xs]; [discriminate|]. apply (Hin x). now left.
    - intros H. eapply Hfail; eauto.
  Qed.

  Lemma objectset_pass_violation sw k ns n mem0 sw' evs r :
    find_set (sw_sets sw) k ns n = Some mem0 -> is_active mem0 ->
    os_revision mem0 <> 0%Z -> violates mem0 = true ->
    objectset_pass force sw k ns n = (sw', evs, r) -> retried r = true.
  Proof.
    intros Hfind (Harch & Hdel & Hlife) Hrev Hv. unfold objectset_pass. rewrite Hfind, Harch, Hdel.
    assert (lifecycle_eqb (os_life mem0) LArchived = false) as -> by (destruct (os_life mem0); try reflexivity; congruence).
    cbn [orb]. unfold active_pass.
    destruct (find_set_id _ _ _ _ _ Hfind) as (Hk & Hns & Hn).
    assert (Hf0 : find_set (sw_sets sw) (oi_kind (os_id mem0)) (oi_ns (os_id mem0)) (oi_name (os_id mem0)) = Some mem0) by now rewrite Hk, Hns, Hn.
    destruct (os_fin mem0); [apply active_body_violation; assumption|].
    destruct (patch_finalizer sw mem0 true) as [sw0 [m|]] eqn:Ep; [|intros H; now injection H as _ _ <-].
    destruct (patch_finalizer_some _ _ _ _ _ Hf0 Ep) as [-> _].
    apply active_body_violation; assumption.
  Qed.
End Retry.

(** * 3. The status requests of an active pass *)
Section StatusRequests.
  Variable force : bool.

  Definition is_get (e : sev) : Prop := match e with SPhase (PGet _ _) => True | _ => False end.

  Lemma paused_reads_l_gets phs kind ns refs : Forall is_get (paused_reads_l phs kind ns refs).
  Proof.
    induction refs as [|x xs IH]; cbn; [constructor|].
    destruct (find_phase phs kind ns (fst x)); constructor; try exact I; [exact IH|constructor].
  Qed.

  Lemma paused_reads_gets phs m : Forall is_get (paused_reads phs m).
  Proof. apply paused_reads_l_gets. Qed.

  Lemma gets_no_meta l ms : Forall is_get l -> ~ In (SMeta ms) l.
  Proof. intros H Hin. rewrite Forall_forall in H. exact (H _ Hin). Qed.

  Lemma gets_no_members l : Forall is_get l -> member_evs l = [].
  Proof.
    induction l as [|e l IH]; intros H; [reflexivity|]. inversion H; subst.
    destruct e as [x|m|p]; try contradiction. cbn. now apply IH.
  Qed.

  Lemma keeps2_no_members mem0 l : Forall (keeps2 mem0) l -> member_evs l = [].
  Proof.
    induction l as [|e l IH]; intros H; [reflexivity|]. inversion H; subst.
    destruct e as [x|m|p]; try contradiction. cbn. now apply IH.
  Qed.

  (** the status request that ends a pass which reached the phase loop *)
  Definition tail_status (mem1 : oset) (sw2 : sworld) (rem : list (N * N)) (pr : mres) : option (bool -> sev) :=
    let mem2 := set_remotes mem1 rem in
    match pr with
    | MOk ctrlof failed => Some (status_ev_f (final_status (sw_phases sw2) mem2 ctrlof failed) failed)
    | MPreflight => Some (status_ev (fail_mem mem2 RPreflightError))
    | MErr e => if is_collision e then Some (status_ev (fail_mem mem2 RCollisionDetected)) else None
    | MRemoteErr => None
    end.

  Lemma rpm_no_meta s ow prev phs sw acc rem sw' evs rem' r ms :
    reconcile_phases_m force sw s ow prev phs acc rem = (sw', evs, rem', r) -> ~ In (SMeta ms) evs.
  Proof.
    intros H Hin. destruct (rpm_inv force _ _ _ _ _ _ _ _ _ _ _ H) as (_ & _ & _ & Hev & _).
    rewrite Forall_forall in Hev. exact (Hev _ Hin).
  Qed.

  Lemma after_loop2_meta mem0 mem1 sw1 sw2 prev pre pevs rem pr evs r ms :
    reconcile_phases_m force sw1 mem1 (as_owner mem1) prev (os_phases mem1) [] (os_remotes mem1) = (sw2, pevs, rem, pr) ->
    Forall (keeps2 mem0) pre -> after_loop2 mem1 sw2 pre pevs rem pr evs r ->
    In (SMeta ms) evs ->
    keeps2 mem0 (SMeta ms) \/ exists f ok, tail_status mem1 sw2 rem pr = Some f /\ SMeta ms = f ok.
  Proof.
    intros Hrp Hpre Hal Hin. rewrite Forall_forall in Hpre.
    assert (Hcase : forall tail, evs = pre ++ pevs ++ tail -> keeps2 mem0 (SMeta ms) \/ In (SMeta ms) tail).
    { intros tail ->. apply in_app_or in Hin. destruct Hin as [Hi|Hi]; [left; now apply Hpre|].
      apply in_app_or in Hi. destruct Hi as [Hi|Hi]; [exfalso; eapply rpm_no_meta; eauto|now right]. }
    unfold after_loop2 in Hal. unfold tail_status. destruct pr as [e| | |ctrlof failed].
    - destruct (is_collision e).
      + destruct Hal as (ok & Hev & _). destruct (Hcase _ Hev) as [Hk|[Hi|[]]]; [now left|right]. eauto.
      + destruct Hal as [Hev _]. rewrite <- (app_nil_r pevs) in Hev. destruct (Hcase _ Hev) as [Hk|[]]. now left.
    - destruct Hal as [Hev _]. rewrite <- (app_nil_r pevs) in Hev. destruct (Hcase _ Hev) as [Hk|[]]. now left.
    - destruct Hal as (ok & Hev & _). destruct (Hcase _ Hev) as [Hk|[Hi|[]]]; [now left|right]. eauto.
    - destruct Hal as (ok & Hev & _). destruct (Hcase _ Hev) as [Hk|Hi]; [now left|].
      apply in_app_or in Hi. destruct Hi as [Hi|[Hi|[]]]; [exfalso; eapply gets_no_meta; [apply paused_reads_gets|exact Hi]|].
      right. eauto.
  Qed.

  Lemma stopped2_meta sw mem0 sw' evs ms : stopped2 sw mem0 sw' evs -> In (SMeta ms) evs -> keeps2 mem0 (SMeta ms).
  Proof.
    intros (_ & _ & _ & pre & reads & post & -> & Hpre & Hpost & Hreads) Hin. rewrite Forall_forall in Hpre, Hpost.
    apply in_app_or in Hin. destruct Hin as [Hi|Hi]; [now apply Hpre|].
    apply in_app_or in Hi. destruct Hi as [Hi|Hi]; [|now apply Hpost].
    exfalso. destruct Hreads as [->|[_ ->]]; [contradiction|]. eapply gets_no_meta; [apply paused_reads_l_gets|exact Hi].
  Qed.

  (** Available in the computed status, exactly. *)
  Lemma final_status_available_eq phs m ctrlof failed :
    find_cond (os_conds (final_status phs m ctrlof failed)) CAvailable =
    Some (match failed with
          | Some _ => mk_cond m CAvailable SFalse RProbeFailure
          | None => mk_cond m CAvailable STrue RAvailable end).
  Proof.
    unfold final_status. cbn [os_conds set_conds os_ctrlof].
    rewrite paused_cond_other by discriminate. cbn [os_conds set_conds].
    destruct failed as [n|].
    - now rewrite (find_set_cond_same _ (mk_cond _ CAvailable SFalse RProbeFailure)).
    - match goal with |- context [if ?b then _ else _] => destruct b end.
      + rewrite find_set_cond_other by (cbn; discriminate).
        now rewrite (find_set_cond_same _ (mk_cond _ CAvailable STrue RAvailable)).
      + now rewrite (find_set_cond_same _ (mk_cond _ CAvailable STrue RAvailable)).
  Qed.

  Lemma fail_mem_available m rs : find_cond (os_conds (fail_mem m rs)) CAvailable = Some (mk_cond m CAvailable SFalse rs).
  Proof. unfold fail_mem. cbn [os_conds set_conds]. apply (find_set_cond_same _ (mk_cond m CAvailable SFalse rs)). Qed.

  Lemma fail_mem_other m rs t : t <> CAvailable -> find_cond (os_conds (fail_mem m rs)) t = find_cond (os_conds m) t.
  Proof. intros Ht. unfold fail_mem. cbn [os_conds set_conds]. apply find_set_cond_other. cbn. congruence. Qed.

  (** C01, reporting clause: whatever the pass, a status request that carries Available with reason
      CollisionDetected either re-sends the stored condition or reports Available=False for the generation read. *)
  Lemma collision_reported sw k ns n mem0 sw' evs r rv cs co rm fph ok cd :
    find_set (sw_sets sw) k ns n = Some mem0 ->
    objectset_pass force sw k ns n = (sw', evs, r) ->
    In (SMeta (MStatus rv cs co rm fph ok)) evs ->
    find_cond cs CAvailable = Some cd -> cd_reason cd = RCollisionDetected ->
    find_cond (os_conds mem0) CAvailable = Some cd \/ (cd_status cd = SFalse /\ cd_gen cd = os_gen mem0).
  Proof.
    intros Hfind H Hin Hcd Hreason.
    destruct (cond_true (os_conds mem0) CArchived) eqn:Harch.
    { rewrite (C06_archived_not_reconciled force _ _ _ _ _ Hfind Harch) in H. injection H as _ <- _. contradiction. }
    destruct (os_deleting mem0 || lifecycle_eqb (os_life mem0) LArchived) eqn:Hgo.
    { assert (Hg : is_going mem0).
      { split; [exact Harch|]. apply orb_true_iff in Hgo. destruct Hgo as [Hg|Hg]; [now left|right]. destruct (os_life mem0); try discriminate; reflexivity. }
      pose proof (objectset_pass_going force _ _ _ _ _ _ _ _ Hfind Hg H) as Hd.
      destruct (deletion_pass_inv force _ _ _ _ _ Hd) as (swd & tevs & td & _ & _ & _ & _ & _ & Hs & _).
      destruct (Hs _ _ _ _ _ _ Hin) as (Ha & _). congruence. }
    apply orb_false_iff in Hgo. destruct Hgo as [Hdel Hl].
    assert (Hact : is_active mem0).
    { split; [exact Harch|]. split; [exact Hdel|]. intros E. rewrite E in Hl. discriminate. }
    assert (Hkeep : keeps2 mem0 (SMeta (MStatus rv cs co rm fph ok)) ->
                    find_cond (os_conds mem0) CAvailable = Some cd \/ (cd_status cd = SFalse /\ cd_gen cd = os_gen mem0)).
    { cbn. intros (_ & [Ha|Ha] & _); [left; congruence|right]. rewrite Hcd in Ha. injection Ha as ->. auto. }
    destruct (objectset_pass_active2 force _ _ _ _ _ _ _ _ Hfind Hact H) as [Hs|Hr].
    - apply Hkeep. eapply stopped2_meta; eauto.
    - destruct Hr as (mem1 & sw1 & sw2 & pevs & rem & pr & pre & Hs & _ & _ & _ & _ & _ & _ & Hrp & _ & _ & _ & Hpre & Hal).
      destruct (after_loop2_meta _ _ _ _ _ _ _ _ _ _ _ _ Hrp Hpre Hal Hin) as [Hk|(f & ok' & Hf & He)]; [now apply Hkeep|].
      assert (Hgen : os_gen mem1 = os_gen mem0) by (destruct Hs as (?&?&?&?&?&?&?&?); assumption).
      right. unfold tail_status in Hf. destruct pr as [e| | |ctrlof failed].
      + destruct (is_collision e); [|discriminate]. injection Hf as <-. unfold status_ev, status_ev_f in He. remember (fail_mem _ _) as fm eqn:Efm in He. injection He as _ -> _ _ _ _. subst fm.
        rewrite fail_mem_available in Hcd. injection Hcd as <-. cbn. auto.
      + discriminate.
      + injection Hf as <-. unfold status_ev, status_ev_f in He. remember (fail_mem _ _) as fm eqn:Efm in He. injection He as _ -> _ _ _ _. subst fm.
        rewrite fail_mem_available in Hcd. injection Hcd as <-. cbn. auto.
      + injection Hf as <-. unfold status_ev_f in He. remember (final_status _ _ _ _) as fm eqn:Efm in He. injection He as _ -> _ _ _ _. subst fm.
        rewrite final_status_available_eq in Hcd. injection Hcd as <-. destruct failed; discriminate.
  Qed.
End StatusRequests.

(** * 4. Boolean equalities *)
Lemma cstatus_eqb_spec a b : cstatus_eqb a b = true <-> a = b.
Proof. destruct a, b; cbn; split; congruence. Qed.
Lemma creason_eqb_spec a b : creason_eqb a b = true <-> a = b.
Proof. destruct a, b; cbn; split; congruence. Qed.
Lemma cond_eqb_refl' c : cond_eqb c c = true.
Proof.
  unfold cond_eqb. rewrite Z.eqb_refl.
  assert (ctype_eqb (cd_type c) (cd_type c) = true) as -> by now apply ctype_eqb_spec.
  assert (cstatus_eqb (cd_status c) (cd_status c) = true) as -> by now apply cstatus_eqb_spec.
  assert (creason_eqb (cd_reason c) (cd_reason c) = true) as -> by now apply creason_eqb_spec. reflexivity.
Qed.
Lemma lifecycle_eqb_spec a b : lifecycle_eqb a b = true <-> a = b.
Proof. destruct a, b; cbn; split; congruence. Qed.

(** * 5. Loop-level facts about the member requests (C11) *)
Section LoopFacts.
  Variable force : bool.
  Local Notation c := (Build_cfg FObjectSet force).

  Definition ns_ok (ow : owner) (e : ev) : Prop :=
    oi_ns (ow_id ow) <> 0 -> k_ns (ev_key e) = oi_ns (ow_id ow) /\ gk_scope (k_gk (ev_key e)) = Some true.

  (** the request names an object of a local phase all of whose objects pass preflight *)
  Definition written_by (ow : owner) (phs : list phase) (e : ev) : Prop :=
    exists ph, In ph phs /\ ph_class ph = false /\ In (ev_key e) (phase_keys ow ph) /\
               (forall p, In p (ph_objects ph) -> preflight_obj FObjectSet ow false p = []).

  Lemma written_by_cons ow ph phs e : written_by ow phs e -> written_by ow (ph :: phs) e.
  Proof. intros (q & Hq & rest). exists q. split; [now right|exact rest]. Qed.

  Lemma rpm_members_written s ow prev phs : forall sw acc rem sw' evs rem' r,
    reconcile_phases_m force sw s ow prev phs acc rem = (sw', evs, rem', r) ->
    Forall (fun e => written_by ow phs e /\ ns_ok ow e) (member_evs evs).
  Proof.
    induction phs as [|ph rest IH]; intros sw acc rem sw' evs rem' r H.
    - cbn in H. injection H as _ <- _ _. constructor.
    - rewrite rpm_cons in H. destruct (ph_class ph) eqn:Ecl.
      + destruct (remote_reconcile sw s ph rem) as [[[sw1 e1] rem1] r1] eqn:E1.
        destruct (remote_reconcile_inv _ _ _ _ _ _ _ _ E1) as (_ & _ & _ & Hev & _).
        pose proof (only_phase_members _ _ Hev) as Hm1.
        destruct r1 as [|active failed]; [injection H as _ <- _ _; rewrite Hm1; constructor|].
        destruct failed; [injection H as _ <- _ _; rewrite Hm1; constructor|].
        destruct (reconcile_phases_m force sw1 s ow prev rest (acc ++ active) rem1) as [[[sw2 e2] rem2] r2] eqn:E2.
        injection H as _ <- _ _. rewrite member_evs_app, Hm1. cbn [app].
        eapply Forall_impl; [|exact (IH _ _ _ _ _ _ _ E2)]. intros e [Hw Hn]. split; [now apply written_by_cons|exact Hn].
      + destruct (reconcile_phase c idw (sw_w sw) ow prev false (ph_objects ph)) as [[w1 e1] r1] eqn:E1.
        assert (H1 : Forall (fun e => written_by ow (ph :: rest) e /\ ns_ok ow e) e1).
        { apply Forall_forall. intros e He. split.
          - exists ph. split; [now left|]. split; [exact Ecl|]. split.
            + pose proof (rec_phase_events_in force _ _ _ _ _ _ _ _ E1) as Hin. rewrite Forall_forall in Hin. exact (Hin _ He).
            + apply (phase_writes_imply_preflight c _ _ _ _ _ _ _ _ _ E1). intros ->. contradiction.
          - intros Hns. pose proof (phase_writes_ns_bound c _ _ _ _ _ _ _ _ eq_refl Hns E1) as Hb.
            rewrite Forall_forall in Hb. exact (Hb _ He). }
        destruct r1 as [e|vs|actual failed]; try (injection H as _ <- _ _; rewrite member_evs_members; exact H1).
        destruct failed as [|f fs]; [|injection H as _ <- _ _; rewrite member_evs_members; exact H1].
        cbv zeta in H.
        match type of H with context [reconcile_phases_m force ?a s ow prev rest ?b ?d] =>
          destruct (reconcile_phases_m force a s ow prev rest b d) as [[[sw2 e2] rem2] r2] eqn:E2 end.
        injection H as _ <- _ _. rewrite member_evs_app, member_evs_members. apply Forall_app. split; [exact H1|].
        eapply Forall_impl; [|exact (IH _ _ _ _ _ _ _ E2)]. intros e [Hw Hn]. split; [now apply written_by_cons|exact Hn].
  Qed.

  Lemma tpm_members_ns s ow rphs : forall sw sw' evs r,
    teardown_phases_m force sw s ow rphs = (sw', evs, r) -> Forall (ns_ok ow) (member_evs evs).
  Proof.
    induction rphs as [|ph rest IH]; intros sw sw' evs r H.
    - cbn in H. injection H as _ <- _. constructor.
    - rewrite tpm_cons in H. destruct (td_step force sw s ow ph) as [[sw1 e1] r1] eqn:E1.
      assert (H1 : Forall (ns_ok ow) (member_evs e1)).
      { unfold td_step in E1. destruct (ph_class ph).
        - destruct (remote_teardown_inv _ _ _ _ _ _ E1) as (_ & _ & _ & Hev & _). rewrite (only_phase_members _ _ Hev). constructor.
        - destruct (teardown_phase _ idw (sw_w sw) ow (ph_objects ph)) as [[w1 e'] r'] eqn:Et. injection E1 as _ <- _.
          rewrite member_evs_members. apply Forall_forall. intros e He Hns. unfold teardown_phase in Et.
          pose proof (teardown_writes_ns_bound c _ _ _ _ _ _ _ _ eq_refl Hns Et) as Hb. rewrite Forall_forall in Hb. exact (Hb _ He). }
      destruct r1 as [|[|]]; try (injection H as _ <- _; exact H1).
      destruct (teardown_phases_m force sw1 s ow rest) as [[sw2 e2] r2] eqn:E2. injection H as _ <- _.
      rewrite member_evs_app. apply Forall_app. split; [exact H1|eapply IH; eauto].
  Qed.
End LoopFacts.

(** * 6. Keys: the monitors' boolean views *)
Lemma nodupb_complete {A} (eqb : A -> A -> bool) (Hspec : forall x y, eqb x y = true <-> x = y) l :
  NoDup l -> nodupb eqb l = true.
Proof.
  induction l as [|x xs IH]; intros H; [reflexivity|]. inversion H; subst. cbn. rewrite IH by assumption.
  destruct (existsb (eqb x) xs) eqn:E; [|reflexivity]. exfalso. apply existsb_exists in E. destruct E as (y & Hy & Ey).
  apply Hspec in Ey. subst y. contradiction.
Qed.

Lemma preflight_obj_same_id f a b cl p : ow_id a = ow_id b -> preflight_obj f a cl p = preflight_obj f b cl p.
Proof. intros H. unfold preflight_obj, desired_key, check_ns_escalation. now rewrite H. Qed.

Lemma same_spec_owner_id m1 m0 : same_spec m1 m0 -> ow_id (as_owner m1) = ow_id (as_owner m0).
Proof. intros (Hid & _). cbn. exact Hid. Qed.

(** * 7. The member requests of a pass *)
Section Members.
  Variable force : bool.

  Lemma after_loop2_members mem0 mem1 sw2 pre pevs rem pr evs r :
    Forall (keeps2 mem0) pre -> after_loop2 mem1 sw2 pre pevs rem pr evs r -> member_evs evs = member_evs pevs.
  Proof.
    intros Hpre Hal. pose proof (keeps2_no_members _ _ Hpre) as Hp. unfold after_loop2 in Hal.
    destruct pr as [e| | |ctrlof failed].
    - destruct (is_collision e).
      + destruct Hal as (ok & -> & _). rewrite !member_evs_app, Hp. cbn. now rewrite app_nil_r.
      + destruct Hal as [-> _]. now rewrite member_evs_app, Hp.
    - destruct Hal as [-> _]. now rewrite member_evs_app, Hp.
    - destruct Hal as (ok & -> & _). rewrite !member_evs_app, Hp. cbn. now rewrite app_nil_r.
    - destruct Hal as (ok & -> & _). rewrite !member_evs_app, Hp, (gets_no_members _ (paused_reads_gets _ _)). cbn. now rewrite app_nil_r.
  Qed.

  Lemma stopped2_members sw mem0 sw' evs : stopped2 sw mem0 sw' evs -> member_evs evs = [].
  Proof.
    intros (_ & _ & _ & pre & reads & post & -> & Hpre & Hpost & Hreads).
    rewrite !member_evs_app, (keeps2_no_members _ _ Hpre), (keeps2_no_members _ _ Hpost).
    destruct Hreads as [->|[_ ->]]; [reflexivity|]. now rewrite (gets_no_members _ (paused_reads_l_gets _ _ _ _)).
  Qed.

  (** every member request of any pass stays within the namespace of a namespaced ObjectSet *)
  Lemma pass_members_ns sw k ns n mem0 sw' evs r :
    find_set (sw_sets sw) k ns n = Some mem0 ->
    objectset_pass force sw k ns n = (sw', evs, r) ->
    Forall (ns_ok (as_owner mem0)) (member_evs evs).
  Proof.
    intros Hfind H.
    destruct (cond_true (os_conds mem0) CArchived) eqn:Harch.
    { rewrite (C06_archived_not_reconciled force _ _ _ _ _ Hfind Harch) in H. injection H as _ <- _. constructor. }
    destruct (os_deleting mem0 || lifecycle_eqb (os_life mem0) LArchived) eqn:Hgo.
    { assert (Hg : is_going mem0).
      { split; [exact Harch|]. apply orb_true_iff in Hgo. destruct Hgo as [Hg|Hg]; [now left|right]. destruct (os_life mem0); try discriminate; reflexivity. }
      pose proof (objectset_pass_going force _ _ _ _ _ _ _ _ Hfind Hg H) as Hd.
      destruct (deletion_pass_inv force _ _ _ _ _ Hd) as (swd & tevs & td & Htd & Hm & _). rewrite Hm.
      unfold teardown_of in Htd. destruct (os_fin mem0); [|injection Htd as _ <- _; constructor].
      destruct (os_orphan mem0); [injection Htd as _ <- _; constructor|]. eapply tpm_members_ns; eauto. }
    apply orb_false_iff in Hgo. destruct Hgo as [Hdel Hl].
    assert (Hact : is_active mem0).
    { split; [exact Harch|]. split; [exact Hdel|]. intros E. rewrite E in Hl. discriminate. }
    destruct (objectset_pass_active2 force _ _ _ _ _ _ _ _ Hfind Hact H) as [Hs|Hr].
    - rewrite (stopped2_members _ _ _ _ Hs). constructor.
    - destruct Hr as (mem1 & sw1 & sw2 & pevs & rem & pr & pre & Hs & _ & _ & _ & _ & _ & _ & Hrp & _ & _ & _ & Hpre & Hal).
      rewrite (after_loop2_members _ _ _ _ _ _ _ _ _ Hpre Hal).
      eapply Forall_impl; [|exact (rpm_members_written force _ _ _ _ _ _ _ _ _ _ _ Hrp)].
      intros e [_ Hn]. unfold ns_ok in *. now rewrite <- (same_spec_owner_id _ _ Hs).
  Qed.

  (** every member request of an active pass names an object of a local phase of the ObjectSet all of whose
      objects pass preflight, and the desired keys are pairwise distinct *)
  Lemma active_members_written sw k ns n mem0 sw' evs r :
    find_set (sw_sets sw) k ns n = Some mem0 -> is_active mem0 ->
    objectset_pass force sw k ns n = (sw', evs, r) ->
    member_evs evs = [] \/
    (desired_keys_nodup mem0 /\ Forall (written_by (as_owner mem0) (os_phases mem0)) (member_evs evs)).
  Proof.
    intros Hfind Hact H.
    destruct (objectset_pass_active2 force _ _ _ _ _ _ _ _ Hfind Hact H) as [Hs|Hr].
    - left. eapply stopped2_members; eauto.
    - right. destruct Hr as (mem1 & sw1 & sw2 & pevs & rem & pr & pre & Hs & _ & _ & _ & _ & _ & Hdup & Hrp & _ & _ & _ & Hpre & Hal).
      split; [eapply desired_keys_nodup_same; [exact Hs|now apply dup_zero_nodup]|].
      rewrite (after_loop2_members _ _ _ _ _ _ _ _ _ Hpre Hal).
      eapply Forall_impl; [|exact (rpm_members_written force _ _ _ _ _ _ _ _ _ _ _ Hrp)].
      intros e [(ph & Hin & Hc & Hk & Hp) _]. pose proof Hs as (_ & Hph & _).
      exists ph. split; [now rewrite <- Hph|]. split; [exact Hc|]. split; [now rewrite <- (phase_keys_same _ _ Hs)|].
      intros p Hpi. rewrite <- (Hp p Hpi). apply preflight_obj_same_id. symmetry. now apply same_spec_owner_id.
  Qed.
End Members.

(** * 8. Deletion / archival: the finalizer is held (C04) *)
Section Held.
  Variable force : bool.

  Lemma teardown_of_sets sw mem sw1 tevs td : teardown_of force sw mem = (sw1, tevs, td) -> sw_sets sw1 = sw_sets sw.
  Proof.
    unfold teardown_of. destruct (os_fin mem); [|intros H; now injection H as <- _ _].
    destruct (os_orphan mem); [intros H; now injection H as <- _ _|]. intros H.
    now destruct (tpm_inv force _ _ _ _ _ _ _ H).
  Qed.

  Lemma update_status_find sw m sw' m' ok st :
    find_set (sw_sets sw) (oi_kind (os_id m)) (oi_ns (os_id m)) (oi_name (os_id m)) = Some st ->
    update_status sw m = (sw', m', ok) ->
    find_set (sw_sets sw') (oi_kind (os_id m)) (oi_ns (os_id m)) (oi_name (os_id m)) = Some st \/
    find_set (sw_sets sw') (oi_kind (os_id m)) (oi_ns (os_id m)) (oi_name (os_id m)) = Some (with_status st m (w_rv (sw_w sw))).
  Proof.
    intros Hf. unfold update_status. rewrite Hf.
    destruct (negb _); [intros H; injection H as <- _ _; now left|].
    destruct (status_eqb st m); intros H; injection H as <- _ _; [now left|right]. cbn [sw_sets].
    destruct (find_set_id _ _ _ _ _ Hf) as (Hk & Hns & Hn).
    pose proof (find_put_set (sw_sets sw) (with_status st m (w_rv (sw_w sw))) st) as Hp. cbn [os_id with_status] in Hp.
    rewrite Hk, Hns, Hn in Hp. now apply Hp.
  Qed.

  (** Either the pass sends the finalizer removal, or the finalizer is still on the stored ObjectSet afterwards
      and every status request of the pass carries Archived=False/ArchivalInProgress. *)
  Lemma deletion_pass_held sw mem sw' evs r :
    find_set (sw_sets sw) (oi_kind (os_id mem)) (oi_ns (os_id mem)) (oi_name (os_id mem)) = Some mem ->
    os_fin mem = true ->
    deletion_pass force sw mem = (sw', evs, r) ->
    (exists ok, In (SMeta (MFinalizer false ok)) evs) \/
    ((exists m', find_set (sw_sets sw') (oi_kind (os_id mem)) (oi_ns (os_id mem)) (oi_name (os_id mem)) = Some m' /\ os_fin m' = true) /\
     (forall rv cs co rm fph ok, In (SMeta (MStatus rv cs co rm fph ok)) evs ->
        find_cond cs CArchived = Some (mk_cond mem CArchived SFalse RArchivalInProgress))).
  Proof.
    intros Hf Hfin. unfold deletion_pass.
    change (if os_fin mem then if os_orphan mem then (sw, [], TdOk true)
            else teardown_phases_m force sw mem (as_owner mem) (rev (os_phases mem))
            else (sw, [], TdOk true)) with (teardown_of force sw mem).
    destruct (teardown_of force sw mem) as [[sw1 tevs] td] eqn:Etd.
    pose proof (teardown_of_sets _ _ _ _ _ Etd) as Hsets.
    pose proof (teardown_of_no_meta force _ _ _ _ _ Etd) as Hnm.
    assert (Hnm' : forall ms, ~ In (SMeta ms) tevs).
    { intros ms Hi. unfold no_meta in Hnm. rewrite Forall_forall in Hnm. exact (Hnm _ Hi). }
    assert (Hf1 : find_set (sw_sets sw1) (oi_kind (os_id mem)) (oi_ns (os_id mem)) (oi_name (os_id mem)) = Some mem) by now rewrite Hsets.
    set (archived := lifecycle_eqb (os_life mem) LArchived).
    destruct td as [|[|]].
    - intros H. injection H as <- <- _. right. split; [exists mem; auto|]. intros rv cs co rm fph ok Hi. exfalso. eapply Hnm'; eauto.
    - rewrite Hfin.
      destruct (patch_finalizer sw1 mem false) as [sw2 [mem2|]] eqn:Ep.
      + destruct (negb archived).
        * intros H. left. injection H as _ <- _. exists true. apply in_or_app. right. now left.
        * destruct (update_status sw2 _) as [[sw3 m3] ok]. intros H. left. injection H as _ <- _. exists true.
          apply in_or_app. left. apply in_or_app. right. now left.
      + intros H. left. injection H as _ <- _. exists false. apply in_or_app. right. now left.
    - destruct (negb archived) eqn:Ea.
      + intros H. right. injection H as <- <- _. split; [exists mem; auto|]. intros rv cs co rm fph ok Hi. exfalso. eapply Hnm'; eauto.
      + apply negb_false_iff in Ea. rewrite Ea.
        set (mem' := set_conds mem (set_cond (os_conds mem) (mk_cond mem CArchived SFalse RArchivalInProgress))).
        destruct (update_status sw1 (set_conds mem' (remove_cond (os_conds mem') CAvailable))) as [[sw3 m3] ok] eqn:Eu.
        intros H. right. injection H as <- <- _. split.
        * assert (Hf1' : find_set (sw_sets sw1) (oi_kind (os_id (set_conds mem' (remove_cond (os_conds mem') CAvailable))))
                           (oi_ns (os_id (set_conds mem' (remove_cond (os_conds mem') CAvailable))))
                           (oi_name (os_id (set_conds mem' (remove_cond (os_conds mem') CAvailable)))) = Some mem) by exact Hf1.
          destruct (update_status_find _ _ _ _ _ _ Hf1' Eu) as [Hx|Hx]; eexists; (split; [exact Hx|exact Hfin]).
        * intros rv cs co rm fph ok' Hi. apply in_app_or in Hi. destruct Hi as [Hi|[Hi|[]]]; [exfalso; eapply Hnm'; eauto|].
          unfold status_ev, status_ev_f in Hi. injection Hi as _ <- _ _ _ _. cbn [os_conds set_conds].
          rewrite find_remove_cond_other by discriminate. subst mem'. cbn [os_conds set_conds].
          apply (find_set_cond_same _ (mk_cond mem CArchived SFalse RArchivalInProgress)).
  Qed.
End Held.

(** * 9. What the phase loop leaves behind (C03 / C06) *)
Section Passed.
  Variable force : bool.
  Local Notation c := (Build_cfg FObjectSet force).

  (** present, passing the probe and - for a paused owner, which only reads its cache - visible to the cache *)
  Definition obj_ok2 (w : world) (ow : owner) (p : pobj) : Prop :=
    exists o, lookup (key_of ow p) (w_store w) = Some o /\ probe_ok (key_of ow p) o = true /\
              (ow_paused ow = true -> o_cache o = true).
  Definition phase_ok2 (w : world) (ow : owner) (ph : phase) : Prop := forall p, In p (ph_objects ph) -> obj_ok2 w ow p.

  Lemma rec_obj_ok_cache w ow prev p w' evs o :
    reconcile_object c idw w ow prev p = (w', evs, ROk o) -> ow_paused ow = true -> o_cache o = true.
  Proof.
    unfold reconcile_object. destruct (set_controller_l _ _ _ []); [|discriminate]. intros H Hp. rewrite Hp in H.
    unfold cache_get in H. destruct (lookup _ (w_store w)) as [x|]; [|discriminate].
    destruct (o_cache x) eqn:Ec; [|discriminate]. injection H as _ _ <-. exact Ec.
  Qed.

  Lemma rec_objs_ok_present2 ow prev ps : forall w acc failed w' evs a,
    reconcile_objects c idw w ow prev ps acc failed = (w', evs, PhOk a []) ->
    NoDup (map (key_of ow) ps) ->
    failed = [] /\ forall p, In p ps -> obj_ok2 w' ow p.
  Proof.
    induction ps as [|p ps IH]; intros w acc failed w' evs a H Hnd; cbn in H.
    - injection H as <- <- <- ->. split; [reflexivity|]. intros p [].
    - inversion Hnd as [|? ? Hnotin Hnd']; subst.
      destruct (reconcile_object c idw w ow prev p) as [[w1 e1] r1] eqn:E1.
      destruct r1 as [o| |e]; [| |discriminate].
      + destruct (reconcile_objects c idw w1 ow prev ps _ _) as [[w2 e2] r2] eqn:E2. injection H as <- <- ->.
        destruct (IH _ _ _ _ _ _ E2 Hnd') as [Hf Hall].
        fold (key_of ow p) in Hf. destruct (probe_ok (key_of ow p) o) eqn:Epr; [|destruct failed; discriminate].
        split; [exact Hf|]. intros p0 [<-|Hin]; [|now apply Hall].
        exists o. split; [|split; [exact Epr|eapply rec_obj_ok_cache; eauto]].
        destruct (rec_objs_frame c ow prev (key_of ow p) ps _ _ _ _ _ _ E2) as [Hfr _].
        * intros p1 Hin1 Heq. apply Hnotin. rewrite <- Heq. now apply in_map.
        * rewrite Hfr. eapply rec_obj_returns_stored; eauto.
      + destruct (reconcile_objects c idw w1 ow prev ps _ _) as [[w2 e2] r2] eqn:E2. injection H as <- <- ->.
        destruct (IH _ _ _ _ _ _ E2 Hnd') as [Hf _]. destruct failed; discriminate.
  Qed.

  (** A phase object whose spec.paused already equals the ObjectSet's paused state is left alone. *)
  Definition desired_paused (s : oset) : bool := lifecycle_eqb (os_life s) LPaused.

  Lemma remote_reconcile_keeps sw s ph rem sw1 e1 rem1 r nm p :
    remote_reconcile sw s ph rem = (sw1, e1, rem1, r) ->
    find_phase (sw_phases sw) (phase_kind s) (oi_ns (os_id s)) nm = Some p -> op_paused p = desired_paused s ->
    find_phase (sw_phases sw1) (phase_kind s) (oi_ns (os_id s)) nm = Some p.
  Proof.
    intros H Hf Hp. destruct (pobj_name s ph =? nm) eqn:En.
    - apply N.eqb_eq in En. subst nm. unfold remote_reconcile in H. unfold pobj_name in Hf.
      cbn [desired_phase op_id oi_kind oi_ns oi_name op_paused] in H. rewrite Hf in H.
      destruct (negb _); [injection H as <- _ _ _; exact Hf|].
      unfold desired_paused in Hp. rewrite Hp, Bool.eqb_reflx in H. injection H as <- _ _ _. exact Hf.
    - destruct (remote_reconcile_inv _ _ _ _ _ _ _ _ H) as (_ & _ & _ & _ & Hfr & _). rewrite Hfr; [exact Hf|].
      rewrite !N.eqb_refl, En. reflexivity.
  Qed.

  Lemma rpm_keeps s ow prev phs : forall sw acc rem sw' evs rem' r nm p,
    reconcile_phases_m force sw s ow prev phs acc rem = (sw', evs, rem', r) ->
    find_phase (sw_phases sw) (phase_kind s) (oi_ns (os_id s)) nm = Some p -> op_paused p = desired_paused s ->
    find_phase (sw_phases sw') (phase_kind s) (oi_ns (os_id s)) nm = Some p.
  Proof.
    induction phs as [|ph rest IH]; intros sw acc rem sw' evs rem' r nm p H Hf Hp.
    - cbn in H. injection H as <- _ _ _. exact Hf.
    - rewrite rpm_cons in H. destruct (ph_class ph).
      + destruct (remote_reconcile sw s ph rem) as [[[sw1 e1] rem1] r1] eqn:E1.
        pose proof (remote_reconcile_keeps _ _ _ _ _ _ _ _ _ _ E1 Hf Hp) as Hf1.
        destruct r1 as [|active failed]; [injection H as <- _ _ _; exact Hf1|].
        destruct failed; [injection H as <- _ _ _; exact Hf1|].
        destruct (reconcile_phases_m force sw1 s ow prev rest (acc ++ active) rem1) as [[[sw2 e2] rem2] r2] eqn:E2.
        injection H as <- _ _ _. eapply IH; eauto.
      + destruct (reconcile_phase c idw (sw_w sw) ow prev false (ph_objects ph)) as [[w1 e1] r1] eqn:E1.
        destruct r1 as [e|vs|actual failed]; try (injection H as <- _ _ _; exact Hf).
        destruct failed as [|f fs]; [|injection H as <- _ _ _; exact Hf].
        cbv zeta in H.
        match type of H with context [reconcile_phases_m force ?a s ow prev rest ?b ?d] =>
          destruct (reconcile_phases_m force a s ow prev rest b d) as [[[sw2 e2] rem2] r2] eqn:E2 end.
        injection H as <- _ _ _. eapply IH; eauto.
  Qed.

  (** a phase the loop got past / the phase the loop stopped at *)
  Definition passed (sw' : sworld) (s : oset) (ow : owner) (q : phase) : Prop :=
    if ph_class q
    then exists cur, phase_obj_of sw' s q = Some cur /\ avail_current cur /\
                     controlled_by_uid (op_owners cur) (oi_uid (os_id s)) = true /\ op_paused cur = desired_paused s
    else phase_ok2 (sw_w sw') ow q.

  Definition fails (sw' : sworld) (s : oset) (ow : owner) (q : phase) : Prop :=
    if ph_class q
    then exists cur active, phase_obj_of sw' s q = Some cur /\ relay cur = RROk active true /\
                            controlled_by_uid (op_owners cur) (oi_uid (os_id s)) = true /\ op_paused cur = desired_paused s
    else exists p, In p (ph_objects q) /\ obj_fails (sw_w sw') ow p.

  Lemma remote_step_ok sw s ph rem sw1 e1 rem1 active failed :
    remote_reconcile sw s ph rem = (sw1, e1, rem1, RROk active failed) ->
    exists cur, phase_obj_of sw1 s ph = Some cur /\ relay cur = RROk active failed /\
                controlled_by_uid (op_owners cur) (oi_uid (os_id s)) = true /\ op_paused cur = desired_paused s.
  Proof.
    intros H. destruct (remote_reconcile_own _ _ _ _ _ _ _ _ H) as (cur & Hc & Hr & _ & Ho & _).
    exists cur. split; [exact Hc|]. split; [exact Hr|]. split; [exact Ho|].
    unfold remote_reconcile, phase_obj_of, pobj_name in *. cbn [desired_phase op_id oi_kind oi_ns oi_name op_paused] in H.
    destruct (find_phase (sw_phases sw) (phase_kind s) (oi_ns (os_id s)) (join_name (oi_name (os_id s)) (ph_name ph))) as [c0|] eqn:Ef; [|discriminate].
    destruct (negb _); [discriminate|].
    destruct (Bool.eqb (op_paused c0) (lifecycle_eqb (os_life s) LPaused)) eqn:Ep.
    - injection H as <- _ _ _. rewrite Ef in Hc. injection Hc as <-. now apply Bool.eqb_prop.
    - injection H as <- _ _ _. cbn [sw_phases with_phases] in Hc.
      destruct (find_phase_key _ _ _ _ _ Ef) as (Hk & Hns & Hn).
      set (cur' := phase_with c0 _ _ _ _ _ _) in *.
      pose proof (find_put_phase_same (sw_phases sw) cur') as Hx. change (op_id cur') with (op_id c0) in Hx.
      rewrite Hk, Hns, Hn in Hx. rewrite Hx in Hc. injection Hc as <-. reflexivity.
  Qed.

  Lemma obj_ok2_frame w w' ow p : lookup (key_of ow p) (w_store w') = lookup (key_of ow p) (w_store w) -> obj_ok2 w ow p -> obj_ok2 w' ow p.
  Proof. intros Hl (o & Ho & rest). exists o. split; [congruence|exact rest]. Qed.

  (** the pass obtained the phase object under this name from the server *)
  Definition read_in (evs : list sev) (nm : N) : Prop :=
    (exists r, In (SPhase (PGet nm r)) evs) \/ (exists pa p, In (SPhase (PPause nm pa (Some p))) evs).

  Lemma read_in_app_l a b nm : read_in a nm -> read_in (a ++ b) nm.
  Proof. intros [(r & H)|(pa & p & H)]; [left; exists r|right; exists pa, p]; apply in_or_app; now left. Qed.
  Lemma read_in_app_r a b nm : read_in b nm -> read_in (a ++ b) nm.
  Proof. intros [(r & H)|(pa & p & H)]; [left; exists r|right; exists pa, p]; apply in_or_app; now right. Qed.

  Lemma rpm_passed s ow prev phs : forall sw acc rem sw' evs rem' ctrlof failed,
    reconcile_phases_m force sw s ow prev phs acc rem = (sw', evs, rem', MOk ctrlof failed) ->
    NoDup (local_keys ow phs) ->
    exists pre post, phs = pre ++ post /\ (forall q, In q pre -> passed sw' s ow q) /\
      match failed with
      | None => post = []
      | Some n => exists ph post', post = ph :: post' /\ ph_name ph = n /\ fails sw' s ow ph
      end /\
      Forall (fun e => In (ev_key e) (local_keys ow (pre ++ firstn 1 post))) (member_evs evs) /\
      (forall q, In q (pre ++ firstn 1 post) -> ph_class q = true -> read_in evs (pobj_name s q)).
  Proof.
    induction phs as [|ph rest IH]; intros sw acc rem sw' evs rem' ctrlof failed H Hnd.
    - cbn in H. injection H as <- <- _ _ <-. exists [], []. split; [reflexivity|]. split; [intros q []|]. split; [reflexivity|].
      split; [constructor|intros q []].
    - rewrite rpm_cons in H. destruct (ph_class ph) eqn:Ecl.
      + rewrite (local_keys_cons_remote _ _ _ Ecl) in Hnd.
        destruct (remote_reconcile sw s ph rem) as [[[sw1 e1] rem1] r1] eqn:E1.
        destruct (remote_reconcile_inv _ _ _ _ _ _ _ _ E1) as (_ & _ & _ & Hev & _ & Hres).
        pose proof (only_phase_members _ _ Hev) as Hm1.
        destruct r1 as [|active fl]; [discriminate|].
        destruct (remote_step_ok _ _ _ _ _ _ _ _ _ E1) as (cur & Hc & Hr & Ho & Hp).
        assert (Hread : read_in e1 (pobj_name s ph)).
        { destruct Hres as (c0 & _ & _ & [Hg|(pa & Hg)]); [left; eauto|right; eauto]. }
        destruct fl.
        * injection H as <- <- _ _ <-. exists [], (ph :: rest). split; [reflexivity|]. split; [intros q []|]. split; [|split].
          -- exists ph, rest. split; [reflexivity|]. split; [reflexivity|]. unfold fails. rewrite Ecl. exists cur, active. auto.
          -- rewrite Hm1. constructor.
          -- intros q [<-|[]] _. exact Hread.
        * destruct (reconcile_phases_m force sw1 s ow prev rest (acc ++ active) rem1) as [[[sw2 e2] rem2] r2] eqn:E2.
          injection H as <- <- _ ->.
          destruct (IH _ _ _ _ _ _ _ _ E2 Hnd) as (pre & post & -> & Hpre & Hfail & Hmem & Hrd).
          exists (ph :: pre), post. split; [reflexivity|]. split; [|split; [exact Hfail|split]].
          -- intros q [<-|Hq]; [|now apply Hpre]. unfold passed. rewrite Ecl. exists cur.
             split; [|split; [now destruct (relay_ok _ _ Hr)|split; [exact Ho|exact Hp]]].
             unfold phase_obj_of in *. eapply rpm_keeps; eauto.
          -- rewrite member_evs_app, Hm1. cbn [app]. now rewrite (local_keys_cons_remote _ _ _ Ecl).
          -- intros q [<-|Hq] Hcq; [now apply read_in_app_l|apply read_in_app_r; now apply Hrd].
      + rewrite (local_keys_cons_local _ _ _ Ecl) in Hnd.
        pose proof (NoDup_app_r _ _ Hnd) as Hnd_rest. pose proof (NoDup_app_l _ _ Hnd) as Hnd0.
        destruct (reconcile_phase c idw (sw_w sw) ow prev false (ph_objects ph)) as [[w1 e1] r1] eqn:E1.
        pose proof (rec_phase_events_in force _ _ _ _ _ _ _ _ E1) as Hin1.
        destruct r1 as [e|vs|actual fl]; [discriminate|discriminate|].
        pose proof E1 as E1'. unfold reconcile_phase in E1'. destruct (flat_map _ (ph_objects ph)); [|discriminate].
        destruct fl as [|f fs].
        * cbv zeta in H.
          match type of H with context [reconcile_phases_m force ?a s ow prev rest ?b ?d] =>
            destruct (reconcile_phases_m force a s ow prev rest b d) as [[[sw2 e2] rem2] r2] eqn:E2 end.
          injection H as <- <- _ ->.
          destruct (IH _ _ _ _ _ _ _ _ E2 Hnd_rest) as (pre & post & -> & Hpre & Hfail & Hmem & Hrd).
          exists (ph :: pre), post. split; [reflexivity|]. split; [|split; [exact Hfail|split]].
          -- intros q [<-|Hq]; [|now apply Hpre]. unfold passed. rewrite Ecl.
             destruct (rec_objs_ok_present2 ow prev _ _ _ _ _ _ _ E1' Hnd0) as [_ Hall].
             intros p Hp. eapply obj_ok2_frame; [|exact (Hall p Hp)].
             destruct (rpm_inv force _ _ _ _ _ _ _ _ _ _ _ E2) as (_ & _ & _ & _ & Hfr & _).
             rewrite Hfr; [reflexivity|]. eapply NoDup_app_disj; [exact Hnd|]. unfold phase_keys. now apply in_map.
          -- rewrite member_evs_app, member_evs_members. cbn [app]. rewrite (local_keys_cons_local _ _ _ Ecl).
             apply Forall_app. split.
             ++ eapply Forall_impl; [|exact Hin1]. cbn. intros x Hx. apply in_or_app. now left.
             ++ eapply Forall_impl; [|exact Hmem]. cbn. intros x Hx. apply in_or_app. now right.
          -- intros q [<-|Hq] Hcq; [congruence|apply read_in_app_r; now apply Hrd].
        * injection H as <- <- _ _ <-. exists [], (ph :: rest). split; [reflexivity|]. split; [intros q []|]. split; [|split].
          -- exists ph, rest. split; [reflexivity|]. split; [reflexivity|]. unfold fails. rewrite Ecl.
             destruct (rec_objs_failed_witness force ow prev _ _ _ _ _ _ _ _ E1' Hnd0) as (extra & Hf & Hex). cbn in Hf. subst extra.
             apply Hex. discriminate.
          -- rewrite member_evs_members. cbn [app firstn]. rewrite (local_keys_cons_local _ _ _ Ecl).
             eapply Forall_impl; [|exact Hin1]. cbn. intros x Hx. apply in_or_app. now left.
          -- intros q [<-|[]] Hcq. congruence.
  Qed.
End Passed.

(** * 10. controllerOf, in terms of the phase objects the pass leaves / found (C06) *)
Section CtrlOf.
  Variable force : bool.
  Local Notation c := (Build_cfg FObjectSet force).

  Definition reported_final (sw' : sworld) (s : oset) (phs : list phase) (evs : list sev) (k : okey) : Prop :=
    exists q cur, In q phs /\ ph_class q = true /\ phase_obj_of sw' s q = Some cur /\
                  controlled_by_uid (op_owners cur) (oi_uid (os_id s)) = true /\ In k (op_ctrlof cur) /\
                  read_in evs (pobj_name s q).

  Lemma rpm_ctrlof_state s ow prev phs : forall sw acc rem sw' evs rem' ctrlof fph,
    reconcile_phases_m force sw s ow prev phs acc rem = (sw', evs, rem', MOk ctrlof fph) ->
    NoDup (local_keys ow phs) ->
    exists new, ctrlof = acc ++ new /\
      Forall (fun k => (In k (local_keys ow phs) /\ seen_controlled (sw_w sw') ow k) \/ reported_final sw' s phs evs k) new.
  Proof.
    induction phs as [|ph rest IH]; intros sw acc rem sw' evs rem' ctrlof fph H Hnd.
    - cbn in H. injection H as <- _ _ <- _. exists []. split; [now rewrite app_nil_r|constructor].
    - rewrite rpm_cons in H. destruct (ph_class ph) eqn:Ecl.
      + rewrite (local_keys_cons_remote _ _ _ Ecl) in *.
        destruct (remote_reconcile sw s ph rem) as [[[sw1 e1] rem1] r1] eqn:E1.
        destruct (remote_reconcile_inv _ _ _ _ _ _ _ _ E1) as (_ & _ & _ & _ & _ & Hres).
        destruct r1 as [|active failed]; [discriminate|].
        destruct (remote_step_ok _ _ _ _ _ _ _ _ _ E1) as (cur & Hcur & Hrel & Hown & Hsync).
        pose proof (relay_active _ _ _ Hrel) as ->.
        assert (Hread : read_in e1 (pobj_name s ph)).
        { destruct Hres as (c0 & _ & _ & [Hg|(pa & Hg)]); [left; eauto|right; eauto]. }
        assert (Hact : forall swf evsf, phase_obj_of swf s ph = Some cur -> read_in evsf (pobj_name s ph) ->
                  Forall (fun k => (In k (local_keys ow rest) /\ seen_controlled (sw_w swf) ow k) \/ reported_final swf s (ph :: rest) evsf k) (op_ctrlof cur)).
        { intros swf evsf Hf Hr. apply Forall_forall. intros k Hk. right. exists ph, cur. split; [now left|]. auto. }
        destruct failed.
        * injection H as <- <- _ <- _. exists (op_ctrlof cur). split; [reflexivity|]. now apply Hact.
        * destruct (reconcile_phases_m force sw1 s ow prev rest (acc ++ op_ctrlof cur) rem1) as [[[sw2 e2] rem2] r2] eqn:E2.
          injection H as <- <- _ ->.
          destruct (IH _ _ _ _ _ _ _ _ E2 Hnd) as (new & -> & Hnew).
          exists (op_ctrlof cur ++ new). split; [now rewrite app_assoc|]. apply Forall_app. split.
          -- apply Hact; [|now apply read_in_app_l]. unfold phase_obj_of in *. eapply rpm_keeps; eauto.
          -- eapply Forall_impl; [|exact Hnew]. intros k [Hl|(q & cu & Hq & Hc & Hf & Ho & Hk & Hr)]; [now left|right].
             exists q, cu. split; [now right|]. split; [exact Hc|]. split; [exact Hf|]. split; [exact Ho|]. split; [exact Hk|now apply read_in_app_r].
      + rewrite (local_keys_cons_local _ _ _ Ecl) in *.
        pose proof (NoDup_app_r _ _ Hnd) as Hnd_rest. pose proof (NoDup_app_l _ _ Hnd) as Hnd0.
        destruct (reconcile_phase c idw (sw_w sw) ow prev false (ph_objects ph)) as [[w1 e1] r1] eqn:E1.
        destruct r1 as [e|vs|actual failed]; [discriminate|discriminate|].
        pose proof E1 as E1'. unfold reconcile_phase in E1'. destruct (flat_map _ (ph_objects ph)); [|discriminate].
        destruct (rec_objs_actual force ow prev _ _ _ _ _ _ _ _ E1' Hnd0) as (newa & Ha & Hall & _). cbn in Ha. subst actual.
        set (mine := map fst (filter (fun ko => is_controller Native (ow_id ow) (snd ko)) newa)) in *.
        assert (Hmine : forall swf evsf, (forall k, In k (phase_keys ow ph) -> lookup k (w_store (sw_w swf)) = lookup k (w_store w1)) ->
                  Forall (fun k => (In k (phase_keys ow ph ++ local_keys ow rest) /\ seen_controlled (sw_w swf) ow k) \/ reported_final swf s (ph :: rest) evsf k) mine).
        { intros swf evsf Hfr. subst mine. apply Forall_forall. intros k Hk. apply in_map_iff in Hk. destruct Hk as ([k0 o] & <- & Hin).
          apply filter_In in Hin. destruct Hin as [Hin Hc]. rewrite Forall_forall in Hall. destruct (Hall _ Hin) as [Hkin Hl]. cbn in *.
          left. split; [apply in_or_app; now left|]. exists o. split; [|assumption]. rewrite Hfr; assumption. }
        destruct failed as [|f fs].
        * cbv zeta in H.
          match type of H with context [reconcile_phases_m force ?a s ow prev ?l ?b ?d] =>
            destruct (reconcile_phases_m force a s ow prev l b d) as [[[sw2 e2] rem2] r2] eqn:E2 end.
          injection H as <- <- _ ->.
          destruct (IH _ _ _ _ _ _ _ _ E2 Hnd_rest) as (new & -> & Hnew).
          exists (mine ++ new). split; [now rewrite app_assoc|]. apply Forall_app. split.
          -- apply Hmine. intros k Hk. destruct (rpm_inv force _ _ _ _ _ _ _ _ _ _ _ E2) as (_ & _ & _ & _ & Hfr & _).
             rewrite Hfr; [reflexivity|]. eapply NoDup_app_disj; eauto.
          -- eapply Forall_impl; [|exact Hnew]. intros k [[Hin Hs]|(q & cu & Hq & Hc & Hf & Ho & Hk & Hr)]; [left; split; [apply in_or_app; now right|assumption]|right].
             exists q, cu. split; [now right|]. split; [exact Hc|]. split; [exact Hf|]. split; [exact Ho|]. split; [exact Hk|now apply read_in_app_r].
        * injection H as <- <- _ <- _. exists mine. split; [reflexivity|]. apply Hmine. reflexivity.
  Qed.

  (** a phase object the loop leaves was there before with the same status.controllerOf, or was created (empty) *)
  Lemma remote_reconcile_back sw s ph rem sw1 e1 rem1 r kind ns nm p' :
    remote_reconcile sw s ph rem = (sw1, e1, rem1, r) ->
    find_phase (sw_phases sw1) kind ns nm = Some p' ->
    op_ctrlof p' = [] \/ exists p, find_phase (sw_phases sw) kind ns nm = Some p /\ op_ctrlof p = op_ctrlof p'.
  Proof.
    intros H Hf.
    destruct ((phase_kind s =? kind) && (oi_ns (os_id s) =? ns) && (pobj_name s ph =? nm)) eqn:E.
    2:{ destruct (remote_reconcile_inv _ _ _ _ _ _ _ _ H) as (_ & _ & _ & _ & Hfr & _). rewrite (Hfr _ _ _ E) in Hf. right. eauto. }
    apply andb_true_iff in E. destruct E as [E E3]. apply andb_true_iff in E. destruct E as [E1 E2].
    apply N.eqb_eq in E1, E2, E3. subst kind ns nm.
    unfold remote_reconcile, pobj_name in *. cbn [desired_phase op_id oi_kind oi_ns oi_name op_paused] in H.
    set (name := join_name (oi_name (os_id s)) (ph_name ph)) in *.
    destruct (find_phase (sw_phases sw) (phase_kind s) (oi_ns (os_id s)) name) as [cur|] eqn:Ef.
    - destruct (find_phase_key _ _ _ _ _ Ef) as (Hk & Hns & Hn).
      destruct (negb _); [injection H as <- _ _ _; right; rewrite Hf in Ef; injection Ef as <-; eauto|].
      destruct (Bool.eqb _ _); [injection H as <- _ _ _; right; rewrite Hf in Ef; injection Ef as <-; eauto|].
      injection H as <- _ _ _. cbn [sw_phases with_phases] in Hf.
      set (cur' := phase_with cur _ _ _ _ _ _) in *.
      pose proof (find_put_phase_same (sw_phases sw) cur') as Hx. change (op_id cur') with (op_id cur) in Hx.
      rewrite Hk, Hns, Hn, Hf in Hx. injection Hx as ->. right. exists cur. auto.
    - injection H as <- _ _ _. cbn [sw_phases with_phases] in Hf. left.
      match type of Hf with find_phase (put_phase _ ?st) _ _ _ = _ => pose proof (find_put_phase_same (sw_phases sw) st) as Hx end.
      cbn [op_id stamp_phase desired_phase oi_kind oi_ns oi_name] in Hx. fold name in Hx. rewrite Hf in Hx. injection Hx as ->. reflexivity.
  Qed.

  Lemma rpm_back s ow prev phs : forall sw acc rem sw' evs rem' r kind ns nm p',
    reconcile_phases_m force sw s ow prev phs acc rem = (sw', evs, rem', r) ->
    find_phase (sw_phases sw') kind ns nm = Some p' ->
    op_ctrlof p' = [] \/ exists p, find_phase (sw_phases sw) kind ns nm = Some p /\ op_ctrlof p = op_ctrlof p'.
  Proof.
    induction phs as [|ph rest IH]; intros sw acc rem sw' evs rem' r kind ns nm p' H Hf.
    - cbn in H. injection H as <- _ _ _. right. eauto.
    - rewrite rpm_cons in H. destruct (ph_class ph).
      + destruct (remote_reconcile sw s ph rem) as [[[sw1 e1] rem1] r1] eqn:E1.
        assert (Hstep : forall q', find_phase (sw_phases sw1) kind ns nm = Some q' ->
                  op_ctrlof q' = [] \/ exists p, find_phase (sw_phases sw) kind ns nm = Some p /\ op_ctrlof p = op_ctrlof q')
          by (intros q' Hq'; eapply remote_reconcile_back; eauto).
        destruct r1 as [|active failed]; [injection H as <- _ _ _; now apply Hstep|].
        destruct failed; [injection H as <- _ _ _; now apply Hstep|].
        destruct (reconcile_phases_m force sw1 s ow prev rest (acc ++ active) rem1) as [[[sw2 e2] rem2] r2] eqn:E2.
        injection H as <- _ _ _. destruct (IH _ _ _ _ _ _ _ _ _ _ _ E2 Hf) as [Hn|(p1 & Hp1 & Hc1)]; [now left|].
        destruct (Hstep _ Hp1) as [Hn|(p & Hp & Hc)]; [left; congruence|right; exists p; split; [exact Hp|congruence]].
      + destruct (reconcile_phase c idw (sw_w sw) ow prev false (ph_objects ph)) as [[w1 e1] r1] eqn:E1.
        destruct r1 as [e|vs|actual failed]; try (injection H as <- _ _ _; right; eauto).
        destruct failed as [|f fs]; [|injection H as <- _ _ _; right; eauto].
        cbv zeta in H.
        match type of H with context [reconcile_phases_m force ?a s ow prev rest ?b ?d] =>
          destruct (reconcile_phases_m force a s ow prev rest b d) as [[[sw2 e2] rem2] r2] eqn:E2 end.
        injection H as <- _ _ _. exact (IH _ _ _ _ _ _ _ _ _ _ _ E2 Hf).
  Qed.

  Lemma final_status_in_transition_eq phs m ctrlof failed :
    find_cond (os_conds (final_status phs m ctrlof failed)) CInTransition =
    if in_transition (set_ctrlof m ctrlof) ctrlof
    then Some (mk_cond (set_ctrlof m ctrlof) CInTransition STrue RInTransition) else None.
  Proof.
    unfold final_status. cbn [os_conds set_conds]. rewrite paused_cond_other by discriminate. cbn [os_conds set_conds].
    set (m1 := set_ctrlof m ctrlof).
    assert (Hbase : find_cond (if in_transition m1 ctrlof then set_cond (os_conds m1) (mk_cond m1 CInTransition STrue RInTransition)
                               else remove_cond (os_conds m1) CInTransition) CInTransition =
                    if in_transition m1 ctrlof then Some (mk_cond m1 CInTransition STrue RInTransition) else None).
    { destruct (in_transition m1 ctrlof); [apply (find_set_cond_same _ (mk_cond m1 CInTransition STrue RInTransition))|apply find_remove_cond_same]. }
    destruct failed.
    - rewrite find_set_cond_other by (cbn; discriminate). exact Hbase.
    - match goal with |- context [if negb ?a && ?b then _ else _] => destruct (negb a && b) end.
      + rewrite !find_set_cond_other by (cbn; discriminate). exact Hbase.
      + rewrite find_set_cond_other by (cbn; discriminate). exact Hbase.
  Qed.
End CtrlOf.

(** * 11. Succeeded is never withdrawn from the copy the controller reads (C06), no uniqueness assumed *)
Section Succeeded2.
  Variable force : bool.
  Variables k ns n : N.

  Definition keyed (m : oset) : Prop := oi_kind (os_id m) = k /\ oi_ns (os_id m) = ns /\ oi_name (os_id m) = n.
  Definition succb (m : oset) : Prop := cond_true (os_conds m) CSucceeded = true.
  (** the copy a Get returns has Succeeded=True *)
  Definition okw2 (sw : sworld) : Prop := forall st, find_set (sw_sets sw) k ns n = Some st -> succb st.
  Definition okm2 (m : oset) : Prop := keyed m /\ succb m.

  Lemma find_del_set_same sets id : find_set (del_set sets id) (oi_kind id) (oi_ns id) (oi_name id) = None.
  Proof.
    unfold find_set, del_set. induction sets as [|x xs IH]; cbn; [reflexivity|].
    unfold oid_eqb. destruct ((oi_kind (os_id x) =? oi_kind id) && (oi_ns (os_id x) =? oi_ns id) && (oi_name (os_id x) =? oi_name id)) eqn:E; cbn; [exact IH|].
    now rewrite E.
  Qed.

  Lemma okm2_conds m m' : okm2 m -> os_id m' = os_id m ->
    find_cond (os_conds m') CSucceeded = find_cond (os_conds m) CSucceeded -> okm2 m'.
  Proof. intros [Hk Hs] Hid Hc. split; [unfold keyed; now rewrite Hid|]. unfold succb, cond_true in *. now rewrite Hc. Qed.

  Lemma update_status_ok2 sw m sw' m' ok :
    okw2 sw -> okm2 m -> update_status sw m = (sw', m', ok) -> okw2 sw' /\ okm2 m'.
  Proof.
    intros Hw Hm. unfold update_status. destruct Hm as [(Hk1 & Hk2 & Hk3) Hs]. rewrite Hk1, Hk2, Hk3.
    destruct (find_set (sw_sets sw) k ns n) as [st|] eqn:Ef; [|intros H; injection H as <- <- _; repeat split; auto].
    destruct (negb _); [intros H; injection H as <- <- _; repeat split; auto|].
    destruct (status_eqb st m); intros H; injection H as <- <- _; [repeat split; auto|].
    destruct (find_set_id _ _ _ _ _ Ef) as (Hi1 & Hi2 & Hi3).
    assert (Hnew : okm2 (with_status st m (w_rv (sw_w sw)))) by (split; [exact (conj Hi1 (conj Hi2 Hi3))|exact Hs]).
    split; [|exact Hnew]. intros st0 Hf0. cbn [sw_sets] in Hf0.
    pose proof (find_put_set (sw_sets sw) (with_status st m (w_rv (sw_w sw))) st) as Hp. cbn [os_id with_status] in Hp.
    rewrite Hi1, Hi2, Hi3 in Hp. rewrite (Hp Ef) in Hf0. injection Hf0 as <-. exact Hs.
  Qed.

  Lemma patch_finalizer_ok2 sw m fin sw' r :
    okw2 sw -> okm2 m -> patch_finalizer sw m fin = (sw', r) ->
    okw2 sw' /\ match r with Some m' => okm2 m' | None => True end.
  Proof.
    intros Hw Hm. unfold patch_finalizer. destruct Hm as [(Hk1 & Hk2 & Hk3) Hs]. rewrite Hk1, Hk2, Hk3.
    destruct (find_set (sw_sets sw) k ns n) as [st|] eqn:Ef; [|intros H; injection H as <- <-; auto].
    destruct (negb (os_rv st =? os_rv m)); [intros H; injection H as <- <-; auto|].
    destruct (find_set_id _ _ _ _ _ Ef) as (Hi1 & Hi2 & Hi3).
    assert (Hnew : okm2 (set_fin st fin (w_rv (sw_w sw)))) by (split; [exact (conj Hi1 (conj Hi2 Hi3))|exact (Hw _ Ef)]).
    destruct (negb fin && os_deleting st && negb (os_orphan st)); intros H; injection H as <- <-; (split; [|exact Hnew]).
    - intros st0 Hf0. cbn [sw_sets] in Hf0. pose proof (find_del_set_same (sw_sets sw) (os_id st)) as Hd.
      rewrite Hi1, Hi2, Hi3 in Hd. rewrite Hd in Hf0. discriminate.
    - intros st0 Hf0. cbn [sw_sets] in Hf0.
      pose proof (find_put_set (sw_sets sw) (set_fin st fin (w_rv (sw_w sw))) st) as Hp. cbn [os_id set_fin] in Hp.
      rewrite Hi1, Hi2, Hi3 in Hp. rewrite (Hp Ef) in Hf0. injection Hf0 as <-. exact (Hw _ Ef).
  Qed.

  Lemma revision_pass_ok2 sw mem sw1 evs1 mem1 rr :
    okw2 sw -> okm2 mem -> revision_pass sw mem = (sw1, evs1, mem1, rr) -> okw2 sw1 /\ okm2 mem1.
  Proof.
    intros Hw Hm. unfold revision_pass.
    destruct (negb (Z.eqb (os_revision mem) 0)); [intros H; injection H as <- _ <- _; auto|].
    destruct (os_prev mem); [intros H; injection H as <- _ <- _; split; [auto|eapply okm2_conds; [exact Hm|reflexivity|reflexivity]]|].
    destruct (scan_prev _ _ _ _) as [[latest|]|].
    - destruct (update_status sw (set_revision mem (latest + 1))) as [[sw2 m2] ok] eqn:Eu.
      intros H; injection H as <- _ <- _. eapply update_status_ok2; [exact Hw| |exact Eu]. eapply okm2_conds; [exact Hm|reflexivity|reflexivity].
    - intros H; injection H as <- _ <- _; auto.
    - intros H; injection H as <- _ <- _; auto.
  Qed.

  Lemma okw2_sets sw sw' : sw_sets sw' = sw_sets sw -> okw2 sw -> okw2 sw'.
  Proof. unfold okw2. now intros ->. Qed.

  Lemma active_body_ok2 sw evs0 mem sw' evs r :
    okw2 sw -> okm2 mem -> active_body force sw evs0 mem = (sw', evs, r) -> okw2 sw'.
  Proof.
    intros Hw Hm. unfold active_body.
    destruct (revision_pass sw mem) as [[[sw1 evs1] mem1] rr] eqn:Erev.
    destruct (revision_pass_ok2 _ _ _ _ _ _ Hw Hm Erev) as [Hw1 Hm1].
    assert (Hfail : forall (mx : oset) sw2 evsx rs swf evsf rf, okw2 sw2 -> okm2 mx ->
              (let m' := set_conds mx (set_cond (os_conds mx) (mk_cond mx CAvailable SFalse rs)) in
               let '(sw'', _, ok) := update_status sw2 m' in
               (sw'', evsx ++ [status_ev m' ok], if ok then SDone true else SError)) = (swf, evsf, rf) -> okw2 swf).
    { intros mx sw2 evsx rs swf evsf rf Hw2 Hmx. cbv zeta. destruct (update_status sw2 _) as [[sw3 m3] ok] eqn:Eu.
      intros H. injection H as <- _ _. eapply update_status_ok2; [exact Hw2| |exact Eu].
      eapply okm2_conds; [exact Hmx|reflexivity|]. cbn [os_conds set_conds]. apply find_set_cond_other. cbn. discriminate. }
    destruct rr.
    - destruct (Nat.ltb 0 (dup_count [] (map (spec_key mem1) (all_objects mem1)))); [intros H; eapply Hfail; eauto|].
      destruct (reconcile_phases_m force sw1 mem1 (as_owner mem1) _ _ [] (os_remotes mem1)) as [[[sw2 pevs] rem] pr] eqn:Erp.
      destruct (rpm_inv force _ _ _ _ _ _ _ _ _ _ _ Erp) as (Hsets & _).
      pose proof (okw2_sets _ _ Hsets Hw1) as Hw2.
      assert (Hm2 : okm2 (set_remotes mem1 rem)) by (eapply okm2_conds; [exact Hm1|reflexivity|reflexivity]).
      destruct pr as [e| | |ctrlof failed].
      + destruct e; try (intros H; eapply Hfail; [exact Hw2|exact Hm2|exact H]); intros H; injection H as <- _ _; exact Hw2.
      + intros H. injection H as <- _ _. exact Hw2.
      + intros H; eapply Hfail; [exact Hw2|exact Hm2|exact H].
      + destruct (update_status sw2 (final_status (sw_phases sw2) (set_remotes mem1 rem) ctrlof failed)) as [[sw3 m3] ok] eqn:Eu.
        intros H. injection H as <- _ _. eapply update_status_ok2; [exact Hw2| |exact Eu].
        destruct Hm2 as [Hk Hs]. split; [exact Hk|]. now apply final_status_succeeded.
    - destruct (update_status sw1 _) as [[sw2 m2] ok] eqn:Eu. intros H. injection H as <- _ _.
      eapply update_status_ok2; [exact Hw1| |exact Eu].
      eapply okm2_conds; [exact Hm1|reflexivity|]. cbn [os_conds set_conds]. apply paused_cond_other. discriminate.
    - intros H. injection H as <- _ _. exact Hw1.
  Qed.

  Lemma deletion_pass_ok2 sw mem sw' evs r :
    okw2 sw -> okm2 mem -> deletion_pass force sw mem = (sw', evs, r) -> okw2 sw'.
  Proof.
    intros Hw Hm. unfold deletion_pass.
    set (archived := lifecycle_eqb (os_life mem) LArchived).
    change (if os_fin mem then if os_orphan mem then (sw, [], TdOk true)
            else teardown_phases_m force sw mem (as_owner mem) (rev (os_phases mem))
            else (sw, [], TdOk true)) with (teardown_of force sw mem).
    destruct (teardown_of force sw mem) as [[sw1 tevs] td] eqn:Etd.
    assert (Hw1 : okw2 sw1) by (eapply okw2_sets; [eapply teardown_of_sets; eauto|exact Hw]).
    assert (Hfinish : forall swx evs1 mem1 swf evsf rf,
       (if negb archived then (swx, evs1, SDone false)
        else let '(sw'', _, ok) := update_status swx (set_conds mem1 (remove_cond (os_conds mem1) CAvailable)) in
             (sw'', evs1 ++ [status_ev (set_conds mem1 (remove_cond (os_conds mem1) CAvailable)) ok], if ok then SDone false else SError)) = (swf, evsf, rf) ->
       okw2 swx -> okm2 mem1 -> okw2 swf).
    { intros swx evs1 mem1 swf evsf rf. destruct (negb archived); [intros H Hwx Hm1; injection H as <- _ _; exact Hwx|].
      destruct (update_status swx _) as [[sw2 m2] ok] eqn:Eu. intros H Hwx Hm1. injection H as <- _ _.
      eapply update_status_ok2; [exact Hwx| |exact Eu].
      eapply okm2_conds; [exact Hm1|reflexivity|]. cbn [os_conds set_conds]. apply find_remove_cond_other. discriminate. }
    assert (Harch_ok : forall m0, okm2 m0 -> okm2 (if archived then set_ctrlof (set_conds m0 (set_cond (os_conds m0) (mk_cond m0 CArchived STrue RArchived))) [] else m0)).
    { intros m0 H0. destruct archived; [|exact H0]. eapply okm2_conds; [exact H0|reflexivity|].
      cbn [os_conds set_conds set_ctrlof]. apply find_set_cond_other. cbn. discriminate. }
    destruct td as [|[|]].
    - intros H. injection H as <- _ _. exact Hw1.
    - destruct (os_fin mem).
      + destruct (patch_finalizer sw1 mem false) as [sw2 [mem2|]] eqn:Ep;
          destruct (patch_finalizer_ok2 _ _ _ _ _ Hw1 Hm Ep) as [Hw2 Hm2].
        * intros H. eapply Hfinish; [exact H|exact Hw2|]. now apply Harch_ok.
        * intros H. injection H as <- _ _. exact Hw2.
      + intros H. eapply Hfinish; [exact H|exact Hw1|]. now apply Harch_ok.
    - intros H. eapply Hfinish; [exact H|exact Hw1|].
      destruct archived; [|exact Hm]. eapply okm2_conds; [exact Hm|reflexivity|].
      cbn [os_conds set_conds]. apply find_set_cond_other. cbn. discriminate.
  Qed.

  Theorem pass_keeps_succeeded sw m sw' evs r :
    find_set (sw_sets sw) k ns n = Some m -> succb m ->
    objectset_pass force sw k ns n = (sw', evs, r) -> okw2 sw'.
  Proof.
    intros Ef Hs H.
    assert (Hw0 : okw2 sw) by (intros st Hst; rewrite Ef in Hst; now injection Hst as <-).
    assert (Hm : okm2 m) by (split; [exact (find_set_id _ _ _ _ _ Ef)|exact Hs]).
    unfold objectset_pass in H. rewrite Ef in H.
    destruct (cond_true (os_conds m) CArchived); [now injection H as <- _ _|].
    destruct (os_deleting m || lifecycle_eqb (os_life m) LArchived).
    - eapply deletion_pass_ok2; eauto.
    - unfold active_pass in H. destruct (os_fin m); [eapply active_body_ok2; eauto|].
      destruct (patch_finalizer sw m true) as [sw1 [m1|]] eqn:Ep;
        destruct (patch_finalizer_ok2 _ _ _ _ _ Hw0 Hm Ep) as [Hw1 Hm1].
      + eapply active_body_ok2; eauto.
      + now injection H as <- _ _.
  Qed.
End Succeeded2.

(** * 12. Phase objects the loop touched carry the ObjectSet's paused state (C09, delegated) *)
Section Touched.
  Variable force : bool.
  Local Notation c := (Build_cfg FObjectSet force).

  Definition pev_name (p : pev) : N :=
    match p with PGet n _ | PCreate n _ | PPause n _ _ | PDelete n _ | PStrip n _ | PFinalizer n _ _ | PStatus n _ _ _ => n end.
  (** no request of the list names the phase object [nm] *)
  Definition untouched (evs : list sev) (nm : N) : Prop :=
    Forall (fun e => match e with SPhase p => pev_name p <> nm | _ => True end) evs.

  Lemma only_phase_untouched n evs nm : only_phase_evs n evs -> n <> nm -> untouched evs nm.
  Proof.
    intros H Hne. eapply Forall_impl; [|exact H]. intros e He. destruct e as [x|ms|p]; [exact I|exact I|].
    destruct p; cbn in *; try contradiction; congruence.
  Qed.

  Lemma members_untouched (l : list ev) nm : untouched (map SMember l) nm.
  Proof. apply Forall_forall. intros e He. apply in_map_iff in He. destruct He as (x & <- & _). exact I. Qed.

  Lemma untouched_app a b nm : untouched a nm -> untouched b nm -> untouched (a ++ b) nm.
  Proof. intros Ha Hb. apply Forall_app. auto. Qed.

  Definition synced_or_foreign (s : oset) (p : osphase) : Prop :=
    op_paused p = desired_paused s \/ controlled_by_uid (op_owners p) (oi_uid (os_id s)) = false.

  Lemma remote_step_synced sw s ph rem sw1 e1 rem1 r :
    remote_reconcile sw s ph rem = (sw1, e1, rem1, r) ->
    exists p, phase_obj_of sw1 s ph = Some p /\ synced_or_foreign s p.
  Proof.
    unfold remote_reconcile, phase_obj_of, pobj_name, synced_or_foreign, desired_paused.
    cbn [desired_phase op_id oi_kind oi_ns oi_name op_paused].
    set (name := join_name (oi_name (os_id s)) (ph_name ph)).
    destruct (find_phase (sw_phases sw) (phase_kind s) (oi_ns (os_id s)) name) as [cur|] eqn:Ef.
    - destruct (find_phase_key _ _ _ _ _ Ef) as (Hk & Hns & Hn).
      destruct (controlled_by_uid (op_owners cur) (oi_uid (os_id s))) eqn:Ec; cbn [negb].
      2:{ intros H. injection H as <- _ _ _. exists cur. auto. }
      destruct (Bool.eqb (op_paused cur) _) eqn:Ep.
      + intros H. injection H as <- _ _ _. exists cur. split; [exact Ef|left; now apply Bool.eqb_prop].
      + intros H. injection H as <- _ _ _. cbn [sw_phases with_phases].
        set (cur' := phase_with cur _ _ _ _ _ _). exists cur'. split; [|now left].
        pose proof (find_put_phase_same (sw_phases sw) cur') as Hx. change (op_id cur') with (op_id cur) in Hx.
        now rewrite Hk, Hns, Hn in Hx.
    - intros H. injection H as <- _ _ _. cbn [sw_phases with_phases].
      exists (stamp_phase (desired_phase s ph) (w_uid (sw_w sw)) (w_rv (sw_w sw)) 1). split; [|left; reflexivity].
      pose proof (find_put_phase_same (sw_phases sw) (stamp_phase (desired_phase s ph) (w_uid (sw_w sw)) (w_rv (sw_w sw)) 1)) as Hx.
      cbn [op_id stamp_phase desired_phase oi_kind oi_ns oi_name] in Hx. exact Hx.
  Qed.

  Lemma rpm_touched_synced s ow prev phs : forall sw acc rem sw' evs rem' r,
    reconcile_phases_m force sw s ow prev phs acc rem = (sw', evs, rem', r) ->
    NoDup (delegated_names s phs) ->
    forall q, In q phs -> ph_class q = true ->
      untouched evs (pobj_name s q) \/ exists p, phase_obj_of sw' s q = Some p /\ synced_or_foreign s p.
  Proof.
    induction phs as [|ph rest IH]; intros sw acc rem sw' evs rem' r H Hnd q Hq Hcq; [contradiction|].
    rewrite rpm_cons in H. destruct (ph_class ph) eqn:Ecl.
    - rewrite (delegated_names_cons_remote _ _ _ Ecl) in Hnd. inversion Hnd as [|? ? Hnotin Hnd']; subst.
      destruct (remote_reconcile sw s ph rem) as [[[sw1 e1] rem1] r1] eqn:E1.
      destruct (remote_reconcile_inv _ _ _ _ _ _ _ _ E1) as (_ & _ & _ & Hev & _).
      destruct (remote_step_synced _ _ _ _ _ _ _ _ E1) as (p & Hp & Hsy).
      assert (Hstop : (sw1, e1) = (sw', evs) -> untouched evs (pobj_name s q) \/ exists p, phase_obj_of sw' s q = Some p /\ synced_or_foreign s p).
      { intros Heq. injection Heq as <- <-. destruct Hq as [<-|Hq]; [right; eauto|left].
        apply (only_phase_untouched _ _ _ Hev). intros Heq. apply Hnotin. rewrite Heq. now apply in_delegated_names. }
      destruct r1 as [|active failed]; [injection H as <- <- _ _; now apply Hstop|].
      destruct failed; [injection H as <- <- _ _; now apply Hstop|].
      destruct (reconcile_phases_m force sw1 s ow prev rest (acc ++ active) rem1) as [[[sw2 e2] rem2] r2] eqn:E2.
      injection H as <- <- _ _.
      destruct Hq as [<-|Hq].
      + right. exists p. split; [|exact Hsy]. unfold phase_obj_of in *. rewrite <- Hp.
        destruct (rpm_inv force _ _ _ _ _ _ _ _ _ _ _ E2) as (_ & _ & _ & _ & _ & Hfr). apply Hfr. intros (_ & _ & Hin). contradiction.
      + destruct (IH _ _ _ _ _ _ _ E2 Hnd' q Hq Hcq) as [Hu|Hr]; [left|now right].
        apply untouched_app; [|exact Hu]. apply (only_phase_untouched _ _ _ Hev). intros Heq. apply Hnotin. rewrite Heq. now apply in_delegated_names.
    - rewrite (delegated_names_cons_local _ _ _ Ecl) in Hnd.
      destruct Hq as [<-|Hq]; [congruence|].
      destruct (reconcile_phase c idw (sw_w sw) ow prev false (ph_objects ph)) as [[w1 e1] r1] eqn:E1.
      destruct r1 as [e|vs|actual failed]; try (injection H as _ <- _ _; left; apply members_untouched).
      destruct failed as [|f fs]; [|injection H as _ <- _ _; left; apply members_untouched].
      cbv zeta in H.
      match type of H with context [reconcile_phases_m force ?a s ow prev rest ?b ?d] =>
        destruct (reconcile_phases_m force a s ow prev rest b d) as [[[sw2 e2] rem2] r2] eqn:E2 end.
      injection H as <- <- _ _.
      destruct (IH _ _ _ _ _ _ _ E2 Hnd q Hq Hcq) as [Hu|Hr]; [left|now right].
      apply untouched_app; [apply members_untouched|exact Hu].
  Qed.
End Touched.

(** * 13. A loop that was not aborted created no phase object: what it leaves was there, with the same objects/owners *)
Section BackOk.
  Variable force : bool.
  Local Notation c := (Build_cfg FObjectSet force).

  Lemma remote_reconcile_back_ok sw s ph rem sw1 e1 rem1 active failed kind ns nm p' :
    remote_reconcile sw s ph rem = (sw1, e1, rem1, RROk active failed) ->
    find_phase (sw_phases sw1) kind ns nm = Some p' ->
    exists p, find_phase (sw_phases sw) kind ns nm = Some p /\ op_objects p = op_objects p' /\ op_owners p = op_owners p'.
  Proof.
    intros H Hf.
    destruct ((phase_kind s =? kind) && (oi_ns (os_id s) =? ns) && (pobj_name s ph =? nm)) eqn:E.
    2:{ destruct (remote_reconcile_inv _ _ _ _ _ _ _ _ H) as (_ & _ & _ & _ & Hfr & _). rewrite (Hfr _ _ _ E) in Hf. eauto. }
    apply andb_true_iff in E. destruct E as [E E3]. apply andb_true_iff in E. destruct E as [E1 E2].
    apply N.eqb_eq in E1, E2, E3. subst kind ns nm.
    unfold remote_reconcile, pobj_name in *. cbn [desired_phase op_id oi_kind oi_ns oi_name op_paused] in H.
    set (name := join_name (oi_name (os_id s)) (ph_name ph)) in *.
    destruct (find_phase (sw_phases sw) (phase_kind s) (oi_ns (os_id s)) name) as [cur|] eqn:Ef; [|discriminate].
    destruct (find_phase_key _ _ _ _ _ Ef) as (Hk & Hns & Hn).
    destruct (negb _); [discriminate|].
    destruct (Bool.eqb _ _); [injection H as <- _ _ _; rewrite Hf in Ef; injection Ef as <-; eauto|].
    injection H as <- _ _ _. cbn [sw_phases with_phases] in Hf.
    set (cur' := phase_with cur _ _ _ _ _ _) in *.
    pose proof (find_put_phase_same (sw_phases sw) cur') as Hx. change (op_id cur') with (op_id cur) in Hx.
    rewrite Hk, Hns, Hn, Hf in Hx. injection Hx as ->. exists cur. auto.
  Qed.

  Lemma rpm_back_ok s ow prev phs : forall sw acc rem sw' evs rem' ctrlof failed kind ns nm p',
    reconcile_phases_m force sw s ow prev phs acc rem = (sw', evs, rem', MOk ctrlof failed) ->
    find_phase (sw_phases sw') kind ns nm = Some p' ->
    exists p, find_phase (sw_phases sw) kind ns nm = Some p /\ op_objects p = op_objects p' /\ op_owners p = op_owners p'.
  Proof.
    induction phs as [|ph rest IH]; intros sw acc rem sw' evs rem' ctrlof failed kind ns nm p' H Hf.
    - cbn in H. injection H as <- _ _ _ _. eauto.
    - rewrite rpm_cons in H. destruct (ph_class ph).
      + destruct (remote_reconcile sw s ph rem) as [[[sw1 e1] rem1] r1] eqn:E1.
        destruct r1 as [|active fl]; [discriminate|].
        destruct fl; [injection H as <- _ _ _ _; eapply remote_reconcile_back_ok; eauto|].
        destruct (reconcile_phases_m force sw1 s ow prev rest (acc ++ active) rem1) as [[[sw2 e2] rem2] r2] eqn:E2.
        injection H as <- _ _ ->. destruct (IH _ _ _ _ _ _ _ _ _ _ _ _ E2 Hf) as (p1 & Hp1 & Ho1 & Hw1).
        destruct (remote_reconcile_back_ok _ _ _ _ _ _ _ _ _ _ _ _ _ E1 Hp1) as (p & Hp & Ho & Hw).
        exists p. split; [exact Hp|split; congruence].
      + destruct (reconcile_phase c idw (sw_w sw) ow prev false (ph_objects ph)) as [[w1 e1] r1] eqn:E1.
        destruct r1 as [e|vs|actual fl]; [discriminate|discriminate|].
        destruct fl as [|f fs]; [|injection H as <- _ _ _ _; eauto].
        cbv zeta in H.
        match type of H with context [reconcile_phases_m force ?a s ow prev rest ?b ?d] =>
          destruct (reconcile_phases_m force a s ow prev rest b d) as [[[sw2 e2] rem2] r2] eqn:E2 end.
        injection H as <- _ _ ->. exact (IH _ _ _ _ _ _ _ _ _ _ _ _ E2 Hf).
  Qed.
End BackOk.

(** * 14. Adoption facts of the phase level, lifted to the phase loop (C01 / C02 at the controller level) *)
Section Adoption.
  Variable force : bool.
  Local Notation c := (Build_cfg FObjectSet force).

  Lemma rpm_local_forall (P : ev -> Prop) s ow prev phs : forall sw acc rem sw' evs rem' r,
    (forall ph, In ph phs -> ph_class ph = false -> forall w w' e1 r1,
       reconcile_phase c idw w ow prev false (ph_objects ph) = (w', e1, r1) -> Forall P e1) ->
    reconcile_phases_m force sw s ow prev phs acc rem = (sw', evs, rem', r) ->
    Forall P (member_evs evs).
  Proof.
    induction phs as [|ph rest IH]; intros sw acc rem sw' evs rem' r HP H.
    - cbn in H. injection H as _ <- _ _. constructor.
    - assert (HP' : forall q, In q rest -> ph_class q = false -> forall w w' e1 r1,
                reconcile_phase c idw w ow prev false (ph_objects q) = (w', e1, r1) -> Forall P e1) by (intros q Hq; apply HP; now right).
      rewrite rpm_cons in H. destruct (ph_class ph) eqn:Ecl.
      + destruct (remote_reconcile sw s ph rem) as [[[sw1 e1] rem1] r1] eqn:E1.
        destruct (remote_reconcile_inv _ _ _ _ _ _ _ _ E1) as (_ & _ & _ & Hev & _).
        pose proof (only_phase_members _ _ Hev) as Hm1.
        destruct r1 as [|active failed]; [injection H as _ <- _ _; rewrite Hm1; constructor|].
        destruct failed; [injection H as _ <- _ _; rewrite Hm1; constructor|].
        destruct (reconcile_phases_m force sw1 s ow prev rest (acc ++ active) rem1) as [[[sw2 e2] rem2] r2] eqn:E2.
        injection H as _ <- _ _. rewrite member_evs_app, Hm1. cbn [app]. eapply IH; eauto.
      + destruct (reconcile_phase c idw (sw_w sw) ow prev false (ph_objects ph)) as [[w1 e1] r1] eqn:E1.
        pose proof (HP ph (or_introl eq_refl) Ecl _ _ _ _ E1) as H1.
        destruct r1 as [e|vs|actual failed]; try (injection H as _ <- _ _; rewrite member_evs_members; exact H1).
        destruct failed as [|f fs]; [|injection H as _ <- _ _; rewrite member_evs_members; exact H1].
        cbv zeta in H.
        match type of H with context [reconcile_phases_m force ?a s ow prev rest ?b ?d] =>
          destruct (reconcile_phases_m force a s ow prev rest b d) as [[[sw2 e2] rem2] r2] eqn:E2 end.
        injection H as _ <- _ _. rewrite member_evs_app, member_evs_members. apply Forall_app. split; [exact H1|eapply IH; eauto].
  Qed.

  (** an existing object the owner neither controls nor may adopt under any local entry is untouched by the loop *)
  Lemma rpm_untouched s ow prev k o phs : forall sw acc rem sw' evs rem' r,
    reconcile_phases_m force sw s ow prev phs acc rem = (sw', evs, rem', r) ->
    lookup k (w_store (sw_w sw)) = Some o -> is_controller Native (ow_id ow) o = false ->
    (forall ph, In ph phs -> ph_class ph = false -> not_permitted_any c ow prev (ph_objects ph) k o) ->
    lookup k (w_store (sw_w sw')) = Some o /\ Forall (fun e => ev_key e <> k) (member_evs evs).
  Proof.
    induction phs as [|ph rest IH]; intros sw acc rem sw' evs rem' r H El Hc Hnp.
    - cbn in H. injection H as <- <- _ _. split; [exact El|constructor].
    - assert (Hnp' : forall q, In q rest -> ph_class q = false -> not_permitted_any c ow prev (ph_objects q) k o) by (intros q Hq; apply Hnp; now right).
      rewrite rpm_cons in H. destruct (ph_class ph) eqn:Ecl.
      + destruct (remote_reconcile sw s ph rem) as [[[sw1 e1] rem1] r1] eqn:E1.
        destruct (remote_reconcile_inv _ _ _ _ _ _ _ _ E1) as (Hst & _ & _ & Hev & _).
        pose proof (only_phase_members _ _ Hev) as Hm1.
        assert (El1 : lookup k (w_store (sw_w sw1)) = Some o) by now rewrite Hst.
        destruct r1 as [|active failed]; [injection H as <- <- _ _; rewrite Hm1; split; [exact El1|constructor]|].
        destruct failed; [injection H as <- <- _ _; rewrite Hm1; split; [exact El1|constructor]|].
        destruct (reconcile_phases_m force sw1 s ow prev rest (acc ++ active) rem1) as [[[sw2 e2] rem2] r2] eqn:E2.
        injection H as <- <- _ _. rewrite member_evs_app, Hm1. cbn [app]. eapply IH; eauto.
      + destruct (reconcile_phase c idw (sw_w sw) ow prev false (ph_objects ph)) as [[w1 e1] r1] eqn:E1.
        assert (H1 : lookup k (w_store w1) = Some o /\ Forall (fun e => ev_key e <> k) e1).
        { unfold reconcile_phase in E1. destruct (flat_map _ (ph_objects ph)); [|injection E1 as <- <- _; split; [exact El|constructor]].
          eapply (rec_objs_untouched c); eauto. apply Hnp; [now left|exact Ecl]. }
        destruct H1 as [El1 He1].
        destruct r1 as [e|vs|actual failed]; try (injection H as <- <- _ _; rewrite member_evs_members; split; [exact El1|exact He1]).
        destruct failed as [|f fs]; [|injection H as <- <- _ _; rewrite member_evs_members; split; [exact El1|exact He1]].
        cbv zeta in H.
        match type of H with context [reconcile_phases_m force ?a s ow prev rest ?b ?d] =>
          destruct (reconcile_phases_m force a s ow prev rest b d) as [[[sw2 e2] rem2] r2] eqn:E2 end.
        injection H as <- <- _ _. rewrite member_evs_app, member_evs_members.
        destruct (IH _ _ _ _ _ _ _ E2 El1 Hc Hnp') as [El2 He2]. split; [exact El2|apply Forall_app; auto].
  Qed.

  (** a collision error of the loop comes from a listed object that exists (before the loop), is not controlled and
      may not be adopted *)
  Lemma rpm_collision s ow prev phs : forall sw acc rem sw' evs rem' e,
    reconcile_phases_m force sw s ow prev phs acc rem = (sw', evs, rem', MErr e) -> is_collision e = true ->
    NoDup (local_keys ow phs) ->
    exists ph p o, In ph phs /\ ph_class ph = false /\ In p (ph_objects ph) /\
                   lookup (key_of ow p) (w_store (sw_w sw)) = Some o /\ must_refuse c ow prev p o.
  Proof.
    induction phs as [|ph rest IH]; intros sw acc rem sw' evs rem' e H He Hnd; [cbn in H; discriminate|].
    assert (He' : e = ErrNotPrevious \/ e = ErrRevCollision) by (destruct e; try discriminate; auto).
    rewrite rpm_cons in H. destruct (ph_class ph) eqn:Ecl.
    - rewrite (local_keys_cons_remote _ _ _ Ecl) in Hnd.
      destruct (remote_reconcile sw s ph rem) as [[[sw1 e1] rem1] r1] eqn:E1.
      destruct (remote_reconcile_inv _ _ _ _ _ _ _ _ E1) as (Hst & _).
      destruct r1 as [|active failed]; [discriminate|]. destruct failed; [discriminate|].
      destruct (reconcile_phases_m force sw1 s ow prev rest (acc ++ active) rem1) as [[[sw2 e2] rem2] r2] eqn:E2.
      injection H as _ _ _ ->. destruct (IH _ _ _ _ _ _ _ E2 He Hnd) as (q & p & o & Hq & Hcq & Hp & Hl & Hm).
      exists q, p, o. rewrite Hst in Hl. split; [now right|auto].
    - rewrite (local_keys_cons_local _ _ _ Ecl) in Hnd.
      pose proof (NoDup_app_r _ _ Hnd) as Hnd_rest. pose proof (NoDup_app_l _ _ Hnd) as Hnd0.
      destruct (reconcile_phase c idw (sw_w sw) ow prev false (ph_objects ph)) as [[w1 e1] r1] eqn:E1.
      destruct r1 as [e0|vs|actual failed]; [|discriminate|].
      + injection H as _ _ _ ->. unfold reconcile_phase in E1. destruct (flat_map _ (ph_objects ph)); [|discriminate].
        destruct (rec_objs_collision_sound c _ _ _ _ _ _ _ _ _ E1 He' Hnd0) as (p & o & Hp & Hl & Hm).
        exists ph, p, o. split; [now left|auto].
      + destruct failed as [|f fs]; [|discriminate].
        cbv zeta in H.
        match type of H with context [reconcile_phases_m force ?a s ow prev rest ?b ?d] =>
          destruct (reconcile_phases_m force a s ow prev rest b d) as [[[sw2 e2] rem2] r2] eqn:E2 end.
        injection H as _ _ _ ->. destruct (IH _ _ _ _ _ _ _ E2 He Hnd_rest) as (q & p & o & Hq & Hcq & Hp & Hl & Hm).
        exists q, p, o. split; [now right|]. split; [exact Hcq|]. split; [exact Hp|]. split; [|exact Hm].
        cbn [sw_w with_w] in Hl. rewrite <- Hl. symmetry. eapply (rec_phase_frame force); [exact E1|].
        intros p1 Hp1 Heq. apply (NoDup_app_disj _ _ (key_of ow p) Hnd).
        * unfold phase_keys. rewrite <- Heq. apply in_map. exact Hp1.
        * eapply in_local_keys; eauto. unfold phase_keys. now apply in_map.
  Qed.

  Lemma as_owner_same m1 m0 : same_spec m1 m0 -> os_revision m1 = os_revision m0 -> as_owner m1 = as_owner m0.
  Proof. intros (Hid & _ & Hl & _ & Hp & _) Hr. unfold as_owner. now rewrite Hid, Hr, Hl, Hp. Qed.
End Adoption.

(** * 15. isObjectSetInTransition, literally: when InTransition is cleared every listed key is in controllerOf, provided
    the namespace-less references that phase objects report name no OTHER listed key (C06) *)
Section Literal.
  Variable force : bool.
  Local Notation c := (Build_cfg FObjectSet force).

  Lemma rec_objs_actual_nodup ow prev ps : forall w acc failed w' evs a f,
    reconcile_objects c idw w ow prev ps acc failed = (w', evs, PhOk a f) ->
    NoDup (map (key_of ow) ps) ->
    exists new, a = acc ++ new /\ NoDup (map fst new) /\ incl (map fst new) (map (key_of ow) ps).
  Proof.
    induction ps as [|p ps IH]; intros w acc failed w' evs a f H Hnd; cbn in H.
    - injection H as _ _ <- _. exists []. split; [now rewrite app_nil_r|]. split; [constructor|intros x []].
    - inversion Hnd as [|? ? Hnotin Hnd']; subst.
      destruct (reconcile_object c idw w ow prev p) as [[w1 e1] r1] eqn:E1.
      destruct r1 as [o| |e]; [| |discriminate].
      + destruct (reconcile_objects c idw w1 ow prev ps _ _) as [[w2 e2] r2] eqn:E2. injection H as _ _ ->.
        destruct (IH _ _ _ _ _ _ _ E2 Hnd') as (new & -> & Hn & Hi).
        exists ((key_of ow p, o) :: new). split; [now rewrite <- app_assoc|]. split.
        * cbn. constructor; [|exact Hn]. intros Hin. apply Hnotin. now apply Hi.
        * intros x [<-|Hx]; [now left|right; now apply Hi].
      + destruct (reconcile_objects c idw w1 ow prev ps _ _) as [[w2 e2] r2] eqn:E2. injection H as _ _ ->.
        destruct (IH _ _ _ _ _ _ _ E2 Hnd') as (new & -> & Hn & Hi).
        exists new. split; [reflexivity|]. split; [exact Hn|]. intros x Hx. right. now apply Hi.
  Qed.

  Lemma nodup_map_fst_filter {A B} (g : A * B -> bool) (l : list (A * B)) : NoDup (map fst l) -> NoDup (map fst (filter g l)).
  Proof.
    induction l as [|x l IH]; cbn; intros H; [constructor|]. inversion H as [|? ? Hn Hd]; subst.
    destruct (g x); cbn; [|now apply IH]. constructor; [|now apply IH].
    intros Hin. apply Hn. apply in_map_iff in Hin. destruct Hin as (y & Hy & Hf). apply filter_In in Hf. apply in_map_iff. exists y. tauto.
  Qed.

  Lemma count_occ_nodup (l : list okey) k : NoDup l -> In k l -> count_occ okey_dec l k = 1%nat.
  Proof.
    intros Hnd Hin. apply NoDup_count_occ with (decA := okey_dec) (x := k) in Hnd.
    apply (count_occ_In okey_dec) in Hin. lia.
  Qed.

  (** every entry of the controllerOf list is reported by a phase object the pass leaves, or is a local key that occurs
      in the list exactly once *)
  Lemma rpm_ctrlof_once s ow prev phs : forall sw acc rem sw' evs rem' ctrlof fph,
    reconcile_phases_m force sw s ow prev phs acc rem = (sw', evs, rem', MOk ctrlof fph) ->
    NoDup (local_keys ow phs) ->
    exists new, ctrlof = acc ++ new /\
      Forall (fun k => reported_final sw' s phs evs k \/ (In k (local_keys ow phs) /\ count_occ okey_dec new k = 1%nat)) new.
  Proof.
    induction phs as [|ph rest IH]; intros sw acc rem sw' evs rem' ctrlof fph H Hnd.
    - cbn in H. injection H as <- _ _ <- _. exists []. split; [now rewrite app_nil_r|constructor].
    - assert (Hlift : forall evs1 evs2 k, reported_final sw' s rest evs2 k -> reported_final sw' s (ph :: rest) (evs1 ++ evs2) k).
      { intros evs1 evs2 k (q & cu & Hq & Hc & Hf & Ho & Hk & Hr). exists q, cu. split; [now right|]. repeat split; auto. now apply read_in_app_r. }
      rewrite rpm_cons in H. destruct (ph_class ph) eqn:Ecl.
      + rewrite (local_keys_cons_remote _ _ _ Ecl) in *.
        destruct (remote_reconcile sw s ph rem) as [[[sw1 e1] rem1] r1] eqn:E1.
        destruct (remote_reconcile_inv _ _ _ _ _ _ _ _ E1) as (_ & _ & _ & _ & _ & Hres).
        destruct r1 as [|active failed]; [discriminate|].
        destruct (remote_step_ok _ _ _ _ _ _ _ _ _ E1) as (cur & Hcur & Hrel & Hown & Hsync).
        pose proof (relay_active _ _ _ Hrel) as ->.
        assert (Hread : read_in e1 (pobj_name s ph)).
        { destruct Hres as (c0 & _ & _ & [Hg|(pa & Hg)]); [left; eauto|right; eauto]. }
        assert (Hrep : forall evsf k, phase_obj_of sw' s ph = Some cur -> read_in evsf (pobj_name s ph) -> In k (op_ctrlof cur) ->
                  reported_final sw' s (ph :: rest) evsf k).
        { intros evsf k Hf Hr Hk. exists ph, cur. split; [now left|]. auto. }
        destruct failed.
        * injection H as <- <- _ <- _. exists (op_ctrlof cur). split; [reflexivity|].
          apply Forall_forall. intros k Hk. left. now apply Hrep.
        * destruct (reconcile_phases_m force sw1 s ow prev rest (acc ++ op_ctrlof cur) rem1) as [[[sw2 e2] rem2] r2] eqn:E2.
          injection H as <- <- _ ->.
          destruct (IH _ _ _ _ _ _ _ _ E2 Hnd) as (new & -> & Hnew).
          assert (Hkeep : phase_obj_of sw2 s ph = Some cur) by (unfold phase_obj_of in *; eapply rpm_keeps; eauto).
          exists (op_ctrlof cur ++ new). split; [now rewrite app_assoc|]. apply Forall_app. split.
          -- apply Forall_forall. intros k Hk. left. apply Hrep; [exact Hkeep|now apply read_in_app_l|exact Hk].
          -- rewrite Forall_forall in Hnew. apply Forall_forall. intros k Hk. destruct (Hnew k Hk) as [Hr|[Hl Hc]]; [left; now apply Hlift|].
             destruct (in_dec okey_dec k (op_ctrlof cur)) as [Hi|Hi]; [left; apply Hrep; [exact Hkeep|now apply read_in_app_l|exact Hi]|].
             right. split; [exact Hl|]. rewrite count_occ_app, Hc. apply (count_occ_not_In okey_dec) in Hi. lia.
      + rewrite (local_keys_cons_local _ _ _ Ecl) in *.
        pose proof (NoDup_app_r _ _ Hnd) as Hnd_rest. pose proof (NoDup_app_l _ _ Hnd) as Hnd0.
        destruct (reconcile_phase c idw (sw_w sw) ow prev false (ph_objects ph)) as [[w1 e1] r1] eqn:E1.
        destruct r1 as [e|vs|actual failed]; [discriminate|discriminate|].
        pose proof E1 as E1'. unfold reconcile_phase in E1'. destruct (flat_map _ (ph_objects ph)); [|discriminate].
        destruct (rec_objs_actual_nodup ow prev _ _ _ _ _ _ _ _ E1' Hnd0) as (newa & Ha & Hndn & Hincl). cbn in Ha. subst actual.
        set (mine := map fst (filter (fun ko => is_controller Native (ow_id ow) (snd ko)) newa)) in *.
        assert (Hmnd : NoDup mine) by (apply nodup_map_fst_filter; exact Hndn).
        assert (Hmin : forall k, In k mine -> In k (phase_keys ow ph)).
        { intros k Hk. apply Hincl. unfold mine in Hk. apply in_map_iff in Hk. destruct Hk as (y & <- & Hy). apply filter_In in Hy. apply in_map. tauto. }
        destruct failed as [|f fs].
        * cbv zeta in H.
          match type of H with context [reconcile_phases_m force ?a s ow prev ?l ?b ?d] =>
            destruct (reconcile_phases_m force a s ow prev l b d) as [[[sw2 e2] rem2] r2] eqn:E2 end.
          injection H as <- <- _ ->.
          destruct (IH _ _ _ _ _ _ _ _ E2 Hnd_rest) as (new & -> & Hnew). rewrite Forall_forall in Hnew.
          exists (mine ++ new). split; [now rewrite app_assoc|]. apply Forall_app. split.
          -- apply Forall_forall. intros k Hk.
             destruct (in_dec okey_dec k new) as [Hi|Hi].
             ++ destruct (Hnew k Hi) as [Hr|[Hl _]]; [left; now apply Hlift|].
                exfalso. eapply NoDup_app_disj; [exact Hnd|apply Hmin; exact Hk|exact Hl].
             ++ right. split; [apply in_or_app; left; now apply Hmin|].
                rewrite count_occ_app, (count_occ_nodup _ _ Hmnd Hk). apply (count_occ_not_In okey_dec) in Hi. lia.
          -- apply Forall_forall. intros k Hk. destruct (Hnew k Hk) as [Hr|[Hl Hc]]; [left; now apply Hlift|].
             right. split; [apply in_or_app; now right|]. rewrite count_occ_app, Hc.
             assert (Hni : ~ In k mine) by (intros Hi; eapply NoDup_app_disj; [exact Hnd|apply Hmin; exact Hi|exact Hl]).
             apply (count_occ_not_In okey_dec) in Hni. lia.
        * injection H as <- <- _ <- _. exists mine. split; [reflexivity|]. apply Forall_forall. intros k Hk.
          right. split; [apply in_or_app; left; now apply Hmin|now apply count_occ_nodup].
  Qed.

  Lemma remove_first_gkname_none x l : (forall y, In y l -> ~ (k_gk y = k_gk x /\ k_name y = k_name x)) -> remove_first_gkname x l = l.
  Proof.
    induction l as [|y l IH]; intros H; [reflexivity|]. cbn.
    destruct ((k_gk y =? k_gk x) && (k_name y =? k_name x)) eqn:E.
    - exfalso. apply andb_true_iff in E. destruct E as [E1 E2]. apply N.eqb_eq in E1, E2. apply (H y); [now left|auto].
    - f_equal. apply IH. intros z Hz. apply H. now right.
  Qed.

  (** a key that names no other key of [all] when its namespace is ignored *)
  Definition good_ref (all : list okey) (x : okey) : Prop :=
    forall k, In k all -> k_gk k = k_gk x -> k_name k = k_name x -> k = x.

  Lemma fold_remove_literal all : forall rest processed acc,
    incl acc all ->
    (forall k, In k all -> ~ In k acc -> In k processed) ->
    (forall x, In x rest -> k_ns x = 0 -> good_ref all x \/ (In x all /\ count_occ okey_dec (processed ++ rest) x = 1%nat)) ->
    fold_left remove_ctrl rest acc = [] -> forall k, In k all -> In k (processed ++ rest).
  Proof.
    induction rest as [|x rest IH]; intros processed acc Hincl Hinv Hent Hfold k Hk.
    - cbn in Hfold. subst acc. rewrite app_nil_r. apply Hinv; auto.
    - cbn [fold_left] in Hfold.
      assert (Hstep : forall k0, In k0 acc -> k0 <> x -> In k0 (remove_ctrl acc x)).
      { intros k0 Hk0 Hne. unfold remove_ctrl. destruct (existsb (okey_eqb x) acc) eqn:Ex.
        - unfold remove_all_key. apply filter_In. split; [exact Hk0|]. apply negb_true_iff. now apply okey_eqb_neq.
        - destruct (k_ns x =? 0) eqn:Ens; [|exact Hk0]. apply N.eqb_eq in Ens.
          assert (Hxa : ~ In x acc).
          { intros Hx. assert (existsb (okey_eqb x) acc = true) by (apply existsb_exists; exists x; split; [exact Hx|apply okey_eqb_refl]). congruence. }
          rewrite remove_first_gkname_none; [exact Hk0|]. intros y Hy [Hg Hn].
          destruct (Hent x (or_introl eq_refl) Ens) as [Hgood|[Hxall Hcnt]].
          + assert (y = x) by (apply Hgood; auto). subst y. contradiction.
          + pose proof (Hinv x Hxall Hxa) as Hxp. rewrite count_occ_app in Hcnt. cbn in Hcnt.
            destruct (okey_dec x x) as [_|Hn']; [|contradiction]. apply (count_occ_In okey_dec) in Hxp. lia. }
      assert (Hsub : incl (remove_ctrl acc x) acc).
      { intros y Hy. unfold remove_ctrl in Hy. destruct (existsb (okey_eqb x) acc).
        - unfold remove_all_key in Hy. apply filter_In in Hy. tauto.
        - destruct (k_ns x =? 0); [|exact Hy]. clear -Hy. induction acc as [|a acc IHa]; [contradiction|]. cbn in Hy.
          destruct ((k_gk a =? k_gk x) && (k_name a =? k_name x)); [now right|]. destruct Hy as [<-|Hy]; [now left|right; now apply IHa]. }
      replace (processed ++ x :: rest) with ((processed ++ [x]) ++ rest) by (now rewrite <- app_assoc).
      apply (IH (processed ++ [x]) (remove_ctrl acc x)); auto.
      + intros y Hy. apply Hincl. now apply Hsub.
      + intros k0 Hk0 Hn0. apply in_or_app. destruct (okey_dec k0 x) as [->|Hne]; [right; now left|left].
        apply Hinv; [exact Hk0|]. intros Hin. apply Hn0. now apply Hstep.
      + intros y Hy Hns. rewrite <- app_assoc. cbn [app]. apply Hent; [now right|exact Hns].
  Qed.

  Lemma dedup_keys_incl l k : In k (dedup_keys l) -> In k l.
  Proof.
    induction l as [|x xs IH]; cbn; [auto|]. destruct (existsb (okey_eqb x) xs); [intros H; right; now apply IH|].
    intros [<-|H]; [now left|right; now apply IH].
  Qed.
End Literal.
