(** Owner strategies (boxcutter ownerhandling native.go / annotation.go, controllerutil)
    and the adoption decision (internal/controllers/phase_reconciler.go:683-797).
    Executable definitions only. *)
From Coq Require Import List NArith ZArith Bool.
From PKO Require Import Util Base.
Import ListNotations.
Local Open Scope N_scope.

(** referSameObject of both strategies: group, kind, name and uid. *)
Definition same_obj (r : oref) (o : oid) : bool :=
  (r_kind r =? oi_kind o) && (r_name r =? oi_name o) && (r_uid r =? oi_uid o).

(** controllerutil.referSameObject: group, kind and name only (no uid). *)
Definition same_gkn (r : oref) (o : oid) : bool :=
  (r_kind r =? oi_kind o) && (r_name r =? oi_name o).

Definition refs (s : strat) (o : obj) : list oref :=
  match s with Native => o_owners o | Annot => o_aowners o end.

Definition set_refs (s : strat) (o : obj) (l : list oref) : obj :=
  match s with
  | Native => {| o_uid := o_uid o; o_rv := o_rv o; o_gen := o_gen o; o_owners := l; o_aowners := o_aowners o;
                 o_rev := o_rev o; o_cache := o_cache o; o_pkg := o_pkg o; o_body := o_body o; o_avail := o_avail o;
                 o_obsgen := o_obsgen o; o_deleting := o_deleting o; o_fin := o_fin o |}
  | Annot => {| o_uid := o_uid o; o_rv := o_rv o; o_gen := o_gen o; o_owners := o_owners o; o_aowners := l;
                 o_rev := o_rev o; o_cache := o_cache o; o_pkg := o_pkg o; o_body := o_body o; o_avail := o_avail o;
                 o_obsgen := o_obsgen o; o_deleting := o_deleting o; o_fin := o_fin o |}
  end.

Definition is_owner_l (ow : oid) (l : list oref) : bool := existsb (fun r => same_obj r ow) l.
Definition is_controller_l (ow : oid) (l : list oref) : bool := existsb (fun r => same_obj r ow && r_ctrl r) l.
Definition is_owner (s : strat) (ow : oid) (o : obj) : bool := is_owner_l ow (refs s o).
Definition is_controller (s : strat) (ow : oid) (o : obj) : bool := is_controller_l ow (refs s o).
Definition get_controller_l (l : list oref) : option oref := find r_ctrl l.
Definition has_controller (s : strat) (o : obj) : bool :=
  match get_controller_l (refs s o) with Some _ => true | None => false end.

Definition demote (r : oref) : oref := {| r_kind := r_kind r; r_name := r_name r; r_uid := r_uid r; r_ctrl := false |}.
(** ReleaseController: native sets Controller=false, annotation sets it to nil; both mean "not controller". *)
Definition release_l (l : list oref) : list oref := map demote l.

Definition ctrl_ref (ow : oid) : oref :=
  {| r_kind := oi_kind ow; r_name := oi_name ow; r_uid := oi_uid ow; r_ctrl := true |}.

Fixpoint upsert_ref (same : oref -> bool) (r : oref) (l : list oref) : list oref :=
  match l with
  | [] => [r]
  | x :: l' => if same x then r :: l' else x :: upsert_ref same r l'
  end.

(** controllerutil.validateOwner: a namespaced owner may only own objects in its own namespace. *)
Definition validate_owner (ow : oid) (obj_ns : N) : bool :=
  if oi_ns ow =? 0 then true else (negb (obj_ns =? 0)) && (oi_ns ow =? obj_ns).

(** SetControllerReference; None = error (AlreadyOwnedError or invalid owner). *)
Definition set_controller_l (s : strat) (ow : oid) (obj_ns : N) (l : list oref) : option (list oref) :=
  match s with
  | Native =>
      if negb (validate_owner ow obj_ns) then None else
      match get_controller_l l with
      | Some c => if same_gkn c ow then Some (upsert_ref (fun x => same_gkn x ow) (ctrl_ref ow) l) else None
      | None => Some (upsert_ref (fun x => same_gkn x ow) (ctrl_ref ow) l)
      end
  | Annot =>
      if existsb (fun r => negb (same_obj r ow) && r_ctrl r) l then None
      else Some (upsert_ref (fun x => same_obj x ow) (ctrl_ref ow) l)
  end.

(** common.go remove: s[i] = s[len-1]; s[:len-1], for the first matching index. *)
Fixpoint remove_first_swap (same : oref -> bool) (l : list oref) : list oref :=
  match l with
  | [] => []
  | x :: l' =>
      if same x then
        match l' with
        | [] => []
        | _ => last l' x :: removelast l'
        end
      else x :: remove_first_swap same l'
  end.
Definition remove_owner_l (ow : oid) (l : list oref) : list oref := remove_first_swap (fun r => same_obj r ow) l.

(** getObjectRevision: None = parse error. *)
Definition obj_revision (o : obj) : option Z :=
  match o_rev o with RevNone => Some 0%Z | RevNum z => Some z | RevBad => None end.

(** isControlledByPreviousRevision, incl. remote phases of previous revisions. *)
Definition remote_phase_oid (pv : prevrev) (rp : N * N) : oid :=
  {| oi_kind := if (oi_kind (pv_id pv) =? KClusterObjectSet) then KClusterObjectSetPhase else KObjectSetPhase;
     oi_ns := oi_ns (pv_id pv); oi_name := fst rp; oi_uid := snd rp |}.

Definition controlled_by_previous (s : strat) (o : obj) (prev : list prevrev) : bool :=
  existsb (fun pv => is_controller s (pv_id pv) o ||
                     existsb (fun rp => is_controller s (remote_phase_oid pv rp) o) (pv_remotes pv)) prev.

Inductive adoption :=
| AlreadyController      (* false, nil (first return) *)
| LeaveNewer             (* false, nil: owned by a newer revision *)
| Adopt                  (* true, nil *)
| RefuseNotPrevious      (* ObjectNotOwnedByPreviousRevisionError *)
| RefuseRevCollision     (* RevisionCollisionError *)
| RevParseError.         (* strconv error *)

(** defaultAdoptionChecker.Check. [force] = the force-adoption environment variable is set. *)
Definition check_adoption (s : strat) (force : bool) (ow : owner) (o : obj)
           (prev : list prevrev) (cp : cprot) : adoption :=
  if is_controller s (ow_id ow) o then AlreadyController else
  match obj_revision o with
  | None => RevParseError
  | Some cur =>
      if (ow_rev ow <? cur)%Z then LeaveNewer else
      let cp' := if force || (o_pkg o =? 1) then CPNone else cp in
      match cp' with
      | CPNone => Adopt
      | _ =>
          if (match cp' with CPIfNoController => negb (has_controller s o) | _ => false end) then Adopt else
          if negb (controlled_by_previous s o prev) then RefuseNotPrevious else
          if (cur =? ow_rev ow)%Z then RefuseRevCollision else Adopt
      end
  end.
