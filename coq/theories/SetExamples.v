(** Non-vacuity: concrete worlds that meet the hypotheses of the C03 / C04 / C06 / C09 / C11 theorems
    non-trivially (evaluated by [vm_compute]); no theorem of props/ depends on this file. *)
From Coq Require Import List NArith ZArith Bool.
From PKO Require Import Util Base Owner Api Phase PhaseProofs ObjectSet ObjectSetProofs.
Import ListNotations.
Local Open Scope N_scope.

Definition ex_id : oid := {| oi_kind := KObjectSet; oi_ns := 1; oi_name := 10; oi_uid := 100 |}.
Definition ex_po (gk name : N) : pobj :=
  {| po_gk := gk; po_ns := 0; po_name := name; po_body := 1; po_cp := CPPrevent; po_ownerrefs := false; po_dryreject := false |}.
(** phase 1: a ConfigMap and a probed Widget; phase 2: a ConfigMap *)
Definition ex_phases : list phase :=
  [ {| ph_name := 1; ph_class := false; ph_objects := [ex_po 1 1; ex_po 2 2] |};
    {| ph_name := 2; ph_class := false; ph_objects := [ex_po 1 3] |} ].
Definition ex_set (life : lifecycle) (deleting : bool) (conds : list cond) : oset :=
  {| os_id := ex_id; os_rv := 5; os_gen := 1; os_deleting := deleting; os_fin := true; os_orphan := false; os_pkg := 0;
     os_life := life; os_phases := ex_phases; os_prev := []; os_revision := 1; os_conds := conds; os_ctrlof := [];
     os_remotes := [] |}.
Definition ex_ref : oref := {| r_kind := KObjectSet; r_name := 10; r_uid := 100; r_ctrl := true |}.
Definition ex_obj (uid : N) (avail : N) : obj :=
  {| o_uid := uid; o_rv := uid; o_gen := 1; o_owners := [ex_ref]; o_aowners := []; o_rev := RevNum 1; o_cache := true;
     o_pkg := 0; o_body := 1; o_avail := avail; o_obsgen := Some 1%Z; o_deleting := false; o_fin := false |}.
Definition ex_key (gk name : N) : okey := {| k_gk := gk; k_ns := 1; k_name := name |}.

(** the Widget of phase 1 reports Available ([avail] = 1) or not (2) *)
Definition ex_world (avail : N) (s : oset) : sworld :=
  {| sw_w := {| w_store := [(ex_key 1 1, ex_obj 21 0); (ex_key 2 2, ex_obj 22 avail)]; w_rv := 50; w_uid := 60 |};
     sw_sets := [s]; sw_phases := []; sw_nss := [] |}.

Definition pass_of (avail : N) (s : oset) := objectset_pass false (ex_world avail s) KObjectSet 1 10.
Definition touched (avail : N) (s : oset) : list okey := map ev_key (member_evs (snd (fst (pass_of avail s)))).

(** C03: with phase 1 complete the pass creates the object of phase 2 (the premise [Exists ...] of
    C03_rollout_gated holds for the second phase) ... *)
Example c03_premise_met : touched 1 (ex_set LActive false []) = [ex_key 1 1; ex_key 2 2; ex_key 1 3].
Proof. vm_compute. reflexivity. Qed.
(** ... and with the Widget failing its probe the phase loop stops there and names phase 1. *)
Example c03_stops_at_failing_phase : touched 2 (ex_set LActive false []) = [ex_key 1 1; ex_key 2 2].
Proof. vm_compute. reflexivity. Qed.

Definition ex_world3 (fin3 : bool) (s : oset) : sworld :=
  {| sw_w := {| w_store := [(ex_key 1 1, ex_obj 21 0); (ex_key 2 2, ex_obj 22 1);
                             (ex_key 1 3, {| o_uid := 23; o_rv := 23; o_gen := 1; o_owners := [ex_ref]; o_aowners := []; o_rev := RevNum 1;
                                             o_cache := true; o_pkg := 0; o_body := 1; o_avail := 0; o_obsgen := None; o_deleting := false; o_fin := fin3 |})];
                w_rv := 50; w_uid := 60 |};
     sw_sets := [s]; sw_phases := []; sw_nss := [] |}.
Definition pass3 (fin3 : bool) (s : oset) := objectset_pass false (ex_world3 fin3 s) KObjectSet 1 10.
Definition metas (evs : list sev) : list mev := flat_map (fun e => match e with SMeta x => [x] | _ => [] end) evs.

Definition S0 := ex_set LActive false [].
Definition Sdel := ex_set LActive true [].

(** C03_rollout_gated applies to the pass above: its premises hold, the second phase is touched, and the
    conclusion (phase 1 complete in the post world) follows. *)
Example c03_instance :
  forall q, In q [nth 0 ex_phases (Build_phase 0 false [])] ->
            phase_ok (sw_w (fst (fst (pass_of 1 S0)))) (as_owner S0) q.
Proof.
  destruct (pass_of 1 S0) as [[sw' evs] r] eqn:E.
  assert (Hact : is_active S0) by (repeat split; discriminate).
  apply (C03_rollout_gated_all false (ex_world 1 S0) KObjectSet 1 10 S0 sw' evs r eq_refl Hact E
           [nth 0 ex_phases (Build_phase 0 false [])] (nth 1 ex_phases (Build_phase 0 false [])) [] eq_refl).
  assert (Hev : map ev_key (member_evs evs) = [ex_key 1 1; ex_key 2 2; ex_key 1 3])
    by (change evs with (snd (fst (sw', evs, r))); rewrite <- E; vm_compute; reflexivity).
  apply Exists_exists.
  destruct (member_evs evs) as [|e1 [|e2 [|e3 rest]]]; try discriminate Hev.
  exists e3. split; [right; right; left; reflexivity|].
  injection Hev as _ _ H3 _. rewrite H3. left. reflexivity.
Qed.

(** C04: a deleting ObjectSet whose three members all exist deletes the object of the LAST phase first and
    nothing else in that pass (the finalizer stays: no MFinalizer event) ... *)
Example c04_last_phase_first : map ev_key (member_evs (snd (fst (pass3 false Sdel)))) = [ex_key 1 3] /\ metas (snd (fst (pass3 false Sdel))) = [].
Proof. vm_compute. split; reflexivity. Qed.
(** ... with the object of phase 2 gone the same ObjectSet deletes the members of phase 1 ... *)
Example c04_then_earlier_phase : touched 1 Sdel = [ex_key 1 1; ex_key 2 2].
Proof. vm_compute. reflexivity. Qed.
(** ... and only when nothing is left the finalizer is removed (premise of C04_finalizer_held_until_done). *)
Definition ex_empty (s : oset) : sworld := {| sw_w := {| w_store := []; w_rv := 50; w_uid := 60 |}; sw_sets := [s]; sw_phases := []; sw_nss := [] |}.
Example c04_finalizer_removed_at_the_end :
  metas (snd (fst (objectset_pass false (ex_empty Sdel) KObjectSet 1 10))) = [MFinalizer false true].
Proof. vm_compute. reflexivity. Qed.

(** C06: a pass that found everything available newly reports Available=True (premises of
    C06_available_true_justified), with the complete controllerOf list. *)
Example c06_available_reported :
  metas (snd (fst (pass3 false S0))) =
  [MStatus 1 [{| cd_type := CAvailable; cd_status := STrue; cd_reason := RAvailable; cd_gen := 1 |};
              {| cd_type := CSucceeded; cd_status := STrue; cd_reason := RRolloutSuccess; cd_gen := 1 |}]
           [ex_key 1 1; ex_key 2 2; ex_key 1 3] [] None true].
Proof. vm_compute. reflexivity. Qed.
(** ... and a failing probe is reported as Available=False naming phase 1. *)
Example c06_probe_failure_reported :
  exists cs co, metas (snd (fst (pass_of 2 S0))) = [MStatus 1 cs co [] (Some 1) true] /\ cond_true cs CAvailable = false.
Proof. eexists. eexists. vm_compute. split; reflexivity. Qed.

(** C09: the same world with a paused ObjectSet: no member request although an object is missing. *)
Example c09_paused_no_requests : touched 1 (ex_set LPaused false []) = [].
Proof. vm_compute. reflexivity. Qed.

(** C06/C04 archival: an archived ObjectSet with live members reports Archived=False while tearing down. *)
Example c06_archival_in_progress :
  metas (snd (fst (pass3 false (ex_set LArchived false [])))) =
  [MStatus 1 [{| cd_type := CArchived; cd_status := SFalse; cd_reason := RArchivalInProgress; cd_gen := 1 |}] [] [] None true].
Proof. vm_compute. reflexivity. Qed.

(** C11: the same object listed twice (once without namespace, once with the ObjectSet's): nothing is written. *)
Definition ex_dup : oset :=
  {| os_id := ex_id; os_rv := 5; os_gen := 1; os_deleting := false; os_fin := true; os_orphan := false; os_pkg := 0;
     os_life := LActive;
     os_phases := [ {| ph_name := 1; ph_class := false;
                       ph_objects := [ex_po 1 1; {| po_gk := 1; po_ns := 1; po_name := 1; po_body := 2; po_cp := CPPrevent;
                                                    po_ownerrefs := false; po_dryreject := false |}] |} ];
     os_prev := []; os_revision := 1; os_conds := []; os_ctrlof := []; os_remotes := [] |}.
Example c11_duplicate_premise : dup_count [] (map (spec_key ex_dup) (all_objects ex_dup)) <> O.
Proof. vm_compute. discriminate. Qed.
Example c11_duplicate_no_requests : member_evs (snd (fst (objectset_pass false (ex_empty ex_dup) KObjectSet 1 10))) = [].
Proof. vm_compute. reflexivity. Qed.
