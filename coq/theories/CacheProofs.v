(** Theorems about the dynamic-cache model (C12). *)
From Coq Require Import List NArith Bool Lia.
From PKO Require Import Cache.
Import ListNotations.
Local Open Scope N_scope.

(** * Association lists *)
Section AMapLemmas.
  Context {V : Type}.
  Implicit Types (m : list (N * V)).

  Lemma lookup_upd k' k v m : lookup k' (upd k v m) = if k' =? k then Some v else lookup k' m.
  Proof.
    induction m as [|[k0 v0] m IH]; cbn.
    - destruct (k' =? k); reflexivity.
    - destruct (k =? k0) eqn:E; cbn.
      + apply N.eqb_eq in E; subst k0. destruct (k' =? k); reflexivity.
      + rewrite IH. destruct (k' =? k0) eqn:E0; [|reflexivity].
        apply N.eqb_eq in E0; subst k0. destruct (k' =? k) eqn:E1; [|reflexivity].
        apply N.eqb_eq in E1; subst k'. rewrite N.eqb_refl in E. discriminate.
  Qed.

  Lemma lookup_del k' k m : lookup k' (del k m) = if k' =? k then None else lookup k' m.
  Proof.
    induction m as [|[k0 v0] m IH]; cbn.
    - destruct (k' =? k); reflexivity.
    - destruct (k =? k0) eqn:E; cbn.
      + apply N.eqb_eq in E; subst k0. rewrite IH. destruct (k' =? k); reflexivity.
      + rewrite IH. destruct (k' =? k0) eqn:E0; [|reflexivity].
        apply N.eqb_eq in E0; subst k0. destruct (k' =? k) eqn:E1; [|reflexivity].
        apply N.eqb_eq in E1; subst k'. rewrite N.eqb_refl in E. discriminate.
  Qed.

  Lemma upd_same k v m : lookup k m = Some v -> upd k v m = m.
  Proof.
    induction m as [|[k0 v0] m IH]; cbn; [discriminate|].
    destruct (k =? k0) eqn:E.
    - apply N.eqb_eq in E; subst k0. intros H; injection H as ->. reflexivity.
    - intros H. now rewrite IH.
  Qed.
End AMapLemmas.

(** * Owner sets *)
Lemma mem_In x l : mem x l = true <-> In x l.
Proof.
  unfold mem. rewrite existsb_exists. split.
  - intros (y & Hy & E). apply N.eqb_eq in E. now subst.
  - intros H. exists x. split; [assumption|apply N.eqb_refl].
Qed.

Lemma mem_false x l : mem x l = false <-> ~ In x l.
Proof. rewrite <- mem_In. destruct (mem x l); split; congruence. Qed.

Lemma In_add y x l : In y (add x l) <-> y = x \/ In y l.
Proof.
  unfold add. destruct (mem x l) eqn:E.
  - apply mem_In in E. split; [auto|]. intros [->|H]; assumption.
  - rewrite in_app_iff. cbn. split; intros [H|H]; auto. destruct H; [auto|contradiction].
Qed.

Lemma In_rem y x l : In y (rem x l) <-> In y l /\ y <> x.
Proof.
  unfold rem. rewrite filter_In, negb_true_iff, N.eqb_neq. tauto.
Qed.

Lemma add_not_nil x l : add x l <> [].
Proof. intros E. assert (H : In x (add x l)) by (apply In_add; auto). rewrite E in H. contradiction. Qed.

Lemma add_mem x l : In x l -> add x l = l.
Proof. intros H. unfold add. apply mem_In in H. now rewrite H. Qed.

Lemma rem_notin x l : ~ In x l -> rem x l = l.
Proof.
  unfold rem. induction l as [|y l IH]; cbn; [reflexivity|]. intros H.
  destruct (y =? x) eqn:E; cbn.
  - apply N.eqb_eq in E. subst. exfalso. auto.
  - rewrite IH; auto.
Qed.

Lemma NoDup_snoc (x : N) l : NoDup l -> ~ In x l -> NoDup (l ++ [x]).
Proof.
  induction l as [|y l IH]; cbn; intros Hnd Hni.
  - constructor; [auto|constructor].
  - inversion Hnd as [|? ? Hy Hl]; subst. constructor.
    + rewrite in_app_iff. cbn. intros [H|[H|[]]]; [auto|]. subst. auto.
    + apply IH; auto.
Qed.

Lemma NoDup_add x l : NoDup l -> NoDup (add x l).
Proof.
  intros H. unfold add. destruct (mem x l) eqn:E; [assumption|].
  apply mem_false in E. now apply NoDup_snoc.
Qed.

Lemma NoDup_rem x l : NoDup l -> NoDup (rem x l).
Proof. intros H. unfold rem. now apply NoDup_filter. Qed.

Lemma nilb_true {A} (l : list A) : nilb l = true <-> l = [].
Proof. destruct l; cbn; split; congruence. Qed.
Lemma nilb_false {A} (l : list A) : nilb l = false <-> l <> [].
Proof. destruct l; cbn; split; congruence. Qed.

(** * The cache is a product of independent per-kind machines

    [view s g] is all the cache knows about kind [g]. Every operation acts on the view of each kind
    by one of the [k_*] functions below, which mention no maps; all invariants are proved on them. *)
Definition kview := (option (list owner) * option (list handler))%type.
Definition view (s : state) (g : gvk) : kview := (lookup g (refs s), lookup g (infs s)).
Definition gev (g : gvk) (evs : list event) : list event := filter (fun e => ev_gvk e =? g) evs.

Definition k_get (g : gvk) (mode : get_mode) (i : option (list handler))
  : option (list handler) * list event * bool :=
  match mode with
  | GetFailEarly => (i, [EGet g false], false)
  | _ =>
      let i' := match i with Some a => Some a | None => Some [] end in
      let started := match i with Some _ => [] | None => [EStart g] end in
      match mode with
      | GetFailSync => (i', EGet g false :: started, false)
      | _ => (i', EGet g true :: started, true)
      end
  end.

Definition k_delete (g : gvk) (fails : bool) (i : option (list handler))
  : option (list handler) * list event * bool :=
  if fails then (i, [EDelete g false], false)
  else (None, EDelete g true :: (if is_some i then [EStop g] else []), true).

Definition k_handle (g : gvk) (out : outcome) (handlers : list handler) (i : option (list handler))
  : option (list handler) * list event * bool :=
  match i with
  | None => (None, [], true)
  | Some att => let '(att', evs, r) := add_handlers g handlers 0 (failk_of out) att in (Some att', evs, r)
  end.

Definition k_watch (g : gvk) (handlers : list handler) (v : kview) (o : owner) (out : outcome)
  : kview * err * list event :=
  let (r, i) := v in
  match r with
  | Some l => ((Some (add o l), i), ErrNone, [])
  | None =>
      let '(i1, ev1, got) := k_get g (get_mode_of out) i in
      if negb got then ((Some [o], i1), ErrInformerGet, ev1)
      else let '(i2, ev2, added) := k_handle g out handlers i1 in
           if negb added then ((Some [o], i2), ErrHandler, ev1 ++ ev2)
           else ((Some [o], i2), ErrNone, ev1 ++ ev2)
  end.

Definition k_watch_fixed (g : gvk) (handlers : list handler) (v : kview) (o : owner) (out : outcome)
  : kview * err * list event :=
  let (r, i) := v in
  match r with
  | Some l => ((Some (add o l), i), ErrNone, [])
  | None =>
      let '(i1, ev1, got) := k_get g (get_mode_of out) i in
      if negb got then
        let '(i1', evd, _) := k_delete g false i1 in ((None, i1'), ErrInformerGet, ev1 ++ evd)
      else let '(i2, ev2, added) := k_handle g out handlers i1 in
           if negb added then
             let '(i2', evd, _) := k_delete g false i2 in ((None, i2'), ErrHandler, ev1 ++ ev2 ++ evd)
           else ((Some [o], i2), ErrNone, ev1 ++ ev2)
  end.

Definition k_free (g : gvk) (o : owner) (out : outcome) (v : kview) : kview * list event * bool :=
  let (r, i) := v in
  match r with
  | None => (v, [], true)
  | Some l =>
      if mem o l then
        let l' := rem o l in
        if nilb l' then
          let fails := match out with informer_delete_fails => true | _ => false end in
          let '(i1, evs, deleted) := k_delete g fails i in
          if negb deleted then ((Some l', i1), evs, false) else ((None, i1), evs, true)
        else ((Some l', i), [], true)
      else (v, [], true)
  end.

Definition k_read (g : gvk) (v : kview) : kview * err * list event :=
  let (r, i) := v in
  match r with
  | None => (v, ErrNotStarted, [])
  | Some _ => let '(i1, evs, _) := k_get g GetOk i in ((r, i1), ErrNone, evs)
  end.

(** ** Projection lemmas: the map-level functions act on [view _ g] as the [k_*] functions and leave
    the views of other kinds alone. *)
Lemma neq_eqb (a b : N) : a <> b -> (a =? b) = false.
Proof. apply N.eqb_neq. Qed.

Lemma im_get_view g mode im im' evs r :
  im_get g mode im = (im', evs, r) ->
  k_get g mode (lookup g im) = (lookup g im', evs, r) /\
  (forall g', g' <> g -> lookup g' im' = lookup g' im).
Proof.
  unfold im_get, k_get. destruct mode; intros H.
  - destruct (lookup g im) as [a|] eqn:E; cbn in H; injection H as <- <- <-.
    + rewrite E. auto.
    + rewrite lookup_upd, N.eqb_refl. split; [reflexivity|].
      intros g' Hn. now rewrite lookup_upd, (neq_eqb _ _ Hn).
  - injection H as <- <- <-. auto.
  - destruct (lookup g im) as [a|] eqn:E; cbn in H; injection H as <- <- <-.
    + rewrite E. auto.
    + rewrite lookup_upd, N.eqb_refl. split; [reflexivity|].
      intros g' Hn. now rewrite lookup_upd, (neq_eqb _ _ Hn).
Qed.

Lemma im_delete_view g fails im im' evs r :
  im_delete g fails im = (im', evs, r) ->
  k_delete g fails (lookup g im) = (lookup g im', evs, r) /\
  (forall g', g' <> g -> lookup g' im' = lookup g' im).
Proof.
  unfold im_delete, k_delete. destruct fails; intros H; injection H as <- <- <-.
  - auto.
  - rewrite lookup_del, N.eqb_refl. split; [reflexivity|].
    intros g' Hn. now rewrite lookup_del, (neq_eqb _ _ Hn).
Qed.

Lemma handle_view g out handlers im im' evs r :
  handle_new_informer g out handlers im = (im', evs, r) ->
  k_handle g out handlers (lookup g im) = (lookup g im', evs, r) /\
  (forall g', g' <> g -> lookup g' im' = lookup g' im).
Proof.
  unfold handle_new_informer, k_handle. destruct (lookup g im) as [att|] eqn:E.
  - destruct (add_handlers g handlers 0 (failk_of out) att) as [[att' evs'] r'].
    intros H; injection H as <- <- <-. rewrite lookup_upd, N.eqb_refl. split; [reflexivity|].
    intros g' Hn. now rewrite lookup_upd, (neq_eqb _ _ Hn).
  - intros H; injection H as <- <- <-. rewrite E. auto.
Qed.

Lemma add_nil o : add o [] = [o].
Proof. reflexivity. Qed.

Lemma watch_view s o g out s' o' :
  watch s o g out = (s', o') ->
  k_watch g (hs s) (view s g) o out = (view s' g, o_err o', o_events o') /\
  (forall g', g' <> g -> view s' g' = view s g') /\ hs s' = hs s /\ o_res o' = None.
Proof.
  unfold watch, k_watch, view. destruct (lookup g (refs s)) as [l|] eqn:E; cbn [is_some].
  - rewrite E. intros H; injection H as <- <-. cbn. rewrite lookup_upd, N.eqb_refl.
    repeat split. intros g' Hn. now rewrite lookup_upd, (neq_eqb _ _ Hn).
  - rewrite lookup_upd, N.eqb_refl, add_nil.
    destruct (im_get g (get_mode_of out) (infs s)) as [[im1 ev1] got] eqn:Eg.
    destruct (im_get_view _ _ _ _ _ _ Eg) as [-> Hf1].
    assert (Hr : forall g' v1 v2, g' <> g ->
              lookup g' (upd g v1 (upd g v2 (refs s))) = lookup g' (refs s)).
    { intros g' v1 v2 Hn. now rewrite !lookup_upd, (neq_eqb _ _ Hn). }
    destruct got; cbn [negb].
    + destruct (handle_new_informer g out (hs s) im1) as [[im2 ev2] added] eqn:Eh.
      destruct (handle_view _ _ _ _ _ _ _ Eh) as [-> Hf2].
      destruct added; cbn [negb]; intros H; injection H as <- <-; cbn;
        rewrite lookup_upd, N.eqb_refl; repeat split;
        intros g' Hn; rewrite (Hr g' _ _ Hn), (Hf2 g' Hn), (Hf1 g' Hn); reflexivity.
    + intros H; injection H as <- <-; cbn. rewrite lookup_upd, N.eqb_refl. repeat split.
      intros g' Hn; rewrite (Hr g' _ _ Hn), (Hf1 g' Hn); reflexivity.
Qed.

Lemma watch_fixed_view s o g out s' o' :
  watch_fixed s o g out = (s', o') ->
  k_watch_fixed g (hs s) (view s g) o out = (view s' g, o_err o', o_events o') /\
  (forall g', g' <> g -> view s' g' = view s g') /\ hs s' = hs s /\ o_res o' = None.
Proof.
  unfold watch_fixed, k_watch_fixed, view. destruct (lookup g (refs s)) as [l|] eqn:E.
  - intros H; injection H as <- <-. cbn. rewrite lookup_upd, N.eqb_refl.
    repeat split. intros g' Hn. now rewrite lookup_upd, (neq_eqb _ _ Hn).
  - destruct (im_get g (get_mode_of out) (infs s)) as [[im1 ev1] got] eqn:Eg.
    destruct (im_get_view _ _ _ _ _ _ Eg) as [-> Hf1].
    destruct got; cbn [negb].
    + destruct (handle_new_informer g out (hs s) im1) as [[im2 ev2] added] eqn:Eh.
      destruct (handle_view _ _ _ _ _ _ _ Eh) as [-> Hf2].
      destruct added; cbn [negb].
      * intros H; injection H as <- <-; cbn. rewrite lookup_upd, N.eqb_refl. repeat split.
        intros g' Hn. now rewrite lookup_upd, (neq_eqb _ _ Hn), (Hf2 g' Hn), (Hf1 g' Hn).
      * destruct (im_delete g false im2) as [[im2' evd] rd] eqn:Ed.
        destruct (im_delete_view _ _ _ _ _ _ Ed) as [-> Hf3].
        intros H; injection H as <- <-; cbn. rewrite E. repeat split.
        intros g' Hn. now rewrite (Hf3 g' Hn), (Hf2 g' Hn), (Hf1 g' Hn).
    + destruct (im_delete g false im1) as [[im1' evd] rd] eqn:Ed.
      destruct (im_delete_view _ _ _ _ _ _ Ed) as [-> Hf3].
      intros H; injection H as <- <-; cbn. rewrite E. repeat split.
      intros g' Hn. now rewrite (Hf3 g' Hn), (Hf1 g' Hn).
Qed.

Lemma read_view s g s' o' :
  read s g = (s', o') ->
  k_read g (view s g) = (view s' g, o_err o', o_events o') /\
  (forall g', g' <> g -> view s' g' = view s g') /\ hs s' = hs s /\ o_res o' = None.
Proof.
  unfold read, k_read, view. destruct (lookup g (refs s)) as [l|] eqn:E.
  - destruct (im_get g GetOk (infs s)) as [[im1 ev1] got] eqn:Eg.
    destruct (im_get_view _ _ _ _ _ _ Eg) as [-> Hf1].
    intros H; injection H as <- <-; cbn. rewrite E. repeat split.
    intros g' Hn. now rewrite (Hf1 g' Hn).
  - intros H; injection H as <- <-; cbn. rewrite E. auto.
Qed.

Lemma free_one_view o out g s s' evs r :
  free_one o out g s = (s', evs, r) ->
  k_free g o out (view s g) = (view s' g, evs, r) /\
  (forall g', g' <> g -> view s' g' = view s g') /\ hs s' = hs s.
Proof.
  unfold free_one, k_free, view. destruct (lookup g (refs s)) as [l|] eqn:E.
  - destruct (mem o l) eqn:Em.
    + destruct (nilb (rem o l)) eqn:En.
      * destruct (im_delete g _ (infs s)) as [[im1 ev1] deleted] eqn:Ed.
        destruct (im_delete_view _ _ _ _ _ _ Ed) as [-> Hf1].
        destruct deleted; cbn [negb]; intros H; injection H as <- <- <-; cbn.
        -- rewrite lookup_del, N.eqb_refl. repeat split.
           intros g' Hn. now rewrite lookup_del, lookup_upd, (neq_eqb _ _ Hn), (Hf1 g' Hn).
        -- rewrite lookup_upd, N.eqb_refl. repeat split.
           intros g' Hn. now rewrite lookup_upd, (neq_eqb _ _ Hn), (Hf1 g' Hn).
      * intros H; injection H as <- <- <-; cbn. rewrite lookup_upd, N.eqb_refl. repeat split.
        intros g' Hn. now rewrite lookup_upd, (neq_eqb _ _ Hn).
    + intros H; injection H as <- <- <-. rewrite E. auto.
  - intros H; injection H as <- <- <-. rewrite E. auto.
Qed.

(** ** Events carry the kind they belong to *)
Lemma gev_app g a b : gev g (a ++ b) = gev g a ++ gev g b.
Proof. apply filter_app. Qed.

Definition own_events (g : gvk) (evs : list event) : Prop := Forall (fun e => ev_gvk e = g) evs.

Lemma own_gev g evs : own_events g evs -> gev g evs = evs.
Proof.
  induction 1 as [|e evs He _ IH]; cbn; [reflexivity|].
  rewrite He, N.eqb_refl. f_equal. exact IH.
Qed.

Lemma own_gev_other g g' evs : own_events g evs -> g' <> g -> gev g' evs = [].
Proof.
  intros H Hn. induction H as [|e evs He _ IH]; cbn; [reflexivity|].
  rewrite He. destruct (g =? g') eqn:E; [apply N.eqb_eq in E; congruence|assumption].
Qed.

Lemma own_app g a b : own_events g a -> own_events g b -> own_events g (a ++ b).
Proof. intros; now apply Forall_app. Qed.

Lemma k_get_own g mode i i' evs r : k_get g mode i = (i', evs, r) -> own_events g evs.
Proof.
  unfold k_get. destruct mode, i; intros H; injection H as <- <- <-; repeat constructor.
Qed.

Lemma k_delete_own g fails i i' evs r : k_delete g fails i = (i', evs, r) -> own_events g evs.
Proof.
  unfold k_delete. destruct fails, i; intros H; injection H as <- <- <-; repeat constructor.
Qed.

Lemma add_handlers_own g todo : forall i failk att att' evs r,
  add_handlers g todo i failk att = (att', evs, r) -> own_events g evs.
Proof.
  induction todo as [|h todo IH]; cbn; intros i failk att att' evs r H.
  - injection H as <- <- <-. constructor.
  - destruct (match failk with Some k => i =? k | None => false end).
    + injection H as <- <- <-. repeat constructor.
    + destruct (add_handlers g todo (i + 1) failk (att ++ [h])) as [[a e] r0] eqn:E.
      injection H as <- <- <-. constructor; [reflexivity|]. eapply IH; eassumption.
Qed.

Lemma k_handle_own g out handlers i i' evs r : k_handle g out handlers i = (i', evs, r) -> own_events g evs.
Proof.
  unfold k_handle. destruct i as [att|].
  - destruct (add_handlers g handlers 0 (failk_of out) att) as [[a e] r0] eqn:E.
    intros H; injection H as <- <- <-. eapply add_handlers_own; eassumption.
  - intros H; injection H as <- <- <-. constructor.
Qed.

Lemma k_watch_own g handlers v o out v' e evs : k_watch g handlers v o out = (v', e, evs) -> own_events g evs.
Proof.
  unfold k_watch. destruct v as [[l|] i].
  - intros H; injection H as <- <- <-. constructor.
  - destruct (k_get g (get_mode_of out) i) as [[i1 ev1] got] eqn:Eg.
    pose proof (k_get_own _ _ _ _ _ _ Eg) as H1. destruct got; cbn [negb].
    + destruct (k_handle g out handlers i1) as [[i2 ev2] added] eqn:Eh.
      pose proof (k_handle_own _ _ _ _ _ _ _ Eh) as H2.
      destruct added; cbn [negb]; intros H; injection H as <- <- <-; now apply own_app.
    + intros H; injection H as <- <- <-. assumption.
Qed.

Lemma k_watch_fixed_own g handlers v o out v' e evs :
  k_watch_fixed g handlers v o out = (v', e, evs) -> own_events g evs.
Proof.
  unfold k_watch_fixed. destruct v as [[l|] i].
  - intros H; injection H as <- <- <-. constructor.
  - destruct (k_get g (get_mode_of out) i) as [[i1 ev1] got] eqn:Eg.
    pose proof (k_get_own _ _ _ _ _ _ Eg) as H1. destruct got; cbn [negb].
    + destruct (k_handle g out handlers i1) as [[i2 ev2] added] eqn:Eh.
      pose proof (k_handle_own _ _ _ _ _ _ _ Eh) as H2.
      destruct added; cbn [negb].
      * intros H; injection H as <- <- <-; now apply own_app.
      * destruct (k_delete g false i2) as [[i2' evd] rd] eqn:Ed.
        pose proof (k_delete_own _ _ _ _ _ _ Ed) as H3.
        intros H; injection H as <- <- <-. apply own_app; [assumption|now apply own_app].
    + destruct (k_delete g false i1) as [[i1' evd] rd] eqn:Ed.
      pose proof (k_delete_own _ _ _ _ _ _ Ed) as H3.
      intros H; injection H as <- <- <-. now apply own_app.
Qed.

Lemma k_free_own g o out v v' evs r : k_free g o out v = (v', evs, r) -> own_events g evs.
Proof.
  unfold k_free. destruct v as [[l|] i].
  - destruct (mem o l).
    + destruct (nilb (rem o l)).
      * destruct (k_delete g _ i) as [[i1 ev1] deleted] eqn:Ed.
        pose proof (k_delete_own _ _ _ _ _ _ Ed) as H1.
        destruct deleted; cbn [negb]; intros H; injection H as <- <- <-; assumption.
      * intros H; injection H as <- <- <-. constructor.
    + intros H; injection H as <- <- <-. constructor.
  - intros H; injection H as <- <- <-. constructor.
Qed.

Lemma k_read_own g v v' e evs : k_read g v = (v', e, evs) -> own_events g evs.
Proof.
  unfold k_read. destruct v as [[l|] i].
  - destruct (k_get g GetOk i) as [[i1 ev1] got] eqn:Eg.
    intros H; injection H as <- <- <-. eapply k_get_own; eassumption.
  - intros H; injection H as <- <- <-. constructor.
Qed.

(** A second visit of the same kind by the loop of Free is a no-op. *)
Lemma k_free_idem g o out v v1 ev1 :
  k_free g o out v = (v1, ev1, true) -> k_free g o out v1 = (v1, [], true).
Proof.
  unfold k_free. destruct v as [[l|] i].
  - destruct (mem o l) eqn:Em.
    + destruct (nilb (rem o l)) eqn:En.
      * destruct (k_delete g _ i) as [[i1 e1] deleted].
        destruct deleted; cbn [negb]; intros H; injection H as <- <-; [reflexivity|discriminate].
      * intros H; injection H as <- <-.
        assert (Hm : mem o (rem o l) = false).
        { apply mem_false. rewrite In_rem. tauto. }
        now rewrite Hm.
    + intros H; injection H as <- <-. now rewrite Em.
  - intros H; injection H as <- <-. reflexivity.
Qed.

Lemma free_loop_view o out gs : forall s s' evs r,
  free_loop o out gs s = (s', evs, r) ->
  hs s' = hs s /\
  (forall g, (view s' g = view s g /\ gev g evs = []) \/
             (exists r', k_free g o out (view s g) = (view s' g, gev g evs, r') /\ (r' = false -> r = false))) /\
  (r = true -> forall g, In g gs -> k_free g o out (view s g) = (view s' g, gev g evs, true)).
Proof.
  induction gs as [|g0 gs IH]; intros s s' evs r H; cbn [free_loop] in H.
  - injection H as <- <- <-. split; [reflexivity|]. split; [|intros _ g []]. intros g. left. auto.
  - destruct (free_one o out g0 s) as [[s1 ev1] cont] eqn:E1.
    destruct (free_one_view _ _ _ _ _ _ _ E1) as (Hk & Hframe & Hhs).
    pose proof (k_free_own _ _ _ _ _ _ _ Hk) as Hown.
    destruct cont; cbn [negb] in H.
    + destruct (free_loop o out gs s1) as [[s2 ev2] r2] eqn:E2.
      injection H as <- <- <-.
      destruct (IH _ _ _ _ E2) as (Hhs2 & Hall & Hin).
      split; [congruence|].
      assert (Hg0 : view s2 g0 = view s1 g0 /\ gev g0 ev2 = []).
      { destruct (Hall g0) as [?|(r' & Hk2 & _)]; [assumption|].
        rewrite (k_free_idem _ _ _ _ _ _ Hk) in Hk2. split; congruence. }
      split.
      * intros g. destruct (N.eq_dec g g0) as [->|Hn].
        -- right. exists true. split; [|discriminate].
           destruct Hg0 as [-> Hnil]. rewrite gev_app, Hnil, app_nil_r, (own_gev _ _ Hown). exact Hk.
        -- rewrite gev_app, (own_gev_other _ _ _ Hown Hn), app_nil_l, <- (Hframe g Hn). apply Hall.
      * intros -> g Hg. destruct (N.eq_dec g g0) as [->|Hn].
        -- destruct Hg0 as [-> Hnil]. rewrite gev_app, Hnil, app_nil_r, (own_gev _ _ Hown). exact Hk.
        -- destruct Hg as [->|Hg]; [congruence|].
           rewrite gev_app, (own_gev_other _ _ _ Hown Hn), app_nil_l, <- (Hframe g Hn). now apply Hin.
    + injection H as <- <- <-. split; [assumption|]. split; [|discriminate].
      intros g. destruct (N.eq_dec g g0) as [->|Hn].
      * right. exists false. rewrite (own_gev _ _ Hown). auto.
      * left. rewrite (own_gev_other _ _ _ Hown Hn). auto.
Qed.

Lemma lookup_notin {V} g (m : list (N * V)) : ~ In g (keys m) -> lookup g m = None.
Proof.
  induction m as [|[k v] m IH]; cbn; [reflexivity|]. intros H.
  destruct (g =? k) eqn:E; [apply N.eqb_eq in E; subst; tauto|]. apply IH. tauto.
Qed.

(** ** One step of either model, seen from one kind *)
Definition kstep_rel (fixed : bool) (g : gvk) (handlers : list handler) (v : kview) (x : op)
           (v' : kview) (e : err) (evs : list event) : Prop :=
  match x with
  | Watch o g0 out =>
      if g0 =? g then (if fixed then k_watch_fixed else k_watch) g handlers v o out = (v', e, evs)
      else v' = v /\ evs = []
  | Free o out _ =>
      (e = ErrDelete /\ v' = v /\ evs = []) \/
      (exists r, k_free g o out v = (v', evs, r) /\ (r = false -> e = ErrDelete))
  | Get g0 | List g0 => if g0 =? g then k_read g v = (v', e, evs) else v' = v /\ evs = []
  | OwnersForGKV _ => v' = v /\ evs = []
  end.

Definition watch_of (fixed : bool) := if fixed then watch_fixed else watch.

Lemma step_kind fixed s x s' o' :
  step_with (watch_of fixed) s x = (s', o') ->
  hs s' = hs s /\
  forall g, kstep_rel fixed g (hs s) (view s g) x (view s' g) (o_err o') (gev g (o_events o')).
Proof.
  destruct x as [o g0 out|o out order|g0|g0|g0]; cbn [step_with].
  - intros H.
    assert (Hw : (if fixed then k_watch_fixed else k_watch) g0 (hs s) (view s g0) o out
                 = (view s' g0, o_err o', o_events o') /\
                 (forall g', g' <> g0 -> view s' g' = view s g') /\ hs s' = hs s).
    { destruct fixed; cbn in H.
      - destruct (watch_fixed_view _ _ _ _ _ _ H) as (? & ? & ? & _); auto.
      - destruct (watch_view _ _ _ _ _ _ H) as (? & ? & ? & _); auto. }
    destruct Hw as (Hk & Hframe & Hhs). split; [assumption|]. intros g. unfold kstep_rel.
    assert (Hown : own_events g0 (o_events o')).
    { destruct fixed; [eapply k_watch_fixed_own|eapply k_watch_own]; eassumption. }
    destruct (g0 =? g) eqn:E.
    + apply N.eqb_eq in E. subst g. now rewrite (own_gev _ _ Hown).
    + apply N.eqb_neq in E. split; [apply Hframe; congruence|]. apply (own_gev_other _ _ _ Hown). congruence.
  - unfold free. destruct (free_loop o out (order ++ keys (refs s)) s) as [[s1 evs] r] eqn:E.
    intros H; injection H as <- <-. unfold kstep_rel; cbn [o_err o_events mk_out].
    destruct (free_loop_view _ _ _ _ _ _ _ E) as (Hhs & Hall & Hin).
    split; [assumption|]. intros g.
    destruct (Hall g) as [[Hv He]|(r' & Hk & Hr)].
    + destruct r.
      * (* everything was visited: either g is a key, or it has no entry and Free is the identity *)
        right. exists true. split; [|discriminate].
        destruct (in_dec N.eq_dec g (order ++ keys (refs s))) as [Hi|Hni]; [now apply Hin|].
        assert (Hnone : lookup g (refs s) = None).
        { apply lookup_notin. intros Hk. apply Hni. apply in_or_app. now right. }
        rewrite Hv, He. unfold view. rewrite Hnone. reflexivity.
      * left. auto.
    + right. exists r'. split; [assumption|]. intros ->. now rewrite (Hr eq_refl).
  - intros H. destruct (read_view _ _ _ _ H) as (Hk & Hframe & Hhs & _).
    split; [assumption|]. intros g. unfold kstep_rel.
    pose proof (k_read_own _ _ _ _ _ Hk) as Hown.
    destruct (g0 =? g) eqn:E.
    + apply N.eqb_eq in E. subst g. now rewrite (own_gev _ _ Hown).
    + apply N.eqb_neq in E. split; [apply Hframe; congruence|]. apply (own_gev_other _ _ _ Hown). congruence.
  - intros H. destruct (read_view _ _ _ _ H) as (Hk & Hframe & Hhs & _).
    split; [assumption|]. intros g. unfold kstep_rel.
    pose proof (k_read_own _ _ _ _ _ Hk) as Hown.
    destruct (g0 =? g) eqn:E.
    + apply N.eqb_eq in E. subst g. now rewrite (own_gev _ _ Hown).
    + apply N.eqb_neq in E. split; [apply Hframe; congruence|]. apply (own_gev_other _ _ _ Hown). congruence.
  - unfold owners_for. intros H; injection H as <- <-. unfold kstep_rel; cbn [o_events gev filter]. auto.
Qed.

(** * Per-kind invariants *)

(** handleNewInformer *)
Lemma add_handlers_res g todo : forall i failk att att' evs,
  add_handlers g todo i failk att = (att', evs, true) -> att' = att ++ todo.
Proof.
  induction todo as [|h todo IH]; cbn; intros i failk att att' evs H.
  - injection H as <- <-. now rewrite app_nil_r.
  - destruct (match failk with Some k => i =? k | None => false end); [discriminate|].
    destruct (add_handlers g todo (i + 1) failk (att ++ [h])) as [[a e] r0] eqn:E.
    injection H as <- <- ->. rewrite (IH _ _ _ _ _ E), <- app_assoc. reflexivity.
Qed.

Lemma add_handlers_nofail g todo : forall i att, exists evs,
  add_handlers g todo i None att = (att ++ todo, evs, true).
Proof.
  induction todo as [|h todo IH]; cbn; intros i att.
  - exists []. now rewrite app_nil_r.
  - destruct (IH (i + 1) (att ++ [h])) as [evs ->]. eexists. rewrite <- app_assoc. reflexivity.
Qed.

Lemma add_handlers_replay g todo : forall i failk att att' evs r,
  add_handlers g todo i failk att = (att', evs, r) -> replay g evs (Some att) = Some att'.
Proof.
  induction todo as [|h todo IH]; cbn; intros i failk att att' evs r H.
  - injection H as <- <- <-. reflexivity.
  - destruct (match failk with Some k => i =? k | None => false end).
    + injection H as <- <- <-. reflexivity.
    + destruct (add_handlers g todo (i + 1) failk (att ++ [h])) as [[a e] r0] eqn:E.
      injection H as <- <- <-. cbn. rewrite N.eqb_refl. cbn. eapply IH; eassumption.
Qed.

(** entry <-> informer, and every informer has every registered handler *)
Definition EIk (handlers : list handler) (v : kview) : Prop :=
  (fst v <> None <-> snd v <> None) /\ (forall att, snd v = Some att -> incl handlers att).
(** owner sets have no duplicates *)
Definition NDk (v : kview) : Prop := forall l, fst v = Some l -> NoDup l.
(** no reference entry with an empty owner set *)
Definition NEk (v : kview) : Prop := fst v <> Some [].
(** an informer runs only for kinds with a reference entry *)
Definition REk (v : kview) : Prop := snd v <> None -> fst v <> None.

Lemma some_neq_none {A} (a : A) : Some a <> None. Proof. discriminate. Qed.
#[local] Hint Resolve some_neq_none : core.

Lemma k_get_cases g mode i i' evs r :
  k_get g mode i = (i', evs, r) ->
  (mode = GetFailEarly /\ i' = i /\ r = false) \/
  (mode <> GetFailEarly /\ i' = Some (match i with Some a => a | None => [] end) /\ (r = true <-> mode = GetOk)).
Proof.
  unfold k_get. destruct mode, i; intros H; injection H as <- <- <-; [right|right|left|left|right|right];
    repeat split; try discriminate; auto.
Qed.

Lemma k_handle_some g out handlers att i' evs r :
  k_handle g out handlers (Some att) = (i', evs, r) ->
  exists att', i' = Some att' /\ (r = true -> att' = att ++ handlers) /\ (failk_of out = None -> r = true).
Proof.
  unfold k_handle. destruct (add_handlers g handlers 0 (failk_of out) att) as [[a e] r0] eqn:E.
  intros H; injection H as <- <- <-. exists a. repeat split.
  - intros ->. eapply add_handlers_res; eassumption.
  - intros Hn. rewrite Hn in E. destruct (add_handlers_nofail g handlers 0 att) as [evs' E']. congruence.
Qed.

Lemma EIk_watch_fixed g handlers v o out v' e evs :
  EIk handlers v -> k_watch_fixed g handlers v o out = (v', e, evs) -> EIk handlers v'.
Proof.
  unfold k_watch_fixed, EIk. destruct v as [[l|] i]; cbn [fst snd]; intros [Hiff Hatt].
  - intros H; injection H as <- <- <-. cbn. split; [|assumption]. split; intros _; [apply Hiff|]; auto.
  - assert (Hi : i = None).
    { destruct i; [|reflexivity]. exfalso. apply (proj2 Hiff); auto. }
    subst i.
    destruct (k_get g (get_mode_of out) None) as [[i1 ev1] got] eqn:Eg.
    destruct (k_get_cases _ _ _ _ _ _ Eg) as [(Hm & -> & ->)|(Hm & -> & Hr)]; cbn [negb].
    + cbn. intros H; injection H as <- <- <-. cbn. split; [tauto|discriminate].
    + destruct got; cbn [negb].
      * destruct (k_handle g out handlers (Some [])) as [[i2 ev2] added] eqn:Eh.
        destruct (k_handle_some _ _ _ _ _ _ _ Eh) as (att' & -> & Hadd & _).
        destruct added; cbn [negb].
        -- intros H; injection H as <- <- <-. cbn. split; [split; auto|].
           intros att Ha. injection Ha as <-. rewrite (Hadd eq_refl). cbn. apply incl_refl.
        -- cbn. intros H; injection H as <- <- <-. cbn. split; [tauto|discriminate].
      * cbn. intros H; injection H as <- <- <-. cbn. split; [tauto|discriminate].
Qed.

Lemma EIk_watch g handlers v o out v' e evs :
  start_failure out = false ->
  EIk handlers v -> k_watch g handlers v o out = (v', e, evs) -> EIk handlers v'.
Proof.
  unfold k_watch, EIk. intros Hsf. destruct v as [[l|] i]; cbn [fst snd]; intros [Hiff Hatt].
  - intros H; injection H as <- <- <-. cbn. split; [|assumption]. split; intros _; [apply Hiff|]; auto.
  - assert (Hi : i = None).
    { destruct i; [|reflexivity]. exfalso. apply (proj2 Hiff); auto. }
    subst i.
    assert (Hm : get_mode_of out = GetOk) by (destruct out; cbn in *; congruence).
    assert (Hk : failk_of out = None) by (destruct out; cbn in *; congruence).
    rewrite Hm. cbn [k_get negb].
    destruct (k_handle g out handlers (Some [])) as [[i2 ev2] added] eqn:Eh.
    destruct (k_handle_some _ _ _ _ _ _ _ Eh) as (att' & -> & Hadd & Hok).
    rewrite (Hok Hk) in *. cbn [negb].
    intros H; injection H as <- <- <-. cbn. split; [split; auto|].
    intros att Ha. injection Ha as <-. rewrite (Hadd eq_refl). cbn. apply incl_refl.
Qed.

Lemma k_delete_cases g fails i i' evs r :
  k_delete g fails i = (i', evs, r) -> (fails = true /\ i' = i /\ r = false) \/ (fails = false /\ i' = None /\ r = true).
Proof. unfold k_delete. destruct fails; intros H; injection H as <- <- <-; auto. Qed.

Lemma EIk_free g handlers o out v v' evs r :
  EIk handlers v -> k_free g o out v = (v', evs, r) -> EIk handlers v'.
Proof.
  unfold k_free, EIk. destruct v as [[l|] i]; cbn [fst snd]; intros [Hiff Hatt].
  - destruct (mem o l).
    + destruct (nilb (rem o l)).
      * destruct (k_delete g _ i) as [[i1 ev1] deleted] eqn:Ed.
        destruct (k_delete_cases _ _ _ _ _ _ Ed) as [(_ & -> & ->)|(_ & -> & ->)]; cbn [negb];
          intros H; injection H as <- <- <-; cbn.
        -- split; [|assumption]. split; intros _; [apply Hiff|]; auto.
        -- split; [tauto|discriminate].
      * intros H; injection H as <- <- <-; cbn. split; [|assumption]. split; intros _; [apply Hiff|]; auto.
    + intros H; injection H as <- <- <-; cbn. auto.
  - intros H; injection H as <- <- <-; cbn. auto.
Qed.

Lemma EIk_read g handlers v v' e evs :
  EIk handlers v -> k_read g v = (v', e, evs) -> EIk handlers v'.
Proof.
  unfold k_read, EIk. destruct v as [[l|] i]; cbn [fst snd]; intros [Hiff Hatt].
  - destruct i as [att|]; [|exfalso; apply (proj1 Hiff); auto].
    cbn. intros H; injection H as <- <- <-; cbn. auto.
  - intros H; injection H as <- <- <-; cbn. auto.
Qed.

Lemma EIk_step fixed g handlers v x v' e evs :
  (fixed = true \/ op_no_start_failure x = true) ->
  EIk handlers v -> kstep_rel fixed g handlers v x v' e evs -> EIk handlers v'.
Proof.
  intros Hok Hinv. destruct x as [o g0 out|o out order|g0|g0|g0]; cbn [kstep_rel].
  - destruct (g0 =? g); [|intros [-> _]; assumption].
    destruct fixed.
    + now apply EIk_watch_fixed.
    + apply EIk_watch; [|assumption]. destruct Hok as [?|Hok]; [discriminate|].
      cbn in Hok. now apply negb_true_iff in Hok.
  - intros [(_ & -> & _)|(r & Hk & _)]; [assumption|]. eapply EIk_free; eassumption.
  - destruct (g0 =? g); [|intros [-> _]; assumption]. now apply EIk_read.
  - destruct (g0 =? g); [|intros [-> _]; assumption]. now apply EIk_read.
  - intros [-> _]; assumption.
Qed.

(** NoDup *)
Lemma NDk_step fixed g handlers v x v' e evs :
  NDk v -> kstep_rel fixed g handlers v x v' e evs -> NDk v'.
Proof.
  assert (Hone : forall o : owner, NoDup [o]) by (intros; constructor; [intros []|constructor]).
  intros Hinv. destruct x as [o g0 out|o out order|g0|g0|g0]; cbn [kstep_rel].
  - destruct (g0 =? g); [|intros [-> _]; assumption].
    destruct v as [[l|] i]; unfold NDk in *; cbn [fst] in *.
    + destruct fixed; cbn; intros H; injection H as <- <- <-; cbn;
        intros l' Hl; injection Hl as <-; apply NoDup_add; now apply Hinv.
    + destruct fixed; cbn -[k_get k_handle k_delete].
      * destruct (k_get g (get_mode_of out) i) as [[i1 ev1] got].
        destruct got; cbn [negb].
        -- destruct (k_handle g out handlers i1) as [[i2 ev2] added].
           destruct added; cbn [negb].
           ++ intros H; injection H as <- <- <-; cbn. intros l' Hl; injection Hl as <-. apply Hone.
           ++ destruct (k_delete g false i2) as [[i2' evd] rd].
              intros H; injection H as <- <- <-; cbn. discriminate.
        -- destruct (k_delete g false i1) as [[i1' evd] rd].
           intros H; injection H as <- <- <-; cbn. discriminate.
      * destruct (k_get g (get_mode_of out) i) as [[i1 ev1] got].
        destruct got; cbn [negb].
        -- destruct (k_handle g out handlers i1) as [[i2 ev2] added].
           destruct added; cbn [negb]; intros H; injection H as <- <- <-; cbn;
             intros l' Hl; injection Hl as <-; apply Hone.
        -- intros H; injection H as <- <- <-; cbn. intros l' Hl; injection Hl as <-; apply Hone.
  - intros [(_ & -> & _)|(r & Hk & _)]; [assumption|].
    unfold k_free in Hk. destruct v as [[l|] i]; unfold NDk in *; cbn [fst] in *.
    + destruct (mem o l).
      * destruct (nilb (rem o l)).
        -- destruct (k_delete g _ i) as [[i1 ev1] deleted].
           destruct deleted; cbn [negb] in Hk; injection Hk as <- <- <-; cbn; [discriminate|].
           intros l' Hl; injection Hl as <-. apply NoDup_rem. now apply Hinv.
        -- injection Hk as <- <- <-; cbn. intros l' Hl; injection Hl as <-. apply NoDup_rem. now apply Hinv.
      * injection Hk as <- <- <-. assumption.
    + injection Hk as <- <- <-. assumption.
  - destruct (g0 =? g); [|intros [-> _]; assumption].
    unfold k_read. destruct v as [[l|] i]; unfold NDk in *; cbn [fst] in *.
    + destruct (k_get g GetOk i) as [[i1 ev1] got]. intros H; injection H as <- <- <-. assumption.
    + intros H; injection H as <- <- <-. assumption.
  - destruct (g0 =? g); [|intros [-> _]; assumption].
    unfold k_read. destruct v as [[l|] i]; unfold NDk in *; cbn [fst] in *.
    + destruct (k_get g GetOk i) as [[i1 ev1] got]. intros H; injection H as <- <- <-. assumption.
    + intros H; injection H as <- <- <-. assumption.
  - intros [-> _]; assumption.
Qed.

(** no empty reference entry, as long as informerMap.Delete does not fail *)
Lemma NEk_step fixed g handlers v x v' e evs :
  op_no_delete_failure x = true ->
  NEk v -> kstep_rel fixed g handlers v x v' e evs -> NEk v'.
Proof.
  intros Hok Hinv. destruct x as [o g0 out|o out order|g0|g0|g0]; cbn [kstep_rel].
  - destruct (g0 =? g); [|intros [-> _]; assumption].
    destruct v as [[l|] i]; unfold NEk in *; cbn [fst] in *.
    + destruct fixed; cbn; intros H; injection H as <- <- <-; cbn;
        intros Hl; injection Hl as Hl; now apply add_not_nil in Hl.
    + destruct fixed; cbn -[k_get k_handle k_delete].
      * destruct (k_get g (get_mode_of out) i) as [[i1 ev1] got].
        destruct got; cbn [negb].
        -- destruct (k_handle g out handlers i1) as [[i2 ev2] added].
           destruct added; cbn [negb].
           ++ intros H; injection H as <- <- <-; cbn. discriminate.
           ++ destruct (k_delete g false i2) as [[i2' evd] rd].
              intros H; injection H as <- <- <-; cbn. discriminate.
        -- destruct (k_delete g false i1) as [[i1' evd] rd].
           intros H; injection H as <- <- <-; cbn. discriminate.
      * destruct (k_get g (get_mode_of out) i) as [[i1 ev1] got].
        destruct got; cbn [negb].
        -- destruct (k_handle g out handlers i1) as [[i2 ev2] added].
           destruct added; cbn [negb]; intros H; injection H as <- <- <-; cbn; discriminate.
        -- intros H; injection H as <- <- <-; cbn. discriminate.
  - intros [(_ & -> & _)|(r & Hk & _)]; [assumption|].
    unfold k_free in Hk. destruct v as [[l|] i]; unfold NEk in *; cbn [fst] in *.
    + destruct (mem o l).
      * destruct (nilb (rem o l)) eqn:En.
        -- assert (Hf : match out with informer_delete_fails => true | _ => false end = false)
             by (destruct out; cbn in *; congruence).
           rewrite Hf in Hk. cbn in Hk. injection Hk as <- <- <-. cbn. discriminate.
        -- injection Hk as <- <- <-; cbn. apply nilb_false in En. intros Hl; injection Hl as Hl; contradiction.
      * injection Hk as <- <- <-. assumption.
    + injection Hk as <- <- <-. assumption.
  - destruct (g0 =? g); [|intros [-> _]; assumption].
    unfold k_read. destruct v as [[l|] i]; unfold NEk in *; cbn [fst] in *.
    + destruct (k_get g GetOk i) as [[i1 ev1] got]. intros H; injection H as <- <- <-. assumption.
    + intros H; injection H as <- <- <-. assumption.
  - destruct (g0 =? g); [|intros [-> _]; assumption].
    unfold k_read. destruct v as [[l|] i]; unfold NEk in *; cbn [fst] in *.
    + destruct (k_get g GetOk i) as [[i1 ev1] got]. intros H; injection H as <- <- <-. assumption.
    + intros H; injection H as <- <- <-. assumption.
  - intros [-> _]; assumption.
Qed.

(** an informer runs only for kinds with a reference entry (both models, all outcomes) *)
Lemma REk_step fixed g handlers v x v' e evs :
  REk v -> kstep_rel fixed g handlers v x v' e evs -> REk v'.
Proof.
  intros Hinv. destruct x as [o g0 out|o out order|g0|g0|g0]; cbn [kstep_rel].
  - destruct (g0 =? g); [|intros [-> _]; assumption].
    destruct v as [[l|] i]; unfold REk in *; cbn [fst snd] in *.
    + destruct fixed; cbn; intros H; injection H as <- <- <-; cbn; auto.
    + destruct fixed; cbn -[k_get k_handle k_delete].
      * destruct (k_get g (get_mode_of out) i) as [[i1 ev1] got].
        destruct got; cbn [negb].
        -- destruct (k_handle g out handlers i1) as [[i2 ev2] added].
           destruct added; cbn [negb].
           ++ intros H; injection H as <- <- <-; cbn. auto.
           ++ destruct (k_delete g false i2) as [[i2' evd] rd] eqn:Ed.
              destruct (k_delete_cases _ _ _ _ _ _ Ed) as [(? & _)|(_ & -> & _)]; [discriminate|].
              intros H; injection H as <- <- <-; cbn. tauto.
        -- destruct (k_delete g false i1) as [[i1' evd] rd] eqn:Ed.
           destruct (k_delete_cases _ _ _ _ _ _ Ed) as [(? & _)|(_ & -> & _)]; [discriminate|].
           intros H; injection H as <- <- <-; cbn. tauto.
      * destruct (k_get g (get_mode_of out) i) as [[i1 ev1] got].
        destruct got; cbn [negb].
        -- destruct (k_handle g out handlers i1) as [[i2 ev2] added].
           destruct added; cbn [negb]; intros H; injection H as <- <- <-; cbn; auto.
        -- intros H; injection H as <- <- <-; cbn. auto.
  - intros [(_ & -> & _)|(r & Hk & _)]; [assumption|].
    unfold k_free in Hk. destruct v as [[l|] i]; unfold REk in *; cbn [fst snd] in *.
    + destruct (mem o l).
      * destruct (nilb (rem o l)) eqn:En.
        -- destruct (k_delete g _ i) as [[i1 ev1] deleted] eqn:Ed.
           destruct (k_delete_cases _ _ _ _ _ _ Ed) as [(_ & -> & ->)|(_ & -> & ->)]; cbn [negb] in Hk;
             injection Hk as <- <- <-; cbn; auto.
        -- injection Hk as <- <- <-; cbn. auto.
      * injection Hk as <- <- <-. assumption.
    + injection Hk as <- <- <-. assumption.
  - destruct (g0 =? g); [|intros [-> _]; assumption].
    unfold k_read. destruct v as [[l|] i]; unfold REk in *; cbn [fst snd] in *.
    + destruct (k_get g GetOk i) as [[i1 ev1] got]. intros H; injection H as <- <- <-. cbn. auto.
    + intros H; injection H as <- <- <-. assumption.
  - destruct (g0 =? g); [|intros [-> _]; assumption].
    unfold k_read. destruct v as [[l|] i]; unfold REk in *; cbn [fst snd] in *.
    + destruct (k_get g GetOk i) as [[i1 ev1] got]. intros H; injection H as <- <- <-. cbn. auto.
    + intros H; injection H as <- <- <-. assumption.
  - intros [-> _]; assumption.
Qed.

(** * Lifting per-kind invariants to operation sequences *)
Definition stepf (fixed : bool) := step_with (watch_of fixed).
Definition runf (fixed : bool) := run_with (stepf fixed).

Lemma runf_app fixed s ops x :
  runf fixed s (ops ++ [x]) = fst (stepf fixed (runf fixed s ops) x).
Proof. unfold runf, run_with. now rewrite fold_left_app. Qed.

Lemma run_hs fixed ops : forall s, hs (runf fixed s ops) = hs s.
Proof.
  induction ops as [|x ops IH]; intros s; [reflexivity|].
  unfold runf, run_with in *. cbn. rewrite IH.
  destruct (stepf fixed s x) as [s' o'] eqn:E. now destruct (step_kind _ _ _ _ _ E).
Qed.

Lemma run_invariant fixed (P : list handler -> kview -> Prop) (okop : op -> bool) :
  (forall g handlers v x v' e evs,
      okop x = true -> P handlers v -> kstep_rel fixed g handlers v x v' e evs -> P handlers v') ->
  forall ops s, forallb okop ops = true -> (forall g, P (hs s) (view s g)) ->
  forall g, P (hs s) (view (runf fixed s ops) g).
Proof.
  intros Hstep. induction ops as [|x ops IH]; intros s Hok Hinit g; [apply Hinit|].
  cbn in Hok. apply andb_true_iff in Hok as [Hx Hops].
  unfold runf, run_with in *. cbn [fold_left].
  destruct (stepf fixed s x) as [s' o'] eqn:E. cbn [fst].
  destruct (step_kind _ _ _ _ _ E) as [Hhs Hk].
  rewrite <- Hhs. apply IH; [assumption|]. intros g'. rewrite Hhs.
  eapply Hstep; [exact Hx|apply Hinit|apply Hk].
Qed.

Lemma view_init handlers g : view (init handlers) g = (None, None).
Proof. reflexivity. Qed.

Lemma forallb_true {A} (l : list A) : forallb (fun _ => true) l = true.
Proof. induction l; cbn; auto. Qed.

(** * The clauses of C12 *)
Definition owned (s : state) (g : gvk) : Prop := owners s g <> [].          (* some owner references g *)
Definition running (s : state) (g : gvk) : Prop := lookup g (infs s) <> None. (* an informer runs for g *)
Definition all_handlers (s : state) (g : gvk) : Prop := incl (hs s) (attached s g).

Lemma init_inv (P : list handler -> kview -> Prop) handlers :
  P handlers (None, None) -> forall g, P (hs (init handlers)) (view (init handlers) g).
Proof. intros H g. exact H. Qed.

(** ** Invariants of reachable states *)
Lemma reach_EI fixed handlers ops :
  (fixed = true \/ no_start_failures ops = true) ->
  forall g, EIk handlers (view (runf fixed (init handlers) ops) g).
Proof.
  intros Hok.
  apply (run_invariant fixed EIk (fun x => if fixed then true else op_no_start_failure x)).
  - intros g handlers' v x v' e evs Hx. apply EIk_step. destruct fixed; auto.
  - destruct fixed; [apply forallb_true|]. destruct Hok; [discriminate|assumption].
  - apply init_inv. split; [tauto|discriminate].
Qed.

Lemma reach_ND fixed handlers ops g : NDk (view (runf fixed (init handlers) ops) g).
Proof.
  apply (run_invariant fixed (fun _ => NDk) (fun _ => true)).
  - intros g' handlers' v x v' e evs _. apply NDk_step.
  - apply forallb_true.
  - intros g' l. discriminate.
Qed.

Lemma reach_NE fixed handlers ops g :
  no_delete_failures ops = true -> NEk (view (runf fixed (init handlers) ops) g).
Proof.
  intros Hok. apply (run_invariant fixed (fun _ => NEk) op_no_delete_failure).
  - intros g' handlers' v x v' e evs. apply NEk_step.
  - exact Hok.
  - intros g'. discriminate.
Qed.

Lemma reach_RE fixed handlers ops g : REk (view (runf fixed (init handlers) ops) g).
Proof.
  apply (run_invariant fixed (fun _ => REk) (fun _ => true)).
  - intros g' handlers' v x v' e evs _. apply REk_step.
  - apply forallb_true.
  - intros g' H. now cbn in H.
Qed.

Lemma owned_entry s g : owned s g -> lookup g (refs s) <> None.
Proof. unfold owned, owners. destruct (lookup g (refs s)); [discriminate|congruence]. Qed.

Lemma entry_owned s g : NEk (view s g) -> lookup g (refs s) <> None -> owned s g.
Proof.
  unfold NEk, view, owned, owners. cbn. destruct (lookup g (refs s)) as [l|]; [|congruence].
  intros H _ ->. now apply H.
Qed.

(** ** The repair candidate [Cache_fixed]: full statements *)

(** An informer runs for every kind some owner references, whatever failed before (all outcomes,
    including failing informerMap.Delete). *)
Theorem Cache_fixed_owner_has_informer handlers ops g :
  let s := Cache_fixed.run (init handlers) ops in
  owned s g -> running s g /\ all_handlers s g.
Proof.
  intros s Ho. change s with (runf true (init handlers) ops) in *.
  assert (Hei := reach_EI true handlers ops (or_introl eq_refl) g).
  destruct Hei as [Hiff Hatt]. unfold view in Hiff, Hatt. cbn [fst snd] in Hiff, Hatt.
  apply owned_entry in Ho. apply Hiff in Ho. split; [exact Ho|].
  unfold all_handlers, attached. rewrite run_hs. cbn [init hs].
  unfold running in Ho. destruct (lookup g (infs _)) as [att|] eqn:E; [now apply Hatt|congruence].
Qed.

(** An informer runs for a kind iff some owner references it.  The direction "only if" needs
    informerMap.Delete not to fail: a Delete that fails leaves, by definition, an informer
    running that nobody owns (the real InformerMap.Delete cannot fail, informer_map.go:121-136). *)
Theorem Cache_fixed_inv_informer_iff_owner handlers ops g :
  no_delete_failures ops = true ->
  let s := Cache_fixed.run (init handlers) ops in
  running s g <-> owned s g.
Proof.
  intros Hnd s. split.
  - intros Hr. change s with (runf true (init handlers) ops) in *.
    apply entry_owned; [now apply reach_NE|].
    assert (Hei := reach_EI true handlers ops (or_introl eq_refl) g).
    destruct Hei as [Hiff _]. now apply Hiff.
  - intros Ho. now apply Cache_fixed_owner_has_informer.
Qed.

(** Every running informer has every registered handler (all outcomes). *)
Theorem Cache_fixed_handlers_complete handlers ops g :
  let s := Cache_fixed.run (init handlers) ops in
  running s g -> all_handlers s g.
Proof.
  intros s Hr. change s with (runf true (init handlers) ops) in *.
  assert (Hei := reach_EI true handlers ops (or_introl eq_refl) g).
  destruct Hei as [_ Hatt]. cbn [view snd] in Hatt.
  unfold all_handlers, attached. rewrite run_hs. cbn [init hs].
  unfold running in Hr. destruct (lookup g (infs _)) as [att|] eqn:E; [now apply Hatt|congruence].
Qed.

(** ** The code as it is *)

(** F-C12: the owner reference is recorded before the informer exists and stays when its
    creation fails; the next Watch of the kind then reports success without starting anything. *)
Theorem inv_informer_iff_owner_refuted :
  exists handlers ops g,
    no_delete_failures ops = true /\
    map (fun p => o_err (fst p)) (exec (init handlers) ops) = [ErrInformerGet; ErrNone] /\
    let s := run (init handlers) ops in owned s g /\ ~ running s g.
Proof.
  exists [0; 1], [Watch 0 0 informer_get_fails; Watch 0 0 ok], 0.
  split; [reflexivity|]. split; [reflexivity|]. split.
  - vm_compute. discriminate.
  - vm_compute. intros H. now apply H.
Qed.

(** ... and Get/List then start the informer implicitly, without any event handler. *)
Theorem handlers_complete_refuted :
  exists handlers ops g h,
    no_delete_failures ops = true /\
    map (fun p => o_err (fst p)) (exec (init handlers) ops) = [ErrInformerGet; ErrNone; ErrNone] /\
    let s := run (init handlers) ops in running s g /\ In h (hs s) /\ ~ In h (attached s g).
Proof.
  exists [0; 1], [Watch 0 0 informer_get_fails; Watch 0 0 ok; Get 0], 0, 0.
  split; [reflexivity|]. split; [reflexivity|]. split; [|split].
  - vm_compute. discriminate.
  - vm_compute. auto.
  - vm_compute. tauto.
Qed.

(** What remains true of the code as it is: without start-up failures (and, for "only if",
    without Delete failures) the invariant holds.  Missing: sequences in which informerMap.Get
    or a handler registration failed - exactly the case the property text singles out. *)
Theorem inv_informer_iff_owner_partial handlers ops g :
  no_start_failures ops = true -> no_delete_failures ops = true ->
  let s := run (init handlers) ops in
  running s g <-> owned s g.
Proof.
  intros Hsf Hnd s. change s with (runf false (init handlers) ops) in *.
  assert (Hei := reach_EI false handlers ops (or_intror Hsf) g). destruct Hei as [Hiff _].
  split.
  - intros Hr. apply entry_owned; [now apply reach_NE|]. now apply Hiff.
  - intros Ho. apply owned_entry in Ho. now apply Hiff.
Qed.

Theorem handlers_complete_partial handlers ops g :
  no_start_failures ops = true ->
  let s := run (init handlers) ops in
  running s g -> all_handlers s g.
Proof.
  intros Hsf s Hr. change s with (runf false (init handlers) ops) in *.
  assert (Hei := reach_EI false handlers ops (or_intror Hsf) g).
  destruct Hei as [_ Hatt]. cbn [view snd] in Hatt.
  unfold all_handlers, attached. rewrite run_hs. cbn [init hs].
  unfold running in Hr. destruct (lookup g (infs _)) as [att|] eqn:E; [now apply Hatt|congruence].
Qed.

(** The direction "an informer runs only while somebody references the kind" does hold for the
    code as it is, start-up failures included. *)
Theorem informer_only_if_owner handlers ops g :
  no_delete_failures ops = true ->
  let s := run (init handlers) ops in
  running s g -> owned s g.
Proof.
  intros Hnd s Hr. change s with (runf false (init handlers) ops) in *.
  apply entry_owned; [now apply reach_NE|]. now apply (reach_RE false handlers ops g).
Qed.

(** ** Clauses that hold for both models ([fixed = false]: the code as it is) *)

(** Owner sets never contain an owner twice. *)
Theorem owners_nodup fixed handlers ops g : NoDup (owners (runf fixed (init handlers) ops) g).
Proof.
  pose proof (reach_ND fixed handlers ops g) as H. unfold NDk, view in H. cbn [fst] in H.
  unfold owners. destruct (lookup g (refs _)) as [l|]; [now apply H|constructor].
Qed.

(** Watching is idempotent per owner and kind: after a Watch that reported success, a second
    Watch by the same owner for the same kind (whatever the environment would do) reports success,
    reaches neither the informer map nor any informer, and leaves the state as it is. *)
Theorem watch_idempotent fixed s o g out1 out2 s1 o1 :
  stepf fixed s (Watch o g out1) = (s1, o1) -> o_err o1 = ErrNone ->
  stepf fixed s1 (Watch o g out2) = (s1, mk_out ErrNone []).
Proof.
  intros H1 He.
  assert (Hl : exists l, lookup g (refs s1) = Some l /\ In o l).
  { destruct (step_kind _ _ _ _ _ H1) as [_ Hk]. specialize (Hk g). cbn [kstep_rel] in Hk.
    rewrite N.eqb_refl in Hk. rewrite He in Hk. unfold view in Hk.
    destruct (lookup g (refs s)) as [l|], fixed; cbn -[k_get k_handle k_delete] in Hk.
    1,2: injection Hk as Hk _ _; rewrite <- Hk; eexists; split; [reflexivity|apply In_add; auto].
    - destruct (k_get g (get_mode_of out1) (lookup g (infs s))) as [[i1 ev1] got].
      destruct got; cbn [negb] in Hk.
      + destruct (k_handle g out1 (hs s) i1) as [[i2 ev2] added].
        destruct added; cbn [negb] in Hk.
        * injection Hk as Hk _ _; rewrite <- Hk; eexists; split; [reflexivity|cbn; auto].
        * destruct (k_delete g false i2) as [[? ?] ?]. discriminate.
      + destruct (k_delete g false i1) as [[? ?] ?]. discriminate.
    - destruct (k_get g (get_mode_of out1) (lookup g (infs s))) as [[i1 ev1] got].
      destruct got; cbn [negb] in Hk.
      + destruct (k_handle g out1 (hs s) i1) as [[i2 ev2] added].
        destruct added; cbn [negb] in Hk; [|discriminate].
        injection Hk as Hk _ _; rewrite <- Hk; eexists; split; [reflexivity|cbn; auto].
      + discriminate. }
  destruct Hl as (l & Hl & Hin).
  unfold stepf, step_with, watch_of. destruct fixed.
  - unfold watch_fixed. rewrite Hl, (add_mem _ _ Hin). erewrite upd_same by exact Hl. now destruct s1.
  - unfold watch. rewrite Hl. cbn [is_some]. rewrite Hl, (add_mem _ _ Hin). erewrite upd_same by exact Hl. now destruct s1.
Qed.

(** Freeing an owner drops all and only that owner's references - whatever the order in which the
    kinds are visited, from any state - ... *)
Theorem free_only_that_owner fixed s o out order s' o' :
  stepf fixed s (Free o out order) = (s', o') ->
  forall g o2, o2 <> o -> (In o2 (owners s' g) <-> In o2 (owners s g)).
Proof.
  intros H g o2 Hn. destruct (step_kind _ _ _ _ _ H) as [_ Hk]. specialize (Hk g).
  cbn [kstep_rel] in Hk. unfold owners. unfold view in Hk.
  destruct Hk as [(_ & Hv & _)|(r & Hk & _)].
  - injection Hv as Hr' _. rewrite Hr'. reflexivity.
  - unfold k_free in Hk. destruct (lookup g (refs s)) as [l|].
    + destruct (mem o l).
      * destruct (nilb (rem o l)) eqn:En.
        -- apply nilb_true in En.
           destruct (k_delete g _ _) as [[i1 ev1] deleted].
           destruct deleted; cbn [negb] in Hk; injection Hk as Hr' _ _ _; rewrite <- Hr'.
           ++ split; [intros []|]. intros Hi. assert (Hr : In o2 (rem o l)) by (apply In_rem; auto).
              now rewrite En in Hr.
           ++ rewrite In_rem. tauto.
        -- injection Hk as Hr' _ _ _; rewrite <- Hr'. rewrite In_rem. tauto.
      * injection Hk as Hr' _ _ _; rewrite <- Hr'. reflexivity.
    + injection Hk as Hr' _ _ _; rewrite <- Hr'. reflexivity.
Qed.

(** ... and when it reports success it has dropped every reference of that owner and deleted
    exactly the informers nobody else references. *)
Theorem free_exact fixed s o out order s' o' :
  stepf fixed s (Free o out order) = (s', o') -> o_err o' = ErrNone ->
  (forall g, owners s' g = rem o (owners s g)) /\
  (forall g, running s' g <-> running s g /\ ~ (In o (owners s g) /\ rem o (owners s g) = [])) /\
  (forall g, In (EDelete g true) (o_events o') <-> In o (owners s g) /\ rem o (owners s g) = []) /\
  (forall e, In e (o_events o') -> exists g, e = EDelete g true \/ e = EStop g).
Proof.
  intros H He. destruct (step_kind _ _ _ _ _ H) as [_ Hk].
  assert (Hg : forall g, k_free g o out (view s g) = (view s' g, gev g (o_events o'), true)).
  { intros g. specialize (Hk g). cbn [kstep_rel] in Hk. rewrite He in Hk.
    destruct Hk as [(? & _)|(r & Hk & Hr)]; [discriminate|].
    destruct r; [assumption|]. specialize (Hr eq_refl). discriminate. }
  clear Hk.
  (* what k_free does to one kind when it succeeds *)
  assert (Hcase : forall g,
    let l := owners s g in
    (In o l /\ rem o l = [] /\ view s' g = (None, None) /\
       gev g (o_events o') = EDelete g true :: (if is_some (lookup g (infs s)) then [EStop g] else [])) \/
    (~ (In o l /\ rem o l = []) /\ owners s' g = rem o l /\ lookup g (infs s') = lookup g (infs s) /\
       gev g (o_events o') = [])).
  { intros g. specialize (Hg g). cbv zeta.
    remember (gev g (o_events o')) as evs' eqn:Eevs. clear Eevs.
    unfold owners, view. unfold view in Hg.
    destruct (lookup g (refs s')) as [r1|] eqn:Er', (lookup g (refs s)) as [l|] eqn:Er;
      unfold k_free in Hg.
    - (* entry before and after *)
      destruct (mem o l) eqn:Em.
      + apply mem_In in Em. destruct (nilb (rem o l)) eqn:En.
        * destruct (k_delete g _ _) as [[i1 ev1] deleted]. destruct deleted; cbn [negb] in Hg; discriminate.
        * apply nilb_false in En. right. injection Hg as <- <- <-. tauto.
      + apply mem_false in Em. right. injection Hg as <- <- <-. rewrite (rem_notin _ _ Em). tauto.
    - discriminate.
    - (* entry deleted *)
      destruct (mem o l) eqn:Em.
      + apply mem_In in Em. destruct (nilb (rem o l)) eqn:En.
        * apply nilb_true in En. left.
          destruct out; cbn in Hg; injection Hg as <- <-; try discriminate; auto.
        * discriminate.
      + discriminate.
    - right. injection Hg as <- <-. cbn. tauto. }
  assert (Hin : forall g e, In e (gev g (o_events o')) <-> In e (o_events o') /\ ev_gvk e = g).
  { intros g e. unfold gev. rewrite filter_In, N.eqb_eq. tauto. }
  split; [|split; [|split]].
  - intros g. destruct (Hcase g) as [(Hi & Hr & Hv & _)|(_ & Ho & _)]; [|assumption].
    rewrite Hr. unfold owners. unfold view in Hv. injection Hv as Hv _. now rewrite Hv.
  - intros g. destruct (Hcase g) as [(Hi & Hr & Hv & _)|(Hn & _ & Hi & _)].
    + unfold view in Hv. injection Hv as _ Hv. unfold running. rewrite Hv. tauto.
    + unfold running. rewrite Hi. tauto.
  - intros g. split.
    + intros Hd. assert (Hd' : In (EDelete g true) (gev g (o_events o'))) by (apply Hin; auto).
      destruct (Hcase g) as [(Hi & Hr & _)|(_ & _ & _ & Hnil)]; [tauto|]. rewrite Hnil in Hd'. contradiction.
    + intros [Hi Hr]. destruct (Hcase g) as [(_ & _ & _ & Hev)|(Hn & _)]; [|tauto].
      apply (Hin g). rewrite Hev. now left.
  - intros e Hine. assert (He' : In e (gev (ev_gvk e) (o_events o'))) by (apply Hin; auto).
    destruct (Hcase (ev_gvk e)) as [(_ & _ & _ & Hev)|(_ & _ & _ & Hnil)].
    + rewrite Hev in He'. exists (ev_gvk e). destruct He' as [<-|He']; [now left|].
      destruct (is_some _); [|contradiction]. destruct He' as [<-|[]]. now right.
    + rewrite Hnil in He'. contradiction.
Qed.

(** Reading a kind nobody references fails with CacheNotStartedError and reaches neither the
    informer map nor the state (needs Delete not to fail: a failed Delete leaves an empty
    reference entry behind, see [read_unwatched_after_failed_delete]). *)
Theorem read_unwatched_fails_without_start fixed handlers ops g :
  no_delete_failures ops = true ->
  let s := runf fixed (init handlers) ops in
  ~ owned s g ->
  stepf fixed s (Get g) = (s, mk_out ErrNotStarted []) /\
  stepf fixed s (List g) = (s, mk_out ErrNotStarted []).
Proof.
  intros Hnd s Hno.
  assert (Hnone : lookup g (refs s) = None).
  { destruct (lookup g (refs s)) as [l|] eqn:E; [|reflexivity]. exfalso. apply Hno.
    apply entry_owned; [now apply reach_NE|]. congruence. }
  unfold stepf, step_with, read. now rewrite Hnone.
Qed.

Theorem read_unwatched_after_failed_delete :
  exists handlers ops g,
    let s := run (init handlers) ops in
    ~ owned s g /\ o_err (snd (step s (Get g))) = ErrNone.
Proof.
  exists [0], [Watch 0 0 ok; Free 0 informer_delete_fails []], 0. split.
  - vm_compute. intros H. now apply H.
  - reflexivity.
Qed.

(** The events of an operation describe what happened to the informers: replaying them on the
    informer of a kind before the operation gives the informer after it (both models). *)
Lemma replay_gev g evs : forall i, replay g evs i = replay g (gev g evs) i.
Proof.
  unfold replay, gev. induction evs as [|e evs IH]; intros i; [reflexivity|]. cbn.
  destruct (ev_gvk e =? g) eqn:E; cbn; [apply IH|].
  rewrite <- IH. f_equal. destruct e as [g0 b|g0|g0 h b|g0 b|g0]; cbn in *; rewrite ?E; try reflexivity.
  now destruct b.
Qed.

Lemma replay_app g a b i : replay g (a ++ b) i = replay g b (replay g a i).
Proof. unfold replay. apply fold_left_app. Qed.

Lemma k_get_replay g mode i i' evs r : k_get g mode i = (i', evs, r) -> replay g evs i = i'.
Proof.
  unfold k_get. destruct mode, i; intros H; injection H as <- <- <-; cbn; rewrite ?N.eqb_refl; reflexivity.
Qed.

Lemma k_delete_replay g fails i i' evs r : k_delete g fails i = (i', evs, r) -> replay g evs i = i'.
Proof.
  unfold k_delete. destruct fails, i; intros H; injection H as <- <- <-; cbn; rewrite ?N.eqb_refl; reflexivity.
Qed.

Lemma k_handle_replay g out handlers i i' evs r :
  k_handle g out handlers i = (i', evs, r) -> replay g evs i = i'.
Proof.
  unfold k_handle. destruct i as [att|].
  - destruct (add_handlers g handlers 0 (failk_of out) att) as [[a e] r0] eqn:E.
    intros H; injection H as <- <- <-. eapply add_handlers_replay; eassumption.
  - intros H; injection H as <- <- <-. reflexivity.
Qed.

Lemma kstep_replay fixed g handlers v x v' e evs :
  kstep_rel fixed g handlers v x v' e evs -> replay g evs (snd v) = snd v'.
Proof.
  assert (Hread : forall v v' e evs, k_read g v = (v', e, evs) -> replay g evs (snd v) = snd v').
  { intros [[l|] i] w e0 evs0; unfold k_read.
    - destruct (k_get g GetOk i) as [[i1 ev1] got] eqn:Eg. intros H; injection H as <- <- <-.
      eapply k_get_replay; eassumption.
    - intros H; injection H as <- <- <-. reflexivity. }
  destruct x as [o g0 out|o out order|g0|g0|g0]; cbn [kstep_rel].
  - destruct (g0 =? g); [|intros [-> ->]; reflexivity].
    destruct v as [[l|] i]; cbn [snd].
    + destruct fixed; cbn; intros H; injection H as <- <- <-; reflexivity.
    + destruct fixed; cbn -[k_get k_handle k_delete].
      * destruct (k_get g (get_mode_of out) i) as [[i1 ev1] got] eqn:Eg.
        pose proof (k_get_replay _ _ _ _ _ _ Eg) as R1.
        destruct got; cbn [negb].
        -- destruct (k_handle g out handlers i1) as [[i2 ev2] added] eqn:Eh.
           pose proof (k_handle_replay _ _ _ _ _ _ _ Eh) as R2.
           destruct added; cbn [negb].
           ++ intros H; injection H as <- <- <-; cbn. now rewrite replay_app, R1.
           ++ destruct (k_delete g false i2) as [[i2' evd] rd] eqn:Ed.
              pose proof (k_delete_replay _ _ _ _ _ _ Ed) as R3.
              intros H; injection H as <- <- <-; cbn. now rewrite !replay_app, R1, R2.
        -- destruct (k_delete g false i1) as [[i1' evd] rd] eqn:Ed.
           pose proof (k_delete_replay _ _ _ _ _ _ Ed) as R3.
           intros H; injection H as <- <- <-; cbn. now rewrite replay_app, R1.
      * destruct (k_get g (get_mode_of out) i) as [[i1 ev1] got] eqn:Eg.
        pose proof (k_get_replay _ _ _ _ _ _ Eg) as R1.
        destruct got; cbn [negb].
        -- destruct (k_handle g out handlers i1) as [[i2 ev2] added] eqn:Eh.
           pose proof (k_handle_replay _ _ _ _ _ _ _ Eh) as R2.
           destruct added; cbn [negb]; intros H; injection H as <- <- <-; cbn; now rewrite replay_app, R1.
        -- intros H; injection H as <- <- <-; cbn. assumption.
  - intros [(_ & -> & ->)|(r & Hk & _)]; [reflexivity|].
    unfold k_free in Hk. destruct v as [[l|] i]; cbn [snd].
    + destruct (mem o l).
      * destruct (nilb (rem o l)).
        -- destruct (k_delete g _ i) as [[i1 ev1] deleted] eqn:Ed.
           pose proof (k_delete_replay _ _ _ _ _ _ Ed) as R.
           destruct deleted; cbn [negb] in Hk; injection Hk as <- <- <-; assumption.
        -- injection Hk as <- <- <-. reflexivity.
      * injection Hk as <- <- <-. reflexivity.
    + injection Hk as <- <- <-. reflexivity.
  - destruct (g0 =? g); [apply Hread|intros [-> ->]; reflexivity].
  - destruct (g0 =? g); [apply Hread|intros [-> ->]; reflexivity].
  - intros [-> ->]; reflexivity.
Qed.

Theorem events_faithful fixed s x s' o' g :
  stepf fixed s x = (s', o') -> replay g (o_events o') (lookup g (infs s)) = lookup g (infs s').
Proof.
  intros H. destruct (step_kind _ _ _ _ _ H) as [_ Hk]. rewrite replay_gev.
  apply (kstep_replay _ _ _ _ _ _ _ _ (Hk g)).
Qed.

(** * Concurrent callers as interleavings of atomic steps

    [interleaving ps ops]: [ops] is a merge of the callers' programs [ps] that keeps every caller's own
    order.  The clauses above quantify over ALL operation sequences, so they hold in particular after
    every interleaving.  What this does not cover is whether a call of the implementation really is one
    atomic step (whether informerReferencesMux is held from the first look at informerReferences to the
    last use of the informer); that is what the overlapping-call runs of the check test. *)
Inductive interleaving : list (list op) -> list op -> Prop :=
| il_done ps : Forall (fun p => p = []) ps -> interleaving ps []
| il_step ps1 x p ps2 ops :
    interleaving (ps1 ++ p :: ps2) ops -> interleaving (ps1 ++ (x :: p) :: ps2) (x :: ops).

Lemma interleaving_forallb (P : op -> bool) ps ops :
  interleaving ps ops -> Forall (fun p => forallb P p = true) ps -> forallb P ops = true.
Proof.
  induction 1 as [ps _|ps1 x p ps2 ops _ IH]; intros Hall; [reflexivity|].
  apply Forall_app in Hall as [H1 H2]. inversion H2 as [|? ? Hx H3]; subst.
  cbn in Hx. apply andb_true_iff in Hx as [Hx Hp]. cbn. rewrite Hx. cbn.
  apply IH. apply Forall_app. split; [assumption|]. constructor; assumption.
Qed.

Theorem any_interleaving_of_atomic_steps_keeps_invariant handlers ps ops g :
  interleaving ps ops ->
  Forall (fun p => no_delete_failures p = true) ps ->
  let s := Cache_fixed.run (init handlers) ops in
  (running s g <-> owned s g) /\ (running s g -> all_handlers s g) /\ NoDup (owners s g).
Proof.
  intros Hil Hnd s.
  assert (Hops : no_delete_failures ops = true) by (eapply interleaving_forallb; eassumption).
  split; [now apply Cache_fixed_inv_informer_iff_owner|].
  split; [apply Cache_fixed_handlers_complete|apply (owners_nodup true)].
Qed.

(** The same for the code before the repair, when no informer start fails. *)
Theorem any_interleaving_of_atomic_steps_keeps_invariant_partial handlers ps ops g :
  interleaving ps ops ->
  Forall (fun p => no_start_failures p = true) ps ->
  Forall (fun p => no_delete_failures p = true) ps ->
  let s := run (init handlers) ops in
  (running s g <-> owned s g) /\ (running s g -> all_handlers s g) /\ NoDup (owners s g).
Proof.
  intros Hil Hsf Hnd s.
  assert (Hops : no_delete_failures ops = true) by (eapply interleaving_forallb; eassumption).
  assert (Hops' : no_start_failures ops = true) by (eapply interleaving_forallb; eassumption).
  split; [now apply inv_informer_iff_owner_partial|].
  split; [now apply handlers_complete_partial|apply (owners_nodup false)].
Qed.

Example interleaving_example :
  interleaving [[Watch 0 0 ok; Free 0 ok []]; [Get 0; Watch 1 0 ok]]
               [Watch 0 0 ok; Get 0; Free 0 ok []; Watch 1 0 ok].
Proof.
  apply (il_step [] (Watch 0 0 ok) [Free 0 ok []] [[Get 0; Watch 1 0 ok]]).
  apply (il_step [[Free 0 ok []]] (Get 0) [Watch 1 0 ok] []).
  apply (il_step [] (Free 0 ok []) [] [[Watch 1 0 ok]]).
  apply (il_step [[]] (Watch 1 0 ok) [] []).
  apply il_done. repeat constructor.
Qed.

(** * No leaked informer

    Every informer ever started is either still the map's entry for its kind or has been stopped: at
    any time the number of informers of a kind that were started and not stopped is 1 if the map has an
    entry for the kind and 0 otherwise - whatever fails (informerMap.Get before or after starting the
    informer, handler registration, informerMap.Delete), for both models. *)
Definition b2n (b : bool) : nat := if b then 1%nat else 0%nat.

Lemma live_from_app g a b n : live_from g (a ++ b) n = live_from g b (live_from g a n).
Proof. unfold live_from. apply fold_left_app. Qed.

Lemma live_from_gev g evs : forall n, live_from g evs n = live_from g (gev g evs) n.
Proof.
  unfold live_from, gev. induction evs as [|e evs IH]; intros n; [reflexivity|]. cbn.
  destruct (ev_gvk e =? g) eqn:E; cbn; [apply IH|].
  rewrite <- IH. f_equal. destruct e as [g0 b|g0|g0 h b|g0 b|g0]; cbn in *; rewrite ?E; reflexivity.
Qed.

Lemma k_get_live g mode i i' evs r :
  k_get g mode i = (i', evs, r) -> live_from g evs (b2n (is_some i)) = b2n (is_some i').
Proof.
  unfold k_get. destruct mode, i; intros H; injection H as <- <- <-; cbn; rewrite ?N.eqb_refl; reflexivity.
Qed.

Lemma k_delete_live g fails i i' evs r :
  k_delete g fails i = (i', evs, r) -> live_from g evs (b2n (is_some i)) = b2n (is_some i').
Proof.
  unfold k_delete. destruct fails, i; intros H; injection H as <- <- <-; cbn; rewrite ?N.eqb_refl; reflexivity.
Qed.

Lemma add_handlers_live g todo : forall i failk att att' evs r n,
  add_handlers g todo i failk att = (att', evs, r) -> live_from g evs n = n.
Proof.
  induction todo as [|h todo IH]; cbn; intros i failk att att' evs r n H.
  - injection H as <- <- <-. reflexivity.
  - destruct (match failk with Some k => i =? k | None => false end).
    + injection H as <- <- <-. reflexivity.
    + destruct (add_handlers g todo (i + 1) failk (att ++ [h])) as [[a e] r0] eqn:E.
      injection H as <- <- <-. cbn. eapply IH; eassumption.
Qed.

Lemma k_handle_live g out handlers i i' evs r :
  k_handle g out handlers i = (i', evs, r) ->
  live_from g evs (b2n (is_some i)) = b2n (is_some i').
Proof.
  unfold k_handle. destruct i as [att|].
  - destruct (add_handlers g handlers 0 (failk_of out) att) as [[a e] r0] eqn:E.
    intros H; injection H as <- <- <-. cbn [is_some]. eapply add_handlers_live; eassumption.
  - intros H; injection H as <- <- <-. reflexivity.
Qed.

Lemma kstep_live fixed g handlers v x v' e evs :
  kstep_rel fixed g handlers v x v' e evs ->
  live_from g evs (b2n (is_some (snd v))) = b2n (is_some (snd v')).
Proof.
  assert (Hread : forall v v' e evs, k_read g v = (v', e, evs) ->
            live_from g evs (b2n (is_some (snd v))) = b2n (is_some (snd v'))).
  { intros [[l|] i] w e0 evs0; unfold k_read.
    - destruct (k_get g GetOk i) as [[i1 ev1] got] eqn:Eg. intros H; injection H as <- <- <-.
      eapply k_get_live; eassumption.
    - intros H; injection H as <- <- <-. reflexivity. }
  destruct x as [o g0 out|o out order|g0|g0|g0]; cbn [kstep_rel].
  - destruct (g0 =? g); [|intros [-> ->]; reflexivity].
    destruct v as [[l|] i]; cbn [snd].
    + destruct fixed; cbn; intros H; injection H as <- <- <-; reflexivity.
    + destruct fixed; cbn -[k_get k_handle k_delete].
      * destruct (k_get g (get_mode_of out) i) as [[i1 ev1] got] eqn:Eg.
        pose proof (k_get_live _ _ _ _ _ _ Eg) as R1.
        destruct got; cbn [negb].
        -- destruct (k_handle g out handlers i1) as [[i2 ev2] added] eqn:Eh.
           pose proof (k_handle_live _ _ _ _ _ _ _ Eh) as R2.
           destruct added; cbn [negb].
           ++ intros H; injection H as <- <- <-; cbn. now rewrite live_from_app, R1.
           ++ destruct (k_delete g false i2) as [[i2' evd] rd] eqn:Ed.
              pose proof (k_delete_live _ _ _ _ _ _ Ed) as R3.
              intros H; injection H as <- <- <-; cbn. now rewrite !live_from_app, R1, R2.
        -- destruct (k_delete g false i1) as [[i1' evd] rd] eqn:Ed.
           pose proof (k_delete_live _ _ _ _ _ _ Ed) as R3.
           intros H; injection H as <- <- <-; cbn. now rewrite live_from_app, R1.
      * destruct (k_get g (get_mode_of out) i) as [[i1 ev1] got] eqn:Eg.
        pose proof (k_get_live _ _ _ _ _ _ Eg) as R1.
        destruct got; cbn [negb].
        -- destruct (k_handle g out handlers i1) as [[i2 ev2] added] eqn:Eh.
           pose proof (k_handle_live _ _ _ _ _ _ _ Eh) as R2.
           destruct added; cbn [negb]; intros H; injection H as <- <- <-; cbn; now rewrite live_from_app, R1.
        -- intros H; injection H as <- <- <-; cbn. assumption.
  - intros [(_ & -> & ->)|(r & Hk & _)]; [reflexivity|].
    unfold k_free in Hk. destruct v as [[l|] i]; cbn [snd].
    + destruct (mem o l).
      * destruct (nilb (rem o l)).
        -- destruct (k_delete g _ i) as [[i1 ev1] deleted] eqn:Ed.
           pose proof (k_delete_live _ _ _ _ _ _ Ed) as R.
           destruct deleted; cbn [negb] in Hk; injection Hk as <- <- <-; assumption.
        -- injection Hk as <- <- <-. reflexivity.
      * injection Hk as <- <- <-. reflexivity.
    + injection Hk as <- <- <-. reflexivity.
  - destruct (g0 =? g); [apply Hread|intros [-> ->]; reflexivity].
  - destruct (g0 =? g); [apply Hread|intros [-> ->]; reflexivity].
  - intros [-> ->]; reflexivity.
Qed.

Lemma step_live fixed s x s' o' g :
  stepf fixed s x = (s', o') ->
  live_from g (o_events o') (b2n (runningb s g)) = b2n (runningb s' g).
Proof.
  intros H. destruct (step_kind _ _ _ _ _ H) as [_ Hk]. rewrite live_from_gev.
  apply (kstep_live _ _ _ _ _ _ _ _ (Hk g)).
Qed.

Lemma exec_live fixed g ops : forall s,
  live_from g (history (exec_with (stepf fixed) s ops)) (b2n (runningb s g))
  = b2n (runningb (runf fixed s ops) g).
Proof.
  induction ops as [|x ops IH]; intros s; [reflexivity|].
  unfold runf, run_with in *. cbn [exec_with fold_left].
  destruct (stepf fixed s x) as [s' o'] eqn:E. cbn [history flat_map fst].
  rewrite live_from_app, (step_live _ _ _ _ _ g E). apply IH.
Qed.

Theorem no_leaked_informer fixed handlers ops g :
  live g (history (exec_with (stepf fixed) (init handlers) ops))
  = if runningb (runf fixed (init handlers) ops) g then 1%nat else 0%nat.
Proof. apply (exec_live fixed g ops (init handlers)). Qed.

(** Hence never two informers of one kind, and none for a kind nobody references (repaired model). *)
Corollary Cache_fixed_informers_match_owners handlers ops g :
  no_delete_failures ops = true ->
  let s := Cache_fixed.run (init handlers) ops in
  live g (history (Cache_fixed.exec (init handlers) ops)) = if nilb (owners s g) then 0%nat else 1%nat.
Proof.
  intros Hnd s. subst s.
  change (Cache_fixed.exec (init handlers) ops) with (exec_with (stepf true) (init handlers) ops).
  change (Cache_fixed.run (init handlers) ops) with (runf true (init handlers) ops).
  rewrite no_leaked_informer.
  pose proof (Cache_fixed_inv_informer_iff_owner handlers ops g Hnd) as Hiff. cbv zeta in Hiff.
  change (Cache_fixed.run (init handlers) ops) with (runf true (init handlers) ops) in Hiff.
  unfold running, owned, runningb in *.
  destruct (lookup g (infs (runf true (init handlers) ops))) as [a|],
           (owners (runf true (init handlers) ops) g) as [|o l]; cbn; try reflexivity; exfalso.
  - apply (proj1 Hiff); [discriminate|reflexivity].
  - apply (proj2 Hiff); [discriminate|reflexivity].
Qed.

(** * Reads of a watched kind return what the informer holds

    Whatever sequence of operations led to the state - whoever watched the kind first, with whatever
    sample object, whatever failed - a Get of a kind some owner references finds an object iff the
    informer's store has it under the scope-normalised key (namespace ignored for cluster-scoped kinds),
    and returns that object. *)
Lemma key_eqb_eq a b : key_eqb a b = true <-> a = b.
Proof.
  destruct a as [a1 a2], b as [b1 b2]. unfold key_eqb. cbn.
  rewrite andb_true_iff, !N.eqb_eq. split; [intros [-> ->]; reflexivity|intros H; injection H; auto].
Qed.

Theorem read_watched_returns_store fixed handlers ops scope store g ns n :
  let s := runf fixed (init handlers) ops in
  owned s g ->
  let k := store_key scope g ns n in
  (In k (store g) -> cache_get scope store s g ns n = Some (Some k)) /\
  (~ In k (store g) -> cache_get scope store s g ns n = Some None).
Proof.
  intros s Ho k. apply owned_entry in Ho. unfold cache_get.
  destruct (lookup g (refs s)) as [l|]; [|congruence]. fold k.
  destruct (existsb (key_eqb k) (store g)) eqn:E.
  - split; [reflexivity|]. intros Hn. exfalso. apply Hn.
    apply existsb_exists in E as (k' & Hin & He). apply key_eqb_eq in He. now subst.
  - split; [|reflexivity]. intros Hin. exfalso.
    assert (Ht : existsb (key_eqb k) (store g) = true).
    { apply existsb_exists. exists k. split; [assumption|now apply key_eqb_eq]. }
    congruence.
Qed.

(** For a cluster-scoped kind the namespace the caller puts into the key is irrelevant. *)
Theorem read_cluster_scoped_ignores_namespace scope store s g ns ns' n :
  scope g = false -> cache_get scope store s g ns n = cache_get scope store s g ns' n.
Proof. intros H. unfold cache_get, store_key. now rewrite H. Qed.

(** For a namespaced kind the lookup is by namespace and name. *)
Theorem read_namespaced_by_namespace fixed handlers ops scope store g ns n :
  let s := runf fixed (init handlers) ops in
  owned s g -> scope g = true ->
  cache_get scope store s g ns n = Some (if existsb (key_eqb (ns, n)) (store g) then Some (ns, n) else None).
Proof.
  intros s Ho Hs. apply owned_entry in Ho. unfold cache_get, store_key. rewrite Hs.
  destruct (lookup g (refs s)); [reflexivity|congruence].
Qed.

(** List of a watched kind: everything the informer holds, or what it holds in the given namespace. *)
Theorem list_watched_returns_store fixed handlers ops store g ns :
  let s := runf fixed (init handlers) ops in
  owned s g ->
  exists l, cache_list store s g ns = Some l /\
            forall k, In k l <-> In k (store g) /\ (ns = 0 \/ fst k = ns).
Proof.
  intros s Ho. apply owned_entry in Ho. unfold cache_list.
  destruct (lookup g (refs s)); [|congruence]. eexists. split; [reflexivity|].
  intros k. destruct (ns =? 0) eqn:E.
  - apply N.eqb_eq in E. tauto.
  - apply N.eqb_neq in E. rewrite filter_In, N.eqb_eq. tauto.
Qed.

(** * The owner-deletion helper frees before the finalizer goes

    Whenever FreeCacheAndRemoveFinalizer lets go of the owner - it returns nil, or its patch reaches the
    API server at all (applied, lost response, or answered NotFound because the owner is already gone) -
    Cache.Free has run and succeeded: the owner is in no owner set and exactly the informers nobody else
    needs are stopped.  When Free fails no patch is sent, so the finalizer stays and the owner is
    reconciled again. *)
Theorem helper_frees_before_finalizer_goes fixed s o out order has_fin p s' fo sent r :
  free_and_remove_finalizer (stepf fixed) s o out order has_fin p = (s', fo, sent, r) ->
  sent = true \/ r = RetNil ->
  stepf fixed s (Free o out order) = (s', fo) /\ o_err fo = ErrNone /\
  (forall g, owners s' g = rem o (owners s g)) /\
  (forall g, ~ In o (owners s' g)) /\
  (forall g, running s' g <-> running s g /\ ~ (In o (owners s g) /\ rem o (owners s g) = [])).
Proof.
  unfold free_and_remove_finalizer. destruct (stepf fixed s (Free o out order)) as [s1 o1] eqn:E. cbn [fst snd].
  intros H Hrel.
  assert (He : o_err o1 = ErrNone).
  { destruct (o_err o1); try reflexivity; injection H as _ _ <- <-; destruct Hrel; discriminate. }
  rewrite He in H. injection H as <- <- _ _.
  destruct (free_exact _ _ _ _ _ _ _ E He) as (Ho & Hr & _).
  split; [reflexivity|]. split; [exact He|]. split; [exact Ho|]. split; [|exact Hr].
  intros g Hin. rewrite Ho in Hin. apply In_rem in Hin. tauto.
Qed.

Theorem helper_failed_free_keeps_finalizer fixed s o out order has_fin p s' fo sent r :
  free_and_remove_finalizer (stepf fixed) s o out order has_fin p = (s', fo, sent, r) ->
  o_err fo <> ErrNone -> sent = false /\ r = RetFreeErr.
Proof.
  unfold free_and_remove_finalizer. destruct (stepf fixed s (Free o out order)) as [s1 o1]. cbn [fst snd].
  destruct (o_err o1) eqn:E; intros H; injection H as <- <- <- <-; intros Hn; try (split; reflexivity).
  now rewrite E in Hn.
Qed.

(** In particular for an owner that no longer exists (patch answered NotFound). *)
Corollary helper_owner_gone_is_freed fixed s o out order s' fo sent r :
  free_and_remove_finalizer (stepf fixed) s o out order true patch_not_found = (s', fo, sent, r) ->
  o_err fo = ErrNone ->
  sent = true /\ (forall g, ~ In o (owners s' g)).
Proof.
  intros H He.
  assert (Hs : sent = true).
  { unfold free_and_remove_finalizer in H. destruct (stepf fixed s (Free o out order)) as [s1 o1]. cbn [fst snd] in *.
    destruct (o_err o1) eqn:E; injection H as <- <- <- <-; try reflexivity; rewrite E in He; discriminate. }
  split; [exact Hs|]. now destruct (helper_frees_before_finalizer_goes _ _ _ _ _ _ _ _ _ _ _ H (or_introl Hs)) as (_ & _ & _ & Hn & _).
Qed.
