(** C01/C02: the adoption decision ladder is equivalent to the property's "permitted" predicate. *)
From Coq Require Import List NArith ZArith Bool Lia.
From PKO Require Import Util Base BaseProofs Owner.
Import ListNotations.
Local Open Scope N_scope.

(** Effective collision protection: forced adoption and the self-bootstrap label count as None. *)
Definition eff_cp (force : bool) (o : obj) (cp : cprot) : cprot :=
  if force || (o_pkg o =? 1) then CPNone else cp.

(** The property's wording: recorded revision not higher than the owner's, and
    None: always; IfNoController: additionally if it has no controller; Prevent (and the fallback of
    IfNoController): controller is a declared previous revision with a lower recorded revision. *)
Definition permitted (s : strat) (force : bool) (ow : owner) (o : obj) (prev : list prevrev) (cp : cprot) : bool :=
  match obj_revision o with
  | None => false
  | Some r =>
      (r <=? ow_rev ow)%Z &&
      match eff_cp force o cp with
      | CPNone => true
      | CPIfNoController => negb (has_controller s o) || (controlled_by_previous s o prev && (r <? ow_rev ow)%Z)
      | CPPrevent => controlled_by_previous s o prev && (r <? ow_rev ow)%Z
      end
  end.

Definition newer (ow : owner) (o : obj) : bool :=
  match obj_revision o with Some r => (ow_rev ow <? r)%Z | None => false end.

Definition rev_unparsable (o : obj) : bool :=
  match obj_revision o with None => true | Some _ => false end.

Lemma check_adopt_iff s force ow o prev cp :
  is_controller s (ow_id ow) o = false ->
  (check_adoption s force ow o prev cp = Adopt <-> permitted s force ow o prev cp = true).
Proof.
  intros Hc. unfold check_adoption, permitted, eff_cp. rewrite Hc.
  destruct (obj_revision o) as [r|]; [|split; discriminate].
  destruct (ow_rev ow <? r)%Z eqn:E1.
  - apply Z.ltb_lt in E1. assert ((r <=? ow_rev ow)%Z = false) as -> by (apply Z.leb_gt; lia). cbn. split; discriminate.
  - apply Z.ltb_ge in E1. assert ((r <=? ow_rev ow)%Z = true) as -> by (apply Z.leb_le; lia). cbn [andb].
    destruct (force || (o_pkg o =? 1)); [tauto|].
    destruct cp; cbn.
    + destruct (controlled_by_previous s o prev); cbn; [|split; discriminate].
      destruct (r =? ow_rev ow)%Z eqn:E2.
      * apply Z.eqb_eq in E2. assert ((r <? ow_rev ow)%Z = false) as -> by (apply Z.ltb_ge; lia). split; discriminate.
      * apply Z.eqb_neq in E2. assert ((r <? ow_rev ow)%Z = true) as -> by (apply Z.ltb_lt; lia). tauto.
    + destruct (has_controller s o); cbn; [|tauto].
      destruct (controlled_by_previous s o prev); cbn; [|split; discriminate].
      destruct (r =? ow_rev ow)%Z eqn:E2.
      * apply Z.eqb_eq in E2. assert ((r <? ow_rev ow)%Z = false) as -> by (apply Z.ltb_ge; lia). split; discriminate.
      * apply Z.eqb_neq in E2. assert ((r <? ow_rev ow)%Z = true) as -> by (apply Z.ltb_lt; lia). tauto.
    + tauto.
Qed.

Lemma check_leave_iff s force ow o prev cp :
  is_controller s (ow_id ow) o = false ->
  (check_adoption s force ow o prev cp = LeaveNewer <-> newer ow o = true).
Proof.
  intros Hc. unfold check_adoption, newer. rewrite Hc.
  destruct (obj_revision o) as [r|]; [|split; discriminate].
  destruct (ow_rev ow <? r)%Z; [tauto|].
  split; [|discriminate].
  destruct (if force || (o_pkg o =? 1) then CPNone else cp); try discriminate;
  repeat match goal with |- context [if ?b then _ else _] => destruct b end; discriminate.
Qed.

Lemma check_already_iff s force ow o prev cp :
  check_adoption s force ow o prev cp = AlreadyController <-> is_controller s (ow_id ow) o = true.
Proof.
  unfold check_adoption. destruct (is_controller s (ow_id ow) o); [tauto|].
  split; [|discriminate].
  destruct (obj_revision o); [|discriminate].
  destruct (ow_rev ow <? z)%Z; [discriminate|].
  destruct (if force || (o_pkg o =? 1) then CPNone else cp); try discriminate;
  repeat match goal with |- context [if ?b then _ else _] => destruct b end; discriminate.
Qed.

Definition is_refusal (a : adoption) : bool :=
  match a with RefuseNotPrevious | RefuseRevCollision => true | _ => false end.

(** Refusal (reported as CollisionDetected) exactly when adoption is not permitted although the object
    does not belong to a newer revision and its revision is readable. *)
Lemma check_refuse_iff s force ow o prev cp :
  is_controller s (ow_id ow) o = false ->
  (is_refusal (check_adoption s force ow o prev cp) = true <->
   permitted s force ow o prev cp = false /\ newer ow o = false /\ rev_unparsable o = false).
Proof.
  intros Hc.
  pose proof (check_adopt_iff s force ow o prev cp Hc) as HA.
  pose proof (check_leave_iff s force ow o prev cp Hc) as HL.
  pose proof (check_already_iff s force ow o prev cp) as HC. rewrite Hc in HC.
  assert (HP : check_adoption s force ow o prev cp = RevParseError <-> rev_unparsable o = true).
  { unfold check_adoption, rev_unparsable. rewrite Hc. destruct (obj_revision o); [|tauto].
    split; [|discriminate]. destruct (ow_rev ow <? z)%Z; [discriminate|].
    destruct (if force || (o_pkg o =? 1) then CPNone else cp); try discriminate;
    repeat match goal with |- context [if ?b then _ else _] => destruct b end; discriminate. }
  destruct (check_adoption s force ow o prev cp) eqn:E; cbn.
  - destruct HC as [HC _]. specialize (HC eq_refl). discriminate.
  - destruct HL as [HL _]. rewrite (HL eq_refl). split; [discriminate|intros (_ & H & _); discriminate].
  - destruct HA as [HA _]. rewrite (HA eq_refl). split; [discriminate|intros (H & _); discriminate].
  - split; [intros _|reflexivity]. repeat split.
    + destruct (permitted s force ow o prev cp); [|reflexivity]. destruct HA as [_ HA]. specialize (HA eq_refl). discriminate.
    + destruct (newer ow o); [|reflexivity]. destruct HL as [_ HL]. specialize (HL eq_refl). discriminate.
    + destruct (rev_unparsable o); [|reflexivity]. destruct HP as [_ HP]. specialize (HP eq_refl). discriminate.
  - split; [intros _|reflexivity]. repeat split.
    + destruct (permitted s force ow o prev cp); [|reflexivity]. destruct HA as [_ HA]. specialize (HA eq_refl). discriminate.
    + destruct (newer ow o); [|reflexivity]. destruct HL as [_ HL]. specialize (HL eq_refl). discriminate.
    + destruct (rev_unparsable o); [|reflexivity]. destruct HP as [_ HP]. specialize (HP eq_refl). discriminate.
  - destruct HP as [HP _]. rewrite (HP eq_refl). split; [discriminate|intros (_ & _ & H); discriminate].
Qed.

(** C02(a): adoption never reaches up to a higher revision. *)
Lemma adopt_rev_le s force ow o prev cp :
  check_adoption s force ow o prev cp = Adopt -> exists r, obj_revision o = Some r /\ (r <= ow_rev ow)%Z.
Proof.
  unfold check_adoption. destruct (is_controller s (ow_id ow) o); [discriminate|].
  destruct (obj_revision o) as [r|]; [|discriminate].
  destruct (ow_rev ow <? r)%Z eqn:E; [discriminate|]. apply Z.ltb_ge in E. intros _. exists r. split; [reflexivity|lia].
Qed.
