(** API-server semantics as implemented by the harness's recording server
    (harness/cmd/verif-harness/store.go): the executable twin of this file.
    Trusted; kept aligned by the correspondence runs themselves (every compared
    post-store goes through these functions). *)
From Coq Require Import List NArith ZArith Bool.
From PKO Require Import Util Base Owner.
Import ListNotations.
Local Open Scope N_scope.

Record world := { w_store : store; w_rv : N; w_uid : N }.   (* next resourceVersion / uid to hand out *)

Definition with_store (w : world) (s : store) : world := {| w_store := s; w_rv := w_rv w; w_uid := w_uid w |}.

(** What a server-side apply request of the phase reconciler carries. *)
Record applied := {
  ap_body : N;
  ap_owners : list oref;            (* metadata.ownerReferences in the patch *)
  ap_aowners : option (list oref);  (* owners annotation in the patch, if the strategy uses it *)
  ap_rev : Z;                       (* revision annotation *)
  ap_pkg : N                        (* package label, 0 = not in the patch *)
}.

(** ownerReferences is a list-map keyed by uid: entries of the patch replace
    entries with the same uid, others are appended; entries not in the patch stay. *)
Definition merge_refs (stored patch : list oref) : list oref :=
  map (fun r => match find (fun p => r_uid p =? r_uid r) patch with Some p => p | None => r end) stored ++
  filter (fun p => negb (existsb (fun r => r_uid r =? r_uid p) stored)) patch.

Definition apply_to (ap : applied) (o : obj) : obj :=
  {| o_uid := o_uid o; o_rv := o_rv o;
     o_gen := if o_body o =? ap_body ap then o_gen o else (o_gen o + 1)%Z;
     o_owners := merge_refs (o_owners o) (ap_owners ap);
     o_aowners := match ap_aowners ap with Some l => l | None => o_aowners o end;
     o_rev := RevNum (ap_rev ap);
     o_cache := true;
     o_pkg := if ap_pkg ap =? 0 then o_pkg o else ap_pkg ap;
     o_body := ap_body ap;
     o_avail := o_avail o; o_obsgen := o_obsgen o; o_deleting := o_deleting o; o_fin := o_fin o |}.

Definition fresh_obj (ap : applied) (uid rv : N) : obj :=
  {| o_uid := uid; o_rv := rv; o_gen := 1%Z;
     o_owners := ap_owners ap;
     o_aowners := match ap_aowners ap with Some l => l | None => [] end;
     o_rev := RevNum (ap_rev ap); o_cache := true; o_pkg := ap_pkg ap; o_body := ap_body ap;
     o_avail := 0; o_obsgen := None; o_deleting := false; o_fin := false |}.

(** Validation of metadata.ownerReferences: at most one reference may be the controller. *)
Definition refs_valid (l : list oref) : bool := Nat.leb (length (filter r_ctrl l)) 1.

(** Server-side apply (force). Returns the new world, the stored object and whether it was created;
    None = rejected as Invalid (two controller references). A request that leaves the object unchanged
    does not bump the resourceVersion. *)
Definition api_apply (w : world) (k : okey) (ap : applied) : option (world * obj * bool) :=
  match lookup k (w_store w) with
  | None =>
      let o := fresh_obj ap (w_uid w) (w_rv w) in
      if negb (refs_valid (o_owners o)) then None else
      Some ({| w_store := upsert k o (w_store w); w_rv := w_rv w + 1; w_uid := w_uid w + 1 |}, o, true)
  | Some cur =>
      let o := apply_to ap cur in
      if negb (refs_valid (o_owners o)) then None else
      if obj_eqb o cur then Some (w, cur, false)
      else let o' := set_rv o (w_rv w) in
           Some ({| w_store := upsert k o' (w_store w); w_rv := w_rv w + 1; w_uid := w_uid w |}, o', false)
  end.

(** JSON merge patch {"metadata":{"labels":{cache:null},"ownerReferences":[...]}}; None = NotFound,
    Some (_, None) = rejected as Invalid. *)
Definition api_release_patch (w : world) (k : okey) (owners : list oref) : option (world * option obj) :=
  match lookup k (w_store w) with
  | None => None
  | Some cur =>
      let o := {| o_uid := o_uid cur; o_rv := o_rv cur; o_gen := o_gen cur; o_owners := owners;
                  o_aowners := o_aowners cur; o_rev := o_rev cur; o_cache := false; o_pkg := o_pkg cur;
                  o_body := o_body cur; o_avail := o_avail cur; o_obsgen := o_obsgen cur;
                  o_deleting := o_deleting cur; o_fin := o_fin cur |} in
      if negb (refs_valid owners) then Some (w, None) else
      if obj_eqb o cur then Some (w, Some cur)
      else let o' := set_rv o (w_rv w) in
           Some ({| w_store := upsert k o' (w_store w); w_rv := w_rv w + 1; w_uid := w_uid w |}, Some o')
  end.

Inductive dres := DOk | DNotFound | DConflict.

(** Delete with Preconditions{UID, ResourceVersion}. *)
Definition api_delete (w : world) (k : okey) (uid rv : N) : world * dres :=
  match lookup k (w_store w) with
  | None => (w, DNotFound)
  | Some cur =>
      if negb ((o_uid cur =? uid) && (o_rv cur =? rv)) then (w, DConflict) else
      if o_fin cur then
        if o_deleting cur then (w, DOk) else
        let o' := {| o_uid := o_uid cur; o_rv := w_rv w; o_gen := o_gen cur; o_owners := o_owners cur;
                     o_aowners := o_aowners cur; o_rev := o_rev cur; o_cache := o_cache cur; o_pkg := o_pkg cur;
                     o_body := o_body cur; o_avail := o_avail cur; o_obsgen := o_obsgen cur;
                     o_deleting := true; o_fin := true |} in
        ({| w_store := upsert k o' (w_store w); w_rv := w_rv w + 1; w_uid := w_uid w |}, DOk)
      else (with_store w (remove_key k (w_store w)), DOk)
  end.

(** Reads. The dynamic cache only sees objects carrying the cache label. *)
Definition api_get (w : world) (k : okey) : option obj := lookup k (w_store w).
Definition cache_get (w : world) (k : okey) : option obj :=
  match lookup k (w_store w) with
  | Some o => if o_cache o then Some o else None
  | None => None
  end.
