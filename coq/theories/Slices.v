(** ObjectSlices (C14, clauses 2-4): slice naming and the collision loop of the deployment
    reconciler, slice garbage collection, and the (Cluster)ObjectSet pass on an ObjectSet whose
    phases reference slices, as a wrapper around ObjectSet.v.
    Executable definitions only; proofs are in SlicesProofs.v.
    Anchors: internal/packages/internal/packagedeploy/deployment_reconciler.go,
    internal/controllers/objectsets/objectsliceload_reconciler.go, objectset_controller.go. *)
From Coq Require Import List NArith ZArith Bool.
From PKO Require Import Util Base Owner Api Phase ObjectSet.
Import ListNotations.
Local Open Scope N_scope.

(** * (a) Slice names and the collision loop *)
Section Naming.
  Context {C : Type}.                 (* content of a slice: its list of objects *)
  Variable ceqb : C -> C -> bool.     (* equality.Semantic.DeepEqual (deployment_reconciler.go:318) *)
  Variable hash : C -> N -> N.        (* utils.ComputeFNV32Hash(objects, &collisionCount) (:287); a parameter *)

  (** deployment_reconciler.go:287-289: name = <deployment name>-<hash>; the deployment is fixed. *)
  Definition slice_name (c : C) (cc : N) : N := hash c cc.

  (** An existing ObjectSlice of the namespace as the loop sees it: its objects and whether the
      deployment is its controller (ownerStrategy.IsController, :317). *)
  Record eslice := { es_content : C; es_ctrl : bool }.
  Definition nstore := list (N * eslice).

  Fixpoint nlookup (n : N) (st : nstore) : option eslice :=
    match st with
    | [] => None
    | (m, e) :: r => if n =? m then Some e else nlookup n r
    end.

  (** reconcileSliceWithCollisionCount (:283-339): Create; AlreadyExists and controller and equal: reuse;
      otherwise a sliceCollisionError. *)
  Inductive attempt := ACreated | AReused | ACollision.
  Definition try_cc (st : nstore) (c : C) (cc : N) : attempt :=
    match nlookup (slice_name c cc) st with
    | None => ACreated
    | Some e => if es_ctrl e && ceqb (es_content e) c then AReused else ACollision
    end.

  (** reconcileSlice (:263-279): for { ...; collisionCount++ }. The Go loop is unbounded; the model runs it
      with fuel (SlicesProofs.slice_fuel_suffices: |store|+1 attempts are enough when the hash separates
      collision counts; slice_loop_constant_hash: otherwise the real loop may spin forever). *)
  Inductive nres := NUsed (name cc : N) (created : bool) | NFuel.

  Fixpoint slice_loop (fuel : nat) (st : nstore) (c : C) (cc : N) : nstore * nres :=
    match fuel with
    | O => (st, NFuel)
    | S f =>
        match try_cc st c cc with
        | ACreated => ((slice_name c cc, {| es_content := c; es_ctrl := true |}) :: st, NUsed (slice_name c cc) cc true)
        | AReused => (st, NUsed (slice_name c cc) cc false)
        | ACollision => slice_loop f st c (cc + 1)
        end
    end.

  Definition reconcile_slice (st : nstore) (c : C) : nstore * nres := slice_loop (S (length st)) st c 0.

  (** chunkPhase (:225-261) after the chunker returned [chunks]: one slice per chunk, names in order. *)
  Fixpoint chunk_phase (st : nstore) (chunks : list C) : nstore * option (list (N * N * bool)) :=
    match chunks with
    | [] => (st, Some [])
    | c :: r =>
        match reconcile_slice st c with
        | (st1, NFuel) => (st1, None)
        | (st1, NUsed n cc cr) =>
            match chunk_phase st1 r with
            | (st2, Some l) => (st2, Some ((n, cc, cr) :: l))
            | (st2, None) => (st2, None)
            end
        end
    end.

  (** The loop of DeploymentReconciler.Reconcile over the template's phases (:96-103), each phase with the chunks
      its chunker returned; the slices created for one phase are there for the next. *)
  Fixpoint chunk_phases (st : nstore) (phases : list (list C)) : nstore * option (list (list (N * N * bool))) :=
    match phases with
    | [] => (st, Some [])
    | chunks :: r =>
        match chunk_phase st chunks with
        | (st1, None) => (st1, None)
        | (st1, Some l) =>
            match chunk_phases st1 r with
            | (st2, Some ls) => (st2, Some (l :: ls))
            | (st2, None) => (st2, None)
            end
        end
    end.
End Naming.
Arguments eslice : clear implicits.
Arguments nstore : clear implicits.

(** * (b) Slice garbage collection (sliceGarbageCollection, deployment_reconciler.go:150-199) *)

(** An ObjectSet of the cluster: whether listObjectSetsForDeployment returns it (namespace of the
    deployment and labels matching its selector, :201-223) and the slice names of its phases. *)
Record gset := { g_listed : bool; g_refs : list (list N) }.
(** An ObjectSlice of the cluster: its name and whether the List of :171-180 returns it
    (namespace of the deployment, label slices.package-operator.run/owner = deployment name). *)
Record gslice := { gs_name : N; gs_labelled : bool }.

(** :157-169: template phases (as just written), then the phases of every listed ObjectSet. *)
Definition gc_referenced (tmpl : list (list N)) (sets : list gset) : list N :=
  concat tmpl ++ flat_map (fun s => concat (g_refs s)) (filter g_listed sets).

(** :182-196: the Delete requests, in list order. *)
Definition slice_gc (tmpl : list (list N)) (sets : list gset) (slices : list gslice) : list N :=
  map gs_name (filter (fun s => gs_labelled s && negb (existsb (N.eqb (gs_name s)) (gc_referenced tmpl sets))) slices).

(** * (c) The ObjectSet pass on phases that reference slices *)

(** A phase of the ObjectSet spec: inline objects plus slice names (ObjectSetTemplatePhase). *)
Record sphase := { sp_name : N; sp_class : bool; sp_objects : list pobj; sp_slices : list N }.

(** An ObjectSlice as the ObjectSet controller sees it. resourceVersions of slices are drawn from a
    counter of their own (they are opaque; this keeps the numbering of the member objects of a sliced
    run comparable with the inline run). *)
Record slice := { sl_objects : list pobj; sl_owners : list oref; sl_rv : N }.
Definition slkey := (N * N)%type.     (* namespace (0 = cluster scope), name *)
Definition slkey_eqb (a b : slkey) : bool := (fst a =? fst b) && (snd a =? snd b).
Definition slstore := list (slkey * slice).

Fixpoint sl_lookup (k : slkey) (st : slstore) : option slice :=
  match st with
  | [] => None
  | (k', s) :: r => if slkey_eqb k k' then Some s else sl_lookup k r
  end.
Fixpoint sl_put (k : slkey) (s : slice) (st : slstore) : slstore :=
  match st with
  | [] => [(k, s)]
  | (k', s') :: r => if slkey_eqb k k' then (k, s) :: r else (k', s') :: sl_put k s r
  end.

Record slworld := { xs_store : slstore; xs_rv : N }.

(** Slice names per phase (by position) of the ObjectSets that reference slices, keyed by kind,
    namespace and name.  The [oset]s of the world carry the inline objects only, as stored. *)
Definition refs_tbl := list (N * N * N * list (list N)).
Definition refs_of (t : refs_tbl) (id : oid) : list (list N) :=
  match find (fun e => let '(k, ns, n, _) := e in (k =? oi_kind id) && (ns =? oi_ns id) && (n =? oi_name id)) t with
  | Some (_, _, _, l) => l
  | None => []
  end.

Fixpoint sphases (phs : list phase) (refs : list (list N)) : list sphase :=
  match phs with
  | [] => []
  | ph :: r => {| sp_name := ph_name ph; sp_class := ph_class ph; sp_objects := ph_objects ph; sp_slices := hd [] refs |}
               :: sphases r (tl refs)
  end.

Record xworld := { xw_sw : sworld; xw_refs : refs_tbl; xw_sl : slworld }.

(** Requests of a pass: those of ObjectSet.v plus the Update of a slice's ownerReferences. *)
Inductive xev := XSet (e : sev) | XSliceUpdate (ns name : N) (owners : list oref).
Definition erase_slice_events (l : list xev) : list sev :=
  flat_map (fun e => match e with XSet s => [s] | XSliceUpdate _ _ _ => [] end) l.
Definition slice_events (l : list xev) : list (N * N * list oref) :=
  flat_map (fun e => match e with XSet _ => [] | XSliceUpdate ns n o => [(ns, n, o)] end) l.

(** controllerutil.SetOwnerReference: upsert by group/kind/name, no controller flag. *)
Definition plain_ref (o : oid) : oref := {| r_kind := oi_kind o; r_name := oi_name o; r_uid := oi_uid o; r_ctrl := false |}.
Definition set_owner_l (o : oid) (l : list oref) : list oref := upsert_ref (fun x => same_gkn x o) (plain_ref o) l.

(** objectSliceLoadReconciler.Reconcile (objectsliceload_reconciler.go:39-74), inner loop over the slices
    of one phase: Get (:46-52, missing: error), IsOwner / SetOwnerReference / Update (:54-64), append (:66). *)
Fixpoint load_phase_slices (xs : slworld) (ns : N) (id : oid) (names : list N) (acc : list pobj)
  : slworld * list xev * option (list pobj) :=
  match names with
  | [] => (xs, [], Some acc)
  | n :: r =>
      match sl_lookup (ns, n) (xs_store xs) with
      | None => (xs, [], None)
      | Some s =>
          let '(xs1, e1) :=
            if is_owner_l id (sl_owners s) then (xs, []) else
            let s' := {| sl_objects := sl_objects s; sl_owners := set_owner_l id (sl_owners s); sl_rv := xs_rv xs |} in
            ({| xs_store := sl_put (ns, n) s' (xs_store xs); xs_rv := xs_rv xs + 1 |},
             [XSliceUpdate ns n (sl_owners s')]) in
          let '(xs2, e2, res) := load_phase_slices xs1 ns id r (acc ++ sl_objects s) in
          (xs2, e1 ++ e2, res)
      end
  end.

(** Outer loop over the phases (:42-71). *)
Fixpoint load_slices (xs : slworld) (ns : N) (id : oid) (sphs : list sphase)
  : slworld * list xev * option (list phase) :=
  match sphs with
  | [] => (xs, [], Some [])
  | sp :: r =>
      match load_phase_slices xs ns id (sp_slices sp) (sp_objects sp) with
      | (xs1, e1, None) => (xs1, e1, None)
      | (xs1, e1, Some objs) =>
          match load_slices xs1 ns id r with
          | (xs2, e2, None) => (xs2, e1 ++ e2, None)
          | (xs2, e2, Some phs) =>
              (xs2, e1 ++ e2, Some ({| ph_name := sp_name sp; ph_class := sp_class sp; ph_objects := objs |} :: phs))
          end
      end
  end.

(** The same ObjectSet with the objects inline: a missing slice contributes nothing. *)
Definition slice_objects (st : slstore) (ns : N) (n : N) : list pobj :=
  match sl_lookup (ns, n) st with Some s => sl_objects s | None => [] end.
Definition inline_phase (st : slstore) (ns : N) (sp : sphase) : phase :=
  {| ph_name := sp_name sp; ph_class := sp_class sp;
     ph_objects := sp_objects sp ++ flat_map (slice_objects st ns) (sp_slices sp) |}.

Definition set_phases (s : oset) (phs : list phase) : oset :=
  {| os_id := os_id s; os_rv := os_rv s; os_gen := os_gen s; os_deleting := os_deleting s;
     os_fin := os_fin s; os_orphan := os_orphan s; os_pkg := os_pkg s; os_life := os_life s;
     os_phases := phs; os_prev := os_prev s;
     os_revision := os_revision s; os_conds := os_conds s; os_ctrlof := os_ctrlof s; os_remotes := os_remotes s |}.

Definition set_sphases (t : refs_tbl) (s : oset) : list sphase := sphases (os_phases s) (refs_of t (os_id s)).
Definition inline_phases (st : slstore) (t : refs_tbl) (s : oset) : list phase :=
  map (inline_phase st (oi_ns (os_id s))) (set_sphases t s).
Definition inline_set (st : slstore) (t : refs_tbl) (s : oset) : oset := set_phases s (inline_phases st t s).

Definition inline_sw (st : slstore) (t : refs_tbl) (sw : sworld) : sworld :=
  {| sw_w := sw_w sw; sw_sets := map (inline_set st t) (sw_sets sw); sw_phases := sw_phases sw; sw_nss := sw_nss sw |}.
Definition inline_of (x : xworld) : sworld := inline_sw (xs_store (xw_sl x)) (xw_refs x) (xw_sw x).

(** Every slice an ObjectSet references exists. *)
Definition slices_exist (st : slstore) (t : refs_tbl) (s : oset) : bool :=
  forallb (fun sp => forallb (fun n => match sl_lookup (oi_ns (os_id s), n) st with Some _ => true | None => false end)
                             (sp_slices sp)) (set_sphases t s).

(** The objects of a revision as the ObjectDeployment controller's archive reconciler sees them
    (objectdeployments/adapter_objectset.go getObjectsIncludingSlices): the identifiers of all inline objects
    (getObjects), then, phase by phase, those of the objects of the referenced slices; namespaces defaulted to the
    ObjectSet's; a slice that cannot be read is an error. *)
Definition deploy_objects (st : slstore) (t : refs_tbl) (s : oset) : option (list okey) :=
  if slices_exist st t s then
    Some (map (spec_key s) (flat_map sp_objects (set_sphases t s)) ++
          map (spec_key s) (flat_map (fun sp => flat_map (slice_objects st (oi_ns (os_id s))) (sp_slices sp)) (set_sphases t s)))
  else None.

Section SlicedPass.
  Variable force : bool.

  Definition lift (l : list sev) : list xev := map XSet l.

  (** The reconciler loop of Reconcile (objectset_controller.go:226-231): revisionReconciler, then
      objectSliceLoadReconciler, then the phases reconciler on the in-memory copy with the slices inlined.
      [ObjectSet.active_body] is reused for everything after the slice loader: its own call of
      [revision_pass] is the identity then (SlicesProofs.revision_pass_again). *)
  Definition sliced_body (sw0 : sworld) (t : refs_tbl) (xs : slworld) (evs0 : list sev) (mem : oset)
    : sworld * slworld * list xev * sres :=
    let '(sw1, evs1, mem1, rr) := revision_pass sw0 mem in
    match rr with
    | RevGo =>
        match load_slices xs (oi_ns (os_id mem1)) (os_id mem1) (set_sphases t mem1) with
        | (xs1, sevs, None) =>
            (* :50 "getting ObjectSlice": a plain error, no status update (UpdateObjectSetOrPhaseStatusFromError) *)
            (sw1, xs1, lift (evs0 ++ evs1) ++ sevs, SError)
        | (xs1, sevs, Some phs) =>
            let '(sw2, evs2, r) := active_body force sw1 [] (set_phases mem1 phs) in
            (sw2, xs1, lift (evs0 ++ evs1) ++ sevs ++ lift evs2, r)
        end
    | _ =>
        (* requeue or error of the revision reconciler: the loop breaks before the slice loader *)
        let '(sw2, evs2, r) := active_body force sw0 evs0 mem in (sw2, xs, lift evs2, r)
    end.

  Definition sliced_active (sw : sworld) (t : refs_tbl) (xs : slworld) (mem0 : oset) : sworld * slworld * list xev * sres :=
    if os_fin mem0 then sliced_body sw t xs [] mem0 else
    match patch_finalizer sw mem0 true with
    | (sw', None) => (sw', xs, lift [SMeta (MFinalizer true false)], SError)
    | (sw', Some m) => sliced_body sw' t xs [SMeta (MFinalizer true true)] m
    end.

  Definition mk_x (t : refs_tbl) (r : sworld * slworld * list xev * sres) : xworld * list xev * sres :=
    let '(sw, xs, e, res) := r in ({| xw_sw := sw; xw_refs := t; xw_sl := xs |}, e, res).

  (** GenericObjectSetController.Reconcile (objectset_controller.go:179-243) as it is: the deletion/archival
      branch (:205-218) runs on the ObjectSet as read from the API, i.e. with the inline objects only;
      the slice loader is part of the reconciler loop, which is only reached by an active ObjectSet (F-C14). *)
  Definition sliced_pass (x : xworld) (kind ns name : N) : xworld * list xev * sres :=
    match find_set (sw_sets (xw_sw x)) kind ns name with
    | None => (x, [], SNothing)
    | Some mem =>
        if cond_true (os_conds mem) CArchived then (x, [], SNothing) else
        if os_deleting mem || lifecycle_eqb (os_life mem) LArchived then
          let '(sw', evs, r) := deletion_pass force (xw_sw x) mem in
          mk_x (xw_refs x) (sw', xw_sl x, lift evs, r)
        else mk_x (xw_refs x) (sliced_active (xw_sw x) (xw_refs x) (xw_sl x) mem)
    end.

  (** The repair candidate: the teardown handler first loads the slices (read only; a slice that is gone
      contributes nothing, so that a lost slice cannot block deletion for ever), then tears down. *)
  Definition sliced_pass_fixed (x : xworld) (kind ns name : N) : xworld * list xev * sres :=
    match find_set (sw_sets (xw_sw x)) kind ns name with
    | None => (x, [], SNothing)
    | Some mem =>
        if cond_true (os_conds mem) CArchived then (x, [], SNothing) else
        if os_deleting mem || lifecycle_eqb (os_life mem) LArchived then
          let '(sw', evs, r) := deletion_pass force (xw_sw x) (inline_set (xs_store (xw_sl x)) (xw_refs x) mem) in
          mk_x (xw_refs x) (sw', xw_sl x, lift evs, r)
        else mk_x (xw_refs x) (sliced_active (xw_sw x) (xw_refs x) (xw_sl x) mem)
    end.

  (** The same with a failing read: [fault] = Some i means the i-th (0-based) Get of an ObjectSlice issued by the
      teardown handler fails with an error other than NotFound (timeout, 5xx, transport error). loadForTeardown reads
      every referenced slice in order (a NotFound is skipped, anything else is returned), the handler returns that
      error before the actual teardown starts, handleDeletionAndArchival returns it and Reconcile returns it
      without a status update. The handler only runs while the ObjectSet carries the cached finalizer. *)
  Definition slice_reads (sphs : list sphase) : nat := length (flat_map sp_slices sphs).
  Definition fault_hits (fault : option nat) (t : refs_tbl) (mem : oset) : bool :=
    os_fin mem && match fault with Some i => Nat.ltb i (slice_reads (set_sphases t mem)) | None => false end.

  Definition sliced_pass_faulty (fault : option nat) (x : xworld) (kind ns name : N) : xworld * list xev * sres :=
    match find_set (sw_sets (xw_sw x)) kind ns name with
    | None => (x, [], SNothing)
    | Some mem =>
        if cond_true (os_conds mem) CArchived then (x, [], SNothing) else
        if os_deleting mem || lifecycle_eqb (os_life mem) LArchived then
          if fault_hits fault (xw_refs x) mem then (x, [], SError) else
          let '(sw', evs, r) := deletion_pass force (xw_sw x) (inline_set (xs_store (xw_sl x)) (xw_refs x) mem) in
          mk_x (xw_refs x) (sw', xw_sl x, lift evs, r)
        else mk_x (xw_refs x) (sliced_active (xw_sw x) (xw_refs x) (xw_sl x) mem)
    end.
End SlicedPass.
