(** PhaseReconciler (internal/controllers/phase_reconciler.go): preflight, ReconcilePhase,
    reconcileObject, TeardownPhase, teardownPhaseObject, as a state-and-trace transformer
    over [world].  Executable definitions only. *)
From Coq Require Import List NArith ZArith Bool.
From PKO Require Import Util Base Owner Api.
Import ListNotations.
Local Open Scope N_scope.

(** Preflight checker composition per controller flavour
    (objectset_controller.go:123-139; objectsetphase_controller.go:80-176). *)
Inductive flavor :=
| FObjectSet             (* (Cluster)ObjectSet controller: NoOwnerReferences, NamespaceEscalation, DryRun *)
| FSamePhase             (* same-cluster ObjectSetPhase: NamespaceEscalation, DryRun, NoOwnerReferences *)
| FSameClusterPhase      (* same-cluster ClusterObjectSetPhase: DryRun, NoOwnerReferences *)
| FMultiPhase            (* multi-cluster ObjectSetPhase: NoOwnerReferences, DryRun; annotation strategy *)
| FMultiClusterPhase.    (* multi-cluster ClusterObjectSetPhase: DryRun, NoOwnerReferences; annotation strategy *)

Definition flavor_strat (f : flavor) : strat :=
  match f with FMultiPhase | FMultiClusterPhase => Annot | _ => Native end.

Inductive viol := VApiMissing | VOwnerRefs | VNamespace | VScope | VDryRun.
Definition viol_eqb (a b : viol) : bool :=
  match a, b with
  | VApiMissing, VApiMissing | VOwnerRefs, VOwnerRefs | VNamespace, VNamespace
  | VScope, VScope | VDryRun, VDryRun => true
  | _, _ => false
  end.

Record cfg := { c_flavor : flavor; c_force : bool (* PKO_FORCE_ADOPTION set *) }.

(** desiredObject (phase_reconciler.go:424-457): namespace defaulted to the owner's. *)
Definition desired_key (ow : owner) (p : pobj) : okey :=
  {| k_gk := po_gk p; k_ns := if po_ns p =? 0 then oi_ns (ow_id ow) else po_ns p; k_name := po_name p |}.

(** NamespaceEscalation.Check on the (already defaulted) desired object; [class] = the phase in the
    context has a class. *)
Definition check_ns_escalation (ow : owner) (class : bool) (k : okey) : list viol :=
  if oi_ns (ow_id ow) =? 0 then [] else
  if class then [] else
  if negb (k_ns k =? 0) && negb (k_ns k =? oi_ns (ow_id ow)) then [VNamespace] else
  (* the scope of the kind is checked whether or not a namespace is given *)
  match gk_scope (k_gk k) with
  | None => []
  | Some true => []
  | Some false => [VScope]
  end.

(** DryRun.Check against the recording server: scripted rejection, a cluster-scoped kind carrying a
    namespace, or a namespaced kind without one are rejected (BadRequest). *)
Definition check_dryrun (p : pobj) (k : okey) : list viol :=
  if po_dryreject p then [VDryRun] else
  match gk_scope (k_gk k) with
  | Some true => if k_ns k =? 0 then [VDryRun] else []
  | Some false => if k_ns k =? 0 then [] else [VDryRun]
  | None => []
  end.

Definition check_ownerrefs (p : pobj) : list viol := if po_ownerrefs p then [VOwnerRefs] else [].

Definition preflight_obj (f : flavor) (ow : owner) (class : bool) (p : pobj) : list viol :=
  let k := desired_key ow p in
  match gk_scope (k_gk k) with
  | None => [VApiMissing]
  | Some _ =>
      match f with
      | FObjectSet => check_ownerrefs p ++ check_ns_escalation ow class k ++ check_dryrun p k
      | FSamePhase => check_ns_escalation ow class k ++ check_dryrun p k ++ check_ownerrefs p
      | FSameClusterPhase => check_dryrun p k ++ check_ownerrefs p
      | FMultiPhase => check_ownerrefs p ++ check_dryrun p k
      | FMultiClusterPhase => check_dryrun p k ++ check_ownerrefs p
      end
  end.

(** Write requests, with the object version the pass inspected ([read]), the version stored at the
    instant of the request ([pre]) and the outcome. *)
Inductive pres := POk (o : obj) | PNotFound | PInvalid.   (* outcome of a patch request *)

Inductive ev :=
| EApply (k : okey) (read : option obj) (pre : option obj) (post : pres)
| ERelease (k : okey) (read : obj) (pre : option obj) (post : pres)
| EDelete (k : okey) (read : obj) (puid prv : N) (pre : option obj) (res : dres).   (* puid/prv: preconditions carried *)

Definition ev_key (e : ev) : okey :=
  match e with EApply k _ _ _ | ERelease k _ _ _ | EDelete k _ _ _ _ _ => k end.

Inductive errclass :=
| ErrNotPrevious | ErrRevCollision | ErrRevParse | ErrOwnerRef | ErrInvalid.

Definition errclass_eqb (a b : errclass) : bool :=
  match a, b with
  | ErrNotPrevious, ErrNotPrevious | ErrRevCollision, ErrRevCollision
  | ErrRevParse, ErrRevParse | ErrOwnerRef, ErrOwnerRef | ErrInvalid, ErrInvalid => true
  | _, _ => false
  end.

Inductive rres := ROk (actual : obj) | RMissing | RErr (e : errclass).

Section Pass.
  Variable c : cfg.
  (** Third-party activity between the pass's read of an object and its write (C05's API-call
      granularity). The identity for pass-level atomicity. *)
  Variable between : world -> world.

  Let s := flavor_strat (c_flavor c).

  (** The applied configuration for an object the owner controls or adopts:
      owner list taken from [updated] (phase_reconciler.go:612-613). *)
  Definition applied_for (ow : owner) (p : pobj) (native_refs : list oref) : applied :=
    {| ap_body := po_body p; ap_owners := native_refs;
       ap_aowners := match s with Annot => Some [ctrl_ref (ow_id ow)] | Native => None end;
       ap_rev := ow_rev ow; ap_pkg := ow_pkg ow |}.

  (** reconcileObject (530-599) preceded by SetControllerReference on the desired object (337) and the
      paused branch (347-353). *)
  (** One server-side apply request of the pass, as an event. *)
  Definition do_apply (w : world) (k : okey) (read : option obj) (ap : applied) : world * list ev * rres :=
    let w1 := between w in
    let pre := api_get w1 k in
    match api_apply w1 k ap with
    | Some (w2, o, _) => (w2, [EApply k read pre (POk o)], ROk o)
    | None => (w1, [EApply k read pre PInvalid], RErr ErrInvalid)
    end.

  Definition reconcile_object (w : world) (ow : owner) (prev : list prevrev) (p : pobj)
    : world * list ev * rres :=
    let k := desired_key ow p in
    (* 337: SetControllerReference(owner, desiredObj): desired has no references of its own here *)
    match set_controller_l s (ow_id ow) (k_ns k) [] with
    | None => (w, [], RErr ErrOwnerRef)
    | Some dref =>
    if ow_paused ow then
      match cache_get w k with Some o => (w, [], ROk o) | None => (w, [], RMissing) end
    else
    let cur := match cache_get w k with Some o => Some o | None => api_get w k end in
    match cur with
    | None =>
        (* 550: create through apply *)
        do_apply w k None (applied_for ow p (match s with Native => dref | Annot => [] end))
    | Some cu =>
        match check_adoption s (c_force c) ow cu prev (po_cp p) with
        | RefuseNotPrevious => (w, [], RErr ErrNotPrevious)
        | RefuseRevCollision => (w, [], RErr ErrRevCollision)
        | RevParseError => (w, [], RErr ErrRevParse)
        | Adopt =>
            match set_controller_l s (ow_id ow) (k_ns k) (release_l (refs s cu)) with
            | None => (w, [], RErr ErrOwnerRef)
            | Some l =>
                let native := match s with Native => l | Annot => o_owners cu end in
                do_apply w k (Some cu) (applied_for ow p native)
            end
        | AlreadyController => do_apply w k (Some cu) (applied_for ow p (o_owners cu))
        | LeaveNewer => (w, [], ROk cu)
        end
    end
    end.

  (** The availability probe of the scenarios: selects kind 2 only; passes iff
      Available=True and status.observedGeneration is absent or current. *)
  Definition probe_ok (k : okey) (o : obj) : bool :=
    if negb (k_gk k =? 2) then true else
    (o_avail o =? 1) && match o_obsgen o with None => true | Some g => Z.eqb g (o_gen o) end.

  Inductive phres :=
  | PhErr (e : errclass)
  | PhPreflight (vs : list viol)
  | PhOk (actual : list (okey * obj)) (failed : list okey).

  Fixpoint reconcile_objects (w : world) (ow : owner) (prev : list prevrev) (ps : list pobj)
           (acc : list (okey * obj)) (failed : list okey) : world * list ev * phres :=
    match ps with
    | [] => (w, [], PhOk acc failed)
    | p :: ps' =>
        let k := desired_key ow p in
        match reconcile_object w ow prev p with
        | (w1, e1, RErr e) => (w1, e1, PhErr e)
        | (w1, e1, RMissing) =>
            let '(w2, e2, r) := reconcile_objects w1 ow prev ps' acc (failed ++ [k]) in (w2, e1 ++ e2, r)
        | (w1, e1, ROk o) =>
            let failed' := if probe_ok k o then failed else failed ++ [k] in
            let '(w2, e2, r) := reconcile_objects w1 ow prev ps' (acc ++ [(k, o)]) failed' in (w2, e1 ++ e2, r)
        end
    end.

  (** ReconcilePhase (177-217). [class]: the phase carries a class (only relevant to the namespace check). *)
  Definition reconcile_phase (w : world) (ow : owner) (prev : list prevrev) (class : bool) (ps : list pobj)
    : world * list ev * phres :=
    let vs := flat_map (preflight_obj (c_flavor c) ow class) ps in
    match vs with
    | _ :: _ => (w, [], PhPreflight vs)
    | [] => reconcile_objects w ow prev ps [] []
    end.

  Inductive tdres := TdDone (done : bool).

  (** teardownPhaseObject (239-328). Preflight during teardown runs without a phase in the context. *)
  Definition teardown_object (w : world) (ow : owner) (p : pobj) : world * list ev * bool :=
    let k := desired_key ow p in
    match preflight_obj (c_flavor c) ow false p with
    | _ :: _ => (w, [], true)
    | [] =>
    match api_get w k with
    | None => (w, [], true)
    | Some cu =>
        if negb (is_controller s (ow_id ow) cu) then
          if negb (is_owner s (ow_id ow) cu) then (w, [], true) else
          (* 282-301: the patch carries the native ownerReferences with the owner removed by the strategy,
             which for the annotation strategy finds nothing to remove on the scratch object *)
          let owners' := match s with Native => remove_owner_l (ow_id ow) (o_owners cu) | Annot => o_owners cu end in
          let w1 := between w in
          let pre := api_get w1 k in
          match api_release_patch w1 k owners' with
          | None => (w1, [ERelease k cu pre PNotFound], false)   (* NotFound is an error of the pass *)
          | Some (w2, None) => (w2, [ERelease k cu pre PInvalid], false)
          | Some (w2, Some o) => (w2, [ERelease k cu pre (POk o)], true)
          end
        else
          let w1 := between w in
          let pre := api_get w1 k in
          let '(w2, r) := api_delete w1 k (o_uid cu) (o_rv cu) in
          (w2, [EDelete k cu (o_uid cu) (o_rv cu) pre r], match r with DNotFound => true | _ => false end)
    end
    end.

  (** Errors of teardownPhaseObject abort TeardownPhase: a Conflict on delete or NotFound on the release patch. *)
  Definition teardown_err (e : list ev) : bool :=
    existsb (fun x => match x with
                      | EDelete _ _ _ _ _ DConflict => true
                      | ERelease _ _ _ PNotFound | ERelease _ _ _ PInvalid => true
                      | _ => false end) e.

  Inductive tdphres := TdErr | TdOk (done : bool).

  Fixpoint teardown_objects (w : world) (ow : owner) (ps : list pobj) (alldone : bool) : world * list ev * tdphres :=
    match ps with
    | [] => (w, [], TdOk alldone)
    | p :: ps' =>
        let '(w1, e1, d) := teardown_object w ow p in
        if teardown_err e1 then (w1, e1, TdErr) else
        let '(w2, e2, r) := teardown_objects w1 ow ps' (alldone && d) in (w2, e1 ++ e2, r)
    end.

  (** TeardownPhase (219-237) *)
  Definition teardown_phase (w : world) (ow : owner) (ps : list pobj) : world * list ev * tdphres :=
    teardown_objects w ow ps true.
End Pass.
