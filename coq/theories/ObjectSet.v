(** The (Cluster)ObjectSet controller (internal/controllers/objectsets): one Reconcile pass of
    GenericObjectSetController over a world that also holds the PKO API objects.
    Executable definitions only. Anchors: objectset_controller.go, objectsetphases_reconciler.go,
    revision_reconciler.go, remotephase_reconciler.go, controllers.go. *)
From Coq Require Import List NArith ZArith Bool.
From PKO Require Import Util Base Owner Api Phase.
Import ListNotations.
Local Open Scope N_scope.

(** ** Conditions *)
Inductive ctype := CAvailable | CInTransition | CSucceeded | CPaused | CArchived.
Inductive cstatus := STrue | SFalse | SUnknown.
Inductive creason :=
| RAvailable | RProbeFailure | RPreflightError | RCollisionDetected | RInTransition | RRolloutSuccess
| RPaused | RPartiallyPaused | RArchived | RArchivalInProgress | ROtherReason.
Record cond := { cd_type : ctype; cd_status : cstatus; cd_reason : creason; cd_gen : Z }.

Definition ctype_eqb (a b : ctype) : bool :=
  match a, b with
  | CAvailable, CAvailable | CInTransition, CInTransition | CSucceeded, CSucceeded
  | CPaused, CPaused | CArchived, CArchived => true
  | _, _ => false
  end.
Definition cstatus_eqb (a b : cstatus) : bool :=
  match a, b with STrue, STrue | SFalse, SFalse | SUnknown, SUnknown => true | _, _ => false end.
Definition creason_eqb (a b : creason) : bool :=
  match a, b with
  | RAvailable, RAvailable | RProbeFailure, RProbeFailure | RPreflightError, RPreflightError
  | RCollisionDetected, RCollisionDetected | RInTransition, RInTransition | RRolloutSuccess, RRolloutSuccess
  | RPaused, RPaused | RPartiallyPaused, RPartiallyPaused | RArchived, RArchived
  | RArchivalInProgress, RArchivalInProgress | ROtherReason, ROtherReason => true
  | _, _ => false
  end.
Definition cond_eqb (a b : cond) : bool :=
  ctype_eqb (cd_type a) (cd_type b) && cstatus_eqb (cd_status a) (cd_status b) &&
  creason_eqb (cd_reason a) (cd_reason b) && Z.eqb (cd_gen a) (cd_gen b).

(** meta.SetStatusCondition / RemoveStatusCondition / IsStatusConditionTrue (timestamps, messages not modelled) *)
Fixpoint set_cond (cs : list cond) (c : cond) : list cond :=
  match cs with
  | [] => [c]
  | x :: cs' => if ctype_eqb (cd_type x) (cd_type c) then c :: cs' else x :: set_cond cs' c
  end.
Definition remove_cond (cs : list cond) (t : ctype) : list cond :=
  filter (fun x => negb (ctype_eqb (cd_type x) t)) cs.
Definition find_cond (cs : list cond) (t : ctype) : option cond :=
  find (fun x => ctype_eqb (cd_type x) t) cs.
Definition cond_true (cs : list cond) (t : ctype) : bool :=
  match find_cond cs t with Some c => cstatus_eqb (cd_status c) STrue | None => false end.

(** ** The ObjectSet API object *)
Record phase := { ph_name : N; ph_class : bool; ph_objects : list pobj }.

Inductive lifecycle := LActive | LPaused | LArchived.
Definition lifecycle_eqb (a b : lifecycle) : bool :=
  match a, b with LActive, LActive | LPaused, LPaused | LArchived, LArchived => true | _, _ => false end.

Record oset := {
  os_id : oid;                (* kind KObjectSet / KClusterObjectSet, namespace, name, uid *)
  os_rv : N; os_gen : Z;
  os_deleting : bool;         (* deletionTimestamp set *)
  os_fin : bool;              (* carries the package-operator.run/cached finalizer *)
  os_orphan : bool;           (* carries the "orphan" finalizer *)
  os_pkg : N;                 (* package label *)
  os_life : lifecycle;
  os_phases : list phase;
  os_prev : list N;           (* spec.previous: names *)
  (* status *)
  os_revision : Z;
  os_conds : list cond;
  os_ctrlof : list okey;
  os_remotes : list (N * N)
}.

(** The world of the ObjectSet controller: member objects + API counters, and the ObjectSets. *)
Record sworld := { sw_w : world; sw_sets : list oset }.

Definition oid_eqb (a b : oid) : bool :=
  (oi_kind a =? oi_kind b) && (oi_ns a =? oi_ns b) && (oi_name a =? oi_name b).

Definition find_set (sets : list oset) (kind ns name : N) : option oset :=
  find (fun s => (oi_kind (os_id s) =? kind) && (oi_ns (os_id s) =? ns) && (oi_name (os_id s) =? name)) sets.

Fixpoint put_set (sets : list oset) (s : oset) : list oset :=
  match sets with
  | [] => [s]
  | x :: r => if oid_eqb (os_id x) (os_id s) then s :: r else x :: put_set r s
  end.
Definition del_set (sets : list oset) (id : oid) : list oset :=
  filter (fun x => negb (oid_eqb (os_id x) id)) sets.

(** Requests on the ObjectSet itself. *)
Inductive mev :=
| MFinalizer (added : bool) (ok : bool)      (* merge patch of metadata.finalizers pinned to the resourceVersion *)
| MStatus (rev : Z) (conds : list cond) (ctrlof : list okey) (remotes : list (N * N)) (fph : option N) (ok : bool).
  (* fph: the phase named in the ProbeFailure message written by this request *)

Inductive sev := SMember (e : ev) | SMeta (m : mev).

Inductive sres :=
| SNothing            (* not found / archived short-circuit: no request at all *)
| SDone (requeue : bool)
| SError.             (* Reconcile returned an error (requeued with backoff by the workqueue) *)

Definition bump_rv (w : world) : world := {| w_store := w_store w; w_rv := w_rv w + 1; w_uid := w_uid w |}.

(** Persisting the in-memory copy [s] of the set. A write that changes nothing is a no-op on the server. *)
Definition oset_same_meta (a b : oset) : bool := Bool.eqb (os_fin a) (os_fin b).

Definition as_owner (s : oset) : owner :=
  {| ow_id := os_id s; ow_rev := os_revision s;
     ow_paused := lifecycle_eqb (os_life s) LPaused; ow_pkg := os_pkg s |}.

Definition spec_key (s : oset) (p : pobj) : okey := desired_key (as_owner s) p.

(** ObjectDuplicate.Check on the phases with the namespace default applied
    (objectsetphases_reconciler.go phasesWithDefaultedNamespace): counts repeated object identities. *)
Fixpoint dup_count (seen : list okey) (ks : list okey) : nat :=
  match ks with
  | [] => O
  | k :: r => if existsb (okey_eqb k) seen then S (dup_count seen r)
              else dup_count (k :: seen) r
  end.
Definition all_objects (s : oset) : list pobj := flat_map ph_objects (os_phases s).

(** isObjectSetInTransition (objectsetphases_reconciler.go:304-354) *)
Fixpoint remove_first_key (k : okey) (l : list okey) : option (list okey) :=
  match l with
  | [] => None
  | x :: r => if okey_eqb x k then Some r
              else match remove_first_key k r with Some r' => Some (x :: r') | None => None end
  end.
Fixpoint dedup_keys (l : list okey) : list okey :=
  match l with
  | [] => []
  | x :: r => if existsb (okey_eqb x) r then dedup_keys r else x :: dedup_keys r
  end.
Definition remove_all_key (k : okey) (l : list okey) : list okey := filter (fun x => negb (okey_eqb x k)) l.

Definition in_transition (s : oset) (ctrlof : list okey) : bool :=
  if lifecycle_eqb (os_life s) LArchived then false else
  let all := dedup_keys (map (spec_key s) (all_objects s)) in
  let rest := fold_left (fun acc c => remove_all_key c acc) ctrlof all in
  negb (is_nil rest).

(** Previous revision lookup (previous_revision_lookup.go): a missing previous set yields an empty identity. *)
Definition lookup_prev (sets : list oset) (s : oset) : list prevrev :=
  map (fun n => match find_set sets (oi_kind (os_id s)) (oi_ns (os_id s)) n with
                | Some p => {| pv_id := os_id p; pv_remotes := os_remotes p |}
                | None => {| pv_id := {| oi_kind := oi_kind (os_id s); oi_ns := 0; oi_name := 0; oi_uid := 0 |}; pv_remotes := [] |}
                end) (os_prev s).

Section Pass.
  Variable force : bool.
  Let c : cfg := {| c_flavor := FObjectSet; c_force := force |}.
  Let idw (w : world) := w.

  (** reconcile (objectsetphases_reconciler.go:187-221): phases in order, stop at the first failing probe. *)
  Inductive prres := PRErr (e : errclass) | PRPreflight | PROk (ctrlof : list okey) (failed_phase : option N).

  Fixpoint reconcile_phases (w : world) (ow : owner) (prev : list prevrev) (phs : list phase) (acc : list okey)
    : world * list ev * prres :=
    match phs with
    | [] => (w, [], PROk acc None)
    | ph :: rest =>
        match reconcile_phase c idw w ow prev (ph_class ph) (ph_objects ph) with
        | (w1, e1, PhErr e) => (w1, e1, PRErr e)
        | (w1, e1, PhPreflight _) => (w1, e1, PRPreflight)
        | (w1, e1, PhOk actual failed) =>
            let acc' := acc ++ map fst (filter (fun ko => is_controller Native (ow_id ow) (snd ko)) actual) in
            match failed with
            | _ :: _ => (w1, e1, PROk acc' (Some (ph_name ph)))
            | [] => let '(w2, e2, r) := reconcile_phases w1 ow prev rest acc' in (w2, e1 ++ e2, r)
            end
        end
    end.

  (** Teardown (257-280): phases in reverse order, stop at the first unfinished one. *)
  Fixpoint teardown_phases (w : world) (ow : owner) (rphs : list phase) : world * list ev * tdphres :=
    match rphs with
    | [] => (w, [], TdOk true)
    | ph :: rest =>
        match teardown_phase c idw w ow (ph_objects ph) with
        | (w1, e1, TdErr) => (w1, e1, TdErr)
        | (w1, e1, TdOk false) => (w1, e1, TdOk false)
        | (w1, e1, TdOk true) => let '(w2, e2, r) := teardown_phases w1 ow rest in (w2, e1 ++ e2, r)
        end
    end.

  (** Status().Update of the in-memory copy: conflict unless the resourceVersion is current; a status equal
      to the stored one is a no-op. Returns the new world, the refreshed in-memory copy and the outcome. *)
  Definition status_eqb (a b : oset) : bool :=
    Z.eqb (os_revision a) (os_revision b) && list_eqb cond_eqb (os_conds a) (os_conds b) &&
    list_eqb okey_eqb (os_ctrlof a) (os_ctrlof b) &&
    list_eqb (fun x y => (fst x =? fst y) && (snd x =? snd y)) (os_remotes a) (os_remotes b).

  Definition with_status (stored mem : oset) (rv : N) : oset :=
    {| os_id := os_id stored; os_rv := rv; os_gen := os_gen stored; os_deleting := os_deleting stored;
       os_fin := os_fin stored; os_orphan := os_orphan stored; os_pkg := os_pkg stored; os_life := os_life stored;
       os_phases := os_phases stored; os_prev := os_prev stored;
       os_revision := os_revision mem; os_conds := os_conds mem; os_ctrlof := os_ctrlof mem; os_remotes := os_remotes mem |}.

  Definition update_status (sw : sworld) (mem : oset) : sworld * oset * bool :=
    match find_set (sw_sets sw) (oi_kind (os_id mem)) (oi_ns (os_id mem)) (oi_name (os_id mem)) with
    | None => (sw, mem, false)
    | Some stored =>
        if negb (os_rv stored =? os_rv mem) then (sw, mem, false) else
        if status_eqb stored mem then (sw, mem, true) else
        let s' := with_status stored mem (w_rv (sw_w sw)) in
        ({| sw_w := bump_rv (sw_w sw); sw_sets := put_set (sw_sets sw) s' |}, s', true)
    end.

  Definition status_ev_f (mem : oset) (fph : option N) (ok : bool) : sev :=
    SMeta (MStatus (os_revision mem) (os_conds mem) (os_ctrlof mem) (os_remotes mem) fph ok).
  Definition status_ev (mem : oset) (ok : bool) : sev := status_ev_f mem None ok.

  (** EnsureFinalizer / RemoveFinalizer (controllers.go:22-76): merge patch pinned to the resourceVersion;
      the response replaces the in-memory copy (including its status). Removing the last finalizer of a
      deleting object deletes it. *)
  Definition set_fin (s : oset) (fin : bool) (rv : N) : oset :=
    {| os_id := os_id s; os_rv := rv; os_gen := os_gen s; os_deleting := os_deleting s;
       os_fin := fin; os_orphan := os_orphan s; os_pkg := os_pkg s; os_life := os_life s;
       os_phases := os_phases s; os_prev := os_prev s;
       os_revision := os_revision s; os_conds := os_conds s; os_ctrlof := os_ctrlof s; os_remotes := os_remotes s |}.

  Definition patch_finalizer (sw : sworld) (mem : oset) (fin : bool) : sworld * option oset :=
    match find_set (sw_sets sw) (oi_kind (os_id mem)) (oi_ns (os_id mem)) (oi_name (os_id mem)) with
    | None => (sw, None)
    | Some stored =>
        if negb (os_rv stored =? os_rv mem) then (sw, None) else
        let s' := set_fin stored fin (w_rv (sw_w sw)) in
        if negb fin && os_deleting stored && negb (os_orphan stored)
        then ({| sw_w := bump_rv (sw_w sw); sw_sets := del_set (sw_sets sw) (os_id stored) |}, Some s')
        else ({| sw_w := bump_rv (sw_w sw); sw_sets := put_set (sw_sets sw) s' |}, Some s')
    end.

  Definition set_conds (s : oset) (cs : list cond) : oset :=
    {| os_id := os_id s; os_rv := os_rv s; os_gen := os_gen s; os_deleting := os_deleting s;
       os_fin := os_fin s; os_orphan := os_orphan s; os_pkg := os_pkg s; os_life := os_life s;
       os_phases := os_phases s; os_prev := os_prev s;
       os_revision := os_revision s; os_conds := cs; os_ctrlof := os_ctrlof s; os_remotes := os_remotes s |}.
  Definition set_ctrlof (s : oset) (l : list okey) : oset :=
    {| os_id := os_id s; os_rv := os_rv s; os_gen := os_gen s; os_deleting := os_deleting s;
       os_fin := os_fin s; os_orphan := os_orphan s; os_pkg := os_pkg s; os_life := os_life s;
       os_phases := os_phases s; os_prev := os_prev s;
       os_revision := os_revision s; os_conds := os_conds s; os_ctrlof := l; os_remotes := os_remotes s |}.
  Definition set_revision (s : oset) (r : Z) : oset :=
    {| os_id := os_id s; os_rv := os_rv s; os_gen := os_gen s; os_deleting := os_deleting s;
       os_fin := os_fin s; os_orphan := os_orphan s; os_pkg := os_pkg s; os_life := os_life s;
       os_phases := os_phases s; os_prev := os_prev s;
       os_revision := r; os_conds := os_conds s; os_ctrlof := os_ctrlof s; os_remotes := os_remotes s |}.

  Definition mk_cond (s : oset) (t : ctype) (st : cstatus) (r : creason) : cond :=
    {| cd_type := t; cd_status := st; cd_reason := r; cd_gen := os_gen s |}.

  Definition with_w (sw : sworld) (w : world) : sworld := {| sw_w := w; sw_sets := sw_sets sw |}.

  (** handleDeletionAndArchival (322-372) followed by the tail of Reconcile (205-218). *)
  Definition deletion_pass (sw : sworld) (mem : oset) : sworld * list sev * sres :=
    let archived := lifecycle_eqb (os_life mem) LArchived in
    let rm_avail (s : oset) := set_conds s (remove_cond (os_conds s) CAvailable) in
    let finish (sw' : sworld) (evs : list sev) (mem' : oset) :=
      (* 205-218: deleted and not archived: no status update; archived: update status *)
      if negb archived then (sw', evs, SDone false) else
      let '(sw'', _, ok) := update_status sw' (rm_avail mem') in
      (sw'', evs ++ [status_ev (rm_avail mem') ok], if ok then SDone false else SError) in
    (* Teardown only while the finalizer is still there *)
    let '(w1, tevs, td) :=
      if os_fin mem then
        if os_orphan mem then (sw_w sw, [], TdOk true)
        else teardown_phases (sw_w sw) (as_owner mem) (rev (filter (fun ph => negb (ph_class ph)) (os_phases mem)))
      else (sw_w sw, [], TdOk true) in
    let sw1 := with_w sw w1 in
    let evs1 := map SMember tevs in
    match td with
    | TdErr => (sw1, evs1, SError)
    | TdOk false =>
        let mem' := if archived then set_conds mem (set_cond (os_conds mem) (mk_cond mem CArchived SFalse RArchivalInProgress)) else mem in
        finish sw1 evs1 mem'
    | TdOk true =>
        (* FreeCacheAndRemoveFinalizer *)
        if os_fin mem then
          match patch_finalizer sw1 mem false with
          | (sw2, None) => (sw2, evs1 ++ [SMeta (MFinalizer false false)], SError)
          | (sw2, Some mem2) =>
              let mem3 := if archived
                          then set_ctrlof (set_conds mem2 (set_cond (os_conds mem2) (mk_cond mem2 CArchived STrue RArchived))) []
                          else mem2 in
              finish sw2 (evs1 ++ [SMeta (MFinalizer false true)]) mem3
          end
        else
          let mem3 := if archived
                      then set_ctrlof (set_conds mem (set_cond (os_conds mem) (mk_cond mem CArchived STrue RArchived))) []
                      else mem in
          finish sw1 evs1 mem3
    end.

  (** revisionReconciler (revision_reconciler.go:23-73). Returns the in-memory copy, an optional status
      request, and whether the pass stops here (requeue / error). *)
  Inductive revres := RevGo | RevRequeue | RevErr.

  Definition max_prev_revision (sets : list oset) (s : oset) : option Z :=
    fold_left (fun acc n =>
      match acc with
      | None => None
      | Some m =>
          match find_set sets (oi_kind (os_id s)) (oi_ns (os_id s)) n with
          | None => None                       (* Get fails: error *)
          | Some p => if Z.eqb (os_revision p) 0 then Some (-1)%Z   (* marks "wait" *)
                      else if Z.eqb m (-1)%Z then Some (-1)%Z else Some (Z.max m (os_revision p))
          end
      end) (os_prev s) (Some 0%Z).

  (** The Go loop returns at the FIRST previous that is missing (error) or has revision 0 (requeue). *)
  Fixpoint scan_prev (sets : list oset) (s : oset) (names : list N) (latest : Z) : option (option Z) :=
    match names with
    | [] => Some (Some latest)
    | n :: r =>
        match find_set sets (oi_kind (os_id s)) (oi_ns (os_id s)) n with
        | None => None
        | Some p => if Z.eqb (os_revision p) 0 then Some None
                    else scan_prev sets s r (Z.max latest (os_revision p))
        end
    end.

  Definition revision_pass (sw : sworld) (mem : oset) : sworld * list sev * oset * revres :=
    if negb (Z.eqb (os_revision mem) 0) then (sw, [], mem, RevGo) else
    match os_prev mem with
    | [] => (sw, [], set_revision mem 1, RevGo)
    | _ =>
        match scan_prev (sw_sets sw) mem (os_prev mem) 0 with
        | None => (sw, [], mem, RevErr)
        | Some None => (sw, [], mem, RevRequeue)
        | Some (Some latest) =>
            let mem1 := set_revision mem (latest + 1) in
            let '(sw1, mem2, ok) := update_status sw mem1 in
            (sw1, [status_ev mem1 ok], mem2, if ok then RevGo else RevErr)
        end
    end.

  (** objectSetPhasesReconciler.Reconcile (105-185) on local phases, then reportPausedCondition and
      updateStatus. *)
  Definition paused_cond (mem : oset) : list cond :=
    if lifecycle_eqb (os_life mem) LPaused
    then set_cond (os_conds mem) (mk_cond mem CPaused STrue RPaused)
    else remove_cond (os_conds mem) CPaused.

  (** The status computed after the phase loop returned (objectsetphases_reconciler.go:133-185) followed by
      reportPausedCondition (objectset_controller.go:251-293, local phases only). *)
  Definition final_status (mem1 : oset) (ctrlof : list okey) (failed : option N) : oset :=
    let m1 := set_ctrlof mem1 ctrlof in
    let intr := in_transition m1 ctrlof in
    let cs1 := if intr then set_cond (os_conds m1) (mk_cond m1 CInTransition STrue RInTransition)
               else remove_cond (os_conds m1) CInTransition in
    let cs2 :=
      match failed with
      | Some _ => set_cond cs1 (mk_cond m1 CAvailable SFalse RProbeFailure)
      | None =>
          let cs := set_cond cs1 (mk_cond m1 CAvailable STrue RAvailable) in
          if negb (cond_true cs CSucceeded) && negb intr
          then set_cond cs (mk_cond m1 CSucceeded STrue RRolloutSuccess) else cs
      end in
    let m2 := set_conds m1 cs2 in
    set_conds m2 (paused_cond m2).

  (** The reconciler loop (revision, [slices], phases) and the status write, after the finalizer is ensured. *)
  Definition active_body (sw0 : sworld) (evs0 : list sev) (mem : oset) : sworld * list sev * sres :=
    let '(sw1, evs1, mem1, rr) := revision_pass sw0 mem in
    match rr with
    | RevErr => (sw1, evs0 ++ evs1, SError)
    | RevRequeue =>
        (* non-zero result: loop breaks, no error: reportPausedCondition + updateStatus *)
        let mem2 := set_conds mem1 (paused_cond mem1) in
        let '(sw2, _, ok) := update_status sw1 mem2 in
        (sw2, evs0 ++ evs1 ++ [status_ev mem2 ok], if ok then SDone true else SError)
    | RevGo =>
        let fail_with (sw' : sworld) (evs : list sev) (m : oset) (r : creason) :=
          let m' := set_conds m (set_cond (os_conds m) (mk_cond m CAvailable SFalse r)) in
          let '(sw'', _, ok) := update_status sw' m' in
          (sw'', evs ++ [status_ev m' ok], if ok then SDone true else SError) in
        (* slices are not part of this model: phases carry their objects inline *)
        if Nat.ltb 0 (dup_count [] (map (spec_key mem1) (all_objects mem1))) then fail_with sw1 (evs0 ++ evs1) mem1 RPreflightError else
        let ow := as_owner mem1 in
        let prev := lookup_prev (sw_sets sw1) mem1 in
        let '(w2, pevs, pr) := reconcile_phases (sw_w sw1) ow prev (filter (fun ph => negb (ph_class ph)) (os_phases mem1)) [] in
        let sw2 := with_w sw1 w2 in
        let evs2 := evs0 ++ evs1 ++ map SMember pevs in
        match pr with
        | PRPreflight => fail_with sw2 evs2 mem1 RPreflightError
        | PRErr ErrNotPrevious | PRErr ErrRevCollision => fail_with sw2 evs2 mem1 RCollisionDetected
        | PRErr _ => (sw2, evs2, SError)
        | PROk ctrlof failed =>
            let m3 := final_status mem1 ctrlof failed in
            let '(sw3, _, ok) := update_status sw2 m3 in
            (sw3, evs2 ++ [status_ev_f m3 failed ok], if ok then SDone false else SError)
        end
    end.

  Definition active_pass (sw : sworld) (mem0 : oset) : sworld * list sev * sres :=
    (* EnsureCachedFinalizer *)
    if os_fin mem0 then active_body sw [] mem0 else
    match patch_finalizer sw mem0 true with
    | (sw', None) => (sw', [SMeta (MFinalizer true false)], SError)
    | (sw', Some m) => active_body sw' [SMeta (MFinalizer true true)] m
    end.

  (** GenericObjectSetController.Reconcile (179-243) *)
  Definition objectset_pass (sw : sworld) (kind ns name : N) : sworld * list sev * sres :=
    match find_set (sw_sets sw) kind ns name with
    | None => (sw, [], SNothing)
    | Some mem =>
        if cond_true (os_conds mem) CArchived then (sw, [], SNothing) else
        if os_deleting mem || lifecycle_eqb (os_life mem) LArchived then deletion_pass sw mem
        else active_pass sw mem
    end.
End Pass.
