(** The (Cluster)ObjectSet controller (internal/controllers/objectsets): one Reconcile pass of
    GenericObjectSetController over a world that also holds the PKO API objects.
    Executable definitions only. Anchors: objectset_controller.go, objectsetphases_reconciler.go,
    revision_reconciler.go, remotephase_reconciler.go, controllers.go.
    Phases with a class are delegated: they are realised through an ObjectSetPhase object ([osphase]) that
    another controller (PhaseController.v) reconciles; the ObjectSet only creates / pauses / deletes the
    phase object and relays its status (remotephase_reconciler.go). *)
From Coq Require Import List NArith ZArith Bool.
From PKO Require Import Util Base Owner Api Phase.
Import ListNotations.
Local Open Scope N_scope.

(** ** Conditions *)
Inductive ctype := CAvailable | CInTransition | CSucceeded | CPaused | CArchived.
Inductive cstatus := STrue | SFalse | SUnknown.
Inductive creason :=
| RAvailable | RProbeFailure | RPreflightError | RCollisionDetected | RInTransition | RRolloutSuccess
| RPaused | RPartiallyPaused | RArchived | RArchivalInProgress | ROtherReason.
Record cond := { cd_type : ctype; cd_status : cstatus; cd_reason : creason; cd_gen : Z }.

Definition ctype_eqb (a b : ctype) : bool :=
  match a, b with
  | CAvailable, CAvailable | CInTransition, CInTransition | CSucceeded, CSucceeded
  | CPaused, CPaused | CArchived, CArchived => true
  | _, _ => false
  end.
Definition cstatus_eqb (a b : cstatus) : bool :=
  match a, b with STrue, STrue | SFalse, SFalse | SUnknown, SUnknown => true | _, _ => false end.
Definition creason_eqb (a b : creason) : bool :=
  match a, b with
  | RAvailable, RAvailable | RProbeFailure, RProbeFailure | RPreflightError, RPreflightError
  | RCollisionDetected, RCollisionDetected | RInTransition, RInTransition | RRolloutSuccess, RRolloutSuccess
  | RPaused, RPaused | RPartiallyPaused, RPartiallyPaused | RArchived, RArchived
  | RArchivalInProgress, RArchivalInProgress | ROtherReason, ROtherReason => true
  | _, _ => false
  end.
Definition cond_eqb (a b : cond) : bool :=
  ctype_eqb (cd_type a) (cd_type b) && cstatus_eqb (cd_status a) (cd_status b) &&
  creason_eqb (cd_reason a) (cd_reason b) && Z.eqb (cd_gen a) (cd_gen b).

(** meta.SetStatusCondition / RemoveStatusCondition / IsStatusConditionTrue (timestamps, messages not modelled) *)
Fixpoint set_cond (cs : list cond) (c : cond) : list cond :=
  match cs with
  | [] => [c]
  | x :: cs' => if ctype_eqb (cd_type x) (cd_type c) then c :: cs' else x :: set_cond cs' c
  end.
Definition remove_cond (cs : list cond) (t : ctype) : list cond :=
  filter (fun x => negb (ctype_eqb (cd_type x) t)) cs.
Definition find_cond (cs : list cond) (t : ctype) : option cond :=
  find (fun x => ctype_eqb (cd_type x) t) cs.
Definition cond_true (cs : list cond) (t : ctype) : bool :=
  match find_cond cs t with Some c => cstatus_eqb (cd_status c) STrue | None => false end.

(** ** The ObjectSet API object *)
Record phase := { ph_name : N; ph_class : bool; ph_objects : list pobj }.

Inductive lifecycle := LActive | LPaused | LArchived.
Definition lifecycle_eqb (a b : lifecycle) : bool :=
  match a, b with LActive, LActive | LPaused, LPaused | LArchived, LArchived => true | _, _ => false end.

Record oset := {
  os_id : oid;                (* kind KObjectSet / KClusterObjectSet, namespace, name, uid *)
  os_rv : N; os_gen : Z;
  os_deleting : bool;         (* deletionTimestamp set *)
  os_fin : bool;              (* carries the package-operator.run/cached finalizer *)
  os_orphan : bool;           (* carries the "orphan" finalizer *)
  os_pkg : N;                 (* package label *)
  os_life : lifecycle;
  os_phases : list phase;
  os_prev : list N;           (* spec.previous: names *)
  (* status *)
  os_revision : Z;
  os_conds : list cond;
  os_ctrlof : list okey;
  os_remotes : list (N * N)
}.

(** ** The (Cluster)ObjectSetPhase API object (apis/core/v1alpha1/objectsetphase_types.go) *)
Record osphase := {
  op_id : oid;                (* kind KObjectSetPhase / KClusterObjectSetPhase, namespace, name, uid *)
  op_rv : N; op_gen : Z;
  op_owners : list oref;      (* metadata.ownerReferences *)
  op_deleting : bool;         (* deletionTimestamp set *)
  op_fin : bool;              (* carries the package-operator.run/cached finalizer *)
  op_orphan : bool;           (* carries the "orphan" finalizer *)
  op_pkg : N;                 (* package label (labels are copied from the ObjectSet) *)
  op_class : N;               (* package-operator.run/phase-class label: 0 none, 1 "default", other = other class *)
  (* spec *)
  op_paused : bool; op_revision : Z; op_prev : list N; op_objects : list pobj;
  (* status *)
  op_conds : list cond;       (* Available / Paused, each with its observedGeneration *)
  op_ctrlof : list okey
}.

(** The world of the ObjectSet controller: member objects + API counters, the ObjectSets, the
    ObjectSetPhases and the Namespace objects that remotePhase.Teardown consults
    (number of the namespace, deletionTimestamp set). *)
Record sworld := { sw_w : world; sw_sets : list oset; sw_phases : list osphase; sw_nss : list (N * bool) }.

Definition oid_eqb (a b : oid) : bool :=
  (oi_kind a =? oi_kind b) && (oi_ns a =? oi_ns b) && (oi_name a =? oi_name b).

Definition find_set (sets : list oset) (kind ns name : N) : option oset :=
  find (fun s => (oi_kind (os_id s) =? kind) && (oi_ns (os_id s) =? ns) && (oi_name (os_id s) =? name)) sets.

Fixpoint put_set (sets : list oset) (s : oset) : list oset :=
  match sets with
  | [] => [s]
  | x :: r => if oid_eqb (os_id x) (os_id s) then s :: r else x :: put_set r s
  end.
Definition del_set (sets : list oset) (id : oid) : list oset :=
  filter (fun x => negb (oid_eqb (os_id x) id)) sets.

Definition find_phase (phs : list osphase) (kind ns name : N) : option osphase :=
  find (fun p => (oi_kind (op_id p) =? kind) && (oi_ns (op_id p) =? ns) && (oi_name (op_id p) =? name)) phs.
Fixpoint put_phase (phs : list osphase) (p : osphase) : list osphase :=
  match phs with
  | [] => [p]
  | x :: r => if oid_eqb (op_id x) (op_id p) then p :: r else x :: put_phase r p
  end.
Definition del_phase (phs : list osphase) (id : oid) : list osphase :=
  filter (fun x => negb (oid_eqb (op_id x) id)) phs.

Definition ns_state (nss : list (N * bool)) (ns : N) : option bool :=
  match find (fun x => fst x =? ns) nss with Some x => Some (snd x) | None => None end.

(** Requests on the ObjectSet itself. *)
Inductive mev :=
| MFinalizer (added : bool) (ok : bool)      (* merge patch of metadata.finalizers pinned to the resourceVersion *)
| MStatus (rev : Z) (conds : list cond) (ctrlof : list okey) (remotes : list (N * N)) (fph : option N) (ok : bool).
  (* fph: the phase named in the ProbeFailure message written by this request *)

(** Requests on an ObjectSetPhase object, by the ObjectSet controller (create, pause patch, delete, finalizer
    strip) and by the ObjectSetPhase controller (finalizer patch, status update). [name] is the object's name. *)
Inductive pev :=
| PGet (name : N) (r : option osphase)                (* a read by the ObjectSet controller; None = NotFound *)
| PCreate (name : N) (stored : option osphase)       (* Some p: created and stored as p *)
| PPause (name : N) (paused : bool) (resp : option osphase)   (* merge patch {spec.paused} pinned to the resourceVersion;
                                                         Some p: the patched object the server returned *)
| PDelete (name : N) (r : dres)
| PStrip (name : N) (ok : bool)                       (* Update with metadata.finalizers = nil *)
| PFinalizer (name : N) (added : bool) (ok : bool)
| PStatus (name : N) (conds : list cond) (ctrlof : list okey) (ok : bool).

Inductive sev := SMember (e : ev) | SMeta (m : mev) | SPhase (p : pev).

Inductive sres :=
| SNothing            (* not found / archived short-circuit: no request at all *)
| SDone (requeue : bool)
| SError.             (* Reconcile returned an error (requeued with backoff by the workqueue) *)

Definition bump_rv (w : world) : world := {| w_store := w_store w; w_rv := w_rv w + 1; w_uid := w_uid w |}.

(** Persisting the in-memory copy [s] of the set. A write that changes nothing is a no-op on the server. *)
Definition oset_same_meta (a b : oset) : bool := Bool.eqb (os_fin a) (os_fin b).

Definition as_owner (s : oset) : owner :=
  {| ow_id := os_id s; ow_rev := os_revision s;
     ow_paused := lifecycle_eqb (os_life s) LPaused; ow_pkg := os_pkg s |}.

Definition spec_key (s : oset) (p : pobj) : okey := desired_key (as_owner s) p.

(** ObjectDuplicate.Check on the phases with the namespace default applied
    (objectsetphases_reconciler.go phasesWithDefaultedNamespace): counts repeated object identities. *)
Fixpoint dup_count (seen : list okey) (ks : list okey) : nat :=
  match ks with
  | [] => O
  | k :: r => if existsb (okey_eqb k) seen then S (dup_count seen r)
              else dup_count (k :: seen) r
  end.
Definition all_objects (s : oset) : list pobj := flat_map ph_objects (os_phases s).

(** isObjectSetInTransition (objectsetphases_reconciler.go:304-354) *)
Fixpoint remove_first_key (k : okey) (l : list okey) : option (list okey) :=
  match l with
  | [] => None
  | x :: r => if okey_eqb x k then Some r
              else match remove_first_key k r with Some r' => Some (x :: r') | None => None end
  end.
Fixpoint dedup_keys (l : list okey) : list okey :=
  match l with
  | [] => []
  | x :: r => if existsb (okey_eqb x) r then dedup_keys r else x :: dedup_keys r
  end.
Definition remove_all_key (k : okey) (l : list okey) : list okey := filter (fun x => negb (okey_eqb x k)) l.

(** 337-352: a reference without namespace (cluster-scoped objects reported through the ObjectSetPhase API)
    that has no direct match removes one entry of the same group, kind and name (Go picks it by map
    iteration; the model takes the first in spec order, which only matters if the spec lists the same
    group/kind/name in two namespaces). *)
Fixpoint remove_first_gkname (c : okey) (l : list okey) : list okey :=
  match l with
  | [] => []
  | x :: r => if (k_gk x =? k_gk c) && (k_name x =? k_name c) then r else x :: remove_first_gkname c r
  end.
Definition remove_ctrl (acc : list okey) (c : okey) : list okey :=
  if existsb (okey_eqb c) acc then remove_all_key c acc
  else if k_ns c =? 0 then remove_first_gkname c acc else acc.

Definition in_transition (s : oset) (ctrlof : list okey) : bool :=
  if lifecycle_eqb (os_life s) LArchived then false else
  let all := dedup_keys (map (spec_key s) (all_objects s)) in
  let rest := fold_left remove_ctrl ctrlof all in
  negb (is_nil rest).

(** Previous revision lookup (previous_revision_lookup.go): a missing previous set yields an empty identity. *)
Definition lookup_prev (sets : list oset) (s : oset) : list prevrev :=
  map (fun n => match find_set sets (oi_kind (os_id s)) (oi_ns (os_id s)) n with
                | Some p => {| pv_id := os_id p; pv_remotes := os_remotes p |}
                | None => {| pv_id := {| oi_kind := oi_kind (os_id s); oi_ns := 0; oi_name := 0; oi_uid := 0 |}; pv_remotes := [] |}
                end) (os_prev s).

Section Pass.
  Variable force : bool.
  Let c : cfg := {| c_flavor := FObjectSet; c_force := force |}.
  Let idw (w : world) := w.

  (** reconcile (objectsetphases_reconciler.go:187-221): phases in order, stop at the first failing probe. *)
  Inductive prres := PRErr (e : errclass) | PRPreflight | PROk (ctrlof : list okey) (failed_phase : option N).

  Fixpoint reconcile_phases (w : world) (ow : owner) (prev : list prevrev) (phs : list phase) (acc : list okey)
    : world * list ev * prres :=
    match phs with
    | [] => (w, [], PROk acc None)
    | ph :: rest =>
        match reconcile_phase c idw w ow prev (ph_class ph) (ph_objects ph) with
        | (w1, e1, PhErr e) => (w1, e1, PRErr e)
        | (w1, e1, PhPreflight _) => (w1, e1, PRPreflight)
        | (w1, e1, PhOk actual failed) =>
            let acc' := acc ++ map fst (filter (fun ko => is_controller Native (ow_id ow) (snd ko)) actual) in
            match failed with
            | _ :: _ => (w1, e1, PROk acc' (Some (ph_name ph)))
            | [] => let '(w2, e2, r) := reconcile_phases w1 ow prev rest acc' in (w2, e1 ++ e2, r)
            end
        end
    end.

  (** Teardown (257-280): phases in reverse order, stop at the first unfinished one. *)
  Fixpoint teardown_phases (w : world) (ow : owner) (rphs : list phase) : world * list ev * tdphres :=
    match rphs with
    | [] => (w, [], TdOk true)
    | ph :: rest =>
        match teardown_phase c idw w ow (ph_objects ph) with
        | (w1, e1, TdErr) => (w1, e1, TdErr)
        | (w1, e1, TdOk false) => (w1, e1, TdOk false)
        | (w1, e1, TdOk true) => let '(w2, e2, r) := teardown_phases w1 ow rest in (w2, e1 ++ e2, r)
        end
    end.

  (** Status().Update of the in-memory copy: conflict unless the resourceVersion is current; a status equal
      to the stored one is a no-op. Returns the new world, the refreshed in-memory copy and the outcome. *)
  Definition status_eqb (a b : oset) : bool :=
    Z.eqb (os_revision a) (os_revision b) && list_eqb cond_eqb (os_conds a) (os_conds b) &&
    list_eqb okey_eqb (os_ctrlof a) (os_ctrlof b) &&
    list_eqb (fun x y => (fst x =? fst y) && (snd x =? snd y)) (os_remotes a) (os_remotes b).

  Definition with_status (stored mem : oset) (rv : N) : oset :=
    {| os_id := os_id stored; os_rv := rv; os_gen := os_gen stored; os_deleting := os_deleting stored;
       os_fin := os_fin stored; os_orphan := os_orphan stored; os_pkg := os_pkg stored; os_life := os_life stored;
       os_phases := os_phases stored; os_prev := os_prev stored;
       os_revision := os_revision mem; os_conds := os_conds mem; os_ctrlof := os_ctrlof mem; os_remotes := os_remotes mem |}.

  Definition update_status (sw : sworld) (mem : oset) : sworld * oset * bool :=
    match find_set (sw_sets sw) (oi_kind (os_id mem)) (oi_ns (os_id mem)) (oi_name (os_id mem)) with
    | None => (sw, mem, false)
    | Some stored =>
        if negb (os_rv stored =? os_rv mem) then (sw, mem, false) else
        if status_eqb stored mem then (sw, mem, true) else
        let s' := with_status stored mem (w_rv (sw_w sw)) in
        ({| sw_w := bump_rv (sw_w sw); sw_sets := put_set (sw_sets sw) s'; sw_phases := sw_phases sw; sw_nss := sw_nss sw |}, s', true)
    end.

  Definition status_ev_f (mem : oset) (fph : option N) (ok : bool) : sev :=
    SMeta (MStatus (os_revision mem) (os_conds mem) (os_ctrlof mem) (os_remotes mem) fph ok).
  Definition status_ev (mem : oset) (ok : bool) : sev := status_ev_f mem None ok.

  (** EnsureFinalizer / RemoveFinalizer (controllers.go:22-76): merge patch pinned to the resourceVersion;
      the response replaces the in-memory copy (including its status). Removing the last finalizer of a
      deleting object deletes it. *)
  Definition set_fin (s : oset) (fin : bool) (rv : N) : oset :=
    {| os_id := os_id s; os_rv := rv; os_gen := os_gen s; os_deleting := os_deleting s;
       os_fin := fin; os_orphan := os_orphan s; os_pkg := os_pkg s; os_life := os_life s;
       os_phases := os_phases s; os_prev := os_prev s;
       os_revision := os_revision s; os_conds := os_conds s; os_ctrlof := os_ctrlof s; os_remotes := os_remotes s |}.

  Definition patch_finalizer (sw : sworld) (mem : oset) (fin : bool) : sworld * option oset :=
    match find_set (sw_sets sw) (oi_kind (os_id mem)) (oi_ns (os_id mem)) (oi_name (os_id mem)) with
    | None => (sw, None)
    | Some stored =>
        if negb (os_rv stored =? os_rv mem) then (sw, None) else
        let s' := set_fin stored fin (w_rv (sw_w sw)) in
        if negb fin && os_deleting stored && negb (os_orphan stored)
        then ({| sw_w := bump_rv (sw_w sw); sw_sets := del_set (sw_sets sw) (os_id stored); sw_phases := sw_phases sw; sw_nss := sw_nss sw |}, Some s')
        else ({| sw_w := bump_rv (sw_w sw); sw_sets := put_set (sw_sets sw) s'; sw_phases := sw_phases sw; sw_nss := sw_nss sw |}, Some s')
    end.

  Definition set_conds (s : oset) (cs : list cond) : oset :=
    {| os_id := os_id s; os_rv := os_rv s; os_gen := os_gen s; os_deleting := os_deleting s;
       os_fin := os_fin s; os_orphan := os_orphan s; os_pkg := os_pkg s; os_life := os_life s;
       os_phases := os_phases s; os_prev := os_prev s;
       os_revision := os_revision s; os_conds := cs; os_ctrlof := os_ctrlof s; os_remotes := os_remotes s |}.
  Definition set_ctrlof (s : oset) (l : list okey) : oset :=
    {| os_id := os_id s; os_rv := os_rv s; os_gen := os_gen s; os_deleting := os_deleting s;
       os_fin := os_fin s; os_orphan := os_orphan s; os_pkg := os_pkg s; os_life := os_life s;
       os_phases := os_phases s; os_prev := os_prev s;
       os_revision := os_revision s; os_conds := os_conds s; os_ctrlof := l; os_remotes := os_remotes s |}.
  Definition set_revision (s : oset) (r : Z) : oset :=
    {| os_id := os_id s; os_rv := os_rv s; os_gen := os_gen s; os_deleting := os_deleting s;
       os_fin := os_fin s; os_orphan := os_orphan s; os_pkg := os_pkg s; os_life := os_life s;
       os_phases := os_phases s; os_prev := os_prev s;
       os_revision := r; os_conds := os_conds s; os_ctrlof := os_ctrlof s; os_remotes := os_remotes s |}.

  Definition set_remotes (s : oset) (l : list (N * N)) : oset :=
    {| os_id := os_id s; os_rv := os_rv s; os_gen := os_gen s; os_deleting := os_deleting s;
       os_fin := os_fin s; os_orphan := os_orphan s; os_pkg := os_pkg s; os_life := os_life s;
       os_phases := os_phases s; os_prev := os_prev s;
       os_revision := os_revision s; os_conds := os_conds s; os_ctrlof := os_ctrlof s; os_remotes := l |}.

  Definition mk_cond (s : oset) (t : ctype) (st : cstatus) (r : creason) : cond :=
    {| cd_type := t; cd_status := st; cd_reason := r; cd_gen := os_gen s |}.

  Definition with_w (sw : sworld) (w : world) : sworld :=
    {| sw_w := w; sw_sets := sw_sets sw; sw_phases := sw_phases sw; sw_nss := sw_nss sw |}.
  Definition with_phases (sw : sworld) (w : world) (phs : list osphase) : sworld :=
    {| sw_w := w; sw_sets := sw_sets sw; sw_phases := phs; sw_nss := sw_nss sw |}.

  (** ** Delegated phases (remotephase_reconciler.go) *)

  (** objectSetPhaseName (236-241): <objectset>-<phase>. Names are numerals in base 1000 whose digits the
      harness writes as "n<d0>-p<d1>-p<d2>..." for ObjectSets and "p<d0>-p<d1>" for phases, so that string
      concatenation with "-" is multiplication by a power of 1000: like the real function, [join_name] is
      not injective as a function of the pair (join_name 3002 5 = join_name 3 2005). *)
  Definition NB : N := 1000.
  Definition join_name (set ph : N) : N := if ph <? NB then set * NB + ph else set * (NB * NB) + ph.

  Definition phase_kind (s : oset) : N :=
    if oi_kind (os_id s) =? KClusterObjectSet then KClusterObjectSetPhase else KObjectSetPhase.

  (** desiredObjectSetPhase (204-234): uid, resourceVersion and generation are assigned by the server. *)
  Definition desired_phase (s : oset) (ph : phase) : osphase :=
    {| op_id := {| oi_kind := phase_kind s; oi_ns := oi_ns (os_id s);
                   oi_name := join_name (oi_name (os_id s)) (ph_name ph); oi_uid := 0 |};
       op_rv := 0; op_gen := 0;
       op_owners := [ctrl_ref (os_id s)];
       op_deleting := false; op_fin := false; op_orphan := false;
       op_pkg := os_pkg s; op_class := if ph_class ph then 1 else 0;
       op_paused := lifecycle_eqb (os_life s) LPaused; op_revision := os_revision s; op_prev := os_prev s;
       op_objects := ph_objects ph; op_conds := []; op_ctrlof := [] |}.

  Definition stamp_phase (p : osphase) (uid rv : N) (gen : Z) : osphase :=
    {| op_id := {| oi_kind := oi_kind (op_id p); oi_ns := oi_ns (op_id p); oi_name := oi_name (op_id p); oi_uid := uid |};
       op_rv := rv; op_gen := gen; op_owners := op_owners p; op_deleting := op_deleting p; op_fin := op_fin p;
       op_orphan := op_orphan p; op_pkg := op_pkg p; op_class := op_class p; op_paused := op_paused p;
       op_revision := op_revision p; op_prev := op_prev p; op_objects := op_objects p;
       op_conds := op_conds p; op_ctrlof := op_ctrlof p |}.

  (** Metadata / spec edits of a stored phase object; [rv] is the new resourceVersion. *)
  Definition phase_with (p : osphase) (rv : N) (gen : Z) (deleting fin orphan paused : bool) : osphase :=
    {| op_id := op_id p; op_rv := rv; op_gen := gen; op_owners := op_owners p; op_deleting := deleting; op_fin := fin;
       op_orphan := orphan; op_pkg := op_pkg p; op_class := op_class p; op_paused := paused;
       op_revision := op_revision p; op_prev := op_prev p; op_objects := op_objects p;
       op_conds := op_conds p; op_ctrlof := op_ctrlof p |}.

  Definition bump_uid_rv (w : world) : world := {| w_store := w_store w; w_rv := w_rv w + 1; w_uid := w_uid w + 1 |}.

  (** addRemoteObjectSetPhase (243-257): replace the entry of the same name, else append. *)
  Fixpoint add_remote (refs : list (N * N)) (r : N * N) : list (N * N) :=
    match refs with
    | [] => [r]
    | x :: l => if fst x =? fst r then r :: l else x :: add_remote l r
    end.

  Inductive rrres := RRErr | RROk (active : list okey) (failed : bool).

  (** The relay (176-207): the phase's Available condition counts only if it was computed for the phase
      object's current generation. *)
  Definition relay (cur : osphase) : rrres :=
    match find_cond (op_conds cur) CAvailable with
    | None => RROk (op_ctrlof cur) true                                 (* "no status reported" *)
    | Some cd =>
        if negb (Z.eqb (cd_gen cd) (op_gen cur)) then RROk (op_ctrlof cur) true
        else if cstatus_eqb (cd_status cd) STrue then RROk (op_ctrlof cur) false
        else RROk (op_ctrlof cur) true
    end.

  (** metav1.IsControlledBy: the first controller reference, compared by UID only. *)
  Definition controlled_by_uid (owners : list oref) (uid : N) : bool :=
    match find r_ctrl owners with Some r => r_uid r =? uid | None => false end.

  (** remotePhase.Reconcile as it was before commit a940846 (historical): the controller of an existing phase
      object is not looked at; whatever exists under the name is recorded, pause-patched and relayed. *)
  Definition remote_reconcile_v0 (sw : sworld) (s : oset) (ph : phase) (rem : list (N * N))
    : sworld * list sev * list (N * N) * rrres :=
    let d := desired_phase s ph in
    let name := oi_name (op_id d) in
    match find_phase (sw_phases sw) (oi_kind (op_id d)) (oi_ns (op_id d)) name with
    | None =>
        let stored := stamp_phase d (w_uid (sw_w sw)) (w_rv (sw_w sw)) 1 in
        (with_phases sw (bump_uid_rv (sw_w sw)) (put_phase (sw_phases sw) stored),
         [SPhase (PGet name None); SPhase (PCreate name (Some stored))], rem, RRErr)
    | Some cur =>
        let rem1 := add_remote rem (name, oi_uid (op_id cur)) in
        if Bool.eqb (op_paused cur) (op_paused d) then (sw, [SPhase (PGet name (Some cur))], rem1, relay cur) else
        let cur' := phase_with cur (w_rv (sw_w sw)) (op_gen cur + 1) (op_deleting cur) (op_fin cur) (op_orphan cur) (op_paused d) in
        (with_phases sw (bump_rv (sw_w sw)) (put_phase (sw_phases sw) cur'),
         [SPhase (PGet name (Some cur)); SPhase (PPause name (op_paused d) (Some cur'))], rem1, relay cur')
    end.

  (** remotePhase.Reconcile (111-216). [rem]: the in-memory status.remotePhases. A phase object that exists
      under the name but is not controlled by the ObjectSet is an error (ObjectSetPhaseNotControlledError,
      140-147): it is not recorded, not patched and not relayed. MapConditions is a no-op in the modelled
      worlds (no condition type contains a "/"). *)
  Definition remote_reconcile (sw : sworld) (s : oset) (ph : phase) (rem : list (N * N))
    : sworld * list sev * list (N * N) * rrres :=
    let d := desired_phase s ph in
    let name := oi_name (op_id d) in
    match find_phase (sw_phases sw) (oi_kind (op_id d)) (oi_ns (op_id d)) name with
    | None =>
        (* 138-148: Create; the NotFound of the Get is still in [err] at 149, so the creating pass ends with
           "getting existing ObjectSetPhase: ... not found" *)
        let stored := stamp_phase d (w_uid (sw_w sw)) (w_rv (sw_w sw)) 1 in
        (with_phases sw (bump_uid_rv (sw_w sw)) (put_phase (sw_phases sw) stored),
         [SPhase (PGet name None); SPhase (PCreate name (Some stored))], rem, RRErr)
    | Some cur =>
        if negb (controlled_by_uid (op_owners cur) (oi_uid (os_id s))) then (sw, [SPhase (PGet name (Some cur))], rem, RRErr) else
        let rem1 := add_remote rem (name, oi_uid (op_id cur)) in
        if Bool.eqb (op_paused cur) (op_paused d) then (sw, [SPhase (PGet name (Some cur))], rem1, relay cur) else
        (* 169-185: merge patch pinned to the resourceVersion just read; the response replaces [cur] *)
        let cur' := phase_with cur (w_rv (sw_w sw)) (op_gen cur + 1) (op_deleting cur) (op_fin cur) (op_orphan cur) (op_paused d) in
        (with_phases sw (bump_rv (sw_w sw)) (put_phase (sw_phases sw) cur'),
         [SPhase (PGet name (Some cur)); SPhase (PPause name (op_paused d) (Some cur'))], rem1, relay cur')
    end.

  (** Delete without preconditions of a phase object: finalizers delay it. *)
  Definition delete_phase (sw : sworld) (cur : osphase) : sworld :=
    if op_fin cur || op_orphan cur then
      if op_deleting cur then sw
      else with_phases sw (bump_rv (sw_w sw))
             (put_phase (sw_phases sw) (phase_with cur (w_rv (sw_w sw)) (op_gen cur) true (op_fin cur) (op_orphan cur) (op_paused cur)))
    else with_phases sw (sw_w sw) (del_phase (sw_phases sw) (op_id cur)).

  (** remotePhase.Teardown (50-109). *)
  Definition remote_teardown (sw : sworld) (s : oset) (ph : phase) : sworld * list sev * tdphres :=
    let d := desired_phase s ph in
    let name := oi_name (op_id d) in
    match find_phase (sw_phases sw) (oi_kind (op_id d)) (oi_ns (op_id d)) name with
    | None => (sw, [SPhase (PGet name None)], TdOk true)                (* 65-68: already gone *)
    | Some cur =>
        let rd := SPhase (PGet name (Some cur)) in
        if negb (controlled_by_uid (op_owners cur) (oi_uid (os_id s))) then (sw, [rd], TdOk true)   (* 73-79: orphaned *)
        else
        let delete_it := (delete_phase sw cur, [rd; SPhase (PDelete name DOk)], TdOk false) in    (* 100-108 *)
        if oi_ns (os_id s) =? 0 then delete_it else
        match ns_state (sw_nss sw) (oi_ns (os_id s)) with
        | None => (sw, [rd], TdErr)                                     (* 90-92: Get of the Namespace fails *)
        | Some false => delete_it
        | Some true =>
            (* 94-98: namespace is terminating: strip all finalizers, report "not done" *)
            if negb (op_fin cur || op_orphan cur) then (sw, [rd; SPhase (PStrip name true)], TdOk false) else
            let cur' := phase_with cur (w_rv (sw_w sw)) (op_gen cur) (op_deleting cur) false false (op_paused cur) in
            (with_phases sw (bump_rv (sw_w sw))
               (if op_deleting cur then del_phase (sw_phases sw) (op_id cur) else put_phase (sw_phases sw) cur'),
             [rd; SPhase (PStrip name true)], TdOk false)
        end
    end.

  (** reconcile (187-221) with the dispatch of reconcilePhase (223-235): phases in order, delegated ones through
      the remote phase reconciler; stop at the first failing probe / phase that has not reported. *)
  Inductive mres := MErr (e : errclass) | MRemoteErr | MPreflight | MOk (ctrlof : list okey) (failed_phase : option N).

  Fixpoint reconcile_phases_m (sw : sworld) (s : oset) (ow : owner) (prev : list prevrev) (phs : list phase)
           (acc : list okey) (rem : list (N * N)) : sworld * list sev * list (N * N) * mres :=
    match phs with
    | [] => (sw, [], rem, MOk acc None)
    | ph :: rest =>
        if ph_class ph then
          match remote_reconcile sw s ph rem with
          | (sw1, e1, rem1, RRErr) => (sw1, e1, rem1, MRemoteErr)
          | (sw1, e1, rem1, RROk active true) => (sw1, e1, rem1, MOk (acc ++ active) (Some (ph_name ph)))
          | (sw1, e1, rem1, RROk active false) =>
              let '(sw2, e2, rem2, r) := reconcile_phases_m sw1 s ow prev rest (acc ++ active) rem1 in
              (sw2, e1 ++ e2, rem2, r)
          end
        else
          match reconcile_phase c idw (sw_w sw) ow prev false (ph_objects ph) with
          | (w1, e1, PhErr e) => (with_w sw w1, map SMember e1, rem, MErr e)
          | (w1, e1, PhPreflight _) => (with_w sw w1, map SMember e1, rem, MPreflight)
          | (w1, e1, PhOk actual failed) =>
              let acc' := acc ++ map fst (filter (fun ko => is_controller Native (ow_id ow) (snd ko)) actual) in
              match failed with
              | _ :: _ => (with_w sw w1, map SMember e1, rem, MOk acc' (Some (ph_name ph)))
              | [] => let '(sw2, e2, rem2, r) := reconcile_phases_m (with_w sw w1) s ow prev rest acc' rem in
                      (sw2, map SMember e1 ++ e2, rem2, r)
              end
          end
    end.

  (** Teardown (257-280) with the dispatch of teardownPhase (282-290). *)
  Fixpoint teardown_phases_m (sw : sworld) (s : oset) (ow : owner) (rphs : list phase) : sworld * list sev * tdphres :=
    match rphs with
    | [] => (sw, [], TdOk true)
    | ph :: rest =>
        let '(sw1, e1, r1) :=
          if ph_class ph then remote_teardown sw s ph
          else let '(w1, e1, r1) := teardown_phase c idw (sw_w sw) ow (ph_objects ph) in (with_w sw w1, map SMember e1, r1) in
        match r1 with
        | TdErr => (sw1, e1, TdErr)
        | TdOk false => (sw1, e1, TdOk false)
        | TdOk true => let '(sw2, e2, r) := teardown_phases_m sw1 s ow rest in (sw2, e1 ++ e2, r)
        end
    end.

  (** handleDeletionAndArchival (322-372) followed by the tail of Reconcile (205-218). *)
  Definition deletion_pass (sw : sworld) (mem : oset) : sworld * list sev * sres :=
    let archived := lifecycle_eqb (os_life mem) LArchived in
    let rm_avail (s : oset) := set_conds s (remove_cond (os_conds s) CAvailable) in
    let finish (sw' : sworld) (evs : list sev) (mem' : oset) :=
      (* 205-218: deleted and not archived: no status update; archived: update status *)
      if negb archived then (sw', evs, SDone false) else
      let '(sw'', _, ok) := update_status sw' (rm_avail mem') in
      (sw'', evs ++ [status_ev (rm_avail mem') ok], if ok then SDone false else SError) in
    (* Teardown only while the finalizer is still there *)
    let '(sw1, evs1, td) :=
      if os_fin mem then
        if os_orphan mem then (sw, [], TdOk true)
        else teardown_phases_m sw mem (as_owner mem) (rev (os_phases mem))
      else (sw, [], TdOk true) in
    match td with
    | TdErr => (sw1, evs1, SError)
    | TdOk false =>
        let mem' := if archived then set_conds mem (set_cond (os_conds mem) (mk_cond mem CArchived SFalse RArchivalInProgress)) else mem in
        finish sw1 evs1 mem'
    | TdOk true =>
        (* FreeCacheAndRemoveFinalizer *)
        if os_fin mem then
          match patch_finalizer sw1 mem false with
          | (sw2, None) => (sw2, evs1 ++ [SMeta (MFinalizer false false)], SError)
          | (sw2, Some mem2) =>
              let mem3 := if archived
                          then set_ctrlof (set_conds mem2 (set_cond (os_conds mem2) (mk_cond mem2 CArchived STrue RArchived))) []
                          else mem2 in
              finish sw2 (evs1 ++ [SMeta (MFinalizer false true)]) mem3
          end
        else
          let mem3 := if archived
                      then set_ctrlof (set_conds mem (set_cond (os_conds mem) (mk_cond mem CArchived STrue RArchived))) []
                      else mem in
          finish sw1 evs1 mem3
    end.

  (** revisionReconciler (revision_reconciler.go:23-73). Returns the in-memory copy, an optional status
      request, and whether the pass stops here (requeue / error). *)
  Inductive revres := RevGo | RevRequeue | RevErr.

  Definition max_prev_revision (sets : list oset) (s : oset) : option Z :=
    fold_left (fun acc n =>
      match acc with
      | None => None
      | Some m =>
          match find_set sets (oi_kind (os_id s)) (oi_ns (os_id s)) n with
          | None => None                       (* Get fails: error *)
          | Some p => if Z.eqb (os_revision p) 0 then Some (-1)%Z   (* marks "wait" *)
                      else if Z.eqb m (-1)%Z then Some (-1)%Z else Some (Z.max m (os_revision p))
          end
      end) (os_prev s) (Some 0%Z).

  (** The Go loop returns at the FIRST previous that is missing (error) or has revision 0 (requeue). *)
  Fixpoint scan_prev (sets : list oset) (s : oset) (names : list N) (latest : Z) : option (option Z) :=
    match names with
    | [] => Some (Some latest)
    | n :: r =>
        match find_set sets (oi_kind (os_id s)) (oi_ns (os_id s)) n with
        | None => None
        | Some p => if Z.eqb (os_revision p) 0 then Some None
                    else scan_prev sets s r (Z.max latest (os_revision p))
        end
    end.

  Definition revision_pass (sw : sworld) (mem : oset) : sworld * list sev * oset * revres :=
    if negb (Z.eqb (os_revision mem) 0) then (sw, [], mem, RevGo) else
    match os_prev mem with
    | [] => (sw, [], set_revision mem 1, RevGo)
    | _ =>
        match scan_prev (sw_sets sw) mem (os_prev mem) 0 with
        | None => (sw, [], mem, RevErr)
        | Some None => (sw, [], mem, RevRequeue)
        | Some (Some latest) =>
            let mem1 := set_revision mem (latest + 1) in
            let '(sw1, mem2, ok) := update_status sw mem1 in
            (sw1, [status_ev mem1 ok], mem2, if ok then RevGo else RevErr)
        end
    end.

  (** objectSetPhasesReconciler.Reconcile (105-185), then reportPausedCondition and updateStatus. *)

  (** areRemotePhasesPaused (objectset_controller.go:295-320): Some b = all reachable, b = all report
      Paused=True; None = a referenced phase object is missing. *)
  Fixpoint remote_phases_paused (phs : list osphase) (kind ns : N) (refs : list (N * N)) : option bool :=
    match refs with
    | [] => Some true
    | r :: l =>
        match find_phase phs kind ns (fst r) with
        | None => None
        | Some p =>
            match remote_phases_paused phs kind ns l with
            | None => None
            | Some b => Some (cond_true (op_conds p) CPaused && b)
            end
        end
    end.

  (** The reads of areRemotePhasesPaused: one Get per reference, up to and including the first missing one. *)
  Fixpoint paused_reads_l (phs : list osphase) (kind ns : N) (refs : list (N * N)) : list sev :=
    match refs with
    | [] => []
    | r :: l =>
        match find_phase phs kind ns (fst r) with
        | None => [SPhase (PGet (fst r) None)]
        | Some p => SPhase (PGet (fst r) (Some p)) :: paused_reads_l phs kind ns l
        end
    end.
  Definition paused_reads (phs : list osphase) (mem : oset) : list sev :=
    paused_reads_l phs (phase_kind mem) (oi_ns (os_id mem)) (os_remotes mem).

  (** reportPausedCondition (objectset_controller.go:251-293). *)
  Definition paused_cond (phs : list osphase) (mem : oset) : list cond :=
    let spec := lifecycle_eqb (os_life mem) LPaused in
    let '(phases_paused, unknown) :=
      match os_remotes mem with
      | [] => (spec, false)
      | refs => match remote_phases_paused phs (phase_kind mem) (oi_ns (os_id mem)) refs with
                | None => (false, true)
                | Some b => (b, false)
                end
      end in
    if unknown || (spec && negb phases_paused) || (negb spec && phases_paused)
    then set_cond (os_conds mem) (mk_cond mem CPaused SUnknown RPartiallyPaused)
    else if spec then set_cond (os_conds mem) (mk_cond mem CPaused STrue RPaused)
    else remove_cond (os_conds mem) CPaused.

  (** The status computed after the phase loop returned (objectsetphases_reconciler.go:133-185) followed by
      reportPausedCondition (objectset_controller.go:251-293); [phs]: the phase objects at that point. *)
  Definition final_status (phs : list osphase) (mem1 : oset) (ctrlof : list okey) (failed : option N) : oset :=
    let m1 := set_ctrlof mem1 ctrlof in
    let intr := in_transition m1 ctrlof in
    let cs1 := if intr then set_cond (os_conds m1) (mk_cond m1 CInTransition STrue RInTransition)
               else remove_cond (os_conds m1) CInTransition in
    let cs2 :=
      match failed with
      | Some _ => set_cond cs1 (mk_cond m1 CAvailable SFalse RProbeFailure)
      | None =>
          let cs := set_cond cs1 (mk_cond m1 CAvailable STrue RAvailable) in
          if negb (cond_true cs CSucceeded) && negb intr
          then set_cond cs (mk_cond m1 CSucceeded STrue RRolloutSuccess) else cs
      end in
    let m2 := set_conds m1 cs2 in
    set_conds m2 (paused_cond phs m2).

  (** The reconciler loop (revision, [slices], phases) and the status write, after the finalizer is ensured. *)
  Definition active_body (sw0 : sworld) (evs0 : list sev) (mem : oset) : sworld * list sev * sres :=
    let '(sw1, evs1, mem1, rr) := revision_pass sw0 mem in
    match rr with
    | RevErr => (sw1, evs0 ++ evs1, SError)
    | RevRequeue =>
        (* non-zero result: loop breaks, no error: reportPausedCondition + updateStatus *)
        let mem2 := set_conds mem1 (paused_cond (sw_phases sw1) mem1) in
        let '(sw2, _, ok) := update_status sw1 mem2 in
        (sw2, evs0 ++ evs1 ++ paused_reads (sw_phases sw1) mem1 ++ [status_ev mem2 ok], if ok then SDone true else SError)
    | RevGo =>
        let fail_with (sw' : sworld) (evs : list sev) (m : oset) (r : creason) :=
          let m' := set_conds m (set_cond (os_conds m) (mk_cond m CAvailable SFalse r)) in
          let '(sw'', _, ok) := update_status sw' m' in
          (sw'', evs ++ [status_ev m' ok], if ok then SDone true else SError) in
        (* slices are not part of this model: phases carry their objects inline *)
        if Nat.ltb 0 (dup_count [] (map (spec_key mem1) (all_objects mem1))) then fail_with sw1 (evs0 ++ evs1) mem1 RPreflightError else
        let ow := as_owner mem1 in
        let prev := lookup_prev (sw_sets sw1) mem1 in
        let '(sw2, pevs, rem, pr) := reconcile_phases_m sw1 mem1 ow prev (os_phases mem1) [] (os_remotes mem1) in
        let evs2 := evs0 ++ evs1 ++ pevs in
        (* the remote phase references gathered so far are part of the in-memory status on every exit *)
        let mem2 := set_remotes mem1 rem in
        match pr with
        | MPreflight => fail_with sw2 evs2 mem2 RPreflightError
        | MErr ErrNotPrevious | MErr ErrRevCollision => fail_with sw2 evs2 mem2 RCollisionDetected
        | MErr _ | MRemoteErr => (sw2, evs2, SError)
        | MOk ctrlof failed =>
            let m3 := final_status (sw_phases sw2) mem2 ctrlof failed in
            let '(sw3, _, ok) := update_status sw2 m3 in
            (sw3, evs2 ++ paused_reads (sw_phases sw2) mem2 ++ [status_ev_f m3 failed ok], if ok then SDone false else SError)
        end
    end.

  Definition active_pass (sw : sworld) (mem0 : oset) : sworld * list sev * sres :=
    (* EnsureCachedFinalizer *)
    if os_fin mem0 then active_body sw [] mem0 else
    match patch_finalizer sw mem0 true with
    | (sw', None) => (sw', [SMeta (MFinalizer true false)], SError)
    | (sw', Some m) => active_body sw' [SMeta (MFinalizer true true)] m
    end.

  (** GenericObjectSetController.Reconcile (179-243) *)
  Definition objectset_pass (sw : sworld) (kind ns name : N) : sworld * list sev * sres :=
    match find_set (sw_sets sw) kind ns name with
    | None => (sw, [], SNothing)
    | Some mem =>
        if cond_true (os_conds mem) CArchived then (sw, [], SNothing) else
        if os_deleting mem || lifecycle_eqb (os_life mem) LArchived then deletion_pass sw mem
        else active_pass sw mem
    end.
End Pass.
