(** Frame and effect lemmas for the API model. *)
From Coq Require Import List NArith ZArith Bool Lia.
From PKO Require Import Util Base BaseProofs Owner Api.
Import ListNotations.
Local Open Scope N_scope.

Lemma set_rv_same o : set_rv o (o_rv o) = o.
Proof. destruct o; reflexivity. Qed.

Lemma apply_to_rv ap o : o_rv (apply_to ap o) = o_rv o.
Proof. reflexivity. Qed.

Lemma apply_to_uid ap o : o_uid (apply_to ap o) = o_uid o.
Proof. reflexivity. Qed.

(** Effect of api_apply at the key. *)
Lemma api_apply_spec w k ap w' o cr :
  api_apply w k ap = Some (w', o, cr) ->
  lookup k (w_store w') = Some o /\ refs_valid (o_owners o) = true /\
  match lookup k (w_store w) with
  | None => cr = true /\ o = fresh_obj ap (w_uid w) (w_rv w)
  | Some cur => cr = false /\ exists rv, o = set_rv (apply_to ap cur) rv
  end.
Proof.
  unfold api_apply. destruct (lookup k (w_store w)) as [cur|] eqn:E.
  - destruct (refs_valid (o_owners (apply_to ap cur))) eqn:Ev; cbn [negb]; [|discriminate].
    destruct (obj_eqb (apply_to ap cur) cur) eqn:Eq.
    + intros H. injection H as <- <- <-. apply obj_eqb_spec in Eq. split; [assumption|]. split; [now rewrite <- Eq|].
      split; [reflexivity|].
      exists (o_rv cur). rewrite <- (apply_to_rv ap cur). rewrite set_rv_same. now rewrite Eq.
    + intros H. injection H as <- <- <-. cbn. split; [apply lookup_upsert_same|]. split; [exact Ev|]. split; [reflexivity|]. eexists; reflexivity.
  - destruct (refs_valid (o_owners (fresh_obj ap (w_uid w) (w_rv w)))) eqn:Ev; cbn [negb]; [|discriminate].
    intros H. injection H as <- <- <-. cbn. split; [apply lookup_upsert_same|]. split; [exact Ev|]. split; reflexivity.
Qed.

Lemma api_apply_frame w k ap w' o cr k' :
  api_apply w k ap = Some (w', o, cr) -> k' <> k -> lookup k' (w_store w') = lookup k' (w_store w).
Proof.
  unfold api_apply. intros H Hne. destruct (lookup k (w_store w)) as [cur|].
  - destruct (negb _); [discriminate|]. destruct (obj_eqb (apply_to ap cur) cur); injection H as <- <- <-; cbn; [reflexivity|].
    now apply lookup_upsert_other.
  - destruct (negb _); [discriminate|]. injection H as <- <- <-. cbn. now apply lookup_upsert_other.
Qed.

Lemma api_apply_rv_mono w k ap w' o cr : api_apply w k ap = Some (w', o, cr) -> w_rv w <= w_rv w'.
Proof.
  unfold api_apply. intros H. destruct (lookup k (w_store w)) as [cur|].
  - destruct (negb _); [discriminate|]. destruct (obj_eqb (apply_to ap cur) cur); injection H as <- <- <-; cbn; lia.
  - destruct (negb _); [discriminate|]. injection H as <- <- <-. cbn. lia.
Qed.

Lemma api_release_frame w k owners w' r k' :
  api_release_patch w k owners = Some (w', r) -> k' <> k -> lookup k' (w_store w') = lookup k' (w_store w).
Proof.
  unfold api_release_patch. destruct (lookup k (w_store w)) as [cur|]; [|discriminate].
  destruct (negb (refs_valid owners)); [intros H; injection H as <- <-; reflexivity|].
  match goal with |- context [obj_eqb ?a ?b] => destruct (obj_eqb a b) end.
  - intros H; injection H as <- <-. reflexivity.
  - intros H; injection H as <- <-. intros Hne. cbn. now apply lookup_upsert_other.
Qed.

Lemma api_release_invalid w k owners w' : api_release_patch w k owners = Some (w', None) -> w' = w.
Proof.
  unfold api_release_patch. destruct (lookup k (w_store w)) as [cur|]; [|discriminate].
  destruct (negb (refs_valid owners)); [intros H; injection H as <-; reflexivity|].
  match goal with |- context [obj_eqb ?a ?b] => destruct (obj_eqb a b) end; discriminate.
Qed.

(** The release patch changes nothing but ownerReferences, the cache label and the resourceVersion. *)
Lemma api_release_spec w k owners w' o :
  api_release_patch w k owners = Some (w', Some o) ->
  exists cur, lookup k (w_store w) = Some cur /\ lookup k (w_store w') = Some o /\
    o_uid o = o_uid cur /\ o_gen o = o_gen cur /\ o_owners o = owners /\ o_aowners o = o_aowners cur /\
    o_rev o = o_rev cur /\ o_cache o = false /\ o_pkg o = o_pkg cur /\ o_body o = o_body cur /\
    o_avail o = o_avail cur /\ o_obsgen o = o_obsgen cur /\ o_deleting o = o_deleting cur /\ o_fin o = o_fin cur.
Proof.
  unfold api_release_patch. destruct (lookup k (w_store w)) as [cur|] eqn:E; [|discriminate].
  destruct (negb (refs_valid owners)); [discriminate|].
  match goal with |- context [obj_eqb ?a ?b] => destruct (obj_eqb a b) eqn:Eq end.
  - intros H; injection H as <- <-. apply obj_eqb_spec in Eq. exists cur. split; [reflexivity|]. split; [assumption|].
    rewrite <- Eq. cbn. repeat split; reflexivity.
  - intros H; injection H as <- <-. exists cur. split; [reflexivity|]. cbn. split; [apply lookup_upsert_same|].
    repeat split; reflexivity.
Qed.

Lemma api_delete_frame w k uid rv k' :
  k' <> k -> lookup k' (w_store (fst (api_delete w k uid rv))) = lookup k' (w_store w).
Proof.
  intros Hne. unfold api_delete. destruct (lookup k (w_store w)) as [cur|]; [|reflexivity].
  destruct (negb _); [reflexivity|]. destruct (o_fin cur).
  - destruct (o_deleting cur); [reflexivity|]. cbn. now apply lookup_upsert_other.
  - cbn. now apply lookup_remove_other.
Qed.

(** A delete takes effect only on exactly the inspected version (uid and resourceVersion). *)
Lemma api_delete_effect w k uid rv w' r :
  api_delete w k uid rv = (w', r) ->
  match r with
  | DNotFound => lookup k (w_store w) = None /\ w' = w
  | DConflict => w' = w /\ exists cur, lookup k (w_store w) = Some cur /\ (o_uid cur <> uid \/ o_rv cur <> rv)
  | DOk => exists cur, lookup k (w_store w) = Some cur /\ o_uid cur = uid /\ o_rv cur = rv
  end.
Proof.
  unfold api_delete. destruct (lookup k (w_store w)) as [cur|] eqn:E.
  - destruct ((o_uid cur =? uid) && (o_rv cur =? rv)) eqn:Em; cbn [negb].
    + apply andb_true_iff in Em. destruct Em as [E1 E2]. apply N.eqb_eq in E1, E2.
      destruct (o_fin cur); [destruct (o_deleting cur)|]; intros H; injection H as <- <-; exists cur; auto.
    + intros H; injection H as <- <-. split; [reflexivity|]. exists cur. split; [reflexivity|].
      apply andb_false_iff in Em. destruct Em as [Em|Em]; apply N.eqb_neq in Em; auto.
  - intros H; injection H as <- <-. auto.
Qed.

Lemma cur_lookup w k :
  match cache_get w k with Some o => Some o | None => api_get w k end = lookup k (w_store w).
Proof. unfold cache_get, api_get. destruct (lookup k (w_store w)) as [o|]; [destruct (o_cache o)|]; reflexivity. Qed.
