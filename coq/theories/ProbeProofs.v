(** Laws of the probing pipeline (C17). *)
From Coq Require Import List ZArith NArith Bool String Ascii Lia Permutation.
From PKO Require Import Util Json Probe.
Import ListNotations.
Local Open Scope string_scope.
Local Open Scope list_scope.

(** A result is well formed when success means "no message". Every prober built by the
    parser has this shape; And.Probe relies on it (a failing prober without a message would
    count as passing, probe.go:30). *)
Definition wf_result (r : result) : Prop := fst r = is_nil (snd r).
Definition wf_prober (p : prober) : Prop := forall o, wf_result (p o).

Lemma single_msg_wf r : wf_result (single_msg r).
Proof. destruct r; reflexivity. Qed.

Lemma p_and_wf ps : wf_prober (p_and ps).
Proof. intros o. unfold p_and. destruct (and_msgs ps o); reflexivity. Qed.

Lemma p_kind_wf gk p : wf_prober p -> wf_prober (p_kind gk p).
Proof. intros H o. unfold p_kind. destruct (gk_eqb gk (group_kind o)); [apply H|reflexivity]. Qed.

Lemma p_label_wf reqs p : wf_prober p -> wf_prober (p_label reqs p).
Proof. intros H o. unfold p_label. destruct (negb (sel_matches reqs (labels_of o))); [reflexivity|apply H]. Qed.

Lemma p_og_wf p : wf_prober p -> wf_prober (p_og p).
Proof.
  intros H o. unfold p_og. destruct (nested_int64 o ["status"; "observedGeneration"]); try apply H.
  destruct (negb (a =? generation o)%Z); [reflexivity|apply H].
Qed.

Lemma cond_probe_wf t s : wf_prober (cond_probe t s).
Proof. intros o. apply single_msg_wf. Qed.

Lemma fe_probe_wf a b : wf_prober (fe_probe a b).
Proof. intros o. apply single_msg_wf. Qed.

Lemma is_nil_app {A} (l1 l2 : list A) : is_nil (l1 ++ l2) = is_nil l1 && is_nil l2.
Proof. destruct l1, l2; reflexivity. Qed.

Lemma is_nil_true {A} (l : list A) : is_nil l = true <-> l = [].
Proof. destruct l; cbn; split; congruence. Qed.

(** And over well-formed probers: the messages are the concatenation of all messages. *)
Lemma and_msgs_wf ps o : Forall wf_prober ps -> and_msgs ps o = flat_map (fun p : prober => snd (p o)) ps.
Proof.
  induction 1 as [|p ps Hp _ IH]; cbn; [reflexivity|]. unfold and_msgs in IH. rewrite IH. f_equal.
  specialize (Hp o). unfold wf_result in Hp. destruct (fst (p o)); [|reflexivity].
  symmetry in Hp. apply is_nil_true in Hp. now rewrite Hp.
Qed.

Lemma p_and_fst ps o : fst (p_and ps o) = is_nil (and_msgs ps o).
Proof. unfold p_and. destruct (and_msgs ps o); reflexivity. Qed.

Lemma p_and_snd ps o : snd (p_and ps o) = and_msgs ps o.
Proof. unfold p_and. destruct (and_msgs ps o); reflexivity. Qed.

(** Compiled label selector = direct reading of the API type. *)
Lemma expr_requirement_matches e r ls :
  expr_requirement e = Some r -> req_matches ls r = expr_matches ls e.
Proof.
  unfold expr_requirement, req_matches, expr_matches. destruct (e_op e) eqn:Eop.
  - destruct (e_vals e); [discriminate|]. intros H; injection H as <-; cbn. now destruct (assoc (e_key e) ls).
  - destruct (e_vals e); [discriminate|]. intros H; injection H as <-; cbn. now destruct (assoc (e_key e) ls).
  - destruct (e_vals e); [|discriminate]. intros H; injection H as <-; cbn. now destruct (assoc (e_key e) ls).
  - destruct (e_vals e); [|discriminate]. intros H; injection H as <-; cbn. now destruct (assoc (e_key e) ls).
  - discriminate.
Qed.

Lemma expr_requirements_matches es rs ls :
  expr_requirements es = Some rs -> forallb (req_matches ls) rs = forallb (expr_matches ls) es.
Proof.
  revert rs; induction es as [|e es IH]; intros rs; cbn.
  - intros H; injection H as <-; reflexivity.
  - destruct (expr_requirement e) as [r|] eqn:Er; [|discriminate].
    destruct (expr_requirements es) as [qs|]; [|discriminate]. intros H; injection H as <-; cbn.
    now rewrite (expr_requirement_matches _ _ _ Er), (IH qs).
Qed.

Lemma selector_matches s reqs ls :
  label_selector_as_selector s = Some reqs -> sel_matches reqs ls = ls_matches s ls.
Proof.
  unfold label_selector_as_selector, sel_matches, ls_matches.
  destruct (expr_requirements (match_exprs s)) as [qs|] eqn:E; [|discriminate].
  intros H; injection H as <-. rewrite forallb_app, (expr_requirements_matches _ _ _ E). f_equal.
  induction (match_labels s) as [|[k v] l IH]; cbn; [reflexivity|]. rewrite IH. f_equal.
  unfold req_matches; cbn. destruct (assoc k ls); [|reflexivity]. cbn. now rewrite orb_false_r.
Qed.

Section Proofs.
  Variable cel_compile : N -> cel_class.
  Variable cel_eval : N -> json -> cel_outcome.

  Notation cel_probe := (cel_probe cel_eval).
  Notation leaf_prober := (leaf_prober cel_eval).
  Notation parse_leaves := (parse_leaves cel_compile cel_eval).
  Notation parse_probes := (parse_probes cel_compile cel_eval).
  Notation parse_group := (parse_group cel_compile cel_eval).
  Notation parse_groups := (parse_groups cel_compile cel_eval).
  Notation parse := (parse cel_compile cel_eval).
  Notation passes_one := (passes_one cel_eval).
  Notation messages_one := (messages_one cel_eval).
  Notation failures_from := (failures_from cel_eval).
  Notation failures := (failures cel_eval).
  Notation verdict := (verdict cel_compile cel_eval).
  Notation run_history := (run_history cel_compile cel_eval).

  Lemma leaf_prober_wf l : wf_prober (leaf_prober l).
  Proof. destruct l; intros o; apply single_msg_wf. Qed.

  (** ** ParseProbes *)

  Definition cel_leaves_ok (specs : list probe_spec) : Prop :=
    forall r, In (LCel r) (leaves specs) -> cel_compile r = CelOk.

  Lemma parse_leaves_inr specs l :
    parse_leaves specs = inr l -> l = map leaf_prober (leaves specs) /\ cel_leaves_ok specs.
  Proof.
    unfold cel_leaves_ok. revert l; induction specs as [|sp specs IH]; intros l; cbn.
    - intros H; injection H as <-. split; [reflexivity|intros r []].
    - unfold leaf_of. destruct (p_fe sp) as [f|]; [|destruct (p_cond sp) as [c|]; [|destruct (p_cel sp) as [r|]]].
      + destruct (parse_leaves specs) as [e|l']; [discriminate|]. intros H; injection H as <-.
        destruct (IH l' eq_refl) as [-> Hok]. split; [reflexivity|]. intros r [Hr|Hr]; [discriminate|auto].
      + destruct (parse_leaves specs) as [e|l']; [discriminate|]. intros H; injection H as <-.
        destruct (IH l' eq_refl) as [-> Hok]. split; [reflexivity|]. intros r [Hr|Hr]; [discriminate|auto].
      + destruct (cel_compile r) eqn:Ec; try discriminate.
        destruct (parse_leaves specs) as [e|l']; [discriminate|]. intros H; injection H as <-.
        destruct (IH l' eq_refl) as [-> Hok]. split; [reflexivity|].
        intros r' [Hr|Hr]; [injection Hr as <-; assumption|auto].
      + apply IH.
  Qed.

  Lemma parse_leaves_inl specs e :
    parse_leaves specs = inl e ->
    exists r, In (LCel r) (leaves specs) /\
              ((e = ECelNotBool /\ cel_compile r = CelNotBool) \/ (e = ECelCompile /\ cel_compile r = CelCompileErr)).
  Proof.
    induction specs as [|sp specs IH]; cbn; [discriminate|].
    unfold leaf_of. destruct (p_fe sp) as [f|]; [|destruct (p_cond sp) as [c|]; [|destruct (p_cel sp) as [r|]]].
    - destruct (parse_leaves specs) as [e'|l']; [|discriminate]. intros H; injection H as <-.
      destruct (IH eq_refl) as (r & Hin & Hr). exists r. split; [right; assumption|assumption].
    - destruct (parse_leaves specs) as [e'|l']; [|discriminate]. intros H; injection H as <-.
      destruct (IH eq_refl) as (r & Hin & Hr). exists r. split; [right; assumption|assumption].
    - destruct (cel_compile r) eqn:Ec.
      + destruct (parse_leaves specs) as [e'|l']; [|discriminate]. intros H; injection H as <-.
        destruct (IH eq_refl) as (r' & Hin & Hr). exists r'. split; [right; assumption|assumption].
      + intros H; injection H as <-. exists r. split; [left; reflexivity|left; auto].
      + intros H; injection H as <-. exists r. split; [left; reflexivity|right; auto].
    - assumption.
  Qed.

  Lemma parse_leaves_ok specs :
    cel_leaves_ok specs -> parse_leaves specs = inr (map leaf_prober (leaves specs)).
  Proof.
    intros Hok. destruct (parse_leaves specs) as [e|l] eqn:E.
    - destruct (parse_leaves_inl _ _ E) as (r & Hin & [[_ H]|[_ H]]); rewrite (Hok r Hin) in H; discriminate.
    - now destruct (parse_leaves_inr _ _ E) as [-> _].
  Qed.

  (** ** What one ObjectSetProbe does *)

  Lemma forallb_fst_is_nil (ls : list leaf) o :
    forallb (fun l => fst (leaf_prober l o)) ls = is_nil (flat_map (fun l => snd (leaf_prober l o)) ls).
  Proof.
    induction ls as [|l ls IH]; cbn; [reflexivity|]. rewrite is_nil_app, IH. f_equal. apply leaf_prober_wf.
  Qed.

  Lemma flat_map_map {A B C} (f : A -> B) (g : B -> list C) l : flat_map g (map f l) = flat_map (fun x => g (f x)) l.
  Proof. induction l; cbn; [reflexivity|]. now rewrite IHl. Qed.

  (** The observedGeneration guard around the And of the leaves. *)
  Lemma inner_result specs o :
    p_og (p_and (map leaf_prober (leaves specs))) o
    = (negb (og_stale o) && forallb (fun l => fst (leaf_prober l o)) (leaves specs),
       if og_stale o then [RStatusOutdated] else flat_map (fun l => snd (leaf_prober l o)) (leaves specs)).
  Proof.
    assert (Hand : p_and (map leaf_prober (leaves specs)) o
                   = (forallb (fun l => fst (leaf_prober l o)) (leaves specs),
                      flat_map (fun l => snd (leaf_prober l o)) (leaves specs))).
    { rewrite (surjective_pairing (p_and _ o)), p_and_fst, p_and_snd, and_msgs_wf.
      - now rewrite flat_map_map, forallb_fst_is_nil.
      - apply Forall_forall. intros p Hp. apply in_map_iff in Hp. destruct Hp as (l & <- & _). apply leaf_prober_wf. }
    unfold p_og, og_stale. destruct (nested_int64 o ["status"; "observedGeneration"]); try exact Hand.
    destruct (negb (a =? generation o)%Z); [reflexivity|exact Hand].
  Qed.

  Definition group_result (q : osp) (o : json) : result :=
    if selects q o then (passes_one q o, messages_one q o) else (true, []).

  Lemma parse_group_inr q g :
    parse_group q = inr g -> (forall o, g o = group_result q o) /\ cel_leaves_ok (o_probes q).
  Proof.
    unfold parse_group, parse_probes. destruct (parse_leaves (o_probes q)) as [e|l] eqn:El; [discriminate|].
    destruct (parse_leaves_inr _ _ El) as [-> Hok].
    destruct (parse_selector (o_sel q) _) as [g'|] eqn:Es; [|discriminate]. intros H; injection H as <-.
    split; [|assumption]. intros o. unfold group_result, selects, passes_one, messages_one.
    unfold parse_selector in Es. destruct (s_labels (o_sel q)) as [s|].
    - destruct (label_selector_as_selector s) as [reqs|] eqn:Er; [|discriminate]. injection Es as <-.
      unfold p_label. rewrite (selector_matches _ _ _ Er).
      destruct (ls_matches s (labels_of o)); cbn; [|now rewrite andb_false_r].
      rewrite andb_true_r. destruct (s_kind (o_sel q)) as [gk|].
      + unfold p_kind. destruct (gk_eqb gk (group_kind o)); [apply inner_result|reflexivity].
      + apply inner_result.
    - injection Es as <-. rewrite andb_true_r. destruct (s_kind (o_sel q)) as [gk|].
      + unfold p_kind. destruct (gk_eqb gk (group_kind o)); [apply inner_result|reflexivity].
      + apply inner_result.
  Qed.

  Lemma passes_one_is_nil q o : passes_one q o = is_nil (messages_one q o).
  Proof.
    unfold passes_one, messages_one. destruct (og_stale o); cbn; [reflexivity|]. apply forallb_fst_is_nil.
  Qed.

  Lemma group_result_wf q o : wf_result (group_result q o).
  Proof. unfold group_result. destruct (selects q o); [apply passes_one_is_nil|reflexivity]. Qed.

  (** the messages one ObjectSetProbe contributes to the whole *)
  Definition contribution (q : osp) (o : json) : list reason :=
    if selects q o && negb (passes_one q o) then messages_one q o else [].

  Lemma contribution_snd q o : contribution q o = snd (group_result q o).
  Proof.
    unfold contribution, group_result. destruct (selects q o); cbn; [|reflexivity].
    rewrite passes_one_is_nil. now destruct (messages_one q o).
  Qed.

  Lemma contribution_nil q o : contribution q o = [] <-> (selects q o = true -> passes_one q o = true).
  Proof.
    unfold contribution. destruct (selects q o); cbn.
    - rewrite passes_one_is_nil. destruct (messages_one q o); cbn; split; auto; try congruence.
      intros H. specialize (H eq_refl). discriminate.
    - split; [discriminate|reflexivity].
  Qed.

  (** ** Parse *)

  Lemma parse_groups_inr qs : forall i gs,
    parse_groups i qs = inr gs -> Forall2 (fun q g => parse_group q = inr g) qs gs.
  Proof.
    induction qs as [|q qs IH]; intros i gs; cbn.
    - intros H; injection H as <-; constructor.
    - destruct (parse_group q) as [e|g] eqn:Eg; [discriminate|].
      destruct (parse_groups (i + 1) qs) as [e|gs'] eqn:Egs; [discriminate|].
      intros H; injection H as <-. constructor; [assumption|]. now apply (IH (i + 1)%N).
  Qed.

  Lemma and_groups qs gs o :
    Forall2 (fun q g => parse_group q = inr g) qs gs -> and_msgs gs o = flat_map (fun q => contribution q o) qs.
  Proof.
    induction 1 as [|q g qs gs Hg _ IH]; cbn; [reflexivity|].
    unfold and_msgs in IH. rewrite IH. f_equal.
    destruct (parse_group_inr _ _ Hg) as [Hr _]. rewrite Hr, contribution_snd.
    pose proof (group_result_wf q o) as Hwf. unfold wf_result in Hwf.
    destruct (fst (group_result q o)); [|reflexivity]. symmetry in Hwf. apply is_nil_true in Hwf. now rewrite Hwf.
  Qed.

  Lemma parse_inr qs p :
    parse qs = inr p ->
    forall o, p o = (is_nil (flat_map (fun q => contribution q o) qs), flat_map (fun q => contribution q o) qs).
  Proof.
    unfold parse. destruct (parse_groups 0 qs) as [e|gs] eqn:E; [discriminate|]. intros H; injection H as <-.
    intros o. rewrite (surjective_pairing (p_and gs o)), p_and_fst, p_and_snd.
    now rewrite (and_groups _ _ o (parse_groups_inr _ _ _ E)).
  Qed.

  Lemma flat_map_nil {A B} (f : A -> list B) l : flat_map f l = [] <-> forall x, In x l -> f x = [].
  Proof.
    induction l as [|a l IH]; cbn; [split; [intros _ x []|reflexivity]|].
    split.
    - intros H. apply app_eq_nil in H. destruct H as [Ha Hl]. intros x [<-|Hx]; [assumption|]. now apply IH.
    - intros H. rewrite (H a (or_introl eq_refl)). apply IH. intros x Hx. apply H. now right.
  Qed.

  (** An object passes the parsed prober iff every ObjectSetProbe that selects it passes. *)
  Theorem probe_conj qs p o :
    parse qs = inr p ->
    (fst (p o) = true <-> forall q, In q qs -> selects q o = true -> passes_one q o = true).
  Proof.
    intros Hp. rewrite (parse_inr _ _ Hp). cbn. rewrite is_nil_true, flat_map_nil.
    split; intros H q Hq; apply contribution_nil; auto.
  Qed.

  (** The same as a boolean equation: the success flag is the conjunction, over the
      ObjectSetProbes that select the object, of "the probe passes". *)
  Theorem probe_conj_b qs p o :
    parse qs = inr p -> fst (p o) = forallb (fun q => implb (selects q o) (passes_one q o)) qs.
  Proof.
    intros Hp. destruct (forallb _ qs) eqn:E.
    - apply (probe_conj _ _ o Hp). rewrite forallb_forall in E. intros q Hq Hs. specialize (E q Hq).
      now rewrite Hs in E.
    - destruct (fst (p o)) eqn:Ef; [|reflexivity]. rewrite (probe_conj _ _ o Hp) in Ef.
      assert (forallb (fun q => implb (selects q o) (passes_one q o)) qs = true); [|congruence].
      apply forallb_forall. intros q Hq. destruct (selects q o) eqn:Es; [|reflexivity]. cbn. now apply Ef.
  Qed.

  (** Objects that no probe selects pass, without messages. *)
  Theorem unselected_pass qs p o :
    parse qs = inr p -> (forall q, In q qs -> selects q o = false) -> p o = (true, []).
  Proof.
    intros Hp Hns. rewrite (parse_inr _ _ Hp).
    assert (E : flat_map (fun q => contribution q o) qs = []).
    { apply flat_map_nil. intros q Hq. unfold contribution. now rewrite (Hns q Hq). }
    now rewrite E.
  Qed.

  (** The ObjectSetProbe alone (the prober of the singleton list) behaves like its share. *)
  Theorem unselected_one_pass q p o : parse [q] = inr p -> selects q o = false -> p o = (true, []).
  Proof. intros Hp Hs. apply (unselected_pass [q] p o Hp). intros q' [<-|[]]. assumption. Qed.

  (** All failures are reported: the messages are the messages of the failing selected
      probes, in the order of the list (and for each in the order of its leaves). *)
  Theorem all_failures_reported qs p o :
    parse qs = inr p ->
    snd (p o) = flat_map (fun q => if selects q o && negb (passes_one q o) then messages_one q o else []) qs.
  Proof. intros Hp. now rewrite (parse_inr _ _ Hp). Qed.

  Lemma failures_from_snd qs : forall i o, map snd (failures_from i qs o) = flat_map (fun q => contribution q o) qs.
  Proof.
    induction qs as [|q qs IH]; intros i o; cbn; [reflexivity|]. rewrite map_app, IH. f_equal.
    unfold contribution. destruct (selects q o && negb (passes_one q o)); [|reflexivity].
    rewrite map_map. cbn. apply map_id.
  Qed.

  (** ... and with the index of the ObjectSetProbe attached. *)
  Theorem failures_indexed qs p o : parse qs = inr p -> snd (p o) = map snd (failures qs o).
  Proof. intros Hp. unfold failures. now rewrite failures_from_snd, (parse_inr _ _ Hp). Qed.

  Lemma failures_from_index qs : forall i o j r,
    In (j, r) (failures_from i qs o) ->
    exists q, nth_error qs (N.to_nat (j - i)) = Some q /\ (i <= j)%N /\ selects q o = true /\ passes_one q o = false
              /\ In r (messages_one q o).
  Proof.
    induction qs as [|q qs IH]; intros i o j r; cbn; [intros []|].
    intros H. apply in_app_or in H. destruct H as [H|H].
    - destruct (selects q o) eqn:Es; cbn in H; [|contradiction].
      destruct (passes_one q o) eqn:Ep; cbn in H; [contradiction|].
      apply in_map_iff in H. destruct H as (r' & Heq & Hr). injection Heq as <- <-.
      exists q. rewrite N.sub_diag. cbn. repeat split; auto. lia.
    - destruct (IH _ _ _ _ H) as (q' & Hn & Hle & Hs & Hp & Hr). exists q'.
      replace (N.to_nat (j - i)) with (S (N.to_nat (j - (i + 1)))) by lia. cbn. repeat split; auto. lia.
  Qed.

  (** ** Stale status *)

  (** Object-wide: a selected object whose status.observedGeneration is an integer other than
      metadata.generation fails, whatever the probes are (even none). *)
  Theorem stale_never_passes qs p q o :
    parse qs = inr p -> In q qs -> selects q o = true -> og_stale o = true ->
    fst (p o) = false /\ In RStatusOutdated (snd (p o)).
  Proof.
    intros Hp Hq Hs Ho.
    assert (Hc : contribution q o = [RStatusOutdated]).
    { unfold contribution, passes_one, messages_one. now rewrite Hs, Ho. }
    rewrite (parse_inr _ _ Hp). cbn.
    assert (Hin : In RStatusOutdated (flat_map (fun q => contribution q o) qs)).
    { apply in_flat_map. exists q. split; [assumption|]. rewrite Hc. now left. }
    split; [|assumption]. destruct (flat_map _ qs); [contradiction|reflexivity].
  Qed.

  Lemma passes_one_leaf q o l :
    passes_one q o = true -> In l (leaves (o_probes q)) -> fst (leaf_prober l o) = true.
  Proof.
    unfold passes_one. rewrite andb_true_iff. intros [_ H] Hl. rewrite forallb_forall in H. now apply H.
  Qed.

  Lemma leaf_fails_all_fails qs p q o l :
    parse qs = inr p -> In q qs -> selects q o = true -> In l (leaves (o_probes q)) ->
    fst (leaf_prober l o) = false -> fst (p o) = false.
  Proof.
    intros Hp Hq Hs Hl Hf. destruct (fst (p o)) eqn:E; [|reflexivity].
    rewrite (probe_conj _ _ o Hp) in E. pose proof (passes_one_leaf _ _ _ (E q Hq Hs) Hl). congruence.
  Qed.

  Definition conditions_of (o : json) : option (list json) :=
    match nested_field o ["status"; "conditions"] with NFound (JArr cs) => Some cs | _ => None end.

  Lemma cond_probe_stale o t s cs :
    conditions_of o = Some cs -> existsb (stale_entry (generation o) t) cs = true ->
    cond_probe t s o = (false, [RCondOutdated]).
  Proof.
    unfold conditions_of, cond_probe. intros Hc Hst.
    destruct (nested_field o ["status"; "conditions"]) as [[| | | | |cs'|]| |]; try discriminate.
    injection Hc as ->. now rewrite Hst.
  Qed.

  (** Per condition, in full: if ANY entry of status.conditions has the probed type and
      declares an integer observedGeneration other than metadata.generation, a selected object
      fails. No distinctness of condition types is assumed (pre-scan of condition.go:41-53). *)
  Theorem stale_condition_never_passes qs p q o t s cs :
    parse qs = inr p -> In q qs -> selects q o = true -> In (LCond t s) (leaves (o_probes q)) ->
    conditions_of o = Some cs ->
    existsb (stale_entry (generation o) t) cs = true ->
    fst (p o) = false.
  Proof.
    intros Hp Hq Hs Hl Hc Hst. apply (leaf_fails_all_fails _ _ _ _ _ Hp Hq Hs Hl).
    cbn. now rewrite (cond_probe_stale o t s cs Hc Hst).
  Qed.

  (** ** fieldsEqual *)

  Definition field_present (o : json) (f : string) : bool :=
    match nested_field o (path_of f) with NFound _ => true | _ => false end.

  Lemma fe_missing_fails a b o :
    field_present o a = false \/ field_present o b = false -> fst (fe_probe a b o) = false.
  Proof.
    unfold field_present, fe_probe. intros [H|H].
    - destruct (nested_field o (path_of a)); [discriminate|reflexivity|reflexivity].
    - destruct (nested_field o (path_of a)); try reflexivity.
      destruct (nested_field o (path_of b)); [discriminate|reflexivity|reflexivity].
  Qed.

  (** A missing field (also: both missing, or a non-map on the way) fails the probe. *)
  Theorem fields_equal_missing_fails qs p q o a b :
    parse qs = inr p -> In q qs -> selects q o = true -> In (LFE a b) (leaves (o_probes q)) ->
    field_present o a = false \/ field_present o b = false ->
    fst (p o) = false.
  Proof.
    intros Hp Hq Hs Hl Hm. apply (leaf_fails_all_fails _ _ _ _ _ Hp Hq Hs Hl). cbn. now apply fe_missing_fails.
  Qed.

  (** ** Empty lists *)

  Theorem empty_probe_list_passes o : exists p, parse [] = inr p /\ p o = (true, []).
  Proof. eexists. split; reflexivity. Qed.

  (** A ObjectSetProbe without probes passes every object whose status is not stale. *)
  Theorem empty_inner_list_passes sel p o :
    parse [{| o_probes := []; o_sel := sel |}] = inr p -> og_stale o = false -> p o = (true, []).
  Proof.
    intros Hp Ho. rewrite (parse_inr _ _ Hp). cbn. unfold contribution, passes_one, messages_one. cbn.
    rewrite Ho. cbn. rewrite andb_false_r. reflexivity.
  Qed.

  (** ** The callers: what the phase reconciler records, and independence of earlier passes *)

  (** An object of the phase that was found is recorded as failed iff some ObjectSetProbe selects
      it and does not pass (i.e. iff the success flag is false: the messages play no role); an
      object that was not found is always recorded; the ProbingResult is zero iff every object
      was found and passes. *)
  Definition expected_record (qs : list osp) (o : option json) : bool :=
    match o with
    | Some o => existsb (fun q => selects q o && negb (passes_one q o)) qs
    | None => true
    end.

  Theorem recorded_iff_fails qs p objs :
    parse qs = inr p -> record_phase p objs = map (expected_record qs) objs.
  Proof.
    intros Hp. unfold record_phase. apply map_ext. intros [o|]; [|reflexivity]. cbn.
    rewrite (probe_conj_b _ _ o Hp).
    clear Hp. induction qs as [|q qs' IH]; cbn; [reflexivity|]. rewrite negb_andb, IH. f_equal.
    destruct (selects q o), (passes_one q o); reflexivity.
  Qed.

  Theorem result_zero_iff qs p objs :
    parse qs = inr p ->
    (result_is_zero (record_phase p objs) = true <-> forall x, In x objs -> exists o, x = Some o /\ fst (p o) = true).
  Proof.
    intros _. unfold result_is_zero, record_phase. rewrite negb_true_iff. split.
    - intros H x Hx. destruct x as [o|].
      + exists o. split; [reflexivity|]. destruct (fst (p o)) eqn:E; [reflexivity|]. exfalso.
        assert (existsb (fun b : bool => b) (map (record_one p) objs) = true); [|congruence].
        apply existsb_exists. exists true. split; [|reflexivity]. apply in_map_iff. exists (Some o). cbn. now rewrite E.
      + exfalso. assert (existsb (fun b : bool => b) (map (record_one p) objs) = true); [|congruence].
        apply existsb_exists. exists true. split; [|reflexivity]. apply in_map_iff. now exists None.
    - intros H. destruct (existsb _ _) eqn:E; [|reflexivity]. exfalso.
      apply existsb_exists in E. destruct E as (b & Hb & ->). apply in_map_iff in Hb.
      destruct Hb as (x & Hx & Hin). destruct (H x Hin) as (o & -> & Ho). cbn in Hx. rewrite Ho in Hx. discriminate.
  Qed.

  (** Purity across calls: the verdict of a pass is a function of the probe list of the
      ObjectSet reconciled in that pass and of the objects alone; whatever passes came before
      (for other ObjectSets, or for an earlier ObjectSet of the same name) or come after do not
      matter. Immediate in the model, which keeps no state; the history stage of the check ties
      one long-lived controller instance of the implementation to it. *)
  Theorem history_independent pre call post :
    nth_error (run_history (pre ++ call :: post)) (List.length pre) = Some (verdict call).
  Proof.
    unfold run_history. rewrite map_app. cbn. rewrite nth_error_app2; rewrite map_length; [|lia].
    now rewrite Nat.sub_diag.
  Qed.

  Corollary history_independent2 pre1 pre2 call post1 post2 :
    nth_error (run_history (pre1 ++ call :: post1)) (List.length pre1)
    = nth_error (run_history (pre2 ++ call :: post2)) (List.length pre2).
  Proof. now rewrite !history_independent. Qed.

  (** ** CEL rules must be boolean; when Parse fails *)

  Lemma parse_groups_inl qs : forall i j e,
    parse_groups i qs = inl (j, e) ->
    exists q, nth_error qs (N.to_nat (j - i)) = Some q /\ (i <= j)%N /\ parse_group q = inl e /\
              forall k q', (k < N.to_nat (j - i))%nat -> nth_error qs k = Some q' -> exists g, parse_group q' = inr g.
  Proof.
    induction qs as [|q qs IH]; intros i j e; cbn; [discriminate|].
    destruct (parse_group q) as [e'|g] eqn:Eg.
    - intros H; injection H as <- <-. exists q. rewrite N.sub_diag. cbn. repeat split; auto; [lia|].
      intros k q' Hk. lia.
    - destruct (parse_groups (i + 1) qs) as [[j' e']|gs] eqn:Egs; [|discriminate].
      intros H; injection H as <- <-. destruct (IH _ _ _ Egs) as (q' & Hn & Hle & Hq' & Hbefore).
      exists q'. replace (N.to_nat (j' - i)) with (S (N.to_nat (j' - (i + 1)))) by lia. cbn.
      repeat split; auto; [lia|]. intros [|k] q'' Hk; cbn.
      + intros H; injection H as <-. now exists g.
      + apply Hbefore. lia.
  Qed.

  Definition selector_ok (q : osp) : bool :=
    match s_labels (o_sel q) with
    | Some s => match label_selector_as_selector s with Some _ => true | None => false end
    | None => true
    end.

  Lemma parse_group_inl q e :
    parse_group q = inl e ->
    (e = ESelector /\ selector_ok q = false /\ cel_leaves_ok (o_probes q)) \/
    (exists r, In (LCel r) (leaves (o_probes q)) /\
               ((e = ECelNotBool /\ cel_compile r = CelNotBool) \/ (e = ECelCompile /\ cel_compile r = CelCompileErr))).
  Proof.
    unfold parse_group, parse_probes. destruct (parse_leaves (o_probes q)) as [e'|l] eqn:El.
    - intros H; injection H as <-. right. now apply parse_leaves_inl.
    - unfold parse_selector, selector_ok. destruct (s_labels (o_sel q)) as [s|]; [|discriminate].
      destruct (label_selector_as_selector s); [discriminate|]. intros H; injection H as <-. left.
      repeat split. now destruct (parse_leaves_inr _ _ El).
  Qed.

  Lemma parse_group_ok q :
    cel_leaves_ok (o_probes q) -> selector_ok q = true -> exists g, parse_group q = inr g.
  Proof.
    intros Hc Hs. destruct (parse_group q) as [e|g] eqn:E; [|now exists g]. exfalso.
    destruct (parse_group_inl _ _ E) as [(_ & H & _)|(r & Hin & [[_ H]|[_ H]])]; try congruence;
      rewrite (Hc r Hin) in H; discriminate.
  Qed.

  Lemma parse_groups_ok qs : forall i,
    (forall q, In q qs -> cel_leaves_ok (o_probes q) /\ selector_ok q = true) -> exists gs, parse_groups i qs = inr gs.
  Proof.
    induction qs as [|q qs IH]; intros i H; cbn; [now exists []|].
    destruct (H q (or_introl eq_refl)) as [Hc Hs]. destruct (parse_group_ok q Hc Hs) as [g ->].
    destruct (IH (i + 1)%N) as [gs ->]; [intros q' Hq'; apply H; now right|]. now eexists.
  Qed.

  (** A rule that is in effect and does not compile to a boolean makes Parse fail. *)
  Theorem cel_must_be_boolean qs q r :
    In q qs -> In (LCel r) (leaves (o_probes q)) -> cel_compile r <> CelOk -> exists e, parse qs = inl e.
  Proof.
    intros Hq Hr Hc. unfold parse. destruct (parse_groups 0 qs) as [e|gs] eqn:E; [now exists e|]. exfalso.
    pose proof (parse_groups_inr _ _ _ E) as HF. clear E. induction HF as [|q' g qs' gs' Hg _ IH]; [contradiction|].
    destruct Hq as [<-|Hq]; [|auto]. destruct (parse_group_inr _ _ Hg) as [_ Hok]. auto.
  Qed.

  (** Parse fails only for a reason: a rule that does not compile to a boolean or an invalid
      label selector; otherwise it yields a prober. *)
  Theorem parse_total qs :
    (forall q, In q qs -> cel_leaves_ok (o_probes q) /\ selector_ok q = true) -> exists p, parse qs = inr p.
  Proof. intros H. unfold parse. destruct (parse_groups_ok qs 0%N H) as [gs ->]. now eexists. Qed.
  (** Algebra of the conjunction (corollaries of [probe_conj_b] / [all_failures_reported]):
      concatenating probe lists conjoins the flags and concatenates the reports, the flag does not
      depend on the order of the ObjectSetProbes, and adding probes can only fail more objects. *)
  Theorem probe_app qs1 qs2 p1 p2 p o :
    parse qs1 = inr p1 -> parse qs2 = inr p2 -> parse (qs1 ++ qs2) = inr p ->
    fst (p o) = fst (p1 o) && fst (p2 o) /\ snd (p o) = snd (p1 o) ++ snd (p2 o).
  Proof.
    intros H1 H2 H. split.
    - rewrite (probe_conj_b _ _ o H1), (probe_conj_b _ _ o H2), (probe_conj_b _ _ o H). apply forallb_app.
    - rewrite (all_failures_reported _ _ o H1), (all_failures_reported _ _ o H2), (all_failures_reported _ _ o H).
      apply flat_map_app.
  Qed.

  Theorem probe_perm qs qs' p p' o :
    Permutation qs qs' -> parse qs = inr p -> parse qs' = inr p' -> fst (p o) = fst (p' o).
  Proof.
    intros HP H H'. apply eq_true_iff_eq. rewrite (probe_conj _ _ o H), (probe_conj _ _ o H').
    split; intros HA q Hq; apply HA; [apply Permutation_sym in HP|]; eapply Permutation_in; eauto.
  Qed.

  Theorem probe_mono qs qs' p p' o :
    incl qs qs' -> parse qs = inr p -> parse qs' = inr p' -> fst (p' o) = true -> fst (p o) = true.
  Proof.
    intros HI H H'. rewrite (probe_conj _ _ o H), (probe_conj _ _ o H'). intros HA q Hq. apply HA. now apply HI.
  Qed.
End Proofs.

(** ** History: before fix 9b2e4f3 the condition probe had no pre-scan ([condition_probe_v0]):
    with two entries of the same type the first one decided, so a later stale entry was not
    seen and the clause "a stale per-condition observedGeneration never passes" was false. *)
Definition dup_witness_q : osp :=
  {| o_probes := [{| p_cond := Some {| c_type := "Available"; c_status := "True" |}; p_fe := None; p_cel := None |}];
     o_sel := {| s_kind := None; s_labels := None |} |}.
Definition dup_witness_probes : list osp := [dup_witness_q].

Definition dup_witness_object : json :=
  JObj [("apiVersion", JStr "v1"); ("kind", JStr "ConfigMap");
        ("metadata", JObj [("generation", JNum 2)]);
        ("status", JObj [("conditions", JArr [
           JObj [("type", JStr "Available"); ("status", JStr "True"); ("observedGeneration", JNum 2)];
           JObj [("type", JStr "Available"); ("status", JStr "True"); ("observedGeneration", JNum 1)]])])].

Theorem v0_stale_condition_any_entry_refuted :
  exists o t s cs,
    conditions_of o = Some cs /\ existsb (stale_entry (generation o) t) cs = true /\
    condition_probe_v0 t s o = (true, []).
Proof. exists dup_witness_object, "Available", "True". eexists. repeat split; reflexivity. Qed.

(** The same witness on the current model: the parsed prober fails it as outdated. *)
Lemma dup_witness_now_fails :
  exists p, parse (fun _ => CelOk) (fun _ _ => CelTrue) dup_witness_probes = inr p
            /\ selects dup_witness_q dup_witness_object = true
            /\ p dup_witness_object = (false, [RCondOutdated]).
Proof. eexists. repeat split; reflexivity. Qed.

(** Observation (not a clause of the property): a non-integer observedGeneration (float,
    string) is not compared at all, NestedInt64 returns an error for it. *)
Example float_observed_generation_ignored :
  og_stale (JObj [("metadata", JObj [("generation", JNum 2)]); ("status", JObj [("observedGeneration", JFloat 7)])]) = false.
Proof. reflexivity. Qed.
