(** The handover clause of C08 at system level: "an object present in both the outgoing and the incoming revision is
    adopted in place and is never deleted during the handover".
    Part 1: refutations (witness histories from an empty cluster, evaluated by the kernel; each is replayed on the real
    controllers by checks/C08.py). Part 2: what a step can do to the set of objects a revision controls.
    Part 3: the handover relative to the archive decision. Part 4: the invariant behind status.controllerOf of a
    paused revision. *)
From Coq Require Import List NArith ZArith Bool Lia.
From PKO Require Import Util Base BaseProofs Owner OwnerProofs Api ApiProofs Phase PhaseProofs TeardownProofs ObjectSet ObjectSetProofs
  AdoptProofs Deployment DeploymentProofs.
Import ListNotations.
Local Open Scope N_scope.

(** * Definitions *)
(** The revision listed right after the one named [n] (ascending revision order, the order the archive reconciler walks). *)
Fixpoint next_in (n : N) (L : list dset) : option dset :=
  match L with
  | a :: ((b :: _) as t) => if sname a =? n then Some b else next_in n t
  | _ => None
  end.
Definition next_newer (w : dworld) (n : N) : option dset := next_in n (listed false w).

Definition stored (w : dworld) (k : okey) : option obj := lookup k (w_store (dw_w w)).
Definition controls (id : oid) (w : dworld) (k : okey) : Prop := exists o, stored w k = Some o /\ is_controller Native id o = true.

(** "The handover of revision [n] is violated by the next step": [n] is archived, the next newer revision [nx] is neither
    archived nor being deleted and has not been paused, lists [k], [k] exists, and a pass of the ObjectSet controller for [n] removes it. *)
Definition handover_violation (hash : N -> option N -> N) (slices : N -> option (list pobj)) (w : dworld) (n : N) (r nx : dset) (k : okey) : Prop :=
  find_dset (dw_sets w) n = Some r /\ is_archived r = true /\
  next_newer w n = Some nx /\ slife nx = LActive /\ os_deleting (ds_set nx) = false /\ (srev r < srev nx)%Z /\
  In k (full_objects slices nx) /\ stored w k <> None /\ stored (do_step hash slices w (SSet false n)) k = None.

Definition from_scratch (w : dworld) : Prop := dw_sets w = [] /\ w_store (dw_w w) = [] /\ d_paused (dw_dep w) = false.

(** Shapes of histories. *)
Definition plain_step (s : step) : bool :=     (* fresh, fault-free deployment passes; full ObjectSet passes; edits; probe inputs *)
  match s with
  | SDep false None | SSet false _ | SEdit _ _ | SMember _ _ => true
  | _ => false
  end.
Definition one_phase_step (s : step) : bool := match s with SEdit _ phs => Nat.leb (length phs) 1 | _ => true end.

(** * Part 1: witnesses *)
Section Witnesses.
  Definition hw_phase (name : N) (objs : list pobj) : phase := {| ph_name := name; ph_class := false; ph_objects := objs |}.
  Definition hw_key (gk name : N) : okey := {| k_gk := gk; k_ns := 1; k_name := name |}.
  (** an empty cluster: no ObjectSets, no objects *)
  Definition hw_world (dg : N) (phs : list phase) : dworld := wit_world (wit_dep dg phs None) [].

  (** Widgets (kind 2) are probed, ConfigMaps (kind 1) are not. *)
  Definition t_a_b : list phase := [hw_phase 1 [wit_pobj 2 1]; hw_phase 2 [wit_pobj 1 2]].
  Definition t_c_b : list phase := [hw_phase 1 [wit_pobj 2 3]; hw_phase 2 [wit_pobj 1 2]].

  (** W1: revision 1 (phases [a]; [b]) is rolled out completely, then a's probe fails: its controllerOf stops at phase 1.
      Revision 2 (phases [c]; [b]) waits for c. Revision 1 reports [a] (also from its paused pass), is archived and its
      teardown deletes b, which revision 2 lists and has not adopted yet. *)
  Definition w1_history : list step :=
    [SDep false None; SSet false 100; SMember (hw_key 2 1) 1; SSet false 100; SMember (hw_key 2 1) 2; SSet false 100;
     SEdit 2 t_c_b; SDep false None; SSet false 200; SDep false None; SSet false 100; SDep false None].
  Definition w1_world : dworld := run wit_hash no_slices (hw_world 1 t_a_b) w1_history.

  (** W2: revision 2 (one phase [b; c]) adopted b from revision 1; the teardown of the archived revision 1 removes its
      owner reference from b and, with it, the dynamic-cache label. While the deployment is paused, the paused pass of
      revision 2 does not see b (paused passes read the cache only) and reports controllerOf [c], Paused=True. The deployment is
      unpaused and edited; revision 3 (phases [d]; [b]) waits for d. The archive reconciler finds the stale Paused=True
      (ensurePaused does not compare it with spec), controllerOf [c] disjoint from {d, b}: revision 2 is archived at once and its
      teardown deletes b. *)
  Definition t_b : list phase := [hw_phase 1 [wit_pobj 1 2]].
  Definition t_bc : list phase := [hw_phase 1 [wit_pobj 1 2; wit_pobj 2 3]].
  Definition t_d_b : list phase := [hw_phase 1 [wit_pobj 2 4]; hw_phase 2 [wit_pobj 1 2]].
  Definition w2_history : list step :=
    [SDep false None; SSet false 100; SDep false None; SEdit 2 t_bc; SDep false None; SSet false 200; SMember (hw_key 2 3) 1; SSet false 200;
     SDep false None; SSet false 100; SDep false None; SSet false 100; SMember (hw_key 2 3) 2;
     SPause true; SDep false None; SSet false 200; SEdit 3 t_d_b; SPause false; SDep false None; SSet false 300; SDep false None].
  Definition w2_world : dworld := run wit_hash no_slices (hw_world 1 t_b) w2_history.

  (** W3: single phases, the deployment is never paused. Revisions 1, 2, 3 all list the Widget k (with different bodies); 3 controls
      it, 1 and 2 control nothing ([] is stored as nil: never archived by the controllerOf rule). Revision 4 lists other objects
      and is not Available; revision 3 is archived. Before its teardown runs, k turns healthy and revision 2 reports
      Available=True (k is left to the newer revision 3). The teardown of 3 deletes k, revision 1 (still active) re-creates
      it, the Available report of revision 2 gets revision 1 archived, whose teardown deletes k: listed by the next newer revision 2,
      which is active and "Available". *)
  Definition hw_pobj (gk name body : N) : pobj :=
    {| po_gk := gk; po_ns := 0; po_name := name; po_body := body; po_cp := CPPrevent; po_ownerrefs := false; po_dryreject := false |}.
  Definition t_k1 : list phase := [hw_phase 1 [hw_pobj 2 1 1]].
  Definition t_k2 : list phase := [hw_phase 1 [hw_pobj 2 1 2]].
  Definition t_k3 : list phase := [hw_phase 1 [hw_pobj 2 1 3; hw_pobj 2 2 1]].
  Definition t_e : list phase := [hw_phase 1 [hw_pobj 2 3 1]].
  Definition w3_history : list step :=
    [SDep false None; SSet false 100; SMember (hw_key 2 1) 2; SSet false 100; SEdit 2 t_k2; SDep false None; SSet false 200; SDep false None;
     SEdit 3 t_k3; SDep false None; SSet false 300; SDep false None; SSet false 100; SSet false 200;
     SEdit 4 t_e; SDep false None; SSet false 400; SMember (hw_key 2 3) 2; SDep false None; SSet false 300; SDep false None;
     SMember (hw_key 2 1) 1; SSet false 200; SSet false 300; SSet false 300; SSet false 100;
     SDep false None; SSet false 100; SDep false None].
  Definition w3_world : dworld := run wit_hash no_slices (hw_world 1 t_k1) w3_history.
End Witnesses.

(** ** The refutations *)
Ltac decide_in := repeat (first [left; reflexivity | right]).

(** W1 (F-C08c): multi-phase revisions; nothing else unusual. *)
Theorem handover_refuted_truncated :
  exists hash slices w0 h n r nx k,
    from_scratch w0 /\ forallb plain_step h = true /\
    handover_violation hash slices (run hash slices w0 h) n r nx k /\
    (* at the decision: Paused=True is stored, the revision controls k, k carries the cache label, controllerOf does not list it *)
    is_status_paused r = true /\ controls (os_id (ds_set r)) (run hash slices w0 h) k /\
    (exists o, stored (run hash slices w0 h) k = Some o /\ o_cache o = true) /\ ~ In k (os_ctrlof (ds_set r)).
Proof.
  exists wit_hash, no_slices, (hw_world 1 t_a_b), w1_history, 100.
  set (w := run wit_hash no_slices (hw_world 1 t_a_b) w1_history).
  exists (nth 0 (dw_sets w) wit_old), (nth 1 (dw_sets w) wit_old), (hw_key 1 2).
  split; [repeat split|]. split; [reflexivity|]. split; [|split; [reflexivity|split; [|split]]].
  - vm_compute. repeat split; try discriminate; auto 6.
  - eexists. split; vm_compute; reflexivity.
  - eexists. split; vm_compute; reflexivity.
  - vm_compute. intros [H|[]]. discriminate.
Qed.

(** W2 (F-C08d): the archived revision has a single phase; the deployment was paused and unpaused. *)
Theorem handover_refuted_cache_label :
  exists hash slices w0 h n r nx k,
    from_scratch w0 /\
    handover_violation hash slices (run hash slices w0 h) n r nx k /\
    length (os_phases (ds_set r)) = 1%nat /\
    is_status_paused r = true /\ controls (os_id (ds_set r)) (run hash slices w0 h) k /\
    (exists o, stored (run hash slices w0 h) k = Some o /\ o_cache o = false) /\ ~ In k (os_ctrlof (ds_set r)).
Proof.
  exists wit_hash, no_slices, (hw_world 1 t_b), w2_history, 200.
  set (w := run wit_hash no_slices (hw_world 1 t_b) w2_history).
  exists (nth 1 (dw_sets w) wit_old), (nth 2 (dw_sets w) wit_old), (hw_key 1 2).
  split; [repeat split|]. split; [|split; [reflexivity|split; [reflexivity|split; [|split]]]].
  - vm_compute. repeat split; try discriminate; auto 6.
  - eexists. split; vm_compute; reflexivity.
  - eexists. split; vm_compute; reflexivity.
  - vm_compute. intros [H|[]]. discriminate.
Qed.

(** W3 (F-C08e): single phases only, the deployment is never paused, no pruning; the archival rests on a stale Available report. *)
Theorem handover_refuted_stale_available :
  exists hash slices w0 h n r nx k,
    from_scratch w0 /\ forallb plain_step h = true /\ forallb one_phase_step h = true /\
    (length (d_phases (dw_dep w0)) <= 1)%nat /\
    handover_violation hash slices (run hash slices w0 h) n r nx k /\
    is_available nx = true /\ os_ctrlof (ds_set nx) = [] /\
    (* here controllerOf is complete *)
    In k (os_ctrlof (ds_set r)).
Proof.
  exists wit_hash, no_slices, (hw_world 1 t_k1), w3_history, 100.
  set (w := run wit_hash no_slices (hw_world 1 t_k1) w3_history).
  exists (nth 0 (dw_sets w) wit_old), (nth 1 (dw_sets w) wit_old), (hw_key 2 1).
  split; [repeat split|]. split; [reflexivity|]. split; [reflexivity|]. split; [cbn; lia|].
  split; [|split; [reflexivity|split; [reflexivity|]]].
  - vm_compute. repeat split; try discriminate; auto 6.
  - vm_compute. auto 6.
Qed.

(** * Part 2: what a step can do to the set of objects an ObjectSet controls *)
(** [no_gain id s s']: every object controlled by [id] in [s'] was controlled by it in [s]. *)
Definition no_gain (id : oid) (s s' : store) : Prop :=
  forall k o', lookup k s' = Some o' -> is_controller Native id o' = true ->
               exists o, lookup k s = Some o /\ is_controller Native id o = true.

Lemma no_gain_refl id s : no_gain id s s.
Proof. intros k o H1 H2. eauto. Qed.
Lemma no_gain_trans id a b c : no_gain id a b -> no_gain id b c -> no_gain id a c.
Proof. intros H1 H2 k o Hl Hc. destruct (H2 _ _ Hl Hc) as (o1 & Hl1 & Hc1). eauto. Qed.
Lemma no_gain_eq id s s' : s' = s -> no_gain id s s'.
Proof. intros ->. apply no_gain_refl. Qed.

(** Another owner: a different kind or name (ObjectSets of one world have distinct names). *)
Definition other (id m : oid) : Prop := same_gkn (ctrl_ref m) id = false.

Section OwnerLists.
  Lemma merge_refs_in st pa x :
    In x (merge_refs st pa) -> In x pa \/ (In x st /\ find (fun p => r_uid p =? r_uid x) pa = None).
  Proof.
    unfold merge_refs. intros H. apply in_app_or in H. destruct H as [H|H].
    - apply in_map_iff in H. destruct H as (r & Hx & Hr).
      destruct (find (fun p => r_uid p =? r_uid r) pa) as [p|] eqn:Ef.
      + subst x. left. now apply find_some in Ef.
      + subst x. right. auto.
    - apply filter_In in H. now left.
  Qed.

  Lemma upsert_in (f : oref -> bool) c l p : In p (upsert_ref f c l) -> p = c \/ In p l.
  Proof.
    induction l as [|x l IH]; cbn; [intros [<-|[]]; now left|].
    destruct (f x); cbn; intros [<-|H]; auto. destruct (IH H); auto.
  Qed.

  Lemma upsert_keeps (f : oref -> bool) c l p : In p l -> f p = false -> In p (upsert_ref f c l).
  Proof.
    induction l as [|x l IH]; [contradiction|]. intros [->|H] Hf; cbn.
    - rewrite Hf. now left.
    - destruct (f x); [right; exact H|right; now apply IH].
  Qed.

  Lemma same_obj_gkn r id : same_obj r id = true -> same_gkn r id = true.
  Proof. unfold same_obj, same_gkn. rewrite !andb_true_iff. tauto. Qed.

  Lemma same_gkn_trans_ctrl r id m : same_gkn r id = true -> same_gkn r m = true -> same_gkn (ctrl_ref m) id = true.
  Proof.
    unfold same_gkn, ctrl_ref. cbn. rewrite !andb_true_iff, !N.eqb_eq. intros [H1 H2] [H3 H4]. split; congruence.
  Qed.

  (** The owner list after adoption by [m] (ReleaseController, SetControllerReference, apply merge): nobody else controls. *)
  Lemma adopt_no_other id m st :
    other id m ->
    is_controller_l id (merge_refs st (upsert_ref (fun x => same_gkn x m) (ctrl_ref m) (release_l st))) = false.
  Proof.
    intros Ho. destruct (is_controller_l id _) eqn:E; [|reflexivity]. exfalso.
    unfold is_controller_l in E. apply existsb_exists in E. destruct E as (x & Hin & Hx). apply andb_true_iff in Hx. destruct Hx as [Hs Hc].
    apply merge_refs_in in Hin. destruct Hin as [Hin|[Hin Hf]].
    - apply upsert_in in Hin. destruct Hin as [->|Hin].
      + apply same_obj_gkn in Hs. unfold other in Ho. congruence.
      + unfold release_l in Hin. apply in_map_iff in Hin. destruct Hin as (r & <- & _). cbn in Hc. discriminate.
    - (* kept from the stored list: there is a patch entry with its uid *)
      assert (Hg : same_gkn x m = false).
      { destruct (same_gkn x m) eqn:Eg; [|reflexivity]. apply same_obj_gkn in Hs. pose proof (same_gkn_trans_ctrl _ _ _ Hs Eg). unfold other in Ho. congruence. }
      assert (Hd : In (demote x) (upsert_ref (fun y => same_gkn y m) (ctrl_ref m) (release_l st))).
      { apply upsert_keeps; [unfold release_l; now apply in_map|]. now rewrite same_gkn_demote. }
      eapply find_none in Hf; [|exact Hd]. cbn in Hf. now rewrite N.eqb_refl in Hf.
  Qed.

  Lemma merge_self_sub id st : is_controller_l id (merge_refs st st) = true -> is_controller_l id st = true.
  Proof.
    unfold is_controller_l. rewrite !existsb_exists. intros (x & Hin & Hx). exists x. split; [|exact Hx].
    apply merge_refs_in in Hin. tauto.
  Qed.

  Lemma remove_first_swap_in (f : oref -> bool) l x : In x (remove_first_swap f l) -> In x l.
  Proof.
    induction l as [|y l IH]; cbn; [tauto|]. destruct (f y).
    - destruct l as [|z l']; [tauto|]. intros [<-|H].
      + right. destruct (exists_last (l := z :: l') ltac:(discriminate)) as (l0 & a & E). rewrite E, last_last. apply in_or_app. right. now left.
      + right. destruct (exists_last (l := z :: l') ltac:(discriminate)) as (l0 & a & E). rewrite E in H |- *. rewrite removelast_last in H.
        apply in_or_app. now left.
    - intros [<-|H]; [now left|right; now apply IH].
  Qed.

  Lemma remove_owner_sub id m l : is_controller_l id (remove_owner_l m l) = true -> is_controller_l id l = true.
  Proof.
    unfold is_controller_l, remove_owner_l. rewrite !existsb_exists. intros (x & Hin & Hx). exists x. split; [|exact Hx].
    eapply remove_first_swap_in; eauto.
  Qed.
End OwnerLists.

Section ObjectLevel.
  Variable force : bool.
  Let c : cfg := {| c_flavor := FObjectSet; c_force := force |}.

  Lemma key_dec (a b : okey) : {a = b} + {a <> b}.
  Proof. destruct (okey_eqb a b) eqn:E; [left; now apply okey_eqb_spec|right; intros ->; now rewrite okey_eqb_refl in E]. Qed.

  Lemma is_controller_set_rv id o rv : is_controller Native id (set_rv o rv) = is_controller Native id o.
  Proof. reflexivity. Qed.

  (** One object of a phase, reconciled by [ow]: no other owner gains control of anything. *)
  Lemma rec_obj_no_gain id w ow prev p w' evs r :
    reconcile_object c idw w ow prev p = (w', evs, r) -> other id (ow_id ow) -> no_gain id (w_store w) (w_store w').
  Proof.
    intros H Ho k o' Hl Hc.
    destruct (key_dec k (key_of ow p)) as [->|Hne]; [|rewrite (rec_obj_frame c _ _ _ _ _ _ _ k H Hne) in Hl; eauto].
    unfold reconcile_object in H. fold (key_of ow p) in H. cbn [c c_flavor flavor_strat] in H.
    destruct (set_controller_l Native (ow_id ow) (k_ns (key_of ow p)) []) as [dref|] eqn:Ed; [|injection H as <- _ _; eauto].
    assert (Hdref : dref = [ctrl_ref (ow_id ow)]).
    { unfold set_controller_l in Ed. destruct (negb _); [discriminate|]. cbn in Ed. now injection Ed as <-. }
    destruct (ow_paused ow). { destruct (cache_get w _); injection H as <- _ _; eauto. }
    rewrite cur_lookup in H. destruct (lookup (key_of ow p) (w_store w)) as [cu|] eqn:El.
    - destruct (check_adoption Native (c_force c) ow cu prev (po_cp p)); try (injection H as <- _ _; rewrite El in Hl; eauto).
      + (* already controller: the patch carries the stored owner list *)
        destruct (do_apply_events _ _ _ _ _ _ _ _ H) as (post & _ & Hp). destruct post as [o| |]; [|contradiction|].
        * destruct Hp as [_ Ha]. unfold idw in Ha. destruct (api_apply_spec _ _ _ _ _ _ Ha) as (Hl' & _ & Hm). rewrite El in Hm.
          destruct Hm as (_ & rv & ->). rewrite Hl' in Hl. injection Hl as <-. exists cu. split; [reflexivity|].
          assert (Hc' : is_controller_l id (merge_refs (o_owners cu) (o_owners cu)) = true) by exact Hc.
          exact (merge_self_sub _ _ Hc').
        * destruct Hp as (_ & -> & _). unfold idw in Hl. rewrite El in Hl. eauto.
      + (* adoption *)
        destruct (set_controller_l Native (ow_id ow) (k_ns (key_of ow p)) (release_l (refs Native cu))) as [l|] eqn:Es;
          [|injection H as <- _ _; rewrite El in Hl; eauto].
        assert (Hl0 : l = upsert_ref (fun x => same_gkn x (ow_id ow)) (ctrl_ref (ow_id ow)) (release_l (o_owners cu))).
        { unfold set_controller_l in Es. destruct (negb _); [discriminate|]. cbn [refs] in Es. rewrite find_ctrl_release in Es. now injection Es as <-. }
        destruct (do_apply_events _ _ _ _ _ _ _ _ H) as (post & _ & Hp). destruct post as [o| |]; [|contradiction|].
        * destruct Hp as [_ Ha]. unfold idw in Ha. destruct (api_apply_spec _ _ _ _ _ _ Ha) as (Hl' & _ & Hm). rewrite El in Hm.
          destruct Hm as (_ & rv & ->). rewrite Hl' in Hl. injection Hl as <-. exfalso.
          assert (Hc' : is_controller_l id (merge_refs (o_owners cu) l) = true) by exact Hc.
          rewrite Hl0, (adopt_no_other id (ow_id ow) (o_owners cu) Ho) in Hc'. discriminate.
        * destruct Hp as (_ & -> & _). unfold idw in Hl. rewrite El in Hl. eauto.
    - (* created *)
      destruct (do_apply_events _ _ _ _ _ _ _ _ H) as (post & _ & Hp). destruct post as [o| |]; [|contradiction|].
      + destruct Hp as [_ Ha]. unfold idw in Ha. destruct (api_apply_spec _ _ _ _ _ _ Ha) as (Hl' & _ & Hm). rewrite El in Hm.
        destruct Hm as (_ & ->). rewrite Hl' in Hl. injection Hl as <-. exfalso.
        unfold is_controller in Hc. cbn in Hc. rewrite Hdref in Hc. cbn in Hc. rewrite orb_false_r in Hc.
        apply andb_true_iff in Hc. destruct Hc as [Hs _]. apply same_obj_gkn in Hs. unfold other in Ho. congruence.
      + destruct Hp as (_ & -> & _). unfold idw in Hl. rewrite El in Hl. discriminate.
  Qed.
End ObjectLevel.

Section TeardownLevel.
  Variable force : bool.
  Let c : cfg := {| c_flavor := FObjectSet; c_force := force |}.

  Lemma api_delete_no_gain id w k uid rv : no_gain id (w_store w) (w_store (fst (api_delete w k uid rv))).
  Proof.
    intros k' o' Hl Hc. destruct (key_dec k' k) as [->|Hne]; [|rewrite (api_delete_frame w k uid rv k' Hne) in Hl; eauto].
    unfold api_delete in Hl. destruct (lookup k (w_store w)) as [cur|] eqn:El; [|cbn [fst] in Hl; rewrite El in Hl; discriminate].
    destruct (negb _); [cbn [fst] in Hl; rewrite El in Hl; eauto|].
    destruct (o_fin cur).
    - destruct (o_deleting cur); [cbn [fst] in Hl; rewrite El in Hl; eauto|].
      cbn [fst w_store] in Hl. rewrite lookup_upsert_same in Hl. injection Hl as <-. eauto.
    - cbn [fst w_store with_store] in Hl. rewrite lookup_remove_same in Hl. discriminate.
  Qed.

  (** Teardown of one object never makes anybody a controller. *)
  Lemma td_obj_no_gain id w ow p w' evs d :
    teardown_object c idw w ow p = (w', evs, d) -> no_gain id (w_store w) (w_store w').
  Proof.
    intros H. unfold teardown_object in H. fold (key_of ow p) in H. cbn [c c_flavor flavor_strat] in H.
    destruct (preflight_obj FObjectSet ow false p); [|injection H as <- _ _; apply no_gain_refl].
    unfold api_get at 1 in H. destruct (lookup (key_of ow p) (w_store w)) as [cu|] eqn:El; [|injection H as <- _ _; apply no_gain_refl].
    destruct (is_controller Native (ow_id ow) cu); cbn [negb] in H.
    - unfold idw in H. destruct (api_delete w (key_of ow p) (o_uid cu) (o_rv cu)) as [w2 r] eqn:Ed. injection H as <- _ _.
      pose proof (api_delete_no_gain id w (key_of ow p) (o_uid cu) (o_rv cu)) as Hg. now rewrite Ed in Hg.
    - destruct (is_owner Native (ow_id ow) cu); cbn [negb] in H; [|injection H as <- _ _; apply no_gain_refl].
      unfold idw in H. destruct (api_release_patch w (key_of ow p) (remove_owner_l (ow_id ow) (o_owners cu))) as [[w2 [o|]]|] eqn:Er.
      + injection H as <- _ _. intros k o' Hl Hc.
        destruct (key_dec k (key_of ow p)) as [->|Hne]; [|rewrite (api_release_frame _ _ _ _ _ k Er Hne) in Hl; eauto].
        destruct (api_release_spec _ _ _ _ _ Er) as (cur & Hcur & Hl2 & _ & _ & Hown & _). rewrite Hl2 in Hl. injection Hl as <-.
        rewrite El in Hcur. injection Hcur as <-. exists cu. split; [exact El|].
        unfold is_controller in *. cbn [refs] in *. rewrite Hown in Hc. eapply remove_owner_sub; eauto.
      + injection H as <- _ _. rewrite (api_release_invalid _ _ _ _ Er). apply no_gain_refl.
      + injection H as <- _ _. apply no_gain_refl.
  Qed.

  Lemma td_objs_no_gain id ow ps : forall w alldone w' evs r,
    teardown_objects c idw w ow ps alldone = (w', evs, r) -> no_gain id (w_store w) (w_store w').
  Proof.
    induction ps as [|p ps IH]; intros w alldone w' evs r H; cbn in H; [injection H as <- _ _; apply no_gain_refl|].
    destruct (teardown_object c idw w ow p) as [[w1 e1] d] eqn:E1.
    pose proof (td_obj_no_gain id _ _ _ _ _ _ E1) as H1.
    destruct (teardown_err e1); [injection H as <- _ _; exact H1|].
    destruct (teardown_objects c idw w1 ow ps (alldone && d)) as [[w2 e2] r2] eqn:E2. injection H as <- _ _.
    eapply no_gain_trans; [exact H1|eapply IH; eauto].
  Qed.

  Lemma rec_objs_no_gain id ow prev ps : forall w acc failed w' evs r,
    reconcile_objects c idw w ow prev ps acc failed = (w', evs, r) -> other id (ow_id ow) -> no_gain id (w_store w) (w_store w').
  Proof.
    induction ps as [|p ps IH]; intros w acc failed w' evs r H Ho; cbn in H; [injection H as <- _ _; apply no_gain_refl|].
    destruct (reconcile_object c idw w ow prev p) as [[w1 e1] r1] eqn:E1.
    pose proof (rec_obj_no_gain force id _ _ _ _ _ _ _ E1 Ho) as H1.
    destruct r1 as [o| |e].
    - destruct (reconcile_objects c idw w1 ow prev ps _ _) as [[w2 e2] r2] eqn:E2. injection H as <- _ _.
      eapply no_gain_trans; [exact H1|eapply IH; eauto].
    - destruct (reconcile_objects c idw w1 ow prev ps _ _) as [[w2 e2] r2] eqn:E2. injection H as <- _ _.
      eapply no_gain_trans; [exact H1|eapply IH; eauto].
    - injection H as <- _ _. exact H1.
  Qed.

  Lemma rec_phase_no_gain id w ow prev cl ps w' evs r :
    reconcile_phase c idw w ow prev cl ps = (w', evs, r) -> other id (ow_id ow) -> no_gain id (w_store w) (w_store w').
  Proof.
    unfold reconcile_phase. destruct (flat_map _ ps); [|intros H; injection H as <- _ _; intros; apply no_gain_refl].
    apply rec_objs_no_gain.
  Qed.

  (** The phase loop of an ObjectSet (local phases through the phase reconciler, delegated ones only touch phase objects). *)
  Lemma rpm_no_gain id s ow prev phs : forall sw acc rem sw' evs rem' r,
    reconcile_phases_m force sw s ow prev phs acc rem = (sw', evs, rem', r) -> other id (ow_id ow) ->
    no_gain id (w_store (sw_w sw)) (w_store (sw_w sw')).
  Proof.
    induction phs as [|ph rest IH]; intros sw acc rem sw' evs rem' r H Ho.
    - cbn in H. injection H as <- _ _ _. apply no_gain_refl.
    - rewrite rpm_cons in H. destruct (ph_class ph).
      + destruct (remote_reconcile sw s ph rem) as [[[sw1 e1] rem1] r1] eqn:E1.
        destruct (remote_reconcile_inv _ _ _ _ _ _ _ _ E1) as (Hst & _).
        destruct r1 as [|active failed]; [injection H as <- _ _ _; rewrite Hst; apply no_gain_refl|].
        destruct failed; [injection H as <- _ _ _; rewrite Hst; apply no_gain_refl|].
        destruct (reconcile_phases_m force sw1 s ow prev rest _ rem1) as [[[sw2 e2] rem2] r2] eqn:E2. injection H as <- _ _ _.
        rewrite <- Hst. eapply IH; eauto.
      + destruct (reconcile_phase _ idw (sw_w sw) ow prev false (ph_objects ph)) as [[w1 e1] r1] eqn:E1.
        pose proof (rec_phase_no_gain id _ _ _ _ _ _ _ _ E1 Ho) as H1.
        destruct r1 as [e|vs|actual failed]; try (injection H as <- _ _ _; exact H1).
        destruct failed; [|injection H as <- _ _ _; exact H1]. cbv zeta in H.
        destruct (reconcile_phases_m force (with_w sw w1) s ow prev rest _ rem) as [[[sw2 e2] rem2] r2] eqn:E2. injection H as <- _ _ _.
        eapply no_gain_trans; [exact H1|]. exact (IH _ _ _ _ _ _ _ E2 Ho).
  Qed.

  Lemma tpm_no_gain id s ow rphs : forall sw sw' evs r,
    teardown_phases_m force sw s ow rphs = (sw', evs, r) -> no_gain id (w_store (sw_w sw)) (w_store (sw_w sw')).
  Proof.
    induction rphs as [|ph rest IH]; intros sw sw' evs r H.
    - cbn in H. injection H as <- _ _. apply no_gain_refl.
    - rewrite tpm_cons in H. destruct (td_step force sw s ow ph) as [[sw1 e1] r1] eqn:E1.
      assert (H1 : no_gain id (w_store (sw_w sw)) (w_store (sw_w sw1))).
      { unfold td_step in E1. destruct (ph_class ph).
        - destruct (remote_teardown_inv _ _ _ _ _ _ E1) as (-> & _). apply no_gain_refl.
        - destruct (teardown_phase _ idw (sw_w sw) ow (ph_objects ph)) as [[w1 e'] r'] eqn:Et. injection E1 as <- _ _.
          unfold teardown_phase in Et. exact (td_objs_no_gain id _ _ _ _ _ _ _ Et). }
      destruct r1 as [|[|]]; try (injection H as <- _ _; exact H1).
      destruct (teardown_phases_m force sw1 s ow rest) as [[sw2 e2] r2] eqn:E2. injection H as <- _ _.
      eapply no_gain_trans; [exact H1|eapply IH; eauto].
  Qed.
End TeardownLevel.

Section SetLevel.
  Variable force : bool.

  (** A pass of the ObjectSet controller: nobody gains control of an object, except the ObjectSet of the pass itself
      when it is active and not paused. *)
  Lemma set_pass_no_gain id sw kind ns n sw' evs r :
    objectset_pass force sw kind ns n = (sw', evs, r) ->
    (forall mem, find_set (sw_sets sw) kind ns n = Some mem -> is_active mem -> os_life mem <> LPaused -> other id (os_id mem)) ->
    no_gain id (w_store (sw_w sw)) (w_store (sw_w sw')).
  Proof.
    intros H Ho. destruct (find_set (sw_sets sw) kind ns n) as [mem|] eqn:Ef.
    2:{ unfold objectset_pass in H. rewrite Ef in H. injection H as <- _ _. apply no_gain_refl. }
    destruct (cond_true (os_conds mem) CArchived) eqn:Ea.
    { unfold objectset_pass in H. rewrite Ef, Ea in H. injection H as <- _ _. apply no_gain_refl. }
    destruct (os_deleting mem) eqn:Ed.
    { pose proof (objectset_pass_going force _ _ _ _ _ _ _ _ Ef (conj Ea (or_introl Ed)) H) as Hd.
      destruct (deletion_pass_inv force _ _ _ _ _ Hd) as (sw1 & tevs & td & Etd & _ & Hst & _). rewrite Hst.
      unfold teardown_of in Etd. destruct (os_fin mem); [|injection Etd as <- _ _; apply no_gain_refl].
      destruct (os_orphan mem); [injection Etd as <- _ _; apply no_gain_refl|]. eapply tpm_no_gain; eauto. }
    destruct (lifecycle_eqb (os_life mem) LArchived) eqn:El.
    { assert (Hl : os_life mem = LArchived) by (destruct (os_life mem); try discriminate; reflexivity).
      pose proof (objectset_pass_going force _ _ _ _ _ _ _ _ Ef (conj Ea (or_intror Hl)) H) as Hd.
      destruct (deletion_pass_inv force _ _ _ _ _ Hd) as (sw1 & tevs & td & Etd & _ & Hst & _). rewrite Hst.
      unfold teardown_of in Etd. destruct (os_fin mem); [|injection Etd as <- _ _; apply no_gain_refl].
      destruct (os_orphan mem); [injection Etd as <- _ _; apply no_gain_refl|]. eapply tpm_no_gain; eauto. }
    assert (Hact : is_active mem).
    { split; [exact Ea|]. split; [exact Ed|]. intros Hl. rewrite Hl in El. discriminate. }
    destruct (objectset_pass_active force _ _ _ _ _ _ _ _ Ef Hact H) as [(Hst & _)|Hr].
    - rewrite Hst. apply no_gain_refl.
    - destruct Hr as (mem1 & sw1 & sw2 & pevs & rem & pr & pre0 & Hs & Hw0 & _ & _ & _ & Hrp & Hw2 & _).
      rewrite Hw2, <- Hw0.
      destruct (lifecycle_eqb (os_life mem) LPaused) eqn:Ep.
      + assert (Hpa : ow_paused (as_owner mem1) = true).
        { destruct Hs as (_ & _ & Hl & _). unfold as_owner. cbn. now rewrite Hl. }
        destruct (rpm_paused force _ _ _ _ _ _ _ _ _ _ _ Hpa Hrp) as [Hst _]. rewrite Hst. apply no_gain_refl.
      + eapply rpm_no_gain; [exact Hrp|]. cbn [as_owner ow_id]. destruct Hs as (Hid & _). rewrite Hid.
        apply (Ho mem eq_refl Hact). intros Hl. rewrite Hl in Ep. discriminate.
  Qed.
End SetLevel.

(** ** Steps of whole-system histories *)
Definition dstore (w : dworld) : store := w_store (dw_w w).

(** The one kind of step in which the ObjectSet [id] may gain control of objects: a pass of its own controller while it is active
    (not archived, not deleted) and not paused. *)
Definition own_active_pass (id : oid) (w : dworld) (s : step) : Prop :=
  match s with
  | SSet _ n => exists mem, find_set (sw_sets (to_sworld w)) (set_kind w) (oi_ns (d_id (dw_dep w))) n = Some mem /\
                            is_active mem /\ os_life mem <> LPaused /\ ~ other id (os_id mem)
  | _ => False
  end.

Section StepLevel.
  Variable hash : N -> option N -> N.
  Variable slices : N -> option (list pobj).
  Variable sliceaware rev0ok : bool.

  Lemma edit_dep_store w f b : dstore (edit_dep w f b) = dstore w.
  Proof. unfold edit_dep, dstore. destruct (negb b); reflexivity. Qed.

  Lemma rev_step_store w n : dstore (rev_step w n) = dstore w.
  Proof.
    unfold rev_step, dstore. destruct (find_set _ _ _ n) as [mem|] eqn:Ef; [|reflexivity].
    destruct (find_set_id _ _ _ _ _ Ef) as (Hk & Hns & Hn).
    assert (Hf : find_set (sw_sets (to_sworld w)) (oi_kind (os_id mem)) (oi_ns (os_id mem)) (oi_name (os_id mem)) = Some mem) by now rewrite Hk, Hns, Hn.
    destruct (revision_pass (to_sworld w) mem) as [[[sw1 e1] mem1] rr] eqn:Er.
    destruct (revision_pass_inv _ _ _ _ _ _ Hf Er) as (_ & Hst & _).
    cbn [to_sworld sw_w] in Hst.
    destruct rr; try (cbn [of_sworld dw_w]; exact Hst).
    destruct (update_status sw1 mem1) as [[sw2 m2] ok] eqn:Eu. destruct (update_status_store _ _ _ _ _ Eu) as (Hst2 & _).
    cbn [of_sworld dw_w]. congruence.
  Qed.

  Theorem step_no_gain id w s :
    ~ own_active_pass id w s -> no_gain id (dstore w) (dstore (do_step_sh hash slices sliceaware rev0ok w s)).
  Proof.
    intros Hn. destruct s as [dg phs|b|l|stale fault|f n|n|n cs co coset|n|k a]; cbn [do_step_sh].
    - rewrite edit_dep_store. apply no_gain_refl.
    - rewrite edit_dep_store. apply no_gain_refl.
    - rewrite edit_dep_store. apply no_gain_refl.
    - destruct (dep_pass_sh hash fault slices sliceaware rev0ok stale w) as [[w' evs] r] eqn:Ep.
      destruct (dep_pass_frame _ _ _ _ _ _ _ _ _ _ Ep) as (_ & _ & _ & _ & Hst & _). unfold dstore. rewrite Hst. apply no_gain_refl.
    - destruct (objectset_pass f (to_sworld w) (set_kind w) (oi_ns (d_id (dw_dep w))) n) as [[sw' evs] r] eqn:Ep.
      unfold dstore. cbn [of_sworld dw_w]. change (dw_w w) with (sw_w (to_sworld w)).
      eapply set_pass_no_gain; [exact Ep|]. intros mem Hf Ha Hl.
      unfold other. destruct (same_gkn (ctrl_ref (os_id mem)) id) eqn:E; [|reflexivity]. exfalso. apply Hn. cbn. exists mem.
      split; [exact Hf|]. split; [exact Ha|]. split; [exact Hl|]. unfold other. rewrite E. discriminate.
    - rewrite rev_step_store. apply no_gain_refl.
    - destruct (find_dset (dw_sets w) n) as [x|]; [|apply no_gain_refl].
      destruct (_ && _); [apply no_gain_refl|]. unfold dstore, with_sets. cbn. apply no_gain_refl.
    - destruct (find_dset (dw_sets w) n) as [x|]; [|apply no_gain_refl].
      destruct (os_deleting (ds_set x)); apply no_gain_refl.
    - destruct (lookup k (w_store (dw_w w))) as [o|] eqn:El; [|apply no_gain_refl].
      destruct (o_avail o =? a); [apply no_gain_refl|]. unfold dstore, with_sets. cbn [dw_w w_store].
      intros k' o' Hl Hc. destruct (key_dec k' k) as [->|Hne].
      + rewrite lookup_upsert_same in Hl. injection Hl as <-. exists o. split; [exact El|exact Hc].
      + rewrite (lookup_upsert_other _ _ _ _ Hne) in Hl. eauto.
  Qed.
End StepLevel.

(** * Part 3: the handover, relative to the archive decision *)
(** Teardown removes only what the torn-down owner controls: an object it does not control stays (and stays not controlled by it). *)
Definition kept (id : oid) (k : okey) (s s' : store) : Prop :=
  forall o, lookup k s = Some o -> is_controller Native id o = false -> exists o', lookup k s' = Some o' /\ is_controller Native id o' = false.

Lemma kept_refl id k s : kept id k s s.
Proof. intros o H1 H2. eauto. Qed.
Lemma kept_trans id k a b c : kept id k a b -> kept id k b c -> kept id k a c.
Proof. intros H1 H2 o Hl Hc. destruct (H1 _ Hl Hc) as (o1 & Hl1 & Hc1). eauto. Qed.

Section TeardownKeeps.
  Variable force : bool.
  Let c : cfg := {| c_flavor := FObjectSet; c_force := force |}.

  Lemma td_obj_kept k w ow p w' evs d :
    teardown_object c idw w ow p = (w', evs, d) -> kept (ow_id ow) k (w_store w) (w_store w').
  Proof.
    intros H o Hl Hc.
    destruct (key_dec k (key_of ow p)) as [->|Hne]; [|rewrite <- (td_obj_frame c _ _ _ _ _ _ k H Hne) in Hl; eauto].
    unfold teardown_object in H. fold (key_of ow p) in H. cbn [c c_flavor flavor_strat] in H.
    destruct (preflight_obj FObjectSet ow false p); [|injection H as <- _ _; eauto].
    unfold api_get at 1 in H. rewrite Hl, Hc in H. cbn [negb] in H.
    destruct (is_owner Native (ow_id ow) o); cbn [negb] in H; [|injection H as <- _ _; eauto].
    unfold idw in H. destruct (api_release_patch w (key_of ow p) (remove_owner_l (ow_id ow) (o_owners o))) as [[w2 [o2|]]|] eqn:Er.
    - injection H as <- _ _. destruct (api_release_spec _ _ _ _ _ Er) as (cur & Hcur & Hl2 & _ & _ & Hown & _).
      exists o2. split; [exact Hl2|]. destruct (is_controller Native (ow_id ow) o2) eqn:E2; [|reflexivity].
      unfold is_controller in E2, Hc. cbn [refs] in E2, Hc. rewrite Hown in E2. apply remove_owner_sub in E2. congruence.
    - injection H as <- _ _. rewrite (api_release_invalid _ _ _ _ Er). eauto.
    - injection H as <- _ _. eauto.
  Qed.

  Lemma td_objs_kept k ow ps : forall w alldone w' evs r,
    teardown_objects c idw w ow ps alldone = (w', evs, r) -> kept (ow_id ow) k (w_store w) (w_store w').
  Proof.
    induction ps as [|p ps IH]; intros w alldone w' evs r H; cbn in H; [injection H as <- _ _; apply kept_refl|].
    destruct (teardown_object c idw w ow p) as [[w1 e1] d] eqn:E1.
    pose proof (td_obj_kept k _ _ _ _ _ _ E1) as H1.
    destruct (teardown_err e1); [injection H as <- _ _; exact H1|].
    destruct (teardown_objects c idw w1 ow ps (alldone && d)) as [[w2 e2] r2] eqn:E2. injection H as <- _ _.
    eapply kept_trans; [exact H1|eapply IH; eauto].
  Qed.

  Lemma tpm_kept k s ow rphs : forall sw sw' evs r,
    teardown_phases_m force sw s ow rphs = (sw', evs, r) -> kept (ow_id ow) k (w_store (sw_w sw)) (w_store (sw_w sw')).
  Proof.
    induction rphs as [|ph rest IH]; intros sw sw' evs r H.
    - cbn in H. injection H as <- _ _. apply kept_refl.
    - rewrite tpm_cons in H. destruct (td_step force sw s ow ph) as [[sw1 e1] r1] eqn:E1.
      assert (H1 : kept (ow_id ow) k (w_store (sw_w sw)) (w_store (sw_w sw1))).
      { unfold td_step in E1. destruct (ph_class ph).
        - destruct (remote_teardown_inv _ _ _ _ _ _ E1) as (-> & _). apply kept_refl.
        - destruct (teardown_phase _ idw (sw_w sw) ow (ph_objects ph)) as [[w1 e'] r'] eqn:Et. injection E1 as <- _ _.
          unfold teardown_phase in Et. exact (td_objs_kept k _ _ _ _ _ _ _ Et). }
      destruct r1 as [|[|]]; try (injection H as <- _ _; exact H1).
      destruct (teardown_phases_m force sw1 s ow rest) as [[sw2 e2] r2] eqn:E2. injection H as <- _ _.
      eapply kept_trans; [exact H1|eapply IH; eauto].
  Qed.

  (** A pass of the ObjectSet controller for an archived or deleted ObjectSet. *)
  Lemma going_pass_kept k sw kind ns n mem sw' evs r :
    find_set (sw_sets sw) kind ns n = Some mem -> (os_deleting mem = true \/ os_life mem = LArchived) ->
    objectset_pass force sw kind ns n = (sw', evs, r) -> kept (os_id mem) k (w_store (sw_w sw)) (w_store (sw_w sw')).
  Proof.
    intros Ef Hg H. destruct (cond_true (os_conds mem) CArchived) eqn:Ea.
    { unfold objectset_pass in H. rewrite Ef, Ea in H. injection H as <- _ _. apply kept_refl. }
    pose proof (objectset_pass_going force _ _ _ _ _ _ _ _ Ef (conj Ea Hg) H) as Hd.
    destruct (deletion_pass_inv force _ _ _ _ _ Hd) as (sw1 & tevs & td & Etd & _ & Hst & _). rewrite Hst.
    unfold teardown_of in Etd. destruct (os_fin mem); [|injection Etd as <- _ _; apply kept_refl].
    destruct (os_orphan mem); [injection Etd as <- _ _; apply kept_refl|].
    exact (tpm_kept k _ _ _ _ _ _ _ Etd).
  Qed.
End TeardownKeeps.

Section Handover.
  Variable hash : N -> option N -> N.
  Variable slices : N -> option (list pobj).

  (** Between the archive decision and the teardown no ObjectSet with the archived revision's kind and name runs an active,
      unpaused pass (the revision itself is archived; this only excludes a re-created ObjectSet of the same name). *)
  Fixpoint quiet_run (id : oid) (w : dworld) (h : list step) : Prop :=
    match h with
    | [] => True
    | s :: t => ~ own_active_pass id w s /\ quiet_run id (do_step hash slices w s) t
    end.

  Lemma run_no_gain id h : forall w, quiet_run id w h -> no_gain id (dstore w) (dstore (run hash slices w h)).
  Proof.
    induction h as [|s t IH]; intros w Hq; [apply no_gain_refl|]. destruct Hq as [Hs Ht].
    eapply no_gain_trans; [exact (step_no_gain hash slices true true id w s Hs)|]. exact (IH _ Ht).
  Qed.

  Lemma next_in_cons_ne n b t : t <> [] -> (sname b =? n) = false -> next_in n (b :: t) = next_in n t.
  Proof. destruct t as [|x t]; [intros H; now elim H|]. intros _ H. cbn. now rewrite H. Qed.

  Lemma next_in_split n L : forall l1 r nx l3, NoDup (map sname L) -> L = l1 ++ r :: nx :: l3 -> sname r = n -> next_in n L = Some nx.
  Proof.
    induction L as [|a L IH]; intros l1 r nx l3 Hnd E Hn; [destruct l1; discriminate|].
    destruct l1 as [|b l1]; cbn in E; injection E as -> ->.
    - cbn. now rewrite Hn, N.eqb_refl.
    - cbn in Hnd. inversion Hnd as [|? ? Hnotin Hnd']; subst.
      assert (Hne : (sname b =? sname r) = false).
      { apply N.eqb_neq. intros Heq. apply Hnotin. rewrite Heq, map_app. apply in_or_app. right. now left. }
      rewrite next_in_cons_ne; [|destruct l1; discriminate|exact Hne]. eapply IH; eauto.
  Qed.

  (** The handover clause, relative to the archive decision. If, when revision [n] is archived,
      (a) no newer listed revision reports Available (the decision rests on controllerOf, not on another revision's report), and
      (b) the stored status.controllerOf of [n] lists every object [n] controls,
      then no later pass of the ObjectSet controller for the archived (or deleted) [n] removes an object that the revision
      listed right after [n] at the time of the decision contains (inline or in its ObjectSlices). *)
  Theorem handover_relative fault stale w w1 evs res n pbp ur r :
    NoDup (map sname (dw_sets w)) ->
    dep_pass hash fault slices stale w = (w1, evs, res) -> In (DUpdate n LArchived pbp ur) evs ->
    find_dset (dw_sets w) n = Some r ->
    (forall s, In s (listed stale w) -> (srev r < srev s)%Z -> is_available s = false) ->
    (forall k, controls (os_id (ds_set r)) w k -> In k (os_ctrlof (ds_set r))) ->
    exists nx, next_in n (listed stale w) = Some nx /\ (srev r < srev nx)%Z /\
      forall h2, quiet_run (os_id (ds_set r)) w1 h2 ->
        let w2 := run hash slices w1 h2 in
        forall f mem k,
          find_set (sw_sets (to_sworld w2)) (set_kind w2) (oi_ns (d_id (dw_dep w2))) n = Some mem -> os_id mem = os_id (ds_set r) ->
          (os_deleting mem = true \/ os_life mem = LArchived) ->
          In k (full_objects slices nx) -> stored w2 k <> None -> stored (do_step hash slices w2 (SSet f n)) k <> None.
  Proof.
    intros Hnd Hp Hi Hfr Hnoav Hcomplete.
    destruct (archive_sound_now _ _ _ _ _ _ _ _ _ _ _ Hnd Hp Hi) as (l1 & r' & l2 & HL & Hn' & Hne & Hsp & Hna & Hcase).
    assert (Hr' : r' = r).
    { assert (Hin' : In r' (dw_sets w)) by (apply (listed_in stale w); rewrite HL; apply in_or_app; right; now left).
      pose proof (find_some _ _ Hfr) as [Hinr Hnr]. apply N.eqb_eq in Hnr.
      eapply NoDup_map_eq; eauto. congruence. }
    subst r'. destruct Hcase as [(s & Hs & Hav & Hlt)|(Hnav & nx & l3 & act & -> & Hlt & Hact & _ & Hdisj)].
    { exfalso. rewrite (Hnoav s) in Hav; [discriminate| |exact Hlt]. rewrite HL. apply in_or_app. right. now right. }
    exists nx. split; [eapply next_in_split; [apply listed_nodup; exact Hnd|exact HL|exact Hn']|]. split; [exact Hlt|].
    intros h2 Hq w2 f mem k Hfm Hid Hg Hk Hex.
    assert (Hact' : act = os_ctrlof (ds_set r)).
    { unfold active_objects in Hact. rewrite Hna in Hact. destruct (_ && _); [discriminate|]. now injection Hact as <-. }
    destruct (stored w2 k) as [o|] eqn:Eo; [|now elim Hex]. clear Hex.
    destruct (is_controller Native (os_id mem) o) eqn:Ec.
    - (* controlled by the archived revision now: it was at the decision, hence reported, hence not an object of nx *)
      exfalso. rewrite Hid in Ec.
      destruct (run_no_gain _ h2 w1 Hq k o Eo Ec) as (o1 & Hl1 & Hc1).
      destruct (dep_pass_frame _ _ _ _ _ _ _ _ _ _ Hp) as (_ & _ & _ & _ & Hst & _).
      unfold dstore in Hl1. rewrite Hst in Hl1.
      apply (Hdisj k); [|exact Hk]. rewrite Hact'. apply Hcomplete. exists o1. split; assumption.
    - cbn [do_step do_step_sh].
      destruct (objectset_pass f (to_sworld w2) (set_kind w2) (oi_ns (d_id (dw_dep w2))) n) as [[sw' evs'] r'] eqn:Ep.
      destruct (going_pass_kept f k _ _ _ _ _ _ _ _ Hfm Hg Ep o Eo Ec) as (o' & Hl' & _).
      unfold stored. cbn [of_sworld dw_w]. rewrite Hl'. discriminate.
  Qed.
End Handover.

(** ** The hypotheses of [handover_relative] as boolean tests on the history *)
Definition own_active_b (id : oid) (w : dworld) (s : step) : bool :=
  match s with
  | SSet _ n =>
      match find_set (sw_sets (to_sworld w)) (set_kind w) (oi_ns (d_id (dw_dep w))) n with
      | Some mem => negb (cond_true (os_conds mem) CArchived) && negb (os_deleting mem) && negb (lifecycle_eqb (os_life mem) LArchived) &&
                    negb (lifecycle_eqb (os_life mem) LPaused) && same_gkn (ctrl_ref (os_id mem)) id
      | None => false
      end
  | _ => false
  end.

Lemma own_active_b_spec id w s : own_active_b id w s = false -> ~ own_active_pass id w s.
Proof.
  destruct s; cbn; try tauto. intros Hb (mem & Hf & (Ha & Hd & Hl) & Hp & Ho). rewrite Hf, Ha, Hd in Hb. cbn in Hb.
  assert (lifecycle_eqb (os_life mem) LArchived = false) as E1 by (destruct (os_life mem); try reflexivity; congruence).
  assert (lifecycle_eqb (os_life mem) LPaused = false) as E2 by (destruct (os_life mem); try reflexivity; congruence).
  rewrite E1, E2 in Hb. cbn in Hb. apply Ho. exact Hb.
Qed.

Section Booleans.
  Variable hash : N -> option N -> N.
  Variable slices : N -> option (list pobj).

  Fixpoint quiet_run_b (id : oid) (w : dworld) (h : list step) : bool :=
    match h with
    | [] => true
    | s :: t => negb (own_active_b id w s) && quiet_run_b id (do_step hash slices w s) t
    end.

  Lemma quiet_run_b_spec id h : forall w, quiet_run_b id w h = true -> quiet_run hash slices id w h.
  Proof.
    induction h as [|s t IH]; intros w H; [exact I|]. cbn in H. apply andb_true_iff in H. destruct H as [H1 H2].
    split; [apply own_active_b_spec; now apply negb_true_iff|now apply IH].
  Qed.

  (** (a) no newer listed revision reports Available *)
  Definition no_newer_available_b (L : list dset) (r : dset) : bool :=
    forallb (fun s => negb (srev r <? srev s)%Z || negb (is_available s)) L.
  Lemma no_newer_available_b_spec L r :
    no_newer_available_b L r = true -> forall s, In s L -> (srev r < srev s)%Z -> is_available s = false.
  Proof.
    unfold no_newer_available_b. rewrite forallb_forall. intros H s Hs Hlt. specialize (H s Hs).
    apply Z.ltb_lt in Hlt. rewrite Hlt in H. cbn in H. now apply negb_true_iff.
  Qed.

  (** (b) status.controllerOf lists every stored object the ObjectSet controls *)
  Definition ctrl_complete_b (w : dworld) (r : dset) : bool :=
    forallb (fun ko => negb (is_controller Native (os_id (ds_set r)) (snd ko)) || existsb (okey_eqb (fst ko)) (os_ctrlof (ds_set r)))
            (w_store (dw_w w)).

  Lemma lookup_in_store k (s : store) o : lookup k s = Some o -> In (k, o) s.
  Proof.
    induction s as [|[k' o'] s IH]; cbn; [discriminate|]. destruct (okey_eqb k k') eqn:E.
    - intros H. injection H as <-. apply okey_eqb_spec in E. subst. now left.
    - intros H. right. now apply IH.
  Qed.

  Lemma ctrl_complete_b_spec w r :
    ctrl_complete_b w r = true -> forall k, controls (os_id (ds_set r)) w k -> In k (os_ctrlof (ds_set r)).
  Proof.
    unfold ctrl_complete_b. rewrite forallb_forall. intros H k (o & Hl & Hc). specialize (H (k, o) (lookup_in_store _ _ _ Hl)).
    cbn [fst snd] in H. rewrite Hc in H. cbn [negb orb] in H. apply existsb_exists in H. destruct H as (x & Hx & E). apply okey_eqb_spec in E. now subst.
  Qed.
End Booleans.

(** The same with the hypotheses as boolean tests. *)
Theorem handover_sound_partial hash slices fault stale w w1 evs res n pbp ur r :
  NoDup (map sname (dw_sets w)) ->
  dep_pass hash fault slices stale w = (w1, evs, res) -> In (DUpdate n LArchived pbp ur) evs ->
  find_dset (dw_sets w) n = Some r ->
  no_newer_available_b (listed stale w) r = true ->
  ctrl_complete_b w r = true ->
  exists nx, next_in n (listed stale w) = Some nx /\ (srev r < srev nx)%Z /\
    forall h2, quiet_run_b hash slices (os_id (ds_set r)) w1 h2 = true ->
      let w2 := run hash slices w1 h2 in
      forall f mem k,
        find_set (sw_sets (to_sworld w2)) (set_kind w2) (oi_ns (d_id (dw_dep w2))) n = Some mem -> os_id mem = os_id (ds_set r) ->
        (os_deleting mem = true \/ os_life mem = LArchived) ->
        In k (full_objects slices nx) -> stored w2 k <> None -> stored (do_step hash slices w2 (SSet f n)) k <> None.
Proof.
  intros Hnd Hp Hi Hf Ha Hc.
  destruct (handover_relative hash slices fault stale w w1 evs res n pbp ur r Hnd Hp Hi Hf
              (no_newer_available_b_spec _ _ Ha) (ctrl_complete_b_spec _ _ Hc)) as (nx & H1 & H2 & H3).
  exists nx. split; [exact H1|]. split; [exact H2|]. intros h2 Hq. apply H3. now apply quiet_run_b_spec.
Qed.

(** The hypotheses are satisfiable: a broken revision 1 ({Widget a}, probe failing) is replaced by revision 2 ({Widget c}, not yet
    available); revision 1 reports controllerOf [a], is paused, confirms, and is archived by the controllerOf rule; its teardown
    (after further passes of revision 2) removes a and leaves c alone. *)
Section Example.
  Definition t_a : list phase := [hw_phase 1 [wit_pobj 2 1]].
  Definition t_c : list phase := [hw_phase 1 [wit_pobj 2 3]].
  Definition ex_history : list step :=
    [SDep false None; SSet false 100; SEdit 2 t_c; SDep false None; SSet false 200; SDep false None; SSet false 100].
  Definition ex_world : dworld := run wit_hash no_slices (hw_world 1 t_a) ex_history.
  Definition ex_after : list step := [SSet false 200; SMember (hw_key 2 3) 2; SSet false 200].

  Example handover_premises_satisfiable :
    exists w1 evs res r,
      NoDup (map sname (dw_sets ex_world)) /\
      dep_pass wit_hash None no_slices false ex_world = (w1, evs, res) /\ In (DUpdate 100 LArchived false WOk) evs /\
      find_dset (dw_sets ex_world) 100 = Some r /\
      no_newer_available_b (listed false ex_world) r = true /\ ctrl_complete_b ex_world r = true /\
      quiet_run_b wit_hash no_slices (os_id (ds_set r)) w1 ex_after = true /\
      (* the teardown that follows does remove an object, and not the one revision 2 lists *)
      stored (run wit_hash no_slices w1 ex_after) (hw_key 2 1) <> None /\
      stored (do_step wit_hash no_slices (run wit_hash no_slices w1 ex_after) (SSet false 100)) (hw_key 2 1) = None /\
      stored (do_step wit_hash no_slices (run wit_hash no_slices w1 ex_after) (SSet false 100)) (hw_key 2 3) <> None.
  Proof.
    destruct (dep_pass wit_hash None no_slices false ex_world) as [[w1 evs] res] eqn:Ep.
    exists w1, evs, res, (nth 0 (dw_sets ex_world) wit_old).
    assert (Ew : w1 = fst (fst (dep_pass wit_hash None no_slices false ex_world))) by now rewrite Ep.
    assert (Ee : evs = snd (fst (dep_pass wit_hash None no_slices false ex_world))) by now rewrite Ep.
    split. { vm_compute. repeat constructor; cbn; intuition discriminate. }
    split; [reflexivity|]. subst w1 evs. clear Ep.
    split; [vm_compute; auto 6|]. split; [reflexivity|]. split; [reflexivity|]. split; [reflexivity|]. split; [reflexivity|].
    split; [vm_compute; intros H; discriminate H|]. split; [reflexivity|]. vm_compute; intros H; discriminate H.
  Qed.
End Example.
