(** The handover clause of C08 at system level: "an object present in both the outgoing and the incoming revision is
    adopted in place and is never deleted during the handover".
    Part 1: refutations (witness histories from an empty cluster, evaluated by the kernel; each is replayed on the real
    controllers by checks/C08.py). Part 2: what a step can do to the set of objects a revision controls.
    Part 3: the handover relative to the archive decision. Part 4: the invariant behind status.controllerOf of a
    paused revision. *)
From Coq Require Import List NArith ZArith Bool Lia.
From PKO Require Import Util Base BaseProofs Owner OwnerProofs Api ApiProofs Phase PhaseProofs TeardownProofs ObjectSet ObjectSetProofs
  AdoptProofs SetMonLemmas Deployment DeploymentProofs.
Import ListNotations.
Local Open Scope N_scope.

(** * Definitions *)
(** The revision listed right after the one named [n] (ascending revision order, the order the archive reconciler walks). *)
Fixpoint next_in (n : N) (L : list dset) : option dset :=
  match L with
  | a :: ((b :: _) as t) => if sname a =? n then Some b else next_in n t
  | _ => None
  end.
Definition next_newer (w : dworld) (n : N) : option dset := next_in n (listed false w).

Definition stored (w : dworld) (k : okey) : option obj := lookup k (w_store (dw_w w)).
Definition controls (id : oid) (w : dworld) (k : okey) : Prop := exists o, stored w k = Some o /\ is_controller Native id o = true.

(** "The handover of revision [n] is violated by the next step": [n] is archived, the next newer revision [nx] is neither
    archived nor being deleted and has not been paused, lists [k], [k] exists, and a pass of the ObjectSet controller for [n] removes it. *)
Definition handover_violation (hash : N -> option N -> N) (slices : N -> option (list pobj)) (w : dworld) (n : N) (r nx : dset) (k : okey) : Prop :=
  find_dset (dw_sets w) n = Some r /\ is_archived r = true /\
  next_newer w n = Some nx /\ slife nx = LActive /\ os_deleting (ds_set nx) = false /\ (srev r < srev nx)%Z /\
  In k (full_objects slices nx) /\ stored w k <> None /\ stored (do_step hash slices w (SSet false n)) k = None.

Definition from_scratch (w : dworld) : Prop := dw_sets w = [] /\ w_store (dw_w w) = [] /\ d_paused (dw_dep w) = false.

(** Shapes of histories. *)
Definition plain_step (s : step) : bool :=     (* fresh, fault-free deployment passes; full ObjectSet passes; edits; probe inputs *)
  match s with
  | SDep false None | SSet false _ | SEdit _ _ | SMember _ _ => true
  | _ => false
  end.
Definition one_phase_step (s : step) : bool := match s with SEdit _ phs => Nat.leb (length phs) 1 | _ => true end.

(** * Part 1: witnesses *)
Section Witnesses.
  Definition hw_phase (name : N) (objs : list pobj) : phase := {| ph_name := name; ph_class := false; ph_objects := objs |}.
  Definition hw_key (gk name : N) : okey := {| k_gk := gk; k_ns := 1; k_name := name |}.
  (** an empty cluster: no ObjectSets, no objects *)
  Definition hw_world (dg : N) (phs : list phase) : dworld := wit_world (wit_dep dg phs None) [].

  (** Widgets (kind 2) are probed, ConfigMaps (kind 1) are not. *)
  Definition t_a_b : list phase := [hw_phase 1 [wit_pobj 2 1]; hw_phase 2 [wit_pobj 1 2]].
  Definition t_c_b : list phase := [hw_phase 1 [wit_pobj 2 3]; hw_phase 2 [wit_pobj 1 2]].

  (** W1: revision 1 (phases [a]; [b]) is rolled out completely, then a's probe fails: its controllerOf stops at phase 1.
      Revision 2 (phases [c]; [b]) waits for c. Revision 1 reports [a] (also from its paused pass), is archived and its
      teardown deletes b, which revision 2 lists and has not adopted yet. *)
  Definition w1_history : list step :=
    [SDep false None; SSet false 100; SMember (hw_key 2 1) 1; SSet false 100; SMember (hw_key 2 1) 2; SSet false 100;
     SEdit 2 t_c_b; SDep false None; SSet false 200; SDep false None; SSet false 100; SDep false None].
  Definition w1_world : dworld := run wit_hash no_slices (hw_world 1 t_a_b) w1_history.

  (** W2: revision 2 (one phase [b; c]) adopted b from revision 1; the teardown of the archived revision 1 removes its
      owner reference from b and, with it, the dynamic-cache label. While the deployment is paused, the paused pass of
      revision 2 does not see b (paused passes read the cache only) and reports controllerOf [c], Paused=True. The deployment is
      unpaused and edited; revision 3 (phases [d]; [b]) waits for d. The archive reconciler finds the stale Paused=True
      (ensurePaused does not compare it with spec), controllerOf [c] disjoint from {d, b}: revision 2 is archived at once and its
      teardown deletes b. *)
  Definition t_b : list phase := [hw_phase 1 [wit_pobj 1 2]].
  Definition t_bc : list phase := [hw_phase 1 [wit_pobj 1 2; wit_pobj 2 3]].
  Definition t_d_b : list phase := [hw_phase 1 [wit_pobj 2 4]; hw_phase 2 [wit_pobj 1 2]].
  Definition w2_history : list step :=
    [SDep false None; SSet false 100; SDep false None; SEdit 2 t_bc; SDep false None; SSet false 200; SMember (hw_key 2 3) 1; SSet false 200;
     SDep false None; SSet false 100; SDep false None; SSet false 100; SMember (hw_key 2 3) 2;
     SPause true; SDep false None; SSet false 200; SEdit 3 t_d_b; SPause false; SDep false None; SSet false 300; SDep false None].
  Definition w2_world : dworld := run wit_hash no_slices (hw_world 1 t_b) w2_history.

  (** W3: single phases, the deployment is never paused. Revisions 1, 2, 3 all list the Widget k (with different bodies); 3 controls
      it, 1 and 2 control nothing ([] is stored as nil: never archived by the controllerOf rule). Revision 4 lists other objects
      and is not Available; revision 3 is archived. Before its teardown runs, k turns healthy and revision 2 reports
      Available=True (k is left to the newer revision 3). The teardown of 3 deletes k, revision 1 (still active) re-creates
      it, the Available report of revision 2 gets revision 1 archived, whose teardown deletes k: listed by the next newer revision 2,
      which is active and "Available". *)
  Definition hw_pobj (gk name body : N) : pobj :=
    {| po_gk := gk; po_ns := 0; po_name := name; po_body := body; po_cp := CPPrevent; po_ownerrefs := false; po_dryreject := false |}.
  Definition t_k1 : list phase := [hw_phase 1 [hw_pobj 2 1 1]].
  Definition t_k2 : list phase := [hw_phase 1 [hw_pobj 2 1 2]].
  Definition t_k3 : list phase := [hw_phase 1 [hw_pobj 2 1 3; hw_pobj 2 2 1]].
  Definition t_e : list phase := [hw_phase 1 [hw_pobj 2 3 1]].
  Definition w3_history : list step :=
    [SDep false None; SSet false 100; SMember (hw_key 2 1) 2; SSet false 100; SEdit 2 t_k2; SDep false None; SSet false 200; SDep false None;
     SEdit 3 t_k3; SDep false None; SSet false 300; SDep false None; SSet false 100; SSet false 200;
     SEdit 4 t_e; SDep false None; SSet false 400; SMember (hw_key 2 3) 2; SDep false None; SSet false 300; SDep false None;
     SMember (hw_key 2 1) 1; SSet false 200; SSet false 300; SSet false 300; SSet false 100;
     SDep false None; SSet false 100; SDep false None].
  Definition w3_world : dworld := run wit_hash no_slices (hw_world 1 t_k1) w3_history.
End Witnesses.

(** ** The refutations *)
Ltac decide_in := repeat (first [left; reflexivity | right]).

(** W1 (F-C08c): multi-phase revisions; nothing else unusual. *)
Theorem handover_refuted_truncated :
  exists hash slices w0 h n r nx k,
    from_scratch w0 /\ forallb plain_step h = true /\
    handover_violation hash slices (run hash slices w0 h) n r nx k /\
    (* at the decision: Paused=True is stored, the revision controls k, k carries the cache label, controllerOf does not list it *)
    is_status_paused r = true /\ controls (os_id (ds_set r)) (run hash slices w0 h) k /\
    (exists o, stored (run hash slices w0 h) k = Some o /\ o_cache o = true) /\ ~ In k (os_ctrlof (ds_set r)).
Proof.
  exists wit_hash, no_slices, (hw_world 1 t_a_b), w1_history, 100.
  set (w := run wit_hash no_slices (hw_world 1 t_a_b) w1_history).
  exists (nth 0 (dw_sets w) wit_old), (nth 1 (dw_sets w) wit_old), (hw_key 1 2).
  split; [repeat split|]. split; [reflexivity|]. split; [|split; [reflexivity|split; [|split]]].
  - vm_compute. repeat split; try discriminate; auto 6.
  - eexists. split; vm_compute; reflexivity.
  - eexists. split; vm_compute; reflexivity.
  - vm_compute. intros [H|[]]. discriminate.
Qed.

(** W2 (F-C08d): the archived revision has a single phase; the deployment was paused and unpaused. *)
Theorem handover_refuted_cache_label :
  exists hash slices w0 h n r nx k,
    from_scratch w0 /\
    handover_violation hash slices (run hash slices w0 h) n r nx k /\
    length (os_phases (ds_set r)) = 1%nat /\
    is_status_paused r = true /\ controls (os_id (ds_set r)) (run hash slices w0 h) k /\
    (exists o, stored (run hash slices w0 h) k = Some o /\ o_cache o = false) /\ ~ In k (os_ctrlof (ds_set r)).
Proof.
  exists wit_hash, no_slices, (hw_world 1 t_b), w2_history, 200.
  set (w := run wit_hash no_slices (hw_world 1 t_b) w2_history).
  exists (nth 1 (dw_sets w) wit_old), (nth 2 (dw_sets w) wit_old), (hw_key 1 2).
  split; [repeat split|]. split; [|split; [reflexivity|split; [reflexivity|split; [|split]]]].
  - vm_compute. repeat split; try discriminate; auto 6.
  - eexists. split; vm_compute; reflexivity.
  - eexists. split; vm_compute; reflexivity.
  - vm_compute. intros [H|[]]. discriminate.
Qed.

(** W3 (F-C08e): single phases only, the deployment is never paused, no pruning; the archival rests on a stale Available report. *)
Theorem handover_refuted_stale_available :
  exists hash slices w0 h n r nx k,
    from_scratch w0 /\ forallb plain_step h = true /\ forallb one_phase_step h = true /\
    (length (d_phases (dw_dep w0)) <= 1)%nat /\
    handover_violation hash slices (run hash slices w0 h) n r nx k /\
    is_available nx = true /\ os_ctrlof (ds_set nx) = [] /\
    (* here controllerOf is complete *)
    In k (os_ctrlof (ds_set r)).
Proof.
  exists wit_hash, no_slices, (hw_world 1 t_k1), w3_history, 100.
  set (w := run wit_hash no_slices (hw_world 1 t_k1) w3_history).
  exists (nth 0 (dw_sets w) wit_old), (nth 1 (dw_sets w) wit_old), (hw_key 2 1).
  split; [repeat split|]. split; [reflexivity|]. split; [reflexivity|]. split; [cbn; lia|].
  split; [|split; [reflexivity|split; [reflexivity|]]].
  - vm_compute. repeat split; try discriminate; auto 6.
  - vm_compute. auto 6.
Qed.

(** * Part 2: what a step can do to the set of objects an ObjectSet controls *)
(** [no_gain id s s']: every object controlled by [id] in [s'] was controlled by it in [s]. *)
Definition no_gain (id : oid) (s s' : store) : Prop :=
  forall k o', lookup k s' = Some o' -> is_controller Native id o' = true ->
               exists o, lookup k s = Some o /\ is_controller Native id o = true.

Lemma no_gain_refl id s : no_gain id s s.
Proof. intros k o H1 H2. eauto. Qed.
Lemma no_gain_trans id a b c : no_gain id a b -> no_gain id b c -> no_gain id a c.
Proof. intros H1 H2 k o Hl Hc. destruct (H2 _ _ Hl Hc) as (o1 & Hl1 & Hc1). eauto. Qed.
Lemma no_gain_eq id s s' : s' = s -> no_gain id s s'.
Proof. intros ->. apply no_gain_refl. Qed.

(** Another owner: a different kind or name (ObjectSets of one world have distinct names). *)
Definition other (id m : oid) : Prop := same_gkn (ctrl_ref m) id = false.

Section OwnerLists.
  Lemma merge_refs_in st pa x :
    In x (merge_refs st pa) -> In x pa \/ (In x st /\ find (fun p => r_uid p =? r_uid x) pa = None).
  Proof.
    unfold merge_refs. intros H. apply in_app_or in H. destruct H as [H|H].
    - apply in_map_iff in H. destruct H as (r & Hx & Hr).
      destruct (find (fun p => r_uid p =? r_uid r) pa) as [p|] eqn:Ef.
      + subst x. left. now apply find_some in Ef.
      + subst x. right. auto.
    - apply filter_In in H. now left.
  Qed.

  Lemma upsert_in (f : oref -> bool) c l p : In p (upsert_ref f c l) -> p = c \/ In p l.
  Proof.
    induction l as [|x l IH]; cbn; [intros [<-|[]]; now left|].
    destruct (f x); cbn; intros [<-|H]; auto. destruct (IH H); auto.
  Qed.

  Lemma upsert_keeps (f : oref -> bool) c l p : In p l -> f p = false -> In p (upsert_ref f c l).
  Proof.
    induction l as [|x l IH]; [contradiction|]. intros [->|H] Hf; cbn.
    - rewrite Hf. now left.
    - destruct (f x); [right; exact H|right; now apply IH].
  Qed.

  Lemma same_obj_gkn r id : same_obj r id = true -> same_gkn r id = true.
  Proof. unfold same_obj, same_gkn. rewrite !andb_true_iff. tauto. Qed.

  Lemma same_gkn_trans_ctrl r id m : same_gkn r id = true -> same_gkn r m = true -> same_gkn (ctrl_ref m) id = true.
  Proof.
    unfold same_gkn, ctrl_ref. cbn. rewrite !andb_true_iff, !N.eqb_eq. intros [H1 H2] [H3 H4]. split; congruence.
  Qed.

  (** The owner list after adoption by [m] (ReleaseController, SetControllerReference, apply merge): nobody else controls. *)
  Lemma adopt_no_other id m st :
    other id m ->
    is_controller_l id (merge_refs st (upsert_ref (fun x => same_gkn x m) (ctrl_ref m) (release_l st))) = false.
  Proof.
    intros Ho. destruct (is_controller_l id _) eqn:E; [|reflexivity]. exfalso.
    unfold is_controller_l in E. apply existsb_exists in E. destruct E as (x & Hin & Hx). apply andb_true_iff in Hx. destruct Hx as [Hs Hc].
    apply merge_refs_in in Hin. destruct Hin as [Hin|[Hin Hf]].
    - apply upsert_in in Hin. destruct Hin as [->|Hin].
      + apply same_obj_gkn in Hs. unfold other in Ho. congruence.
      + unfold release_l in Hin. apply in_map_iff in Hin. destruct Hin as (r & <- & _). cbn in Hc. discriminate.
    - (* kept from the stored list: there is a patch entry with its uid *)
      assert (Hg : same_gkn x m = false).
      { destruct (same_gkn x m) eqn:Eg; [|reflexivity]. apply same_obj_gkn in Hs. pose proof (same_gkn_trans_ctrl _ _ _ Hs Eg). unfold other in Ho. congruence. }
      assert (Hd : In (demote x) (upsert_ref (fun y => same_gkn y m) (ctrl_ref m) (release_l st))).
      { apply upsert_keeps; [unfold release_l; now apply in_map|]. now rewrite same_gkn_demote. }
      eapply find_none in Hf; [|exact Hd]. cbn in Hf. now rewrite N.eqb_refl in Hf.
  Qed.

  Lemma merge_self_sub id st : is_controller_l id (merge_refs st st) = true -> is_controller_l id st = true.
  Proof.
    unfold is_controller_l. rewrite !existsb_exists. intros (x & Hin & Hx). exists x. split; [|exact Hx].
    apply merge_refs_in in Hin. tauto.
  Qed.

  Lemma remove_first_swap_in (f : oref -> bool) l x : In x (remove_first_swap f l) -> In x l.
  Proof.
    induction l as [|y l IH]; cbn; [tauto|]. destruct (f y).
    - destruct l as [|z l']; [tauto|]. intros [<-|H].
      + right. destruct (exists_last (l := z :: l') ltac:(discriminate)) as (l0 & a & E). rewrite E, last_last. apply in_or_app. right. now left.
      + right. destruct (exists_last (l := z :: l') ltac:(discriminate)) as (l0 & a & E). rewrite E in H |- *. rewrite removelast_last in H.
        apply in_or_app. now left.
    - intros [<-|H]; [now left|right; now apply IH].
  Qed.

  Lemma remove_owner_sub id m l : is_controller_l id (remove_owner_l m l) = true -> is_controller_l id l = true.
  Proof.
    unfold is_controller_l, remove_owner_l. rewrite !existsb_exists. intros (x & Hin & Hx). exists x. split; [|exact Hx].
    eapply remove_first_swap_in; eauto.
  Qed.
End OwnerLists.

Section ObjectLevel.
  Variable force : bool.
  Let c : cfg := {| c_flavor := FObjectSet; c_force := force |}.

  Lemma key_dec (a b : okey) : {a = b} + {a <> b}.
  Proof. destruct (okey_eqb a b) eqn:E; [left; now apply okey_eqb_spec|right; intros ->; now rewrite okey_eqb_refl in E]. Qed.

  Lemma is_controller_set_rv id o rv : is_controller Native id (set_rv o rv) = is_controller Native id o.
  Proof. reflexivity. Qed.

  (** One object of a phase, reconciled by [ow]: no other owner gains control of anything. *)
  Lemma rec_obj_no_gain id w ow prev p w' evs r :
    reconcile_object c idw w ow prev p = (w', evs, r) -> other id (ow_id ow) -> no_gain id (w_store w) (w_store w').
  Proof.
    intros H Ho k o' Hl Hc.
    destruct (key_dec k (key_of ow p)) as [->|Hne]; [|rewrite (rec_obj_frame c _ _ _ _ _ _ _ k H Hne) in Hl; eauto].
    unfold reconcile_object in H. fold (key_of ow p) in H. cbn [c c_flavor flavor_strat] in H.
    destruct (set_controller_l Native (ow_id ow) (k_ns (key_of ow p)) []) as [dref|] eqn:Ed; [|injection H as <- _ _; eauto].
    assert (Hdref : dref = [ctrl_ref (ow_id ow)]).
    { unfold set_controller_l in Ed. destruct (negb _); [discriminate|]. cbn in Ed. now injection Ed as <-. }
    destruct (ow_paused ow). { destruct (cache_get w _); injection H as <- _ _; eauto. }
    rewrite cur_lookup in H. destruct (lookup (key_of ow p) (w_store w)) as [cu|] eqn:El.
    - destruct (check_adoption Native (c_force c) ow cu prev (po_cp p)); try (injection H as <- _ _; rewrite El in Hl; eauto).
      + (* already controller: the patch carries the stored owner list *)
        destruct (do_apply_events _ _ _ _ _ _ _ _ H) as (post & _ & Hp). destruct post as [o| |]; [|contradiction|].
        * destruct Hp as [_ Ha]. unfold idw in Ha. destruct (api_apply_spec _ _ _ _ _ _ Ha) as (Hl' & _ & Hm). rewrite El in Hm.
          destruct Hm as (_ & rv & ->). rewrite Hl' in Hl. injection Hl as <-. exists cu. split; [reflexivity|].
          assert (Hc' : is_controller_l id (merge_refs (o_owners cu) (o_owners cu)) = true) by exact Hc.
          exact (merge_self_sub _ _ Hc').
        * destruct Hp as (_ & -> & _). unfold idw in Hl. rewrite El in Hl. eauto.
      + (* adoption *)
        destruct (set_controller_l Native (ow_id ow) (k_ns (key_of ow p)) (release_l (refs Native cu))) as [l|] eqn:Es;
          [|injection H as <- _ _; rewrite El in Hl; eauto].
        assert (Hl0 : l = upsert_ref (fun x => same_gkn x (ow_id ow)) (ctrl_ref (ow_id ow)) (release_l (o_owners cu))).
        { unfold set_controller_l in Es. destruct (negb _); [discriminate|]. cbn [refs] in Es. rewrite find_ctrl_release in Es. now injection Es as <-. }
        destruct (do_apply_events _ _ _ _ _ _ _ _ H) as (post & _ & Hp). destruct post as [o| |]; [|contradiction|].
        * destruct Hp as [_ Ha]. unfold idw in Ha. destruct (api_apply_spec _ _ _ _ _ _ Ha) as (Hl' & _ & Hm). rewrite El in Hm.
          destruct Hm as (_ & rv & ->). rewrite Hl' in Hl. injection Hl as <-. exfalso.
          assert (Hc' : is_controller_l id (merge_refs (o_owners cu) l) = true) by exact Hc.
          rewrite Hl0, (adopt_no_other id (ow_id ow) (o_owners cu) Ho) in Hc'. discriminate.
        * destruct Hp as (_ & -> & _). unfold idw in Hl. rewrite El in Hl. eauto.
    - (* created *)
      destruct (do_apply_events _ _ _ _ _ _ _ _ H) as (post & _ & Hp). destruct post as [o| |]; [|contradiction|].
      + destruct Hp as [_ Ha]. unfold idw in Ha. destruct (api_apply_spec _ _ _ _ _ _ Ha) as (Hl' & _ & Hm). rewrite El in Hm.
        destruct Hm as (_ & ->). rewrite Hl' in Hl. injection Hl as <-. exfalso.
        unfold is_controller in Hc. cbn in Hc. rewrite Hdref in Hc. cbn in Hc. rewrite orb_false_r in Hc.
        apply andb_true_iff in Hc. destruct Hc as [Hs _]. apply same_obj_gkn in Hs. unfold other in Ho. congruence.
      + destruct Hp as (_ & -> & _). unfold idw in Hl. rewrite El in Hl. discriminate.
  Qed.
End ObjectLevel.

Section TeardownLevel.
  Variable force : bool.
  Let c : cfg := {| c_flavor := FObjectSet; c_force := force |}.

  Lemma api_delete_no_gain id w k uid rv : no_gain id (w_store w) (w_store (fst (api_delete w k uid rv))).
  Proof.
    intros k' o' Hl Hc. destruct (key_dec k' k) as [->|Hne]; [|rewrite (api_delete_frame w k uid rv k' Hne) in Hl; eauto].
    unfold api_delete in Hl. destruct (lookup k (w_store w)) as [cur|] eqn:El; [|cbn [fst] in Hl; rewrite El in Hl; discriminate].
    destruct (negb _); [cbn [fst] in Hl; rewrite El in Hl; eauto|].
    destruct (o_fin cur).
    - destruct (o_deleting cur); [cbn [fst] in Hl; rewrite El in Hl; eauto|].
      cbn [fst w_store] in Hl. rewrite lookup_upsert_same in Hl. injection Hl as <-. eauto.
    - cbn [fst w_store with_store] in Hl. rewrite lookup_remove_same in Hl. discriminate.
  Qed.

  (** Teardown of one object never makes anybody a controller. *)
  Lemma td_obj_no_gain id w ow p w' evs d :
    teardown_object c idw w ow p = (w', evs, d) -> no_gain id (w_store w) (w_store w').
  Proof.
    intros H. unfold teardown_object in H. fold (key_of ow p) in H. cbn [c c_flavor flavor_strat] in H.
    destruct (preflight_obj FObjectSet ow false p); [|injection H as <- _ _; apply no_gain_refl].
    unfold api_get at 1 in H. destruct (lookup (key_of ow p) (w_store w)) as [cu|] eqn:El; [|injection H as <- _ _; apply no_gain_refl].
    destruct (is_controller Native (ow_id ow) cu); cbn [negb] in H.
    - unfold idw in H. destruct (api_delete w (key_of ow p) (o_uid cu) (o_rv cu)) as [w2 r] eqn:Ed. injection H as <- _ _.
      pose proof (api_delete_no_gain id w (key_of ow p) (o_uid cu) (o_rv cu)) as Hg. now rewrite Ed in Hg.
    - destruct (is_owner Native (ow_id ow) cu); cbn [negb] in H; [|injection H as <- _ _; apply no_gain_refl].
      unfold idw in H. destruct (api_release_patch w (key_of ow p) (remove_owner_l (ow_id ow) (o_owners cu))) as [[w2 [o|]]|] eqn:Er.
      + injection H as <- _ _. intros k o' Hl Hc.
        destruct (key_dec k (key_of ow p)) as [->|Hne]; [|rewrite (api_release_frame _ _ _ _ _ k Er Hne) in Hl; eauto].
        destruct (api_release_spec _ _ _ _ _ Er) as (cur & Hcur & Hl2 & _ & _ & Hown & _). rewrite Hl2 in Hl. injection Hl as <-.
        rewrite El in Hcur. injection Hcur as <-. exists cu. split; [exact El|].
        unfold is_controller in *. cbn [refs] in *. rewrite Hown in Hc. eapply remove_owner_sub; eauto.
      + injection H as <- _ _. rewrite (api_release_invalid _ _ _ _ Er). apply no_gain_refl.
      + injection H as <- _ _. apply no_gain_refl.
  Qed.

  Lemma td_objs_no_gain id ow ps : forall w alldone w' evs r,
    teardown_objects c idw w ow ps alldone = (w', evs, r) -> no_gain id (w_store w) (w_store w').
  Proof.
    induction ps as [|p ps IH]; intros w alldone w' evs r H; cbn in H; [injection H as <- _ _; apply no_gain_refl|].
    destruct (teardown_object c idw w ow p) as [[w1 e1] d] eqn:E1.
    pose proof (td_obj_no_gain id _ _ _ _ _ _ E1) as H1.
    destruct (teardown_err e1); [injection H as <- _ _; exact H1|].
    destruct (teardown_objects c idw w1 ow ps (alldone && d)) as [[w2 e2] r2] eqn:E2. injection H as <- _ _.
    eapply no_gain_trans; [exact H1|eapply IH; eauto].
  Qed.

  Lemma rec_objs_no_gain id ow prev ps : forall w acc failed w' evs r,
    reconcile_objects c idw w ow prev ps acc failed = (w', evs, r) -> other id (ow_id ow) -> no_gain id (w_store w) (w_store w').
  Proof.
    induction ps as [|p ps IH]; intros w acc failed w' evs r H Ho; cbn in H; [injection H as <- _ _; apply no_gain_refl|].
    destruct (reconcile_object c idw w ow prev p) as [[w1 e1] r1] eqn:E1.
    pose proof (rec_obj_no_gain force id _ _ _ _ _ _ _ E1 Ho) as H1.
    destruct r1 as [o| |e].
    - destruct (reconcile_objects c idw w1 ow prev ps _ _) as [[w2 e2] r2] eqn:E2. injection H as <- _ _.
      eapply no_gain_trans; [exact H1|eapply IH; eauto].
    - destruct (reconcile_objects c idw w1 ow prev ps _ _) as [[w2 e2] r2] eqn:E2. injection H as <- _ _.
      eapply no_gain_trans; [exact H1|eapply IH; eauto].
    - injection H as <- _ _. exact H1.
  Qed.

  Lemma rec_phase_no_gain id w ow prev cl ps w' evs r :
    reconcile_phase c idw w ow prev cl ps = (w', evs, r) -> other id (ow_id ow) -> no_gain id (w_store w) (w_store w').
  Proof.
    unfold reconcile_phase. destruct (flat_map _ ps); [|intros H; injection H as <- _ _; intros; apply no_gain_refl].
    apply rec_objs_no_gain.
  Qed.

  (** The phase loop of an ObjectSet (local phases through the phase reconciler, delegated ones only touch phase objects). *)
  Lemma rpm_no_gain id s ow prev phs : forall sw acc rem sw' evs rem' r,
    reconcile_phases_m force sw s ow prev phs acc rem = (sw', evs, rem', r) -> other id (ow_id ow) ->
    no_gain id (w_store (sw_w sw)) (w_store (sw_w sw')).
  Proof.
    induction phs as [|ph rest IH]; intros sw acc rem sw' evs rem' r H Ho.
    - cbn in H. injection H as <- _ _ _. apply no_gain_refl.
    - rewrite rpm_cons in H. destruct (ph_class ph).
      + destruct (remote_reconcile sw s ph rem) as [[[sw1 e1] rem1] r1] eqn:E1.
        destruct (remote_reconcile_inv _ _ _ _ _ _ _ _ E1) as (Hst & _).
        destruct r1 as [|active failed]; [injection H as <- _ _ _; rewrite Hst; apply no_gain_refl|].
        destruct failed; [injection H as <- _ _ _; rewrite Hst; apply no_gain_refl|].
        destruct (reconcile_phases_m force sw1 s ow prev rest _ rem1) as [[[sw2 e2] rem2] r2] eqn:E2. injection H as <- _ _ _.
        rewrite <- Hst. eapply IH; eauto.
      + destruct (reconcile_phase _ idw (sw_w sw) ow prev false (ph_objects ph)) as [[w1 e1] r1] eqn:E1.
        pose proof (rec_phase_no_gain id _ _ _ _ _ _ _ _ E1 Ho) as H1.
        destruct r1 as [e|vs|actual failed]; try (injection H as <- _ _ _; exact H1).
        destruct failed; [|injection H as <- _ _ _; exact H1]. cbv zeta in H.
        destruct (reconcile_phases_m force (with_w sw w1) s ow prev rest _ rem) as [[[sw2 e2] rem2] r2] eqn:E2. injection H as <- _ _ _.
        eapply no_gain_trans; [exact H1|]. exact (IH _ _ _ _ _ _ _ E2 Ho).
  Qed.

  Lemma tpm_no_gain id s ow rphs : forall sw sw' evs r,
    teardown_phases_m force sw s ow rphs = (sw', evs, r) -> no_gain id (w_store (sw_w sw)) (w_store (sw_w sw')).
  Proof.
    induction rphs as [|ph rest IH]; intros sw sw' evs r H.
    - cbn in H. injection H as <- _ _. apply no_gain_refl.
    - rewrite tpm_cons in H. destruct (td_step force sw s ow ph) as [[sw1 e1] r1] eqn:E1.
      assert (H1 : no_gain id (w_store (sw_w sw)) (w_store (sw_w sw1))).
      { unfold td_step in E1. destruct (ph_class ph).
        - destruct (remote_teardown_inv _ _ _ _ _ _ E1) as (-> & _). apply no_gain_refl.
        - destruct (teardown_phase _ idw (sw_w sw) ow (ph_objects ph)) as [[w1 e'] r'] eqn:Et. injection E1 as <- _ _.
          unfold teardown_phase in Et. exact (td_objs_no_gain id _ _ _ _ _ _ _ Et). }
      destruct r1 as [|[|]]; try (injection H as <- _ _; exact H1).
      destruct (teardown_phases_m force sw1 s ow rest) as [[sw2 e2] r2] eqn:E2. injection H as <- _ _.
      eapply no_gain_trans; [exact H1|eapply IH; eauto].
  Qed.
End TeardownLevel.

Section SetLevel.
  Variable force : bool.

  (** A pass of the ObjectSet controller: nobody gains control of an object, except the ObjectSet of the pass itself
      when it is active and not paused. *)
  Lemma set_pass_no_gain id sw kind ns n sw' evs r :
    objectset_pass force sw kind ns n = (sw', evs, r) ->
    (forall mem, find_set (sw_sets sw) kind ns n = Some mem -> is_active mem -> os_life mem <> LPaused -> other id (os_id mem)) ->
    no_gain id (w_store (sw_w sw)) (w_store (sw_w sw')).
  Proof.
    intros H Ho. destruct (find_set (sw_sets sw) kind ns n) as [mem|] eqn:Ef.
    2:{ unfold objectset_pass in H. rewrite Ef in H. injection H as <- _ _. apply no_gain_refl. }
    destruct (cond_true (os_conds mem) CArchived) eqn:Ea.
    { unfold objectset_pass in H. rewrite Ef, Ea in H. injection H as <- _ _. apply no_gain_refl. }
    destruct (os_deleting mem) eqn:Ed.
    { pose proof (objectset_pass_going force _ _ _ _ _ _ _ _ Ef (conj Ea (or_introl Ed)) H) as Hd.
      destruct (deletion_pass_inv force _ _ _ _ _ Hd) as (sw1 & tevs & td & Etd & _ & Hst & _). rewrite Hst.
      unfold teardown_of in Etd. destruct (os_fin mem); [|injection Etd as <- _ _; apply no_gain_refl].
      destruct (os_orphan mem); [injection Etd as <- _ _; apply no_gain_refl|]. eapply tpm_no_gain; eauto. }
    destruct (lifecycle_eqb (os_life mem) LArchived) eqn:El.
    { assert (Hl : os_life mem = LArchived) by (destruct (os_life mem); try discriminate; reflexivity).
      pose proof (objectset_pass_going force _ _ _ _ _ _ _ _ Ef (conj Ea (or_intror Hl)) H) as Hd.
      destruct (deletion_pass_inv force _ _ _ _ _ Hd) as (sw1 & tevs & td & Etd & _ & Hst & _). rewrite Hst.
      unfold teardown_of in Etd. destruct (os_fin mem); [|injection Etd as <- _ _; apply no_gain_refl].
      destruct (os_orphan mem); [injection Etd as <- _ _; apply no_gain_refl|]. eapply tpm_no_gain; eauto. }
    assert (Hact : is_active mem).
    { split; [exact Ea|]. split; [exact Ed|]. intros Hl. rewrite Hl in El. discriminate. }
    destruct (objectset_pass_active force _ _ _ _ _ _ _ _ Ef Hact H) as [(Hst & _)|Hr].
    - rewrite Hst. apply no_gain_refl.
    - destruct Hr as (mem1 & sw1 & sw2 & pevs & rem & pr & pre0 & Hs & Hw0 & _ & _ & _ & Hrp & Hw2 & _).
      rewrite Hw2, <- Hw0.
      destruct (lifecycle_eqb (os_life mem) LPaused) eqn:Ep.
      + assert (Hpa : ow_paused (as_owner mem1) = true).
        { destruct Hs as (_ & _ & Hl & _). unfold as_owner. cbn. now rewrite Hl. }
        destruct (rpm_paused force _ _ _ _ _ _ _ _ _ _ _ Hpa Hrp) as [Hst _]. rewrite Hst. apply no_gain_refl.
      + eapply rpm_no_gain; [exact Hrp|]. cbn [as_owner ow_id]. destruct Hs as (Hid & _). rewrite Hid.
        apply (Ho mem eq_refl Hact). intros Hl. rewrite Hl in Ep. discriminate.
  Qed.
End SetLevel.

(** ** Steps of whole-system histories *)
Definition dstore (w : dworld) : store := w_store (dw_w w).

(** The one kind of step in which the ObjectSet [id] may gain control of objects: a pass of its own controller while it is active
    (not archived, not deleted) and not paused. *)
Definition own_active_pass (id : oid) (w : dworld) (s : step) : Prop :=
  match s with
  | SSet _ n => exists mem, find_set (sw_sets (to_sworld w)) (set_kind w) (oi_ns (d_id (dw_dep w))) n = Some mem /\
                            is_active mem /\ os_life mem <> LPaused /\ ~ other id (os_id mem)
  | _ => False
  end.

Section StepLevel.
  Variable hash : N -> option N -> N.
  Variable slices : N -> option (list pobj).
  Variable sliceaware rev0ok : bool.

  Lemma edit_dep_store w f b : dstore (edit_dep w f b) = dstore w.
  Proof. unfold edit_dep, dstore. destruct (negb b); reflexivity. Qed.

  Lemma rev_step_store w n : dstore (rev_step w n) = dstore w.
  Proof.
    unfold rev_step, dstore. destruct (find_set _ _ _ n) as [mem|] eqn:Ef; [|reflexivity].
    destruct (find_set_id _ _ _ _ _ Ef) as (Hk & Hns & Hn).
    assert (Hf : find_set (sw_sets (to_sworld w)) (oi_kind (os_id mem)) (oi_ns (os_id mem)) (oi_name (os_id mem)) = Some mem) by now rewrite Hk, Hns, Hn.
    destruct (revision_pass (to_sworld w) mem) as [[[sw1 e1] mem1] rr] eqn:Er.
    destruct (revision_pass_inv _ _ _ _ _ _ Hf Er) as (_ & Hst & _).
    cbn [to_sworld sw_w] in Hst.
    destruct rr; try (cbn [of_sworld dw_w]; exact Hst).
    destruct (update_status sw1 mem1) as [[sw2 m2] ok] eqn:Eu. destruct (update_status_store _ _ _ _ _ Eu) as (Hst2 & _).
    cbn [of_sworld dw_w]. congruence.
  Qed.

  Theorem step_no_gain id w s :
    ~ own_active_pass id w s -> no_gain id (dstore w) (dstore (do_step_sh hash slices sliceaware rev0ok w s)).
  Proof.
    intros Hn. destruct s as [dg phs|b|l|stale fault|f n|n|n cs co coset|n|k a]; cbn [do_step_sh].
    - rewrite edit_dep_store. apply no_gain_refl.
    - rewrite edit_dep_store. apply no_gain_refl.
    - rewrite edit_dep_store. apply no_gain_refl.
    - destruct (dep_pass_sh hash fault slices sliceaware rev0ok stale w) as [[w' evs] r] eqn:Ep.
      destruct (dep_pass_frame _ _ _ _ _ _ _ _ _ _ Ep) as (_ & _ & _ & _ & Hst & _). unfold dstore. rewrite Hst. apply no_gain_refl.
    - destruct (objectset_pass f (to_sworld w) (set_kind w) (oi_ns (d_id (dw_dep w))) n) as [[sw' evs] r] eqn:Ep.
      unfold dstore. cbn [of_sworld dw_w]. change (dw_w w) with (sw_w (to_sworld w)).
      eapply set_pass_no_gain; [exact Ep|]. intros mem Hf Ha Hl.
      unfold other. destruct (same_gkn (ctrl_ref (os_id mem)) id) eqn:E; [|reflexivity]. exfalso. apply Hn. cbn. exists mem.
      split; [exact Hf|]. split; [exact Ha|]. split; [exact Hl|]. unfold other. rewrite E. discriminate.
    - rewrite rev_step_store. apply no_gain_refl.
    - destruct (find_dset (dw_sets w) n) as [x|]; [|apply no_gain_refl].
      destruct (_ && _); [apply no_gain_refl|]. unfold dstore, with_sets. cbn. apply no_gain_refl.
    - destruct (find_dset (dw_sets w) n) as [x|]; [|apply no_gain_refl].
      destruct (os_deleting (ds_set x)); apply no_gain_refl.
    - destruct (lookup k (w_store (dw_w w))) as [o|] eqn:El; [|apply no_gain_refl].
      destruct (o_avail o =? a); [apply no_gain_refl|]. unfold dstore, with_sets. cbn [dw_w w_store].
      intros k' o' Hl Hc. destruct (key_dec k' k) as [->|Hne].
      + rewrite lookup_upsert_same in Hl. injection Hl as <-. exists o. split; [exact El|exact Hc].
      + rewrite (lookup_upsert_other _ _ _ _ Hne) in Hl. eauto.
  Qed.
End StepLevel.

(** * Part 3: the handover, relative to the archive decision *)
(** Teardown removes only what the torn-down owner controls: an object it does not control stays (and stays not controlled by it). *)
Definition kept (id : oid) (k : okey) (s s' : store) : Prop :=
  forall o, lookup k s = Some o -> is_controller Native id o = false -> exists o', lookup k s' = Some o' /\ is_controller Native id o' = false.

Lemma kept_refl id k s : kept id k s s.
Proof. intros o H1 H2. eauto. Qed.
Lemma kept_trans id k a b c : kept id k a b -> kept id k b c -> kept id k a c.
Proof. intros H1 H2 o Hl Hc. destruct (H1 _ Hl Hc) as (o1 & Hl1 & Hc1). eauto. Qed.

Section TeardownKeeps.
  Variable force : bool.
  Let c : cfg := {| c_flavor := FObjectSet; c_force := force |}.

  Lemma td_obj_kept k w ow p w' evs d :
    teardown_object c idw w ow p = (w', evs, d) -> kept (ow_id ow) k (w_store w) (w_store w').
  Proof.
    intros H o Hl Hc.
    destruct (key_dec k (key_of ow p)) as [->|Hne]; [|rewrite <- (td_obj_frame c _ _ _ _ _ _ k H Hne) in Hl; eauto].
    unfold teardown_object in H. fold (key_of ow p) in H. cbn [c c_flavor flavor_strat] in H.
    destruct (preflight_obj FObjectSet ow false p); [|injection H as <- _ _; eauto].
    unfold api_get at 1 in H. rewrite Hl, Hc in H. cbn [negb] in H.
    destruct (is_owner Native (ow_id ow) o); cbn [negb] in H; [|injection H as <- _ _; eauto].
    unfold idw in H. destruct (api_release_patch w (key_of ow p) (remove_owner_l (ow_id ow) (o_owners o))) as [[w2 [o2|]]|] eqn:Er.
    - injection H as <- _ _. destruct (api_release_spec _ _ _ _ _ Er) as (cur & Hcur & Hl2 & _ & _ & Hown & _).
      exists o2. split; [exact Hl2|]. destruct (is_controller Native (ow_id ow) o2) eqn:E2; [|reflexivity].
      unfold is_controller in E2, Hc. cbn [refs] in E2, Hc. rewrite Hown in E2. apply remove_owner_sub in E2. congruence.
    - injection H as <- _ _. rewrite (api_release_invalid _ _ _ _ Er). eauto.
    - injection H as <- _ _. eauto.
  Qed.

  Lemma td_objs_kept k ow ps : forall w alldone w' evs r,
    teardown_objects c idw w ow ps alldone = (w', evs, r) -> kept (ow_id ow) k (w_store w) (w_store w').
  Proof.
    induction ps as [|p ps IH]; intros w alldone w' evs r H; cbn in H; [injection H as <- _ _; apply kept_refl|].
    destruct (teardown_object c idw w ow p) as [[w1 e1] d] eqn:E1.
    pose proof (td_obj_kept k _ _ _ _ _ _ E1) as H1.
    destruct (teardown_err e1); [injection H as <- _ _; exact H1|].
    destruct (teardown_objects c idw w1 ow ps (alldone && d)) as [[w2 e2] r2] eqn:E2. injection H as <- _ _.
    eapply kept_trans; [exact H1|eapply IH; eauto].
  Qed.

  Lemma tpm_kept k s ow rphs : forall sw sw' evs r,
    teardown_phases_m force sw s ow rphs = (sw', evs, r) -> kept (ow_id ow) k (w_store (sw_w sw)) (w_store (sw_w sw')).
  Proof.
    induction rphs as [|ph rest IH]; intros sw sw' evs r H.
    - cbn in H. injection H as <- _ _. apply kept_refl.
    - rewrite tpm_cons in H. destruct (td_step force sw s ow ph) as [[sw1 e1] r1] eqn:E1.
      assert (H1 : kept (ow_id ow) k (w_store (sw_w sw)) (w_store (sw_w sw1))).
      { unfold td_step in E1. destruct (ph_class ph).
        - destruct (remote_teardown_inv _ _ _ _ _ _ E1) as (-> & _). apply kept_refl.
        - destruct (teardown_phase _ idw (sw_w sw) ow (ph_objects ph)) as [[w1 e'] r'] eqn:Et. injection E1 as <- _ _.
          unfold teardown_phase in Et. exact (td_objs_kept k _ _ _ _ _ _ _ Et). }
      destruct r1 as [|[|]]; try (injection H as <- _ _; exact H1).
      destruct (teardown_phases_m force sw1 s ow rest) as [[sw2 e2] r2] eqn:E2. injection H as <- _ _.
      eapply kept_trans; [exact H1|eapply IH; eauto].
  Qed.

  (** A pass of the ObjectSet controller for an archived or deleted ObjectSet. *)
  Lemma going_pass_kept k sw kind ns n mem sw' evs r :
    find_set (sw_sets sw) kind ns n = Some mem -> (os_deleting mem = true \/ os_life mem = LArchived) ->
    objectset_pass force sw kind ns n = (sw', evs, r) -> kept (os_id mem) k (w_store (sw_w sw)) (w_store (sw_w sw')).
  Proof.
    intros Ef Hg H. destruct (cond_true (os_conds mem) CArchived) eqn:Ea.
    { unfold objectset_pass in H. rewrite Ef, Ea in H. injection H as <- _ _. apply kept_refl. }
    pose proof (objectset_pass_going force _ _ _ _ _ _ _ _ Ef (conj Ea Hg) H) as Hd.
    destruct (deletion_pass_inv force _ _ _ _ _ Hd) as (sw1 & tevs & td & Etd & _ & Hst & _). rewrite Hst.
    unfold teardown_of in Etd. destruct (os_fin mem); [|injection Etd as <- _ _; apply kept_refl].
    destruct (os_orphan mem); [injection Etd as <- _ _; apply kept_refl|].
    exact (tpm_kept k _ _ _ _ _ _ _ Etd).
  Qed.
End TeardownKeeps.

Section Handover.
  Variable hash : N -> option N -> N.
  Variable slices : N -> option (list pobj).

  (** Between the archive decision and the teardown no ObjectSet with the archived revision's kind and name runs an active,
      unpaused pass (the revision itself is archived; this only excludes a re-created ObjectSet of the same name). *)
  Fixpoint quiet_run (id : oid) (w : dworld) (h : list step) : Prop :=
    match h with
    | [] => True
    | s :: t => ~ own_active_pass id w s /\ quiet_run id (do_step hash slices w s) t
    end.

  Lemma run_no_gain id h : forall w, quiet_run id w h -> no_gain id (dstore w) (dstore (run hash slices w h)).
  Proof.
    induction h as [|s t IH]; intros w Hq; [apply no_gain_refl|]. destruct Hq as [Hs Ht].
    eapply no_gain_trans; [exact (step_no_gain hash slices true true id w s Hs)|]. exact (IH _ Ht).
  Qed.

  Lemma next_in_cons_ne n b t : t <> [] -> (sname b =? n) = false -> next_in n (b :: t) = next_in n t.
  Proof. destruct t as [|x t]; [intros H; now elim H|]. intros _ H. cbn. now rewrite H. Qed.

  Lemma next_in_split n L : forall l1 r nx l3, NoDup (map sname L) -> L = l1 ++ r :: nx :: l3 -> sname r = n -> next_in n L = Some nx.
  Proof.
    induction L as [|a L IH]; intros l1 r nx l3 Hnd E Hn; [destruct l1; discriminate|].
    destruct l1 as [|b l1]; cbn in E; injection E as -> ->.
    - cbn. now rewrite Hn, N.eqb_refl.
    - cbn in Hnd. inversion Hnd as [|? ? Hnotin Hnd']; subst.
      assert (Hne : (sname b =? sname r) = false).
      { apply N.eqb_neq. intros Heq. apply Hnotin. rewrite Heq, map_app. apply in_or_app. right. now left. }
      rewrite next_in_cons_ne; [|destruct l1; discriminate|exact Hne]. eapply IH; eauto.
  Qed.

  (** The handover clause, relative to the archive decision. If, when revision [n] is archived,
      (a) no newer listed revision reports Available (the decision rests on controllerOf, not on another revision's report), and
      (b) the stored status.controllerOf of [n] lists every object [n] controls,
      then no later pass of the ObjectSet controller for the archived (or deleted) [n] removes an object that the revision
      listed right after [n] at the time of the decision contains (inline or in its ObjectSlices). *)
  Theorem handover_relative fault stale w w1 evs res n pbp ur r :
    NoDup (map sname (dw_sets w)) ->
    dep_pass hash fault slices stale w = (w1, evs, res) -> In (DUpdate n LArchived pbp ur) evs ->
    find_dset (dw_sets w) n = Some r ->
    (forall s, In s (listed stale w) -> (srev r < srev s)%Z -> is_available s = false) ->
    (forall k, controls (os_id (ds_set r)) w k -> In k (os_ctrlof (ds_set r))) ->
    exists nx, next_in n (listed stale w) = Some nx /\ (srev r < srev nx)%Z /\
      forall h2, quiet_run (os_id (ds_set r)) w1 h2 ->
        let w2 := run hash slices w1 h2 in
        forall f mem k,
          find_set (sw_sets (to_sworld w2)) (set_kind w2) (oi_ns (d_id (dw_dep w2))) n = Some mem -> os_id mem = os_id (ds_set r) ->
          (os_deleting mem = true \/ os_life mem = LArchived) ->
          In k (full_objects slices nx) -> stored w2 k <> None -> stored (do_step hash slices w2 (SSet f n)) k <> None.
  Proof.
    intros Hnd Hp Hi Hfr Hnoav Hcomplete.
    destruct (archive_sound_now _ _ _ _ _ _ _ _ _ _ _ Hnd Hp Hi) as (l1 & r' & l2 & HL & Hn' & Hne & Hsp & Hna & Hcase).
    assert (Hr' : r' = r).
    { assert (Hin' : In r' (dw_sets w)) by (apply (listed_in stale w); rewrite HL; apply in_or_app; right; now left).
      pose proof (find_some _ _ Hfr) as [Hinr Hnr]. apply N.eqb_eq in Hnr.
      eapply NoDup_map_eq; eauto. congruence. }
    subst r'. destruct Hcase as [(s & Hs & Hav & Hlt)|(Hnav & nx & l3 & act & -> & Hlt & Hact & _ & Hdisj)].
    { exfalso. rewrite (Hnoav s) in Hav; [discriminate| |exact Hlt]. rewrite HL. apply in_or_app. right. now right. }
    exists nx. split; [eapply next_in_split; [apply listed_nodup; exact Hnd|exact HL|exact Hn']|]. split; [exact Hlt|].
    intros h2 Hq w2 f mem k Hfm Hid Hg Hk Hex.
    assert (Hact' : act = os_ctrlof (ds_set r)).
    { unfold active_objects in Hact. rewrite Hna in Hact. destruct (_ && _); [discriminate|]. now injection Hact as <-. }
    destruct (stored w2 k) as [o|] eqn:Eo; [|now elim Hex]. clear Hex.
    destruct (is_controller Native (os_id mem) o) eqn:Ec.
    - (* controlled by the archived revision now: it was at the decision, hence reported, hence not an object of nx *)
      exfalso. rewrite Hid in Ec.
      destruct (run_no_gain _ h2 w1 Hq k o Eo Ec) as (o1 & Hl1 & Hc1).
      destruct (dep_pass_frame _ _ _ _ _ _ _ _ _ _ Hp) as (_ & _ & _ & _ & Hst & _).
      unfold dstore in Hl1. rewrite Hst in Hl1.
      apply (Hdisj k); [|exact Hk]. rewrite Hact'. apply Hcomplete. exists o1. split; assumption.
    - cbn [do_step do_step_sh].
      destruct (objectset_pass f (to_sworld w2) (set_kind w2) (oi_ns (d_id (dw_dep w2))) n) as [[sw' evs'] r'] eqn:Ep.
      destruct (going_pass_kept f k _ _ _ _ _ _ _ _ Hfm Hg Ep o Eo Ec) as (o' & Hl' & _).
      unfold stored. cbn [of_sworld dw_w]. rewrite Hl'. discriminate.
  Qed.
End Handover.

(** ** The hypotheses of [handover_relative] as boolean tests on the history *)
Definition own_active_b (id : oid) (w : dworld) (s : step) : bool :=
  match s with
  | SSet _ n =>
      match find_set (sw_sets (to_sworld w)) (set_kind w) (oi_ns (d_id (dw_dep w))) n with
      | Some mem => negb (cond_true (os_conds mem) CArchived) && negb (os_deleting mem) && negb (lifecycle_eqb (os_life mem) LArchived) &&
                    negb (lifecycle_eqb (os_life mem) LPaused) && same_gkn (ctrl_ref (os_id mem)) id
      | None => false
      end
  | _ => false
  end.

Lemma own_active_b_spec id w s : own_active_b id w s = false -> ~ own_active_pass id w s.
Proof.
  destruct s; cbn; try tauto. intros Hb (mem & Hf & (Ha & Hd & Hl) & Hp & Ho). rewrite Hf, Ha, Hd in Hb. cbn in Hb.
  assert (lifecycle_eqb (os_life mem) LArchived = false) as E1 by (destruct (os_life mem); try reflexivity; congruence).
  assert (lifecycle_eqb (os_life mem) LPaused = false) as E2 by (destruct (os_life mem); try reflexivity; congruence).
  rewrite E1, E2 in Hb. cbn in Hb. apply Ho. exact Hb.
Qed.

Section Booleans.
  Variable hash : N -> option N -> N.
  Variable slices : N -> option (list pobj).

  Fixpoint quiet_run_b (id : oid) (w : dworld) (h : list step) : bool :=
    match h with
    | [] => true
    | s :: t => negb (own_active_b id w s) && quiet_run_b id (do_step hash slices w s) t
    end.

  Lemma quiet_run_b_spec id h : forall w, quiet_run_b id w h = true -> quiet_run hash slices id w h.
  Proof.
    induction h as [|s t IH]; intros w H; [exact I|]. cbn in H. apply andb_true_iff in H. destruct H as [H1 H2].
    split; [apply own_active_b_spec; now apply negb_true_iff|now apply IH].
  Qed.

  (** (a) no newer listed revision reports Available *)
  Definition no_newer_available_b (L : list dset) (r : dset) : bool :=
    forallb (fun s => negb (srev r <? srev s)%Z || negb (is_available s)) L.
  Lemma no_newer_available_b_spec L r :
    no_newer_available_b L r = true -> forall s, In s L -> (srev r < srev s)%Z -> is_available s = false.
  Proof.
    unfold no_newer_available_b. rewrite forallb_forall. intros H s Hs Hlt. specialize (H s Hs).
    apply Z.ltb_lt in Hlt. rewrite Hlt in H. cbn in H. now apply negb_true_iff.
  Qed.

  (** (b) status.controllerOf lists every stored object the ObjectSet controls *)
  Definition ctrl_complete_b (w : dworld) (r : dset) : bool :=
    forallb (fun ko => negb (is_controller Native (os_id (ds_set r)) (snd ko)) || existsb (okey_eqb (fst ko)) (os_ctrlof (ds_set r)))
            (w_store (dw_w w)).

  Lemma lookup_in_store k (s : store) o : lookup k s = Some o -> In (k, o) s.
  Proof.
    induction s as [|[k' o'] s IH]; cbn; [discriminate|]. destruct (okey_eqb k k') eqn:E.
    - intros H. injection H as <-. apply okey_eqb_spec in E. subst. now left.
    - intros H. right. now apply IH.
  Qed.

  Lemma ctrl_complete_b_spec w r :
    ctrl_complete_b w r = true -> forall k, controls (os_id (ds_set r)) w k -> In k (os_ctrlof (ds_set r)).
  Proof.
    unfold ctrl_complete_b. rewrite forallb_forall. intros H k (o & Hl & Hc). specialize (H (k, o) (lookup_in_store _ _ _ Hl)).
    cbn [fst snd] in H. rewrite Hc in H. cbn [negb orb] in H. apply existsb_exists in H. destruct H as (x & Hx & E). apply okey_eqb_spec in E. now subst.
  Qed.
End Booleans.

(** The same with the hypotheses as boolean tests. *)
Theorem handover_sound_partial hash slices fault stale w w1 evs res n pbp ur r :
  NoDup (map sname (dw_sets w)) ->
  dep_pass hash fault slices stale w = (w1, evs, res) -> In (DUpdate n LArchived pbp ur) evs ->
  find_dset (dw_sets w) n = Some r ->
  no_newer_available_b (listed stale w) r = true ->
  ctrl_complete_b w r = true ->
  exists nx, next_in n (listed stale w) = Some nx /\ (srev r < srev nx)%Z /\
    forall h2, quiet_run_b hash slices (os_id (ds_set r)) w1 h2 = true ->
      let w2 := run hash slices w1 h2 in
      forall f mem k,
        find_set (sw_sets (to_sworld w2)) (set_kind w2) (oi_ns (d_id (dw_dep w2))) n = Some mem -> os_id mem = os_id (ds_set r) ->
        (os_deleting mem = true \/ os_life mem = LArchived) ->
        In k (full_objects slices nx) -> stored w2 k <> None -> stored (do_step hash slices w2 (SSet f n)) k <> None.
Proof.
  intros Hnd Hp Hi Hf Ha Hc.
  destruct (handover_relative hash slices fault stale w w1 evs res n pbp ur r Hnd Hp Hi Hf
              (no_newer_available_b_spec _ _ Ha) (ctrl_complete_b_spec _ _ Hc)) as (nx & H1 & H2 & H3).
  exists nx. split; [exact H1|]. split; [exact H2|]. intros h2 Hq. apply H3. now apply quiet_run_b_spec.
Qed.

(** The hypotheses are satisfiable: a broken revision 1 ({Widget a}, probe failing) is replaced by revision 2 ({Widget c}, not yet
    available); revision 1 reports controllerOf [a], is paused, confirms, and is archived by the controllerOf rule; its teardown
    (after further passes of revision 2) removes a and leaves c alone. *)
Section Example.
  Definition t_a : list phase := [hw_phase 1 [wit_pobj 2 1]].
  Definition t_c : list phase := [hw_phase 1 [wit_pobj 2 3]].
  Definition ex_history : list step :=
    [SDep false None; SSet false 100; SEdit 2 t_c; SDep false None; SSet false 200; SDep false None; SSet false 100].
  Definition ex_world : dworld := run wit_hash no_slices (hw_world 1 t_a) ex_history.
  Definition ex_after : list step := [SSet false 200; SMember (hw_key 2 3) 2; SSet false 200].

  Example handover_premises_satisfiable :
    exists w1 evs res r,
      NoDup (map sname (dw_sets ex_world)) /\
      dep_pass wit_hash None no_slices false ex_world = (w1, evs, res) /\ In (DUpdate 100 LArchived false WOk) evs /\
      find_dset (dw_sets ex_world) 100 = Some r /\
      no_newer_available_b (listed false ex_world) r = true /\ ctrl_complete_b ex_world r = true /\
      quiet_run_b wit_hash no_slices (os_id (ds_set r)) w1 ex_after = true /\
      (* the teardown that follows does remove an object, and not the one revision 2 lists *)
      stored (run wit_hash no_slices w1 ex_after) (hw_key 2 1) <> None /\
      stored (do_step wit_hash no_slices (run wit_hash no_slices w1 ex_after) (SSet false 100)) (hw_key 2 1) = None /\
      stored (do_step wit_hash no_slices (run wit_hash no_slices w1 ex_after) (SSet false 100)) (hw_key 2 3) <> None.
  Proof.
    destruct (dep_pass wit_hash None no_slices false ex_world) as [[w1 evs] res] eqn:Ep.
    exists w1, evs, res, (nth 0 (dw_sets ex_world) wit_old).
    assert (Ew : w1 = fst (fst (dep_pass wit_hash None no_slices false ex_world))) by now rewrite Ep.
    assert (Ee : evs = snd (fst (dep_pass wit_hash None no_slices false ex_world))) by now rewrite Ep.
    split. { vm_compute. repeat constructor; cbn; intuition discriminate. }
    split; [reflexivity|]. subst w1 evs. clear Ep.
    split; [vm_compute; auto 6|]. split; [reflexivity|]. split; [reflexivity|]. split; [reflexivity|]. split; [reflexivity|].
    split; [vm_compute; intros H; discriminate H|]. split; [reflexivity|]. vm_compute; intros H; discriminate H.
  Qed.
End Example.

(** * Part 4: the invariant behind status.controllerOf of a paused revision *)
(** ** What a deployment pass does to the status and the lifecycle state of the ObjectSets *)
Definition sstat (x : dset) := (os_id (ds_set x), sconds x, os_ctrlof (ds_set x), srev x, os_phases (ds_set x), os_prev (ds_set x)).

Section StatusFrame.
  Variable fault : option (nat * bool).

  (** Every ObjectSet after the requests is a new one (empty status) or an old one with its status, whose lifecycle state is
      the old one or the one of an Update sent in between. *)
  Definition sfr (st0 st : pst) (es : list dev) : Prop :=
    p_evs st = p_evs st0 ++ es /\
    forall x', In x' (sets_of st) ->
      (exists x, In x (sets_of st0) /\ sstat x' = sstat x /\
                 (slife x' = slife x \/ exists pbp r, In (DUpdate (sname x') (slife x') pbp r) es)) \/
      (sconds x' = [] /\ os_ctrlof (ds_set x') = []).

  Lemma sstat_name x y : sstat x = sstat y -> sname x = sname y.
  Proof. unfold sstat, sname. intros H. injection H as H _. now rewrite H. Qed.

  Lemma sfr_same st st' es : p_w st' = p_w st -> p_evs st' = p_evs st ++ es -> sfr st st' es.
  Proof. intros Hw He. split; [exact He|]. unfold sets_of. rewrite Hw. intros x' Hx. left. exists x'. auto. Qed.

  Lemma sfr_trans a b c e1 e2 : sfr a b e1 -> sfr b c e2 -> sfr a c (e1 ++ e2).
  Proof.
    intros [E1 F1] [E2 F2]. split; [rewrite E2, E1; now rewrite app_assoc|].
    intros x'' Hx. destruct (F2 x'' Hx) as [(x' & Hx' & S2 & L2)|Hnew]; [|now right].
    destruct (F1 x' Hx') as [(x & Hx0 & S1 & L1)|[Hc Hk]].
    - left. exists x. split; [exact Hx0|]. split; [congruence|].
      destruct L2 as [L2|(pbp & r & Hi)]; [|right; exists pbp, r; apply in_or_app; now right].
      destruct L1 as [L1|(pbp & r & Hi)]; [left; congruence|]. right. exists pbp, r. apply in_or_app. left.
      rewrite (sstat_name _ _ S2), L2. exact Hi.
    - right. unfold sstat in S2. injection S2 as _ Hc2 Hk2 _ _ _. split; congruence.
  Qed.

  Lemma sfr_upd st s life pbp : exists es, sfr st (fst (upd_req fault st s life pbp)) es.
  Proof.
    unfold upd_req. destruct (p_dead st); [exists []; apply sfr_same; [reflexivity|now rewrite app_nil_r]|].
    assert (Hgo : forall lost : bool,
              match find_dset (dw_sets (p_w st)) (sname s) with
              | None => exists es, sfr st (emit st (p_w st) [DUpdate (sname s) life pbp WNotFound] true) es
              | Some cur =>
                  exists es, sfr st (fst (if negb (os_rv (ds_set cur) =? os_rv (ds_set s))
                                         then (emit st (p_w st) [DUpdate (sname s) life pbp WConflict] true, s)
                                         else (emit st (with_sets (p_w st) (put_dset (dw_sets (p_w st)) (set_life cur life pbp (w_rv (dw_w (p_w st))))) (bump_rv (dw_w (p_w st))))
                                                    [DUpdate (sname s) life pbp (if lost then WLost else WOk)] lost,
                                               set_life cur life pbp (w_rv (dw_w (p_w st)))))) es
              end).
    { intros lost. destruct (find_dset (dw_sets (p_w st)) (sname s)) as [cur|] eqn:Ef.
      - destruct (negb _); cbn [fst]; [eexists; apply sfr_same; reflexivity|].
        eexists. split; [reflexivity|]. unfold sets_of. cbn [emit p_w with_sets dw_sets]. intros x' Hx.
        pose proof (find_dset_some _ _ _ Ef) as [Hcin Hcn].
        apply in_put_dset in Hx. destruct Hx as [->|Hx]; [|left; exists x'; auto].
        left. exists cur. split; [exact Hcin|]. split; [reflexivity|]. right. exists pbp, (if lost then WLost else WOk).
        left. change (sname (set_life cur life pbp (w_rv (dw_w (p_w st))))) with (sname cur). now rewrite Hcn.
      - eexists. apply sfr_same; reflexivity. }
    destruct (fault_now fault st).
    - specialize (Hgo false). destruct (find_dset _ _); [destruct (negb _)|]; exact Hgo.
    - eexists. apply sfr_same; reflexivity.
    - specialize (Hgo true). destruct (find_dset _ _); [destruct (negb _)|]; exact Hgo.
  Qed.

  Lemma sfr_del st n : exists es, sfr st (del_req fault st n) es.
  Proof.
    unfold del_req. destruct (p_dead st); [exists []; apply sfr_same; [reflexivity|now rewrite app_nil_r]|].
    assert (Hgo : forall lost : bool, exists es,
              sfr st (match find_dset (dw_sets (p_w st)) n with
                      | None => emit st (p_w st) [DDelete n DlNotFound] false
                      | Some s =>
                          emit st (if os_fin (ds_set s) || os_orphan (ds_set s)
                                   then if os_deleting (ds_set s) then p_w st
                                        else with_sets (p_w st) (put_dset (dw_sets (p_w st)) (set_deleting s (w_rv (dw_w (p_w st))))) (bump_rv (dw_w (p_w st)))
                                   else with_sets (p_w st) (del_dset (dw_sets (p_w st)) n) (dw_w (p_w st)))
                               [DDelete n (if lost then DlLost else DlOk)] lost
                      end) es).
    { intros lost. destruct (find_dset (dw_sets (p_w st)) n) as [s|] eqn:Ef; [|eexists; apply sfr_same; reflexivity].
      pose proof (find_dset_some _ _ _ Ef) as [Hsin Hsn].
      destruct (os_fin (ds_set s) || os_orphan (ds_set s)).
      - destruct (os_deleting (ds_set s)); [eexists; apply sfr_same; reflexivity|].
        eexists. split; [reflexivity|]. unfold sets_of. cbn [emit p_w with_sets dw_sets]. intros x' Hx.
        apply in_put_dset in Hx. destruct Hx as [->|Hx]; [|left; exists x'; auto].
        left. exists s. split; [exact Hsin|]. split; [reflexivity|now left].
      - eexists. split; [reflexivity|]. unfold sets_of. cbn [emit p_w with_sets dw_sets]. intros x' Hx.
        apply in_del_dset in Hx. left. exists x'. tauto. }
    destruct (fault_now fault st); [apply (Hgo false)|eexists; apply sfr_same; reflexivity|apply (Hgo true)].
  Qed.

  Lemma sfr_create st d prev : exists es, sfr st (fst (create_req fault st (new_set d prev))) es.
  Proof.
    unfold create_req. destruct (p_dead st); [exists []; apply sfr_same; [reflexivity|now rewrite app_nil_r]|].
    set (s := new_set d prev).
    destruct (fault_now fault st); cbn [fst].
    - destruct (find_dset (dw_sets (p_w st)) (sname s)); cbn [fst]; [eexists; apply sfr_same; reflexivity|].
      eexists. split; [reflexivity|]. unfold sets_of. cbn [emit p_w with_fresh with_sets dw_sets]. intros x' Hx.
      apply in_app_or in Hx. destruct Hx as [Hx|[<-|[]]]; [left; exists x'; auto|right]. split; reflexivity.
    - eexists. apply sfr_same; reflexivity.
    - destruct (find_dset (dw_sets (p_w st)) (sname s)); cbn [fst]; [eexists; apply sfr_same; reflexivity|].
      eexists. split; [reflexivity|]. unfold sets_of. cbn [emit p_w with_fresh with_sets dw_sets]. intros x' Hx.
      apply in_app_or in Hx. destruct Hx as [Hx|[<-|[]]]; [left; exists x'; auto|right]. split; reflexivity.
  Qed.

  Lemma sfr_status st d : exists es, sfr st (status_req fault st d) es.
  Proof.
    unfold status_req. destruct (p_dead st); [exists []; apply sfr_same; [reflexivity|now rewrite app_nil_r]|].
    destruct (fault_now fault st).
    - destruct (status_eqb_d (dw_dep (p_w st)) d); [eexists; apply sfr_same; reflexivity|].
      eexists. split; [reflexivity|]. unfold sets_of. cbn. intros x' Hx. left. exists x'. auto.
    - eexists. apply sfr_same; reflexivity.
    - destruct (status_eqb_d (dw_dep (p_w st)) d); [eexists; apply sfr_same; reflexivity|].
      eexists. split; [reflexivity|]. unfold sets_of. cbn. intros x' Hx. left. exists x'. auto.
  Qed.

  Lemma reach_sfr st0 st : reach fault st0 st -> exists es, sfr st0 st es.
  Proof.
    induction 1 as [|st H (es & IH)|st b H (es & IH)|st s life pbp H (es & IH)|st n H (es & IH)|st d prev H (es & IH)|st d H (es & IH)].
    - exists []. apply sfr_same; [reflexivity|now rewrite app_nil_r].
    - exists (es ++ []). eapply sfr_trans; [exact IH|]. apply sfr_same; [apply read_req_w|now rewrite read_req_evs, app_nil_r].
    - exists (es ++ []). eapply sfr_trans; [exact IH|]. apply sfr_same; [apply get_req_w|now rewrite get_req_evs, app_nil_r].
    - destruct (sfr_upd st s life pbp) as (e2 & F). exists (es ++ e2). eapply sfr_trans; eauto.
    - destruct (sfr_del st n) as (e2 & F). exists (es ++ e2). eapply sfr_trans; eauto.
    - destruct (sfr_create st d prev) as (e2 & F). exists (es ++ e2). eapply sfr_trans; eauto.
    - destruct (sfr_status st d) as (e2 & F). exists (es ++ e2). eapply sfr_trans; eauto.
  Qed.
End StatusFrame.

Section PassStatus.
  Variable hash : N -> option N -> N.
  Variable fault : option (nat * bool).
  Variable slices : N -> option (list pobj).
  Variable sliceaware rev0ok : bool.

  Theorem dep_pass_status stale w w' evs r :
    dep_pass_sh hash fault slices sliceaware rev0ok stale w = (w', evs, r) ->
    forall x', In x' (dw_sets w') ->
      (exists x, In x (dw_sets w) /\ sstat x' = sstat x /\
                 (slife x' = slife x \/ exists pbp ur, In (DUpdate (sname x') (slife x') pbp ur) evs)) \/
      (sconds x' = [] /\ os_ctrlof (ds_set x') = []).
  Proof.
    intros Hp. destruct (dep_pass_unfold _ _ _ _ _ _ _ _ _ _ Hp) as (st3 & d2 & -> & -> & _ & Hc).
    assert (Hr : reach fault (st_init w) (status_req fault st3 d2)).
    { constructor. assert (H0 : reach fault (st_init w) (st_listed fault w)) by (unfold st_listed; repeat constructor).
      destruct Hc as [(_ & -> & _)|(_ & stp & mem & Epl & Hc)]; [assumption|].
      pose proof (pause_loop_reach _ _ _ _ _ _ _ H0 Epl) as H1.
      destruct Hc as [(_ & -> & _)|(_ & sta & d3 & mem' & Enr & Ear & _)]; [assumption|].
      eapply archive_reach; [|exact Ear]. eapply new_revision_reach; eauto. }
    destruct (reach_sfr fault _ _ Hr) as (es & He & F). cbn [st_init p_evs app] in He. subst es.
    unfold sets_of in F. cbn [st_init p_w with_fresh dw_sets] in *. exact F.
  Qed.
End PassStatus.

(** ** What a pass of the ObjectSet controller leaves in the stored status of its ObjectSet *)
Section OwnPass.
  Variable force : bool.
  Variable sw0 : sworld.
  Variables k ns n : N.
  Variable mem0 : oset.
  Hypothesis Hf0 : find_set (sw_sets sw0) k ns n = Some mem0.
  Hypothesis Hnd0 : NoDup (map (fun y => oi_name (os_id y)) (sw_sets sw0)).

  Definition pf (cs : list cond) : bool := cond_true cs CPaused.
  Definition same_frame (m : oset) : Prop :=
    os_id m = os_id mem0 /\ os_life m = os_life mem0 /\ os_phases m = os_phases mem0 /\ os_prev m = os_prev mem0.
  (** Paused=True is only ever newly written for a paused spec. *)
  Definition pfok (m : oset) : Prop := pf (os_conds m) = true -> pf (os_conds mem0) = true \/ os_life mem0 = LPaused.

  (** [S3]: "the status computed after the phase loop of this pass" (instantiated below). *)
  Variable S3 : oset -> Prop.
  Hypothesis S3_ext : forall a b, os_ctrlof a = os_ctrlof b -> os_revision a = os_revision b -> S3 a -> S3 b.

  Definition S1 (m : oset) : Prop :=
    os_ctrlof m = os_ctrlof mem0 /\ pf (os_conds m) = pf (os_conds mem0) /\ (os_revision m = os_revision mem0 \/ os_revision m <> 0%Z).
  Definition S2 (m : oset) : Prop :=
    os_ctrlof m = os_ctrlof mem0 /\ os_revision m = 0%Z /\ os_revision mem0 = 0%Z /\ os_prev mem0 <> [].
  Definition S4 (m : oset) : Prop := os_ctrlof m = [].
  Definition stat_ok (m : oset) : Prop := pfok m /\ (S1 m \/ S2 m \/ S4 m \/ S3 m).
  Definition Pst (m : oset) : Prop := same_frame m /\ stat_ok m.
  (** every ObjectSet is an old one or the rewritten target *)
  Definition OT (sw : sworld) : Prop := forall y, In y (sw_sets sw) -> In y (sw_sets sw0) \/ Pst y.
  (** the in-memory copy: status as read, except for a revision just computed *)
  Definition IM (m : oset) : Prop :=
    same_frame m /\ os_ctrlof m = os_ctrlof mem0 /\ os_conds m = os_conds mem0 /\ (os_revision m = os_revision mem0 \/ os_revision m <> 0%Z).

  Lemma stat_ok_ext a b :
    os_ctrlof a = os_ctrlof b -> os_conds a = os_conds b -> os_revision a = os_revision b -> stat_ok a -> stat_ok b.
  Proof.
    intros E1 E2 E3 [Hp H]. split; [unfold pfok in *; now rewrite <- E2|].
    destruct H as [(A & B & C)|[(A & B & C & D)|[A|H]]].
    - left. unfold S1. now rewrite <- E1, <- E2, <- E3.
    - right; left. unfold S2. now rewrite <- E1, <- E3.
    - right; right; left. unfold S4. now rewrite <- E1.
    - right; right; right. eapply S3_ext; eauto.
  Qed.

  Lemma mem0_key : oi_kind (os_id mem0) = k /\ oi_ns (os_id mem0) = ns /\ oi_name (os_id mem0) = n.
  Proof. eapply find_set_id; eauto. Qed.

  Lemma Pst_mem0 : Pst mem0.
  Proof. split; [repeat split|]. split; [intros H; now left|]. left. repeat split. now left. Qed.

  Lemma IM_mem0 : IM mem0.
  Proof. repeat split. now left. Qed.

  Lemma IM_stat m : IM m -> stat_ok m.
  Proof. intros (_ & A & B & C). split; [intros H; left; unfold pf in *; now rewrite <- B|]. left. split; [exact A|]. split; [now rewrite B|exact C]. Qed.

  Lemma OT_init : OT sw0.
  Proof. intros y Hy. now left. Qed.

  (** The stored ObjectSet found under the target's key satisfies [Pst]. *)
  Lemma stored_Pst sw m st :
    OT sw -> os_id m = os_id mem0 ->
    find_set (sw_sets sw) (oi_kind (os_id m)) (oi_ns (os_id m)) (oi_name (os_id m)) = Some st -> Pst st.
  Proof.
    intros Ho Hid Hf. pose proof (find_set_in _ _ _ _ _ Hf) as Hin. destruct (Ho _ Hin) as [Hold|HP]; [|exact HP].
    destruct (find_set_id _ _ _ _ _ Hf) as (_ & _ & Hn). rewrite Hid in Hn.
    assert (st = mem0); [|subst; apply Pst_mem0].
    apply (NoDup_map_eq (fun y => oi_name (os_id y)) (sw_sets sw0)); auto. eapply find_set_in; eauto.
  Qed.

  Lemma upd_OT sw m sw' m' ok :
    OT sw -> same_frame m -> stat_ok m -> update_status sw m = (sw', m', ok) ->
    OT sw' /\ same_frame m' /\ os_ctrlof m' = os_ctrlof m /\ os_conds m' = os_conds m /\ os_revision m' = os_revision m /\
    os_remotes m' = os_remotes m.
  Proof.
    intros Ho Hfr Hs Hu. destruct (update_status_shape _ _ _ _ _ Hu) as [[-> ->]|(stored & Hfs & _ & _ & -> & -> & _)]; [auto 7|].
    destruct Hfr as (Hid & Hl & Hp & Hv).
    destruct (stored_Pst _ _ _ Ho Hid Hfs) as [(Sid & Sl & Sp & Sv) _].
    assert (HP : Pst (with_status stored m (w_rv (sw_w sw)))).
    { split; [repeat split; cbn; assumption|]. eapply stat_ok_ext; [| | |exact Hs]; reflexivity. }
    split; [|split; [repeat split; cbn; assumption|repeat split]].
    intros y Hy. cbn [sw_sets] in Hy. apply in_put_set in Hy. destruct Hy as [->|Hy]; [now right|now apply Ho].
  Qed.

  Lemma patch_OT sw m fin sw' r :
    OT sw -> os_id m = os_id mem0 -> patch_finalizer sw m fin = (sw', r) ->
    OT sw' /\ forall m', r = Some m' -> Pst m'.
  Proof.
    intros Ho Hid. unfold patch_finalizer.
    destruct (find_set (sw_sets sw) _ _ _) as [stored|] eqn:Hfs; [|intros H; injection H as <- <-; split; [exact Ho|discriminate]].
    destruct (negb _); [intros H; injection H as <- <-; split; [exact Ho|discriminate]|].
    pose proof (stored_Pst _ _ _ Ho Hid Hfs) as [(Sid & Sl & Sp & Sv) Hst].
    assert (HP : Pst (set_fin stored fin (w_rv (sw_w sw)))).
    { split; [repeat split; cbn; assumption|]. eapply stat_ok_ext; [| | |exact Hst]; reflexivity. }
    destruct (negb fin && os_deleting stored && negb (os_orphan stored)); intros H; injection H as <- <-.
    - split; [|intros m' E; now injection E as <-]. intros y Hy. cbn [sw_sets] in Hy. apply in_del_set in Hy. now apply Ho.
    - split; [|intros m' E; now injection E as <-]. intros y Hy. cbn [sw_sets] in Hy. apply in_put_set in Hy.
      destruct Hy as [->|Hy]; [now right|now apply Ho].
  Qed.

  Lemma OT_sets sw sw' : sw_sets sw' = sw_sets sw -> OT sw -> OT sw'.
  Proof. intros E H y Hy. rewrite E in Hy. now apply H. Qed.

  Lemma paused_cond_true phs m : pf (paused_cond phs m) = true -> os_life m = LPaused.
  Proof.
    unfold paused_cond, pf.
    destruct (match os_remotes m with [] => _ | _ => _ end) as [pp un].
    destruct (un || _ || _).
    - unfold cond_true. rewrite (find_set_cond_same _ (mk_cond m CPaused SUnknown RPartiallyPaused)). cbn. discriminate.
    - destruct (lifecycle_eqb (os_life m) LPaused) eqn:E; [intros _; destruct (os_life m); try discriminate; reflexivity|].
      unfold cond_true. rewrite find_remove_cond_same. discriminate.
  Qed.

  Lemma pf_set_other cs c : cd_type c <> CPaused -> pf (set_cond cs c) = pf cs.
  Proof. intros H. unfold pf, cond_true. now rewrite find_set_cond_other. Qed.
  Lemma pf_remove_other cs t : t <> CPaused -> pf (remove_cond cs t) = pf cs.
  Proof. intros H. unfold pf, cond_true. now rewrite find_remove_cond_other. Qed.

  Lemma scan_prev_ge' sets s names : forall latest x, scan_prev sets s names latest = Some (Some x) -> (latest <= x)%Z.
  Proof.
    induction names as [|a l IH]; intros latest x; cbn.
    - intros H. injection H as <-. lia.
    - destruct (find_set sets _ _ a) as [p|]; [|discriminate]. destruct (Z.eqb (os_revision p) 0); [discriminate|].
      intros H. apply IH in H. lia.
  Qed.

  (** revision reconciler *)
  Lemma revision_OT sw mem sw1 evs1 mem1 rr :
    OT sw -> IM mem -> revision_pass sw mem = (sw1, evs1, mem1, rr) ->
    OT sw1 /\ IM mem1 /\
    (rr = RevGo -> os_revision mem1 <> 0%Z) /\
    (rr = RevRequeue -> os_revision mem1 = 0%Z /\ os_revision mem0 = 0%Z /\ os_prev mem0 <> []).
  Proof.
    intros Ho Him. unfold revision_pass.
    destruct (negb (Z.eqb (os_revision mem) 0)) eqn:E0.
    { intros H. injection H as <- _ <- <-. apply negb_true_iff, Z.eqb_neq in E0.
      split; [exact Ho|]. split; [exact Him|]. split; [intros _; exact E0|discriminate]. }
    apply negb_false_iff, Z.eqb_eq in E0.
    pose proof Him as Him'. destruct Him as (Hfr & Hc & Hcs & Hrv). assert (Hr0 : os_revision mem0 = 0%Z) by (destruct Hrv; congruence).
    destruct (os_prev mem) eqn:Epv.
    { intros H. injection H as <- _ <- <-. split; [exact Ho|]. split; [|split; [intros _; cbn; discriminate|discriminate]].
      split; [exact Hfr|]. split; [exact Hc|]. split; [exact Hcs|]. right. cbn. discriminate. }
    assert (Hpv0 : os_prev mem0 <> []) by (destruct Hfr as (_ & _ & _ & Hv); rewrite <- Hv, Epv; discriminate).
    destruct (scan_prev (sw_sets sw) mem (n0 :: l) 0) as [[latest|]|] eqn:Es.
    - destruct (update_status sw (set_revision mem (latest + 1))) as [[sw2 m2] ok] eqn:Eu.
      assert (Hl : (latest + 1 <> 0)%Z) by (apply scan_prev_ge' in Es; lia).
      assert (Hst1 : stat_ok (set_revision mem (latest + 1))).
      { apply IM_stat. split; [exact Hfr|]. split; [exact Hc|]. split; [exact Hcs|]. right. exact Hl. }
      destruct (upd_OT sw (set_revision mem (latest + 1)) sw2 m2 ok Ho Hfr Hst1 Eu) as (Ho2 & Hfr2 & A & B & C & _).
      intros H. injection H as <- _ <- <-. split; [exact Ho2|]. split.
      + split; [exact Hfr2|]. split; [now rewrite A|]. split; [now rewrite B|]. right. now rewrite C.
      + split; [intros _; now rewrite C|]. destruct ok; discriminate.
    - intros H. injection H as <- _ <- <-. split; [exact Ho|]. split; [exact Him'|]. split; [discriminate|]. intros _. auto.
    - intros H. injection H as <- _ <- <-. split; [exact Ho|]. split; [exact Him'|]. split; discriminate.
  Qed.

  (** the status computed after the phase loop *)
  Hypothesis S3_final : forall mem1 sw1 sw2 pevs rem ctrlof failed,
    IM mem1 -> os_revision mem1 <> 0%Z -> w_store (sw_w sw1) = w_store (sw_w sw0) ->
    dup_count [] (map (spec_key mem1) (all_objects mem1)) = O ->
    reconcile_phases_m force sw1 mem1 (as_owner mem1) (lookup_prev (sw_sets sw1) mem1) (os_phases mem1) [] (os_remotes mem1)
      = (sw2, pevs, rem, MOk ctrlof failed) ->
    forall m, os_ctrlof m = ctrlof -> os_revision m = os_revision mem1 -> S3 m.

  Lemma final_status_fields phs m ctrlof failed :
    os_ctrlof (final_status phs m ctrlof failed) = ctrlof /\ os_revision (final_status phs m ctrlof failed) = os_revision m /\
    os_id (final_status phs m ctrlof failed) = os_id m /\ os_life (final_status phs m ctrlof failed) = os_life m /\
    os_phases (final_status phs m ctrlof failed) = os_phases m /\ os_prev (final_status phs m ctrlof failed) = os_prev m /\
    (pf (os_conds (final_status phs m ctrlof failed)) = true -> os_life m = LPaused).
  Proof.
    unfold final_status. cbv zeta. repeat (split; [reflexivity|]). cbn [os_conds set_conds]. intros H. apply paused_cond_true in H. exact H.
  Qed.

  Definition STO (sw : sworld) : Prop := w_store (sw_w sw) = w_store (sw_w sw0).

  (** the body of an active pass *)
  Lemma active_body_OT sw evs0 mem sw' evs r :
    OT sw -> STO sw -> IM mem -> active_body force sw evs0 mem = (sw', evs, r) -> OT sw'.
  Proof.
    intros Ho Hs Him. unfold active_body.
    destruct (revision_pass sw mem) as [[[sw1 evs1] mem1] rr] eqn:Erev.
    destruct (revision_OT _ _ _ _ _ _ Ho Him Erev) as (Ho1 & Him1 & Hgo & Hrq).
    assert (Hs1 : STO sw1).
    { unfold STO in *. rewrite <- Hs. unfold revision_pass in Erev.
      destruct (negb _); [now injection Erev as <- _ _ _|]. destruct (os_prev mem); [now injection Erev as <- _ _ _|].
      destruct (scan_prev _ _ _ _) as [[latest|]|]; try (now injection Erev as <- _ _ _).
      destruct (update_status sw _) as [[sw2 m2] ok] eqn:Eu. injection Erev as <- _ _ _. now destruct (update_status_store _ _ _ _ _ Eu). }
    destruct Him1 as (Hfr1 & Hc1 & Hcs1 & Hrv1).
    (* a status with only Available rewritten *)
    assert (Hfail : forall (mx : oset) swx evsx rs swf evsf rf, OT swx -> same_frame mx -> os_ctrlof mx = os_ctrlof mem0 ->
              os_conds mx = os_conds mem0 -> (os_revision mx = os_revision mem0 \/ os_revision mx <> 0%Z) ->
              (let m' := set_conds mx (set_cond (os_conds mx) (mk_cond mx CAvailable SFalse rs)) in
               let '(sw'', _, ok) := update_status swx m' in
               (sw'', evsx ++ [status_ev m' ok], if ok then SDone true else SError)) = (swf, evsf, rf) -> OT swf).
    { intros mx swx evsx rs swf evsf rf Hox Hfx Hcx Hcsx Hrx. cbv zeta.
      destruct (update_status swx _) as [[sw3 m3] ok] eqn:Eu. intros H. injection H as <- _ _.
      refine (proj1 (upd_OT _ _ _ _ _ Hox _ _ Eu)); [exact Hfx|].
      split; [intros Hp; left; cbn [os_conds set_conds] in Hp; rewrite pf_set_other in Hp by (cbn; discriminate); now rewrite <- Hcsx|].
      left. split; [exact Hcx|]. split; [|exact Hrx]. cbn [os_conds set_conds]. rewrite pf_set_other by (cbn; discriminate). now rewrite Hcsx. }
    destruct rr.
    - (* RevGo *)
      destruct (Nat.ltb 0 (dup_count [] (map (spec_key mem1) (all_objects mem1)))) eqn:Edup.
      + intros H. eapply (Hfail mem1); eauto.
      + apply Nat.ltb_ge in Edup. assert (Hdup : dup_count [] (map (spec_key mem1) (all_objects mem1)) = O) by lia.
        destruct (reconcile_phases_m force sw1 mem1 (as_owner mem1) _ _ [] (os_remotes mem1)) as [[[sw2 pevs] rem] pr] eqn:Erp.
        destruct (rpm_inv force _ _ _ _ _ _ _ _ _ _ _ Erp) as (Hsets & _).
        pose proof (OT_sets _ _ Hsets Ho1) as Ho2.
        assert (Hfr2 : same_frame (set_remotes mem1 rem)) by exact Hfr1.
        destruct pr as [e| | |ctrlof failed].
        * destruct e; intros H; try (injection H as <- _ _; exact Ho2); eapply (Hfail (set_remotes mem1 rem)); eauto.
        * intros H. injection H as <- _ _. exact Ho2.
        * intros H. eapply (Hfail (set_remotes mem1 rem)); eauto.
        * destruct (update_status sw2 (final_status (sw_phases sw2) (set_remotes mem1 rem) ctrlof failed)) as [[sw3 m3] ok] eqn:Eu.
          intros H. injection H as <- _ _.
          destruct (final_status_fields (sw_phases sw2) (set_remotes mem1 rem) ctrlof failed) as (F1 & F2 & F3 & F4 & F5 & F6 & F7).
          refine (proj1 (upd_OT _ _ _ _ _ Ho2 _ _ Eu)).
          -- destruct Hfr2 as (A & B & C & D). repeat split; congruence.
          -- split; [intros Hp; right; rewrite <- (proj1 (proj2 Hfr1)); now apply F7|].
             right; right; right.
             assert (Him1' : IM mem1) by exact (conj Hfr1 (conj Hc1 (conj Hcs1 Hrv1))).
             assert (Hr1 : os_revision mem1 <> 0%Z) by now apply Hgo.
             eapply (S3_final mem1 sw1 sw2 pevs rem ctrlof failed); eauto.
    - (* RevRequeue *)
      destruct (Hrq eq_refl) as (R1 & R0 & Rp).
      destruct (update_status sw1 (set_conds mem1 (paused_cond (sw_phases sw1) mem1))) as [[sw2 m2] ok] eqn:Eu.
      intros H. injection H as <- _ _.
      refine (proj1 (upd_OT _ _ _ _ _ Ho1 _ _ Eu)); [exact Hfr1|].
      split; [intros Hp; right; cbn [os_conds set_conds] in Hp; apply paused_cond_true in Hp; now rewrite <- (proj1 (proj2 Hfr1))|].
      right; left. repeat split; assumption.
    - intros H. injection H as <- _ _. exact Ho1.
  Qed.

  Lemma Pst_IM_like m : Pst m -> same_frame m /\ stat_ok m.
  Proof. auto. Qed.

  (** EnsureCachedFinalizer + body. The in-memory copy is the stored ObjectSet. *)
  Lemma active_pass_OT sw' evs r : active_pass force sw0 mem0 = (sw', evs, r) -> OT sw'.
  Proof.
    unfold active_pass. destruct (os_fin mem0).
    - apply (active_body_OT sw0 [] mem0); [apply OT_init|reflexivity|apply IM_mem0].
    - destruct (patch_finalizer sw0 mem0 true) as [sw1 [m|]] eqn:Ep.
      + intros H. destruct (patch_finalizer_store _ _ _ _ _ Ep) as (Hst & _).
        destruct mem0_key as (K1 & K2 & K3).
        assert (Hf0' : find_set (sw_sets sw0) (oi_kind (os_id mem0)) (oi_ns (os_id mem0)) (oi_name (os_id mem0)) = Some mem0) by now rewrite K1, K2, K3.
        assert (Em : m = set_fin mem0 true (w_rv (sw_w sw0))).
        { unfold patch_finalizer in Ep. rewrite Hf0', N.eqb_refl in Ep. cbn in Ep. now injection Ep as _ <-. }
        eapply (active_body_OT sw1 _ m); [exact (proj1 (patch_OT _ _ _ _ _ OT_init eq_refl Ep))|exact Hst| |exact H].
        subst m. repeat split. now left.
      + intros H. injection H as <- _ _. exact (proj1 (patch_OT _ _ _ _ _ OT_init eq_refl Ep)).
  Qed.

  (** handleDeletionAndArchival *)
  Lemma deletion_pass_OT sw' evs r : deletion_pass force sw0 mem0 = (sw', evs, r) -> OT sw'.
  Proof.
    unfold deletion_pass.
    change (if os_fin mem0 then if os_orphan mem0 then (sw0, [], TdOk true)
            else teardown_phases_m force sw0 mem0 (as_owner mem0) (rev (os_phases mem0))
            else (sw0, [], TdOk true)) with (teardown_of force sw0 mem0).
    destruct (teardown_of force sw0 mem0) as [[sw1 tevs] td] eqn:Etd.
    pose proof (teardown_of_sets force _ _ _ _ _ Etd) as Hsets.
    pose proof (OT_sets _ _ Hsets OT_init) as Ho1.
    set (archived := lifecycle_eqb (os_life mem0) LArchived).
    (* the status written at the end: Available removed, possibly Archived set, controllerOf kept or emptied *)
    assert (Hfin : forall swx evsx (mx : oset) swf evsf rf, OT swx -> same_frame mx -> (archived = true -> pfok mx) ->
              (archived = true -> os_ctrlof mx = [] \/ (os_ctrlof mx = os_ctrlof mem0 /\ pf (os_conds mx) = pf (os_conds mem0) /\ os_revision mx = os_revision mem0)) ->
              (if negb archived then (swx, evsx, SDone false)
               else let '(sw'', _, ok) := update_status swx (set_conds mx (remove_cond (os_conds mx) CAvailable)) in
                    (sw'', evsx ++ [status_ev (set_conds mx (remove_cond (os_conds mx) CAvailable)) ok], if ok then SDone false else SError))
              = (swf, evsf, rf) -> OT swf).
    { intros swx evsx mx swf evsf rf Hox Hfx Hpx Hcx. destruct archived; cbn [negb]; [|intros H; now injection H as <- _ _].
      specialize (Hpx eq_refl). specialize (Hcx eq_refl).
      destruct (update_status swx _) as [[sw3 m3] ok] eqn:Eu. intros H. injection H as <- _ _.
      refine (proj1 (upd_OT _ _ _ _ _ Hox _ _ Eu)); [exact Hfx|].
      split; [intros Hp; apply Hpx; cbn [os_conds set_conds] in Hp; now rewrite pf_remove_other in Hp by discriminate|].
      destruct Hcx as [Hc|(Hc & Hp & Hr)]; [right; right; left; exact Hc|].
      left. split; [exact Hc|]. split; [cbn [os_conds set_conds]; now rewrite pf_remove_other by discriminate|now left]. }
    assert (Hpf0 : pfok mem0) by (intros H; now left).
    destruct td as [|[|]].
    - intros H. injection H as <- _ _. exact Ho1.
    - destruct (os_fin mem0).
      + destruct (patch_finalizer sw1 mem0 false) as [sw2 [mem2|]] eqn:Ep.
        * destruct (patch_OT _ _ _ _ _ Ho1 eq_refl Ep) as [Ho2 HP]. destruct (HP mem2 eq_refl) as [Hfr2 [Hpf2 _]].
          intros H. refine (Hfin sw2 _ (if archived then _ else mem2) _ _ _ Ho2 _ _ _ H); destruct archived eqn:Ea.
          -- exact Hfr2.
          -- exact Hfr2.
          -- intros _ Hp. apply Hpf2. cbn [os_conds set_conds set_ctrlof] in Hp. now rewrite pf_set_other in Hp by (cbn; discriminate).
          -- discriminate.
          -- intros _. left. reflexivity.
          -- discriminate.
        * intros H. injection H as <- _ _. exact (proj1 (patch_OT _ _ _ _ _ Ho1 eq_refl Ep)).
      + intros H. refine (Hfin sw1 _ (if archived then _ else mem0) _ _ _ Ho1 _ _ _ H); destruct archived eqn:Ea.
        -- repeat split.
        -- repeat split.
        -- intros _ Hp. left. cbn [os_conds set_conds set_ctrlof] in Hp. now rewrite pf_set_other in Hp by (cbn; discriminate).
        -- discriminate.
        -- intros _. left. reflexivity.
        -- discriminate.
    - intros H. refine (Hfin sw1 _ (if archived then _ else mem0) _ _ _ Ho1 _ _ _ H); destruct archived eqn:Ea.
      + repeat split.
      + repeat split.
      + intros _ Hp. left. cbn [os_conds set_conds] in Hp. now rewrite pf_set_other in Hp by (cbn; discriminate).
      + discriminate.
      + intros _. right. split; [reflexivity|]. split; [cbn [os_conds set_conds]; now rewrite pf_set_other by (cbn; discriminate)|reflexivity].
      + discriminate.
  Qed.

  Theorem objectset_pass_OT sw' evs r : objectset_pass force sw0 k ns n = (sw', evs, r) -> OT sw'.
  Proof.
    unfold objectset_pass. rewrite Hf0. destruct (cond_true (os_conds mem0) CArchived); [intros H; injection H as <- _ _; apply OT_init|].
    destruct (os_deleting mem0 || lifecycle_eqb (os_life mem0) LArchived); [apply deletion_pass_OT|apply active_pass_OT].
  Qed.
End OwnPass.

(** The stored status after a pass of the ObjectSet controller, in closed form: every ObjectSet afterwards is an old one, or the
    ObjectSet of the pass with its identity, lifecycle state and phases, where Paused=True is only ever newly written for a paused
    spec, and status.controllerOf is the old list, empty, or the list computed by the phase loop of this pass. *)
Definition loop_ctrlof (force : bool) (sw0 : sworld) (mem0 : oset) (ctrlof : list okey) : Prop :=
  exists mem1 sw1 sw2 pevs rem failed,
    os_id mem1 = os_id mem0 /\ os_life mem1 = os_life mem0 /\ os_phases mem1 = os_phases mem0 /\
    w_store (sw_w sw1) = w_store (sw_w sw0) /\
    reconcile_phases_m force sw1 mem1 (as_owner mem1) (lookup_prev (sw_sets sw1) mem1) (os_phases mem1) [] (os_remotes mem1)
      = (sw2, pevs, rem, MOk ctrlof failed).

Theorem status_after_pass force sw k ns n mem0 sw' evs r :
  find_set (sw_sets sw) k ns n = Some mem0 -> NoDup (map (fun y => oi_name (os_id y)) (sw_sets sw)) ->
  objectset_pass force sw k ns n = (sw', evs, r) ->
  forall y, In y (sw_sets sw') ->
    In y (sw_sets sw) \/
    (os_id y = os_id mem0 /\ os_life y = os_life mem0 /\ os_phases y = os_phases mem0 /\ os_prev y = os_prev mem0 /\
     (cond_true (os_conds y) CPaused = true -> cond_true (os_conds mem0) CPaused = true \/ os_life mem0 = LPaused) /\
     (os_ctrlof y = os_ctrlof mem0 \/ os_ctrlof y = [] \/ loop_ctrlof force sw mem0 (os_ctrlof y))).
Proof.
  intros Hf Hnd Hp y Hy.
  assert (Hext : forall a b : oset, os_ctrlof a = os_ctrlof b -> os_revision a = os_revision b ->
                 loop_ctrlof force sw mem0 (os_ctrlof a) -> loop_ctrlof force sw mem0 (os_ctrlof b)) by (intros a b E _; now rewrite E).
  assert (Hfinal : forall mem1 sw1 sw2 pevs rem ctrlof failed,
            IM mem0 mem1 -> os_revision mem1 <> 0%Z -> w_store (sw_w sw1) = w_store (sw_w sw) ->
            dup_count [] (map (spec_key mem1) (all_objects mem1)) = O ->
            reconcile_phases_m force sw1 mem1 (as_owner mem1) (lookup_prev (sw_sets sw1) mem1) (os_phases mem1) [] (os_remotes mem1)
              = (sw2, pevs, rem, MOk ctrlof failed) ->
            forall m, os_ctrlof m = ctrlof -> os_revision m = os_revision mem1 -> loop_ctrlof force sw mem0 (os_ctrlof m)).
  { intros mem1 sw1 sw2 pevs rem ctrlof failed ((A & B & C & _) & _) _ Hst _ Hrp m -> _.
    unfold loop_ctrlof. exists mem1, sw1, sw2, pevs, rem, failed. auto 6. }
  destruct (objectset_pass_OT force sw k ns n mem0 Hf Hnd (fun m => loop_ctrlof force sw mem0 (os_ctrlof m)) Hext Hfinal sw' evs r Hp y Hy)
    as [Hold|((A & B & C & D) & Hpf & Hs)]; [now left|right].
  do 4 (split; [assumption|]). split; [exact Hpf|].
  destruct Hs as [(E & _)|[(E & _)|[E|E]]]; auto.
Qed.
