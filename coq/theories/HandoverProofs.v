(** The handover clause of C08 at system level: "an object present in both the outgoing and the incoming revision is
    adopted in place and is never deleted during the handover".
    Part 1: refutations (witness histories from an empty cluster, evaluated by the kernel; each is replayed on the real
    controllers by checks/C08.py). Part 2: what a step can do to the set of objects a revision controls.
    Part 3: the handover relative to the archive decision. Part 4: the invariant behind status.controllerOf of a
    paused revision. *)
From Coq Require Import List NArith ZArith Bool Lia.
From PKO Require Import Util Base BaseProofs Owner OwnerProofs Api ApiProofs Phase PhaseProofs TeardownProofs ObjectSet ObjectSetProofs
  Deployment DeploymentProofs.
Import ListNotations.
Local Open Scope N_scope.

(** * Definitions *)
(** The revision listed right after the one named [n] (ascending revision order, the order the archive reconciler walks). *)
Fixpoint next_in (n : N) (L : list dset) : option dset :=
  match L with
  | a :: ((b :: _) as t) => if sname a =? n then Some b else next_in n t
  | _ => None
  end.
Definition next_newer (w : dworld) (n : N) : option dset := next_in n (listed false w).

Definition stored (w : dworld) (k : okey) : option obj := lookup k (w_store (dw_w w)).
Definition controls (id : oid) (w : dworld) (k : okey) : Prop := exists o, stored w k = Some o /\ is_controller Native id o = true.

(** "The handover of revision [n] is violated by the next step": [n] is archived, the next newer revision [nx] is neither
    archived nor being deleted and has not been paused, lists [k], [k] exists, and a pass of the ObjectSet controller for [n] removes it. *)
Definition handover_violation (hash : N -> option N -> N) (slices : N -> option (list pobj)) (w : dworld) (n : N) (r nx : dset) (k : okey) : Prop :=
  find_dset (dw_sets w) n = Some r /\ is_archived r = true /\
  next_newer w n = Some nx /\ slife nx = LActive /\ os_deleting (ds_set nx) = false /\ (srev r < srev nx)%Z /\
  In k (full_objects slices nx) /\ stored w k <> None /\ stored (do_step hash slices w (SSet false n)) k = None.

Definition from_scratch (w : dworld) : Prop := dw_sets w = [] /\ w_store (dw_w w) = [] /\ d_paused (dw_dep w) = false.

(** Shapes of histories. *)
Definition plain_step (s : step) : bool :=     (* fresh, fault-free deployment passes; full ObjectSet passes; edits; probe inputs *)
  match s with
  | SDep false None | SSet false _ | SEdit _ _ | SMember _ _ => true
  | _ => false
  end.
Definition one_phase_step (s : step) : bool := match s with SEdit _ phs => Nat.leb (length phs) 1 | _ => true end.

(** * Part 1: witnesses *)
Section Witnesses.
  Definition hw_phase (name : N) (objs : list pobj) : phase := {| ph_name := name; ph_class := false; ph_objects := objs |}.
  Definition hw_key (gk name : N) : okey := {| k_gk := gk; k_ns := 1; k_name := name |}.
  (** an empty cluster: no ObjectSets, no objects *)
  Definition hw_world (dg : N) (phs : list phase) : dworld := wit_world (wit_dep dg phs None) [].

  (** Widgets (kind 2) are probed, ConfigMaps (kind 1) are not. *)
  Definition t_a_b : list phase := [hw_phase 1 [wit_pobj 2 1]; hw_phase 2 [wit_pobj 1 2]].
  Definition t_c_b : list phase := [hw_phase 1 [wit_pobj 2 3]; hw_phase 2 [wit_pobj 1 2]].

  (** W1: revision 1 (phases [a]; [b]) is rolled out completely, then a's probe fails: its controllerOf stops at phase 1.
      Revision 2 (phases [c]; [b]) waits for c. Revision 1 reports [a] (also from its paused pass), is archived and its
      teardown deletes b, which revision 2 lists and has not adopted yet. *)
  Definition w1_history : list step :=
    [SDep false None; SSet false 100; SMember (hw_key 2 1) 1; SSet false 100; SMember (hw_key 2 1) 2; SSet false 100;
     SEdit 2 t_c_b; SDep false None; SSet false 200; SDep false None; SSet false 100; SDep false None].
  Definition w1_world : dworld := run wit_hash no_slices (hw_world 1 t_a_b) w1_history.

  (** W2: revision 2 (one phase [b; c]) adopted b from revision 1; the teardown of the archived revision 1 removes its
      owner reference from b and, with it, the dynamic-cache label. While the deployment is paused, the paused pass of
      revision 2 does not see b (paused passes read the cache only) and reports controllerOf [c], Paused=True. The deployment is
      unpaused and edited; revision 3 (phases [d]; [b]) waits for d. The archive reconciler finds the stale Paused=True
      (ensurePaused does not compare it with spec), controllerOf [c] disjoint from {d, b}: revision 2 is archived at once and its
      teardown deletes b. *)
  Definition t_b : list phase := [hw_phase 1 [wit_pobj 1 2]].
  Definition t_bc : list phase := [hw_phase 1 [wit_pobj 1 2; wit_pobj 2 3]].
  Definition t_d_b : list phase := [hw_phase 1 [wit_pobj 2 4]; hw_phase 2 [wit_pobj 1 2]].
  Definition w2_history : list step :=
    [SDep false None; SSet false 100; SDep false None; SEdit 2 t_bc; SDep false None; SSet false 200; SMember (hw_key 2 3) 1; SSet false 200;
     SDep false None; SSet false 100; SDep false None; SSet false 100; SMember (hw_key 2 3) 2;
     SPause true; SDep false None; SSet false 200; SEdit 3 t_d_b; SPause false; SDep false None; SSet false 300; SDep false None].
  Definition w2_world : dworld := run wit_hash no_slices (hw_world 1 t_b) w2_history.

  (** W3: single phases, the deployment is never paused. Revisions 1, 2, 3 all list the Widget k (with different bodies); 3 controls
      it, 1 and 2 control nothing ([] is stored as nil: never archived by the controllerOf rule). Revision 4 lists other objects
      and is not Available; revision 3 is archived. Before its teardown runs, k turns healthy and revision 2 reports
      Available=True (k is left to the newer revision 3). The teardown of 3 deletes k, revision 1 (still active) re-creates
      it, the Available report of revision 2 gets revision 1 archived, whose teardown deletes k: listed by the next newer revision 2,
      which is active and "Available". *)
  Definition hw_pobj (gk name body : N) : pobj :=
    {| po_gk := gk; po_ns := 0; po_name := name; po_body := body; po_cp := CPPrevent; po_ownerrefs := false; po_dryreject := false |}.
  Definition t_k1 : list phase := [hw_phase 1 [hw_pobj 2 1 1]].
  Definition t_k2 : list phase := [hw_phase 1 [hw_pobj 2 1 2]].
  Definition t_k3 : list phase := [hw_phase 1 [hw_pobj 2 1 3; hw_pobj 2 2 1]].
  Definition t_e : list phase := [hw_phase 1 [hw_pobj 2 3 1]].
  Definition w3_history : list step :=
    [SDep false None; SSet false 100; SMember (hw_key 2 1) 2; SSet false 100; SEdit 2 t_k2; SDep false None; SSet false 200; SDep false None;
     SEdit 3 t_k3; SDep false None; SSet false 300; SDep false None; SSet false 100; SSet false 200;
     SEdit 4 t_e; SDep false None; SSet false 400; SMember (hw_key 2 3) 2; SDep false None; SSet false 300; SDep false None;
     SMember (hw_key 2 1) 1; SSet false 200; SSet false 300; SSet false 300; SSet false 100;
     SDep false None; SSet false 100; SDep false None].
  Definition w3_world : dworld := run wit_hash no_slices (hw_world 1 t_k1) w3_history.
End Witnesses.

(** ** The refutations *)
Ltac decide_in := repeat (first [left; reflexivity | right]).

(** W1 (F-C08c): multi-phase revisions; nothing else unusual. *)
Theorem handover_refuted_truncated :
  exists hash slices w0 h n r nx k,
    from_scratch w0 /\ forallb plain_step h = true /\
    handover_violation hash slices (run hash slices w0 h) n r nx k /\
    (* at the decision: Paused=True is stored, the revision controls k, k carries the cache label, controllerOf does not list it *)
    is_status_paused r = true /\ controls (os_id (ds_set r)) (run hash slices w0 h) k /\
    (exists o, stored (run hash slices w0 h) k = Some o /\ o_cache o = true) /\ ~ In k (os_ctrlof (ds_set r)).
Proof.
  exists wit_hash, no_slices, (hw_world 1 t_a_b), w1_history, 100.
  set (w := run wit_hash no_slices (hw_world 1 t_a_b) w1_history).
  exists (nth 0 (dw_sets w) wit_old), (nth 1 (dw_sets w) wit_old), (hw_key 1 2).
  split; [repeat split|]. split; [reflexivity|]. split; [|split; [reflexivity|split; [|split]]].
  - vm_compute. repeat split; try discriminate; auto 6.
  - eexists. split; vm_compute; reflexivity.
  - eexists. split; vm_compute; reflexivity.
  - vm_compute. intros [H|[]]. discriminate.
Qed.

(** W2 (F-C08d): the archived revision has a single phase; the deployment was paused and unpaused. *)
Theorem handover_refuted_cache_label :
  exists hash slices w0 h n r nx k,
    from_scratch w0 /\
    handover_violation hash slices (run hash slices w0 h) n r nx k /\
    length (os_phases (ds_set r)) = 1%nat /\
    is_status_paused r = true /\ controls (os_id (ds_set r)) (run hash slices w0 h) k /\
    (exists o, stored (run hash slices w0 h) k = Some o /\ o_cache o = false) /\ ~ In k (os_ctrlof (ds_set r)).
Proof.
  exists wit_hash, no_slices, (hw_world 1 t_b), w2_history, 200.
  set (w := run wit_hash no_slices (hw_world 1 t_b) w2_history).
  exists (nth 1 (dw_sets w) wit_old), (nth 2 (dw_sets w) wit_old), (hw_key 1 2).
  split; [repeat split|]. split; [|split; [reflexivity|split; [reflexivity|split; [|split]]]].
  - vm_compute. repeat split; try discriminate; auto 6.
  - eexists. split; vm_compute; reflexivity.
  - eexists. split; vm_compute; reflexivity.
  - vm_compute. intros [H|[]]. discriminate.
Qed.

(** W3 (F-C08e): single phases only, the deployment is never paused, no pruning; the archival rests on a stale Available report. *)
Theorem handover_refuted_stale_available :
  exists hash slices w0 h n r nx k,
    from_scratch w0 /\ forallb plain_step h = true /\ forallb one_phase_step h = true /\
    (length (d_phases (dw_dep w0)) <= 1)%nat /\
    handover_violation hash slices (run hash slices w0 h) n r nx k /\
    is_available nx = true /\ os_ctrlof (ds_set nx) = [] /\
    (* here controllerOf is complete *)
    In k (os_ctrlof (ds_set r)).
Proof.
  exists wit_hash, no_slices, (hw_world 1 t_k1), w3_history, 100.
  set (w := run wit_hash no_slices (hw_world 1 t_k1) w3_history).
  exists (nth 0 (dw_sets w) wit_old), (nth 1 (dw_sets w) wit_old), (hw_key 2 1).
  split; [repeat split|]. split; [reflexivity|]. split; [reflexivity|]. split; [cbn; lia|].
  split; [|split; [reflexivity|split; [reflexivity|]]].
  - vm_compute. repeat split; try discriminate; auto 6.
  - vm_compute. auto 6.
Qed.
