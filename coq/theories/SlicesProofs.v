(** Proofs about Slices.v (C14, clauses 2-4). *)
From Coq Require Import List NArith ZArith Bool Lia FinFun Permutation.
From PKO Require Import Util Base Owner Api Phase ObjectSet ObjectSetProofs Chunk ChunkProofs Slices.
Import ListNotations.
Local Open Scope N_scope.

(** * (a) Slice names *)
Section NamingProofs.
  Context {C : Type}.
  Variable ceqb : C -> C -> bool.
  Hypothesis ceqb_spec : forall x y, ceqb x y = true <-> x = y.
  Variable hash : C -> N -> N.

  Notation nlookup := (@nlookup C).
  Notation slice_loop := (slice_loop ceqb hash).
  Notation reconcile_slice := (reconcile_slice ceqb hash).
  Notation chunk_phase := (chunk_phase ceqb hash).

  Definition nkeys (st : nstore C) : list N := map fst st.

  Lemma nlookup_in n st e : nlookup n st = Some e -> In n (nkeys st).
  Proof.
    induction st as [|[m e'] r IH]; cbn; [discriminate|].
    destruct (N.eqb_spec n m) as [->|Hne]; [now left|]. intros H. right. now apply IH.
  Qed.

  Lemma nlookup_cons_other n m e st : n <> m -> nlookup n ((m, e) :: st) = nlookup n st.
  Proof. intros H. cbn. now destruct (N.eqb_spec n m). Qed.

  (** What one run of the loop guarantees, for every hash function, every store and any fuel. *)
  Lemma slice_loop_spec fuel : forall st c cc st' n cc' cr,
    slice_loop fuel st c cc = (st', NUsed n cc' cr) ->
    n = slice_name hash c cc' /\ cc <= cc' /\
    nlookup n st' = Some {| es_content := c; es_ctrl := true |} /\
    (if cr then nlookup n st = None /\ st' = (n, {| es_content := c; es_ctrl := true |}) :: st
     else st' = st) /\
    (forall k, cc <= k < cc' -> try_cc ceqb hash st c k = ACollision).
  Proof.
    induction fuel as [|f IH]; intros st c cc st' n cc' cr; cbn [Slices.slice_loop]; [discriminate|].
    destruct (try_cc ceqb hash st c cc) eqn:Et.
    - intros H. injection H as <- <- <- <-. unfold try_cc in Et.
      destruct (nlookup (slice_name hash c cc) st) as [e|] eqn:El; [destruct (es_ctrl e && ceqb (es_content e) c); discriminate|].
      repeat split; try lia; try assumption. cbn. now rewrite N.eqb_refl.
    - intros H. injection H as <- <- <- <-. unfold try_cc in Et.
      destruct (nlookup (slice_name hash c cc) st) as [e|] eqn:El; [|discriminate].
      destruct (es_ctrl e && ceqb (es_content e) c) eqn:Eb; [|discriminate].
      apply andb_true_iff in Eb. destruct Eb as [Hc He]. apply ceqb_spec in He.
      repeat split; try lia. destruct e as [ec ek]; cbn in *. now subst.
    - intros H. destruct (IH _ _ _ _ _ _ _ H) as (Hn & Hle & Hl & Hcr & Hcol).
      repeat split; try assumption; try lia.
      intros k Hk. destruct (N.eq_dec k cc) as [->|Hne]; [assumption|]. apply Hcol. lia.
  Qed.

  (** Existing slices are never modified or removed. *)
  Lemma slice_loop_preserves fuel st c cc st' r m e :
    slice_loop fuel st c cc = (st', r) -> nlookup m st = Some e -> nlookup m st' = Some e.
  Proof.
    revert st c cc st' r. induction fuel as [|f IH]; intros st c cc st' r; cbn [Slices.slice_loop].
    - intros H. now injection H as <- <-.
    - destruct (try_cc ceqb hash st c cc) eqn:Et.
      + intros H Hm. injection H as <- <-. unfold try_cc in Et.
        destruct (nlookup (slice_name hash c cc) st) as [e'|] eqn:El; [destruct (es_ctrl e' && ceqb (es_content e') c); discriminate|].
        rewrite nlookup_cons_other; [assumption|]. intros ->. congruence.
      + intros H. now injection H as <- <-.
      + apply IH.
  Qed.

  (** Fuel: running out of fuel means every name tried is taken. *)
  Lemma slice_loop_fuel fuel : forall st c cc st',
    slice_loop fuel st c cc = (st', NFuel) ->
    forall j, (j < fuel)%nat -> In (hash c (cc + N.of_nat j)) (nkeys st).
  Proof.
    induction fuel as [|f IH]; intros st c cc st'; cbn [Slices.slice_loop]; [intros _ j Hj; lia|].
    destruct (try_cc ceqb hash st c cc) eqn:Et; try discriminate.
    intros H j Hj. destruct j as [|j].
    - rewrite N.add_0_r. unfold try_cc, slice_name in Et.
      destruct (nlookup (hash c cc) st) as [e|] eqn:El; [|discriminate]. eapply nlookup_in; eauto.
    - replace (cc + N.of_nat (S j)) with (cc + 1 + N.of_nat j) by lia. eapply IH; eauto. lia.
  Qed.

  (** |store|+1 attempts suffice whenever the hash separates the collision counts of the content. *)
  Theorem slice_fuel_suffices st c :
    (forall a b, hash c a = hash c b -> a = b) ->
    snd (reconcile_slice st c) <> NFuel.
  Proof.
    intros Hinj Hf. unfold Slices.reconcile_slice in Hf.
    destruct (slice_loop (S (length st)) st c 0) as [st' r] eqn:E. cbn in Hf. subst r.
    pose proof (slice_loop_fuel _ _ _ _ _ E) as Hin.
    set (names := map (fun j => hash c (N.of_nat j)) (seq 0 (S (length st)))).
    assert (Hnd : NoDup names).
    { unfold names. apply FinFun.Injective_map_NoDup; [|apply seq_NoDup].
      intros a b Hab. apply Hinj in Hab. lia. }
    assert (Hincl : incl names (nkeys st)).
    { intros x Hx. unfold names in Hx. apply in_map_iff in Hx. destruct Hx as (j & <- & Hj).
      apply in_seq in Hj. specialize (Hin j). rewrite N.add_0_l in Hin. apply Hin. lia. }
    pose proof (NoDup_incl_length Hnd Hincl) as Hlen.
    unfold names, nkeys in Hlen. rewrite !map_length, seq_length in Hlen. lia.
  Qed.

  (** The result of reconcileSlice, for every hash and every store. *)
  Theorem slice_names st c st' n cc cr :
    reconcile_slice st c = (st', NUsed n cc cr) ->
    (* the name is the function of content and collision count *)
    n = slice_name hash c cc /\
    (* the slice finally used has exactly the requested content and is controlled by the deployment *)
    nlookup n st' = Some {| es_content := c; es_ctrl := true |} /\
    (* a name held by different content or by a foreign controller is never used *)
    (forall e, nlookup n st = Some e -> es_content e = c /\ es_ctrl e = true) /\
    (* created exactly when the name was free; no existing slice is touched *)
    (cr = true <-> nlookup n st = None) /\
    (forall m e, nlookup m st = Some e -> nlookup m st' = Some e) /\
    (* all smaller collision counts name a slice with other content or another controller *)
    (forall k, k < cc -> exists e, nlookup (slice_name hash c k) st = Some e /\ (es_content e <> c \/ es_ctrl e = false)).
  Proof.
    intros H. unfold Slices.reconcile_slice in H.
    destruct (slice_loop_spec _ _ _ _ _ _ _ _ H) as (Hn & _ & Hl & Hcr & Hcol).
    split; [assumption|]. split; [assumption|]. split.
    { intros e He. destruct cr.
      - destruct Hcr as [Hnone _]. congruence.
      - subst st'. rewrite He in Hl. injection Hl as ->. now cbn. }
    split.
    { destruct cr.
      - destruct Hcr as [Hnone _]. tauto.
      - subst st'. split; [discriminate|]. intros Hnone. congruence. }
    split.
    { intros m e. eapply slice_loop_preserves; eauto. }
    intros k Hk. assert (Ht : try_cc ceqb hash st c k = ACollision) by (apply Hcol; lia).
    unfold try_cc in Ht. destruct (nlookup (slice_name hash c k) st) as [e|]; [|discriminate].
    exists e. split; [reflexivity|].
    destruct (es_ctrl e) eqn:Ec; [|now right]. left. cbn in Ht.
    destruct (ceqb (es_content e) c) eqn:Eq; [discriminate|]. intros Heq. apply ceqb_spec in Heq. congruence.
  Qed.

  (** chunkPhase: every chunk ends up in a slice with exactly its content, controlled by the deployment;
      equal chunks get the same slice. *)
  Lemma chunk_phase_preserves chunks : forall st st' r m e,
    chunk_phase st chunks = (st', r) -> nlookup m st = Some e -> nlookup m st' = Some e.
  Proof.
    induction chunks as [|c cs IH]; intros st st' r m e; cbn [Slices.chunk_phase].
    - intros H. now injection H as <- <-.
    - destruct (reconcile_slice st c) as [st1 [n cc cr|]] eqn:E1.
      + destruct (chunk_phase st1 cs) as [st2 [l|]] eqn:E2; intros H Hm; injection H as <- <-;
          (eapply IH; [exact E2|]); unfold Slices.reconcile_slice in E1; eapply slice_loop_preserves; eauto.
      + intros H Hm. injection H as <- <-. unfold Slices.reconcile_slice in E1. eapply slice_loop_preserves; eauto.
  Qed.

  Theorem chunk_phase_names chunks : forall st st' l,
    chunk_phase st chunks = (st', Some l) ->
    length l = length chunks /\
    Forall2 (fun c x => let '(n, cc, _) := x in
                        n = slice_name hash c cc /\ nlookup n st' = Some {| es_content := c; es_ctrl := true |})
            chunks l /\
    (forall m e, nlookup m st = Some e -> nlookup m st' = Some e).
  Proof.
    induction chunks as [|c cs IH]; intros st st' l; cbn [Slices.chunk_phase].
    - intros H. injection H as <- <-. repeat split; [constructor|auto].
    - destruct (reconcile_slice st c) as [st1 [n cc cr|]] eqn:E1; [|discriminate].
      destruct (chunk_phase st1 cs) as [st2 [l'|]] eqn:E2; [|discriminate].
      intros H. injection H as <- <-. destruct (IH _ _ _ E2) as (Hlen & Hall & Hpres).
      destruct (slice_names _ _ _ _ _ _ E1) as (Hn & Hl & _ & _ & Hp1 & _).
      repeat split.
      + cbn. now rewrite Hlen.
      + constructor; [|assumption]. split; [assumption|]. now apply Hpres.
      + intros m e Hm. apply Hpres. now apply Hp1.
  Qed.

  (** Two chunks of one run that ended in the same slice have the same content. *)
  Corollary chunk_phase_injective chunks st st' l i j ci cj ni cci cri ccj crj :
    chunk_phase st chunks = (st', Some l) ->
    nth_error chunks i = Some ci -> nth_error chunks j = Some cj ->
    nth_error l i = Some (ni, cci, cri) -> nth_error l j = Some (ni, ccj, crj) -> ci = cj.
  Proof.
    intros H Hi Hj Hli Hlj. destruct (chunk_phase_names _ _ _ _ H) as (_ & Hall & _).
    assert (Hgen : forall k c x, nth_error chunks k = Some c -> nth_error l k = Some x ->
                                 let '(n, cc, _) := x in nlookup n st' = Some {| es_content := c; es_ctrl := true |}).
    { clear -Hall. induction Hall as [|c x cs xs Hx _ IH]; intros k c' x' Hc Hx'.
      - destruct k; discriminate.
      - destruct k as [|k]; cbn in Hc, Hx'.
        + injection Hc as <-. injection Hx' as <-. destruct x as [[n cc] cr]. tauto.
        + eapply IH; eauto. }
    pose proof (Hgen _ _ _ Hi Hli) as H1. pose proof (Hgen _ _ _ Hj Hlj) as H2. cbn in H1, H2. congruence.
  Qed.

  (** A package update, phase by phase: afterwards every phase's slice names decode, in order, to exactly the
      chunks of that phase (the encoding is lossless across the whole template, whatever slices existed before
      and whatever the hash function does), and no slice that existed before was modified. *)
  Definition content_of (st : nstore C) (n : N) : option C := option_map es_content (nlookup n st).

  Theorem chunk_phases_lossless phases : forall st st' ls,
    Slices.chunk_phases ceqb hash st phases = (st', Some ls) ->
    map (map (fun x => content_of st' (fst (fst x)))) ls = map (map Some) phases /\
    (forall m e, nlookup m st = Some e -> nlookup m st' = Some e).
  Proof.
    induction phases as [|chunks r IH]; intros st st' ls; cbn [Slices.chunk_phases].
    - intros H. injection H as <- <-. split; [reflexivity|auto].
    - destruct (chunk_phase st chunks) as [st1 [l|]] eqn:E1; [|discriminate].
      destruct (Slices.chunk_phases ceqb hash st1 r) as [st2 [ls'|]] eqn:E2; [|discriminate].
      intros H. injection H as <- <-. destruct (IH _ _ _ E2) as [Hr Hp2].
      destruct (chunk_phase_names _ _ _ _ E1) as (_ & Hall & Hp1). split.
      + cbn [map]. rewrite Hr. f_equal. clear -Hall Hp2.
        induction Hall as [|c x cs xs Hx _ IHa]; [reflexivity|]. cbn [map]. rewrite IHa. f_equal.
        destruct x as [[n cc] cr]. cbn [fst]. destruct Hx as [_ Hl]. unfold content_of. now rewrite (Hp2 _ _ Hl).
      + intros m e Hm. apply Hp2. now apply Hp1.
  Qed.

  (** ** Redeploying the unchanged package: same names, nothing created *)

  Lemma slice_loop_fuel_bound fuel : forall st c cc st' n cc' cr,
    slice_loop fuel st c cc = (st', NUsed n cc' cr) -> (N.to_nat cc' - N.to_nat cc < fuel)%nat.
  Proof.
    induction fuel as [|f IH]; intros st c cc st' n cc' cr; cbn [Slices.slice_loop]; [discriminate|].
    destruct (try_cc ceqb hash st c cc).
    - intros H. injection H as <- <- <- <-. lia.
    - intros H. injection H as <- <- <- <-. lia.
    - intros H. apply IH in H. lia.
  Qed.

  Lemma slice_loop_reuse fuel : forall st c cc0 cc,
    cc0 <= cc -> (N.to_nat cc - N.to_nat cc0 < fuel)%nat ->
    (forall k, cc0 <= k < cc -> try_cc ceqb hash st c k = ACollision) ->
    nlookup (slice_name hash c cc) st = Some {| es_content := c; es_ctrl := true |} ->
    slice_loop fuel st c cc0 = (st, NUsed (slice_name hash c cc) cc false).
  Proof.
    induction fuel as [|f IH]; intros st c cc0 cc Hle Hf Hcol Hl; [lia|]. cbn [Slices.slice_loop].
    destruct (N.eq_dec cc0 cc) as [->|Hne].
    - unfold try_cc. rewrite Hl. cbn [es_ctrl es_content andb].
      assert (ceqb c c = true) as -> by now apply ceqb_spec. reflexivity.
    - rewrite (Hcol cc0) by lia. apply IH; try lia; [|assumption]. intros k Hk. apply Hcol. lia.
  Qed.

  Definition collides_in (st : nstore C) (c : C) (k : N) : Prop :=
    exists e, nlookup (slice_name hash c k) st = Some e /\ (es_content e <> c \/ es_ctrl e = false).

  Lemma try_cc_collision st c k : collides_in st c k -> try_cc ceqb hash st c k = ACollision.
  Proof.
    intros (e & He & Hd). unfold try_cc. rewrite He. destruct (es_ctrl e) eqn:Ec; [|reflexivity]. cbn.
    destruct (ceqb (es_content e) c) eqn:Eq; [|reflexivity]. apply ceqb_spec in Eq. destruct Hd; congruence.
  Qed.

  (** A chunk that was stored once is found again under the same name in every later store that kept the
      existing slices. *)
  Lemma reconcile_slice_again st c st1 n cc cr st2 :
    reconcile_slice st c = (st1, NUsed n cc cr) ->
    (forall m e, nlookup m st1 = Some e -> nlookup m st2 = Some e) ->
    (length st <= length st2)%nat ->
    reconcile_slice st2 c = (st2, NUsed n cc false).
  Proof.
    intros H Hpres Hlen. pose proof H as H0. apply slice_names in H0. destruct H0 as (Hn & Hl & _ & _ & Hp & Hcol).
    unfold Slices.reconcile_slice in *. pose proof (slice_loop_fuel_bound _ _ _ _ _ _ _ _ H) as Hb. subst n.
    apply slice_loop_reuse; try lia.
    - intros k Hk. apply try_cc_collision. destruct (Hcol k) as (e & He & Hd); [lia|]. exists e. split; [|assumption]. apply Hpres. now apply Hp.
    - now apply Hpres.
  Qed.

  Lemma chunk_phase_length chunks : forall st st' r, chunk_phase st chunks = (st', r) -> (length st <= length st')%nat.
  Proof.
    induction chunks as [|c cs IH]; intros st st' r; cbn [Slices.chunk_phase].
    - intros H. injection H as <- <-. lia.
    - destruct (reconcile_slice st c) as [st1 [n cc cr|]] eqn:E1.
      + assert (length st <= length st1)%nat.
        { unfold Slices.reconcile_slice in E1. destruct (slice_loop_spec _ _ _ _ _ _ _ _ E1) as (_ & _ & _ & Hcr & _).
          destruct cr; [destruct Hcr as [_ ->]; cbn; lia|subst; lia]. }
        destruct (chunk_phase st1 cs) as [st2 [l|]] eqn:E2; intros H0; injection H0 as <- <-; apply IH in E2; lia.
      + intros H. injection H as <- <-. unfold Slices.reconcile_slice in E1. clear -E1.
        revert E1. generalize (S (length st)). intros fuel. revert st. generalize 0.
        induction fuel as [|f IH]; intros cc st; cbn [Slices.slice_loop]; [intros H; injection H as <-; lia|].
        destruct (try_cc ceqb hash st c cc); try discriminate. apply IH.
  Qed.

  Definition reused (l : list (N * N * bool)) : list (N * N * bool) := map (fun x => (fst (fst x), snd (fst x), false)) l.

  Lemma reconcile_slice_length st c st1 r : reconcile_slice st c = (st1, r) -> (length st <= length st1)%nat.
  Proof.
    intros E1. destruct r as [n cc cr|].
    - unfold Slices.reconcile_slice in E1. destruct (slice_loop_spec _ _ _ _ _ _ _ _ E1) as (_ & _ & _ & Hcr & _).
      destruct cr; [destruct Hcr as [_ ->]; cbn; lia|subst; lia].
    - unfold Slices.reconcile_slice in E1. revert E1. generalize (S (length st)). intros fuel. generalize 0.
      induction fuel as [|f IH]; intros cc; cbn [Slices.slice_loop]; [intros H; injection H as <-; lia|].
      destruct (try_cc ceqb hash st c cc); try discriminate. apply IH.
  Qed.

  Lemma chunk_phase_again chunks : forall st st1 l st2,
    chunk_phase st chunks = (st1, Some l) ->
    (forall m e, nlookup m st1 = Some e -> nlookup m st2 = Some e) -> (length st1 <= length st2)%nat ->
    chunk_phase st2 chunks = (st2, Some (reused l)).
  Proof.
    induction chunks as [|c cs IH]; intros st st1 l st2; cbn [Slices.chunk_phase].
    - intros H _ _. injection H as <- <-. reflexivity.
    - destruct (reconcile_slice st c) as [sta [n cc cr|]] eqn:E1; [|discriminate].
      destruct (chunk_phase sta cs) as [stb [l'|]] eqn:E2; [|discriminate].
      intros H Hpres Hlen. injection H as <- <-.
      pose proof (reconcile_slice_length _ _ _ _ E1) as L1. pose proof (chunk_phase_length _ _ _ _ E2) as L2.
      assert (Hpa : forall m e, nlookup m sta = Some e -> nlookup m st2 = Some e).
      { intros m e Hm. apply Hpres. eapply chunk_phase_preserves; eauto. }
      rewrite (reconcile_slice_again _ _ _ _ _ _ _ E1 Hpa) by lia.
      now rewrite (IH _ _ _ st2 E2 Hpres Hlen).
  Qed.

  Lemma chunk_phases_length phases : forall st st' r,
    Slices.chunk_phases ceqb hash st phases = (st', r) -> (length st <= length st')%nat.
  Proof.
    induction phases as [|chunks r IH]; intros st st' res; cbn [Slices.chunk_phases].
    - intros H. injection H as <- <-. lia.
    - destruct (chunk_phase st chunks) as [st1 [l|]] eqn:E1.
      + pose proof (chunk_phase_length _ _ _ _ E1).
        destruct (Slices.chunk_phases ceqb hash st1 r) as [st2 [ls|]] eqn:E2; intros H0; injection H0 as <- <-; apply IH in E2; lia.
      + intros H. injection H as <- <-. eapply chunk_phase_length; eauto.
  Qed.

  Lemma chunk_phases_again phases : forall st st1 ls st2,
    Slices.chunk_phases ceqb hash st phases = (st1, Some ls) ->
    (forall m e, nlookup m st1 = Some e -> nlookup m st2 = Some e) -> (length st1 <= length st2)%nat ->
    Slices.chunk_phases ceqb hash st2 phases = (st2, Some (map reused ls)).
  Proof.
    induction phases as [|chunks r IH]; intros st st1 ls st2; cbn [Slices.chunk_phases].
    - intros H _ _. injection H as <- <-. reflexivity.
    - destruct (chunk_phase st chunks) as [sta [l|]] eqn:E1; [|discriminate].
      destruct (Slices.chunk_phases ceqb hash sta r) as [stb [ls'|]] eqn:E2; [|discriminate].
      intros H Hpres Hlen. injection H as <- <-.
      pose proof (chunk_phases_length _ _ _ _ E2) as L2.
      assert (Hpa : forall m e, nlookup m sta = Some e -> nlookup m st2 = Some e).
      { intros m e Hm. apply Hpres. destruct (chunk_phases_lossless _ _ _ _ E2) as [_ Hp]. now apply Hp. }
      rewrite (chunk_phase_again _ _ _ _ st2 E1 Hpa) by lia.
      now rewrite (IH _ _ _ st2 E2 Hpres Hlen).
  Qed.

  (** Redeploying the unchanged package (same phases, same chunks) right after a deploy: every chunk is found
      under the name it got the first time, nothing is created, the store is unchanged - for every hash function
      and whatever slices existed before. *)
  Theorem redeploy_unchanged phases st st1 ls :
    Slices.chunk_phases ceqb hash st phases = (st1, Some ls) ->
    Slices.chunk_phases ceqb hash st1 phases = (st1, Some (map reused ls)).
  Proof. intros H. eapply chunk_phases_again; eauto. Qed.
End NamingProofs.

(** The Go loop has no bound: with a hash that ignores the collision count and a foreign slice under that
    name no amount of fuel helps (the real loop would spin forever). *)
Lemma slice_loop_constant_hash fuel cc :
  snd (slice_loop N.eqb (fun _ _ => 7) fuel [(7, {| es_content := 1; es_ctrl := false |})] 2 cc) = NFuel.
Proof. revert cc. induction fuel as [|f IH]; intros cc; cbn; [reflexivity|apply IH]. Qed.

(** * (b) Slice garbage collection *)

Lemma existsb_Neqb n l : existsb (N.eqb n) l = true <-> In n l.
Proof.
  rewrite existsb_exists. split.
  - intros (x & Hin & Hx). apply N.eqb_eq in Hx. now subst.
  - intros H. exists n. split; [assumption|apply N.eqb_refl].
Qed.

Lemma gc_referenced_spec tmpl sets n :
  In n (gc_referenced tmpl sets) <->
  (exists ph, In ph tmpl /\ In n ph) \/ (exists s ph, In s sets /\ g_listed s = true /\ In ph (g_refs s) /\ In n ph).
Proof.
  unfold gc_referenced. rewrite in_app_iff, in_concat, in_flat_map. split.
  - intros [(ph & H1 & H2)|(s & Hs & Hn)]; [left; eauto|right].
    apply filter_In in Hs. destruct Hs as [Hs Hl]. apply in_concat in Hn. destruct Hn as (ph & H1 & H2). eauto 8.
  - intros [(ph & H1 & H2)|(s & ph & Hs & Hl & H1 & H2)]; [left; eauto|right].
    exists s. split; [apply filter_In; auto|]. apply in_concat. eauto.
Qed.

(** Exactly the labelled, unreferenced slices are deleted. *)
Theorem slice_gc_spec tmpl sets slices n :
  In n (slice_gc tmpl sets slices) <->
  exists s, In s slices /\ gs_name s = n /\ gs_labelled s = true /\ ~ In n (gc_referenced tmpl sets).
Proof.
  unfold slice_gc. rewrite in_map_iff. split.
  - intros (s & Hn & Hin). apply filter_In in Hin. destruct Hin as [Hin Hb].
    apply andb_true_iff in Hb. destruct Hb as [Hl Hr]. apply negb_true_iff in Hr.
    exists s. repeat split; auto. subst n. intros Href. apply existsb_Neqb in Href. congruence.
  - intros (s & Hin & Hn & Hl & Href). exists s. split; [assumption|]. apply filter_In. split; [assumption|].
    rewrite Hl. cbn. apply negb_true_iff. destruct (existsb (N.eqb (gs_name s)) (gc_referenced tmpl sets)) eqn:E; [|reflexivity].
    apply existsb_Neqb in E. subst n. contradiction.
Qed.

(** gc_safe: a deleted slice is referenced neither by the template just written nor by any listed
    ObjectSet; equivalently a referenced slice is never deleted. For all inputs. *)
Theorem gc_safe tmpl sets slices n :
  In n (slice_gc tmpl sets slices) ->
  (forall ph, In ph tmpl -> ~ In n ph) /\
  (forall s ph, In s sets -> g_listed s = true -> In ph (g_refs s) -> ~ In n ph).
Proof.
  intros H. apply slice_gc_spec in H. destruct H as (s & _ & _ & _ & Href).
  split.
  - intros ph Hph Hn. apply Href. apply gc_referenced_spec. left. eauto.
  - intros s' ph Hs Hl Hph Hn. apply Href. apply gc_referenced_spec. right. eauto 8.
Qed.

Corollary gc_keeps_referenced tmpl sets slices n :
  In n (gc_referenced tmpl sets) -> ~ In n (slice_gc tmpl sets slices).
Proof. intros Href H. apply slice_gc_spec in H. destruct H as (s & _ & _ & _ & Hn). contradiction. Qed.

(** Only slices carrying the deployment's label are ever deleted. *)
Corollary gc_only_labelled tmpl sets slices n :
  In n (slice_gc tmpl sets slices) -> exists s, In s slices /\ gs_name s = n /\ gs_labelled s = true.
Proof. intros H. apply slice_gc_spec in H. destruct H as (s & H1 & H2 & H3 & _). eauto. Qed.

(** * (c) The slice loader *)

Lemma slkey_eqb_spec a b : slkey_eqb a b = true <-> a = b.
Proof.
  destruct a as [a1 a2], b as [b1 b2]. unfold slkey_eqb. cbn. rewrite andb_true_iff, !N.eqb_eq.
  split; [intros [-> ->]; reflexivity|intros H; injection H; auto].
Qed.

Lemma slkey_eqb_refl a : slkey_eqb a a = true.
Proof. now apply slkey_eqb_spec. Qed.

Lemma sl_lookup_put k k' s s0 st :
  sl_lookup k' st = Some s0 ->
  sl_lookup k (sl_put k' s st) = if slkey_eqb k k' then Some s else sl_lookup k st.
Proof.
  induction st as [|[k1 s1] r IH]; cbn; [discriminate|].
  destruct (slkey_eqb k' k1) eqn:E1.
  - intros _. apply slkey_eqb_spec in E1. subst k1. cbn. now destruct (slkey_eqb k k').
  - intros H. cbn. destruct (slkey_eqb k k1) eqn:E2.
    + destruct (slkey_eqb k k') eqn:E3; [|reflexivity].
      apply slkey_eqb_spec in E2. apply slkey_eqb_spec in E3. subst. rewrite slkey_eqb_refl in E1. discriminate.
    + now apply IH.
Qed.

(** The loader only ever changes ownerReferences and resourceVersions of slices. *)
Definition objs_same (st st' : slstore) : Prop :=
  forall k, option_map sl_objects (sl_lookup k st') = option_map sl_objects (sl_lookup k st).

Lemma objs_same_refl st : objs_same st st.
Proof. intros k. reflexivity. Qed.
Lemma objs_same_trans a b c : objs_same a b -> objs_same b c -> objs_same a c.
Proof. intros H1 H2 k. now rewrite H2, H1. Qed.

Lemma objs_same_slice_objects st st' ns n : objs_same st st' -> slice_objects st' ns n = slice_objects st ns n.
Proof.
  intros H. unfold slice_objects. specialize (H (ns, n)).
  destruct (sl_lookup (ns, n) st'), (sl_lookup (ns, n) st); cbn in H; congruence.
Qed.

Lemma objs_same_exists st st' k : objs_same st st' -> sl_lookup k st <> None -> sl_lookup k st' <> None.
Proof. intros H Hk. specialize (H k). destruct (sl_lookup k st'), (sl_lookup k st); cbn in H; congruence. Qed.

Lemma erase_app a b : erase_slice_events (a ++ b) = erase_slice_events a ++ erase_slice_events b.
Proof. unfold erase_slice_events. now rewrite flat_map_app. Qed.

Lemma erase_lift l : erase_slice_events (map XSet l) = l.
Proof. induction l as [|x l IH]; [reflexivity|]. cbn in *. now f_equal. Qed.

Lemma load_phase_slices_spec ns id names : forall xs acc,
  (forall n, In n names -> sl_lookup (ns, n) (xs_store xs) <> None) ->
  exists xs' evs,
    load_phase_slices xs ns id names acc = (xs', evs, Some (acc ++ flat_map (slice_objects (xs_store xs) ns) names)) /\
    objs_same (xs_store xs) (xs_store xs') /\ erase_slice_events evs = [].
Proof.
  induction names as [|n r IH]; intros xs acc Hex; cbn [load_phase_slices flat_map].
  - exists xs, []. rewrite app_nil_r. split; [reflexivity|]. split; [apply objs_same_refl|reflexivity].
  - assert (Hn : sl_lookup (ns, n) (xs_store xs) <> None) by (apply Hex; now left).
    destruct (sl_lookup (ns, n) (xs_store xs)) as [s|] eqn:El; [|contradiction].
    assert (Hso : slice_objects (xs_store xs) ns n = sl_objects s) by (unfold slice_objects; now rewrite El).
    destruct (is_owner_l id (sl_owners s)).
    + destruct (IH xs (acc ++ sl_objects s)) as (xs' & evs & E & Hsame & Her); [intros m Hm; apply Hex; now right|].
      exists xs', evs. rewrite E, Hso, app_assoc. cbn. repeat split; assumption.
    + set (s' := {| sl_objects := sl_objects s; sl_owners := set_owner_l id (sl_owners s); sl_rv := xs_rv xs |}).
      set (xs1 := {| xs_store := sl_put (ns, n) s' (xs_store xs); xs_rv := xs_rv xs + 1 |}).
      assert (Hs1 : objs_same (xs_store xs) (xs_store xs1)).
      { intros k. cbn. rewrite (sl_lookup_put _ _ _ _ _ El). destruct (slkey_eqb k (ns, n)) eqn:Ek; [|reflexivity].
        apply slkey_eqb_spec in Ek. subst k. now rewrite El. }
      destruct (IH xs1 (acc ++ sl_objects s)) as (xs' & evs & E & Hsame & Her).
      { intros m Hm. apply (objs_same_exists _ _ _ Hs1). apply Hex. now right. }
      assert (Hfm : flat_map (slice_objects (xs_store xs1) ns) r = flat_map (slice_objects (xs_store xs) ns) r)
        by (apply flat_map_ext; intros m; now apply objs_same_slice_objects).
      rewrite Hfm in E.
      exists xs', (XSliceUpdate ns n (sl_owners s') :: evs). rewrite E. cbn [app]. repeat split.
      * now rewrite Hso, app_assoc.
      * eapply objs_same_trans; eauto.
      * cbn. assumption.
Qed.

Definition sphases_exist (st : slstore) (ns : N) (sphs : list sphase) : Prop :=
  forall sp n, In sp sphs -> In n (sp_slices sp) -> sl_lookup (ns, n) st <> None.

(** load_slices_concat: when every referenced slice exists, the loader returns, for each phase, the inline
    objects followed by the contents of the phase's slices in order, whatever owner references it had to add. *)
Theorem load_slices_concat ns id sphs : forall xs,
  sphases_exist (xs_store xs) ns sphs ->
  exists xs' evs,
    load_slices xs ns id sphs = (xs', evs, Some (map (inline_phase (xs_store xs) ns) sphs)) /\
    objs_same (xs_store xs) (xs_store xs') /\ erase_slice_events evs = [].
Proof.
  induction sphs as [|sp r IH]; intros xs Hex; cbn [load_slices map].
  - exists xs, []. split; [reflexivity|]. split; [apply objs_same_refl|reflexivity].
  - destruct (load_phase_slices_spec ns id (sp_slices sp) xs (sp_objects sp)) as (xs1 & e1 & E1 & Hs1 & Her1).
    { intros n Hn. eapply Hex; [now left|assumption]. }
    rewrite E1.
    destruct (IH xs1) as (xs2 & e2 & E2 & Hs2 & Her2).
    { intros sp' n Hsp Hn. apply (objs_same_exists _ _ _ Hs1). eapply Hex; [right; eassumption|assumption]. }
    rewrite E2. exists xs2, (e1 ++ e2). repeat split.
    + assert (Hm : map (inline_phase (xs_store xs1) ns) r = map (inline_phase (xs_store xs) ns) r).
      { apply map_ext. intros sp'. unfold inline_phase. do 2 f_equal.
        apply flat_map_ext. intros m. now apply objs_same_slice_objects. }
      now rewrite Hm.
    + eapply objs_same_trans; eauto.
    + now rewrite erase_app, Her1, Her2.
Qed.

(** With Chunk.v's laws: chunk a phase's object list, store the chunks as slices, load: the identity. *)
Corollary chunk_then_load_identity st ns (objs : list pobj) (chunks : list (list pobj)) names nm cl :
  concat chunks = objs ->
  map (slice_objects st ns) names = chunks ->
  ph_objects (inline_phase st ns {| sp_name := nm; sp_class := cl; sp_objects := []; sp_slices := names |}) = objs.
Proof. intros Hc Hm. cbn. rewrite flat_map_concat_map, Hm. exact Hc. Qed.

Corollary binpack_then_load_identity st ns (size : pobj -> N) limit objs chunks names nm cl :
  (forall x, 0 < size x) ->
  binpack size limit objs = Some chunks ->
  map (slice_objects st ns) names = chunks ->
  ph_objects (inline_phase st ns {| sp_name := nm; sp_class := cl; sp_objects := []; sp_slices := names |}) = objs.
Proof.
  intros Hpos Hb Hm. destruct (binpack_some_laws size limit Hpos _ _ Hb) as (Hc & _).
  eapply chunk_then_load_identity; eauto.
Qed.

Corollary each_then_load_identity st ns (objs : list pobj) names nm cl :
  map (slice_objects st ns) names = each_object objs ->
  ph_objects (inline_phase st ns {| sp_name := nm; sp_class := cl; sp_objects := []; sp_slices := names |}) = objs.
Proof. intros Hm. eapply chunk_then_load_identity; eauto. apply each_concat. Qed.

(** * The ObjectSet pass does not look at the phases of stored ObjectSets
    Replacing the phases of every stored ObjectSet by a function of its identity and stored phases
    commutes with every building block of ObjectSet.v. *)
Section Rephase.
  Variable F : oset -> list phase.
  Hypothesis F_stable : forall s s', os_id s = os_id s' -> os_phases s = os_phases s' -> F s = F s'.

  Definition R (s : oset) : oset := set_phases s (F s).
  Definition Rw (sw : sworld) : sworld := {| sw_w := sw_w sw; sw_sets := map R (sw_sets sw); sw_phases := sw_phases sw; sw_nss := sw_nss sw |}.

  Lemma set_phases_same m : set_phases m (os_phases m) = m.
  Proof. now destruct m. Qed.

  Lemma find_set_R sets k ns n : find_set (map R sets) k ns n = option_map R (find_set sets k ns n).
  Proof.
    unfold find_set. induction sets as [|x r IH]; cbn; [reflexivity|].
    destruct ((oi_kind (os_id x) =? k) && (oi_ns (os_id x) =? ns) && (oi_name (os_id x) =? n)); [reflexivity|exact IH].
  Qed.

  Lemma put_set_R sets s s2 : os_id s2 = os_id s -> R s = s2 -> map R (put_set sets s) = put_set (map R sets) s2.
  Proof.
    intros Hid Hs. induction sets as [|x r IH]; cbn; [now rewrite Hs|].
    rewrite Hid. destruct (oid_eqb (os_id x) (os_id s)); cbn; [now rewrite Hs|now rewrite IH].
  Qed.

  Lemma del_set_R sets id : map R (del_set sets id) = del_set (map R sets) id.
  Proof.
    unfold del_set. induction sets as [|x r IH]; cbn; [reflexivity|].
    destruct (negb (oid_eqb (os_id x) id)); cbn; now rewrite IH.
  Qed.

  Lemma R_with_status stored m p rv : R (with_status stored m rv) = with_status (R stored) (set_phases m p) rv.
  Proof. unfold R, with_status, set_phases. cbn. f_equal. now apply F_stable. Qed.

  Lemma R_set_fin stored fin rv : R (set_fin stored fin rv) = set_fin (R stored) fin rv.
  Proof. unfold R, set_fin, set_phases. cbn. f_equal. now apply F_stable. Qed.

  Lemma update_status_Rw sw m p sw1 m1 ok1 :
    update_status sw m = (sw1, m1, ok1) ->
    exists m2, update_status (Rw sw) (set_phases m p) = (Rw sw1, m2, ok1) /\ (p = F m -> m2 = R m1).
  Proof.
    unfold update_status. cbn [os_id set_phases os_rv Rw sw_sets sw_w]. rewrite find_set_R.
    destruct (find_set (sw_sets sw) (oi_kind (os_id m)) (oi_ns (os_id m)) (oi_name (os_id m))) as [stored|]; cbn [option_map].
    - change (os_rv (R stored)) with (os_rv stored).
      destruct (negb (os_rv stored =? os_rv m)).
      + intros H. injection H as <- <- <-. eexists. split; [reflexivity|]. intros ->. reflexivity.
      + change (status_eqb (R stored) (set_phases m p)) with (status_eqb stored m).
        destruct (status_eqb stored m).
        * intros H. injection H as <- <- <-. eexists. split; [reflexivity|]. intros ->. reflexivity.
        * intros H. injection H as <- <- <-. eexists. split.
          -- unfold Rw. cbn [sw_w sw_sets]. f_equal. f_equal. f_equal.
             symmetry. apply put_set_R; [reflexivity|]. apply R_with_status.
          -- intros _. symmetry. apply R_with_status.
    - intros H. injection H as <- <- <-. eexists. split; [reflexivity|]. intros ->. reflexivity.
  Qed.

  Lemma patch_finalizer_Rw sw m p fin :
    patch_finalizer (Rw sw) (set_phases m p) fin =
    let '(sw', o) := patch_finalizer sw m fin in (Rw sw', option_map R o).
  Proof.
    unfold patch_finalizer. cbn [os_id set_phases os_rv Rw sw_sets sw_w]. rewrite find_set_R.
    destruct (find_set (sw_sets sw) (oi_kind (os_id m)) (oi_ns (os_id m)) (oi_name (os_id m))) as [stored|]; cbn [option_map]; [|reflexivity].
    change (os_rv (R stored)) with (os_rv stored).
    destruct (negb (os_rv stored =? os_rv m)); [reflexivity|].
    change (os_deleting (R stored)) with (os_deleting stored). change (os_orphan (R stored)) with (os_orphan stored).
    change (os_id (R stored)) with (os_id stored).
    destruct (negb fin && os_deleting stored && negb (os_orphan stored)); unfold Rw; cbn [sw_w sw_sets option_map].
    - now rewrite del_set_R, R_set_fin.
    - rewrite R_set_fin. f_equal. f_equal. symmetry. apply put_set_R; [reflexivity|]. apply R_set_fin.
  Qed.

  Lemma scan_prev_R sets s p names latest :
    scan_prev (map R sets) (set_phases s p) names latest = scan_prev sets s names latest.
  Proof.
    revert latest. induction names as [|n r IH]; intros latest; cbn [scan_prev]; [reflexivity|].
    cbn [os_id set_phases]. rewrite find_set_R.
    destruct (find_set sets (oi_kind (os_id s)) (oi_ns (os_id s)) n) as [q|]; cbn [option_map]; [|reflexivity].
    change (os_revision (R q)) with (os_revision q). destruct (Z.eqb (os_revision q) 0); [reflexivity|apply IH].
  Qed.

  Lemma R_set_revision m r : R (set_revision m r) = set_phases (set_revision m r) (F m).
  Proof. unfold R. f_equal. now apply F_stable. Qed.

  Lemma revision_pass_Rw sw m :
    revision_pass (Rw sw) (R m) =
    let '(sw1, e, m1, rr) := revision_pass sw m in (Rw sw1, e, R m1, rr).
  Proof.
    unfold revision_pass. change (os_revision (R m)) with (os_revision m). change (os_prev (R m)) with (os_prev m).
    destruct (negb (Z.eqb (os_revision m) 0)); [reflexivity|].
    destruct (os_prev m) as [|n0 rest] eqn:Eprev.
    - rewrite R_set_revision. reflexivity.
    - change (scan_prev (sw_sets (Rw sw)) (R m)) with (scan_prev (map R (sw_sets sw)) (set_phases m (F m))).
      rewrite scan_prev_R.
      destruct (scan_prev (sw_sets sw) m (n0 :: rest) 0) as [[latest|]|]; try reflexivity.
      destruct (update_status sw (set_revision m (latest + 1))) as [[sw1 m1] ok1] eqn:E.
      destruct (update_status_Rw _ _ (F m) _ _ _ E) as (m2 & E2 & Hm2).
      change (set_revision (R m) (latest + 1)) with (set_phases (set_revision m (latest + 1)) (F m)).
      rewrite E2. rewrite Hm2; [reflexivity|]. now apply F_stable.
  Qed.

  Lemma lookup_prev_R sets s p : lookup_prev (map R sets) (set_phases s p) = lookup_prev sets s.
  Proof.
    unfold lookup_prev. cbn [os_prev os_id set_phases]. apply map_ext. intros n. rewrite find_set_R.
    destruct (find_set sets (oi_kind (os_id s)) (oi_ns (os_id s)) n); reflexivity.
  Qed.

  Lemma lookup_prev_R' sets s : lookup_prev (map R sets) s = lookup_prev sets s.
  Proof. rewrite <- (set_phases_same s) at 1. apply lookup_prev_R. Qed.

  Lemma update_status_Rw_same sw m sw1 m1 ok1 :
    update_status sw m = (sw1, m1, ok1) -> exists m2, update_status (Rw sw) m = (Rw sw1, m2, ok1).
  Proof.
    intros E. destruct (update_status_Rw _ _ (os_phases m) _ _ _ E) as (m2 & E2 & _).
    rewrite set_phases_same in E2. eauto.
  Qed.

  Lemma revision_pass_nz sw m : os_revision m <> 0%Z -> revision_pass sw m = (sw, [], m, RevGo).
  Proof. intros H. unfold revision_pass. apply Z.eqb_neq in H. now rewrite H. Qed.

  Lemma scan_prev_ge sets s names : forall l r, scan_prev sets s names l = Some (Some r) -> (l <= r)%Z.
  Proof.
    induction names as [|n rest IH]; intros l r; cbn [scan_prev].
    - intros H. injection H as <-. lia.
    - destruct (find_set sets (oi_kind (os_id s)) (oi_ns (os_id s)) n) as [q|]; [|discriminate].
      destruct (Z.eqb (os_revision q) 0); [discriminate|]. intros H. apply IH in H. lia.
  Qed.

  Lemma revision_pass_go_nz sw m sw1 e m1 : revision_pass sw m = (sw1, e, m1, RevGo) -> os_revision m1 <> 0%Z.
  Proof.
    unfold revision_pass. destruct (Z.eqb (os_revision m) 0) eqn:Ez; cbn [negb].
    2:{ intros H. injection H as <- <- <-. now apply Z.eqb_neq. }
    destruct (os_prev m) as [|n0 rest].
    - intros H. injection H as <- <- <-. cbn. discriminate.
    - destruct (scan_prev (sw_sets sw) m (n0 :: rest) 0) as [[latest|]|] eqn:Es; try discriminate.
      apply scan_prev_ge in Es.
      destruct (update_status sw (set_revision m (latest + 1))) as [[sw2 m2] ok] eqn:E.
      destruct ok; [|discriminate]. intros H. injection H as <- <- <-.
      assert (Hr : os_revision m2 = (latest + 1)%Z).
      { unfold update_status in E.
        destruct (find_set _ _ _ _) as [stored|]; [|discriminate].
        destruct (negb _); [discriminate|]. destruct (status_eqb _ _); injection E as <- <- ; reflexivity. }
      rewrite Hr. lia.
  Qed.
End Rephase.

Section RephasePass.
  Variable F : oset -> list phase.
  Hypothesis F_stable : forall s s', os_id s = os_id s' -> os_phases s = os_phases s' -> F s = F s'.
  Variable force : bool.
  Notation R := (R F).
  Notation Rw := (Rw F).

  Lemma with_w_Rw sw w : with_w (Rw sw) w = Rw (with_w sw w).
  Proof. reflexivity. Qed.
  Lemma with_phases_Rw sw w phs : with_phases (Rw sw) w phs = Rw (with_phases sw w phs).
  Proof. reflexivity. Qed.
  Lemma sw_phases_Rw sw : sw_phases (Rw sw) = sw_phases sw.
  Proof. reflexivity. Qed.
  Lemma sw_w_Rw sw : sw_w (Rw sw) = sw_w sw.
  Proof. reflexivity. Qed.
  Lemma sw_nss_Rw sw : sw_nss (Rw sw) = sw_nss sw.
  Proof. reflexivity. Qed.
  Lemma sw_sets_Rw sw : sw_sets (Rw sw) = map R (sw_sets sw).
  Proof. reflexivity. Qed.

  (** Case analysis on every scrutinee of the goal (the functions below never look at the stored ObjectSets,
      so both sides of the commutation equations branch on the same terms). *)
  Ltac branches :=
    repeat match goal with
           | |- context [match ?x with _ => _ end] => destruct x
           end; try reflexivity.

  (** The delegated-phase primitives only read and write the phase objects, the namespaces and the counters. *)
  Lemma remote_reconcile_Rw sw s ph rem :
    remote_reconcile (Rw sw) s ph rem =
    let '(sw1, e, rem1, r) := remote_reconcile sw s ph rem in (Rw sw1, e, rem1, r).
  Proof.
    unfold remote_reconcile. rewrite ?sw_phases_Rw, ?sw_w_Rw, ?sw_nss_Rw, ?with_phases_Rw. branches.
  Qed.

  Lemma delete_phase_Rw sw cur : delete_phase (Rw sw) cur = Rw (delete_phase sw cur).
  Proof. unfold delete_phase. rewrite ?sw_phases_Rw, ?sw_w_Rw, ?sw_nss_Rw, ?with_phases_Rw. branches. Qed.

  Lemma remote_teardown_Rw sw s ph :
    remote_teardown (Rw sw) s ph = let '(sw1, e, r) := remote_teardown sw s ph in (Rw sw1, e, r).
  Proof.
    unfold remote_teardown. rewrite ?sw_phases_Rw, ?sw_w_Rw, ?sw_nss_Rw, ?with_phases_Rw. branches;
      now rewrite delete_phase_Rw.
  Qed.

  (** The mixed phase loops over a world with re-phased stored sets. *)
  Lemma reconcile_phases_m_Rw s ow prev phs : forall sw acc rem,
    reconcile_phases_m force (Rw sw) s ow prev phs acc rem =
    let '(sw1, e, rem1, r) := reconcile_phases_m force sw s ow prev phs acc rem in (Rw sw1, e, rem1, r).
  Proof.
    induction phs as [|ph rest IH]; intros sw acc rem; cbn [reconcile_phases_m]; [reflexivity|].
    destruct (ph_class ph).
    - rewrite remote_reconcile_Rw. destruct (remote_reconcile sw s ph rem) as [[[sw1 e1] rem1] [|active [|]]]; try reflexivity.
      rewrite IH. now destruct (reconcile_phases_m force sw1 s ow prev rest (acc ++ active) rem1) as [[[sw2 e2] rem2] r].
    - change (sw_w (Rw sw)) with (sw_w sw).
      destruct (reconcile_phase _ _ (sw_w sw) ow prev false (ph_objects ph)) as [[w1 e1] [e|vs|actual failed]]; try reflexivity.
      destruct failed; [|reflexivity]. rewrite with_w_Rw, IH.
      now destruct (reconcile_phases_m force (with_w sw w1) s ow prev rest _ rem) as [[[sw2 e2] rem2] r].
  Qed.

  Lemma teardown_phases_m_Rw s ow rphs : forall sw,
    teardown_phases_m force (Rw sw) s ow rphs =
    let '(sw1, e, r) := teardown_phases_m force sw s ow rphs in (Rw sw1, e, r).
  Proof.
    induction rphs as [|ph rest IH]; intros sw; cbn [teardown_phases_m]; [reflexivity|].
    destruct (ph_class ph).
    - rewrite remote_teardown_Rw. destruct (remote_teardown sw s ph) as [[sw1 e1] [|[|]]]; try reflexivity.
      rewrite IH. now destruct (teardown_phases_m force sw1 s ow rest) as [[sw2 e2] r].
    - change (sw_w (Rw sw)) with (sw_w sw).
      destruct (teardown_phase _ _ (sw_w sw) ow (ph_objects ph)) as [[w1 e1] [|[|]]]; try reflexivity.
      rewrite with_w_Rw, IH. now destruct (teardown_phases_m force (with_w sw w1) s ow rest) as [[sw2 e2] r].
  Qed.

  Lemma update_status_Rw_proj sw0 mm p :
    update_status (Rw sw0) (set_phases mm p) =
    let '(s1, m1, ok) := update_status sw0 mm in (Rw s1, snd (fst (update_status (Rw sw0) (set_phases mm p))), ok).
  Proof.
    destruct (update_status sw0 mm) as [[s1 m1] ok] eqn:E.
    destruct (update_status_Rw F F_stable _ _ p _ _ _ E) as (m2 & E2 & _). now rewrite E2.
  Qed.

  Lemma update_status_Rw_proj_same sw0 mm :
    update_status (Rw sw0) mm =
    let '(s1, m1, ok) := update_status sw0 mm in (Rw s1, snd (fst (update_status (Rw sw0) mm)), ok).
  Proof.
    destruct (update_status sw0 mm) as [[s1 m1] ok] eqn:E.
    destruct (update_status_Rw_same F F_stable _ _ _ _ _ E) as (m2 & E2). now rewrite E2.
  Qed.

  (** The reconciler loop on one and the same in-memory copy, over a world with re-phased stored sets. *)
  Lemma active_body_Rw_same sw evs m :
    os_revision m <> 0%Z ->
    active_body force (Rw sw) evs m = let '(sw', e, r) := active_body force sw evs m in (Rw sw', e, r).
  Proof.
    intros Hnz. unfold active_body. rewrite !revision_pass_nz by assumption.
    rewrite sw_sets_Rw, lookup_prev_R' by assumption.
    destruct (Nat.ltb 0 (dup_count [] (map (spec_key m) (all_objects m)))).
    - rewrite update_status_Rw_proj_same. now destruct (update_status sw _) as [[s1 m1] ok].
    - rewrite reconcile_phases_m_Rw.
      destruct (reconcile_phases_m force sw m (as_owner m) (lookup_prev (sw_sets sw) m) (os_phases m) [] (os_remotes m))
        as [[[sw2 pevs] rem] pr].
      change (sw_phases (Rw sw2)) with (sw_phases sw2).
      destruct pr as [[]| | |ctrlof failed]; try reflexivity;
        rewrite update_status_Rw_proj_same; now destruct (update_status sw2 _) as [[s1 m1] ok].
  Qed.

  (** The revision reconciler stops the loop (requeue or error): nothing looks at the phases. *)
  Lemma active_body_Rw_stop sw evs m sw1 e1 m1 rr :
    revision_pass sw m = (sw1, e1, m1, rr) -> rr <> RevGo ->
    active_body force (Rw sw) evs (R m) = let '(sw', e, r) := active_body force sw evs m in (Rw sw', e, r).
  Proof.
    intros E Hrr. unfold active_body. rewrite (revision_pass_Rw F F_stable), E.
    destruct rr; [contradiction| |reflexivity].
    change (sw_phases (Rw sw1)) with (sw_phases sw1).
    change (set_conds (R m1) (paused_cond (sw_phases sw1) (R m1)))
      with (set_phases (set_conds m1 (paused_cond (sw_phases sw1) m1)) (F m1)).
    rewrite update_status_Rw_proj. now destruct (update_status sw1 _) as [[s1 mm1] ok].
  Qed.

  (** After the revision reconciler let the loop go on, running it again changes nothing. *)
  Lemma active_body_after_rev sw0 evs0 m sw1 evs1 m1 :
    revision_pass sw0 m = (sw1, evs1, m1, RevGo) ->
    active_body force sw0 evs0 m = let '(sw', e, r) := active_body force sw1 [] m1 in (sw', evs0 ++ evs1 ++ e, r).
  Proof.
    intros E. pose proof (revision_pass_go_nz _ _ _ _ _ E) as Hnz.
    unfold active_body. rewrite E, (revision_pass_nz sw1 m1 Hnz). cbn [app].
    destruct (Nat.ltb 0 (dup_count [] (map (spec_key m1) (all_objects m1)))).
    - destruct (update_status sw1 _) as [[s1 mm1] ok]. now rewrite <- !app_assoc.
    - destruct (reconcile_phases_m force sw1 m1 (as_owner m1) (lookup_prev (sw_sets sw1) m1) (os_phases m1) [] (os_remotes m1))
        as [[[sw2 pevs] rem] pr].
      destruct pr as [[]| | |ctrlof failed]; try reflexivity;
        destruct (update_status sw2 _) as [[s1 mm1] ok]; now rewrite <- !app_assoc.
  Qed.

  Lemma patch_finalizer_Rw_same sw m fin :
    patch_finalizer (Rw sw) m fin = let '(sw', o) := patch_finalizer sw m fin in (Rw sw', option_map R o).
  Proof. rewrite <- (set_phases_same m) at 1. apply (patch_finalizer_Rw F F_stable). Qed.

  (** Deletion / archival on one and the same in-memory copy over a world with re-phased stored sets. *)
  Lemma deletion_pass_Rw_same sw m :
    deletion_pass force (Rw sw) m = let '(sw', e, r) := deletion_pass force sw m in (Rw sw', e, r).
  Proof.
    unfold deletion_pass.
    assert (Htd : (if os_fin m then if os_orphan m then (Rw sw, [], TdOk true)
                   else teardown_phases_m force (Rw sw) m (as_owner m) (rev (os_phases m))
                   else (Rw sw, [], TdOk true)) =
                  let '(s1, e, r) := (if os_fin m then if os_orphan m then (sw, [], TdOk true)
                                      else teardown_phases_m force sw m (as_owner m) (rev (os_phases m))
                                      else (sw, @nil sev, TdOk true)) in (Rw s1, e, r)).
    { destruct (os_fin m); [|reflexivity]. destruct (os_orphan m); [reflexivity|]. apply teardown_phases_m_Rw. }
    rewrite Htd. clear Htd.
    destruct (if os_fin m then if os_orphan m then (sw, [], TdOk true)
              else teardown_phases_m force sw m (as_owner m) (rev (os_phases m)) else (sw, [], TdOk true)) as [[sw1 evs1] tdr].
    destruct tdr as [|[|]].
    - reflexivity.
    - destruct (os_fin m).
      + rewrite patch_finalizer_Rw_same. destruct (patch_finalizer sw1 m false) as [sw2 [mem2|]]; cbn [option_map]; [|reflexivity].
        destruct (lifecycle_eqb (os_life m) LArchived); cbn [negb]; [|reflexivity].
        match goal with |- context [update_status (Rw sw2) ?mm] =>
          change mm with (set_phases (set_conds (set_ctrlof (set_conds mem2 (set_cond (os_conds mem2) (mk_cond mem2 CArchived STrue RArchived))) [])
                                       (remove_cond (os_conds (set_ctrlof (set_conds mem2 (set_cond (os_conds mem2) (mk_cond mem2 CArchived STrue RArchived))) [])) CAvailable))
                                     (F mem2)) end.
        rewrite update_status_Rw_proj. now destruct (update_status sw2 _) as [[s1 mm1] ok].
      + destruct (lifecycle_eqb (os_life m) LArchived); cbn [negb]; [|reflexivity].
        rewrite update_status_Rw_proj_same. now destruct (update_status sw1 _) as [[s1 mm1] ok].
    - destruct (lifecycle_eqb (os_life m) LArchived); cbn [negb]; [|reflexivity].
      rewrite update_status_Rw_proj_same. now destruct (update_status sw1 _) as [[s1 mm1] ok].
  Qed.
End RephasePass.

(** * Sliced pass vs inline pass *)

Lemma inline_phases_stable st t s s' :
  os_id s = os_id s' -> os_phases s = os_phases s' -> inline_phases st t s = inline_phases st t s'.
Proof. intros Hid Hph. unfold inline_phases, set_sphases. now rewrite Hid, Hph. Qed.

Lemma inline_phases_objs_same st st' t s : objs_same st st' -> inline_phases st' t s = inline_phases st t s.
Proof.
  intros H. unfold inline_phases. apply map_ext. intros sp. unfold inline_phase. do 2 f_equal.
  apply flat_map_ext. intros n. now apply objs_same_slice_objects.
Qed.

Lemma inline_sw_objs_same st st' t sw : objs_same st st' -> inline_sw st' t sw = inline_sw st t sw.
Proof.
  intros H. unfold inline_sw. f_equal. apply map_ext. intros s. unfold inline_set. f_equal. now apply inline_phases_objs_same.
Qed.

Lemma slices_exist_spec st t s : slices_exist st t s = true -> sphases_exist st (oi_ns (os_id s)) (set_sphases t s).
Proof.
  unfold slices_exist. rewrite forallb_forall. intros H sp n Hsp Hn. specialize (H sp Hsp).
  rewrite forallb_forall in H. specialize (H n Hn). destruct (sl_lookup _ st); congruence.
Qed.

Section Equiv.
  Variable force : bool.

  Lemma sliced_body_equiv sw0 t xs evs0 mem sw' xs' evs r :
    find_set (sw_sets sw0) (oi_kind (os_id mem)) (oi_ns (os_id mem)) (oi_name (os_id mem)) = Some mem ->
    slices_exist (xs_store xs) t mem = true ->
    sliced_body force sw0 t xs evs0 mem = (sw', xs', evs, r) ->
    active_body force (inline_sw (xs_store xs) t sw0) evs0 (inline_set (xs_store xs) t mem) =
      (inline_sw (xs_store xs) t sw', erase_slice_events evs, r) /\
    objs_same (xs_store xs) (xs_store xs').
  Proof.
    intros Hf Hex. set (st := xs_store xs). pose proof (inline_phases_stable st t) as Hst.
    change (inline_sw st t) with (Rw (inline_phases st t)). change (inline_set st t mem) with (R (inline_phases st t) mem).
    unfold sliced_body. destruct (revision_pass sw0 mem) as [[[sw1 evs1] mem1] rr] eqn:Erev.
    destruct (revision_pass_inv _ _ _ _ _ _ Hf Erev) as ((Hid & Hph & _) & _ & _).
    destruct rr.
    - assert (Hsp : set_sphases t mem1 = set_sphases t mem) by (unfold set_sphases; now rewrite Hid, Hph).
      rewrite Hsp, Hid.
      destruct (load_slices_concat (oi_ns (os_id mem)) (os_id mem) (set_sphases t mem) xs (slices_exist_spec _ _ _ Hex))
        as (xs1 & sevs & El & Hsame & Her).
      rewrite El.
      assert (Hm1 : set_phases mem1 (map (inline_phase (xs_store xs) (oi_ns (os_id mem))) (set_sphases t mem)) = R (inline_phases st t) mem1).
      { unfold R. f_equal. unfold inline_phases. now rewrite Hsp, Hid. }
      rewrite Hm1. destruct (active_body force sw1 [] (R (inline_phases st t) mem1)) as [[sw2 evs2] r2] eqn:E2.
      intros H. injection H as <- <- <- <-. split; [|assumption].
      assert (Erev' : revision_pass (Rw (inline_phases st t) sw0) (R (inline_phases st t) mem) =
                      (Rw (inline_phases st t) sw1, evs1, R (inline_phases st t) mem1, RevGo))
        by (rewrite (revision_pass_Rw _ Hst), Erev; reflexivity).
      rewrite (active_body_after_rev force _ _ _ _ _ _ Erev').
      rewrite (active_body_Rw_same _ Hst force); [|exact (revision_pass_go_nz _ _ _ _ _ Erev')].
      rewrite E2. unfold lift. rewrite !erase_app, !erase_lift, Her. cbn [app]. now rewrite <- app_assoc.
    - destruct (active_body force sw0 evs0 mem) as [[sw2 evs2] r2] eqn:E2.
      intros H. injection H as <- <- <- <-. split; [|apply objs_same_refl].
      rewrite (active_body_Rw_stop _ Hst force _ _ _ _ _ _ _ Erev) by discriminate. rewrite E2. unfold lift. now rewrite erase_lift.
    - destruct (active_body force sw0 evs0 mem) as [[sw2 evs2] r2] eqn:E2.
      intros H. injection H as <- <- <- <-. split; [|apply objs_same_refl].
      rewrite (active_body_Rw_stop _ Hst force _ _ _ _ _ _ _ Erev) by discriminate. rewrite E2. unfold lift. now rewrite erase_lift.
  Qed.

  Lemma sliced_active_equiv sw t xs mem sw' xs' evs r :
    find_set (sw_sets sw) (oi_kind (os_id mem)) (oi_ns (os_id mem)) (oi_name (os_id mem)) = Some mem ->
    slices_exist (xs_store xs) t mem = true ->
    sliced_active force sw t xs mem = (sw', xs', evs, r) ->
    active_pass force (inline_sw (xs_store xs) t sw) (inline_set (xs_store xs) t mem) =
      (inline_sw (xs_store xs) t sw', erase_slice_events evs, r) /\
    objs_same (xs_store xs) (xs_store xs').
  Proof.
    intros Hf Hex. unfold sliced_active, active_pass. change (os_fin (inline_set (xs_store xs) t mem)) with (os_fin mem).
    destruct (os_fin mem); [now apply sliced_body_equiv|].
    pose proof (inline_phases_stable (xs_store xs) t) as Hst.
    change (inline_sw (xs_store xs) t) with (Rw (inline_phases (xs_store xs) t)).
    change (inline_set (xs_store xs) t mem) with (set_phases mem (inline_phases (xs_store xs) t mem)).
    rewrite (patch_finalizer_Rw _ Hst).
    destruct (patch_finalizer sw mem true) as [sw0 [m|]] eqn:Ep; cbn [option_map].
    - pose proof (patch_finalizer_same _ _ _ _ _ Hf Ep) as (Hid & Hph & _).
      assert (Hfm : find_set (sw_sets sw0) (oi_kind (os_id m)) (oi_ns (os_id m)) (oi_name (os_id m)) = Some m).
      { unfold patch_finalizer in Ep. rewrite Hf, N.eqb_refl in Ep. cbn in Ep. injection Ep as <- <-. cbn [sw_sets os_id set_fin].
        apply (find_put_set (sw_sets sw) (set_fin mem true (w_rv (sw_w sw))) mem). exact Hf. }
      assert (Hexm : slices_exist (xs_store xs) t m = true)
        by (unfold slices_exist, set_sphases in *; now rewrite Hid, Hph).
      intros H. exact (sliced_body_equiv _ _ _ _ _ _ _ _ _ Hfm Hexm H).
    - intros H. injection H as <- <- <- <-. split; [reflexivity|apply objs_same_refl].
  Qed.

  Definition is_going (mem : oset) : bool :=
    negb (cond_true (os_conds mem) CArchived) && (os_deleting mem || lifecycle_eqb (os_life mem) LArchived).
  Definition is_activeb (mem : oset) : bool :=
    negb (cond_true (os_conds mem) CArchived) && negb (os_deleting mem || lifecycle_eqb (os_life mem) LArchived).

  Lemma find_set_self sets k ns n mem :
    find_set sets k ns n = Some mem ->
    find_set sets (oi_kind (os_id mem)) (oi_ns (os_id mem)) (oi_name (os_id mem)) = Some mem.
  Proof. intros H. destruct (find_set_id _ _ _ _ _ H) as (-> & -> & ->). exact H. Qed.

  Lemma inline_of_find x k ns n :
    find_set (sw_sets (inline_of x)) k ns n =
    option_map (inline_set (xs_store (xw_sl x)) (xw_refs x)) (find_set (sw_sets (xw_sw x)) k ns n).
  Proof. unfold inline_of, inline_sw. cbn [sw_sets]. apply (find_set_R (inline_phases _ _)). Qed.

  (** sliced_equiv_active: for an ObjectSet that is neither deleted nor archived and whose slices all
      exist, the pass on the sliced ObjectSet issues the requests of the pass on the inline ObjectSet plus
      owner-reference updates of slices, returns the same result, and ends in the corresponding world. *)
  Theorem sliced_equiv_active x kind ns name mem x' evs r :
    find_set (sw_sets (xw_sw x)) kind ns name = Some mem ->
    is_going mem = false ->
    slices_exist (xs_store (xw_sl x)) (xw_refs x) mem = true ->
    sliced_pass force x kind ns name = (x', evs, r) ->
    objectset_pass force (inline_of x) kind ns name = (inline_of x', erase_slice_events evs, r) /\
    xw_refs x' = xw_refs x /\ objs_same (xs_store (xw_sl x)) (xs_store (xw_sl x')).
  Proof.
    intros Hf Hgo Hex. unfold sliced_pass, objectset_pass. rewrite inline_of_find, Hf. cbn [option_map].
    change (os_conds (inline_set _ _ mem)) with (os_conds mem). change (os_deleting (inline_set _ _ mem)) with (os_deleting mem).
    change (os_life (inline_set _ _ mem)) with (os_life mem).
    unfold is_going in Hgo. destruct (cond_true (os_conds mem) CArchived).
    - intros H. injection H as <- <- <-. repeat split; try apply objs_same_refl.
    - cbn in Hgo. rewrite Hgo.
      destruct (sliced_active force (xw_sw x) (xw_refs x) (xw_sl x) mem) as [[[sw' xs'] e'] r'] eqn:E.
      destruct (sliced_active_equiv _ _ _ _ _ _ _ _ (find_set_self _ _ _ _ _ Hf) Hex E) as [Ha Hs].
      unfold mk_x. intros H. injection H as <- <- <-. cbn [xw_refs xw_sl xw_sw]. split; [|split; [reflexivity|assumption]].
      unfold inline_of at 1. rewrite Ha. unfold inline_of. cbn [xw_refs xw_sl xw_sw]. now rewrite (inline_sw_objs_same _ _ _ _ Hs).
  Qed.

  (** sliced_equiv_teardown_partial: what does hold for the pass as it is. A deleted or archived ObjectSet
      is torn down exactly like the ObjectSet *as stored*, i.e. with the inline part of its phases only;
      no slice is read or written. Missing: the objects that live in slices. *)
  Theorem sliced_equiv_teardown_partial x kind ns name mem x' evs r :
    find_set (sw_sets (xw_sw x)) kind ns name = Some mem ->
    is_going mem = true ->
    sliced_pass force x kind ns name = (x', evs, r) ->
    objectset_pass force (xw_sw x) kind ns name = (xw_sw x', erase_slice_events evs, r) /\
    xw_refs x' = xw_refs x /\ xw_sl x' = xw_sl x /\ slice_events evs = [].
  Proof.
    intros Hf Hgo. unfold sliced_pass, objectset_pass. rewrite Hf. unfold is_going in Hgo.
    destruct (cond_true (os_conds mem) CArchived); [discriminate|]. cbn in Hgo. rewrite Hgo.
    destruct (deletion_pass force (xw_sw x) mem) as [[sw' e'] r']. unfold mk_x.
    intros H. injection H as <- <- <-. cbn [xw_refs xw_sl xw_sw]. unfold lift. rewrite erase_lift. repeat split.
    induction e' as [|a l IH]; [reflexivity|exact IH].
  Qed.

  (** ... hence the full equivalence with the inline ObjectSet exactly when the slices contribute nothing. *)
  Corollary sliced_equiv_teardown_no_slice_objects x kind ns name mem x' evs r :
    find_set (sw_sets (xw_sw x)) kind ns name = Some mem ->
    is_going mem = true ->
    inline_phases (xs_store (xw_sl x)) (xw_refs x) mem = os_phases mem ->
    sliced_pass force x kind ns name = (x', evs, r) ->
    objectset_pass force (inline_of x) kind ns name = (inline_of x', erase_slice_events evs, r).
  Proof.
    intros Hf Hgo Hnone Hp. destruct (sliced_equiv_teardown_partial _ _ _ _ _ _ _ _ Hf Hgo Hp) as (Ho & Hr & Hs & _).
    unfold objectset_pass in *. rewrite inline_of_find. rewrite Hf in *. cbn [option_map].
    change (os_conds (inline_set _ _ mem)) with (os_conds mem). change (os_deleting (inline_set _ _ mem)) with (os_deleting mem).
    change (os_life (inline_set _ _ mem)) with (os_life mem).
    unfold is_going in Hgo. destruct (cond_true (os_conds mem) CArchived); [discriminate|]. cbn in Hgo. rewrite Hgo in *.
    assert (Hm : inline_set (xs_store (xw_sl x)) (xw_refs x) mem = mem) by (unfold inline_set; rewrite Hnone; apply set_phases_same).
    rewrite Hm. unfold inline_of at 1. change (inline_sw ?s ?t) with (Rw (inline_phases s t)).
    rewrite (deletion_pass_Rw_same _ (inline_phases_stable _ _) force), Ho. unfold inline_of. now rewrite Hr, Hs.
  Qed.

  (** The repair candidate is equivalent in every lifecycle state. *)
  Theorem sliced_fixed_equiv x kind ns name mem x' evs r :
    find_set (sw_sets (xw_sw x)) kind ns name = Some mem ->
    slices_exist (xs_store (xw_sl x)) (xw_refs x) mem = true ->
    sliced_pass_fixed force x kind ns name = (x', evs, r) ->
    objectset_pass force (inline_of x) kind ns name = (inline_of x', erase_slice_events evs, r) /\
    xw_refs x' = xw_refs x /\ objs_same (xs_store (xw_sl x)) (xs_store (xw_sl x')).
  Proof.
    intros Hf Hex. destruct (is_going mem) eqn:Hgo.
    - unfold sliced_pass_fixed, objectset_pass. rewrite inline_of_find, Hf. cbn [option_map].
      change (os_conds (inline_set _ _ mem)) with (os_conds mem). change (os_deleting (inline_set _ _ mem)) with (os_deleting mem).
      change (os_life (inline_set _ _ mem)) with (os_life mem).
      unfold is_going in Hgo. destruct (cond_true (os_conds mem) CArchived); [discriminate|]. cbn in Hgo. rewrite Hgo.
      unfold inline_of at 1. change (inline_sw ?s ?t) with (Rw (inline_phases s t)).
      rewrite (deletion_pass_Rw_same _ (inline_phases_stable _ _) force).
      destruct (deletion_pass force (xw_sw x) _) as [[sw' e'] r']. unfold mk_x.
      intros H. injection H as <- <- <-. cbn [xw_refs xw_sl xw_sw]. unfold lift. rewrite erase_lift.
      repeat split; try apply objs_same_refl.
    - intros H. apply (sliced_equiv_active x kind ns name mem x' evs r Hf Hgo Hex).
      unfold sliced_pass_fixed in H. unfold sliced_pass. rewrite Hf in *. unfold is_going in Hgo.
      destruct (cond_true (os_conds mem) CArchived); [exact H|]. cbn in Hgo. now rewrite Hgo in *.
  Qed.

  (** Teardown of the repaired wrapper needs no hypothesis on the slices: a referenced slice that does not exist
      contributes nothing and does not stop the loading of the later ones, so a deleted / archived ObjectSet is
      torn down exactly like the inline ObjectSet that carries the objects of the slices that exist. *)
  Theorem sliced_fixed_equiv_teardown x kind ns name mem x' evs r :
    find_set (sw_sets (xw_sw x)) kind ns name = Some mem ->
    is_going mem = true ->
    sliced_pass_fixed force x kind ns name = (x', evs, r) ->
    objectset_pass force (inline_of x) kind ns name = (inline_of x', erase_slice_events evs, r) /\
    xw_refs x' = xw_refs x /\ xw_sl x' = xw_sl x.
  Proof.
    intros Hf Hgo. unfold sliced_pass_fixed, objectset_pass. rewrite inline_of_find, Hf. cbn [option_map].
    change (os_conds (inline_set _ _ mem)) with (os_conds mem). change (os_deleting (inline_set _ _ mem)) with (os_deleting mem).
    change (os_life (inline_set _ _ mem)) with (os_life mem).
    unfold is_going in Hgo. destruct (cond_true (os_conds mem) CArchived); [discriminate|]. cbn in Hgo. rewrite Hgo.
    unfold inline_of at 1. change (inline_sw ?s ?t) with (Rw (inline_phases s t)).
    rewrite (deletion_pass_Rw_same _ (inline_phases_stable _ _) force).
    destruct (deletion_pass force (xw_sw x) _) as [[sw' e'] r']. unfold mk_x.
    intros H. injection H as <- <- <-. cbn [xw_refs xw_sl xw_sw]. unfold lift. rewrite erase_lift. repeat split.
  Qed.
End Equiv.

(** What the teardown handler loads for a phase: the inline objects, then the objects of the referenced slices
    that exist, in the order they are listed. *)
Definition existing_slices (st : slstore) (ns : N) (names : list N) : list slice :=
  flat_map (fun n => match sl_lookup (ns, n) st with Some s => [s] | None => [] end) names.

Lemma inline_phase_existing st ns sp :
  ph_objects (inline_phase st ns sp) = sp_objects sp ++ flat_map sl_objects (existing_slices st ns (sp_slices sp)).
Proof.
  unfold inline_phase, existing_slices. cbn [ph_objects]. f_equal.
  induction (sp_slices sp) as [|n r IH]; [reflexivity|]. cbn [flat_map]. rewrite flat_map_app, IH. f_equal.
  unfold slice_objects. destruct (sl_lookup (ns, n) st); cbn; [now rewrite app_nil_r|reflexivity].
Qed.

(** * A slice that cannot be loaded *)

Lemma sl_lookup_put_none k k' s st : sl_lookup k' st <> None -> (sl_lookup k (sl_put k' s st) = None <-> sl_lookup k st = None).
Proof.
  intros H. destruct (sl_lookup k' st) as [s0|] eqn:E; [|contradiction]. rewrite (sl_lookup_put _ _ _ _ _ E).
  destruct (slkey_eqb k k') eqn:Ek; [|tauto]. apply slkey_eqb_spec in Ek. subst. rewrite E. split; discriminate.
Qed.

Lemma load_phase_slices_erase ns id names : forall xs acc xs' evs r,
  load_phase_slices xs ns id names acc = (xs', evs, r) -> erase_slice_events evs = [].
Proof.
  induction names as [|n rest IH]; intros xs acc xs' evs r; cbn [load_phase_slices].
  - intros H. now injection H as <- <- <-.
  - destruct (sl_lookup (ns, n) (xs_store xs)) as [s|]; [|intros H; now injection H as <- <- <-].
    destruct (is_owner_l id (sl_owners s)).
    + destruct (load_phase_slices xs ns id rest (acc ++ sl_objects s)) as [[xs2 e2] res] eqn:E.
      intros H. injection H as <- <- <-. cbn [app]. eapply IH; eauto.
    + destruct (load_phase_slices _ ns id rest (acc ++ sl_objects s)) as [[xs2 e2] res] eqn:E.
      intros H. injection H as <- <- <-. cbn. eapply IH; eauto.
Qed.

Lemma load_phase_slices_some ns id names : forall xs acc xs' evs r,
  load_phase_slices xs ns id names acc = (xs', evs, Some r) ->
  (forall n, In n names -> sl_lookup (ns, n) (xs_store xs) <> None) /\
  (forall k, sl_lookup k (xs_store xs') = None <-> sl_lookup k (xs_store xs) = None).
Proof.
  induction names as [|n rest IH]; intros xs acc xs' evs r; cbn [load_phase_slices].
  - intros H. injection H as <- <- <-. split; [intros n []|tauto].
  - destruct (sl_lookup (ns, n) (xs_store xs)) as [s|] eqn:El; [|discriminate].
    destruct (is_owner_l id (sl_owners s)).
    + destruct (load_phase_slices xs ns id rest (acc ++ sl_objects s)) as [[xs2 e2] [res|]] eqn:E; [|discriminate].
      intros H. injection H as <- <- <-. destruct (IH _ _ _ _ _ E) as [H1 H2]. split; [|exact H2].
      intros m [<-|Hm]; [congruence|auto].
    + match goal with |- context [load_phase_slices ?xs1 ns id rest ?a] =>
        destruct (load_phase_slices xs1 ns id rest a) as [[xs2 e2] [res|]] eqn:E; [|discriminate] end.
      intros H. injection H as <- <- <-. destruct (IH _ _ _ _ _ E) as [H1 H2]. cbn [xs_store] in H1, H2.
      assert (Hn : sl_lookup (ns, n) (xs_store xs) <> None) by congruence.
      split.
      * intros m [<-|Hm]; [assumption|]. intros Hnone. apply (H1 m Hm). now apply sl_lookup_put_none.
      * intros k. rewrite H2. now apply sl_lookup_put_none.
Qed.

Lemma load_slices_erase ns id sphs : forall xs xs' evs r,
  load_slices xs ns id sphs = (xs', evs, r) -> erase_slice_events evs = [].
Proof.
  induction sphs as [|sp rest IH]; intros xs xs' evs r; cbn [load_slices].
  - intros H. now injection H as <- <- <-.
  - destruct (load_phase_slices xs ns id (sp_slices sp) (sp_objects sp)) as [[xs1 e1] [objs|]] eqn:E1.
    + pose proof (load_phase_slices_erase _ _ _ _ _ _ _ _ E1) as He1.
      destruct (load_slices xs1 ns id rest) as [[xs2 e2] [phs|]] eqn:E2; intros H; injection H as <- <- <-;
        rewrite erase_app, He1; eapply IH; eauto.
    + intros H. injection H as <- <- <-. eapply load_phase_slices_erase; eauto.
Qed.

Lemma load_slices_some ns id sphs : forall xs xs' evs r,
  load_slices xs ns id sphs = (xs', evs, Some r) -> sphases_exist (xs_store xs) ns sphs.
Proof.
  induction sphs as [|sp rest IH]; intros xs xs' evs r; cbn [load_slices].
  - intros _ sp n [].
  - destruct (load_phase_slices xs ns id (sp_slices sp) (sp_objects sp)) as [[xs1 e1] [objs|]] eqn:E1; [|discriminate].
    destruct (load_slices xs1 ns id rest) as [[xs2 e2] [phs|]] eqn:E2; [|discriminate]. intros _.
    destruct (load_phase_slices_some _ _ _ _ _ _ _ _ E1) as [H1 H2]. pose proof (IH _ _ _ _ E2) as H3.
    intros sp' n [<-|Hsp] Hn; [now apply H1|]. intros Hnone. apply (H3 sp' n Hsp Hn). now apply H2.
Qed.

Lemma slices_exist_false st t s : slices_exist st t s = false -> ~ sphases_exist st (oi_ns (os_id s)) (set_sphases t s).
Proof.
  intros Hf Hex. assert (slices_exist st t s = true); [|congruence].
  unfold slices_exist. apply forallb_forall. intros sp Hsp. apply forallb_forall. intros n Hn.
  specialize (Hex sp n Hsp Hn). now destruct (sl_lookup _ st).
Qed.

Section Missing.
  Variable force : bool.

  Lemma sliced_body_missing sw0 t xs evs0 mem mem0 sw' xs' evs r :
    find_set (sw_sets sw0) (oi_kind (os_id mem)) (oi_ns (os_id mem)) (oi_name (os_id mem)) = Some mem ->
    same_spec mem mem0 ->
    slices_exist (xs_store xs) t mem = false ->
    Forall (status_keeps mem0) evs0 ->
    sliced_body force sw0 t xs evs0 mem = (sw', xs', evs, r) ->
    Forall (status_keeps mem0) (erase_slice_events evs) /\ w_store (sw_w sw') = w_store (sw_w sw0) /\ sw_phases sw' = sw_phases sw0.
  Proof.
    intros Hf Hs0 Hex Hev0. unfold sliced_body.
    destruct (revision_pass sw0 mem) as [[[sw1 evs1] mem1] rr] eqn:Erev.
    destruct (revision_pass_inv _ _ _ _ _ _ Hf Erev) as (Hs1 & Hst1 & Hph1 & _ & Hev1).
    assert (Hc0 : os_conds mem = os_conds mem0) by (destruct Hs0 as (?&?&?&?&?&Hc&?); exact Hc).
    assert (Hev1' : Forall (status_keeps mem0) evs1).
    { eapply Forall_impl; [|exact Hev1]. intros e. apply status_keeps_same; now rewrite Hc0. }
    destruct rr.
    - destruct Hs1 as (Hid & Hph & _).
      assert (Hsp : set_sphases t mem1 = set_sphases t mem) by (unfold set_sphases; now rewrite Hid, Hph).
      rewrite Hsp, Hid.
      destruct (load_slices xs (oi_ns (os_id mem)) (os_id mem) (set_sphases t mem)) as [[xs1 sevs] [phs|]] eqn:El.
      + exfalso. apply (slices_exist_false _ _ _ Hex). eapply load_slices_some; eauto.
      + intros H. injection H as <- <- <- <-. pose proof (load_slices_erase _ _ _ _ _ _ _ El) as Her.
        unfold lift. rewrite erase_app, erase_lift, Her, app_nil_r. repeat split; auto. now apply Forall_app.
    - (* RevRequeue *)
      unfold active_body. rewrite Erev.
      destruct (update_status sw1 _) as [[sw2 m2] ok] eqn:Eu.
      intros H. injection H as <- <- <- <-. unfold lift. rewrite erase_lift.
      pose proof (update_status_store _ _ _ _ _ Eu) as (Hst2 & Hph2 & _).
      split; [|split; congruence].
      apply Forall_app. split; [assumption|]. apply Forall_app. split; [assumption|].
      apply Forall_app. split; [apply paused_reads_keep|]. constructor; [|constructor].
      assert (Hc1 : os_conds mem1 = os_conds mem0) by (destruct Hs1 as (?&?&?&?&?&Hc&?); congruence).
      unfold status_ev, status_ev_f, status_keeps. cbn [os_conds set_conds]. rewrite !paused_cond_other by discriminate.
      rewrite Hc1. auto.
    - unfold active_body. rewrite Erev. intros H. injection H as <- <- <- <-. unfold lift. rewrite erase_lift.
      repeat split; auto. now apply Forall_app.
  Qed.

  (** An ObjectSet that is neither deleted nor archived and references a slice that does not exist: the pass
      writes no member object and no ObjectSetPhase object, and every status it sends carries the stored
      Available / Succeeded conditions unchanged or Available=False (it never newly claims availability);
      member objects and phase objects are untouched. *)
  Theorem sliced_missing_slice_no_rollout x kind ns name mem x' evs r :
    find_set (sw_sets (xw_sw x)) kind ns name = Some mem ->
    is_going mem = false ->
    slices_exist (xs_store (xw_sl x)) (xw_refs x) mem = false ->
    sliced_pass force x kind ns name = (x', evs, r) ->
    Forall (status_keeps mem) (erase_slice_events evs) /\
    w_store (sw_w (xw_sw x')) = w_store (sw_w (xw_sw x)) /\ sw_phases (xw_sw x') = sw_phases (xw_sw x).
  Proof.
    intros Hf Hgo Hex. unfold sliced_pass. rewrite Hf. unfold is_going in Hgo.
    destruct (cond_true (os_conds mem) CArchived).
    - intros H. injection H as <- <- <-. repeat split. constructor.
    - cbn in Hgo. rewrite Hgo. pose proof (find_set_self _ _ _ _ _ Hf) as Hf0.
      unfold sliced_active. destruct (os_fin mem).
      + destruct (sliced_body force (xw_sw x) (xw_refs x) (xw_sl x) [] mem) as [[[sw' xs'] e'] r'] eqn:E.
        unfold mk_x. intros H. injection H as <- <- <-. cbn [xw_sw].
        exact (sliced_body_missing _ _ _ _ _ mem _ _ _ _ Hf0 (same_spec_refl _) Hex (Forall_nil _) E).
      + destruct (patch_finalizer (xw_sw x) mem true) as [sw0 [m|]] eqn:Ep.
        * pose proof (patch_finalizer_same _ _ _ _ _ Hf0 Ep) as Hsm. pose proof (patch_finalizer_store _ _ _ _ _ Ep) as (Hst & Hph & _).
          assert (Hfm : find_set (sw_sets sw0) (oi_kind (os_id m)) (oi_ns (os_id m)) (oi_name (os_id m)) = Some m).
          { unfold patch_finalizer in Ep. rewrite Hf0, N.eqb_refl in Ep. cbn in Ep. injection Ep as <- <-. cbn [sw_sets os_id set_fin].
            apply (find_put_set (sw_sets (xw_sw x)) (set_fin mem true (w_rv (sw_w (xw_sw x)))) mem). exact Hf0. }
          assert (Hexm : slices_exist (xs_store (xw_sl x)) (xw_refs x) m = false).
          { destruct Hsm as (Hid & Hph' & _). unfold slices_exist, set_sphases in *. now rewrite Hid, Hph'. }
          destruct (sliced_body force sw0 (xw_refs x) (xw_sl x) [SMeta (MFinalizer true true)] m) as [[[sw' xs'] e'] r'] eqn:E.
          unfold mk_x. intros H. injection H as <- <- <-. cbn [xw_sw].
          assert (Hev0 : Forall (status_keeps mem) [SMeta (MFinalizer true true)]) by (constructor; [exact I|constructor]).
          destruct (sliced_body_missing _ _ _ _ _ mem _ _ _ _ Hfm Hsm Hexm Hev0 E) as (H1 & H2 & H3).
          repeat split; [assumption|congruence|congruence].
        * unfold mk_x. intros H. injection H as <- <- <-. cbn [xw_sw].
          pose proof (patch_finalizer_store _ _ _ _ _ Ep) as (Hst & Hph & _). repeat split; auto.
          constructor; [exact I|constructor].
  Qed.

  (** The active path of the repaired wrapper is the same, so the statement holds for it as well. *)
  Corollary sliced_missing_slice_no_rollout_fixed fault x kind ns name mem x' evs r :
    find_set (sw_sets (xw_sw x)) kind ns name = Some mem ->
    is_going mem = false ->
    slices_exist (xs_store (xw_sl x)) (xw_refs x) mem = false ->
    sliced_pass_faulty force fault x kind ns name = (x', evs, r) ->
    Forall (status_keeps mem) (erase_slice_events evs) /\
    w_store (sw_w (xw_sw x')) = w_store (sw_w (xw_sw x)) /\ sw_phases (xw_sw x') = sw_phases (xw_sw x).
  Proof.
    intros Hf Hgo Hex H. apply (sliced_missing_slice_no_rollout x kind ns name mem x' evs r Hf Hgo Hex).
    unfold sliced_pass_faulty in H. unfold sliced_pass. rewrite Hf in *. unfold is_going in Hgo.
    destruct (cond_true (os_conds mem) CArchived); [exact H|]. cbn in Hgo. now rewrite Hgo in *.
  Qed.

  (** Without a failing read the faulty wrapper is the repaired wrapper ... *)
  Lemma sliced_pass_faulty_none x kind ns name :
    sliced_pass_faulty force None x kind ns name = sliced_pass_fixed force x kind ns name.
  Proof.
    unfold sliced_pass_faulty, sliced_pass_fixed, fault_hits. destruct (find_set _ _ _ _) as [mem|]; [|reflexivity].
    now rewrite andb_false_r.
  Qed.

  (** ... and a read of a slice that fails with anything but NotFound while a deleted / archived ObjectSet is torn
      down makes the pass inert: no request at all (no member delete, the finalizer stays, no Archived=True, no
      status), the world is unchanged and the pass ends with an error (it is retried). *)
  Theorem teardown_read_fault_inert i x kind ns name mem :
    find_set (sw_sets (xw_sw x)) kind ns name = Some mem ->
    is_going mem = true -> os_fin mem = true ->
    (i < slice_reads (set_sphases (xw_refs x) mem))%nat ->
    sliced_pass_faulty force (Some i) x kind ns name = (x, [], SError).
  Proof.
    intros Hf Hgo Hfin Hi. unfold sliced_pass_faulty. rewrite Hf. unfold is_going in Hgo.
    destruct (cond_true (os_conds mem) CArchived); [discriminate|]. cbn in Hgo. rewrite Hgo.
    unfold fault_hits. rewrite Hfin. apply Nat.ltb_lt in Hi. now rewrite Hi.
  Qed.
End Missing.

(** * sliced_equiv_teardown is refuted for the pass as it is (F-C14) *)

Definition has_delete (l : list sev) : bool :=
  existsb (fun e => match e with SMember (EDelete _ _ _ _ _ DOk) => true | _ => false end) l.
Definition no_member (l : list sev) : bool :=
  forallb (fun e => match e with SMember _ => false | _ => true end) l.
Definition finalizer_removed (l : list sev) : bool :=
  existsb (fun e => match e with SMeta (MFinalizer false true) => true | _ => false end) l.
Definition archived_reported (l : list sev) : bool :=
  existsb (fun e => match e with SMeta (MStatus _ cs _ _ _ true) => cond_true cs CArchived | _ => false end) l.

(** The witness: ObjectSet ns1/n10 with the cached finalizer, one phase without inline objects that
    references slice n7; the slice holds ConfigMap n1, which exists and is controlled by the ObjectSet. *)
Definition wit_id : oid := {| oi_kind := 1; oi_ns := 1; oi_name := 10; oi_uid := 100 |}.
Definition wit_pobj : pobj :=
  {| po_gk := 1; po_ns := 0; po_name := 1; po_body := 1; po_cp := CPPrevent; po_ownerrefs := false; po_dryreject := false |}.
Definition wit_obj : obj :=
  {| o_uid := 7; o_rv := 8; o_gen := 1; o_owners := [ctrl_ref wit_id]; o_aowners := []; o_rev := RevNum 1;
     o_cache := true; o_pkg := 0; o_body := 1; o_avail := 0; o_obsgen := None; o_deleting := false; o_fin := false |}.
Definition wit_set (deleting : bool) (life : lifecycle) : oset :=
  {| os_id := wit_id; os_rv := 5; os_gen := 1; os_deleting := deleting; os_fin := true; os_orphan := false; os_pkg := 0;
     os_life := life; os_phases := [{| ph_name := 1; ph_class := false; ph_objects := [] |}]; os_prev := [];
     os_revision := 1; os_conds := []; os_ctrlof := [{| k_gk := 1; k_ns := 1; k_name := 1 |}]; os_remotes := [] |}.
Definition wit_world (deleting : bool) (life : lifecycle) : xworld :=
  {| xw_sw := {| sw_w := {| w_store := [({| k_gk := 1; k_ns := 1; k_name := 1 |}, wit_obj)]; w_rv := 50; w_uid := 60 |};
                 sw_sets := [wit_set deleting life]; sw_phases := []; sw_nss := [] |};
     xw_refs := [(1, 1, 10, [[7]])];
     xw_sl := {| xs_store := [((1, 7), {| sl_objects := [wit_pobj]; sl_owners := [plain_ref wit_id]; sl_rv := 3 |})];
                 xs_rv := 4 |} |}.

Definition pass_events {W} (r : W * list xev * sres) : list sev := erase_slice_events (snd (fst r)).
Definition ipass_events (r : sworld * list sev * sres) : list sev := snd (fst r).

(** Deletion: the inline ObjectSet deletes its object; the sliced one removes its finalizer (and is gone)
    without a single member request: the object is left to the cluster's garbage collector, out of order. *)
Theorem sliced_teardown_refuted :
  exists x kind ns name mem,
    find_set (sw_sets (xw_sw x)) kind ns name = Some mem /\ os_deleting mem = true /\
    slices_exist (xs_store (xw_sl x)) (xw_refs x) mem = true /\
    has_delete (ipass_events (objectset_pass false (inline_of x) kind ns name)) = true /\
    no_member (pass_events (sliced_pass false x kind ns name)) = true /\
    finalizer_removed (pass_events (sliced_pass false x kind ns name)) = true /\
    find_set (sw_sets (xw_sw (fst (fst (sliced_pass false x kind ns name))))) kind ns name = None.
Proof. exists (wit_world true LActive), 1, 1, 10, (wit_set true LActive). vm_compute. repeat split. Qed.

(** Archival: the inline ObjectSet deletes its object; the sliced one reports Archived=True and never
    touches it again (the first line of Reconcile returns for Archived=True). *)
Theorem sliced_archival_refuted :
  exists x kind ns name mem,
    find_set (sw_sets (xw_sw x)) kind ns name = Some mem /\ os_life mem = LArchived /\
    slices_exist (xs_store (xw_sl x)) (xw_refs x) mem = true /\
    has_delete (ipass_events (objectset_pass false (inline_of x) kind ns name)) = true /\
    no_member (pass_events (sliced_pass false x kind ns name)) = true /\
    archived_reported (pass_events (sliced_pass false x kind ns name)) = true /\
    (let x' := fst (fst (sliced_pass false x kind ns name)) in
     lookup {| k_gk := 1; k_ns := 1; k_name := 1 |} (w_store (sw_w (xw_sw x'))) <> None /\
     sliced_pass false x' kind ns name = (x', [], SNothing)).
Proof.
  exists (wit_world false LArchived), 1, 1, 10, (wit_set false LArchived). vm_compute.
  repeat split; discriminate.
Qed.

(** The equation of sliced_equiv_active does not extend to deleted / archived ObjectSets. *)
Corollary sliced_equiv_teardown_refuted :
  exists x kind ns name mem,
    find_set (sw_sets (xw_sw x)) kind ns name = Some mem /\
    slices_exist (xs_store (xw_sl x)) (xw_refs x) mem = true /\
    pass_events (sliced_pass false x kind ns name) <> ipass_events (objectset_pass false (inline_of x) kind ns name).
Proof. exists (wit_world true LActive), 1, 1, 10, (wit_set true LActive). vm_compute. repeat split. discriminate. Qed.

(** * The ObjectDeployment controller's view of a sliced revision *)

Lemma flat_map_app_perm {A B} (f g : A -> list B) l :
  Permutation (flat_map (fun x => f x ++ g x) l) (flat_map f l ++ flat_map g l).
Proof.
  induction l as [|x l IH]; cbn; [constructor|].
  rewrite <- !app_assoc. apply Permutation_app_head.
  eapply Permutation_trans; [apply Permutation_app_head; exact IH|]. apply Permutation_app_swap_app.
Qed.

(** If every referenced slice exists the archive reconciler sees exactly the objects of the ObjectSet with the
    slices inlined (as a multiset: the inline objects of all phases come first). *)
Theorem deploy_objects_inline st t s l :
  deploy_objects st t s = Some l ->
  Permutation l (map (spec_key (inline_set st t s)) (all_objects (inline_set st t s))).
Proof.
  unfold deploy_objects. destruct (slices_exist st t s); [|discriminate]. intros H. injection H as <-.
  rewrite <- map_app. change (spec_key (inline_set st t s)) with (spec_key s). apply Permutation_map.
  unfold all_objects, inline_set, inline_phases. cbn [os_phases set_phases os_id].
  assert (Hfm : forall l, flat_map ph_objects (map (inline_phase st (oi_ns (os_id s))) l) =
                           flat_map (fun sp => sp_objects sp ++ flat_map (slice_objects st (oi_ns (os_id s))) (sp_slices sp)) l)
    by (induction l as [|x l IH]; cbn; [reflexivity|now rewrite IH]).
  rewrite Hfm. apply Permutation_sym. apply flat_map_app_perm.
Qed.

Lemma deploy_objects_none st t s : deploy_objects st t s = None <-> slices_exist st t s = false.
Proof. unfold deploy_objects. destruct (slices_exist st t s); split; congruence. Qed.
