(** C10: concrete worlds that meet the premises of [QuiescenceProofs.pass_fixpoint] non-trivially, and the
    witness showing that the premise on delegated phases cannot be dropped. Evaluated by [vm_compute]. *)
From Coq Require Import List NArith ZArith Bool.
From PKO Require Import Util Base BaseProofs Owner Api Phase PhaseProofs AdoptProofs FixpointProofs ObjectSet ObjectSetProofs SetExamples
  QuiescenceProofs.
Import ListNotations.
Local Open Scope N_scope.

(** a sufficient, checkable condition for [members_wf]: every stored object passes [obj_wfb] *)
Lemma lookup_in k s o : lookup k s = Some o -> exists k', In (k', o) s.
Proof.
  induction s as [|[k' o'] r IH]; cbn; [discriminate|]. destruct (okey_eqb k k').
  - intros H. injection H as ->. exists k'. now left.
  - intros H. destruct (IH H) as (k2 & Hin). exists k2. now right.
Qed.

Lemma members_wf_store sw mem :
  forallb (fun ko => obj_wfb Native (os_id mem) (snd ko)) (w_store (sw_w sw)) = true -> members_wf sw mem.
Proof.
  intros H ph p cu _ _ _ Hl. destruct (lookup_in _ _ _ Hl) as (k' & Hin).
  rewrite forallb_forall in H. apply obj_wfb_spec. exact (H _ Hin).
Qed.

Lemma remotes_ok_local sw mem : forallb (fun ph => negb (ph_class ph)) (os_phases mem) = true -> remotes_ok sw mem /\ remotes_recorded sw mem.
Proof.
  intros H. rewrite forallb_forall in H.
  split; [intros ph Hin Hc|intros ph p Hin Hc _]; specialize (H ph Hin); rewrite Hc in H; discriminate.
Qed.

Definition pass10 (sw : sworld) := objectset_pass false sw KObjectSet 1 10.
Definition world_after (x : sworld * list sev * sres) : sworld := fst (fst x).

(** ** 1. Two local phases, one object to create: the first pass creates it and writes the status (the counters move
       from 50/60 to 52/61); all premises of [pass_fixpoint] hold; the second pass returns the same world. *)
Example qx_premises :
  find_set (sw_sets (ex_world 1 S0)) KObjectSet 1 10 = Some S0 /\ is_active S0 /\ os_life S0 <> LPaused /\
  members_wf (ex_world 1 S0) S0 /\ (remotes_ok (ex_world 1 S0) S0 /\ remotes_recorded (ex_world 1 S0) S0) /\
  snd (pass10 (ex_world 1 S0)) = SDone false /\
  w_rv (sw_w (world_after (pass10 (ex_world 1 S0)))) = 52 /\ w_uid (sw_w (world_after (pass10 (ex_world 1 S0)))) = 61.
Proof.
  split; [reflexivity|]. split; [repeat split; discriminate|]. split; [discriminate|].
  split; [apply members_wf_store; vm_compute; reflexivity|]. split; [apply remotes_ok_local; reflexivity|].
  repeat split; vm_compute; reflexivity.
Qed.

Example qx_second_pass_same_world :
  let sw1 := world_after (pass10 (ex_world 1 S0)) in
  world_after (pass10 sw1) = sw1 /\ snd (pass10 sw1) = SDone false /\
  map ev_key (member_evs (snd (fst (pass10 sw1)))) = [ex_key 1 1; ex_key 2 2; ex_key 1 3].
Proof. vm_compute. repeat split; reflexivity. Qed.

(** the same through the theorem *)
Example qx_instance :
  let sw1 := world_after (pass10 (ex_world 1 S0)) in
  exists st' evs2, find_set (sw_sets sw1) KObjectSet 1 10 = Some st' /\
    pass10 sw1 = (sw1, evs2, SDone false) /\ Forall (noop_sev st') evs2.
Proof.
  destruct qx_premises as (H1 & H2 & H3 & H5 & (H6 & H6') & H7 & _).
  destruct (pass10 (ex_world 1 S0)) as [[sw1 evs1] r1] eqn:E. cbn [world_after fst snd] in *. subst r1.
  destruct (pass_fixpoint false (ex_world 1 S0) KObjectSet 1 10 S0 sw1 evs1 (SDone false) H1 H2 H3 H5 H6 (or_introl H6') E)
    as (st' & evs2 & Hf & Hrun & _ & Hn).
  exists st', evs2. split; [exact Hf|]. split; [exact Hrun|]. apply Hn. discriminate.
Qed.

(** ** 2. The pass that stops at a failing probe (Available=False, phase 1 named) is a fixpoint too. *)
Example qx_failing_probe_fixpoint :
  let sw1 := world_after (pass10 (ex_world 2 S0)) in
  members_wf (ex_world 2 S0) S0 /\ cond_true (os_conds (match find_set (sw_sets sw1) KObjectSet 1 10 with Some s => s | None => S0 end)) CAvailable = false /\
  world_after (pass10 sw1) = sw1.
Proof. split; [apply members_wf_store; vm_compute; reflexivity|]. vm_compute. split; reflexivity. Qed.

(** ** 3. A delegated phase. [qd_set]: phase 1 local (a ConfigMap), phase 2 delegated (class set). *)
Definition qd_phases : list phase :=
  [ {| ph_name := 1; ph_class := false; ph_objects := [ex_po 1 1] |};
    {| ph_name := 2; ph_class := true; ph_objects := [ex_po 1 3] |} ].
Definition qd_set (remotes : list (N * N)) : oset :=
  {| os_id := ex_id; os_rv := 5; os_gen := 1; os_deleting := false; os_fin := true; os_orphan := false; os_pkg := 0;
     os_life := LActive; os_phases := qd_phases; os_prev := []; os_revision := 1; os_conds := []; os_ctrlof := [];
     os_remotes := remotes |}.
Definition qd_world (phs : list osphase) (s : oset) : sworld :=
  {| sw_w := {| w_store := [(ex_key 1 1, ex_obj 21 0)]; w_rv := 50; w_uid := 60 |}; sw_sets := [s]; sw_phases := phs; sw_nss := [] |}.
(** the phase object of phase 2, reconciled by the ObjectSetPhase controller: Available=True for its generation *)
Definition qd_phase_obj : osphase :=
  {| op_id := {| oi_kind := KObjectSetPhase; oi_ns := 1; oi_name := 10002; oi_uid := 70 |}; op_rv := 40; op_gen := 1;
     op_owners := [ex_ref]; op_deleting := false; op_fin := true; op_orphan := false; op_pkg := 0; op_class := 1;
     op_paused := false; op_revision := 1; op_prev := []; op_objects := [ex_po 1 3];
     op_conds := [{| cd_type := CAvailable; cd_status := STrue; cd_reason := RAvailable; cd_gen := 1 |}];
     op_ctrlof := [ex_key 1 3] |}.

(** 3a. phase object present, controlled, in sync, reference recorded: premises met, the pass reports Available=True
        (first pass writes the status), the next pass changes nothing. *)
Lemma qd_ok rem : remotes_ok (qd_world [qd_phase_obj] (qd_set rem)) (qd_set rem).
Proof. intros ph [<-|[<-|[]]] Hc; [discriminate|]. exists qd_phase_obj. vm_compute. repeat split; reflexivity. Qed.

Example qd_premises :
  let sw := qd_world [qd_phase_obj] (qd_set [(10002, 70)]) in
  remotes_ok sw (qd_set [(10002, 70)]) /\ remotes_recorded sw (qd_set [(10002, 70)]) /\ members_wf sw (qd_set [(10002, 70)]) /\
  snd (pass10 sw) = SDone false /\ world_after (pass10 sw) <> sw /\
  world_after (pass10 (world_after (pass10 sw))) = world_after (pass10 sw).
Proof.
  cbv zeta. split; [apply qd_ok|]. split.
  - intros ph p [<-|[<-|[]]] Hc (cur & Hf & ->); [discriminate|]. vm_compute in Hf. injection Hf as <-. vm_compute. reflexivity.
  - split; [apply members_wf_store; vm_compute; reflexivity|]. split; [vm_compute; reflexivity|].
    split; [vm_compute; discriminate|vm_compute; reflexivity].
Qed.

(** 3a'. the same with the reference NOT yet recorded (and no self-reference in spec.previous): the first pass records
         it with the status it writes, the next pass changes nothing. *)
Example qd_recording_pass :
  let sw := qd_world [qd_phase_obj] (qd_set []) in
  remotes_ok sw (qd_set []) /\ not_own_prev (qd_set []) /\ ~ remotes_recorded sw (qd_set []) /\
  map os_remotes (sw_sets (world_after (pass10 sw))) = [[(10002, 70)]] /\
  world_after (pass10 (world_after (pass10 sw))) = world_after (pass10 sw).
Proof.
  cbv zeta. split; [apply qd_ok|]. split; [intros []|]. split.
  - intros H. specialize (H (nth 1 qd_phases (Build_phase 0 false [])) (10002, 70) (or_intror (or_introl eq_refl)) eq_refl).
    assert (Hr : remote_ref [qd_phase_obj] (qd_set []) (nth 1 qd_phases (Build_phase 0 false [])) (10002, 70))
      by (exists qd_phase_obj; vm_compute; split; reflexivity).
    specialize (H Hr). vm_compute in H. discriminate.
  - vm_compute. split; reflexivity.
Qed.

(** 3b. REFUTED without the premise on delegated phases: the pass that CREATES the phase object is not a fixpoint of
        itself - it ends with an error before any status is written, and the next pass (which now finds the phase
        object) writes the ObjectSet's status. The third pass is the fixpoint. *)
Definition qd_fresh : sworld := qd_world [] (qd_set []).
Example qd_creating_pass_not_fixpoint :
  let sw1 := world_after (pass10 qd_fresh) in
  let sw2 := world_after (pass10 sw1) in
  snd (pass10 qd_fresh) = SError /\ sw2 <> sw1 /\ world_after (pass10 sw2) = sw2.
Proof. vm_compute. split; [reflexivity|]. split; [discriminate|reflexivity]. Qed.

(** ** 4. A fresh ObjectSet: no finalizer, no revision number, nothing created yet. The first pass adds the finalizer,
       assigns revision 1, creates all three objects and writes the status; the premises of [pass_fixpoint] hold
       (the empty store is trivially well-formed); the second pass changes nothing. *)
Definition qf_set : oset :=
  {| os_id := ex_id; os_rv := 5; os_gen := 1; os_deleting := false; os_fin := false; os_orphan := false; os_pkg := 0;
     os_life := LActive; os_phases := ex_phases; os_prev := []; os_revision := 0; os_conds := []; os_ctrlof := [];
     os_remotes := [] |}.
Example qf_fresh_set :
  let sw := ex_empty qf_set in
  members_wf sw qf_set /\ (remotes_ok sw qf_set /\ remotes_recorded sw qf_set) /\ is_active qf_set /\
  metas (snd (fst (pass10 sw))) = [MFinalizer true true;
     MStatus 1 [{| cd_type := CInTransition; cd_status := STrue; cd_reason := RInTransition; cd_gen := 1 |};
                {| cd_type := CAvailable; cd_status := SFalse; cd_reason := RProbeFailure; cd_gen := 1 |}]
             [ex_key 1 1; ex_key 2 2] [] (Some 1) true] /\
  world_after (pass10 (world_after (pass10 sw))) = world_after (pass10 sw).
Proof.
  cbv zeta. split; [apply members_wf_store; reflexivity|]. split; [apply remotes_ok_local; reflexivity|].
  split; [repeat split; discriminate|]. vm_compute. split; reflexivity.
Qed.

(** ** 5. REFUTED without [remotes_recorded \/ not_own_prev]: an ObjectSet that names ITSELF in spec.previous and whose
       delegated phase is not yet recorded in status.remotePhases. Its local phase lists an object controlled by its own
       phase object. Pass 1 refuses the object (not owned by a previous revision: the stored status knows no remote
       phase yet) and, with the CollisionDetected report, records the remote phase; pass 2 reads the ObjectSet as its
       own previous revision, now with that remote phase, and ADOPTS the object: the world changes. *)
Definition qs_set : oset :=
  {| os_id := ex_id; os_rv := 5; os_gen := 1; os_deleting := false; os_fin := true; os_orphan := false; os_pkg := 0;
     os_life := LActive;
     os_phases := [ {| ph_name := 2; ph_class := true; ph_objects := [ex_po 1 3] |};
                    {| ph_name := 1; ph_class := false; ph_objects := [ex_po 1 1] |} ];
     os_prev := [10]; os_revision := 1; os_conds := []; os_ctrlof := []; os_remotes := [] |}.
Definition qs_obj : obj :=
  {| o_uid := 21; o_rv := 21; o_gen := 1; o_owners := [{| r_kind := KObjectSetPhase; r_name := 10002; r_uid := 70; r_ctrl := true |}];
     o_aowners := []; o_rev := RevNone; o_cache := true; o_pkg := 0; o_body := 1; o_avail := 0; o_obsgen := None;
     o_deleting := false; o_fin := false |}.
Definition qs_world : sworld :=
  {| sw_w := {| w_store := [(ex_key 1 1, qs_obj)]; w_rv := 50; w_uid := 60 |}; sw_sets := [qs_set]; sw_phases := [qd_phase_obj]; sw_nss := [] |}.

Example qs_self_previous_not_fixpoint :
  find_set (sw_sets qs_world) KObjectSet 1 10 = Some qs_set /\ is_active qs_set /\ os_life qs_set <> LPaused /\
  members_wf qs_world qs_set /\ remotes_ok qs_world qs_set /\ ~ not_own_prev qs_set /\
  let sw1 := world_after (pass10 qs_world) in
  metas (snd (fst (pass10 qs_world))) =
    [MStatus 1 [{| cd_type := CAvailable; cd_status := SFalse; cd_reason := RCollisionDetected; cd_gen := 1 |}] [] [(10002, 70)] None true] /\
  world_after (pass10 sw1) <> sw1 /\
  map ev_key (member_evs (snd (fst (pass10 sw1)))) = [ex_key 1 1] /\ w_rv (sw_w (world_after (pass10 sw1))) = w_rv (sw_w sw1) + 2.
Proof.
  split; [reflexivity|]. split; [repeat split; discriminate|]. split; [discriminate|].
  split; [apply members_wf_store; vm_compute; reflexivity|].
  split. { intros ph [<-|[<-|[]]] Hc; [|discriminate]. exists qd_phase_obj. vm_compute. repeat split; reflexivity. }
  split. { intros H. apply H. now left. }
  vm_compute. split; [reflexivity|]. split; [discriminate|]. split; reflexivity.
Qed.

(** ** The two premises on delegated phases cannot be dropped *)
Definition second_world (sw : sworld) : sworld := world_after (pass10 (world_after (pass10 sw))).

(** without [remotes_ok]: the pass that creates a phase object is not a fixpoint of itself *)
Theorem pass_fixpoint_creating_refuted :
  exists sw mem0, find_set (sw_sets sw) KObjectSet 1 10 = Some mem0 /\ is_active mem0 /\ os_life mem0 <> LPaused /\
    members_wf sw mem0 /\ remotes_recorded sw mem0 /\ not_own_prev mem0 /\
    second_world sw <> world_after (pass10 sw).
Proof.
  exists qd_fresh, (qd_set []). split; [reflexivity|]. split; [repeat split; discriminate|]. split; [discriminate|].
  split; [apply members_wf_store; vm_compute; reflexivity|].
  split. { intros ph p [<-|[<-|[]]] Hc (cur & Hf & _); [discriminate|]. vm_compute in Hf. discriminate. }
  split; [intros []|]. vm_compute. discriminate.
Qed.

(** without [remotes_recorded \/ not_own_prev]: an ObjectSet that is its own previous revision *)
Theorem pass_fixpoint_self_previous_refuted :
  exists sw mem0, find_set (sw_sets sw) KObjectSet 1 10 = Some mem0 /\ is_active mem0 /\ os_life mem0 <> LPaused /\
    members_wf sw mem0 /\ remotes_ok sw mem0 /\
    second_world sw <> world_after (pass10 sw).
Proof.
  exists qs_world, qs_set. destruct qs_self_previous_not_fixpoint as (H1 & H2 & H3 & H4 & H5 & _ & _ & H6 & _).
  split; [exact H1|]. split; [exact H2|]. split; [exact H3|]. split; [exact H4|]. split; [exact H5|exact H6].
Qed.
