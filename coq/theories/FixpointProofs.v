(** C10: the desired state is a fixpoint of the phase reconciler. An object that already is what the owner
    wants (cached, controlled by the owner, desired body, owner's revision, package label, well-formed owner list)
    is re-applied without any change to the store or the counters; a completed phase whose objects are all
    settled is re-reconciled without changing the world ("zero state-changing writes at quiescence"). *)
From Coq Require Import List NArith ZArith Bool Lia.
From PKO Require Import Util Base BaseProofs Owner OwnerProofs Api ApiProofs Phase PhaseProofs AdoptionProofs AdoptProofs.
Import ListNotations.
Local Open Scope N_scope.

Section Fix.
  Variable c : cfg.
  Let s := flavor_strat (c_flavor c).

  Definition settled (ow : owner) (p : pobj) (o : obj) : Prop :=
    o_cache o = true /\ is_controller s (ow_id ow) o = true /\ o_body o = po_body p /\
    o_rev o = RevNum (ow_rev ow) /\ (ow_pkg ow = 0 \/ o_pkg o = ow_pkg ow) /\
    (s = Annot -> o_aowners o = [ctrl_ref (ow_id ow)]) /\
    NoDup (map r_uid (o_owners o)) /\ refs_valid (o_owners o) = true.

  Lemma apply_settled ow p o :
    settled ow p o -> apply_to (applied_for c ow p (o_owners o)) o = o.
  Proof.
    intros (Hc & _ & Hb & Hr & Hp & Ha & Hnd & _).
    unfold apply_to, applied_for. cbn [ap_body ap_owners ap_aowners ap_rev ap_pkg]. fold s.
    rewrite (merge_refs_self _ Hnd). rewrite Hb, N.eqb_refl.
    destruct o as [uid rv gen ows aows rev cache pkg body avail obsgen del fin]. cbn in *. subst.
    f_equal.
    - destruct s; [reflexivity|]. symmetry. now apply Ha.
    - destruct Hp as [Hp|Hp]; rewrite Hp; [reflexivity|]. destruct (ow_pkg ow =? 0) eqn:E; [|reflexivity].
      apply N.eqb_eq in E. now rewrite <- Hp, E in *.
  Qed.

  (** One settled object: the pass re-applies it and nothing changes. *)
  Theorem rec_obj_settled w ow prev p o :
    ow_paused ow = false ->
    set_controller_l s (ow_id ow) (k_ns (key_of ow p)) [] <> None ->
    lookup (key_of ow p) (w_store w) = Some o -> settled ow p o ->
    reconcile_object c idw w ow prev p = (w, [EApply (key_of ow p) (Some o) (Some o) (POk o)], ROk o).
  Proof.
    intros Hpa Hset El Hs. pose proof Hs as (Hc & Hctl & _ & _ & _ & _ & _ & Hv).
    unfold reconcile_object. fold s. fold (key_of ow p).
    destruct (set_controller_l s (ow_id ow) (k_ns (key_of ow p)) []) as [dref|]; [|contradiction].
    rewrite Hpa. unfold cache_get. rewrite El, Hc.
    assert (Hca : check_adoption s (c_force c) ow o prev (po_cp p) = AlreadyController) by now apply check_already_iff.
    rewrite Hca. unfold do_apply, idw, api_get, api_apply. rewrite El.
    rewrite (apply_settled ow p o Hs). rewrite Hv. cbn [negb].
    assert (obj_eqb o o = true) as -> by now apply obj_eqb_spec. reflexivity.
  Qed.

  (** ** Every successful apply of the pass leaves the object settled *)

  Lemma in_upsert same r l y : In y (upsert_ref same r l) -> y = r \/ In y l.
  Proof.
    induction l as [|x xs IH]; cbn; [intros [<-|[]]; now left|].
    destruct (same x); cbn; intros [<-|H]; auto. destruct (IH H); auto.
  Qed.

  Lemma nodup_upsert same r l :
    NoDup (map r_uid l) ->
    (forall x, In x l -> same x = true -> r_uid x = r_uid r) ->
    (forall x, In x l -> same x = false -> r_uid x <> r_uid r) ->
    NoDup (map r_uid (upsert_ref same r l)).
  Proof.
    induction l as [|x xs IH]; intros Hnd Ht Hf; cbn; [constructor; [intros []|constructor]|].
    inversion Hnd as [|? ? Hnotin Hnd']; subst.
    destruct (same x) eqn:Ex; cbn.
    - rewrite <- (Ht x (or_introl eq_refl) Ex). now constructor.
    - constructor.
      + intros Hin. apply in_map_iff in Hin. destruct Hin as (y & Hy & Hin). apply in_upsert in Hin. destruct Hin as [->|Hin].
        * apply (Hf x (or_introl eq_refl) Ex). now symmetry.
        * apply Hnotin. rewrite <- Hy. now apply in_map.
      + apply IH; [assumption| |]; intros z Hz; [apply Ht|apply Hf]; now right.
  Qed.

  Lemma map_uid_release l : map r_uid (release_l l) = map r_uid l.
  Proof. unfold release_l. rewrite map_map. reflexivity. Qed.

  Lemma nodup_adopt_list ow refs :
    refs_wf ow refs -> NoDup (map r_uid (upsert_ref (fun x => same_gkn x ow) (ctrl_ref ow) (release_l refs))).
  Proof.
    intros [Hnd Hc]. apply nodup_upsert.
    - now rewrite map_uid_release.
    - intros x Hx E. apply in_map_iff in Hx. destruct Hx as (y & <- & Hy). cbn. apply (Hc y Hy). exact E.
    - intros x Hx E. apply in_map_iff in Hx. destruct Hx as (y & <- & Hy). cbn. intros Hu.
      rewrite same_gkn_demote in E. apply (Hc y Hy) in Hu. congruence.
  Qed.

  (** The stored result of an apply carries the fields of the patch. *)
  Lemma applied_fields ow p l cur rv :
    let o := set_rv (apply_to (applied_for c ow p l) cur) rv in
    o_cache o = true /\ o_body o = po_body p /\ o_rev o = RevNum (ow_rev ow) /\
    (ow_pkg ow = 0 \/ o_pkg o = ow_pkg ow) /\ (s = Annot -> o_aowners o = [ctrl_ref (ow_id ow)]) /\
    o_owners o = merge_refs (o_owners cur) l.
  Proof.
    cbn. repeat split.
    - destruct (ow_pkg ow =? 0) eqn:E; [left; now apply N.eqb_eq|now right].
    - intros Hs. unfold applied_for. fold s. now rewrite Hs.
  Qed.

  Theorem rec_obj_settles w ow prev p w1 e1 o1 :
    ow_paused ow = false ->
    (forall cu, lookup (key_of ow p) (w_store w) = Some cu -> obj_wf s (ow_id ow) cu) ->
    reconcile_object c idw w ow prev p = (w1, e1, ROk o1) -> e1 <> [] ->
    lookup (key_of ow p) (w_store w1) = Some o1 /\ settled ow p o1.
  Proof.
    intros Hpa Hwf. unfold reconcile_object. fold s. fold (key_of ow p).
    destruct (set_controller_l s (ow_id ow) (k_ns (key_of ow p)) []) as [dref|] eqn:Ed; [|discriminate].
    rewrite Hpa, cur_lookup.
    destruct (lookup (key_of ow p) (w_store w)) as [cu|] eqn:El.
    2:{ (* create *)
      unfold do_apply, idw. intros H Hne.
      destruct (api_apply w (key_of ow p) _) as [[[w2 o] cr]|] eqn:Ea; [|discriminate]. injection H as <- _ <-.
      destruct (api_apply_spec _ _ _ _ _ _ Ea) as (Hl & Hv & Hc). rewrite El in Hc. destruct Hc as [_ ->].
      split; [exact Hl|]. unfold settled, fresh_obj, applied_for. cbn. fold s.
      assert (Hdref : s = Native -> dref = [ctrl_ref (ow_id ow)]).
      { intros Hs. unfold set_controller_l in Ed. rewrite Hs in Ed. destruct (negb _); [discriminate|]. cbn in Ed. now injection Ed as <-. }
      destruct s eqn:Es.
      - rewrite (Hdref eq_refl). unfold is_controller. cbn. rewrite same_obj_ctrl_ref. cbn.
        repeat split; auto; try discriminate. constructor; [intros []|constructor].
      - unfold is_controller. cbn. rewrite same_obj_ctrl_ref. cbn. repeat split; auto. constructor. }
    specialize (Hwf cu eq_refl). destruct Hwf as (Hnd & Hvalid & Hrw).
    destruct (check_adoption s (c_force c) ow cu prev (po_cp p)) eqn:Eca; try discriminate.
    - (* already controller *)
      apply check_already_iff in Eca. unfold do_apply, idw. intros H Hne.
      destruct (api_apply w (key_of ow p) _) as [[[w2 o] cr]|] eqn:Ea; [|discriminate]. injection H as <- _ <-.
      destruct (api_apply_spec _ _ _ _ _ _ Ea) as (Hl & Hv & Hc). rewrite El in Hc. destruct Hc as [_ [rv ->]].
      split; [exact Hl|].
      destruct (applied_fields ow p (o_owners cu) cu rv) as (F1 & F2 & F3 & F4 & F5 & F6). cbn zeta in *.
      rewrite (merge_refs_self _ Hnd) in F6.
      unfold settled. repeat split; try assumption.
      + unfold is_controller, refs in *. destruct s eqn:Es.
        * now rewrite F6.
        * rewrite (F5 eq_refl). cbn. now rewrite same_obj_ctrl_ref.
      + now rewrite F6.
    - (* leave newer: no request *)
      intros H Hne. injection H as _ <- _. contradiction.
    - (* adoption *)
      destruct (set_controller_l s (ow_id ow) (k_ns (key_of ow p)) (release_l (refs s cu))) as [l|] eqn:Esc; [|discriminate].
      unfold do_apply, idw. intros H Hne.
      destruct (api_apply w (key_of ow p) _) as [[[w2 o] cr]|] eqn:Ea; [|discriminate]. injection H as <- _ <-.
      destruct (api_apply_spec _ _ _ _ _ _ Ea) as (Hl & Hv & Hc). rewrite El in Hc. destruct Hc as [_ [rv ->]].
      split; [exact Hl|].
      destruct s eqn:Es.
      + cbn [refs] in Esc. unfold set_controller_l in Esc. destruct (negb _); [discriminate|].
        rewrite find_ctrl_release in Esc. injection Esc as <-.
        destruct (applied_fields ow p (upsert_ref (fun x => same_gkn x (ow_id ow)) (ctrl_ref (ow_id ow)) (release_l (o_owners cu))) cu rv)
          as (F1 & F2 & F3 & F4 & F5 & F6). cbn zeta in *.
        pose proof (merge_adopt_eq (ow_id ow) (o_owners cu) Hrw) as Hm. cbn zeta in Hm. rewrite Hm in F6.
        destruct (adopt_controllers (ow_id ow) (o_owners cu) Hrw) as (_ & _ & Hic).
        unfold settled. repeat split; try assumption.
        * unfold is_controller, refs. rewrite F6, Es. exact Hic.
        * rewrite F6. now apply nodup_adopt_list.
      + destruct (applied_fields ow p (o_owners cu) cu rv) as (F1 & F2 & F3 & F4 & F5 & F6). cbn zeta in *.
        rewrite (merge_refs_self _ Hnd) in F6.
        unfold settled. repeat split; try assumption.
        * unfold is_controller, refs. rewrite Es, (F5 Es). cbn. now rewrite same_obj_ctrl_ref.
        * now rewrite F6.
  Qed.

  (** ** Quiescence of a whole phase *)

  (** an event that changed nothing: an apply whose stored result equals what was stored at that instant *)
  Definition noop_ev (e : ev) : Prop :=
    match e with EApply _ _ pre (POk o) => pre = Some o | _ => False end.

  (** An object the pass has nothing left to do for: settled, or owned by a newer revision and left alone. *)
  Definition quiet_obj (w : world) (ow : owner) (prev : list prevrev) (p : pobj) : Prop :=
    set_controller_l s (ow_id ow) (k_ns (key_of ow p)) [] <> None /\
    exists o, lookup (key_of ow p) (w_store w) = Some o /\
      (settled ow p o \/ check_adoption s (c_force c) ow o prev (po_cp p) = LeaveNewer).

  Lemma rec_obj_quiet w ow prev p :
    ow_paused ow = false -> quiet_obj w ow prev p ->
    exists evs o, reconcile_object c idw w ow prev p = (w, evs, ROk o) /\ Forall noop_ev evs.
  Proof.
    intros Hpa (Hset & o & El & [Hs|Hn]).
    - exists [EApply (key_of ow p) (Some o) (Some o) (POk o)], o. split; [now apply rec_obj_settled|].
      constructor; [reflexivity|constructor].
    - exists [], o. split; [|constructor]. unfold reconcile_object. fold s. fold (key_of ow p).
      destruct (set_controller_l s (ow_id ow) (k_ns (key_of ow p)) []); [|contradiction].
      now rewrite Hpa, cur_lookup, El, Hn.
  Qed.

  (** quiet_obj looks at the world only through the object's own key *)
  Lemma quiet_obj_local w w' ow prev p :
    lookup (key_of ow p) (w_store w') = lookup (key_of ow p) (w_store w) -> quiet_obj w ow prev p -> quiet_obj w' ow prev p.
  Proof. intros Hl (Hset & o & El & H). split; [assumption|]. exists o. split; [now rewrite Hl|assumption]. Qed.

  (** after its own step an object that answered ROk is quiet *)
  Lemma rec_obj_makes_quiet w ow prev p w1 e1 o1 :
    ow_paused ow = false ->
    (forall cu, lookup (key_of ow p) (w_store w) = Some cu -> obj_wf s (ow_id ow) cu) ->
    reconcile_object c idw w ow prev p = (w1, e1, ROk o1) -> quiet_obj w1 ow prev p.
  Proof.
    intros Hpa Hwf H.
    assert (Hset : set_controller_l s (ow_id ow) (k_ns (key_of ow p)) [] <> None).
    { unfold reconcile_object in H. fold s in H. fold (key_of ow p) in H.
      destruct (set_controller_l s (ow_id ow) (k_ns (key_of ow p)) []); [discriminate|discriminate H]. }
    split; [exact Hset|].
    destruct e1 as [|e es] eqn:Ee.
    - (* no request: left to a newer revision *)
      unfold reconcile_object in H. fold s in H. fold (key_of ow p) in H.
      destruct (set_controller_l s (ow_id ow) (k_ns (key_of ow p)) []) as [dref|]; [|discriminate].
      rewrite Hpa, cur_lookup in H.
      destruct (lookup (key_of ow p) (w_store w)) as [cu|] eqn:El.
      2:{ unfold do_apply in H. destruct (api_apply _ _ _) as [[[? ?] ?]|]; discriminate. }
      destruct (check_adoption s (c_force c) ow cu prev (po_cp p)) eqn:Eca; try discriminate;
        try (unfold do_apply in H; destruct (api_apply _ _ _) as [[[? ?] ?]|]; discriminate).
      + injection H as <- <-. exists cu. split; [exact El|]. now right.
      + destruct (set_controller_l s (ow_id ow) (k_ns (key_of ow p)) (release_l (refs s cu))); [|discriminate].
        unfold do_apply in H. destruct (api_apply _ _ _) as [[[? ?] ?]|]; discriminate.
    - destruct (rec_obj_settles w ow prev p w1 (e :: es) o1 Hpa Hwf H ltac:(discriminate)) as [Hl Hs].
      exists o1. split; [exact Hl|]. now left.
  Qed.

  Lemma rec_objs_quiet ow prev ps : forall w acc failed,
    ow_paused ow = false -> (forall p, In p ps -> quiet_obj w ow prev p) ->
    exists evs a f, reconcile_objects c idw w ow prev ps acc failed = (w, evs, PhOk a f) /\ Forall noop_ev evs.
  Proof.
    induction ps as [|p ps IH]; intros w acc failed Hpa Hq; cbn.
    - exists [], acc, failed. split; [reflexivity|constructor].
    - destruct (rec_obj_quiet w ow prev p Hpa (Hq p (or_introl eq_refl))) as (e1 & o & -> & Hn1).
      destruct (IH w (acc ++ [(desired_key ow p, o)]) (if probe_ok (desired_key ow p) o then failed else failed ++ [desired_key ow p]) Hpa
                   (fun q Hin => Hq q (or_intror Hin))) as (e2 & a & f & -> & Hn2).
      exists (e1 ++ e2), a, f. split; [reflexivity|]. apply Forall_app. now split.
  Qed.

  (** after a completed pass over distinct keys every object of the phase is quiet in the final world *)
  Lemma rec_objs_make_quiet ow prev ps : forall w acc failed w' evs a f,
    ow_paused ow = false -> NoDup (map (key_of ow) ps) ->
    (forall p cu, In p ps -> lookup (key_of ow p) (w_store w) = Some cu -> obj_wf s (ow_id ow) cu) ->
    reconcile_objects c idw w ow prev ps acc failed = (w', evs, PhOk a f) ->
    forall p, In p ps -> quiet_obj w' ow prev p.
  Proof.
    induction ps as [|p ps IH]; intros w acc failed w' evs a f Hpa Hnd Hwf H q Hq; [destruct Hq|].
    cbn in H. inversion Hnd as [|? ? Hnotin Hnd']; subst.
    destruct (reconcile_object c idw w ow prev p) as [[w1 e1] r1] eqn:E1.
    assert (Hframe1 : forall x, In x ps -> lookup (key_of ow x) (w_store w1) = lookup (key_of ow x) (w_store w)).
    { intros x Hx. eapply rec_obj_frame; [exact E1|]. intros Heq. apply Hnotin. rewrite <- Heq. now apply in_map. }
    assert (Hwf' : forall x cu, In x ps -> lookup (key_of ow x) (w_store w1) = Some cu -> obj_wf s (ow_id ow) cu).
    { intros x cu Hx Hl. rewrite (Hframe1 x Hx) in Hl. apply (Hwf x cu); [now right|assumption]. }
    assert (Hrest : forall w2 e2 acc2 failed2,
              reconcile_objects c idw w1 ow prev ps acc2 failed2 = (w2, e2, PhOk a f) ->
              lookup (key_of ow p) (w_store w2) = lookup (key_of ow p) (w_store w1)).
    { intros w2 e2 acc2 failed2 H2. eapply (rec_objs_frame c ow prev (key_of ow p) ps); [exact H2|].
      intros x Hx Heq. apply Hnotin. rewrite <- Heq. now apply in_map. }
    destruct r1 as [o| |x].
    - destruct (reconcile_objects c idw w1 ow prev ps _ _) as [[w2 e2] r2] eqn:E2. injection H as <- _ ->.
      destruct Hq as [<-|Hq].
      + eapply quiet_obj_local; [eapply Hrest; exact E2|].
        eapply rec_obj_makes_quiet; [exact Hpa| |exact E1]. intros cu Hl. apply (Hwf p cu); [now left|assumption].
      + eapply IH; eauto.
    - (* missing: only a paused owner reports that *)
      exfalso. unfold reconcile_object in E1. fold s in E1. fold (key_of ow p) in E1.
      destruct (set_controller_l s (ow_id ow) (k_ns (key_of ow p)) []); [|discriminate].
      rewrite Hpa, cur_lookup in E1. destruct (lookup (key_of ow p) (w_store w)) as [cu|].
      + destruct (check_adoption s (c_force c) ow cu prev (po_cp p)); try discriminate;
          try (unfold do_apply in E1; destruct (api_apply _ _ _) as [[[? ?] ?]|]; discriminate).
        destruct (set_controller_l s (ow_id ow) (k_ns (key_of ow p)) (release_l (refs s cu))); [|discriminate].
        unfold do_apply in E1. destruct (api_apply _ _ _) as [[[? ?] ?]|]; discriminate.
      + unfold do_apply in E1. destruct (api_apply _ _ _) as [[[? ?] ?]|]; discriminate.
    - discriminate.
  Qed.

  (** Quiescence: a completed, unpaused pass over a phase with distinct keys and well-formed stored owner lists
      is a fixpoint - reconciling the phase again leaves the store and both counters exactly as they are, every
      request it sends is a no-op apply, and it completes again. *)
  Theorem phase_pass_is_fixpoint ow prev ps w acc failed w' evs a f :
    ow_paused ow = false -> NoDup (map (key_of ow) ps) ->
    (forall p cu, In p ps -> lookup (key_of ow p) (w_store w) = Some cu -> obj_wf s (ow_id ow) cu) ->
    reconcile_objects c idw w ow prev ps acc failed = (w', evs, PhOk a f) ->
    forall acc2 failed2, exists evs2 a2 f2,
      reconcile_objects c idw w' ow prev ps acc2 failed2 = (w', evs2, PhOk a2 f2) /\ Forall noop_ev evs2.
  Proof.
    intros Hpa Hnd Hwf H acc2 failed2. apply rec_objs_quiet; [exact Hpa|].
    eapply rec_objs_make_quiet; eauto.
  Qed.
End Fix.

(** Non-vacuity: a phase of two objects (one to create, one to adopt from a previous revision) whose first pass
    writes both, meeting every premise of [phase_pass_is_fixpoint]; the second pass sends two no-op applies. *)
Definition fx_cfg : cfg := {| c_flavor := FObjectSet; c_force := false |}.
Definition fx_ow : owner := {| ow_id := {| oi_kind := KObjectSet; oi_ns := 1; oi_name := 10; oi_uid := 100 |}; ow_rev := 2; ow_paused := false; ow_pkg := 0 |}.
Definition fx_prev : list prevrev := [{| pv_id := {| oi_kind := KObjectSet; oi_ns := 1; oi_name := 9; oi_uid := 90 |}; pv_remotes := [] |}].
Definition fx_po (name : N) : pobj :=
  {| po_gk := 1; po_ns := 0; po_name := name; po_body := 2; po_cp := CPPrevent; po_ownerrefs := false; po_dryreject := false |}.
Definition fx_old : obj :=
  {| o_uid := 7; o_rv := 8; o_gen := 1; o_owners := [{| r_kind := KObjectSet; r_name := 9; r_uid := 90; r_ctrl := true |}];
     o_aowners := []; o_rev := RevNum 1; o_cache := true; o_pkg := 0; o_body := 1; o_avail := 0; o_obsgen := None;
     o_deleting := false; o_fin := false |}.
Definition fx_world : world := {| w_store := [({| k_gk := 1; k_ns := 1; k_name := 2 |}, fx_old)]; w_rv := 50; w_uid := 60 |}.
Definition fx_first := reconcile_objects fx_cfg idw fx_world fx_ow fx_prev [fx_po 1; fx_po 2] [] [].
Example fixpoint_premises_met :
  (exists a f, snd fx_first = PhOk a f) /\ length (snd (fst fx_first)) = 2%nat /\
  NoDup (map (key_of fx_ow) [fx_po 1; fx_po 2]) /\
  obj_wfb Native (ow_id fx_ow) fx_old = true /\
  w_rv (fst (fst fx_first)) = 52.
Proof.
  split; [vm_compute; eauto|]. split; [vm_compute; reflexivity|]. split.
  - cbn. repeat constructor; cbn; intuition discriminate.
  - split; vm_compute; reflexivity.
Qed.
Example fixpoint_second_pass :
  let w' := fst (fst fx_first) in
  fst (fst (reconcile_objects fx_cfg idw w' fx_ow fx_prev [fx_po 1; fx_po 2] [] [])) = w'.
Proof. vm_compute. reflexivity. Qed.
