(** Theorems about one ObjectSet controller pass (C03, C04, C06, C09, C11 and the reporting clause of C01). *)
From Coq Require Import List NArith ZArith Bool Lia.
From PKO Require Import Util Base BaseProofs Owner Api ApiProofs Phase PhaseProofs TeardownProofs PreflightProofs AdoptionProofs ObjectSet.
Import ListNotations.
Local Open Scope N_scope.

Section Phases.
  Variable force : bool.
  Let c : cfg := {| c_flavor := FObjectSet; c_force := force |}.

  Lemma rp_cons w ow prev ph rest acc :
    reconcile_phases force w ow prev (ph :: rest) acc =
    match reconcile_phase c idw w ow prev (ph_class ph) (ph_objects ph) with
    | (w1, e1, PhErr e) => (w1, e1, PRErr e)
    | (w1, e1, PhPreflight _) => (w1, e1, PRPreflight)
    | (w1, e1, PhOk actual failed) =>
        let acc' := acc ++ map fst (filter (fun ko => is_controller Native (ow_id ow) (snd ko)) actual) in
        match failed with
        | _ :: _ => (w1, e1, PROk acc' (Some (ph_name ph)))
        | [] => let '(w2, e2, r) := reconcile_phases force w1 ow prev rest acc' in (w2, e1 ++ e2, r)
        end
    end.
  Proof. reflexivity. Qed.

  (** ** A completed phase: every object is present afterwards and passes the probe *)
  Definition obj_ok (w : world) (ow : owner) (p : pobj) : Prop :=
    exists o, lookup (key_of ow p) (w_store w) = Some o /\ probe_ok (key_of ow p) o = true.

  (** reconcile_object returns the stored object (or, paused, the cached one). *)
  Lemma rec_obj_returns_stored w ow prev p w' evs o :
    reconcile_object c idw w ow prev p = (w', evs, ROk o) -> lookup (key_of ow p) (w_store w') = Some o.
  Proof.
    unfold reconcile_object. fold (key_of ow p).
    destruct (set_controller_l _ _ _ []) as [dref|]; [|discriminate].
    destruct (ow_paused ow).
    { unfold cache_get. destruct (lookup (key_of ow p) (w_store w)) as [x|] eqn:E; [|discriminate].
      destruct (o_cache x); [|discriminate]. intros H. injection H as <- _ <-. exact E. }
    rewrite cur_lookup.
    assert (Hda : forall rd ap, do_apply idw w (key_of ow p) rd ap = (w', evs, ROk o) -> lookup (key_of ow p) (w_store w') = Some o).
    { intros rd ap H. destruct (do_apply_events _ _ _ _ _ _ _ _ H) as (post & _ & Hp). destruct post as [x| |]; [|contradiction|destruct Hp; discriminate].
      destruct Hp as [Hr Ha]. injection Hr as <-. now destruct (api_apply_spec _ _ _ _ _ _ Ha). }
    destruct (lookup (key_of ow p) (w_store w)) as [cu|] eqn:El; [|apply Hda].
    destruct (check_adoption _ _ _ _ _ _); try discriminate; try apply Hda.
    - intros H. injection H as <- _ <-. exact El.
    - destruct (set_controller_l _ _ _ (release_l _)); [apply Hda|discriminate].
  Qed.

  Lemma rec_objs_ok_present ow prev ps : forall w acc failed w' evs a,
    reconcile_objects c idw w ow prev ps acc failed = (w', evs, PhOk a []) ->
    NoDup (map (key_of ow) ps) ->
    failed = [] /\ forall p, In p ps -> obj_ok w' ow p.
  Proof.
    induction ps as [|p ps IH]; intros w acc failed w' evs a H Hnd; cbn in H.
    - injection H as <- <- <- ->. split; [reflexivity|]. intros p [].
    - inversion Hnd as [|? ? Hnotin Hnd']; subst.
      destruct (reconcile_object c idw w ow prev p) as [[w1 e1] r1] eqn:E1.
      destruct r1 as [o| |e]; [| |discriminate].
      + destruct (reconcile_objects c idw w1 ow prev ps _ _) as [[w2 e2] r2] eqn:E2. injection H as <- <- ->.
        destruct (IH _ _ _ _ _ _ E2 Hnd') as [Hf Hall].
        fold (key_of ow p) in Hf. destruct (probe_ok (key_of ow p) o) eqn:Epr; [|destruct failed; discriminate].
        split; [exact Hf|]. intros p0 [<-|Hin]; [|now apply Hall].
        exists o. split; [|exact Epr].
        destruct (rec_objs_frame c ow prev (key_of ow p) ps _ _ _ _ _ _ E2) as [Hfr _].
        * intros p1 Hin1 Heq. apply Hnotin. rewrite <- Heq. now apply in_map.
        * rewrite Hfr. eapply rec_obj_returns_stored; eauto.
      + destruct (reconcile_objects c idw w1 ow prev ps _ _) as [[w2 e2] r2] eqn:E2. injection H as <- <- ->.
        destruct (IH _ _ _ _ _ _ E2 Hnd') as [Hf _]. destruct failed; discriminate.
  Qed.

  (** Events of a phase name only objects of that phase; other keys are untouched. *)
  Lemma rec_phase_frame ow prev class ps w w' evs r k :
    reconcile_phase c idw w ow prev class ps = (w', evs, r) ->
    (forall p, In p ps -> key_of ow p <> k) ->
    lookup k (w_store w') = lookup k (w_store w) /\ Forall (fun e => ev_key e <> k) evs.
  Proof.
    unfold reconcile_phase. destruct (flat_map _ ps).
    - intros H Hk. eapply rec_objs_frame; eauto.
    - intros H _. injection H as <- <- <-. split; [reflexivity|constructor].
  Qed.

  Lemma rec_phase_events_in ow prev class ps w w' evs r :
    reconcile_phase c idw w ow prev class ps = (w', evs, r) ->
    Forall (fun e => In (ev_key e) (map (key_of ow) ps)) evs.
  Proof.
    unfold reconcile_phase. destruct (flat_map _ ps).
    - intros H. pose proof (rec_objs_justified c _ _ _ _ _ _ _ _ _ _ H) as HJ.
      eapply Forall_impl; [|exact HJ]. intros e (p & rd & pre & post & Hin & -> & _). cbn. now apply in_map.
    - intros H. injection H as _ <- _. constructor.
  Qed.

  Definition phase_keys (ow : owner) (ph : phase) : list okey := map (key_of ow) (ph_objects ph).
  Definition phase_ok (w : world) (ow : owner) (ph : phase) : Prop := forall p, In p (ph_objects ph) -> obj_ok w ow p.

  (** Keys named by no phase are untouched by the phase loop. *)
  Lemma rp_frame ow prev k phs : forall w acc w' evs r,
    reconcile_phases force w ow prev phs acc = (w', evs, r) ->
    ~ In k (flat_map (phase_keys ow) phs) ->
    lookup k (w_store w') = lookup k (w_store w).
  Proof.
    induction phs as [|x xs IHl]; intros w acc w' evs r E2 Hk.
    - cbn in E2. now injection E2 as <- _ _.
    - rewrite rp_cons in E2. cbv zeta in E2.
      destruct (reconcile_phase c idw w ow prev (ph_class x) (ph_objects x)) as [[wa ea] ra] eqn:Ea.
      assert (Hfa : lookup k (w_store wa) = lookup k (w_store w)).
      { eapply rec_phase_frame; eauto. intros p1 Hin1 Heq. apply Hk. cbn. apply in_or_app. left.
        rewrite <- Heq. unfold phase_keys. now apply in_map. }
      destruct ra as [e|vs|a f]; try (injection E2 as <- _ _; exact Hfa).
      destruct f; [|injection E2 as <- _ _; exact Hfa].
      destruct (reconcile_phases force wa ow prev xs _) as [[wb eb] rb] eqn:Eb. injection E2 as <- _ _.
      rewrite <- Hfa. eapply IHl; eauto. intros Hin. apply Hk. cbn. apply in_or_app. now right.
  Qed.

  (** ** C03: rollout gating.
      If any request of the pass names an object of some phase, every object of every earlier phase is
      present after the pass and passes the availability probe (the states the pass itself obtained:
      later phases do not touch earlier objects). *)
  Lemma rp_gate ow prev phs : forall w acc w' evs r,
    reconcile_phases force w ow prev phs acc = (w', evs, r) ->
    NoDup (flat_map (phase_keys ow) phs) ->
    forall pre ph post, phs = pre ++ ph :: post ->
      Exists (fun e => In (ev_key e) (phase_keys ow ph)) evs ->
      forall q, In q pre -> phase_ok w' ow q.
  Proof.
    induction phs as [|ph0 rest IH]; intros w acc w' evs r H Hnd pre ph post Hsplit Hex q Hq.
    - destruct pre; discriminate.
    - rewrite rp_cons in H. cbv zeta in H.
      destruct (reconcile_phase c idw w ow prev (ph_class ph0) (ph_objects ph0)) as [[w1 e1] r1] eqn:E1.
      cbn in Hnd. pose proof (NoDup_app_r _ _ Hnd) as Hnd_rest.
      destruct pre as [|q0 pre'].
      + contradiction.
      + cbn in Hsplit. injection Hsplit as -> ->.
        (* an event names an object of ph, which lies strictly after ph0: so ph0 completed *)
        assert (Hdisj : forall k, In k (phase_keys ow q0) -> ~ In k (flat_map (phase_keys ow) (pre' ++ ph :: post))).
        { intros k Hk. eapply NoDup_app_disj; eauto. }
        assert (Hph_in : forall k, In k (phase_keys ow ph) -> In k (flat_map (phase_keys ow) (pre' ++ ph :: post))).
        { intros k Hk. apply in_flat_map. exists ph. split; [apply in_or_app; right; now left|assumption]. }
        assert (He1 : Forall (fun e => ~ In (ev_key e) (phase_keys ow ph)) e1).
        { eapply Forall_impl; [|exact (rec_phase_events_in _ _ _ _ _ _ _ _ E1)]. cbn. intros e Hin Hin2.
          apply (Hdisj _ Hin). now apply Hph_in. }
        destruct r1 as [e|vs|actual failed].
        * injection H as <- <- <-. exfalso. apply Exists_exists in Hex. destruct Hex as (e0 & Hin0 & Hk0).
          rewrite Forall_forall in He1. now apply (He1 e0 Hin0).
        * injection H as <- <- <-. exfalso. apply Exists_exists in Hex. destruct Hex as (e0 & Hin0 & Hk0).
          rewrite Forall_forall in He1. now apply (He1 e0 Hin0).
        * destruct failed as [|f fs].
          -- destruct (reconcile_phases force w1 ow prev (pre' ++ ph :: post) _) as [[w2 e2] r2] eqn:E2.
             injection H as <- <- <-.
             assert (Hex2 : Exists (fun e => In (ev_key e) (phase_keys ow ph)) e2).
             { apply Exists_app in Hex. destruct Hex as [Hex|Hex]; [|assumption]. exfalso.
               apply Exists_exists in Hex. destruct Hex as (e0 & Hin0 & Hk0). rewrite Forall_forall in He1. now apply (He1 e0 Hin0). }
             destruct Hq as [<-|Hq].
             ++ (* q0 itself: completed in w1, untouched by the rest *)
                unfold reconcile_phase in E1. destruct (flat_map _ (ph_objects q0)); [|discriminate].
                assert (Hndq : NoDup (map (key_of ow) (ph_objects q0))).
                { unfold phase_keys in Hnd. now apply NoDup_app_l in Hnd. }
                destruct (rec_objs_ok_present ow prev _ _ _ _ _ _ _ E1 Hndq) as [_ Hall].
                intros p Hp. destruct (Hall p Hp) as (o & Ho & Hpr). exists o. split; [|exact Hpr].
                rewrite <- Ho. eapply rp_frame; eauto. apply Hdisj. unfold phase_keys. now apply in_map.
             ++ eapply (IH _ _ _ _ _ E2 Hnd_rest pre' ph post eq_refl Hex2 q Hq).
          -- injection H as <- <- <-. exfalso. apply Exists_exists in Hex. destruct Hex as (e0 & Hin0 & Hk0).
             rewrite Forall_forall in He1. now apply (He1 e0 Hin0).
  Qed.
End Phases.

Section MorePhases.
  Variable force : bool.
  Let c : cfg := {| c_flavor := FObjectSet; c_force := force |}.

  (** What it means for an object to fail the pass's check: absent, failing the probe, or (paused owner)
      invisible to the cache. *)
  Definition obj_fails (w : world) (ow : owner) (p : pobj) : Prop :=
    match lookup (key_of ow p) (w_store w) with
    | None => True
    | Some o => probe_ok (key_of ow p) o = false \/ (ow_paused ow = true /\ o_cache o = false)
    end.

  Lemma rec_obj_missing w ow prev p w' evs :
    reconcile_object c idw w ow prev p = (w', evs, RMissing) ->
    w' = w /\ ow_paused ow = true /\
    match lookup (key_of ow p) (w_store w) with None => True | Some o => o_cache o = false end.
  Proof.
    unfold reconcile_object. fold (key_of ow p).
    destruct (set_controller_l _ _ _ []) as [dref|]; [|discriminate].
    destruct (ow_paused ow) eqn:Ep.
    { unfold cache_get. destruct (lookup (key_of ow p) (w_store w)) as [x|] eqn:E.
      - destruct (o_cache x) eqn:Ec; [discriminate|]. intros H. injection H as <- _. auto.
      - intros H. injection H as <- _. auto. }
    rewrite cur_lookup.
    assert (Hda : forall rd ap, do_apply idw w (key_of ow p) rd ap <> (w', evs, RMissing)).
    { intros rd ap H. destruct (do_apply_events _ _ _ _ _ _ _ _ H) as (post & _ & Hp). destruct post; [destruct Hp; discriminate|contradiction|destruct Hp; discriminate]. }
    destruct (lookup (key_of ow p) (w_store w)) as [cu|]; [|intros H; now apply Hda in H].
    destruct (check_adoption _ _ _ _ _ _); try discriminate; try (intros H; now apply Hda in H).
    destruct (set_controller_l _ _ _ (release_l _)); [intros H; now apply Hda in H|discriminate].
  Qed.

  (** A phase whose pass reports failures has an object that fails in the resulting world. *)
  Lemma rec_objs_failed_witness ow prev ps : forall w acc failed w' evs a f,
    reconcile_objects c idw w ow prev ps acc failed = (w', evs, PhOk a f) ->
    NoDup (map (key_of ow) ps) ->
    exists extra, f = failed ++ extra /\ (extra <> [] -> exists p, In p ps /\ obj_fails w' ow p).
  Proof.
    induction ps as [|p ps IH]; intros w acc failed w' evs a f H Hnd; cbn in H.
    - injection H as <- <- <- <-. exists []. split; [now rewrite app_nil_r|]. congruence.
    - inversion Hnd as [|? ? Hnotin Hnd']; subst.
      destruct (reconcile_object c idw w ow prev p) as [[w1 e1] r1] eqn:E1.
      assert (Hfr : forall w2 e2 r2 acc' failed', reconcile_objects c idw w1 ow prev ps acc' failed' = (w2, e2, r2) ->
                    lookup (key_of ow p) (w_store w2) = lookup (key_of ow p) (w_store w1)).
      { intros w2 e2 r2 acc' failed' E2. eapply rec_objs_frame; eauto. intros p1 Hin1 Heq. apply Hnotin. rewrite <- Heq. now apply in_map. }
      destruct r1 as [o| |e]; [| |discriminate].
      + destruct (reconcile_objects c idw w1 ow prev ps _ _) as [[w2 e2] r2] eqn:E2. injection H as <- <- ->.
        destruct (IH _ _ _ _ _ _ _ E2 Hnd') as (extra & -> & Hex).
        fold (key_of ow p). destruct (probe_ok (key_of ow p) o) eqn:Epr.
        * exists extra. split; [reflexivity|]. intros Hne. destruct (Hex Hne) as (p0 & Hin & Hf). exists p0. split; [now right|assumption].
        * exists (key_of ow p :: extra). split; [now rewrite <- app_assoc|]. intros _. exists p. split; [now left|].
          unfold obj_fails. rewrite (Hfr _ _ _ _ _ E2). rewrite (rec_obj_returns_stored force _ _ _ _ _ _ _ E1). now left.
      + destruct (reconcile_objects c idw w1 ow prev ps _ _) as [[w2 e2] r2] eqn:E2. injection H as <- <- ->.
        destruct (IH _ _ _ _ _ _ _ E2 Hnd') as (extra & -> & Hex).
        exists (key_of ow p :: extra). split; [now rewrite <- app_assoc|]. intros _. exists p. split; [now left|].
        destruct (rec_obj_missing _ _ _ _ _ _ E1) as (-> & Hp & Hm).
        unfold obj_fails. rewrite (Hfr _ _ _ _ _ E2). destruct (lookup (key_of ow p) (w_store w)); auto.
  Qed.

  (** C03, second sentence: the phase named as failing is the first one that is not complete; all phases
      before it are complete, none after it was touched. *)
  Lemma rp_first_failure ow prev phs : forall w acc w' evs ctrlof n,
    reconcile_phases force w ow prev phs acc = (w', evs, PROk ctrlof (Some n)) ->
    NoDup (flat_map (phase_keys ow) phs) ->
    exists pre ph post, phs = pre ++ ph :: post /\ ph_name ph = n /\
      (forall q, In q pre -> phase_ok w' ow q) /\
      (exists p, In p (ph_objects ph) /\ obj_fails w' ow p) /\
      Forall (fun e => ~ In (ev_key e) (flat_map (phase_keys ow) post)) evs.
  Proof.
    induction phs as [|ph0 rest IH]; intros w acc w' evs ctrlof n H Hnd; [cbn in H; discriminate|].
    rewrite rp_cons in H. cbv zeta in H. fold c in H.
    destruct (reconcile_phase c idw w ow prev (ph_class ph0) (ph_objects ph0)) as [[w1 e1] r1] eqn:E1.
    cbn in Hnd. pose proof (NoDup_app_r _ _ Hnd) as Hnd_rest. pose proof (NoDup_app_l _ _ Hnd) as Hnd0.
    destruct r1 as [e|vs|actual failed]; [discriminate|discriminate|].
    pose proof E1 as E1'. unfold reconcile_phase in E1'. destruct (flat_map _ (ph_objects ph0)); [|discriminate].
    destruct failed as [|f fs].
    - destruct (reconcile_phases force w1 ow prev rest _) as [[w2 e2] r2] eqn:E2. injection H as <- <- ->.
      destruct (IH _ _ _ _ _ _ E2 Hnd_rest) as (pre & ph & post & -> & Hn & Hpre & Hfail & Hpost).
      exists (ph0 :: pre), ph, post. split; [reflexivity|]. split; [assumption|]. split; [|split; [assumption|]].
      + intros q [<-|Hq]; [|now apply Hpre].
        destruct (rec_objs_ok_present force ow prev _ _ _ _ _ _ _ E1' Hnd0) as [_ Hall].
        intros p Hp. destruct (Hall p Hp) as (o & Ho & Hpr). exists o. split; [|assumption]. rewrite <- Ho.
        eapply rp_frame; eauto. eapply NoDup_app_disj; eauto. unfold phase_keys. now apply in_map.
      + apply Forall_app. split; [|assumption].
        eapply Forall_impl; [|exact (rec_phase_events_in force _ _ _ _ _ _ _ _ E1)]. cbn. intros e Hin Hin2.
        eapply NoDup_app_disj; [exact Hnd|exact Hin|]. rewrite flat_map_app. apply in_or_app. right. cbn. apply in_or_app. now right.
    - injection H as <- <- _ <-. exists [], ph0, rest. split; [reflexivity|]. split; [reflexivity|]. split; [intros q []|]. split.
      + destruct (rec_objs_failed_witness ow prev _ _ _ _ _ _ _ _ E1' Hnd0) as (extra & Hf & Hex). cbn in Hf. subst extra.
        apply Hex. discriminate.
      + eapply Forall_impl; [|exact (rec_phase_events_in force _ _ _ _ _ _ _ _ E1)]. cbn. intros e Hin Hin2.
        eapply NoDup_app_disj; eauto.
  Qed.

  (** C09 at the ObjectSet level: a paused owner writes to no member. *)
  Lemma rp_paused ow prev phs : forall w acc w' evs r,
    ow_paused ow = true -> reconcile_phases force w ow prev phs acc = (w', evs, r) -> w' = w /\ evs = [].
  Proof.
    induction phs as [|ph rest IH]; intros w acc w' evs r Hp H.
    - cbn in H. injection H as <- <- _. auto.
    - rewrite rp_cons in H. cbv zeta in H. fold c in H.
      destruct (reconcile_phase c idw w ow prev (ph_class ph) (ph_objects ph)) as [[w1 e1] r1] eqn:E1.
      assert (H1 : w1 = w /\ e1 = []).
      { unfold reconcile_phase in E1. destruct (flat_map _ (ph_objects ph)); [|injection E1 as <- <- _; auto].
        eapply phase_paused_no_write; eauto. }
      destruct H1 as [-> ->].
      destruct r1 as [e|vs|a f]; try (injection H as <- <- _; auto).
      destruct f; [|injection H as <- <- _; auto].
      destruct (reconcile_phases force w ow prev rest _) as [[w2 e2] r2] eqn:E2. injection H as <- <- _.
      destruct (IH _ _ _ _ _ Hp E2) as [-> ->]. auto.
  Qed.

  (** ** C04: teardown order *)
  Definition td_obj_done (w : world) (ow : owner) (p : pobj) : Prop :=
    preflight_obj FObjectSet ow false p <> [] \/
    match lookup (key_of ow p) (w_store w) with
    | None => True
    | Some o => is_controller Native (ow_id ow) o = false
    end.

  Lemma remove_owner_not_owner ow l : is_owner_l ow (remove_owner_l ow l) = true -> is_controller_l ow (remove_owner_l ow l) = true -> True.
  Proof. auto. Qed.

  (** An object reported as cleaned up is, in the resulting world, absent or not controlled by the owner,
      or was excluded by the teardown preflight. *)
  Lemma td_obj_done_spec w ow p w' evs :
    teardown_object c idw w ow p = (w', evs, true) -> teardown_err evs = false -> td_obj_done w' ow p.
  Proof.
    unfold teardown_object, td_obj_done. fold (key_of ow p). cbn [c_flavor c flavor_strat].
    destruct (preflight_obj FObjectSet ow false p) eqn:Ep; [|intros _ _; left; discriminate].
    intros H Herr. right. unfold api_get in H.
    destruct (lookup (key_of ow p) (w_store w)) as [cu|] eqn:El.
    - destruct (is_controller Native (ow_id ow) cu) eqn:Hc; cbn [negb] in H.
      + unfold idw in H. destruct (api_delete w (key_of ow p) (o_uid cu) (o_rv cu)) as [w2 r] eqn:Ed.
        injection H as <- <- Hd. destruct r; try discriminate.
        destruct (api_delete_effect _ _ _ _ _ _ Ed) as [Hn ->]. now rewrite Hn.
      + destruct (is_owner Native (ow_id ow) cu) eqn:Ho; cbn [negb] in H.
        * unfold idw in H. destruct (api_release_patch w (key_of ow p) _) as [[w2 [o|]]|] eqn:Er; [injection H as <- <-|discriminate|discriminate].
          destruct (api_release_spec _ _ _ _ _ Er) as (st & Hst & Hl & _ & _ & Hown & _).
          rewrite Hl. unfold is_controller. cbn [refs]. rewrite Hown.
          (* the owner's own reference was not a controller reference, and removing one entry cannot create one *)
          unfold is_controller in Hc. cbn [refs] in Hc.
          clear -Hc. unfold remove_owner_l. induction (o_owners cu) as [|x xs IH]; [reflexivity|].
          cbn in Hc. apply orb_false_iff in Hc. destruct Hc as [Hx Hxs]. cbn.
          destruct (same_obj x (ow_id ow)) eqn:Es.
          -- destruct xs as [|y ys]; [reflexivity|]. unfold is_controller_l in *. 
             assert (Hall : forall z, In z (y :: ys) -> (same_obj z (ow_id ow) && r_ctrl z) = false).
             { intros z Hz. destruct (same_obj z (ow_id ow) && r_ctrl z) eqn:E; [|reflexivity].
               assert (existsb (fun r => same_obj r (ow_id ow) && r_ctrl r) (y :: ys) = true) by (apply existsb_exists; eauto). congruence. }
             destruct (existsb _ (last (y :: ys) x :: removelast (y :: ys))) eqn:E; [|reflexivity].
             apply existsb_exists in E. destruct E as (z & Hz & Hzt). exfalso.
             destruct Hz as [<-|Hz].
             ++ destruct (exists_last (l := y :: ys)) as (l' & a & Hla); [discriminate|]. rewrite Hla, last_last in Hzt.
                rewrite (Hall a) in Hzt; [discriminate|]. rewrite Hla. apply in_or_app. right. now left.
             ++ rewrite (Hall z) in Hzt; [discriminate|]. 
                destruct (exists_last (l := y :: ys)) as (l' & a & Hla); [discriminate|]. rewrite Hla in Hz |- *.
                rewrite removelast_last in Hz. apply in_or_app. now left.
          -- cbn. rewrite Es. cbn. apply IH. exact Hxs.
        * injection H as <- _. rewrite El. exact Hc.
    - injection H as <- _. now rewrite El.
  Qed.
End MorePhases.

Section TeardownOrder.
  Variable force : bool.
  Let c : cfg := {| c_flavor := FObjectSet; c_force := force |}.

  Lemma td_objs_done ow ps : forall w alldone w' evs,
    teardown_objects c idw w ow ps alldone = (w', evs, TdOk true) ->
    NoDup (map (key_of ow) ps) ->
    alldone = true /\ forall p, In p ps -> td_obj_done w' ow p.
  Proof.
    induction ps as [|p ps IH]; intros w alldone w' evs H Hnd; cbn in H.
    - injection H as <- _ ->. split; [reflexivity|]. intros p [].
    - inversion Hnd as [|? ? Hnotin Hnd']; subst.
      destruct (teardown_object c idw w ow p) as [[w1 e1] d] eqn:E1.
      destruct (teardown_err e1) eqn:Eerr; [discriminate|].
      destruct (teardown_objects c idw w1 ow ps (alldone && d)) as [[w2 e2] r2] eqn:E2. injection H as <- _ ->.
      destruct (IH _ _ _ _ E2 Hnd') as [Had Hall]. apply andb_true_iff in Had. destruct Had as [-> ->].
      split; [reflexivity|]. intros p0 [<-|Hin]; [|now apply Hall].
      pose proof (td_obj_done_spec force _ _ _ _ _ E1 Eerr) as Hd.
      unfold td_obj_done in *. destruct Hd as [Hd|Hd]; [now left|right].
      rewrite (td_objs_frame c ow (key_of ow p) ps _ _ _ _ _ E2); [exact Hd|].
      intros p1 Hin1 Heq. apply Hnotin. rewrite <- Heq. now apply in_map.
  Qed.

  Lemma td_phase_events_in ow ps w w' evs r :
    teardown_phase c idw w ow ps = (w', evs, r) -> Forall (fun e => In (ev_key e) (map (key_of ow) ps)) evs.
  Proof.
    unfold teardown_phase. intros H. pose proof (td_objs_events c _ _ _ _ _ _ _ _ H) as He.
    eapply Forall_impl; [|exact He]. intros e [Hk _]. exact Hk.
  Qed.

  Lemma tp_cons w ow ph rest :
    teardown_phases force w ow (ph :: rest) =
    match teardown_phase c idw w ow (ph_objects ph) with
    | (w1, e1, TdErr) => (w1, e1, TdErr)
    | (w1, e1, TdOk false) => (w1, e1, TdOk false)
    | (w1, e1, TdOk true) => let '(w2, e2, r) := teardown_phases force w1 ow rest in (w2, e1 ++ e2, r)
    end.
  Proof. reflexivity. Qed.

  Lemma tp_frame ow k rphs : forall w w' evs r,
    teardown_phases force w ow rphs = (w', evs, r) ->
    ~ In k (flat_map (phase_keys ow) rphs) -> lookup k (w_store w') = lookup k (w_store w).
  Proof.
    induction rphs as [|x xs IH]; intros w w' evs r H Hk.
    - cbn in H. now injection H as <- _ _.
    - rewrite tp_cons in H.
      destruct (teardown_phase c idw w ow (ph_objects x)) as [[w1 e1] r1] eqn:E1.
      assert (Hf : lookup k (w_store w1) = lookup k (w_store w)).
      { unfold teardown_phase in E1. eapply td_objs_frame; eauto. intros p Hin Heq. apply Hk. cbn. apply in_or_app. left.
        rewrite <- Heq. unfold phase_keys. now apply in_map. }
      destruct r1 as [|[|]]; try (injection H as <- _ _; exact Hf).
      destruct (teardown_phases force w1 ow xs) as [[w2 e2] r2] eqn:E2. injection H as <- _ _.
      rewrite <- Hf. eapply IH; eauto. intros Hin. apply Hk. cbn. apply in_or_app. now right.
  Qed.

  (** C04, order: [rphs] is the phase list in teardown (reverse) order. If any request names an object
      of some phase, every object of every phase torn down before it (i.e. every LATER phase of the
      ObjectSet) is, after the pass, absent or no longer controlled by the ObjectSet (or was excluded by
      the teardown preflight). *)
  Lemma tp_order ow rphs : forall w w' evs r,
    teardown_phases force w ow rphs = (w', evs, r) ->
    NoDup (flat_map (phase_keys ow) rphs) ->
    forall pre ph post, rphs = pre ++ ph :: post ->
      Exists (fun e => In (ev_key e) (phase_keys ow ph)) evs ->
      forall q p, In q pre -> In p (ph_objects q) -> td_obj_done w' ow p.
  Proof.
    induction rphs as [|ph0 rest IH]; intros w w' evs r H Hnd pre ph post Hsplit Hex q p Hq Hp.
    - destruct pre; discriminate.
    - rewrite tp_cons in H.
      destruct (teardown_phase c idw w ow (ph_objects ph0)) as [[w1 e1] r1] eqn:E1.
      cbn in Hnd. pose proof (NoDup_app_r _ _ Hnd) as Hnd_rest. pose proof (NoDup_app_l _ _ Hnd) as Hnd0.
      destruct pre as [|q0 pre']; [contradiction|]. cbn in Hsplit. injection Hsplit as -> ->.
      assert (Hph_in : forall k, In k (phase_keys ow ph) -> In k (flat_map (phase_keys ow) (pre' ++ ph :: post))).
      { intros k Hk. apply in_flat_map. exists ph. split; [apply in_or_app; right; now left|assumption]. }
      assert (He1 : Forall (fun e => ~ In (ev_key e) (phase_keys ow ph)) e1).
      { eapply Forall_impl; [|exact (td_phase_events_in _ _ _ _ _ _ E1)]. cbn. intros e Hin Hin2.
        eapply NoDup_app_disj; [exact Hnd|exact Hin|]. now apply Hph_in. }
      assert (Hno : forall l, l = e1 -> Exists (fun e => In (ev_key e) (phase_keys ow ph)) l -> False).
      { intros l -> Hx. apply Exists_exists in Hx. destruct Hx as (e0 & Hin0 & Hk0). rewrite Forall_forall in He1. now apply (He1 e0 Hin0). }
      destruct r1 as [|[|]].
      + injection H as <- <- <-. exfalso. eapply Hno; eauto.
      + destruct (teardown_phases force w1 ow (pre' ++ ph :: post)) as [[w2 e2] r2] eqn:E2. injection H as <- <- <-.
        assert (Hex2 : Exists (fun e => In (ev_key e) (phase_keys ow ph)) e2).
        { apply Exists_app in Hex. destruct Hex as [Hex|Hex]; [exfalso; eapply Hno; eauto|assumption]. }
        destruct Hq as [<-|Hq].
        * unfold teardown_phase in E1. destruct (td_objs_done ow _ _ _ _ _ E1 Hnd0) as [_ Hall].
          pose proof (Hall p Hp) as Hd. unfold td_obj_done in *. destruct Hd as [Hd|Hd]; [now left|right].
          rewrite (tp_frame ow (key_of ow p) _ _ _ _ _ E2); [exact Hd|].
          eapply NoDup_app_disj; [exact Hnd|]. unfold phase_keys. now apply in_map.
        * eapply (IH _ _ _ _ E2 Hnd_rest pre' ph post eq_refl Hex2 q p Hq Hp).
      + injection H as <- <- <-. exfalso. eapply Hno; eauto.
  Qed.

  (** All phases done: every listed object is absent, not controlled by the ObjectSet, or excluded. *)
  Lemma tp_done ow rphs : forall w w' evs,
    teardown_phases force w ow rphs = (w', evs, TdOk true) ->
    NoDup (flat_map (phase_keys ow) rphs) ->
    forall q p, In q rphs -> In p (ph_objects q) -> td_obj_done w' ow p.
  Proof.
    induction rphs as [|ph0 rest IH]; intros w w' evs H Hnd q p Hq Hp; [contradiction|].
    rewrite tp_cons in H.
    destruct (teardown_phase c idw w ow (ph_objects ph0)) as [[w1 e1] r1] eqn:E1.
    cbn in Hnd. pose proof (NoDup_app_r _ _ Hnd) as Hnd_rest. pose proof (NoDup_app_l _ _ Hnd) as Hnd0.
    destruct r1 as [|[|]]; try discriminate.
    destruct (teardown_phases force w1 ow rest) as [[w2 e2] r2] eqn:E2. injection H as <- _ ->.
    destruct Hq as [<-|Hq]; [|eapply IH; eauto].
    unfold teardown_phase in E1. destruct (td_objs_done ow _ _ _ _ _ E1 Hnd0) as [_ Hall].
    pose proof (Hall p Hp) as Hd. unfold td_obj_done in *. destruct Hd as [Hd|Hd]; [now left|right].
    rewrite (tp_frame ow (key_of ow p) _ _ _ _ _ E2); [exact Hd|].
    eapply NoDup_app_disj; [exact Hnd|]. unfold phase_keys. now apply in_map.
  Qed.
End TeardownOrder.

Section ControllerOf.
  Variable force : bool.
  Let c : cfg := {| c_flavor := FObjectSet; c_force := force |}.

  (** The objects a phase returns are the stored ones, keyed by the phase's objects; when nothing failed
      there is exactly one per listed object, in order. *)
  Lemma rec_objs_actual ow prev ps : forall w acc failed w' evs a f,
    reconcile_objects c idw w ow prev ps acc failed = (w', evs, PhOk a f) ->
    NoDup (map (key_of ow) ps) ->
    exists new, a = acc ++ new /\
      Forall (fun ko => In (fst ko) (map (key_of ow) ps) /\ lookup (fst ko) (w_store w') = Some (snd ko)) new /\
      (f = [] -> map fst new = map (key_of ow) ps).
  Proof.
    induction ps as [|p ps IH]; intros w acc failed w' evs a f H Hnd; cbn in H.
    - injection H as <- <- <- <-. exists []. split; [now rewrite app_nil_r|]. split; [constructor|reflexivity].
    - inversion Hnd as [|? ? Hnotin Hnd']; subst.
      destruct (reconcile_object c idw w ow prev p) as [[w1 e1] r1] eqn:E1.
      destruct r1 as [o| |e]; [| |discriminate].
      + destruct (reconcile_objects c idw w1 ow prev ps _ _) as [[w2 e2] r2] eqn:E2. injection H as <- <- ->.
        destruct (IH _ _ _ _ _ _ _ E2 Hnd') as (new & -> & Hall & Hok).
        exists ((key_of ow p, o) :: new). split; [now rewrite <- app_assoc|]. split.
        * constructor.
          -- cbn. split; [now left|].
             destruct (rec_objs_frame c ow prev (key_of ow p) ps _ _ _ _ _ _ E2) as [Hfr _].
             ++ intros p1 Hin1 Heq. apply Hnotin. rewrite <- Heq. now apply in_map.
             ++ rewrite Hfr. eapply rec_obj_returns_stored; eauto.
          -- eapply Forall_impl; [|exact Hall]. intros ko [Hin Hl]. split; [now right|assumption].
        * intros ->. cbn. f_equal. apply Hok.
          (* nothing failed at all *)
          destruct (rec_objs_failed_witness force ow prev _ _ _ _ _ _ _ _ E2 Hnd') as (extra & Hf & _).
          destruct (if probe_ok (desired_key ow p) o then failed else failed ++ [desired_key ow p]); [|discriminate].
          reflexivity.
      + destruct (reconcile_objects c idw w1 ow prev ps _ _) as [[w2 e2] r2] eqn:E2. injection H as <- <- ->.
        destruct (IH _ _ _ _ _ _ _ E2 Hnd') as (new & -> & Hall & Hok).
        exists new. split; [reflexivity|]. split.
        * eapply Forall_impl; [|exact Hall]. intros ko [Hin Hl]. split; [now right|assumption].
        * intros ->. exfalso.
          destruct (rec_objs_failed_witness force ow prev _ _ _ _ _ _ _ _ E2 Hnd') as (extra & Hf & _).
          destruct failed; discriminate.
  Qed.

  (** What the phase loop reports as controlled. *)
  Definition seen_controlled (w : world) (ow : owner) (k : okey) : Prop :=
    exists o, lookup k (w_store w) = Some o /\ is_controller Native (ow_id ow) o = true.

  Lemma rp_ctrlof_sound ow prev phs : forall w acc w' evs ctrlof fph,
    reconcile_phases force w ow prev phs acc = (w', evs, PROk ctrlof fph) ->
    NoDup (flat_map (phase_keys ow) phs) ->
    exists new, ctrlof = acc ++ new /\
      Forall (fun k => In k (flat_map (phase_keys ow) phs) /\ seen_controlled w' ow k) new.
  Proof.
    induction phs as [|ph rest IH]; intros w acc w' evs ctrlof fph H Hnd.
    - cbn in H. injection H as <- _ <- _. exists []. split; [now rewrite app_nil_r|constructor].
    - rewrite rp_cons in H. cbv zeta in H. fold c in H.
      destruct (reconcile_phase c idw w ow prev (ph_class ph) (ph_objects ph)) as [[w1 e1] r1] eqn:E1.
      cbn in Hnd. pose proof (NoDup_app_r _ _ Hnd) as Hnd_rest. pose proof (NoDup_app_l _ _ Hnd) as Hnd0.
      destruct r1 as [e|vs|actual failed]; [discriminate|discriminate|].
      pose proof E1 as E1'. unfold reconcile_phase in E1'. destruct (flat_map _ (ph_objects ph)); [|discriminate].
      destruct (rec_objs_actual ow prev _ _ _ _ _ _ _ _ E1' Hnd0) as (newa & Ha & Hall & _). cbn in Ha. subst actual.
      set (mine := map fst (filter (fun ko => is_controller Native (ow_id ow) (snd ko)) newa)) in *.
      assert (Hmine : forall wf, (forall k, In k (phase_keys ow ph) -> lookup k (w_store wf) = lookup k (w_store w1)) ->
                Forall (fun k => In k (phase_keys ow ph ++ flat_map (phase_keys ow) rest) /\ seen_controlled wf ow k) mine).
      { intros wf Hfr. subst mine. apply Forall_forall. intros k Hk. apply in_map_iff in Hk. destruct Hk as ([k0 o] & <- & Hin).
        apply filter_In in Hin. destruct Hin as [Hin Hc]. rewrite Forall_forall in Hall. destruct (Hall _ Hin) as [Hkin Hl]. cbn in *.
        split; [apply in_or_app; now left|]. exists o. split; [|assumption]. rewrite Hfr; assumption. }
      destruct failed as [|f fs].
      + destruct (reconcile_phases force w1 ow prev rest _) as [[w2 e2] r2] eqn:E2. injection H as <- _ ->.
        destruct (IH _ _ _ _ _ _ E2 Hnd_rest) as (new & -> & Hnew).
        exists (mine ++ new). split; [now rewrite app_assoc|]. apply Forall_app. split.
        * apply Hmine. intros k Hk. eapply rp_frame; eauto. eapply NoDup_app_disj; eauto.
        * eapply Forall_impl; [|exact Hnew]. intros k [Hin Hs]. split; [apply in_or_app; now right|assumption].
      + injection H as <- _ <- _. exists mine. split; [reflexivity|]. apply Hmine. reflexivity.
  Qed.

  (** Completeness when every phase completed: every listed object that is controlled afterwards is in
      the reported list. *)
  Lemma rp_ctrlof_complete ow prev phs : forall w acc w' evs ctrlof,
    reconcile_phases force w ow prev phs acc = (w', evs, PROk ctrlof None) ->
    NoDup (flat_map (phase_keys ow) phs) ->
    forall k, In k (flat_map (phase_keys ow) phs) -> seen_controlled w' ow k -> In k ctrlof.
  Proof.
    induction phs as [|ph rest IH]; intros w acc w' evs ctrlof H Hnd k Hk Hs; [contradiction|].
    rewrite rp_cons in H. cbv zeta in H. fold c in H.
    destruct (reconcile_phase c idw w ow prev (ph_class ph) (ph_objects ph)) as [[w1 e1] r1] eqn:E1.
    cbn in Hnd, Hk. pose proof (NoDup_app_r _ _ Hnd) as Hnd_rest. pose proof (NoDup_app_l _ _ Hnd) as Hnd0.
    destruct r1 as [e|vs|actual failed]; [discriminate|discriminate|].
    destruct failed as [|f fs]; [|discriminate].
    pose proof E1 as E1'. unfold reconcile_phase in E1'. destruct (flat_map _ (ph_objects ph)); [|discriminate].
    destruct (rec_objs_actual ow prev _ _ _ _ _ _ _ _ E1' Hnd0) as (newa & Ha & Hall & Hok). cbn in Ha. subst actual.
    specialize (Hok eq_refl).
    destruct (reconcile_phases force w1 ow prev rest _) as [[w2 e2] r2] eqn:E2. injection H as <- _ ->.
    destruct (rp_ctrlof_sound ow prev rest _ _ _ _ _ _ E2 Hnd_rest) as (new & Hc & _).
    apply in_app_or in Hk. destruct Hk as [Hk|Hk].
    - (* k belongs to this phase *)
      rewrite Hc. apply in_or_app. left. apply in_or_app. right.
      unfold phase_keys in Hk. rewrite <- Hok in Hk. apply in_map_iff in Hk. destruct Hk as ([k0 o] & Hk0 & Hin). cbn in Hk0. subst k0.
      apply in_map_iff. exists (k, o). split; [reflexivity|]. apply filter_In. split; [assumption|]. cbn.
      destruct Hs as (o' & Hl' & Hc'). rewrite Forall_forall in Hall. destruct (Hall _ Hin) as [Hkin Hl]. cbn in Hl, Hkin.
      assert (lookup k (w_store w2) = lookup k (w_store w1)) as Hfr by (eapply rp_frame; eauto; eapply NoDup_app_disj; eauto).
      rewrite Hfr, Hl in Hl'. injection Hl' as <-. exact Hc'.
    - eapply IH; eauto.
  Qed.
End ControllerOf.

Section LocalLoopComplete.
  Variable force : bool.
  Let c : cfg := {| c_flavor := FObjectSet; c_force := force |}.

  (** Every phase of the local loop completed. *)
  Lemma rp_all_ok ow prev phs : forall w acc w' evs ctrlof,
    reconcile_phases force w ow prev phs acc = (w', evs, PROk ctrlof None) ->
    NoDup (flat_map (phase_keys ow) phs) -> forall q, In q phs -> phase_ok w' ow q.
  Proof.
    induction phs as [|ph rest IH]; intros w acc w' evs ctrlof H Hnd q Hq; [contradiction|].
    rewrite rp_cons in H. cbv zeta in H.
    destruct (reconcile_phase _ idw w ow prev (ph_class ph) (ph_objects ph)) as [[w1 e1] r1] eqn:E1.
    cbn in Hnd. pose proof (NoDup_app_r _ _ Hnd) as Hnd_rest. pose proof (NoDup_app_l _ _ Hnd) as Hnd0.
    destruct r1 as [e|vs|actual failed]; [discriminate|discriminate|].
    destruct failed as [|f fs]; [|discriminate].
    destruct (reconcile_phases force w1 ow prev rest _) as [[w2 e2] r2] eqn:E2. injection H as <- _ ->.
    destruct Hq as [<-|Hq]; [|eapply IH; eauto].
    unfold reconcile_phase in E1. destruct (flat_map _ (ph_objects ph)); [|discriminate].
    destruct (rec_objs_ok_present force ow prev _ _ _ _ _ _ _ E1 Hnd0) as [_ Hall].
    intros p Hp. destruct (Hall p Hp) as (o & Ho & Hpr). exists o. split; [|assumption]. rewrite <- Ho.
    eapply rp_frame; eauto. eapply NoDup_app_disj; [exact Hnd|]. unfold phase_keys. now apply in_map.
  Qed.
End LocalLoopComplete.

(** * Status derivation (C06) *)
Section Status.
  Lemma ctype_eqb_spec a b : ctype_eqb a b = true <-> a = b.
  Proof. destruct a, b; cbn; split; congruence. Qed.

  Lemma find_set_cond_same cs c : find_cond (set_cond cs c) (cd_type c) = Some c.
  Proof.
    unfold find_cond. induction cs as [|x xs IH]; cbn.
    - assert (ctype_eqb (cd_type c) (cd_type c) = true) as -> by now apply ctype_eqb_spec. reflexivity.
    - destruct (ctype_eqb (cd_type x) (cd_type c)) eqn:E; cbn.
      + assert (ctype_eqb (cd_type c) (cd_type c) = true) as -> by now apply ctype_eqb_spec. reflexivity.
      + rewrite E. exact IH.
  Qed.

  Lemma find_set_cond_other cs c t : cd_type c <> t -> find_cond (set_cond cs c) t = find_cond cs t.
  Proof.
    intros Hne. unfold find_cond. induction cs as [|x xs IH]; cbn.
    - destruct (ctype_eqb (cd_type c) t) eqn:E; [apply ctype_eqb_spec in E; contradiction|reflexivity].
    - destruct (ctype_eqb (cd_type x) (cd_type c)) eqn:E; cbn.
      + apply ctype_eqb_spec in E.
        destruct (ctype_eqb (cd_type c) t) eqn:E1; [apply ctype_eqb_spec in E1; contradiction|].
        destruct (ctype_eqb (cd_type x) t) eqn:E2; [apply ctype_eqb_spec in E2; congruence|]. reflexivity.
      + destruct (ctype_eqb (cd_type x) t); [reflexivity|exact IH].
  Qed.

  Lemma find_remove_cond_other cs t' t : t' <> t -> find_cond (remove_cond cs t') t = find_cond cs t.
  Proof.
    intros Hne. unfold find_cond, remove_cond. induction cs as [|x xs IH]; cbn; [reflexivity|].
    destruct (ctype_eqb (cd_type x) t') eqn:E; cbn.
    - apply ctype_eqb_spec in E. destruct (ctype_eqb (cd_type x) t) eqn:E2; [apply ctype_eqb_spec in E2; congruence|exact IH].
    - destruct (ctype_eqb (cd_type x) t); [reflexivity|exact IH].
  Qed.

  Lemma find_remove_cond_same cs t : find_cond (remove_cond cs t) t = None.
  Proof.
    unfold find_cond, remove_cond. induction cs as [|x xs IH]; cbn; [reflexivity|].
    destruct (ctype_eqb (cd_type x) t) eqn:E; cbn; [exact IH|]. now rewrite E.
  Qed.

  Lemma paused_cond_other phs m t : t <> CPaused -> find_cond (paused_cond phs m) t = find_cond (os_conds m) t.
  Proof.
    intros Hne. unfold paused_cond.
    destruct (match os_remotes m with [] => _ | _ => _ end) as [pp unknown].
    destruct (unknown || _ || _).
    - apply find_set_cond_other. cbn. congruence.
    - destruct (lifecycle_eqb (os_life m) LPaused).
      + apply find_set_cond_other. cbn. congruence.
      + apply find_remove_cond_other. congruence.
  Qed.

  (** Available in the computed status: True exactly when no phase failed, always for the generation of
      the object the pass read. *)
  Lemma final_status_available phs m ctrlof failed :
    exists cd, find_cond (os_conds (final_status phs m ctrlof failed)) CAvailable = Some cd /\
      cd_gen cd = os_gen m /\
      (cd_status cd = STrue <-> failed = None) /\
      os_ctrlof (final_status phs m ctrlof failed) = ctrlof.
  Proof.
    unfold final_status. cbn [os_conds set_conds os_ctrlof].
    rewrite paused_cond_other by discriminate. cbn [os_conds set_conds].
    destruct failed as [n|].
    - rewrite (find_set_cond_same _ (mk_cond _ CAvailable SFalse RProbeFailure)).
      eexists. split; [reflexivity|]. cbn. repeat split; try discriminate.
    - match goal with |- context [if ?b then _ else _] => destruct b end.
      + rewrite find_set_cond_other by (cbn; discriminate).
        rewrite (find_set_cond_same _ (mk_cond _ CAvailable STrue RAvailable)).
        eexists. split; [reflexivity|]. cbn. repeat split; reflexivity.
      + rewrite (find_set_cond_same _ (mk_cond _ CAvailable STrue RAvailable)).
        eexists. split; [reflexivity|]. cbn. repeat split; reflexivity.
  Qed.

  (** Succeeded is never withdrawn by the status computation, and is newly set only while Available and
      not in transition. *)
  Lemma final_status_succeeded phs m ctrlof failed :
    (cond_true (os_conds m) CSucceeded = true -> cond_true (os_conds (final_status phs m ctrlof failed)) CSucceeded = true) /\
    (cond_true (os_conds m) CSucceeded = false -> cond_true (os_conds (final_status phs m ctrlof failed)) CSucceeded = true ->
       failed = None /\ in_transition (set_ctrlof m ctrlof) ctrlof = false).
  Proof.
    unfold final_status, cond_true. cbn [os_conds set_conds].
    rewrite paused_cond_other by discriminate. cbn [os_conds set_conds].
    set (m1 := set_ctrlof m ctrlof).
    set (intr := in_transition m1 ctrlof).
    assert (Hcs1 : forall t, t <> CInTransition ->
       find_cond (if intr then set_cond (os_conds m1) (mk_cond m1 CInTransition STrue RInTransition) else remove_cond (os_conds m1) CInTransition) t
       = find_cond (os_conds m) t).
    { intros t Ht. destruct intr; [apply find_set_cond_other; cbn; congruence|apply find_remove_cond_other; congruence]. }
    destruct failed as [n|].
    - rewrite find_set_cond_other by (cbn; discriminate). rewrite Hcs1 by discriminate.
      split; [auto|]. intros H1 H2. rewrite H1 in H2. discriminate.
    - match goal with |- context [if ?b then _ else _] => destruct b eqn:Eb end.
      + rewrite (find_set_cond_same _ (mk_cond m1 CSucceeded STrue RRolloutSuccess)). cbn.
        split; [auto|]. intros _ _. apply andb_true_iff in Eb. destruct Eb as [_ Eb]. apply negb_true_iff in Eb. auto.
      + rewrite find_set_cond_other by (cbn; discriminate). rewrite Hcs1 by discriminate.
        split; [auto|]. intros H1 H2. rewrite H1 in H2. discriminate.
  Qed.

  (** A controllerOf list covers a spec key if it names it, or names it without a namespace (references that
      come from the ObjectSetPhase API for cluster-scoped objects; isObjectSetInTransition 337-352). *)
  Definition covers (ctrlof : list okey) (k : okey) : Prop :=
    In k ctrlof \/ exists c, In c ctrlof /\ k_ns c = 0 /\ k_gk c = k_gk k /\ k_name c = k_name k.

  Lemma remove_first_gkname_in c l k :
    In k l -> In k (remove_first_gkname c l) \/ (k_gk k = k_gk c /\ k_name k = k_name c).
  Proof.
    induction l as [|x xs IH]; intros Hin; [contradiction|]. cbn.
    destruct ((k_gk x =? k_gk c) && (k_name x =? k_name c)) eqn:E.
    - destruct Hin as [<-|Hin]; [|now left]. right. apply andb_true_iff in E. destruct E as [E1 E2].
      apply N.eqb_eq in E1, E2. auto.
    - destruct Hin as [<-|Hin]; [left; now left|]. destruct (IH Hin) as [H|H]; [left; now right|now right].
  Qed.

  Lemma fold_remove_ctrl_empty ctrlof : forall all,
    fold_left remove_ctrl ctrlof all = [] -> forall k, In k all -> covers ctrlof k.
  Proof.
    induction ctrlof as [|c cs IH]; intros all H k Hk; cbn in H.
    - subst all. contradiction.
    - assert (Hweak : covers cs k -> covers (c :: cs) k).
      { intros [Hc|(c0 & Hc0 & rest)]; [left; now right|right; exists c0; split; [now right|exact rest]]. }
      destruct (okey_dec k c) as [->|Hne]; [left; now left|].
      unfold remove_ctrl in H. destruct (existsb (okey_eqb c) all).
      + apply Hweak. apply (IH _ H). unfold remove_all_key. apply filter_In. split; [assumption|].
        apply negb_true_iff. now apply okey_eqb_neq.
      + destruct (k_ns c =? 0) eqn:Ens.
        * destruct (remove_first_gkname_in c all k Hk) as [Hin|[Hg Hn]].
          -- apply Hweak. now apply (IH _ H).
          -- right. exists c. split; [now left|]. apply N.eqb_eq in Ens. auto.
        * apply Hweak. now apply (IH _ H).
  Qed.

  Lemma dedup_keys_in l k : In k l -> In k (dedup_keys l).
  Proof.
    induction l as [|x xs IH]; intros Hin; [contradiction|]. cbn.
    destruct (existsb (okey_eqb x) xs) eqn:E.
    - destruct Hin as [<-|Hin]; [|now apply IH]. apply existsb_exists in E. destruct E as (y & Hy & Ey).
      apply okey_eqb_spec in Ey. subst y. now apply IH.
    - destruct Hin as [<-|Hin]; [now left|right; now apply IH].
  Qed.

  (** InTransition is cleared only if every object of the spec is covered by the reported controllerOf. *)
  Lemma not_in_transition_all_controlled m ctrlof :
    in_transition m ctrlof = false -> os_life m <> LArchived ->
    forall p, In p (all_objects m) -> covers ctrlof (spec_key m p).
  Proof.
    unfold in_transition. intros H Hl p Hp.
    destruct (lifecycle_eqb (os_life m) LArchived) eqn:E; [destruct (os_life m); try discriminate; congruence|].
    apply negb_false_iff in H. unfold is_nil in H.
    destruct (fold_left _ ctrlof _) eqn:Ef; [|discriminate].
    eapply fold_remove_ctrl_empty; eauto. apply dedup_keys_in. now apply in_map.
  Qed.

  Lemma final_status_in_transition phs m ctrlof failed :
    find_cond (os_conds (final_status phs m ctrlof failed)) CInTransition = None ->
    in_transition (set_ctrlof m ctrlof) ctrlof = false.
  Proof.
    unfold final_status. cbn [os_conds set_conds]. rewrite paused_cond_other by discriminate. cbn [os_conds set_conds].
    destruct (in_transition (set_ctrlof m ctrlof) ctrlof) eqn:E; [|reflexivity].
    intros H. exfalso.
    assert (Hin : find_cond (set_cond (os_conds (set_ctrlof m ctrlof)) (mk_cond (set_ctrlof m ctrlof) CInTransition STrue RInTransition)) CInTransition <> None).
    { rewrite (find_set_cond_same _ (mk_cond _ CInTransition STrue RInTransition)). discriminate. }
    destruct failed.
    - rewrite find_set_cond_other in H by (cbn; discriminate). contradiction.
    - match type of H with context [if ?b then _ else _] => destruct b end.
      + rewrite !find_set_cond_other in H by (cbn; discriminate). contradiction.
      + rewrite find_set_cond_other in H by (cbn; discriminate). contradiction.
  Qed.
End Status.

(** * Phase lists that mix local and delegated phases
    The loops of the controller ([reconcile_phases_m], [teardown_phases_m]) dispatch on the phase's class.
    A delegated phase touches no member object; its gate is the relay. *)
Section PhaseObjects.
  Lemma oid_eqb_refl a : oid_eqb a a = true.
  Proof. unfold oid_eqb. now rewrite !N.eqb_refl. Qed.

  Definition pkey_eq (p : osphase) (kind ns name : N) : bool :=
    (oi_kind (op_id p) =? kind) && (oi_ns (op_id p) =? ns) && (oi_name (op_id p) =? name).

  Lemma find_put_phase_same phs p :
    find_phase (put_phase phs p) (oi_kind (op_id p)) (oi_ns (op_id p)) (oi_name (op_id p)) = Some p.
  Proof.
    unfold find_phase. induction phs as [|x xs IH]; cbn.
    - now rewrite !N.eqb_refl.
    - unfold oid_eqb.
      destruct ((oi_kind (op_id x) =? oi_kind (op_id p)) && (oi_ns (op_id x) =? oi_ns (op_id p)) && (oi_name (op_id x) =? oi_name (op_id p))) eqn:E.
      + cbn. now rewrite !N.eqb_refl.
      + cbn. rewrite E. exact IH.
  Qed.

  Lemma find_put_phase_other phs p kind ns name :
    pkey_eq p kind ns name = false ->
    find_phase (put_phase phs p) kind ns name = find_phase phs kind ns name.
  Proof.
    unfold find_phase, pkey_eq. intros Hne. induction phs as [|x xs IH]; cbn.
    - now rewrite Hne.
    - unfold oid_eqb.
      destruct ((oi_kind (op_id x) =? oi_kind (op_id p)) && (oi_ns (op_id x) =? oi_ns (op_id p)) && (oi_name (op_id x) =? oi_name (op_id p))) eqn:E.
      + cbn. rewrite Hne.
        apply andb_true_iff in E. destruct E as [E E3]. apply andb_true_iff in E. destruct E as [E1 E2].
        apply N.eqb_eq in E1, E2, E3. rewrite E1, E2, E3, Hne. reflexivity.
      + cbn. destruct ((oi_kind (op_id x) =? kind) && (oi_ns (op_id x) =? ns) && (oi_name (op_id x) =? name)); [reflexivity|exact IH].
  Qed.

  Lemma find_del_phase_same phs id : find_phase (del_phase phs id) (oi_kind id) (oi_ns id) (oi_name id) = None.
  Proof.
    unfold find_phase, del_phase. induction phs as [|x xs IH]; cbn; [reflexivity|].
    unfold oid_eqb. destruct ((oi_kind (op_id x) =? oi_kind id) && (oi_ns (op_id x) =? oi_ns id) && (oi_name (op_id x) =? oi_name id)) eqn:E; cbn.
    - exact IH.
    - rewrite E. exact IH.
  Qed.

  Lemma find_del_phase_other phs id kind ns name :
    (oi_kind id =? kind) && (oi_ns id =? ns) && (oi_name id =? name) = false ->
    find_phase (del_phase phs id) kind ns name = find_phase phs kind ns name.
  Proof.
    unfold find_phase, del_phase. intros Hne. induction phs as [|x xs IH]; cbn; [reflexivity|].
    unfold oid_eqb. destruct ((oi_kind (op_id x) =? oi_kind id) && (oi_ns (op_id x) =? oi_ns id) && (oi_name (op_id x) =? oi_name id)) eqn:E; cbn.
    - apply andb_true_iff in E. destruct E as [E E3]. apply andb_true_iff in E. destruct E as [E1 E2].
      apply N.eqb_eq in E1, E2, E3. rewrite E1, E2, E3, Hne. exact IH.
    - destruct ((oi_kind (op_id x) =? kind) && (oi_ns (op_id x) =? ns) && (oi_name (op_id x) =? name)); [reflexivity|exact IH].
  Qed.

  Lemma find_phase_key phs kind ns name p : find_phase phs kind ns name = Some p ->
    oi_kind (op_id p) = kind /\ oi_ns (op_id p) = ns /\ oi_name (op_id p) = name.
  Proof.
    unfold find_phase. intros H. apply find_some in H. destruct H as [_ H].
    apply andb_true_iff in H. destruct H as [H H3]. apply andb_true_iff in H. destruct H as [H1 H2].
    apply N.eqb_eq in H1, H2, H3. auto.
  Qed.
End PhaseObjects.

Section Mixed.
  Variable force : bool.
  Let c : cfg := {| c_flavor := FObjectSet; c_force := force |}.

  Definition member_evs (evs : list sev) : list ev :=
    flat_map (fun e => match e with SMember x => [x] | _ => [] end) evs.

  Lemma member_evs_app a b : member_evs (a ++ b) = member_evs a ++ member_evs b.
  Proof. unfold member_evs. now rewrite flat_map_app. Qed.

  Lemma member_evs_members l : member_evs (map SMember l) = l.
  Proof. induction l as [|x xs IH]; [reflexivity|]. cbn [map]. unfold member_evs in *. cbn [flat_map app]. now rewrite IH. Qed.

  Definition is_local (ph : phase) : bool := negb (ph_class ph).
  Definition local_phases (s : oset) : list phase := filter is_local (os_phases s).
  Definition delegated_phases (s : oset) : list phase := filter ph_class (os_phases s).

  (** The phase object of a delegated phase. *)
  Definition pobj_name (s : oset) (ph : phase) : N := join_name (oi_name (os_id s)) (ph_name ph).
  Definition phase_obj_of (sw : sworld) (s : oset) (ph : phase) : option osphase :=
    find_phase (sw_phases sw) (phase_kind s) (oi_ns (os_id s)) (pobj_name s ph).

  (** Available=True computed for the phase object's current generation. *)
  Definition avail_current (cur : osphase) : Prop :=
    exists cd, find_cond (op_conds cur) CAvailable = Some cd /\ cd_status cd = STrue /\ cd_gen cd = op_gen cur.

  Lemma cstatus_eqb_true x : cstatus_eqb x STrue = true -> x = STrue.
  Proof. destruct x; cbn; congruence. Qed.

  Lemma relay_ok cur active : relay cur = RROk active false -> avail_current cur /\ active = op_ctrlof cur.
  Proof.
    unfold relay, avail_current. destruct (find_cond (op_conds cur) CAvailable) as [cd|]; [|discriminate].
    destruct (Z.eqb (cd_gen cd) (op_gen cur)) eqn:Eg; cbn [negb]; [|discriminate].
    destruct (cstatus_eqb (cd_status cd) STrue) eqn:Es; [|discriminate].
    intros H. injection H as <-. split; [|reflexivity]. exists cd. apply Z.eqb_eq in Eg. apply cstatus_eqb_true in Es. auto.
  Qed.

  Lemma relay_active cur active failed : relay cur = RROk active failed -> active = op_ctrlof cur.
  Proof.
    unfold relay. destruct (find_cond (op_conds cur) CAvailable) as [cd|]; [|now intros H; injection H as <- _].
    destruct (negb _); [now intros H; injection H as <- _|]. destruct (cstatus_eqb _ _); now intros H; injection H as <- _.
  Qed.

  Lemma relay_not_err cur : relay cur <> RRErr.
  Proof.
    unfold relay. destruct (find_cond (op_conds cur) CAvailable) as [cd|]; [|discriminate].
    destruct (negb _); [discriminate|]. destruct (cstatus_eqb _ _); discriminate.
  Qed.

  (** ** remotePhase.Reconcile: no member object is touched; only the phase's own phase object is. *)
  Definition is_write_on (n : N) (e : sev) : Prop :=
    match e with
    | SPhase (PCreate m _) | SPhase (PPause m _ _) | SPhase (PDelete m _) | SPhase (PStrip m _) => m = n
    | _ => False
    end.
  Definition only_phase_evs (n : N) (evs : list sev) : Prop :=
    Forall (fun e => match e with SPhase (PGet m _) | SPhase (PCreate m _) | SPhase (PPause m _ _)
                                | SPhase (PDelete m _) | SPhase (PStrip m _) => m = n | _ => False end) evs.

  Lemma only_phase_members n evs : only_phase_evs n evs -> member_evs evs = [].
  Proof.
    induction evs as [|e evs IH]; intros H; [reflexivity|]. inversion H as [|? ? He Hr]; subst.
    destruct e as [x|m|p]; [contradiction|contradiction|]. cbn. now apply IH.
  Qed.

  Lemma remote_reconcile_inv sw s ph rem sw1 e1 rem1 r :
    remote_reconcile sw s ph rem = (sw1, e1, rem1, r) ->
    w_store (sw_w sw1) = w_store (sw_w sw) /\ sw_sets sw1 = sw_sets sw /\ sw_nss sw1 = sw_nss sw /\
    only_phase_evs (pobj_name s ph) e1 /\
    (forall kind ns name, (phase_kind s =? kind) && (oi_ns (os_id s) =? ns) && (pobj_name s ph =? name) = false ->
       find_phase (sw_phases sw1) kind ns name = find_phase (sw_phases sw) kind ns name) /\
    match r with
    | RRErr => True
    | RROk active failed =>
        exists cur, phase_obj_of sw1 s ph = Some cur /\ relay cur = RROk active failed /\
          (In (SPhase (PGet (pobj_name s ph) (Some cur))) e1 \/ exists p, In (SPhase (PPause (pobj_name s ph) p (Some cur))) e1)
    end.
  Proof.
    unfold remote_reconcile, phase_obj_of, pobj_name. cbn [desired_phase op_id oi_kind oi_ns oi_name].
    set (name := join_name (oi_name (os_id s)) (ph_name ph)).
    destruct (find_phase (sw_phases sw) (phase_kind s) (oi_ns (os_id s)) name) as [cur|] eqn:Ef.
    - destruct (find_phase_key _ _ _ _ _ Ef) as (Hk & Hns & Hn).
      destruct (negb (controlled_by_uid (op_owners cur) (oi_uid (os_id s)))).
      { intros H. injection H as <- <- <- <-. repeat split; auto. constructor; [reflexivity|constructor]. }
      destruct (Bool.eqb (op_paused cur) _) eqn:Ep.
      + intros H. injection H as <- <- <- <-. repeat split; auto.
        * constructor; [reflexivity|constructor].
        * destruct (relay cur) as [|active failed] eqn:Er; [exact I|]. exists cur. split; [exact Ef|]. split; [exact Er|]. left. now left.
      + intros H. injection H as <- <- <- <-. cbn [sw_w with_phases sw_sets sw_nss sw_phases bump_rv w_store].
        set (cur' := phase_with cur _ _ _ _ _ _).
        assert (Hid : op_id cur' = op_id cur) by reflexivity.
        repeat split; auto.
        * constructor; [reflexivity|]. constructor; [reflexivity|constructor].
        * intros kind ns nm Hne. apply find_put_phase_other. unfold pkey_eq. rewrite Hid, Hk, Hns, Hn. exact Hne.
        * destruct (relay cur') as [|active failed] eqn:Er; [exact I|]. exists cur'. split.
          -- rewrite <- Hk, <- Hns, <- Hn, <- Hid. apply find_put_phase_same.
          -- split; [exact Er|]. right. eexists. right. now left.
    - intros H. injection H as <- <- <- <-. cbn [sw_w with_phases sw_sets sw_nss sw_phases bump_uid_rv w_store].
      repeat split; auto.
      + constructor; [reflexivity|]. constructor; [reflexivity|constructor].
      + intros kind ns nm Hne. apply find_put_phase_other. unfold pkey_eq. cbn. exact Hne.
  Qed.

  (** Only a phase object controlled by the ObjectSet is recorded, patched or relayed; anything else is an error
      that leaves the world and the recorded remote phases as they are. *)
  Lemma add_remote_in refs r x : In x (add_remote refs r) -> x = r \/ In x refs.
  Proof.
    induction refs as [|y l IH]; cbn; [intros [<-|[]]; now left|].
    destruct (fst y =? fst r); cbn.
    - intros [<-|H]; [now left|right; now right].
    - intros [<-|H]; [right; now left|]. destruct (IH H) as [->|H']; [now left|right; now right].
  Qed.

  Lemma remote_reconcile_own sw s ph rem sw1 e1 rem1 r :
    remote_reconcile sw s ph rem = (sw1, e1, rem1, r) ->
    match r with
    | RRErr => rem1 = rem /\ Forall (fun e => match e with SPhase (PPause _ _ _) => False | _ => True end) e1
    | RROk active failed =>
        exists cur, phase_obj_of sw1 s ph = Some cur /\ relay cur = RROk active failed /\
          (In (SPhase (PGet (pobj_name s ph) (Some cur))) e1 \/ exists p, In (SPhase (PPause (pobj_name s ph) p (Some cur))) e1) /\
          controlled_by_uid (op_owners cur) (oi_uid (os_id s)) = true /\
          rem1 = add_remote rem (pobj_name s ph, oi_uid (op_id cur))
    end.
  Proof.
    unfold remote_reconcile, phase_obj_of, pobj_name. cbn [desired_phase op_id oi_kind oi_ns oi_name].
    set (name := join_name (oi_name (os_id s)) (ph_name ph)).
    destruct (find_phase (sw_phases sw) (phase_kind s) (oi_ns (os_id s)) name) as [cur|] eqn:Ef.
    - destruct (find_phase_key _ _ _ _ _ Ef) as (Hk & Hns & Hn).
      destruct (controlled_by_uid (op_owners cur) (oi_uid (os_id s))) eqn:Ec; cbn [negb].
      2:{ intros H. injection H as <- <- <- <-. split; [reflexivity|]. constructor; [exact I|constructor]. }
      destruct (Bool.eqb (op_paused cur) _) eqn:Ep.
      + intros H. injection H as <- <- <- <-.
        destruct (relay cur) as [|active failed] eqn:Er; [exfalso; eapply relay_not_err; eauto|].
        exists cur. split; [exact Ef|]. split; [exact Er|]. split; [left; now left|]. auto.
      + intros H. injection H as <- <- <- <-. cbn [sw_phases with_phases].
        set (cur' := phase_with cur _ _ _ _ _ _).
        destruct (relay cur') as [|active failed] eqn:Er; [exfalso; eapply relay_not_err; eauto|].
        exists cur'. split; [rewrite <- Hk, <- Hns, <- Hn; apply (find_put_phase_same (sw_phases sw) cur')|].
        split; [exact Er|]. split; [right; eexists; right; now left|]. split; [exact Ec|reflexivity].
    - intros H. injection H as <- <- <- <-. split; [reflexivity|]. constructor; [exact I|]. constructor; [exact I|constructor].
  Qed.

  Lemma rpm_cons sw s ow prev ph rest acc rem :
    reconcile_phases_m force sw s ow prev (ph :: rest) acc rem =
    if ph_class ph then
      match remote_reconcile sw s ph rem with
      | (sw1, e1, rem1, RRErr) => (sw1, e1, rem1, MRemoteErr)
      | (sw1, e1, rem1, RROk active true) => (sw1, e1, rem1, MOk (acc ++ active) (Some (ph_name ph)))
      | (sw1, e1, rem1, RROk active false) =>
          let '(sw2, e2, rem2, r) := reconcile_phases_m force sw1 s ow prev rest (acc ++ active) rem1 in
          (sw2, e1 ++ e2, rem2, r)
      end
    else
      match reconcile_phase c idw (sw_w sw) ow prev false (ph_objects ph) with
      | (w1, e1, PhErr e) => (with_w sw w1, map SMember e1, rem, MErr e)
      | (w1, e1, PhPreflight _) => (with_w sw w1, map SMember e1, rem, MPreflight)
      | (w1, e1, PhOk actual failed) =>
          let acc' := acc ++ map fst (filter (fun ko => is_controller Native (ow_id ow) (snd ko)) actual) in
          match failed with
          | _ :: _ => (with_w sw w1, map SMember e1, rem, MOk acc' (Some (ph_name ph)))
          | [] => let '(sw2, e2, rem2, r) := reconcile_phases_m force (with_w sw w1) s ow prev rest acc' rem in
                  (sw2, map SMember e1 ++ e2, rem2, r)
          end
      end.
  Proof. reflexivity. Qed.

  Definition local_keys (ow : owner) (phs : list phase) : list okey := flat_map (phase_keys ow) (filter is_local phs).
  Definition delegated_names (s : oset) (phs : list phase) : list N := map (pobj_name s) (filter ph_class phs).

  Lemma local_keys_cons_local ow ph rest : ph_class ph = false -> local_keys ow (ph :: rest) = phase_keys ow ph ++ local_keys ow rest.
  Proof. intros H. unfold local_keys, is_local. cbn. now rewrite H. Qed.
  Lemma local_keys_cons_remote ow ph rest : ph_class ph = true -> local_keys ow (ph :: rest) = local_keys ow rest.
  Proof. intros H. unfold local_keys, is_local. cbn. now rewrite H. Qed.
  Lemma delegated_names_cons_local s ph rest : ph_class ph = false -> delegated_names s (ph :: rest) = delegated_names s rest.
  Proof. intros H. unfold delegated_names. cbn. now rewrite H. Qed.
  Lemma delegated_names_cons_remote s ph rest : ph_class ph = true -> delegated_names s (ph :: rest) = pobj_name s ph :: delegated_names s rest.
  Proof. intros H. unfold delegated_names. cbn. now rewrite H. Qed.

  (** Which phase an event writes to: a member object of a local phase, or the phase object of a delegated one
      (reads of phase objects are not writes). *)
  Definition touches (s : oset) (ow : owner) (ph : phase) (e : sev) : Prop :=
    match e with
    | SMember x => ph_class ph = false /\ In (ev_key x) (phase_keys ow ph)
    | SPhase _ => ph_class ph = true /\ is_write_on (pobj_name s ph) e
    | SMeta _ => False
    end.

  (** Events of the loop stay within the listed phases; everything else is framed. *)
  Lemma rpm_inv s ow prev phs : forall sw acc rem sw' evs rem' r,
    reconcile_phases_m force sw s ow prev phs acc rem = (sw', evs, rem', r) ->
    sw_sets sw' = sw_sets sw /\ sw_nss sw' = sw_nss sw /\
    Forall (fun e => In (ev_key e) (local_keys ow phs)) (member_evs evs) /\
    Forall (fun e => match e with
                     | SMember _ => True
                     | SPhase p => exists n, In n (delegated_names s phs) /\ only_phase_evs n [e]
                     | SMeta _ => False end) evs /\
    (forall k, ~ In k (local_keys ow phs) -> lookup k (w_store (sw_w sw')) = lookup k (w_store (sw_w sw))) /\
    (forall kind ns name, ~ (kind = phase_kind s /\ ns = oi_ns (os_id s) /\ In name (delegated_names s phs)) ->
       find_phase (sw_phases sw') kind ns name = find_phase (sw_phases sw) kind ns name).
  Proof.
    induction phs as [|ph rest IH]; intros sw acc rem sw' evs rem' r H.
    - cbn in H. injection H as <- <- _ _. repeat split; auto; constructor.
    - rewrite rpm_cons in H. destruct (ph_class ph) eqn:Ecl.
      + (* delegated *)
        rewrite (local_keys_cons_remote _ _ _ Ecl), (delegated_names_cons_remote _ _ _ Ecl).
        destruct (remote_reconcile sw s ph rem) as [[[sw1 e1] rem1] r1] eqn:E1.
        destruct (remote_reconcile_inv _ _ _ _ _ _ _ _ E1) as (Hst & Hse & Hns & Hev & Hfr & _).
        assert (Hm1 : member_evs e1 = []) by (eapply only_phase_members; eauto).
        assert (Hev1 : Forall (fun e => match e with
                     | SMember _ => True
                     | SPhase p => exists n, In n (pobj_name s ph :: delegated_names s rest) /\ only_phase_evs n [e]
                     | SMeta _ => False end) e1).
        { eapply Forall_impl; [|exact Hev]. intros e He. destruct e as [x|m|p]; [exact I|contradiction|].
          exists (pobj_name s ph). split; [now left|]. constructor; [exact He|constructor]. }
        assert (Hfr1 : forall kind ns name, ~ (kind = phase_kind s /\ ns = oi_ns (os_id s) /\ In name (pobj_name s ph :: delegated_names s rest)) ->
                  find_phase (sw_phases sw1) kind ns name = find_phase (sw_phases sw) kind ns name).
        { intros kind ns name Hno. apply Hfr.
          destruct ((phase_kind s =? kind) && (oi_ns (os_id s) =? ns) && (pobj_name s ph =? name)) eqn:E; [|reflexivity].
          exfalso. apply Hno. apply andb_true_iff in E. destruct E as [E E3]. apply andb_true_iff in E. destruct E as [E1' E2].
          apply N.eqb_eq in E1', E2, E3. subst. repeat split; auto. now left. }
        assert (Hstop : (sw1, e1, rem1) = (sw', evs, rem') ->
          sw_sets sw' = sw_sets sw /\ sw_nss sw' = sw_nss sw /\
          Forall (fun e => In (ev_key e) (local_keys ow rest)) (member_evs evs) /\
          Forall (fun e => match e with
                     | SMember _ => True
                     | SPhase p => exists n, In n (pobj_name s ph :: delegated_names s rest) /\ only_phase_evs n [e]
                     | SMeta _ => False end) evs /\
          (forall k, ~ In k (local_keys ow rest) -> lookup k (w_store (sw_w sw')) = lookup k (w_store (sw_w sw))) /\
          (forall kind ns name, ~ (kind = phase_kind s /\ ns = oi_ns (os_id s) /\ In name (pobj_name s ph :: delegated_names s rest)) ->
             find_phase (sw_phases sw') kind ns name = find_phase (sw_phases sw) kind ns name)).
        { intros Heq. injection Heq as <- <- <-. rewrite Hm1. repeat split; auto. intros k _. now rewrite Hst. }
        destruct r1 as [|active failed].
        * injection H as <- <- <- _. now apply Hstop.
        * destruct failed.
          -- injection H as <- <- <- _. now apply Hstop.
          -- destruct (reconcile_phases_m force sw1 s ow prev rest (acc ++ active) rem1) as [[[sw2 e2] rem2] r2] eqn:E2.
             injection H as <- <- <- <-.
             destruct (IH _ _ _ _ _ _ _ E2) as (Hse2 & Hns2 & Hm2 & Hev2 & Hst2 & Hfr2).
             rewrite member_evs_app, Hm1. cbn [app].
             split; [congruence|]. split; [congruence|]. split; [exact Hm2|]. split; [|split].
             ++ apply Forall_app. split; [exact Hev1|]. eapply Forall_impl; [|exact Hev2].
                intros e He. destruct e as [x|m|p]; auto. destruct He as (n & Hn & Ho). exists n. split; [now right|exact Ho].
             ++ intros k Hk. rewrite (Hst2 k Hk). now rewrite Hst.
             ++ intros kind ns name Hno. rewrite Hfr2; [apply Hfr1; exact Hno|].
                intros (H1 & H2 & H3). apply Hno. repeat split; auto. now right.
      + (* local *)
        rewrite (local_keys_cons_local _ _ _ Ecl), (delegated_names_cons_local _ _ _ Ecl).
        destruct (reconcile_phase c idw (sw_w sw) ow prev false (ph_objects ph)) as [[w1 e1] r1] eqn:E1.
        pose proof (rec_phase_events_in force _ _ _ _ _ _ _ _ E1) as Hin1.
        assert (Hin1' : Forall (fun e => In (ev_key e) (phase_keys ow ph ++ local_keys ow rest)) e1).
        { eapply Forall_impl; [|exact Hin1]. cbn. intros e He. apply in_or_app. now left. }
        assert (Hfr1 : forall k, ~ In k (phase_keys ow ph ++ local_keys ow rest) -> lookup k (w_store w1) = lookup k (w_store (sw_w sw))).
        { intros k Hk. eapply rec_phase_frame; eauto. intros p Hp Heq. apply Hk. apply in_or_app. left. rewrite <- Heq. unfold phase_keys. now apply in_map. }
        assert (Hmem1 : Forall (fun e => match e with
                     | SMember _ => True
                     | SPhase p => exists n, In n (delegated_names s rest) /\ only_phase_evs n [e]
                     | SMeta _ => False end) (map SMember e1)).
        { apply Forall_forall. intros e He. apply in_map_iff in He. destruct He as (x & <- & _). exact I. }
        assert (Hstop : forall rr, (with_w sw w1, map SMember e1, rem, rr) = (sw', evs, rem', r) ->
          sw_sets sw' = sw_sets sw /\ sw_nss sw' = sw_nss sw /\
          Forall (fun e => In (ev_key e) (phase_keys ow ph ++ local_keys ow rest)) (member_evs evs) /\
          Forall (fun e => match e with
                     | SMember _ => True
                     | SPhase p => exists n, In n (delegated_names s rest) /\ only_phase_evs n [e]
                     | SMeta _ => False end) evs /\
          (forall k, ~ In k (phase_keys ow ph ++ local_keys ow rest) -> lookup k (w_store (sw_w sw')) = lookup k (w_store (sw_w sw))) /\
          (forall kind ns name, ~ (kind = phase_kind s /\ ns = oi_ns (os_id s) /\ In name (delegated_names s rest)) ->
             find_phase (sw_phases sw') kind ns name = find_phase (sw_phases sw) kind ns name)).
        { intros rr Heq. injection Heq as <- <- <- _. rewrite member_evs_members. repeat split; auto. }
        destruct r1 as [e|vs|actual failed]; [eapply Hstop; eauto|eapply Hstop; eauto|].
        destruct failed as [|f fs]; [|eapply Hstop; eauto].
        cbv zeta in H.
        match type of H with context [reconcile_phases_m force ?a s ow prev rest ?b ?d] =>
          destruct (reconcile_phases_m force a s ow prev rest b d) as [[[sw2 e2] rem2] r2] eqn:E2 end.
        injection H as <- <- <- <-.
        destruct (IH _ _ _ _ _ _ _ E2) as (Hse2 & Hns2 & Hm2 & Hev2 & Hst2 & Hfr2).
        rewrite member_evs_app, member_evs_members.
        split; [exact Hse2|]. split; [exact Hns2|]. split; [|split; [|split]].
        * apply Forall_app. split; [exact Hin1'|]. eapply Forall_impl; [|exact Hm2]. cbn. intros e He. apply in_or_app. now right.
        * apply Forall_app. split; [exact Hmem1|exact Hev2].
        * intros k Hk. rewrite Hst2; [cbn; now apply Hfr1|]. intros Hin. apply Hk. apply in_or_app. now right.
        * intros kind ns name Hno. rewrite (Hfr2 _ _ _ Hno). reflexivity.
  Qed.

  Lemma exists_app_not {A} (P : A -> Prop) l1 l2 : Exists P (l1 ++ l2) -> Forall (fun x => ~ P x) l1 -> Exists P l2.
  Proof.
    intros He Hn. apply Exists_app in He. destruct He as [He|He]; [|assumption]. exfalso.
    apply Exists_exists in He. destruct He as (x & Hx & Hp). rewrite Forall_forall in Hn. now apply (Hn x Hx).
  Qed.

  Lemma exists_not {A} (P : A -> Prop) l : Exists P l -> Forall (fun x => ~ P x) l -> False.
  Proof.
    intros He Hn. apply Exists_exists in He. destruct He as (x & Hx & Hp). rewrite Forall_forall in Hn. now apply (Hn x Hx).
  Qed.

  (** A phase counts as complete for the gate: a local phase when all its objects are present and pass the
      probe; a delegated phase when its phase object reports Available=True for its current generation. *)
  Definition phase_done (sw : sworld) (s : oset) (ow : owner) (q : phase) : Prop :=
    if ph_class q then exists cur, phase_obj_of sw s q = Some cur /\ avail_current cur
    else phase_ok (sw_w sw) ow q.

  Lemma in_delegated_names s ph phs : In ph phs -> ph_class ph = true -> In (pobj_name s ph) (delegated_names s phs).
  Proof. intros Hin Hc. unfold delegated_names. apply in_map. apply filter_In. auto. Qed.

  Lemma in_local_keys ow ph phs k : In ph phs -> ph_class ph = false -> In k (phase_keys ow ph) -> In k (local_keys ow phs).
  Proof. intros Hin Hc Hk. unfold local_keys. apply in_flat_map. exists ph. split; [|exact Hk]. apply filter_In. unfold is_local. now rewrite Hc. Qed.

  (** Events of a delegated step never write to another listed phase. *)
  Lemma remote_evs_touch_nothing s ow q0 ph rest e1 :
    only_phase_evs (pobj_name s q0) e1 -> In ph rest ->
    ~ In (pobj_name s q0) (delegated_names s rest) ->
    Forall (fun e => ~ touches s ow ph e) e1.
  Proof.
    intros Hev Hin Hnot. eapply Forall_impl; [|exact Hev]. intros e He Ht.
    destruct e as [x|m|p]; [contradiction|contradiction|]. cbn in Ht. destruct Ht as [Hc Hw].
    apply Hnot. assert (pobj_name s ph = pobj_name s q0) as <-.
    { destruct p; cbn in Hw, He; try contradiction; congruence. }
    now apply in_delegated_names.
  Qed.

  Lemma local_evs_touch_nothing s ow q0 ph rest (e1 : list ev) :
    Forall (fun e => In (ev_key e) (phase_keys ow q0)) e1 -> In ph rest ->
    (forall k, In k (phase_keys ow q0) -> ~ In k (local_keys ow rest)) ->
    Forall (fun e => ~ touches s ow ph e) (map SMember e1).
  Proof.
    intros Hev Hin Hdis. apply Forall_forall. intros e He Ht. apply in_map_iff in He. destruct He as (x & <- & Hx).
    cbn in Ht. destruct Ht as [Hc Hk]. rewrite Forall_forall in Hev. apply (Hdis _ (Hev _ Hx)).
    eapply in_local_keys; eauto.
  Qed.

  (** ** C03 for mixed phase lists: rollout gating.
      If any request of the loop writes to a phase (a member of a local phase, or the phase object of a
      delegated one), every earlier phase is complete afterwards: all objects of an earlier local phase are
      present and pass the probe, and the phase object of an earlier delegated phase reports Available=True
      for its current generation. *)
  Lemma rpm_gate s ow prev phs : forall sw acc rem sw' evs rem' r,
    reconcile_phases_m force sw s ow prev phs acc rem = (sw', evs, rem', r) ->
    NoDup (local_keys ow phs) -> NoDup (delegated_names s phs) ->
    forall pre ph post, phs = pre ++ ph :: post ->
      Exists (touches s ow ph) evs ->
      forall q, In q pre -> phase_done sw' s ow q.
  Proof.
    induction phs as [|ph0 rest IH]; intros sw acc rem sw' evs rem' r H Hnd Hndn pre ph post Hsplit Hex q Hq.
    - destruct pre; discriminate.
    - destruct pre as [|q0 pre']; [contradiction|]. cbn in Hsplit. injection Hsplit as -> ->.
      assert (Hph_in : In ph (pre' ++ ph :: post)) by (apply in_or_app; right; now left).
      rewrite rpm_cons in H. destruct (ph_class q0) eqn:Ecl.
      + rewrite (local_keys_cons_remote _ _ _ Ecl) in Hnd. rewrite (delegated_names_cons_remote _ _ _ Ecl) in Hndn.
        inversion Hndn as [|? ? Hnotin Hndn']; subst.
        destruct (remote_reconcile sw s q0 rem) as [[[sw1 e1] rem1] r1] eqn:E1.
        destruct (remote_reconcile_inv _ _ _ _ _ _ _ _ E1) as (_ & _ & _ & Hev & _ & Hres).
        pose proof (remote_evs_touch_nothing s ow q0 ph _ e1 Hev Hph_in Hnotin) as Hnot1.
        destruct r1 as [|active failed]; [injection H as <- <- <- _; exfalso; eapply exists_not; eauto|].
        destruct failed; [injection H as <- <- <- _; exfalso; eapply exists_not; eauto|].
        destruct (reconcile_phases_m force sw1 s ow prev (pre' ++ ph :: post) (acc ++ active) rem1) as [[[sw2 e2] rem2] r2] eqn:E2.
        injection H as <- <- <- <-.
        pose proof (exists_app_not _ _ _ Hex Hnot1) as Hex2.
        destruct Hq as [<-|Hq]; [|eapply (IH _ _ _ _ _ _ _ E2 Hnd Hndn' pre' ph post eq_refl Hex2 q Hq)].
        unfold phase_done. rewrite Ecl. destruct Hres as (cur & Hcur & Hrel & _).
        exists cur. split; [|now destruct (relay_ok _ _ Hrel)].
        unfold phase_obj_of in *. rewrite <- Hcur.
        destruct (rpm_inv _ _ _ _ _ _ _ _ _ _ _ E2) as (_ & _ & _ & _ & _ & Hfr). apply Hfr. intros (_ & _ & Hin). contradiction.
      + rewrite (local_keys_cons_local _ _ _ Ecl) in Hnd. rewrite (delegated_names_cons_local _ _ _ Ecl) in Hndn.
        pose proof (NoDup_app_r _ _ Hnd) as Hnd_rest. pose proof (NoDup_app_l _ _ Hnd) as Hnd0.
        assert (Hdisj : forall k, In k (phase_keys ow q0) -> ~ In k (local_keys ow (pre' ++ ph :: post))).
        { intros k Hk. eapply NoDup_app_disj; eauto. }
        destruct (reconcile_phase c idw (sw_w sw) ow prev false (ph_objects q0)) as [[w1 e1] r1] eqn:E1.
        pose proof (local_evs_touch_nothing s ow q0 ph _ e1 (rec_phase_events_in force _ _ _ _ _ _ _ _ E1) Hph_in Hdisj) as Hnot1.
        destruct r1 as [e|vs|actual failed]; [injection H as <- <- <- _; exfalso; eapply exists_not; eauto|injection H as <- <- <- _; exfalso; eapply exists_not; eauto|].
        destruct failed as [|f fs]; [|injection H as <- <- <- _; exfalso; eapply exists_not; eauto].
        cbv zeta in H.
        match type of H with context [reconcile_phases_m force ?a s ow prev ?l ?b ?d] =>
          destruct (reconcile_phases_m force a s ow prev l b d) as [[[sw2 e2] rem2] r2] eqn:E2 end.
        injection H as <- <- <- <-.
        pose proof (exists_app_not _ _ _ Hex Hnot1) as Hex2.
        destruct Hq as [<-|Hq]; [|eapply (IH _ _ _ _ _ _ _ E2 Hnd_rest Hndn pre' ph post eq_refl Hex2 q Hq)].
        unfold phase_done. rewrite Ecl.
        unfold reconcile_phase in E1. destruct (flat_map _ (ph_objects q0)); [|discriminate].
        destruct (rec_objs_ok_present force ow prev _ _ _ _ _ _ _ E1 Hnd0) as [_ Hall].
        intros p Hp. destruct (Hall p Hp) as (o & Ho & Hpr). exists o. split; [|exact Hpr].
        rewrite <- Ho. destruct (rpm_inv _ _ _ _ _ _ _ _ _ _ _ E2) as (_ & _ & _ & _ & Hfr & _).
        rewrite Hfr; [reflexivity|]. apply Hdisj. unfold phase_keys. now apply in_map.
  Qed.

  (** The same for the local phases alone; no hypothesis on the names of the delegated phases. *)
  Lemma rpm_gate_local s ow prev phs : forall sw acc rem sw' evs rem' r,
    reconcile_phases_m force sw s ow prev phs acc rem = (sw', evs, rem', r) ->
    NoDup (local_keys ow phs) ->
    forall pre ph post, phs = pre ++ ph :: post -> ph_class ph = false ->
      Exists (fun e => In (ev_key e) (phase_keys ow ph)) (member_evs evs) ->
      forall q, In q pre -> ph_class q = false -> phase_ok (sw_w sw') ow q.
  Proof.
    induction phs as [|ph0 rest IH]; intros sw acc rem sw' evs rem' r H Hnd pre ph post Hsplit Hcl Hex q Hq Hcq.
    - destruct pre; discriminate.
    - destruct pre as [|q0 pre']; [contradiction|]. cbn in Hsplit. injection Hsplit as -> ->.
      assert (Hph_in : In ph (pre' ++ ph :: post)) by (apply in_or_app; right; now left).
      rewrite rpm_cons in H. destruct (ph_class q0) eqn:Ecl.
      + rewrite (local_keys_cons_remote _ _ _ Ecl) in Hnd.
        destruct (remote_reconcile sw s q0 rem) as [[[sw1 e1] rem1] r1] eqn:E1.
        destruct (remote_reconcile_inv _ _ _ _ _ _ _ _ E1) as (_ & _ & _ & Hev & _ & _).
        pose proof (only_phase_members _ _ Hev) as Hm1.
        destruct r1 as [|active failed]; [injection H as <- <- <- _; rewrite Hm1 in Hex; inversion Hex|].
        destruct failed; [injection H as <- <- <- _; rewrite Hm1 in Hex; inversion Hex|].
        destruct (reconcile_phases_m force sw1 s ow prev (pre' ++ ph :: post) (acc ++ active) rem1) as [[[sw2 e2] rem2] r2] eqn:E2.
        injection H as <- <- <- <-. rewrite member_evs_app, Hm1 in Hex. cbn [app] in Hex.
        destruct Hq as [<-|Hq]; [congruence|]. eapply (IH _ _ _ _ _ _ _ E2 Hnd pre' ph post eq_refl Hcl Hex q Hq Hcq).
      + rewrite (local_keys_cons_local _ _ _ Ecl) in Hnd.
        pose proof (NoDup_app_r _ _ Hnd) as Hnd_rest. pose proof (NoDup_app_l _ _ Hnd) as Hnd0.
        assert (Hdisj : forall k, In k (phase_keys ow q0) -> ~ In k (local_keys ow (pre' ++ ph :: post))).
        { intros k Hk. eapply NoDup_app_disj; eauto. }
        destruct (reconcile_phase c idw (sw_w sw) ow prev false (ph_objects q0)) as [[w1 e1] r1] eqn:E1.
        assert (Hnot1 : Forall (fun e => ~ In (ev_key e) (phase_keys ow ph)) e1).
        { eapply Forall_impl; [|exact (rec_phase_events_in force _ _ _ _ _ _ _ _ E1)]. cbn. intros e He Hk.
          apply (Hdisj _ He). eapply in_local_keys; eauto. }
        destruct r1 as [e|vs|actual failed];
          [injection H as <- <- <- _; rewrite member_evs_members in Hex; exfalso; eapply exists_not; eauto
          |injection H as <- <- <- _; rewrite member_evs_members in Hex; exfalso; eapply exists_not; eauto|].
        destruct failed as [|f fs]; [|injection H as <- <- <- _; rewrite member_evs_members in Hex; exfalso; eapply exists_not; eauto].
        cbv zeta in H.
        match type of H with context [reconcile_phases_m force ?a s ow prev ?l ?b ?d] =>
          destruct (reconcile_phases_m force a s ow prev l b d) as [[[sw2 e2] rem2] r2] eqn:E2 end.
        injection H as <- <- <- <-. rewrite member_evs_app, member_evs_members in Hex.
        pose proof (exists_app_not _ _ _ Hex Hnot1) as Hex2.
        destruct Hq as [<-|Hq]; [|eapply (IH _ _ _ _ _ _ _ E2 Hnd_rest pre' ph post eq_refl Hcl Hex2 q Hq Hcq)].
        unfold reconcile_phase in E1. destruct (flat_map _ (ph_objects q0)); [|discriminate].
        destruct (rec_objs_ok_present force ow prev _ _ _ _ _ _ _ E1 Hnd0) as [_ Hall].
        intros p Hp. destruct (Hall p Hp) as (o & Ho & Hpr). exists o. split; [|exact Hpr].
        rewrite <- Ho. destruct (rpm_inv _ _ _ _ _ _ _ _ _ _ _ E2) as (_ & _ & _ & _ & Hfr & _).
        rewrite Hfr; [reflexivity|]. apply Hdisj. unfold phase_keys. now apply in_map.
  Qed.

  Lemma rpm_all_ok_local s ow prev phs : forall sw acc rem sw' evs rem' ctrlof,
    reconcile_phases_m force sw s ow prev phs acc rem = (sw', evs, rem', MOk ctrlof None) ->
    NoDup (local_keys ow phs) ->
    forall q, In q phs -> ph_class q = false -> phase_ok (sw_w sw') ow q.
  Proof.
    induction phs as [|ph rest IH]; intros sw acc rem sw' evs rem' ctrlof H Hnd q Hq Hcq; [contradiction|].
    rewrite rpm_cons in H. destruct (ph_class ph) eqn:Ecl.
    - rewrite (local_keys_cons_remote _ _ _ Ecl) in Hnd.
      destruct (remote_reconcile sw s ph rem) as [[[sw1 e1] rem1] r1] eqn:E1.
      destruct r1 as [|active failed]; [discriminate|]. destruct failed; [discriminate|].
      destruct (reconcile_phases_m force sw1 s ow prev rest (acc ++ active) rem1) as [[[sw2 e2] rem2] r2] eqn:E2.
      injection H as <- _ _ ->. destruct Hq as [<-|Hq]; [congruence|]. eapply IH; eauto.
    - rewrite (local_keys_cons_local _ _ _ Ecl) in Hnd.
      pose proof (NoDup_app_r _ _ Hnd) as Hnd_rest. pose proof (NoDup_app_l _ _ Hnd) as Hnd0.
      destruct (reconcile_phase c idw (sw_w sw) ow prev false (ph_objects ph)) as [[w1 e1] r1] eqn:E1.
      destruct r1 as [e|vs|actual failed]; [discriminate|discriminate|].
      destruct failed as [|f fs]; [|discriminate].
      cbv zeta in H.
      match type of H with context [reconcile_phases_m force ?a s ow prev ?l ?b ?d] =>
        destruct (reconcile_phases_m force a s ow prev l b d) as [[[sw2 e2] rem2] r2] eqn:E2 end.
      injection H as <- _ _ ->.
      destruct Hq as [<-|Hq]; [|eapply IH; eauto].
      unfold reconcile_phase in E1. destruct (flat_map _ (ph_objects ph)); [|discriminate].
      destruct (rec_objs_ok_present force ow prev _ _ _ _ _ _ _ E1 Hnd0) as [_ Hall].
      intros p Hp. destruct (Hall p Hp) as (o & Ho & Hpr). exists o. split; [|exact Hpr].
      rewrite <- Ho. destruct (rpm_inv _ _ _ _ _ _ _ _ _ _ _ E2) as (_ & _ & _ & _ & Hfr & _).
      rewrite Hfr; [reflexivity|]. eapply NoDup_app_disj; [exact Hnd|]. unfold phase_keys. now apply in_map.
  Qed.

  (** The relay: a loop that completed read, for every delegated phase, a phase object (or got one back from
      its pause patch) that carries Available=True for that object's generation. [phase_read] is defined below. *)
  Lemma rpm_all_ok_read s ow prev phs : forall sw acc rem sw' evs rem' ctrlof,
    reconcile_phases_m force sw s ow prev phs acc rem = (sw', evs, rem', MOk ctrlof None) ->
    forall q, In q phs -> ph_class q = true ->
      exists cur, (In (SPhase (PGet (pobj_name s q) (Some cur))) evs \/ exists p, In (SPhase (PPause (pobj_name s q) p (Some cur))) evs) /\
                  avail_current cur /\ controlled_by_uid (op_owners cur) (oi_uid (os_id s)) = true.
  Proof.
    induction phs as [|ph rest IH]; intros sw acc rem sw' evs rem' ctrlof H q Hq Hcq; [contradiction|].
    rewrite rpm_cons in H. destruct (ph_class ph) eqn:Ecl.
    - destruct (remote_reconcile sw s ph rem) as [[[sw1 e1] rem1] r1] eqn:E1.
      pose proof (remote_reconcile_own _ _ _ _ _ _ _ _ E1) as Hres.
      destruct r1 as [|active failed]; [discriminate|]. destruct failed; [discriminate|].
      destruct (reconcile_phases_m force sw1 s ow prev rest (acc ++ active) rem1) as [[[sw2 e2] rem2] r2] eqn:E2.
      injection H as <- <- _ ->.
      destruct Hq as [<-|Hq].
      + destruct Hres as (cur & _ & Hrel & Hread & Hown & _). exists cur. split; [|split; [now destruct (relay_ok _ _ Hrel)|exact Hown]].
        destruct Hread as [Hr|(p & Hr)]; [left|right; exists p]; apply in_or_app; now left.
      + destruct (IH _ _ _ _ _ _ _ E2 q Hq Hcq) as (cur & Hread & Ha). exists cur. split; [|exact Ha].
        destruct Hread as [Hr|(p & Hr)]; [left|right; exists p]; apply in_or_app; now right.
    - destruct (reconcile_phase c idw (sw_w sw) ow prev false (ph_objects ph)) as [[w1 e1] r1] eqn:E1.
      destruct r1 as [e|vs|actual failed]; [discriminate|discriminate|].
      destruct failed as [|f fs]; [|discriminate].
      cbv zeta in H.
      match type of H with context [reconcile_phases_m force ?a s ow prev ?l ?b ?d] =>
        destruct (reconcile_phases_m force a s ow prev l b d) as [[[sw2 e2] rem2] r2] eqn:E2 end.
      injection H as <- <- _ ->.
      destruct Hq as [<-|Hq]; [congruence|].
      destruct (IH _ _ _ _ _ _ _ E2 q Hq Hcq) as (cur & Hread & Ha). exists cur. split; [|exact Ha].
      destruct Hread as [Hr|(p & Hr)]; [left|right; exists p]; apply in_or_app; now right.
  Qed.

  (** Every phase completed. *)
  Lemma rpm_all_ok s ow prev phs : forall sw acc rem sw' evs rem' ctrlof,
    reconcile_phases_m force sw s ow prev phs acc rem = (sw', evs, rem', MOk ctrlof None) ->
    NoDup (local_keys ow phs) -> NoDup (delegated_names s phs) ->
    forall q, In q phs -> phase_done sw' s ow q.
  Proof.
    induction phs as [|ph rest IH]; intros sw acc rem sw' evs rem' ctrlof H Hnd Hndn q Hq; [contradiction|].
    rewrite rpm_cons in H. destruct (ph_class ph) eqn:Ecl.
    - rewrite (local_keys_cons_remote _ _ _ Ecl) in Hnd. rewrite (delegated_names_cons_remote _ _ _ Ecl) in Hndn.
      inversion Hndn as [|? ? Hnotin Hndn']; subst.
      destruct (remote_reconcile sw s ph rem) as [[[sw1 e1] rem1] r1] eqn:E1.
      destruct (remote_reconcile_inv _ _ _ _ _ _ _ _ E1) as (_ & _ & _ & _ & _ & Hres).
      destruct r1 as [|active failed]; [discriminate|]. destruct failed; [discriminate|].
      destruct (reconcile_phases_m force sw1 s ow prev rest (acc ++ active) rem1) as [[[sw2 e2] rem2] r2] eqn:E2.
      injection H as <- _ _ ->.
      destruct Hq as [<-|Hq]; [|eapply IH; eauto].
      unfold phase_done. rewrite Ecl. destruct Hres as (cur & Hcur & Hrel & _).
      exists cur. split; [|now destruct (relay_ok _ _ Hrel)].
      unfold phase_obj_of in *. rewrite <- Hcur.
      destruct (rpm_inv _ _ _ _ _ _ _ _ _ _ _ E2) as (_ & _ & _ & _ & _ & Hfr). apply Hfr. intros (_ & _ & Hin). contradiction.
    - rewrite (local_keys_cons_local _ _ _ Ecl) in Hnd. rewrite (delegated_names_cons_local _ _ _ Ecl) in Hndn.
      pose proof (NoDup_app_r _ _ Hnd) as Hnd_rest. pose proof (NoDup_app_l _ _ Hnd) as Hnd0.
      destruct (reconcile_phase c idw (sw_w sw) ow prev false (ph_objects ph)) as [[w1 e1] r1] eqn:E1.
      destruct r1 as [e|vs|actual failed]; [discriminate|discriminate|].
      destruct failed as [|f fs]; [|discriminate].
      cbv zeta in H.
      match type of H with context [reconcile_phases_m force ?a s ow prev ?l ?b ?d] =>
        destruct (reconcile_phases_m force a s ow prev l b d) as [[[sw2 e2] rem2] r2] eqn:E2 end.
      injection H as <- _ _ ->.
      destruct Hq as [<-|Hq]; [|eapply IH; eauto].
      unfold phase_done. rewrite Ecl.
      unfold reconcile_phase in E1. destruct (flat_map _ (ph_objects ph)); [|discriminate].
      destruct (rec_objs_ok_present force ow prev _ _ _ _ _ _ _ E1 Hnd0) as [_ Hall].
      intros p Hp. destruct (Hall p Hp) as (o & Ho & Hpr). exists o. split; [|exact Hpr].
      rewrite <- Ho. destruct (rpm_inv _ _ _ _ _ _ _ _ _ _ _ E2) as (_ & _ & _ & _ & Hfr & _).
      rewrite Hfr; [reflexivity|]. eapply NoDup_app_disj; [exact Hnd|]. unfold phase_keys. now apply in_map.
  Qed.

  (** C09 at the ObjectSet level: a paused owner writes to no member (its delegated phases are paused
      through their phase objects). *)
  Lemma rpm_paused s ow prev phs : forall sw acc rem sw' evs rem' r,
    ow_paused ow = true -> reconcile_phases_m force sw s ow prev phs acc rem = (sw', evs, rem', r) ->
    w_store (sw_w sw') = w_store (sw_w sw) /\ member_evs evs = [].
  Proof.
    induction phs as [|ph rest IH]; intros sw acc rem sw' evs rem' r Hp H.
    - cbn in H. injection H as <- <- _ _. auto.
    - rewrite rpm_cons in H. destruct (ph_class ph) eqn:Ecl.
      + destruct (remote_reconcile sw s ph rem) as [[[sw1 e1] rem1] r1] eqn:E1.
        destruct (remote_reconcile_inv _ _ _ _ _ _ _ _ E1) as (Hst & _ & _ & Hev & _ & _).
        pose proof (only_phase_members _ _ Hev) as Hm1.
        destruct r1 as [|active failed]; [injection H as <- <- _ _; auto|].
        destruct failed; [injection H as <- <- _ _; auto|].
        destruct (reconcile_phases_m force sw1 s ow prev rest (acc ++ active) rem1) as [[[sw2 e2] rem2] r2] eqn:E2.
        injection H as <- <- _ _. destruct (IH _ _ _ _ _ _ _ Hp E2) as [Hst2 Hm2].
        rewrite member_evs_app, Hm1, Hm2. split; [congruence|reflexivity].
      + destruct (reconcile_phase c idw (sw_w sw) ow prev false (ph_objects ph)) as [[w1 e1] r1] eqn:E1.
        assert (H1 : w1 = sw_w sw /\ e1 = []).
        { unfold reconcile_phase in E1. destruct (flat_map _ (ph_objects ph)); [|injection E1 as <- <- _; auto].
          eapply phase_paused_no_write; eauto. }
        destruct H1 as [-> ->]. cbn [map] in H.
        destruct r1 as [e|vs|a f]; try (injection H as <- <- _ _; auto).
        destruct f; [|injection H as <- <- _ _; auto].
        cbv zeta in H.
        match type of H with context [reconcile_phases_m force ?a s ow prev ?l ?b ?d] =>
          destruct (reconcile_phases_m force a s ow prev l b d) as [[[sw2 e2] rem2] r2] eqn:E2 end.
        injection H as <- <- _ _. destruct (IH _ _ _ _ _ _ _ Hp E2) as [Hst2 Hm2]. cbn [app]. auto.
  Qed.

  (** ** controllerOf of a mixed list: what the local phases saw controlled, plus what the phase objects of the
      delegated phases — as read (or as returned by the pause patch) in this pass — report in their status. *)
  Definition phase_read (evs : list sev) (n : N) (cur : osphase) : Prop :=
    In (SPhase (PGet n (Some cur))) evs \/ exists p, In (SPhase (PPause n p (Some cur))) evs.

  Definition own_phase_read (s : oset) (evs : list sev) (q : phase) (cur : osphase) : Prop :=
    phase_read evs (pobj_name s q) cur /\ controlled_by_uid (op_owners cur) (oi_uid (os_id s)) = true.

  Definition reported_by_phase (s : oset) (phs : list phase) (evs : list sev) (k : okey) : Prop :=
    exists q cur, In q phs /\ ph_class q = true /\ own_phase_read s evs q cur /\ In k (op_ctrlof cur).

  Lemma phase_read_app_l e1 e2 n cur : phase_read e1 n cur -> phase_read (e1 ++ e2) n cur.
  Proof. intros [H|(p & H)]; [left|right; exists p]; apply in_or_app; now left. Qed.
  Lemma phase_read_app_r e1 e2 n cur : phase_read e2 n cur -> phase_read (e1 ++ e2) n cur.
  Proof. intros [H|(p & H)]; [left|right; exists p]; apply in_or_app; now right. Qed.

  Lemma rpm_ctrlof_sound s ow prev phs : forall sw acc rem sw' evs rem' ctrlof fph,
    reconcile_phases_m force sw s ow prev phs acc rem = (sw', evs, rem', MOk ctrlof fph) ->
    NoDup (local_keys ow phs) ->
    exists new, ctrlof = acc ++ new /\
      Forall (fun k => (In k (local_keys ow phs) /\ seen_controlled (sw_w sw') ow k) \/ reported_by_phase s phs evs k) new.
  Proof.
    induction phs as [|ph rest IH]; intros sw acc rem sw' evs rem' ctrlof fph H Hnd.
    - cbn in H. injection H as <- _ _ <- _. exists []. split; [now rewrite app_nil_r|constructor].
    - rewrite rpm_cons in H. destruct (ph_class ph) eqn:Ecl.
      + rewrite (local_keys_cons_remote _ _ _ Ecl) in *.
        destruct (remote_reconcile sw s ph rem) as [[[sw1 e1] rem1] r1] eqn:E1.
        pose proof (remote_reconcile_own _ _ _ _ _ _ _ _ E1) as Hres.
        destruct r1 as [|active failed]; [discriminate|].
        destruct Hres as (cur & Hcur & Hrel & Hread & Hown & _). pose proof (relay_active _ _ _ Hrel) as ->.
        assert (Hact : forall evsf, phase_read evsf (pobj_name s ph) cur ->
                  Forall (fun k => (In k (local_keys ow rest) /\ seen_controlled (sw_w sw') ow k) \/ reported_by_phase s (ph :: rest) evsf k) (op_ctrlof cur)).
        { intros evsf Hf. apply Forall_forall. intros k Hk. right. exists ph, cur. split; [now left|]. split; [exact Ecl|]. split; [split; assumption|exact Hk]. }
        destruct failed.
        * injection H as <- <- _ <- _. exists (op_ctrlof cur). split; [reflexivity|]. now apply Hact.
        * destruct (reconcile_phases_m force sw1 s ow prev rest (acc ++ op_ctrlof cur) rem1) as [[[sw2 e2] rem2] r2] eqn:E2.
          injection H as <- <- _ ->.
          destruct (IH _ _ _ _ _ _ _ _ E2 Hnd) as (new & -> & Hnew).
          exists (op_ctrlof cur ++ new). split; [now rewrite app_assoc|]. apply Forall_app. split.
          -- apply Hact. now apply phase_read_app_l.
          -- eapply Forall_impl; [|exact Hnew]. intros k [Hl|(q & cu & Hq & Hc & [Hr Ho] & Hk)]; [now left|right].
             exists q, cu. split; [now right|]. split; [exact Hc|]. split; [split; [now apply phase_read_app_r|exact Ho]|exact Hk].
      + rewrite (local_keys_cons_local _ _ _ Ecl) in *.
        pose proof (NoDup_app_r _ _ Hnd) as Hnd_rest. pose proof (NoDup_app_l _ _ Hnd) as Hnd0.
        destruct (reconcile_phase c idw (sw_w sw) ow prev false (ph_objects ph)) as [[w1 e1] r1] eqn:E1.
        destruct r1 as [e|vs|actual failed]; [discriminate|discriminate|].
        pose proof E1 as E1'. unfold reconcile_phase in E1'. destruct (flat_map _ (ph_objects ph)); [|discriminate].
        destruct (rec_objs_actual force ow prev _ _ _ _ _ _ _ _ E1' Hnd0) as (newa & Ha & Hall & _). cbn in Ha. subst actual.
        set (mine := map fst (filter (fun ko => is_controller Native (ow_id ow) (snd ko)) newa)) in *.
        assert (Hmine : forall swf evsf, (forall k, In k (phase_keys ow ph) -> lookup k (w_store (sw_w swf)) = lookup k (w_store w1)) ->
                  Forall (fun k => (In k (phase_keys ow ph ++ local_keys ow rest) /\ seen_controlled (sw_w swf) ow k) \/ reported_by_phase s (ph :: rest) evsf k) mine).
        { intros swf evsf Hfr. subst mine. apply Forall_forall. intros k Hk. apply in_map_iff in Hk. destruct Hk as ([k0 o] & <- & Hin).
          apply filter_In in Hin. destruct Hin as [Hin Hc]. rewrite Forall_forall in Hall. destruct (Hall _ Hin) as [Hkin Hl]. cbn in *.
          left. split; [apply in_or_app; now left|]. exists o. split; [|assumption]. rewrite Hfr; assumption. }
        destruct failed as [|f fs].
        * cbv zeta in H.
          match type of H with context [reconcile_phases_m force ?a s ow prev ?l ?b ?d] =>
            destruct (reconcile_phases_m force a s ow prev l b d) as [[[sw2 e2] rem2] r2] eqn:E2 end.
          injection H as <- <- _ ->.
          destruct (IH _ _ _ _ _ _ _ _ E2 Hnd_rest) as (new & -> & Hnew).
          exists (mine ++ new). split; [now rewrite app_assoc|]. apply Forall_app. split.
          -- apply Hmine. intros k Hk. destruct (rpm_inv _ _ _ _ _ _ _ _ _ _ _ E2) as (_ & _ & _ & _ & Hfr & _).
             rewrite Hfr; [reflexivity|]. eapply NoDup_app_disj; eauto.
          -- eapply Forall_impl; [|exact Hnew]. intros k [[Hin Hs]|(q & cu & Hq & Hc & [Hr Ho] & Hk)]; [left; split; [apply in_or_app; now right|assumption]|right].
             exists q, cu. split; [now right|]. split; [exact Hc|]. split; [split; [now apply phase_read_app_r|exact Ho]|exact Hk].
        * injection H as <- <- _ <- _. exists mine. split; [reflexivity|]. apply Hmine. reflexivity.
  Qed.

  (** Completeness for the local phases when every phase completed. *)
  Lemma rpm_ctrlof_complete s ow prev phs : forall sw acc rem sw' evs rem' ctrlof,
    reconcile_phases_m force sw s ow prev phs acc rem = (sw', evs, rem', MOk ctrlof None) ->
    NoDup (local_keys ow phs) ->
    forall k, In k (local_keys ow phs) -> seen_controlled (sw_w sw') ow k -> In k ctrlof.
  Proof.
    induction phs as [|ph rest IH]; intros sw acc rem sw' evs rem' ctrlof H Hnd k Hk Hs; [contradiction|].
    rewrite rpm_cons in H. destruct (ph_class ph) eqn:Ecl.
    - rewrite (local_keys_cons_remote _ _ _ Ecl) in *.
      destruct (remote_reconcile sw s ph rem) as [[[sw1 e1] rem1] r1] eqn:E1.
      destruct r1 as [|active failed]; [discriminate|]. destruct failed; [discriminate|].
      destruct (reconcile_phases_m force sw1 s ow prev rest (acc ++ active) rem1) as [[[sw2 e2] rem2] r2] eqn:E2.
      injection H as <- _ _ ->. eapply IH; eauto.
    - rewrite (local_keys_cons_local _ _ _ Ecl) in *.
      pose proof (NoDup_app_r _ _ Hnd) as Hnd_rest. pose proof (NoDup_app_l _ _ Hnd) as Hnd0.
      destruct (reconcile_phase c idw (sw_w sw) ow prev false (ph_objects ph)) as [[w1 e1] r1] eqn:E1.
      destruct r1 as [e|vs|actual failed]; [discriminate|discriminate|].
      destruct failed as [|f fs]; [|discriminate].
      pose proof E1 as E1'. unfold reconcile_phase in E1'. destruct (flat_map _ (ph_objects ph)); [|discriminate].
      destruct (rec_objs_actual force ow prev _ _ _ _ _ _ _ _ E1' Hnd0) as (newa & Ha & Hall & Hok). cbn in Ha. subst actual.
      specialize (Hok eq_refl).
      cbv zeta in H.
      match type of H with context [reconcile_phases_m force ?a s ow prev ?l ?b ?d] =>
        destruct (reconcile_phases_m force a s ow prev l b d) as [[[sw2 e2] rem2] r2] eqn:E2 end.
      injection H as <- _ _ ->.
      destruct (rpm_ctrlof_sound _ _ _ _ _ _ _ _ _ _ _ _ E2 Hnd_rest) as (new & Hc & _).
      apply in_app_or in Hk. destruct Hk as [Hk|Hk]; [|eapply IH; eauto].
      rewrite Hc. apply in_or_app. left. apply in_or_app. right.
      unfold phase_keys in Hk. rewrite <- Hok in Hk. apply in_map_iff in Hk. destruct Hk as ([k0 o] & Hk0 & Hin). cbn in Hk0. subst k0.
      apply in_map_iff. exists (k, o). split; [reflexivity|]. apply filter_In. split; [assumption|]. cbn.
      destruct Hs as (o' & Hl' & Hc'). rewrite Forall_forall in Hall. destruct (Hall _ Hin) as [Hkin Hl]. cbn in Hl, Hkin.
      destruct (rpm_inv _ _ _ _ _ _ _ _ _ _ _ E2) as (_ & _ & _ & _ & Hfr & _).
      assert (lookup k (w_store (sw_w sw2)) = lookup k (w_store w1)) as Hfr'.
      { rewrite Hfr; [reflexivity|]. eapply NoDup_app_disj; eauto. }
      rewrite Hfr', Hl in Hl'. injection Hl' as <-. exact Hc'.
  Qed.

  (** status.remotePhases: an entry the loop adds or refreshes names a phase object controlled by the ObjectSet,
      read in this pass, with that object's uid. *)
  Lemma own_read_app_l s e1 e2 q cur : own_phase_read s e1 q cur -> own_phase_read s (e1 ++ e2) q cur.
  Proof. intros [H1 H2]. split; [now apply phase_read_app_l|exact H2]. Qed.
  Lemma own_read_app_r s e1 e2 q cur : own_phase_read s e2 q cur -> own_phase_read s (e1 ++ e2) q cur.
  Proof. intros [H1 H2]. split; [now apply phase_read_app_r|exact H2]. Qed.

  Lemma rpm_remotes s ow prev phs : forall sw acc rem sw' evs rem' r,
    reconcile_phases_m force sw s ow prev phs acc rem = (sw', evs, rem', r) ->
    forall x, In x rem' -> In x rem \/
      exists q cur, In q phs /\ ph_class q = true /\ own_phase_read s evs q cur /\ x = (pobj_name s q, oi_uid (op_id cur)).
  Proof.
    induction phs as [|ph rest IH]; intros sw acc rem sw' evs rem' r H x Hx.
    - cbn in H. injection H as _ _ <- _. now left.
    - rewrite rpm_cons in H. destruct (ph_class ph) eqn:Ecl.
      + destruct (remote_reconcile sw s ph rem) as [[[sw1 e1] rem1] r1] eqn:E1.
        pose proof (remote_reconcile_own _ _ _ _ _ _ _ _ E1) as Hres.
        destruct r1 as [|active failed].
        * destruct Hres as [-> _]. injection H as _ _ <- _. now left.
        * destruct Hres as (cur & _ & _ & Hread & Hown & Hrem).
          assert (Hhead : forall evsf, phase_read evsf (pobj_name s ph) cur -> In x rem1 -> In x rem \/
                    exists q cu, In q (ph :: rest) /\ ph_class q = true /\ own_phase_read s evsf q cu /\ x = (pobj_name s q, oi_uid (op_id cu))).
          { intros evsf Hr Hi. rewrite Hrem in Hi. destruct (add_remote_in _ _ _ Hi) as [->|Hi']; [right|now left].
            exists ph, cur. split; [now left|]. split; [exact Ecl|]. split; [split; assumption|reflexivity]. }
          destruct failed; [injection H as _ <- <- _; now apply Hhead|].
          destruct (reconcile_phases_m force sw1 s ow prev rest (acc ++ active) rem1) as [[[sw2 e2] rem2] r2] eqn:E2.
          injection H as _ <- <- _.
          destruct (IH _ _ _ _ _ _ _ E2 x Hx) as [Hi|(q & cu & Hq & Hc & Ho & He)].
          -- apply Hhead; [now apply phase_read_app_l|exact Hi].
          -- right. exists q, cu. split; [now right|]. split; [exact Hc|]. split; [now apply own_read_app_r|exact He].
      + destruct (reconcile_phase c idw (sw_w sw) ow prev false (ph_objects ph)) as [[w1 e1] r1] eqn:E1.
        destruct r1 as [e|vs|actual failed]; [injection H as _ _ <- _; now left|injection H as _ _ <- _; now left|].
        destruct failed as [|f fs]; [|injection H as _ _ <- _; now left].
        cbv zeta in H.
        match type of H with context [reconcile_phases_m force ?a s ow prev ?l ?b ?d] =>
          destruct (reconcile_phases_m force a s ow prev l b d) as [[[sw2 e2] rem2] r2] eqn:E2 end.
        injection H as _ <- <- _.
        destruct (IH _ _ _ _ _ _ _ E2 x Hx) as [Hi|(q & cu & Hq & Hc & Ho & He)]; [now left|right].
        exists q, cu. split; [now right|]. split; [exact Hc|]. split; [now apply own_read_app_r|exact He].
  Qed.

  (** ** Teardown of a mixed list *)

  (** The phase object of a delegated phase is gone for the ObjectSet: absent, or not controlled by it. *)
  Definition remote_gone (sw : sworld) (s : oset) (ph : phase) : Prop :=
    match phase_obj_of sw s ph with
    | None => True
    | Some cur => controlled_by_uid (op_owners cur) (oi_uid (os_id s)) = false
    end.

  Lemma remote_teardown_inv sw s ph sw1 e1 r :
    remote_teardown sw s ph = (sw1, e1, r) ->
    w_store (sw_w sw1) = w_store (sw_w sw) /\ sw_sets sw1 = sw_sets sw /\ sw_nss sw1 = sw_nss sw /\
    only_phase_evs (pobj_name s ph) e1 /\
    (forall kind ns name, (phase_kind s =? kind) && (oi_ns (os_id s) =? ns) && (pobj_name s ph =? name) = false ->
       find_phase (sw_phases sw1) kind ns name = find_phase (sw_phases sw) kind ns name) /\
    (r = TdOk true -> sw1 = sw /\ remote_gone sw s ph /\ Forall (fun e => ~ is_write_on (pobj_name s ph) e) e1).
  Proof.
    unfold remote_teardown, remote_gone, phase_obj_of, pobj_name. cbn [desired_phase op_id oi_kind oi_ns oi_name].
    set (name := join_name (oi_name (os_id s)) (ph_name ph)).
    destruct (find_phase (sw_phases sw) (phase_kind s) (oi_ns (os_id s)) name) as [cur|] eqn:Ef.
    2:{ intros H. injection H as <- <- <-. repeat split; auto; constructor; auto; cbn; auto. }
    destruct (find_phase_key _ _ _ _ _ Ef) as (Hk & Hns & Hn).
    assert (Hget : only_phase_evs name [SPhase (PGet name (Some cur))]) by (constructor; [reflexivity|constructor]).
    assert (Hnw : Forall (fun e => ~ is_write_on name e) [SPhase (PGet name (Some cur))]) by (constructor; [cbn; auto|constructor]).
    destruct (controlled_by_uid (op_owners cur) (oi_uid (os_id s))) eqn:Ec; cbn [negb].
    2:{ intros H. injection H as <- <- <-. repeat split; auto. }
    assert (Hframe_put : forall w' p', op_id p' = op_id cur -> forall kind ns nm,
              (phase_kind s =? kind) && (oi_ns (os_id s) =? ns) && (name =? nm) = false ->
              find_phase (sw_phases (with_phases sw w' (put_phase (sw_phases sw) p'))) kind ns nm = find_phase (sw_phases sw) kind ns nm).
    { intros w' p' Hid kind ns nm Hne. cbn. apply find_put_phase_other. unfold pkey_eq. now rewrite Hid, Hk, Hns, Hn. }
    assert (Hframe_del : forall w' kind ns nm,
              (phase_kind s =? kind) && (oi_ns (os_id s) =? ns) && (name =? nm) = false ->
              find_phase (sw_phases (with_phases sw w' (del_phase (sw_phases sw) (op_id cur)))) kind ns nm = find_phase (sw_phases sw) kind ns nm).
    { intros w' kind ns nm Hne. cbn. apply find_del_phase_other. now rewrite Hk, Hns, Hn. }
    assert (Hdel : forall sw1 e1 r, (delete_phase sw cur, [SPhase (PGet name (Some cur)); SPhase (PDelete name DOk)], TdOk false) = (sw1, e1, r) ->
      w_store (sw_w sw1) = w_store (sw_w sw) /\ sw_sets sw1 = sw_sets sw /\ sw_nss sw1 = sw_nss sw /\
      only_phase_evs name e1 /\
      (forall kind ns nm, (phase_kind s =? kind) && (oi_ns (os_id s) =? ns) && (name =? nm) = false ->
         find_phase (sw_phases sw1) kind ns nm = find_phase (sw_phases sw) kind ns nm) /\
      r = TdOk false).
    { intros sw2 e2 r2 H. injection H as <- <- <-.
      assert (Hev : only_phase_evs name [SPhase (PGet name (Some cur)); SPhase (PDelete name DOk)]).
      { constructor; [reflexivity|]. constructor; [reflexivity|constructor]. }
      unfold delete_phase. destruct (op_fin cur || op_orphan cur).
      - destruct (op_deleting cur); repeat split; auto; try discriminate.
      - repeat split; auto; try discriminate. }
    assert (Hdel' : forall sw1 e1 r, (delete_phase sw cur, [SPhase (PGet name (Some cur)); SPhase (PDelete name DOk)], TdOk false) = (sw1, e1, r) ->
      w_store (sw_w sw1) = w_store (sw_w sw) /\ sw_sets sw1 = sw_sets sw /\ sw_nss sw1 = sw_nss sw /\
      only_phase_evs name e1 /\
      (forall kind ns nm, (phase_kind s =? kind) && (oi_ns (os_id s) =? ns) && (name =? nm) = false ->
         find_phase (sw_phases sw1) kind ns nm = find_phase (sw_phases sw) kind ns nm) /\
      (r = TdOk true -> sw1 = sw /\ true = false /\ Forall (fun e => ~ is_write_on name e) e1)).
    { intros sw2 e2 r2 H. destruct (Hdel _ _ _ H) as (H1 & H2 & H3 & H4 & H5 & Hr).
      split; [exact H1|]. split; [exact H2|]. split; [exact H3|]. split; [exact H4|]. split; [exact H5|].
      intros Ht. rewrite Hr in Ht. discriminate. }
    destruct (oi_ns (os_id s) =? 0); [exact (Hdel' _ _ _)|].
    destruct (ns_state (sw_nss sw) (oi_ns (os_id s))) as [[|]|].
    - destruct (negb (op_fin cur || op_orphan cur)).
      + intros H. injection H as <- <- <-. repeat split; auto; try discriminate.
        constructor; [reflexivity|]. constructor; [reflexivity|constructor].
      + intros H. injection H as <- <- <-. repeat split; auto; try discriminate.
        * constructor; [reflexivity|]. constructor; [reflexivity|constructor].
        * destruct (op_deleting cur); [now apply Hframe_del|now apply Hframe_put].
    - exact (Hdel' _ _ _).
    - intros H. injection H as <- <- <-. repeat split; auto; discriminate.
  Qed.

  (** One step of the teardown loop. *)
  Definition td_step (sw : sworld) (s : oset) (ow : owner) (ph : phase) : sworld * list sev * tdphres :=
    if ph_class ph then remote_teardown sw s ph
    else let '(w1, e1, r1) := teardown_phase c idw (sw_w sw) ow (ph_objects ph) in (with_w sw w1, map SMember e1, r1).

  Lemma tpm_cons sw s ow ph rest :
    teardown_phases_m force sw s ow (ph :: rest) =
    let '(sw1, e1, r1) := td_step sw s ow ph in
    match r1 with
    | TdErr => (sw1, e1, TdErr)
    | TdOk false => (sw1, e1, TdOk false)
    | TdOk true => let '(sw2, e2, r) := teardown_phases_m force sw1 s ow rest in (sw2, e1 ++ e2, r)
    end.
  Proof. reflexivity. Qed.

  Definition phase_gone (sw : sworld) (s : oset) (ow : owner) (q : phase) : Prop :=
    if ph_class q then remote_gone sw s q else forall p, In p (ph_objects q) -> td_obj_done (sw_w sw) ow p.

  Lemma td_step_inv sw s ow ph sw1 e1 r1 :
    td_step sw s ow ph = (sw1, e1, r1) ->
    sw_sets sw1 = sw_sets sw /\ sw_nss sw1 = sw_nss sw /\
    (if ph_class ph then only_phase_evs (pobj_name s ph) e1
     else exists e', e1 = map SMember e' /\ Forall (fun e => In (ev_key e) (phase_keys ow ph)) e') /\
    (forall k, (ph_class ph = false -> ~ In k (phase_keys ow ph)) -> lookup k (w_store (sw_w sw1)) = lookup k (w_store (sw_w sw))) /\
    (forall kind ns name, (ph_class ph = true -> (phase_kind s =? kind) && (oi_ns (os_id s) =? ns) && (pobj_name s ph =? name) = false) ->
       find_phase (sw_phases sw1) kind ns name = find_phase (sw_phases sw) kind ns name) /\
    (r1 = TdOk true -> NoDup (phase_keys ow ph) -> phase_gone sw1 s ow ph).
  Proof.
    unfold td_step, phase_gone. destruct (ph_class ph) eqn:Ecl.
    - intros H. destruct (remote_teardown_inv _ _ _ _ _ _ H) as (Hst & Hse & Hns & Hev & Hfr & Hok).
      repeat split; auto.
      + intros k _. now rewrite Hst.
      + intros Ht _. destruct (Hok Ht) as (-> & Hg & _). exact Hg.
    - destruct (teardown_phase c idw (sw_w sw) ow (ph_objects ph)) as [[w1 e'] r'] eqn:E1. intros H. injection H as <- <- <-.
      repeat split; auto.
      + exists e'. split; [reflexivity|]. exact (td_phase_events_in force _ _ _ _ _ _ E1).
      + intros k Hk. cbn. unfold teardown_phase in E1. eapply td_objs_frame; eauto.
        intros p Hin Heq. apply (Hk eq_refl). rewrite <- Heq. unfold phase_keys. now apply in_map.
      + intros -> Hnd p Hp. cbn. unfold teardown_phase in E1. destruct (td_objs_done force ow _ _ _ _ _ E1 Hnd) as [_ Hall]. now apply Hall.
  Qed.

  Lemma tpm_inv s ow rphs : forall sw sw' evs r,
    teardown_phases_m force sw s ow rphs = (sw', evs, r) ->
    sw_sets sw' = sw_sets sw /\ sw_nss sw' = sw_nss sw /\
    Forall (fun e => In (ev_key e) (local_keys ow rphs)) (member_evs evs) /\
    (forall k, ~ In k (local_keys ow rphs) -> lookup k (w_store (sw_w sw')) = lookup k (w_store (sw_w sw))) /\
    (forall kind ns name, ~ (kind = phase_kind s /\ ns = oi_ns (os_id s) /\ In name (delegated_names s rphs)) ->
       find_phase (sw_phases sw') kind ns name = find_phase (sw_phases sw) kind ns name).
  Proof.
    induction rphs as [|ph rest IH]; intros sw sw' evs r H.
    - cbn in H. injection H as <- <- _. repeat split; auto; constructor.
    - rewrite tpm_cons in H. destruct (td_step sw s ow ph) as [[sw1 e1] r1] eqn:E1.
      destruct (td_step_inv _ _ _ _ _ _ _ E1) as (Hse & Hns & Hev & Hst & Hfr & _).
      assert (Hm1 : Forall (fun e => In (ev_key e) (local_keys ow (ph :: rest))) (member_evs e1)).
      { destruct (ph_class ph) eqn:Ecl.
        - rewrite (only_phase_members _ _ Hev). constructor.
        - destruct Hev as (e' & -> & He'). rewrite member_evs_members. rewrite (local_keys_cons_local _ _ _ Ecl).
          eapply Forall_impl; [|exact He']. cbn. intros e He. apply in_or_app. now left. }
      assert (Hst1 : forall k, ~ In k (local_keys ow (ph :: rest)) -> lookup k (w_store (sw_w sw1)) = lookup k (w_store (sw_w sw))).
      { intros k Hk. apply Hst. intros Ecl Hin. apply Hk. rewrite (local_keys_cons_local _ _ _ Ecl). apply in_or_app. now left. }
      assert (Hfr1 : forall kind ns name, ~ (kind = phase_kind s /\ ns = oi_ns (os_id s) /\ In name (delegated_names s (ph :: rest))) ->
                find_phase (sw_phases sw1) kind ns name = find_phase (sw_phases sw) kind ns name).
      { intros kind ns name Hno. apply Hfr. intros Ecl.
        destruct ((phase_kind s =? kind) && (oi_ns (os_id s) =? ns) && (pobj_name s ph =? name)) eqn:E; [|reflexivity].
        exfalso. apply Hno. apply andb_true_iff in E. destruct E as [E E3]. apply andb_true_iff in E. destruct E as [E1' E2].
        apply N.eqb_eq in E1', E2, E3. subst. rewrite (delegated_names_cons_remote _ _ _ Ecl). repeat split; auto. now left. }
      destruct r1 as [|[|]]; try (injection H as <- <- _; repeat split; auto).
      destruct (teardown_phases_m force sw1 s ow rest) as [[sw2 e2] r2] eqn:E2. injection H as <- <- _.
      destruct (IH _ _ _ _ E2) as (Hse2 & Hns2 & Hm2 & Hst2 & Hfr2).
      assert (Hsub : forall k, In k (local_keys ow rest) -> In k (local_keys ow (ph :: rest))).
      { intros k Hk. destruct (ph_class ph) eqn:Ecl; [now rewrite (local_keys_cons_remote _ _ _ Ecl)|].
        rewrite (local_keys_cons_local _ _ _ Ecl). apply in_or_app. now right. }
      assert (Hsubn : forall n, In n (delegated_names s rest) -> In n (delegated_names s (ph :: rest))).
      { intros n Hn. destruct (ph_class ph) eqn:Ecl; [rewrite (delegated_names_cons_remote _ _ _ Ecl); now right|].
        now rewrite (delegated_names_cons_local _ _ _ Ecl). }
      split; [congruence|]. split; [congruence|]. rewrite member_evs_app. split; [|split].
      + apply Forall_app. split; [exact Hm1|]. eapply Forall_impl; [|exact Hm2]. cbn. intros e He. now apply Hsub.
      + intros k Hk. rewrite Hst2; [now apply Hst1|]. intros Hin. apply Hk. now apply Hsub.
      + intros kind ns name Hno. rewrite Hfr2; [now apply Hfr1|]. intros (H1 & H2 & H3). apply Hno. repeat split; auto.
  Qed.

  Lemma phase_gone_frame sw sw2 s ow q :
    (forall k, In k (phase_keys ow q) -> ph_class q = false -> lookup k (w_store (sw_w sw2)) = lookup k (w_store (sw_w sw))) ->
    (ph_class q = true -> phase_obj_of sw2 s q = phase_obj_of sw s q) ->
    phase_gone sw s ow q -> phase_gone sw2 s ow q.
  Proof.
    unfold phase_gone, remote_gone. intros Hst Hfr. destruct (ph_class q) eqn:Ecl.
    - now rewrite (Hfr eq_refl).
    - intros Hg p Hp. pose proof (Hg p Hp) as Hd. unfold td_obj_done in *. destruct Hd as [Hd|Hd]; [now left|right].
      rewrite Hst; auto. unfold phase_keys. now apply in_map.
  Qed.

  (** A step's events write to no other listed phase. *)
  Lemma td_step_touch_nothing sw s ow q0 ph rest sw1 e1 r1 :
    td_step sw s ow q0 = (sw1, e1, r1) -> In ph rest ->
    NoDup (local_keys ow (q0 :: rest)) -> NoDup (delegated_names s (q0 :: rest)) ->
    Forall (fun e => ~ touches s ow ph e) e1.
  Proof.
    intros E1 Hin Hnd Hndn. destruct (td_step_inv _ _ _ _ _ _ _ E1) as (_ & _ & Hev & _).
    destruct (ph_class q0) eqn:Ecl.
    - rewrite (delegated_names_cons_remote _ _ _ Ecl) in Hndn. inversion Hndn; subst.
      eapply remote_evs_touch_nothing; eauto.
    - destruct Hev as (e' & -> & He'). rewrite (local_keys_cons_local _ _ _ Ecl) in Hnd.
      eapply local_evs_touch_nothing; eauto. intros k Hk. eapply NoDup_app_disj; eauto.
  Qed.

  Lemma nodup_tail_local ow ph rest : NoDup (local_keys ow (ph :: rest)) -> NoDup (local_keys ow rest) /\ (ph_class ph = false -> NoDup (phase_keys ow ph)).
  Proof.
    destruct (ph_class ph) eqn:Ecl.
    - rewrite (local_keys_cons_remote _ _ _ Ecl). intros H. split; [assumption|discriminate].
    - rewrite (local_keys_cons_local _ _ _ Ecl). intros H. split; [eapply NoDup_app_r; eauto|intros _; eapply NoDup_app_l; eauto].
  Qed.
  Lemma nodup_tail_names s ph rest : NoDup (delegated_names s (ph :: rest)) -> NoDup (delegated_names s rest).
  Proof.
    destruct (ph_class ph) eqn:Ecl.
    - rewrite (delegated_names_cons_remote _ _ _ Ecl). intros H. now inversion H.
    - now rewrite (delegated_names_cons_local _ _ _ Ecl).
  Qed.

  (** The rest of the loop leaves a finished phase as it is. *)
  Lemma tpm_keeps_gone s ow q0 rest sw1 sw2 e2 r2 :
    teardown_phases_m force sw1 s ow rest = (sw2, e2, r2) ->
    NoDup (local_keys ow (q0 :: rest)) -> NoDup (delegated_names s (q0 :: rest)) ->
    phase_gone sw1 s ow q0 -> phase_gone sw2 s ow q0.
  Proof.
    intros E2 Hnd Hndn. destruct (tpm_inv _ _ _ _ _ _ _ E2) as (_ & _ & _ & Hst & Hfr).
    apply phase_gone_frame.
    - intros k Hk Ecl. apply Hst. rewrite (local_keys_cons_local _ _ _ Ecl) in Hnd. eapply NoDup_app_disj; eauto.
    - intros Ecl. unfold phase_obj_of. apply Hfr. intros (_ & _ & Hin).
      rewrite (delegated_names_cons_remote _ _ _ Ecl) in Hndn. inversion Hndn; subst. contradiction.
  Qed.

  Lemma nodup_phase_keys_local ow ph rest : NoDup (local_keys ow (ph :: rest)) -> ph_class ph = true \/ NoDup (phase_keys ow ph).
  Proof. intros H. destruct (ph_class ph) eqn:E; [now left|right]. now apply (proj2 (nodup_tail_local _ _ _ H)). Qed.

  Lemma td_step_gone sw s ow ph rest sw1 e1 :
    td_step sw s ow ph = (sw1, e1, TdOk true) -> NoDup (local_keys ow (ph :: rest)) -> phase_gone sw1 s ow ph.
  Proof.
    intros E1 Hnd. destruct (td_step_inv _ _ _ _ _ _ _ E1) as (_ & _ & _ & _ & _ & Hg).
    destruct (ph_class ph) eqn:Ecl.
    - unfold phase_gone in *. rewrite Ecl in *. unfold td_step in E1. rewrite Ecl in E1.
      destruct (remote_teardown_inv _ _ _ _ _ _ E1) as (_ & _ & _ & _ & _ & Hok). destruct (Hok eq_refl) as (-> & Hg' & _). exact Hg'.
    - apply (Hg eq_refl). now apply (proj2 (nodup_tail_local _ _ _ Hnd)).
  Qed.

  (** ** C04 for mixed phase lists: order. [rphs] is the list in teardown (reverse) order. If any request writes
      to a phase, every phase torn down before it (every LATER phase of the ObjectSet) is finished: the objects
      of a local phase are absent / no longer controlled (or excluded by the teardown preflight), the phase
      object of a delegated phase is absent or not controlled by the ObjectSet. *)
  Lemma tpm_order s ow rphs : forall sw sw' evs r,
    teardown_phases_m force sw s ow rphs = (sw', evs, r) ->
    NoDup (local_keys ow rphs) -> NoDup (delegated_names s rphs) ->
    forall pre ph post, rphs = pre ++ ph :: post ->
      Exists (touches s ow ph) evs ->
      forall q, In q pre -> phase_gone sw' s ow q.
  Proof.
    induction rphs as [|ph0 rest IH]; intros sw sw' evs r H Hnd Hndn pre ph post Hsplit Hex q Hq.
    - destruct pre; discriminate.
    - destruct pre as [|q0 pre']; [contradiction|]. cbn in Hsplit. injection Hsplit as -> ->.
      assert (Hph_in : In ph (pre' ++ ph :: post)) by (apply in_or_app; right; now left).
      rewrite tpm_cons in H. destruct (td_step sw s ow q0) as [[sw1 e1] r1] eqn:E1.
      pose proof (td_step_touch_nothing _ _ _ _ _ _ _ _ _ E1 Hph_in Hnd Hndn) as Hnot1.
      destruct r1 as [|[|]]; try (injection H as <- <- _; exfalso; eapply exists_not; eauto).
      destruct (teardown_phases_m force sw1 s ow (pre' ++ ph :: post)) as [[sw2 e2] r2] eqn:E2. injection H as <- <- _.
      pose proof (exists_app_not _ _ _ Hex Hnot1) as Hex2.
      destruct Hq as [<-|Hq].
      + eapply tpm_keeps_gone; eauto. eapply td_step_gone; eauto.
      + eapply (IH _ _ _ _ E2 (proj1 (nodup_tail_local _ _ _ Hnd)) (nodup_tail_names _ _ _ Hndn) pre' ph post eq_refl Hex2 q Hq).
  Qed.

  (** All phases done. *)
  Lemma tpm_done s ow rphs : forall sw sw' evs,
    teardown_phases_m force sw s ow rphs = (sw', evs, TdOk true) ->
    NoDup (local_keys ow rphs) -> NoDup (delegated_names s rphs) ->
    forall q, In q rphs -> phase_gone sw' s ow q.
  Proof.
    induction rphs as [|ph0 rest IH]; intros sw sw' evs H Hnd Hndn q Hq; [contradiction|].
    rewrite tpm_cons in H. destruct (td_step sw s ow ph0) as [[sw1 e1] r1] eqn:E1.
    destruct r1 as [|[|]]; try discriminate.
    destruct (teardown_phases_m force sw1 s ow rest) as [[sw2 e2] r2] eqn:E2. injection H as <- _ ->.
    destruct Hq as [<-|Hq].
    - eapply tpm_keeps_gone; eauto. eapply td_step_gone; eauto.
    - eapply IH; eauto; [exact (proj1 (nodup_tail_local _ _ _ Hnd))|exact (nodup_tail_names _ _ _ Hndn)].
  Qed.

  (** The same for the local phases alone; no hypothesis on the names of the delegated phases. *)
  Lemma td_step_local_gone sw s ow ph sw1 e1 :
    td_step sw s ow ph = (sw1, e1, TdOk true) -> ph_class ph = false -> NoDup (phase_keys ow ph) ->
    forall p, In p (ph_objects ph) -> td_obj_done (sw_w sw1) ow p.
  Proof.
    intros E1 Hc Hnd. destruct (td_step_inv _ _ _ _ _ _ _ E1) as (_ & _ & _ & _ & _ & Hg).
    specialize (Hg eq_refl Hnd). unfold phase_gone in Hg. now rewrite Hc in Hg.
  Qed.

  Lemma tpm_order_local s ow rphs : forall sw sw' evs r,
    teardown_phases_m force sw s ow rphs = (sw', evs, r) ->
    NoDup (local_keys ow rphs) ->
    forall pre ph post, rphs = pre ++ ph :: post -> ph_class ph = false ->
      Exists (fun e => In (ev_key e) (phase_keys ow ph)) (member_evs evs) ->
      forall q p, In q pre -> ph_class q = false -> In p (ph_objects q) -> td_obj_done (sw_w sw') ow p.
  Proof.
    induction rphs as [|ph0 rest IH]; intros sw sw' evs r H Hnd pre ph post Hsplit Hcl Hex q p Hq Hcq Hp.
    - destruct pre; discriminate.
    - destruct pre as [|q0 pre']; [contradiction|]. cbn in Hsplit. injection Hsplit as -> ->.
      assert (Hph_in : In ph (pre' ++ ph :: post)) by (apply in_or_app; right; now left).
      rewrite tpm_cons in H. destruct (td_step sw s ow q0) as [[sw1 e1] r1] eqn:E1.
      destruct (td_step_inv _ _ _ _ _ _ _ E1) as (_ & _ & Hev & _).
      assert (Hnot1 : Forall (fun e => ~ In (ev_key e) (phase_keys ow ph)) (member_evs e1)).
      { destruct (ph_class q0) eqn:Ecl.
        - rewrite (only_phase_members _ _ Hev). constructor.
        - destruct Hev as (e' & -> & He'). rewrite member_evs_members. rewrite (local_keys_cons_local _ _ _ Ecl) in Hnd.
          eapply Forall_impl; [|exact He']. cbn. intros e He Hk. eapply NoDup_app_disj; [exact Hnd|exact He|]. eapply in_local_keys; eauto. }
      destruct r1 as [|[|]]; try (injection H as <- <- _; exfalso; eapply exists_not; eauto).
      destruct (teardown_phases_m force sw1 s ow (pre' ++ ph :: post)) as [[sw2 e2] r2] eqn:E2. injection H as <- <- _.
      rewrite member_evs_app in Hex. pose proof (exists_app_not _ _ _ Hex Hnot1) as Hex2.
      destruct Hq as [<-|Hq].
      + pose proof (td_step_local_gone _ _ _ _ _ _ E1 Hcq (proj2 (nodup_tail_local _ _ _ Hnd) Hcq) p Hp) as Hd.
        unfold td_obj_done in *. destruct Hd as [Hd|Hd]; [now left|right].
        destruct (tpm_inv _ _ _ _ _ _ _ E2) as (_ & _ & _ & Hst & _). rewrite Hst; [exact Hd|].
        rewrite (local_keys_cons_local _ _ _ Hcq) in Hnd. eapply NoDup_app_disj; [exact Hnd|]. unfold phase_keys. now apply in_map.
      + eapply (IH _ _ _ _ E2 (proj1 (nodup_tail_local _ _ _ Hnd)) pre' ph post eq_refl Hcl Hex2 q p Hq Hcq Hp).
  Qed.

  Lemma tpm_done_local s ow rphs : forall sw sw' evs,
    teardown_phases_m force sw s ow rphs = (sw', evs, TdOk true) ->
    NoDup (local_keys ow rphs) ->
    forall q p, In q rphs -> ph_class q = false -> In p (ph_objects q) -> td_obj_done (sw_w sw') ow p.
  Proof.
    induction rphs as [|ph0 rest IH]; intros sw sw' evs H Hnd q p Hq Hcq Hp; [contradiction|].
    rewrite tpm_cons in H. destruct (td_step sw s ow ph0) as [[sw1 e1] r1] eqn:E1.
    destruct r1 as [|[|]]; try discriminate.
    destruct (teardown_phases_m force sw1 s ow rest) as [[sw2 e2] r2] eqn:E2. injection H as <- _ ->.
    destruct Hq as [<-|Hq].
    - pose proof (td_step_local_gone _ _ _ _ _ _ E1 Hcq (proj2 (nodup_tail_local _ _ _ Hnd) Hcq) p Hp) as Hd.
      unfold td_obj_done in *. destruct Hd as [Hd|Hd]; [now left|right].
      destruct (tpm_inv _ _ _ _ _ _ _ E2) as (_ & _ & _ & Hst & _). rewrite Hst; [exact Hd|].
      rewrite (local_keys_cons_local _ _ _ Hcq) in Hnd. eapply NoDup_app_disj; [exact Hnd|]. unfold phase_keys. now apply in_map.
    - eapply IH; eauto. exact (proj1 (nodup_tail_local _ _ _ Hnd)).
  Qed.

  (** A delegated phase counts as done only in a state in which its phase object is absent or not controlled by
      the ObjectSet, and the step that finds it so sends no request: after a Delete the step reports "not done". *)
  Lemma remote_teardown_waits sw s ph sw1 e1 :
    remote_teardown sw s ph = (sw1, e1, TdOk true) ->
    sw1 = sw /\ remote_gone sw s ph /\ Forall (fun e => ~ is_write_on (pobj_name s ph) e) e1.
  Proof. intros H. destruct (remote_teardown_inv _ _ _ _ _ _ H) as (_ & _ & _ & _ & _ & Hok). now apply Hok. Qed.

End Mixed.
(** * Inversion of one active pass *)
Section PassInversion.
  Variable force : bool.

  Lemma update_status_store sw m sw' m' ok :
    update_status sw m = (sw', m', ok) ->
    w_store (sw_w sw') = w_store (sw_w sw) /\ sw_phases sw' = sw_phases sw /\ sw_nss sw' = sw_nss sw.
  Proof.
    unfold update_status. destruct (find_set _ _ _ _) as [st|]; [|intros H; now injection H as <- _ _].
    destruct (negb _); [intros H; now injection H as <- _ _|].
    destruct (status_eqb st m); intros H; injection H as <- _ _; auto.
  Qed.

  Lemma patch_finalizer_store sw m fin sw' r :
    patch_finalizer sw m fin = (sw', r) ->
    w_store (sw_w sw') = w_store (sw_w sw) /\ sw_phases sw' = sw_phases sw /\ sw_nss sw' = sw_nss sw.
  Proof.
    unfold patch_finalizer. destruct (find_set _ _ _ _) as [st|]; [|intros H; now injection H as <- _].
    destruct (negb (os_rv st =? os_rv m)); [intros H; now injection H as <- _|].
    destruct (negb fin && os_deleting st && negb (os_orphan st)); intros H; injection H as <- _; auto.
  Qed.

  (** Facts about the in-memory copy that stay fixed through finalizer and revision handling. *)
  Definition same_spec (a b : oset) : Prop :=
    os_id a = os_id b /\ os_phases a = os_phases b /\ os_life a = os_life b /\ os_gen a = os_gen b /\
    os_pkg a = os_pkg b /\ os_conds a = os_conds b /\ os_prev a = os_prev b /\ os_remotes a = os_remotes b.

  Lemma patch_finalizer_same sw m fin sw' m' :
    find_set (sw_sets sw) (oi_kind (os_id m)) (oi_ns (os_id m)) (oi_name (os_id m)) = Some m ->
    patch_finalizer sw m fin = (sw', Some m') -> same_spec m' m.
  Proof.
    intros Hf. unfold patch_finalizer. rewrite Hf. rewrite N.eqb_refl. cbn [negb].
    destruct (negb fin && os_deleting m && negb (os_orphan m)); intros H; injection H as _ <-; repeat split; reflexivity.
  Qed.

  Lemma update_status_same sw m sw' m' ok :
    find_set (sw_sets sw) (oi_kind (os_id m)) (oi_ns (os_id m)) (oi_name (os_id m)) = Some m ->
    forall m1, same_spec m1 m -> os_rv m1 = os_rv m ->
    update_status sw m1 = (sw', m', ok) -> same_spec m' m.
  Proof.
    intros Hf m1 Hs Hrv. unfold update_status.
    destruct Hs as (Hid & Hph & Hl & Hg & Hp & Hc & Hpr & Hrm). rewrite Hid, Hf.
    destruct (negb (os_rv m =? os_rv m1)); [intros H; injection H as _ <- _; repeat split; assumption|].
    destruct (status_eqb m m1); intros H; injection H as _ <- _; repeat split; try assumption; reflexivity.
  Qed.

  (** Requests of a pass that stops before the phase loop: finalizer, reads of phase objects (for the Paused
      condition) and status requests that re-send Available / Succeeded unchanged or report Available=False. *)
  Definition status_keeps (mem0 : oset) (e : sev) : Prop :=
    match e with
    | SMeta (MStatus _ conds _ _ fph _) =>
        fph = None /\
        (find_cond conds CAvailable = find_cond (os_conds mem0) CAvailable \/
         exists cd, find_cond conds CAvailable = Some cd /\ cd_status cd = SFalse) /\
        find_cond conds CSucceeded = find_cond (os_conds mem0) CSucceeded
    | SMeta (MFinalizer _ _) => True
    | SPhase (PGet _ _) => True
    | SPhase _ => False
    | SMember _ => False
    end.

  Lemma paused_reads_keep mem0 phs m : Forall (status_keeps mem0) (paused_reads phs m).
  Proof.
    unfold paused_reads. generalize (os_remotes m). intros refs. induction refs as [|x xs IH]; cbn; [constructor|].
    destruct (find_phase phs _ _ (fst x)); constructor; try exact I; [exact IH|constructor].
  Qed.

  Lemma revision_pass_inv sw mem sw1 evs1 mem1 rr :
    find_set (sw_sets sw) (oi_kind (os_id mem)) (oi_ns (os_id mem)) (oi_name (os_id mem)) = Some mem ->
    revision_pass sw mem = (sw1, evs1, mem1, rr) ->
    same_spec mem1 mem /\ w_store (sw_w sw1) = w_store (sw_w sw) /\ sw_phases sw1 = sw_phases sw /\ sw_nss sw1 = sw_nss sw /\
    Forall (status_keeps mem) evs1.
  Proof.
    intros Hf. unfold revision_pass.
    destruct (negb (Z.eqb (os_revision mem) 0)); [intros H; injection H as <- <- <- _; repeat split; constructor|].
    destruct (os_prev mem) eqn:Epv; [intros H; injection H as <- <- <- _; repeat split; try constructor; auto|].
    destruct (scan_prev _ _ _ _) as [[latest|]|].
    - destruct (update_status sw (set_revision mem (latest + 1))) as [[sw2 m2] ok] eqn:Eu.
      intros H; injection H as <- <- <- _. destruct (update_status_store _ _ _ _ _ Eu) as (H1 & H2 & H3).
      split; [|split; [exact H1|split; [exact H2|split; [exact H3|]]]].
      + eapply (update_status_same _ _ _ _ _ Hf (set_revision mem (latest + 1))); eauto; repeat split; auto.
      + constructor; [|constructor]. cbn. split; [reflexivity|]. split; [now left|reflexivity].
    - intros H; injection H as <- <- <- _; repeat split; constructor.
    - intros H; injection H as <- <- <- _; repeat split; constructor.
  Qed.

  Lemma status_keeps_members mem0 evs : Forall (status_keeps mem0) evs -> member_evs evs = [].
  Proof.
    induction evs as [|e evs IH]; intros H; [reflexivity|]. inversion H as [|? ? He Hr]; subst.
    destruct e as [x|m|p]; [contradiction| |]; cbn; now apply IH.
  Qed.

  Lemma status_keeps_same a b e :
    find_cond (os_conds a) CAvailable = find_cond (os_conds b) CAvailable ->
    find_cond (os_conds a) CSucceeded = find_cond (os_conds b) CSucceeded ->
    status_keeps a e -> status_keeps b e.
  Proof. intros H1 H2. destruct e as [x|[|]|p]; cbn; auto. intros (Hf & Ha & Hs). rewrite <- H1, <- H2. auto. Qed.

  (** The outcome of the phase loop and what follows it. [mem2] is the in-memory ObjectSet with the remote phase
      references gathered by the loop. *)
  Definition after_loop (mem0 mem1 : oset) (sw2 : sworld) (pre pevs : list sev) (rem : list (N * N)) (pr : mres)
             (evs : list sev) (r : sres) : Prop :=
    let mem2 := set_remotes mem1 rem in
    match pr with
    | MOk ctrlof failed =>
        exists ok, evs = pre ++ pevs ++ paused_reads (sw_phases sw2) mem2 ++
                         [status_ev_f (final_status (sw_phases sw2) mem2 ctrlof failed) failed ok] /\
                   r = (if ok then SDone false else SError)
    | MPreflight =>
        exists ok m', evs = pre ++ pevs ++ [status_ev m' ok] /\
          find_cond (os_conds m') CAvailable = Some (mk_cond mem1 CAvailable SFalse RPreflightError) /\
          find_cond (os_conds m') CSucceeded = find_cond (os_conds mem0) CSucceeded /\
          r = (if ok then SDone true else SError)
    | MErr e =>
        if match e with ErrNotPrevious | ErrRevCollision => true | _ => false end
        then exists ok m', evs = pre ++ pevs ++ [status_ev m' ok] /\
               find_cond (os_conds m') CAvailable = Some (mk_cond mem1 CAvailable SFalse RCollisionDetected) /\
               find_cond (os_conds m') CSucceeded = find_cond (os_conds mem0) CSucceeded /\
               r = (if ok then SDone true else SError)
        else evs = pre ++ pevs /\ r = SError
    | MRemoteErr => evs = pre ++ pevs /\ r = SError
    end.

  Definition reached_loop (sw0 : sworld) (mem0 : oset) (sw' : sworld) (evs : list sev) (r : sres) : Prop :=
    exists mem1 sw1 sw2 pevs rem pr pre,
      same_spec mem1 mem0 /\
      w_store (sw_w sw1) = w_store (sw_w sw0) /\ sw_phases sw1 = sw_phases sw0 /\ sw_nss sw1 = sw_nss sw0 /\
      dup_count [] (map (spec_key mem1) (all_objects mem1)) = O /\
      reconcile_phases_m force sw1 mem1 (as_owner mem1) (lookup_prev (sw_sets sw1) mem1) (os_phases mem1) [] (os_remotes mem1)
        = (sw2, pevs, rem, pr) /\
      w_store (sw_w sw') = w_store (sw_w sw2) /\ sw_phases sw' = sw_phases sw2 /\ sw_nss sw' = sw_nss sw2 /\
      Forall (status_keeps mem0) pre /\
      after_loop mem0 mem1 sw2 pre pevs rem pr evs r.

  Definition stopped_early (sw : sworld) (mem0 : oset) (sw' : sworld) (evs : list sev) : Prop :=
    w_store (sw_w sw') = w_store (sw_w sw) /\ sw_phases sw' = sw_phases sw /\ sw_nss sw' = sw_nss sw /\
    Forall (status_keeps mem0) evs.

  Lemma active_body_inv sw0 evs0 mem mem0 sw' evs r :
    find_set (sw_sets sw0) (oi_kind (os_id mem)) (oi_ns (os_id mem)) (oi_name (os_id mem)) = Some mem ->
    same_spec mem mem0 -> Forall (status_keeps mem0) evs0 ->
    active_body force sw0 evs0 mem = (sw', evs, r) ->
    stopped_early sw0 mem0 sw' evs \/ reached_loop sw0 mem0 sw' evs r.
  Proof.
    intros Hf Hs0 Hev0. unfold active_body.
    destruct (revision_pass sw0 mem) as [[[sw1 evs1] mem1] rr] eqn:Erev.
    destruct (revision_pass_inv _ _ _ _ _ _ Hf Erev) as (Hs1 & Hst1 & Hph1 & Hns1 & Hev1).
    assert (Hs10 : same_spec mem1 mem0).
    { destruct Hs1 as (?&?&?&?&?&?&?&?), Hs0 as (?&?&?&?&?&?&?&?). repeat split; congruence. }
    assert (Hev1' : Forall (status_keeps mem0) evs1).
    { eapply Forall_impl; [|exact Hev1]. intros e. apply status_keeps_same; destruct Hs0 as (?&?&?&?&?&Hc&?); now rewrite Hc. }
    assert (Hpre : Forall (status_keeps mem0) (evs0 ++ evs1)) by (apply Forall_app; auto).
    assert (Hcond1 : os_conds mem1 = os_conds mem0) by (destruct Hs10 as (?&?&?&?&?&?&?&?); assumption).
    assert (Hfail : forall (mx : oset) sw2 evsx rs swf evsf rf, os_conds mx = os_conds mem1 -> os_gen mx = os_gen mem1 ->
              (let m' := set_conds mx (set_cond (os_conds mx) (mk_cond mx CAvailable SFalse rs)) in
               let '(sw'', _, ok) := update_status sw2 m' in
               (sw'', evsx ++ [status_ev m' ok], if ok then SDone true else SError)) = (swf, evsf, rf) ->
              (w_store (sw_w swf) = w_store (sw_w sw2) /\ sw_phases swf = sw_phases sw2 /\ sw_nss swf = sw_nss sw2) /\
              exists ok m', evsf = evsx ++ [status_ev m' ok] /\
                find_cond (os_conds m') CAvailable = Some (mk_cond mem1 CAvailable SFalse rs) /\
                find_cond (os_conds m') CSucceeded = find_cond (os_conds mem0) CSucceeded /\
                rf = (if ok then SDone true else SError)).
    { intros mx sw2 evsx rs swf evsf rf Hcx Hgx. cbv zeta.
      destruct (update_status sw2 _) as [[sw3 m3] ok] eqn:Eu. intros H. injection H as <- <- <-.
      split; [eapply update_status_store; eauto|]. exists ok. eexists. split; [reflexivity|]. cbn [os_conds set_conds].
      split; [rewrite (find_set_cond_same _ (mk_cond mx CAvailable SFalse rs)); unfold mk_cond; now rewrite Hgx|].
      split; [rewrite find_set_cond_other by (cbn; discriminate); now rewrite Hcx, Hcond1|]. reflexivity. }
    destruct rr.
    - (* RevGo *)
      destruct (Nat.ltb 0 (dup_count [] (map (spec_key mem1) (all_objects mem1)))) eqn:Edup.
      + intros H. destruct (Hfail mem1 _ _ _ _ _ _ eq_refl eq_refl H) as ((Hst & Hph & Hns) & ok & m' & -> & Ha & Hsu & _).
        left. split; [congruence|]. split; [congruence|]. split; [congruence|].
        apply Forall_app. split; [assumption|]. constructor; [|constructor].
        cbn. split; [reflexivity|]. split; [right; eexists; split; [exact Ha|reflexivity]|assumption].
      + apply Nat.ltb_ge in Edup. assert (Hdup : dup_count [] (map (spec_key mem1) (all_objects mem1)) = O) by lia.
        destruct (reconcile_phases_m force sw1 mem1 (as_owner mem1) _ _ [] (os_remotes mem1)) as [[[sw2 pevs] rem] pr] eqn:Erp.
        intros H. right.
        exists mem1, sw1, sw2, pevs, rem, pr, (evs0 ++ evs1).
        split; [exact Hs10|]. split; [exact Hst1|]. split; [exact Hph1|]. split; [exact Hns1|]. split; [exact Hdup|]. split; [exact Erp|].
        unfold after_loop.
        destruct pr as [e| | |ctrlof failed].
        * destruct (match e with ErrNotPrevious | ErrRevCollision => true | _ => false end) eqn:Ecoll.
          -- assert (H' : (let m' := set_conds (set_remotes mem1 rem) (set_cond (os_conds (set_remotes mem1 rem)) (mk_cond (set_remotes mem1 rem) CAvailable SFalse RCollisionDetected)) in
                          let '(sw'', _, ok) := update_status sw2 m' in
                          (sw'', (evs0 ++ evs1 ++ pevs) ++ [status_ev m' ok], if ok then SDone true else SError)) = (sw', evs, r))
               by (destruct e; try discriminate; exact H).
             destruct (Hfail (set_remotes mem1 rem) _ _ _ _ _ _ eq_refl eq_refl H') as ((Hst & Hph & Hns) & ok & m' & -> & Ha & Hsu & ->).
             split; [exact Hst|]. split; [exact Hph|]. split; [exact Hns|]. split; [exact Hpre|].
             exists ok, m'. rewrite <- !app_assoc. auto.
          -- assert (H' : (sw2, evs0 ++ evs1 ++ pevs, SError) = (sw', evs, r))
               by (destruct e; try discriminate; exact H).
             injection H' as <- <- <-. repeat split; auto. now rewrite <- app_assoc.
        * injection H as <- <- <-. repeat split; auto. now rewrite <- app_assoc.
        * destruct (Hfail (set_remotes mem1 rem) _ _ _ _ _ _ eq_refl eq_refl H) as ((Hst & Hph & Hns) & ok & m' & -> & Ha & Hsu & ->).
          split; [exact Hst|]. split; [exact Hph|]. split; [exact Hns|]. split; [exact Hpre|].
          exists ok, m'. rewrite <- !app_assoc. auto.
        * destruct (update_status sw2 (final_status (sw_phases sw2) (set_remotes mem1 rem) ctrlof failed)) as [[sw3 m3] ok] eqn:Eu.
          injection H as <- <- <-. destruct (update_status_store _ _ _ _ _ Eu) as (Hst & Hph & Hns).
          split; [exact Hst|]. split; [exact Hph|]. split; [exact Hns|]. split; [exact Hpre|].
          exists ok. rewrite <- !app_assoc. auto.
    - (* RevRequeue *)
      destruct (update_status sw1 _) as [[sw2 m2] ok] eqn:Eu. intros H. injection H as <- <- <-.
      destruct (update_status_store _ _ _ _ _ Eu) as (Hst & Hph & Hns).
      left. split; [congruence|]. split; [congruence|]. split; [congruence|].
      rewrite app_assoc. apply Forall_app. split; [assumption|]. apply Forall_app. split; [apply paused_reads_keep|].
      constructor; [|constructor].
      unfold status_ev, status_ev_f, status_keeps. cbn [os_conds set_conds]. rewrite !paused_cond_other by discriminate. rewrite Hcond1. auto.
    - (* RevErr *)
      intros H. injection H as <- <- <-. left. repeat split; auto.
  Qed.
End PassInversion.

(** * Theorems about GenericObjectSetController.Reconcile *)
Section SetLevel.
  Variable force : bool.

  Lemma find_set_id sets k ns n mem : find_set sets k ns n = Some mem ->
    oi_kind (os_id mem) = k /\ oi_ns (os_id mem) = ns /\ oi_name (os_id mem) = n.
  Proof.
    unfold find_set. intros H. apply find_some in H. destruct H as [_ H].
    apply andb_true_iff in H. destruct H as [H H3]. apply andb_true_iff in H. destruct H as [H1 H2].
    apply N.eqb_eq in H1, H2, H3. auto.
  Qed.

  Lemma find_put_set sets s st :
    find_set sets (oi_kind (os_id s)) (oi_ns (os_id s)) (oi_name (os_id s)) = Some st ->
    find_set (put_set sets s) (oi_kind (os_id s)) (oi_ns (os_id s)) (oi_name (os_id s)) = Some s.
  Proof.
    unfold find_set. induction sets as [|x xs IH]; cbn; [discriminate|].
    unfold oid_eqb.
    destruct ((oi_kind (os_id x) =? oi_kind (os_id s)) && (oi_ns (os_id x) =? oi_ns (os_id s)) && (oi_name (os_id x) =? oi_name (os_id s))) eqn:E.
    - intros _. cbn. now rewrite !N.eqb_refl.
    - intros H. cbn. rewrite E. now apply IH.
  Qed.

  Definition is_active (mem : oset) : Prop :=
    cond_true (os_conds mem) CArchived = false /\ os_deleting mem = false /\ os_life mem <> LArchived.

  Lemma same_spec_refl m : same_spec m m.
  Proof. repeat split. Qed.

  (** An active pass either stops before the phase loop (no member request, no write to a phase object, stored
      Available/Succeeded conditions re-sent unchanged or Available=False) or reaches the phase loop. *)
  Lemma objectset_pass_active sw k ns n mem0 sw' evs r :
    find_set (sw_sets sw) k ns n = Some mem0 -> is_active mem0 ->
    objectset_pass force sw k ns n = (sw', evs, r) ->
    stopped_early sw mem0 sw' evs \/ reached_loop force sw mem0 sw' evs r.
  Proof.
    intros Hfind (Harch & Hdel & Hlife). unfold objectset_pass. rewrite Hfind, Harch, Hdel.
    assert (lifecycle_eqb (os_life mem0) LArchived = false) as -> by (destruct (os_life mem0); try reflexivity; congruence).
    cbn [orb]. unfold active_pass.
    destruct (find_set_id _ _ _ _ _ Hfind) as (Hk & Hns & Hn).
    assert (Hf0 : find_set (sw_sets sw) (oi_kind (os_id mem0)) (oi_ns (os_id mem0)) (oi_name (os_id mem0)) = Some mem0) by now rewrite Hk, Hns, Hn.
    destruct (os_fin mem0).
    - intros H. exact (active_body_inv force sw [] mem0 mem0 sw' evs r Hf0 (same_spec_refl _) (Forall_nil _) H).
    - destruct (patch_finalizer sw mem0 true) as [sw0 [m|]] eqn:Ep.
      + destruct (patch_finalizer_store _ _ _ _ _ Ep) as (Hst & Hph & Hnss).
        pose proof (patch_finalizer_same _ _ _ _ _ Hf0 Ep) as Hsm.
        assert (Hfm : find_set (sw_sets sw0) (oi_kind (os_id m)) (oi_ns (os_id m)) (oi_name (os_id m)) = Some m).
        { unfold patch_finalizer in Ep. rewrite Hf0, N.eqb_refl in Ep. cbn in Ep. injection Ep as <- <-. cbn [sw_sets os_id set_fin].
          apply (find_put_set (sw_sets sw) (set_fin mem0 true (w_rv (sw_w sw))) mem0). exact Hf0. }
        intros H.
        assert (Hev0 : Forall (status_keeps mem0) [SMeta (MFinalizer true true)]) by (constructor; [exact I|constructor]).
        destruct (active_body_inv force sw0 _ m mem0 sw' evs r Hfm Hsm Hev0 H) as [(Hs1 & Hs2 & Hs3 & He)|Hr].
        * left. repeat split; congruence.
        * right. destruct Hr as (mem1 & sw1 & sw2 & pevs & rem & pr & pre & H1 & H2 & H3 & H4 & rest).
          exists mem1, sw1, sw2, pevs, rem, pr, pre.
          split; [assumption|]. split; [congruence|]. split; [congruence|]. split; [congruence|]. exact rest.
      + intros H. injection H as <- <- <-. destruct (patch_finalizer_store _ _ _ _ _ Ep) as (Hst & Hph & Hnss).
        left. repeat split; auto. constructor; [exact I|constructor].
  Qed.

  (** The member requests of a pass that reached the loop are those of the loop. *)
  Lemma after_loop_members mem0 mem1 sw2 pre pevs rem pr evs r :
    Forall (status_keeps mem0) pre -> after_loop mem0 mem1 sw2 pre pevs rem pr evs r ->
    member_evs evs = member_evs pevs.
  Proof.
    intros Hpre Hal. pose proof (status_keeps_members _ _ Hpre) as Hp. unfold after_loop in Hal.
    assert (Hpr : forall phs m, member_evs (paused_reads phs m) = []) by (intros; eapply status_keeps_members; apply (paused_reads_keep mem0)).
    destruct pr as [e| | |ctrlof failed].
    - destruct (match e with ErrNotPrevious | ErrRevCollision => true | _ => false end).
      + destruct Hal as (ok & m' & -> & _). rewrite !member_evs_app, Hp. cbn. now rewrite app_nil_r.
      + destruct Hal as [-> _]. now rewrite member_evs_app, Hp.
    - destruct Hal as [-> _]. now rewrite member_evs_app, Hp.
    - destruct Hal as (ok & m' & -> & _). rewrite !member_evs_app, Hp. cbn. now rewrite app_nil_r.
    - destruct Hal as (ok & -> & _). rewrite !member_evs_app, Hp, Hpr. cbn. now rewrite app_nil_r.
  Qed.

  Definition desired_keys_nodup (mem : oset) : Prop :=
    NoDup (flat_map (phase_keys (as_owner mem)) (local_phases mem)).
  (** The names of the phase objects of an ObjectSet's delegated phases are pairwise distinct (phase names are). *)
  Definition phase_names_nodup (mem : oset) : Prop := NoDup (delegated_names mem (os_phases mem)).

  Lemma as_owner_keys m1 m0 : same_spec m1 m0 ->
    local_phases m1 = local_phases m0 /\ (forall p, key_of (as_owner m1) p = key_of (as_owner m0) p) /\
    ow_paused (as_owner m1) = ow_paused (as_owner m0) /\ ow_id (as_owner m1) = ow_id (as_owner m0).
  Proof.
    intros (Hid & Hph & Hl & _). unfold local_phases, key_of, desired_key, as_owner. cbn. rewrite Hid, Hph, Hl. auto.
  Qed.

  Lemma phase_keys_same m1 m0 : same_spec m1 m0 -> forall ph, phase_keys (as_owner m1) ph = phase_keys (as_owner m0) ph.
  Proof. intros Hs ph. destruct (as_owner_keys _ _ Hs) as (_ & Hk & _). unfold phase_keys. apply map_ext. exact Hk. Qed.

  Lemma nodup_same m1 m0 : same_spec m1 m0 -> desired_keys_nodup m0 -> desired_keys_nodup m1.
  Proof.
    intros Hs. unfold desired_keys_nodup. destruct (as_owner_keys _ _ Hs) as (Hl & _). rewrite Hl.
    intros H. erewrite flat_map_ext; [exact H|]. intros ph. now apply phase_keys_same.
  Qed.

  Lemma names_same m1 m0 : same_spec m1 m0 -> delegated_names m1 (os_phases m1) = delegated_names m0 (os_phases m0).
  Proof. intros (Hid & Hph & _). unfold delegated_names, pobj_name. now rewrite Hid, Hph. Qed.

  Lemma phase_obj_same m1 m0 sw q : same_spec m1 m0 -> phase_obj_of sw m1 q = phase_obj_of sw m0 q.
  Proof. intros (Hid & _). unfold phase_obj_of, pobj_name, phase_kind. now rewrite Hid. Qed.

  Lemma phase_done_same m1 m0 sw sw' q : same_spec m1 m0 ->
    w_store (sw_w sw') = w_store (sw_w sw) -> sw_phases sw' = sw_phases sw ->
    phase_done sw m1 (as_owner m1) q -> phase_done sw' m0 (as_owner m0) q.
  Proof.
    intros Hs Hst Hph. unfold phase_done. destruct (ph_class q).
    - intros (cur & Hc & Ha). exists cur. split; [|exact Ha]. rewrite <- (phase_obj_same _ _ _ _ Hs). unfold phase_obj_of in *. now rewrite Hph.
    - intros Hp p Hin. destruct (Hp p Hin) as (o & Ho & Hpr). destruct (as_owner_keys _ _ Hs) as (_ & Hk & _).
      exists o. rewrite <- Hk. unfold obj_ok. rewrite Hst. auto.
  Qed.

  Lemma touches_same m1 m0 ph e : same_spec m1 m0 -> touches m0 (as_owner m0) ph e -> touches m1 (as_owner m1) ph e.
  Proof.
    intros Hs. destruct e as [x|m|p]; cbn; auto.
    - now rewrite (phase_keys_same _ _ Hs).
    - destruct Hs as (Hid & _). unfold pobj_name. now rewrite Hid.
  Qed.

  Lemma filter_split {A} (f : A -> bool) l : forall pre x post,
    filter f l = pre ++ x :: post ->
    exists pre' post', l = pre' ++ x :: post' /\ filter f pre' = pre /\ filter f post' = post /\ f x = true.
  Proof.
    induction l as [|a l IH]; intros pre x post H; cbn in H; [destruct pre; discriminate|].
    destruct (f a) eqn:Ea.
    - destruct pre as [|b pre0]; cbn in H.
      + injection H as <- <-. exists [], l. cbn. auto.
      + injection H as <- H. destruct (IH _ _ _ H) as (pre' & post' & -> & H1 & H2 & H3).
        exists (a :: pre'), post'. cbn. rewrite Ea, H1. auto.
    - destruct (IH _ _ _ H) as (pre' & post' & -> & H1 & H2 & H3). exists (a :: pre'), post'. cbn. rewrite Ea. auto.
  Qed.

  Lemma exists_member_touches mem ph evs :
    ph_class ph = false ->
    Exists (fun e => In (ev_key e) (phase_keys (as_owner mem) ph)) (member_evs evs) ->
    Exists (touches mem (as_owner mem) ph) evs.
  Proof.
    intros Hc. induction evs as [|e evs IH]; cbn; [intros H; inversion H|].
    destruct e as [x|m|p]; cbn.
    - intros H. inversion H; subst; [left; cbn; auto|right; now apply IH].
    - intros H. right. now apply IH.
    - intros H. right. now apply IH.
  Qed.

  (** ** C03 for the controller, mixed phase lists: if any request of an active pass writes to a phase (a member
      of a local phase, or the phase object of a delegated phase), every earlier phase is complete after the
      pass: the objects of an earlier local phase are present and pass the probe, and the phase object of an
      earlier delegated phase carries Available=True for its current generation. *)
  Theorem C03_rollout_gated_mixed sw k ns n mem0 sw' evs r :
    find_set (sw_sets sw) k ns n = Some mem0 -> is_active mem0 -> desired_keys_nodup mem0 -> phase_names_nodup mem0 ->
    objectset_pass force sw k ns n = (sw', evs, r) ->
    forall pre ph post, os_phases mem0 = pre ++ ph :: post ->
      Exists (touches mem0 (as_owner mem0) ph) evs ->
      forall q, In q pre -> phase_done sw' mem0 (as_owner mem0) q.
  Proof.
    intros Hfind Hact Hnd Hndn H pre ph post Hsplit Hex q Hq.
    destruct (objectset_pass_active _ _ _ _ _ _ _ _ Hfind Hact H) as [(_ & _ & _ & Hkeep)|Hr].
    - exfalso. apply Exists_exists in Hex. destruct Hex as (e & Hin & Ht). rewrite Forall_forall in Hkeep. specialize (Hkeep _ Hin).
      destruct e as [x|m|p]; cbn in *; try contradiction. destruct Ht as [_ Ht]. destruct p; cbn in *; contradiction.
    - destruct Hr as (mem1 & sw1 & sw2 & pevs & rem & pr & pre0 & Hs & _ & _ & _ & _ & Hrp & Hw2 & Hp2 & _ & Hpre & Hal).
      (* a write to ph occurs among the loop's events: the rest are reads, finalizer and status requests *)
      assert (Hex_loop : Exists (touches mem0 (as_owner mem0) ph) pevs).
      { assert (Hno : forall l, Forall (status_keeps mem0) l -> Exists (touches mem0 (as_owner mem0) ph) l -> False).
        { intros l Hl Hx. apply Exists_exists in Hx. destruct Hx as (e & Hin & Ht). rewrite Forall_forall in Hl. specialize (Hl _ Hin).
          destruct e as [x|m|p]; cbn in *; try contradiction. destruct Ht as [_ Ht]. destruct p; cbn in *; contradiction. }
        assert (Hst : forall m ok fph, ~ touches mem0 (as_owner mem0) ph (status_ev_f m fph ok)) by (intros m ok fph Ht; exact Ht).
        assert (Hsplit3 : forall tail, (forall e, In e tail -> ~ touches mem0 (as_owner mem0) ph e) ->
                  Exists (touches mem0 (as_owner mem0) ph) (pre0 ++ pevs ++ tail) -> Exists (touches mem0 (as_owner mem0) ph) pevs).
        { intros tail Ht Hx. apply Exists_app in Hx. destruct Hx as [Hx|Hx]; [exfalso; eapply Hno; eauto|].
          apply Exists_app in Hx. destruct Hx as [Hx|Hx]; [exact Hx|]. exfalso.
          apply Exists_exists in Hx. destruct Hx as (e & Hin & Hte). exact (Ht e Hin Hte). }
        unfold after_loop in Hal. destruct pr as [e| | |ctrlof failed].
        - destruct (match e with ErrNotPrevious | ErrRevCollision => true | _ => false end).
          + destruct Hal as (ok & m' & -> & _). apply (Hsplit3 [status_ev m' ok]); [|exact Hex]. intros e0 [<-|[]]. apply Hst.
          + destruct Hal as [-> _]. rewrite <- (app_nil_r pevs) in Hex. apply (Hsplit3 []); [intros e0 []|exact Hex].
        - destruct Hal as [-> _]. rewrite <- (app_nil_r pevs) in Hex. apply (Hsplit3 []); [intros e0 []|exact Hex].
        - destruct Hal as (ok & m' & -> & _). apply (Hsplit3 [status_ev m' ok]); [|exact Hex]. intros e0 [<-|[]]. apply Hst.
        - destruct Hal as (ok & -> & _). eapply Hsplit3; [|exact Hex]. intros e0 Hin. apply in_app_or in Hin. destruct Hin as [Hin|[<-|[]]]; [|apply Hst].
          intros Ht. eapply (Hno (paused_reads (sw_phases sw2) (set_remotes mem1 rem))); [apply paused_reads_keep|]. apply Exists_exists. eauto. }
      assert (Hex1 : Exists (touches mem1 (as_owner mem1) ph) pevs).
      { eapply Exists_impl; [|exact Hex_loop]. intros e. now apply touches_same. }
      destruct Hs as (Hid & Hph & Hrest).
      assert (Hs : same_spec mem1 mem0) by (split; [exact Hid|split; [exact Hph|exact Hrest]]).
      assert (Hnd1 : NoDup (local_keys (as_owner mem1) (os_phases mem1))).
      { pose proof (nodup_same _ _ Hs Hnd) as Hn1. exact Hn1. }
      assert (Hndn1 : NoDup (delegated_names mem1 (os_phases mem1))) by (rewrite (names_same _ _ Hs); exact Hndn).
      rewrite <- Hph in Hsplit.
      pose proof (rpm_gate force mem1 _ _ _ _ _ _ _ _ _ _ Hrp Hnd1 Hndn1 pre ph post Hsplit Hex1 q Hq) as Hg.
      eapply phase_done_same; eauto.
  Qed.

  (** C03 for the controller, as stated for local phases: if any request of an active pass names an object of a
      local phase, all objects of all earlier local phases are present afterwards and pass the probe. *)
  Theorem C03_rollout_gated sw k ns n mem0 sw' evs r :
    find_set (sw_sets sw) k ns n = Some mem0 -> is_active mem0 -> desired_keys_nodup mem0 ->
    objectset_pass force sw k ns n = (sw', evs, r) ->
    forall pre ph post, local_phases mem0 = pre ++ ph :: post ->
      Exists (fun e => In (ev_key e) (phase_keys (as_owner mem0) ph)) (member_evs evs) ->
      forall q, In q pre -> phase_ok (sw_w sw') (as_owner mem0) q.
  Proof.
    intros Hfind Hact Hnd H pre ph post Hsplit Hex q Hq.
    destruct (filter_split _ _ _ _ _ Hsplit) as (pre' & post' & Hall & Hpre & _ & Hloc).
    assert (Hc : ph_class ph = false) by (unfold is_local in Hloc; now apply negb_true_iff in Hloc).
    assert (Hq' : In q pre' /\ ph_class q = false).
    { rewrite <- Hpre in Hq. apply filter_In in Hq. destruct Hq as [Hq Hl]. unfold is_local in Hl. apply negb_true_iff in Hl. auto. }
    destruct Hq' as [Hq' Hcq].
    destruct (objectset_pass_active _ _ _ _ _ _ _ _ Hfind Hact H) as [(_ & _ & _ & Hkeep)|Hr].
    - rewrite (status_keeps_members _ _ Hkeep) in Hex. inversion Hex.
    - destruct Hr as (mem1 & sw1 & sw2 & pevs & rem & pr & pre0 & Hs & _ & _ & _ & _ & Hrp & Hw2 & _ & _ & Hpre0 & Hal).
      rewrite (after_loop_members _ _ _ _ _ _ _ _ _ Hpre0 Hal) in Hex.
      destruct (as_owner_keys _ _ Hs) as (_ & Hk & _).
      rewrite <- (phase_keys_same _ _ Hs) in Hex.
      pose proof Hs as (_ & Hph & _). rewrite <- Hph in Hall.
      pose proof (rpm_gate_local force mem1 _ _ _ _ _ _ _ _ _ _ Hrp (nodup_same _ _ Hs Hnd) pre' ph post' Hall Hc Hex q Hq' Hcq) as Hg.
      intros p Hin. destruct (Hg p Hin) as (o & Ho & Hpr). exists o. rewrite <- Hk. unfold obj_ok. rewrite Hw2. auto.
  Qed.

  (** C09: a paused (not deleted, not archived) ObjectSet sends no request for any member, and its store
      of members is unchanged. *)
  Theorem C09_paused_hands_off sw k ns n mem0 sw' evs r :
    find_set (sw_sets sw) k ns n = Some mem0 -> is_active mem0 -> os_life mem0 = LPaused ->
    objectset_pass force sw k ns n = (sw', evs, r) ->
    member_evs evs = [] /\ w_store (sw_w sw') = w_store (sw_w sw).
  Proof.
    intros Hfind Hact Hp H.
    destruct (objectset_pass_active _ _ _ _ _ _ _ _ Hfind Hact H) as [(Hst & _ & _ & Hkeep)|Hr].
    - split; [now apply (status_keeps_members mem0)|assumption].
    - destruct Hr as (mem1 & sw1 & sw2 & pevs & rem & pr & pre0 & Hs & Hw0 & _ & _ & _ & Hrp & Hw2 & _ & _ & Hpre & Hal).
      assert (Hpa : ow_paused (as_owner mem1) = true).
      { destruct Hs as (_ & _ & Hl & _). unfold as_owner. cbn. now rewrite Hl, Hp. }
      destruct (rpm_paused force _ _ _ _ _ _ _ _ _ _ _ Hpa Hrp) as [Hst Hm].
      rewrite (after_loop_members _ _ _ _ _ _ _ _ _ Hpre Hal). split; [exact Hm|congruence].
  Qed.

  (** C11: an ObjectSet that lists the same object twice (as written) sends no request for any member. *)
  Theorem C11_duplicate_writes_nothing sw k ns n mem0 sw' evs r :
    find_set (sw_sets sw) k ns n = Some mem0 -> is_active mem0 -> dup_count [] (map (spec_key mem0) (all_objects mem0)) <> O ->
    objectset_pass force sw k ns n = (sw', evs, r) ->
    member_evs evs = [] /\ w_store (sw_w sw') = w_store (sw_w sw).
  Proof.
    intros Hfind Hact Hd H.
    destruct (objectset_pass_active _ _ _ _ _ _ _ _ Hfind Hact H) as [(Hst & _ & _ & Hkeep)|Hr].
    - split; [now apply (status_keeps_members mem0)|assumption].
    - destruct Hr as (mem1 & sw1 & sw2 & pevs & rem & pr & pre0 & Hs & _ & _ & _ & Hdup & _). exfalso. apply Hd.
      destruct Hs as (Hid & Hph & _).
      assert (Heq : map (spec_key mem0) (all_objects mem0) = map (spec_key mem1) (all_objects mem1)).
      { unfold all_objects. rewrite Hph. apply map_ext. intros p. unfold spec_key, desired_key, as_owner. cbn. now rewrite Hid. }
      now rewrite Heq.
  Qed.

  (** C06: Available=True is newly written only for the generation the pass read, only when every phase
      completed (every object of a local phase present and passing the probe; for every delegated phase a phase
      object read in this pass that is Available for its current generation), with a controllerOf list in which
      every entry was seen controlled by the ObjectSet or is reported in the status of a delegated phase's
      phase object as read in this pass; every phase object relied upon is controlled by this ObjectSet, and
      every status.remotePhases entry is either the stored one or names such a phase object with its uid; the
      list is complete for the local phases; and the request names no failing phase. *)
  Theorem C06_available_true_justified sw k ns n mem0 sw' evs r rev conds ctrlof rem fph ok cd :
    find_set (sw_sets sw) k ns n = Some mem0 -> is_active mem0 -> desired_keys_nodup mem0 ->
    objectset_pass force sw k ns n = (sw', evs, r) ->
    In (SMeta (MStatus rev conds ctrlof rem fph ok)) evs ->
    find_cond conds CAvailable = Some cd -> cd_status cd = STrue ->
    find_cond (os_conds mem0) CAvailable <> Some cd ->
    cd_gen cd = os_gen mem0 /\ fph = None /\
    (forall q, In q (local_phases mem0) -> phase_ok (sw_w sw') (as_owner mem0) q) /\
    (forall q, In q (delegated_phases mem0) -> exists cur, own_phase_read mem0 evs q cur /\ avail_current cur) /\
    (forall key, In key ctrlof -> seen_controlled (sw_w sw') (as_owner mem0) key \/ reported_by_phase mem0 (os_phases mem0) evs key) /\
    (forall x, In x rem -> In x (os_remotes mem0) \/
       exists q cur, In q (os_phases mem0) /\ ph_class q = true /\ own_phase_read mem0 evs q cur /\ x = (pobj_name mem0 q, oi_uid (op_id cur))) /\
    (forall key, In key (flat_map (phase_keys (as_owner mem0)) (local_phases mem0)) ->
                 seen_controlled (sw_w sw') (as_owner mem0) key -> In key ctrlof).
  Proof.
    intros Hfind Hact Hnd H Hin Hfc Hst Hnew.
    assert (Hkeep_contra : forall l, Forall (status_keeps mem0) l -> In (SMeta (MStatus rev conds ctrlof rem fph ok)) l -> False).
    { intros l Hl Hi. rewrite Forall_forall in Hl. specialize (Hl _ Hi). cbn in Hl. destruct Hl as (_ & [Ha|(cd' & Ha & Hf)] & _).
      - apply Hnew. now rewrite <- Ha.
      - rewrite Hfc in Ha. injection Ha as <-. rewrite Hst in Hf. discriminate. }
    destruct (objectset_pass_active _ _ _ _ _ _ _ _ Hfind Hact H) as [(_ & _ & _ & Hkeep)|Hr]; [exfalso; eauto|].
    destruct Hr as (mem1 & sw1 & sw2 & pevs & rem0 & pr & pre0 & Hs & _ & _ & _ & _ & Hrp & Hw2 & Hp2 & _ & Hpre & Hal).
    assert (Hnot_loop : ~ In (SMeta (MStatus rev conds ctrlof rem fph ok)) pevs).
    { intros Hi. destruct (rpm_inv force _ _ _ _ _ _ _ _ _ _ _ Hrp) as (_ & _ & _ & Hev & _). rewrite Forall_forall in Hev. exact (Hev _ Hi). }
    assert (Hfalse_contra : forall m' ok', find_cond (os_conds m') CAvailable = Some (mk_cond mem1 CAvailable SFalse RPreflightError) \/
                                          find_cond (os_conds m') CAvailable = Some (mk_cond mem1 CAvailable SFalse RCollisionDetected) ->
                                          SMeta (MStatus rev conds ctrlof rem fph ok) = status_ev m' ok' -> False).
    { intros m' ok' Hc He. unfold status_ev, status_ev_f in He. injection He as _ Hcd _ _ _ _. subst conds.
      destruct Hc as [Hc|Hc]; rewrite Hfc in Hc; injection Hc as Hcd; rewrite Hcd in Hst; discriminate. }
    unfold after_loop in Hal. destruct pr as [e| | |co failed].
    - destruct (match e with ErrNotPrevious | ErrRevCollision => true | _ => false end).
      + destruct Hal as (ok' & m' & Hev & Ha & _). exfalso. rewrite Hev in Hin.
        apply in_app_or in Hin. destruct Hin as [Hi|Hi]; [eauto|]. apply in_app_or in Hi. destruct Hi as [Hi|[Hi|[]]]; [now apply Hnot_loop in Hi|].
        eapply Hfalse_contra; eauto.
      + destruct Hal as [Hev _]. exfalso. rewrite Hev in Hin. apply in_app_or in Hin. destruct Hin as [Hi|Hi]; [eauto|now apply Hnot_loop in Hi].
    - destruct Hal as [Hev _]. exfalso. rewrite Hev in Hin. apply in_app_or in Hin. destruct Hin as [Hi|Hi]; [eauto|now apply Hnot_loop in Hi].
    - destruct Hal as (ok' & m' & Hev & Ha & _). exfalso. rewrite Hev in Hin.
      apply in_app_or in Hin. destruct Hin as [Hi|Hi]; [eauto|]. apply in_app_or in Hi. destruct Hi as [Hi|[Hi|[]]]; [now apply Hnot_loop in Hi|].
      eapply Hfalse_contra; eauto.
    - destruct Hal as (ok' & Hev & _). pose proof Hin as Hin0. rewrite Hev in Hin.
      apply in_app_or in Hin. destruct Hin as [Hi|Hi]; [exfalso; eauto|]. apply in_app_or in Hi. destruct Hi as [Hi|Hi]; [exfalso; now apply Hnot_loop in Hi|].
      apply in_app_or in Hi. destruct Hi as [Hi|[Hi|[]]]; [exfalso; eapply Hkeep_contra; [apply (paused_reads_keep mem0)|exact Hi]|].
      set (mem2 := set_remotes mem1 rem0) in *.
      destruct (final_status_available (sw_phases sw2) mem2 co failed) as (cd0 & Hc0 & Hgen & Hiff & Hco).
      remember (final_status (sw_phases sw2) mem2 co failed) as fs eqn:Efs.
      unfold status_ev_f in Hi. injection Hi as Erev Econds Ectrl Erem Efph Eok.
      subst conds ctrlof fph.
      rewrite Hfc in Hc0. injection Hc0 as <-.
      assert (failed = None) as -> by now apply Hiff.
      destruct (as_owner_keys _ _ Hs) as (Hl & Hk & _ & Hid).
      pose proof Hs as (Hsid & Hphs & _ & Hg & _).
      assert (Hsc : forall key, seen_controlled (sw_w sw2) (as_owner mem1) key <-> seen_controlled (sw_w sw') (as_owner mem0) key).
      { intros key. unfold seen_controlled. rewrite Hw2, Hid. tauto. }
      assert (Hnd1 : NoDup (local_keys (as_owner mem1) (os_phases mem1))) by exact (nodup_same _ _ Hs Hnd).
      assert (Hsub : forall n0 cur, phase_read pevs n0 cur -> phase_read evs n0 cur).
      { intros n0 cur Hr. rewrite Hev. unfold phase_read in *.
        destruct Hr as [Hr|(p & Hr)]; [left|right; exists p]; apply in_or_app; right; apply in_or_app; now left. }
      assert (Hname : forall q, pobj_name mem1 q = pobj_name mem0 q) by (intros q; unfold pobj_name; now rewrite Hsid).
      assert (Hown : forall q cur, own_phase_read mem1 pevs q cur -> own_phase_read mem0 evs q cur).
      { intros q cur [Hr Ho]. split; [rewrite <- Hname; now apply Hsub|now rewrite <- Hsid]. }
      split; [cbn in Hgen; congruence|]. split; [reflexivity|]. split; [|split; [|split; [|split]]].
      + intros q Hq. apply filter_In in Hq. destruct Hq as [Hq Hlq]. unfold is_local in Hlq. apply negb_true_iff in Hlq. rewrite <- Hphs in Hq.
        pose proof (rpm_all_ok_local force _ _ _ _ _ _ _ _ _ _ _ Hrp Hnd1 q Hq Hlq) as Hd.
        intros p Hp. destruct (Hd p Hp) as (o & Ho & Hpr0). exists o. rewrite <- Hk. unfold obj_ok. rewrite Hw2. auto.
      + intros q Hq. apply filter_In in Hq. destruct Hq as [Hq Hcq]. rewrite <- Hphs in Hq.
        destruct (rpm_all_ok_read force _ _ _ _ _ _ _ _ _ _ _ Hrp q Hq Hcq) as (cur & Hread & Ha & Hc).
        exists cur. split; [|exact Ha]. apply Hown. split; assumption.
      + intros key Hkey. rewrite Hco in Hkey.
        destruct (rpm_ctrlof_sound force _ _ _ _ _ _ _ _ _ _ _ _ Hrp Hnd1) as (new & -> & Hnew0). cbn in Hkey.
        rewrite Forall_forall in Hnew0. destruct (Hnew0 _ Hkey) as [[_ Hsn]|Hrep]; [left; now apply Hsc|right].
        destruct Hrep as (q & cur & Hq & Hcq & Hpo & Hink). exists q, cur. rewrite <- Hphs. split; [exact Hq|]. split; [exact Hcq|]. split; [|exact Hink].
        now apply Hown.
      + intros x Hx. subst rem. rewrite Efs in Hx. change (os_remotes (final_status (sw_phases sw2) mem2 co None)) with rem0 in Hx.
        destruct (rpm_remotes force _ _ _ _ _ _ _ _ _ _ _ Hrp x Hx) as [Hi|(q & cur & Hq & Hcq & Ho & He)].
        * left. destruct Hs as (_ & _ & _ & _ & _ & _ & _ & Hrm). now rewrite <- Hrm.
        * right. exists q, cur. rewrite <- Hphs. split; [exact Hq|]. split; [exact Hcq|]. split; [now apply Hown|]. now rewrite <- Hname.
      + intros key Hkey Hsn. rewrite Hco.
        eapply (rpm_ctrlof_complete force _ _ _ _ _ _ _ _ _ _ _ Hrp Hnd1).
        * unfold local_keys. fold (local_phases mem1). rewrite Hl. erewrite flat_map_ext; [exact Hkey|]. intros ph. unfold phase_keys. apply map_ext. exact Hk.
        * now apply Hsc.
  Qed.
End SetLevel.

(** * Deletion and archival (C04, C05 orphan clause, C06 archival clauses) *)
Section Deletion.
  Variable force : bool.

  Definition teardown_of (sw : sworld) (mem : oset) : sworld * list sev * tdphres :=
    if os_fin mem then
      if os_orphan mem then (sw, [], TdOk true)
      else teardown_phases_m force sw mem (as_owner mem) (rev (os_phases mem))
    else (sw, [], TdOk true).

  Definition no_meta (evs : list sev) : Prop := Forall (fun e => match e with SMeta _ => False | _ => True end) evs.

  Lemma tpm_no_meta s ow rphs : forall sw sw' evs r,
    teardown_phases_m force sw s ow rphs = (sw', evs, r) -> no_meta evs.
  Proof.
    induction rphs as [|ph rest IH]; intros sw sw' evs r H.
    - cbn in H. injection H as _ <- _. constructor.
    - rewrite tpm_cons in H. destruct (td_step force sw s ow ph) as [[sw1 e1] r1] eqn:E1.
      assert (H1 : no_meta e1).
      { destruct (td_step_inv _ _ _ _ _ _ _ _ E1) as (_ & _ & Hev & _). destruct (ph_class ph).
        - eapply Forall_impl; [|exact Hev]. intros e He. destruct e as [x|m|p]; auto.
        - destruct Hev as (e' & -> & _). apply Forall_forall. intros e He. apply in_map_iff in He. destruct He as (x & <- & _). exact I. }
      destruct r1 as [|[|]]; try (injection H as _ <- _; exact H1).
      destruct (teardown_phases_m force sw1 s ow rest) as [[sw2 e2] r2] eqn:E2. injection H as _ <- _.
      apply Forall_app. split; [exact H1|eapply IH; eauto].
  Qed.

  (** What may follow the teardown requests in a deletion / archival pass. *)
  Definition del_tail_ok (mem : oset) (td : tdphres) (e : sev) : Prop :=
    match e with
    | SMeta (MFinalizer added ok) => added = false /\ td = TdOk true /\ os_fin mem = true
    | SMeta (MStatus _ conds ctrlof _ fph _) =>
        find_cond conds CAvailable = None /\ fph = None /\ os_life mem = LArchived /\
        (cond_true conds CArchived = true -> td = TdOk true /\ ctrlof = [])
    | _ => False
    end.

  (** Shape of a deletion/archival pass: the teardown requests, then at most a finalizer removal and a status
      request; the finalizer is removed, or Archived=True sent, only after the teardown reported all phases done. *)
  Lemma deletion_pass_shape sw mem sw' evs r :
    deletion_pass force sw mem = (sw', evs, r) ->
    exists sw1 tevs td tail,
      teardown_of sw mem = (sw1, tevs, td) /\ evs = tevs ++ tail /\ Forall (del_tail_ok mem td) tail /\
      w_store (sw_w sw') = w_store (sw_w sw1) /\ sw_phases sw' = sw_phases sw1.
  Proof.
    unfold deletion_pass.
    change (if os_fin mem then if os_orphan mem then (sw, [], TdOk true)
            else teardown_phases_m force sw mem (as_owner mem) (rev (os_phases mem))
            else (sw, [], TdOk true)) with (teardown_of sw mem).
    destruct (teardown_of sw mem) as [[sw1 tevs] td] eqn:Etd.
    set (archived := lifecycle_eqb (os_life mem) LArchived).
    assert (Harch : archived = true -> os_life mem = LArchived) by (subst archived; destruct (os_life mem); cbn; congruence).
    (* the common tail *)
    assert (Hfinish : forall swx evs1 mem1 swf evsf rf,
       (if negb archived then (swx, evs1, SDone false)
        else let '(sw'', _, ok) := update_status swx (set_conds mem1 (remove_cond (os_conds mem1) CAvailable)) in
             (sw'', evs1 ++ [status_ev (set_conds mem1 (remove_cond (os_conds mem1) CAvailable)) ok], if ok then SDone false else SError)) = (swf, evsf, rf) ->
       (w_store (sw_w swf) = w_store (sw_w swx) /\ sw_phases swf = sw_phases swx) /\
       (evsf = evs1 \/ exists ok, archived = true /\ evsf = evs1 ++ [status_ev (set_conds mem1 (remove_cond (os_conds mem1) CAvailable)) ok])).
    { intros swx evs1 mem1 swf evsf rf. destruct (negb archived) eqn:Ea.
      - intros H. injection H as <- <- _. auto.
      - destruct (update_status swx _) as [[sw2 m2] ok] eqn:Eu. intros H. injection H as <- <- _.
        destruct (update_status_store _ _ _ _ _ Eu) as (H1 & H2 & _).
        split; [auto|]. right. exists ok. apply negb_false_iff in Ea. auto. }
    assert (Hstatus_ok : forall mem1 ok tdx, archived = true ->
       (cond_true (remove_cond (os_conds mem1) CAvailable) CArchived = true -> tdx = TdOk true /\ os_ctrlof mem1 = []) ->
       del_tail_ok mem tdx (status_ev (set_conds mem1 (remove_cond (os_conds mem1) CAvailable)) ok)).
    { intros mem1 ok tdx Ha Hx. unfold status_ev, status_ev_f, del_tail_ok. cbn [os_conds set_conds os_ctrlof].
      split; [apply find_remove_cond_same|]. split; [reflexivity|]. split; [now apply Harch|exact Hx]. }
    destruct td as [|done].
    - intros H. injection H as <- <- <-. exists sw1, tevs, TdErr, []. rewrite app_nil_r. repeat split; auto.
    - destruct done.
      + destruct (os_fin mem) eqn:Efin.
        * destruct (patch_finalizer sw1 mem false) as [sw2 [mem2|]] eqn:Ep.
          -- intros H. destruct (Hfinish _ _ _ _ _ _ H) as [[Hst Hph] Hev].
             destruct (patch_finalizer_store _ _ _ _ _ Ep) as (Hst2 & Hph2 & _).
             match type of Hev with context [status_ev (set_conds ?M _) _] => set (mem3 := M) in * end.
             assert (Hfin_ok : del_tail_ok mem (TdOk true) (SMeta (MFinalizer false true))) by (cbn; auto).
             destruct Hev as [->|(ok & Ha & ->)].
             ++ exists sw1, tevs, (TdOk true), [SMeta (MFinalizer false true)]. repeat split; try congruence. constructor; [exact Hfin_ok|constructor].
             ++ exists sw1, tevs, (TdOk true), [SMeta (MFinalizer false true); status_ev (set_conds mem3 (remove_cond (os_conds mem3) CAvailable)) ok].
                split; [reflexivity|]. split; [now rewrite <- app_assoc|]. split; [|split; congruence].
                constructor; [exact Hfin_ok|]. constructor; [|constructor]. apply Hstatus_ok; [exact Ha|].
                intros _. split; [reflexivity|]. subst mem3. rewrite Ha. reflexivity.
          -- intros H. injection H as <- <- <-. destruct (patch_finalizer_store _ _ _ _ _ Ep) as (Hst2 & Hph2 & _).
             exists sw1, tevs, (TdOk true), [SMeta (MFinalizer false false)]. repeat split; auto. constructor; [cbn; auto|constructor].
        * intros H. destruct (Hfinish _ _ _ _ _ _ H) as [[Hst Hph] Hev].
          match type of Hev with context [status_ev (set_conds ?M _) _] => set (mem3 := M) in * end.
          destruct Hev as [->|(ok & Ha & ->)].
          -- exists sw1, tevs, (TdOk true), []. rewrite app_nil_r. repeat split; auto.
          -- exists sw1, tevs, (TdOk true), [status_ev (set_conds mem3 (remove_cond (os_conds mem3) CAvailable)) ok].
             repeat split; auto. constructor; [|constructor]. apply Hstatus_ok; [exact Ha|].
             intros _. split; [reflexivity|]. subst mem3. rewrite Ha. reflexivity.
      + intros H. destruct (Hfinish _ _ _ _ _ _ H) as [[Hst Hph] Hev].
        match type of Hev with context [status_ev (set_conds ?M _) _] => set (mem3 := M) in * end.
        destruct Hev as [->|(ok & Ha & ->)].
        * exists sw1, tevs, (TdOk false), []. rewrite app_nil_r. repeat split; auto.
        * exists sw1, tevs, (TdOk false), [status_ev (set_conds mem3 (remove_cond (os_conds mem3) CAvailable)) ok].
          repeat split; auto. constructor; [|constructor]. apply Hstatus_ok; [exact Ha|].
          intros Hat. exfalso. subst mem3. rewrite Ha in Hat. unfold cond_true in Hat. rewrite find_remove_cond_other in Hat by discriminate.
          cbn [os_conds set_conds] in Hat.
          rewrite (find_set_cond_same _ (mk_cond mem CArchived SFalse RArchivalInProgress)) in Hat. cbn in Hat. discriminate.
  Qed.

  Lemma teardown_of_no_meta sw mem sw1 tevs td : teardown_of sw mem = (sw1, tevs, td) -> no_meta tevs.
  Proof.
    unfold teardown_of. destruct (os_fin mem); [|intros H; injection H as _ <- _; constructor].
    destruct (os_orphan mem); [intros H; injection H as _ <- _; constructor|]. apply tpm_no_meta.
  Qed.

  (** The same, in terms of the requests of the pass: the member requests are exactly those of the teardown; the
      finalizer is removed, or Archived=True sent, only after the teardown reported all phases done. *)
  Lemma deletion_pass_inv sw mem sw' evs r :
    deletion_pass force sw mem = (sw', evs, r) ->
    exists sw1 tevs td,
      teardown_of sw mem = (sw1, tevs, td) /\ member_evs evs = member_evs tevs /\
      w_store (sw_w sw') = w_store (sw_w sw1) /\ sw_phases sw' = sw_phases sw1 /\
      (forall ok, In (SMeta (MFinalizer false ok)) evs -> td = TdOk true /\ os_fin mem = true) /\
      (forall rev0 conds ctrlof rem fph ok, In (SMeta (MStatus rev0 conds ctrlof rem fph ok)) evs ->
         find_cond conds CAvailable = None /\ fph = None /\ os_life mem = LArchived /\
         (cond_true conds CArchived = true -> td = TdOk true /\ ctrlof = [])) /\
      (forall added ok, In (SMeta (MFinalizer added ok)) evs -> added = false).
  Proof.
    intros H. destruct (deletion_pass_shape _ _ _ _ _ H) as (sw1 & tevs & td & tail & Htd & -> & Htail & Hst & Hph).
    pose proof (teardown_of_no_meta _ _ _ _ _ Htd) as Hnm.
    assert (Hin_tail : forall m, In (SMeta m) (tevs ++ tail) -> In (SMeta m) tail).
    { intros m Hi. apply in_app_or in Hi. destruct Hi as [Hi|Hi]; [|exact Hi]. exfalso. unfold no_meta in Hnm. rewrite Forall_forall in Hnm. exact (Hnm _ Hi). }
    exists sw1, tevs, td. split; [exact Htd|]. split.
    { rewrite member_evs_app. replace (member_evs tail) with (@nil ev); [now rewrite app_nil_r|].
      clear -Htail. induction tail as [|e tl IH]; [reflexivity|]. inversion Htail; subst. destruct e as [x|m|p]; try contradiction. cbn. now apply IH. }
    split; [exact Hst|]. split; [exact Hph|]. rewrite Forall_forall in Htail. split; [|split].
    - intros ok Hi. destruct (Htail _ (Hin_tail _ Hi)) as (_ & H1 & H2). auto.
    - intros rev0 conds ctrlof rem fph ok Hi. exact (Htail _ (Hin_tail _ Hi)).
    - intros added ok Hi. now destruct (Htail _ (Hin_tail _ Hi)).
  Qed.
End Deletion.

From Coq Require Import Permutation.

Section SetDeletion.
  Variable force : bool.

  Lemma nodup_flat_map_rev {A B} (f : A -> list B) l : NoDup (flat_map f l) -> NoDup (flat_map f (rev l)).
  Proof. apply Permutation_NoDup. apply Permutation_flat_map. apply Permutation_rev. Qed.

  Lemma filter_rev' {A} (f : A -> bool) l : filter f (rev l) = rev (filter f l).
  Proof.
    induction l as [|x xs IH]; [reflexivity|]. cbn. rewrite filter_app, IH. cbn. destruct (f x); cbn; [reflexivity|now rewrite app_nil_r].
  Qed.

  Lemma local_keys_rev ow phs : NoDup (local_keys ow phs) -> NoDup (local_keys ow (rev phs)).
  Proof. unfold local_keys. rewrite filter_rev'. apply nodup_flat_map_rev. Qed.

  Lemma delegated_names_rev s phs : NoDup (delegated_names s phs) -> NoDup (delegated_names s (rev phs)).
  Proof. unfold delegated_names. rewrite filter_rev', map_rev. apply Permutation_NoDup. apply Permutation_rev. Qed.

  Definition is_going (mem : oset) : Prop :=
    cond_true (os_conds mem) CArchived = false /\ (os_deleting mem = true \/ os_life mem = LArchived).

  Lemma objectset_pass_going sw k ns n mem0 sw' evs r :
    find_set (sw_sets sw) k ns n = Some mem0 -> is_going mem0 ->
    objectset_pass force sw k ns n = (sw', evs, r) -> deletion_pass force sw mem0 = (sw', evs, r).
  Proof.
    intros Hfind (Ha & Hg). unfold objectset_pass. rewrite Hfind, Ha.
    assert (os_deleting mem0 || lifecycle_eqb (os_life mem0) LArchived = true) as ->.
    { destruct Hg as [->| ->]; [reflexivity|apply orb_true_r]. }
    auto.
  Qed.

  Lemma phase_gone_store sw sw' s ow q :
    w_store (sw_w sw') = w_store (sw_w sw) -> sw_phases sw' = sw_phases sw -> phase_gone sw s ow q -> phase_gone sw' s ow q.
  Proof.
    intros Hst Hph. unfold phase_gone, remote_gone, phase_obj_of, td_obj_done. rewrite Hph. destruct (ph_class q); [auto|].
    intros H p Hp. specialize (H p Hp). now rewrite Hst.
  Qed.

  (** C04, mixed lists: the finalizer is removed, or Archived=True reported, only when every phase is finished:
      every object of a local phase is absent or no longer controlled by the ObjectSet (or excluded by the
      teardown preflight), and the phase object of every delegated phase is absent or not controlled by the
      ObjectSet; orphan deletion excepted (C05). *)
  Theorem C04_finalizer_held_until_gone sw k ns n mem0 sw' evs r :
    find_set (sw_sets sw) k ns n = Some mem0 -> is_going mem0 -> desired_keys_nodup mem0 -> phase_names_nodup mem0 ->
    os_fin mem0 = true -> os_orphan mem0 = false ->
    objectset_pass force sw k ns n = (sw', evs, r) ->
    ((exists ok, In (SMeta (MFinalizer false ok)) evs) \/
     (exists rev0 conds ctrlof rem fph ok, In (SMeta (MStatus rev0 conds ctrlof rem fph ok)) evs /\ cond_true conds CArchived = true)) ->
    forall q, In q (os_phases mem0) -> phase_gone sw' mem0 (as_owner mem0) q.
  Proof.
    intros Hfind Hgo Hnd Hndn Hfin Horph H Hev q Hq.
    pose proof (objectset_pass_going _ _ _ _ _ _ _ _ Hfind Hgo H) as Hd.
    destruct (deletion_pass_inv force _ _ _ _ _ Hd) as (sw1 & tevs & td & Htd & _ & Hst & Hph & Hf & Hs & _).
    assert (Htdok : td = TdOk true).
    { destruct Hev as [(ok & Hi)|(rev0 & conds & ctrlof & rem & fph & ok & Hi & Ha)].
      - now destruct (Hf _ Hi).
      - destruct (Hs _ _ _ _ _ _ Hi) as (_ & _ & _ & Hx). now destruct (Hx Ha). }
    subst td. unfold teardown_of in Htd. rewrite Hfin, Horph in Htd.
    assert (Hq' : In q (rev (os_phases mem0))) by now apply in_rev in Hq.
    pose proof (tpm_done force _ _ _ _ _ _ Htd (local_keys_rev _ _ Hnd) (delegated_names_rev _ _ Hndn) q Hq') as Hdone.
    eapply phase_gone_store; eauto.
  Qed.

  (** C04: the finalizer is removed, or Archived=True reported, only when every object listed in the local
      phases is absent or no longer controlled by the ObjectSet (or excluded by the teardown preflight). *)
  Theorem C04_finalizer_held_until_done sw k ns n mem0 sw' evs r :
    find_set (sw_sets sw) k ns n = Some mem0 -> is_going mem0 -> desired_keys_nodup mem0 ->
    os_fin mem0 = true -> os_orphan mem0 = false ->
    objectset_pass force sw k ns n = (sw', evs, r) ->
    ((exists ok, In (SMeta (MFinalizer false ok)) evs) \/
     (exists rev0 conds ctrlof rem fph ok, In (SMeta (MStatus rev0 conds ctrlof rem fph ok)) evs /\ cond_true conds CArchived = true)) ->
    forall q p, In q (local_phases mem0) -> In p (ph_objects q) -> td_obj_done (sw_w sw') (as_owner mem0) p.
  Proof.
    intros Hfind Hgo Hnd Hfin Horph H Hev q p Hq Hp.
    apply filter_In in Hq. destruct Hq as [Hq Hl]. unfold is_local in Hl. apply negb_true_iff in Hl.
    pose proof (objectset_pass_going _ _ _ _ _ _ _ _ Hfind Hgo H) as Hd.
    destruct (deletion_pass_inv force _ _ _ _ _ Hd) as (sw1 & tevs & td & Htd & _ & Hst & Hph & Hf & Hs & _).
    assert (Htdok : td = TdOk true).
    { destruct Hev as [(ok & Hi)|(rev0 & conds & ctrlof & rem & fph & ok & Hi & Ha)].
      - now destruct (Hf _ Hi).
      - destruct (Hs _ _ _ _ _ _ Hi) as (_ & _ & _ & Hx). now destruct (Hx Ha). }
    subst td. unfold teardown_of in Htd. rewrite Hfin, Horph in Htd.
    assert (Hq' : In q (rev (os_phases mem0))) by now apply in_rev in Hq.
    pose proof (tpm_done_local force _ _ _ _ _ _ Htd (local_keys_rev _ _ Hnd) q p Hq' Hl Hp) as Hdone.
    unfold td_obj_done in *. now rewrite Hst.
  Qed.

  (** C04, mixed lists: within a teardown pass a request writes to a phase (deletes / releases a member of a
      local phase, deletes or strips the phase object of a delegated phase) only if every LATER phase is
      already finished. *)
  Theorem C04_reverse_order_mixed sw k ns n mem0 sw' evs r :
    find_set (sw_sets sw) k ns n = Some mem0 -> is_going mem0 -> desired_keys_nodup mem0 -> phase_names_nodup mem0 ->
    objectset_pass force sw k ns n = (sw', evs, r) ->
    forall pre ph post, os_phases mem0 = pre ++ ph :: post ->
      Exists (touches mem0 (as_owner mem0) ph) evs ->
      forall q, In q post -> phase_gone sw' mem0 (as_owner mem0) q.
  Proof.
    intros Hfind Hgo Hnd Hndn H pre ph post Hsplit Hex q Hq.
    pose proof (objectset_pass_going _ _ _ _ _ _ _ _ Hfind Hgo H) as Hd.
    destruct (deletion_pass_shape force _ _ _ _ _ Hd) as (sw1 & tevs & td & tail & Htd & -> & Htail & Hst & Hph).
    assert (Hex_t : Exists (touches mem0 (as_owner mem0) ph) tevs).
    { apply Exists_app in Hex. destruct Hex as [Hex|Hex]; [exact Hex|]. exfalso.
      apply Exists_exists in Hex. destruct Hex as (e & Hin & Ht). rewrite Forall_forall in Htail. specialize (Htail _ Hin).
      destruct e as [x|m|p]; cbn in *; contradiction. }
    unfold teardown_of in Htd.
    destruct (os_fin mem0); [|injection Htd as _ <- _; inversion Hex_t].
    destruct (os_orphan mem0); [injection Htd as _ <- _; inversion Hex_t|].
    assert (Hrev : rev (os_phases mem0) = rev post ++ ph :: rev pre).
    { rewrite Hsplit, rev_app_distr. cbn. now rewrite <- app_assoc. }
    pose proof (tpm_order force _ _ _ _ _ _ _ Htd (local_keys_rev _ _ Hnd) (delegated_names_rev _ _ Hndn) (rev post) ph (rev pre) Hrev Hex_t q) as Hdone.
    eapply phase_gone_store; eauto. apply Hdone. now apply in_rev in Hq.
  Qed.

  (** C04: within a teardown pass a request names an object of a local phase only if every object of every
      LATER local phase is already absent / no longer controlled. *)
  Theorem C04_reverse_order sw k ns n mem0 sw' evs r :
    find_set (sw_sets sw) k ns n = Some mem0 -> is_going mem0 -> desired_keys_nodup mem0 ->
    objectset_pass force sw k ns n = (sw', evs, r) ->
    forall pre ph post, local_phases mem0 = pre ++ ph :: post ->
      Exists (fun e => In (ev_key e) (phase_keys (as_owner mem0) ph)) (member_evs evs) ->
      forall q p, In q post -> In p (ph_objects q) -> td_obj_done (sw_w sw') (as_owner mem0) p.
  Proof.
    intros Hfind Hgo Hnd H pre ph post Hsplit Hex q p Hq Hp.
    destruct (filter_split _ _ _ _ _ Hsplit) as (pre' & post' & Hall & _ & Hpost & Hloc).
    assert (Hc : ph_class ph = false) by (unfold is_local in Hloc; now apply negb_true_iff in Hloc).
    rewrite <- Hpost in Hq. apply filter_In in Hq. destruct Hq as [Hq Hl]. unfold is_local in Hl. apply negb_true_iff in Hl.
    pose proof (objectset_pass_going _ _ _ _ _ _ _ _ Hfind Hgo H) as Hd.
    destruct (deletion_pass_inv force _ _ _ _ _ Hd) as (sw1 & tevs & td & Htd & Hmem & Hst & _).
    rewrite Hmem in Hex. unfold teardown_of in Htd.
    destruct (os_fin mem0); [|injection Htd as _ <- _; inversion Hex].
    destruct (os_orphan mem0); [injection Htd as _ <- _; inversion Hex|].
    assert (Hrev : rev (os_phases mem0) = rev post' ++ ph :: rev pre').
    { rewrite Hall, rev_app_distr. cbn. now rewrite <- app_assoc. }
    pose proof (tpm_order_local force _ _ _ _ _ _ _ Htd (local_keys_rev _ _ Hnd) (rev post') ph (rev pre') Hrev Hc Hex q p) as Hdone.
    unfold td_obj_done in *. rewrite Hst. apply Hdone; [now apply in_rev in Hq|exact Hl|exact Hp].
  Qed.

  (** C05, last clause: an ObjectSet deleted with orphan propagation sends no request for any member (and none
      for a phase object). *)
  Theorem C05_orphan_deletes_nothing sw k ns n mem0 sw' evs r :
    find_set (sw_sets sw) k ns n = Some mem0 -> is_going mem0 -> os_orphan mem0 = true ->
    objectset_pass force sw k ns n = (sw', evs, r) ->
    member_evs evs = [] /\ w_store (sw_w sw') = w_store (sw_w sw).
  Proof.
    intros Hfind Hgo Ho H.
    pose proof (objectset_pass_going _ _ _ _ _ _ _ _ Hfind Hgo H) as Hd.
    destruct (deletion_pass_inv force _ _ _ _ _ Hd) as (sw1 & tevs & td & Htd & Hmem & Hst & _).
    unfold teardown_of in Htd. rewrite Ho in Htd.
    destruct (os_fin mem0); injection Htd as <- <- _; auto.
  Qed.

  (** C06: once Archived=True is recorded the ObjectSet is not reconciled again: no request at all. *)
  Theorem C06_archived_not_reconciled sw k ns n mem0 :
    find_set (sw_sets sw) k ns n = Some mem0 -> cond_true (os_conds mem0) CArchived = true ->
    objectset_pass force sw k ns n = (sw, [], SNothing).
  Proof. intros Hf Ha. unfold objectset_pass. now rewrite Hf, Ha. Qed.

  (** C06: status written while deleting/archiving never carries an Available condition; the request that
      reports Archived=True carries an empty controllerOf. *)
  Theorem C06_archival_status sw k ns n mem0 sw' evs r rev0 conds ctrlof rem fph ok :
    find_set (sw_sets sw) k ns n = Some mem0 -> is_going mem0 ->
    objectset_pass force sw k ns n = (sw', evs, r) ->
    In (SMeta (MStatus rev0 conds ctrlof rem fph ok)) evs ->
    find_cond conds CAvailable = None /\ (cond_true conds CArchived = true -> ctrlof = []).
  Proof.
    intros Hfind Hgo H Hi.
    pose proof (objectset_pass_going _ _ _ _ _ _ _ _ Hfind Hgo H) as Hd.
    destruct (deletion_pass_inv force _ _ _ _ _ Hd) as (sw1 & tevs & td & _ & _ & _ & _ & _ & Hs & _).
    destruct (Hs _ _ _ _ _ _ Hi) as (Ha & _ & _ & Hx). split; [assumption|]. intros Hc. now destruct (Hx Hc).
  Qed.
End SetDeletion.
(** * Succeeded is never withdrawn (C06, history clause) *)
Section Succeeded.
  Variable force : bool.
  Variables k ns n : N.        (* the ObjectSet under consideration *)
  Variable sw0 : sworld.       (* the world before the pass *)

  Definition succ (m : oset) : Prop := cond_true (os_conds m) CSucceeded = true.
  Definition has_key (m : oset) : Prop := oi_kind (os_id m) = k /\ oi_ns (os_id m) = ns /\ oi_name (os_id m) = n.
  (** every stored copy of the ObjectSet has Succeeded=True *)
  Definition all_succ (sw : sworld) : Prop := forall st, In st (sw_sets sw) -> has_key st -> succ st.

  Definition okm (m : oset) : Prop := has_key m /\ (all_succ sw0 -> succ m).
  Definition okw (sw : sworld) : Prop := forall x, In x (sw_sets sw) -> In x (sw_sets sw0) \/ okm x.

  Lemma okw_stored sw st : okw sw -> In st (sw_sets sw) -> has_key st -> okm st.
  Proof. intros Hw Hin Hk. destruct (Hw _ Hin) as [H0|H0]; [|assumption]. split; [assumption|]. intros G. now apply G. Qed.

  Lemma in_put_set sets s x : In x (put_set sets s) -> x = s \/ In x sets.
  Proof.
    induction sets as [|y ys IH]; cbn; [intros [<-|[]]; now left|].
    destruct (oid_eqb (os_id y) (os_id s)); cbn.
    - intros [<-|H]; [now left|right; now right].
    - intros [<-|H]; [right; now left|]. destruct (IH H) as [->|H']; [now left|right; now right].
  Qed.

  Lemma in_del_set sets id x : In x (del_set sets id) -> In x sets.
  Proof. unfold del_set. intros H. apply filter_In in H. tauto. Qed.

  Lemma find_set_in sets k0 ns0 n0 st : find_set sets k0 ns0 n0 = Some st -> In st sets.
  Proof. unfold find_set. intros H. apply find_some in H. tauto. Qed.

  Lemma succ_same_conds a b : os_conds a = os_conds b -> succ b -> succ a.
  Proof. unfold succ. now intros ->. Qed.

  Lemma update_status_ok sw m sw' m' ok :
    okw sw -> okm m -> update_status sw m = (sw', m', ok) -> okw sw' /\ okm m'.
  Proof.
    intros Hw Hm. unfold update_status.
    destruct (find_set _ _ _ _) as [st|] eqn:Ef; [|intros H; injection H as <- <- _; auto].
    destruct (negb _); [intros H; injection H as <- <- _; auto|].
    destruct (status_eqb st m); intros H; injection H as <- <- _; [auto|].
    pose proof (find_set_id _ _ _ _ _ Ef) as Hid. destruct Hm as [(Hk1 & Hk2 & Hk3) Hs].
    assert (Hnew : okm (with_status st m (w_rv (sw_w sw)))).
    { split; [|intros G; eapply succ_same_conds; [|exact (Hs G)]; reflexivity].
      unfold has_key. cbn. destruct Hid as (-> & -> & ->). auto. }
    split; [|exact Hnew]. intros x Hin. cbn in Hin. apply in_put_set in Hin. destruct Hin as [->|Hin]; [now right|now apply Hw].
  Qed.

  Lemma update_status_okw sw m sw' m' ok :
    update_status sw m = (sw', m', ok) -> okw sw -> okm m -> okw sw'.
  Proof. intros E Hw Hm. now destruct (update_status_ok _ _ _ _ _ Hw Hm E). Qed.

  Lemma patch_finalizer_ok sw m fin sw' r :
    okw sw -> okm m -> patch_finalizer sw m fin = (sw', r) ->
    okw sw' /\ match r with Some m' => okm m' | None => True end.
  Proof.
    intros Hw Hm. unfold patch_finalizer.
    destruct (find_set _ _ _ _) as [st|] eqn:Ef; [|intros H; injection H as <- <-; auto].
    destruct (negb (os_rv st =? os_rv m)); [intros H; injection H as <- <-; auto|].
    pose proof (find_set_id _ _ _ _ _ Ef) as Hid. pose proof (find_set_in _ _ _ _ _ Ef) as Hin.
    assert (Hst : okm st).
    { apply (okw_stored sw); auto. destruct Hm as [(Hk1 & Hk2 & Hk3) _]. unfold has_key. destruct Hid as (-> & -> & ->). auto. }
    assert (Hnew : okm (set_fin st fin (w_rv (sw_w sw)))).
    { destruct Hst as [Hk Hs]. split; [exact Hk|]. intros G. eapply succ_same_conds; [|exact (Hs G)]. reflexivity. }
    destruct (negb fin && os_deleting st && negb (os_orphan st)); intros H; injection H as <- <-; (split; [|exact Hnew]).
    - intros x Hx. cbn in Hx. apply in_del_set in Hx. now apply Hw.
    - intros x Hx. cbn in Hx. apply in_put_set in Hx. destruct Hx as [->|Hx]; [now right|now apply Hw].
  Qed.

  Lemma okm_conds m m' : okm m -> os_id m' = os_id m ->
    find_cond (os_conds m') CSucceeded = find_cond (os_conds m) CSucceeded -> okm m'.
  Proof.
    intros [(H1 & H2 & H3) Hs] Hid Hc. split; [unfold has_key; now rewrite Hid|].
    intros G. specialize (Hs G). unfold succ, cond_true in *. now rewrite Hc.
  Qed.


  Lemma revision_pass_ok sw mem sw1 evs1 mem1 rr :
    okw sw -> okm mem -> revision_pass sw mem = (sw1, evs1, mem1, rr) -> okw sw1 /\ okm mem1.
  Proof.
    intros Hw Hm. unfold revision_pass.
    destruct (negb (Z.eqb (os_revision mem) 0)); [intros H; injection H as <- _ <- _; auto|].
    destruct (os_prev mem); [intros H; injection H as <- _ <- _; split; [auto|eapply okm_conds; [exact Hm|reflexivity|reflexivity]]|].
    destruct (scan_prev _ _ _ _) as [[latest|]|].
    - destruct (update_status sw (set_revision mem (latest + 1))) as [[sw2 m2] ok] eqn:Eu.
      intros H; injection H as <- _ <- _. eapply update_status_ok; [exact Hw| |exact Eu]. eapply okm_conds; [exact Hm|reflexivity|reflexivity].
    - intros H; injection H as <- _ <- _; auto.
    - intros H; injection H as <- _ <- _; auto.
  Qed.

  Lemma okw_sets sw sw' : sw_sets sw' = sw_sets sw -> okw sw -> okw sw'.
  Proof. unfold okw. now intros ->. Qed.

  Lemma active_body_ok sw evs0 mem sw' evs r :
    okw sw -> okm mem -> active_body force sw evs0 mem = (sw', evs, r) -> okw sw'.
  Proof.
    intros Hw Hm. unfold active_body.
    destruct (revision_pass sw mem) as [[[sw1 evs1] mem1] rr] eqn:Erev.
    destruct (revision_pass_ok _ _ _ _ _ _ Hw Hm Erev) as [Hw1 Hm1].
    assert (Hfail : forall (mx : oset) sw2 evsx rs swf evsf rf, okw sw2 -> okm mx ->
              (let m' := set_conds mx (set_cond (os_conds mx) (mk_cond mx CAvailable SFalse rs)) in
               let '(sw'', _, ok) := update_status sw2 m' in
               (sw'', evsx ++ [status_ev m' ok], if ok then SDone true else SError)) = (swf, evsf, rf) -> okw swf).
    { intros mx sw2 evsx rs swf evsf rf Hw2 Hmx. cbv zeta. destruct (update_status sw2 _) as [[sw3 m3] ok] eqn:Eu.
      intros H. injection H as <- _ _. eapply update_status_okw; [exact Eu|exact Hw2|].
      eapply okm_conds; [exact Hmx|reflexivity|]. cbn [os_conds set_conds]. apply find_set_cond_other. cbn. discriminate. }
    destruct rr.
    - destruct (Nat.ltb 0 (dup_count [] (map (spec_key mem1) (all_objects mem1)))); [intros H; eapply Hfail; eauto|].
      destruct (reconcile_phases_m force sw1 mem1 (as_owner mem1) _ _ [] (os_remotes mem1)) as [[[sw2 pevs] rem] pr] eqn:Erp.
      destruct (rpm_inv force _ _ _ _ _ _ _ _ _ _ _ Erp) as (Hsets & _).
      pose proof (okw_sets _ _ Hsets Hw1) as Hw2.
      assert (Hm2 : okm (set_remotes mem1 rem)) by (eapply okm_conds; [exact Hm1|reflexivity|reflexivity]).
      destruct pr as [e| | |ctrlof failed].
      + destruct e; try (intros H; eapply Hfail; [exact Hw2|exact Hm2|exact H]); intros H; injection H as <- _ _; exact Hw2.
      + intros H. injection H as <- _ _. exact Hw2.
      + intros H; eapply Hfail; [exact Hw2|exact Hm2|exact H].
      + destruct (update_status sw2 (final_status (sw_phases sw2) (set_remotes mem1 rem) ctrlof failed)) as [[sw3 m3] ok] eqn:Eu.
        intros H. injection H as <- _ _. eapply update_status_okw; [exact Eu|exact Hw2|].
        destruct Hm2 as [Hk Hs]. split; [exact Hk|]. intros G. now apply final_status_succeeded, Hs.
    - destruct (update_status sw1 _) as [[sw2 m2] ok] eqn:Eu. intros H. injection H as <- _ _.
      eapply update_status_okw; [exact Eu|exact Hw1|].
      eapply okm_conds; [exact Hm1|reflexivity|]. cbn [os_conds set_conds]. apply paused_cond_other. discriminate.
    - intros H. injection H as <- _ _. exact Hw1.
  Qed.

  Lemma deletion_pass_ok sw mem sw' evs r :
    okw sw -> okm mem -> deletion_pass force sw mem = (sw', evs, r) -> okw sw'.
  Proof.
    intros Hw Hm. unfold deletion_pass.
    set (archived := lifecycle_eqb (os_life mem) LArchived).
    change (if os_fin mem then if os_orphan mem then (sw, [], TdOk true)
            else teardown_phases_m force sw mem (as_owner mem) (rev (os_phases mem))
            else (sw, [], TdOk true)) with (teardown_of force sw mem).
    destruct (teardown_of force sw mem) as [[sw1 tevs] td] eqn:Etd.
    assert (Hw1 : okw sw1).
    { unfold teardown_of in Etd. destruct (os_fin mem); [|injection Etd as <- _ _; exact Hw].
      destruct (os_orphan mem); [injection Etd as <- _ _; exact Hw|].
      destruct (tpm_inv force _ _ _ _ _ _ _ Etd) as (Hsets & _). exact (okw_sets _ _ Hsets Hw). }
    assert (Hfinish : forall swx evs1 mem1 swf evsf rf,
       (if negb archived then (swx, evs1, SDone false)
        else let '(sw'', _, ok) := update_status swx (set_conds mem1 (remove_cond (os_conds mem1) CAvailable)) in
             (sw'', evs1 ++ [status_ev (set_conds mem1 (remove_cond (os_conds mem1) CAvailable)) ok], if ok then SDone false else SError)) = (swf, evsf, rf) ->
       okw swx -> okm mem1 -> okw swf).
    { intros swx evs1 mem1 swf evsf rf. destruct (negb archived); [intros H Hwx Hm1; injection H as <- _ _; exact Hwx|].
      destruct (update_status swx _) as [[sw2 m2] ok] eqn:Eu. intros H Hwx Hm1. injection H as <- _ _.
      eapply update_status_okw; [exact Eu|exact Hwx|].
      eapply okm_conds; [exact Hm1|reflexivity|]. cbn [os_conds set_conds]. apply find_remove_cond_other. discriminate. }
    assert (Harch_ok : forall m0, okm m0 -> okm (if archived then set_ctrlof (set_conds m0 (set_cond (os_conds m0) (mk_cond m0 CArchived STrue RArchived))) [] else m0)).
    { intros m0 H0. destruct archived; [|exact H0]. eapply okm_conds; [exact H0|reflexivity|].
      cbn [os_conds set_conds set_ctrlof]. apply find_set_cond_other. cbn. discriminate. }
    destruct td as [|[|]].
    - intros H. injection H as <- _ _. exact Hw1.
    - destruct (os_fin mem).
      + destruct (patch_finalizer sw1 mem false) as [sw2 [mem2|]] eqn:Ep;
          destruct (patch_finalizer_ok _ _ _ _ _ Hw1 Hm Ep) as [Hw2 Hm2].
        * intros H. eapply Hfinish; [exact H|exact Hw2|]. now apply Harch_ok.
        * intros H. injection H as <- _ _. exact Hw2.
      + intros H. eapply Hfinish; [exact H|exact Hw1|]. now apply Harch_ok.
    - intros H. eapply Hfinish; [exact H|exact Hw1|].
      destruct archived; [|exact Hm]. eapply okm_conds; [exact Hm|reflexivity|].
      cbn [os_conds set_conds]. apply find_set_cond_other. cbn. discriminate.
  Qed.

  (** One Reconcile of the ObjectSet never withdraws Succeeded: if every stored copy had it before, every
      stored copy has it afterwards. *)
  Theorem C06_succeeded_never_withdrawn sw' evs r :
    all_succ sw0 -> objectset_pass force sw0 k ns n = (sw', evs, r) -> all_succ sw'.
  Proof.
    intros G H.
    assert (Hw0 : okw sw0) by (intros x Hx; now left).
    assert (Hfin : okw sw' -> all_succ sw').
    { intros Hw st Hin Hk. destruct (Hw _ Hin) as [H0|[_ H0]]; [now apply G|now apply H0]. }
    apply Hfin. unfold objectset_pass in H.
    destruct (find_set (sw_sets sw0) k ns n) as [mem|] eqn:Ef; [|now injection H as <- _ _].
    destruct (cond_true (os_conds mem) CArchived); [now injection H as <- _ _|].
    assert (Hm : okm mem).
    { split; [exact (find_set_id _ _ _ _ _ Ef)|]. intros _. apply G; [eapply find_set_in; eauto|exact (find_set_id _ _ _ _ _ Ef)]. }
    destruct (os_deleting mem || lifecycle_eqb (os_life mem) LArchived).
    - eapply deletion_pass_ok; eauto.
    - unfold active_pass in H. destruct (os_fin mem); [eapply active_body_ok; eauto|].
      destruct (patch_finalizer sw0 mem true) as [sw1 [m|]] eqn:Ep;
        destruct (patch_finalizer_ok _ _ _ _ _ Hw0 Hm Ep) as [Hw1 Hm1].
      + eapply active_body_ok; eauto.
      + now injection H as <- _ _.
  Qed.
End Succeeded.

(** * The duplicate check makes the NoDup hypotheses of the theorems above redundant *)
Section DupFree.
  Variable force : bool.

  Lemma dup_count_zero ks : forall seen,
    dup_count seen ks = O -> NoDup ks /\ forall k, In k ks -> ~ In k seen.
  Proof.
    induction ks as [|k r IH]; intros seen H; cbn in H.
    - split; [constructor|]. intros k [].
    - destruct (existsb (okey_eqb k) seen) eqn:E; [discriminate|].
      destruct (IH _ H) as [Hnd Hdis]. split.
      + constructor; [|exact Hnd]. intros Hin. apply (Hdis k Hin). now left.
      + intros k0 [<-|Hin] Hs.
        * assert (existsb (okey_eqb k) seen = true) by (apply existsb_exists; exists k; split; [assumption|apply okey_eqb_refl]). congruence.
        * apply (Hdis k0 Hin). now right.
  Qed.

  Lemma nodup_flat_map_filter {A B} (f : A -> list B) (g : A -> bool) l :
    NoDup (flat_map f l) -> NoDup (flat_map f (filter g l)).
  Proof.
    induction l as [|x xs IH]; cbn; [auto|]. intros H.
    pose proof (NoDup_app_r _ _ H) as Hr. destruct (g x); cbn; [|now apply IH].
    (* f x ++ flat_map f (filter g xs): sub-sequence of a NoDup list *)
    pose proof (NoDup_app_l _ _ H) as Hl. specialize (IH Hr).
    clear Hr. induction (f x) as [|b bs IHb]; cbn; [exact IH|].
    cbn in H, Hl. inversion H as [|? ? Hnotin Hnd]; subst. inversion Hl; subst.
    constructor; [|apply IHb; assumption].
    intros Hin. apply Hnotin. apply in_app_or in Hin. apply in_or_app. destruct Hin as [Hin|Hin]; [now left|right].
    apply in_flat_map in Hin. destruct Hin as (y & Hy & Hby). apply in_flat_map. exists y. split; [|assumption].
    apply filter_In in Hy. tauto.
  Qed.

  Lemma all_keys_flat m : map (spec_key m) (all_objects m) = flat_map (phase_keys (as_owner m)) (os_phases m).
  Proof.
    unfold all_objects, phase_keys, spec_key, key_of. induction (os_phases m) as [|ph r IH]; cbn; [reflexivity|].
    now rewrite map_app, IH.
  Qed.

  Lemma dup_zero_nodup m : dup_count [] (map (spec_key m) (all_objects m)) = O -> desired_keys_nodup m.
  Proof.
    intros H. destruct (dup_count_zero _ _ H) as [Hnd _]. rewrite all_keys_flat in Hnd.
    unfold desired_keys_nodup, local_phases. now apply nodup_flat_map_filter.
  Qed.

  Lemma desired_keys_nodup_same m1 m0 : same_spec m1 m0 -> desired_keys_nodup m1 -> desired_keys_nodup m0.
  Proof.
    intros Hs. unfold desired_keys_nodup. destruct (as_owner_keys _ _ Hs) as (Hl & _). rewrite Hl.
    intros H. erewrite flat_map_ext; [exact H|]. intros ph. symmetry. now apply phase_keys_same.
  Qed.

  (** C03 without any hypothesis on the spec: the duplicate check of the same pass supplies it. *)
  Theorem C03_rollout_gated_all sw k ns n mem0 sw' evs r :
    find_set (sw_sets sw) k ns n = Some mem0 -> is_active mem0 ->
    objectset_pass force sw k ns n = (sw', evs, r) ->
    forall pre ph post, local_phases mem0 = pre ++ ph :: post ->
      Exists (fun e => In (ev_key e) (phase_keys (as_owner mem0) ph)) (member_evs evs) ->
      forall q, In q pre -> phase_ok (sw_w sw') (as_owner mem0) q.
  Proof.
    intros Hfind Hact H pre ph post Hsplit Hex q Hq.
    destruct (objectset_pass_active force _ _ _ _ _ _ _ _ Hfind Hact H) as [(_ & _ & _ & Hkeep)|Hr].
    - rewrite (status_keeps_members _ _ Hkeep) in Hex. inversion Hex.
    - destruct Hr as (mem1 & sw1 & sw2 & pevs & rem & pr & pre0 & Hs & _ & _ & _ & Hdup & _).
      eapply C03_rollout_gated; eauto. eapply desired_keys_nodup_same; [exact Hs|]. now apply dup_zero_nodup.
  Qed.

  (** C03 for mixed phase lists; the names of the phase objects of the delegated phases are distinct. *)
  Theorem C03_rollout_gated_mixed_all sw k ns n mem0 sw' evs r :
    find_set (sw_sets sw) k ns n = Some mem0 -> is_active mem0 -> phase_names_nodup mem0 ->
    objectset_pass force sw k ns n = (sw', evs, r) ->
    forall pre ph post, os_phases mem0 = pre ++ ph :: post ->
      Exists (touches mem0 (as_owner mem0) ph) evs ->
      forall q, In q pre -> phase_done sw' mem0 (as_owner mem0) q.
  Proof.
    intros Hfind Hact Hndn H pre ph post Hsplit Hex q Hq.
    destruct (objectset_pass_active force _ _ _ _ _ _ _ _ Hfind Hact H) as [(_ & _ & _ & Hkeep)|Hr].
    - exfalso. apply Exists_exists in Hex. destruct Hex as (e & Hin & Ht). rewrite Forall_forall in Hkeep. specialize (Hkeep _ Hin).
      destruct e as [x|m|p]; cbn in *; try contradiction. destruct Ht as [_ Ht]. destruct p; cbn in *; contradiction.
    - destruct Hr as (mem1 & sw1 & sw2 & pevs & rem & pr & pre0 & Hs & _ & _ & _ & Hdup & _).
      eapply C03_rollout_gated_mixed; eauto. eapply desired_keys_nodup_same; [exact Hs|]. now apply dup_zero_nodup.
  Qed.

  Theorem C06_available_true_justified_all sw k ns n mem0 sw' evs r rev conds ctrlof rem fph ok cd :
    find_set (sw_sets sw) k ns n = Some mem0 -> is_active mem0 ->
    objectset_pass force sw k ns n = (sw', evs, r) ->
    In (SMeta (MStatus rev conds ctrlof rem fph ok)) evs ->
    find_cond conds CAvailable = Some cd -> cd_status cd = STrue ->
    find_cond (os_conds mem0) CAvailable <> Some cd ->
    cd_gen cd = os_gen mem0 /\ fph = None /\
    (forall q, In q (local_phases mem0) -> phase_ok (sw_w sw') (as_owner mem0) q) /\
    (forall q, In q (delegated_phases mem0) -> exists cur, own_phase_read mem0 evs q cur /\ avail_current cur) /\
    (forall key, In key ctrlof -> seen_controlled (sw_w sw') (as_owner mem0) key \/ reported_by_phase mem0 (os_phases mem0) evs key) /\
    (forall x, In x rem -> In x (os_remotes mem0) \/
       exists q cur, In q (os_phases mem0) /\ ph_class q = true /\ own_phase_read mem0 evs q cur /\ x = (pobj_name mem0 q, oi_uid (op_id cur))) /\
    (forall key, In key (flat_map (phase_keys (as_owner mem0)) (local_phases mem0)) ->
                 seen_controlled (sw_w sw') (as_owner mem0) key -> In key ctrlof).
  Proof.
    intros Hfind Hact H Hin Hfc Hst Hnew.
    destruct (objectset_pass_active force _ _ _ _ _ _ _ _ Hfind Hact H) as [(_ & _ & _ & Hkeep)|Hr].
    - exfalso. rewrite Forall_forall in Hkeep. specialize (Hkeep _ Hin). cbn in Hkeep.
      destruct Hkeep as (_ & [Ha|(cd' & Ha & Hf)] & _).
      + apply Hnew. now rewrite <- Ha.
      + rewrite Hfc in Ha. injection Ha as <-. rewrite Hst in Hf. discriminate.
    - destruct Hr as (mem1 & sw1 & sw2 & pevs & rem0 & pr & pre0 & Hs & _ & _ & _ & Hdup & _).
      eapply C06_available_true_justified; eauto. eapply desired_keys_nodup_same; [exact Hs|]. now apply dup_zero_nodup.
  Qed.
End DupFree.
